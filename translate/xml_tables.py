"""Tie A for property C13 (T3 + T5 + T7): the XML codec tables.

Re-reads on EVERY run
  crates/s3s/src/xml/generated.rs      the 532 generated impls (shapes fixed by codegen/src/v1/xml.rs)
  crates/s3s/src/xml/mod.rs            the hand-written `manually` module (two types)
  crates/s3s/src/dto/generated.rs      type kinds (alias / str-enum / struct / union / list / timestamp)
  data/s3.json, data/sts.json [, data/minio-patches.json]   the Smithy model as codegen/src/v1/mod.rs joins it
and emits
  lean/S3V/Gen/XmlNames.lean     the enumeration `Ty` of XML struct/union types, tag byte strings
  lean/S3V/Gen/XmlSer.lean       serialiser schema per type  (what `impl SerializeContent` / `Serialize` writes)
  lean/S3V/Gen/XmlDe.lean        deserialiser schema per type (what `impl DeserializeContent` / `Deserialize` reads)
  lean/S3V/Gen/XmlSmithy.lean    the same schema shape derived from the Smithy traits only
  harness/src/gen_xml_dispatch.rs   `roundtrip(type_name, xml)`: one arm per type with a decoder and an encoder
  harness/src/gen_xml_tables.json   JSON copy of the deserialiser/serialiser tables for the document generator
  harness/src/gen_xml_build.rs      Smithy-driven constructors of every dto type that can occur in the XML response
                                    body of an operation (component svcoutput, C03): member names, element names, list
                                    shapes and timestamp formats from data/s3.json only, Rust field names by the
                                    codegen naming rule (checked against dto/generated.rs, and by rustc)

The translator is deliberately dumb: every impl body is split into statements and each statement must match
one of the shapes the codegen templates can print; anything else raises `Unrecognised`. It never guesses.
Files are rewritten only when their content changes.
"""
import json
import os
import re


class Unrecognised(Exception):
    pass


def fail(msg):
    raise Unrecognised(msg)


# ------------------------------------------------------------------------------------------------
# dto/generated.rs  (T7): type kinds


def strip_rust_comments(src):
    out = []
    for line in src.split("\n"):
        s = line.lstrip()
        if s.startswith("//"):
            continue
        out.append(line)
    return "\n".join(out)


def parse_dto(src):
    """name -> ('alias', prim) | ('list', member) | ('map', k, v) | ('timestamp',) | ('strenum',)
               | ('struct', [(field, type, optional)]) | ('union', [(variant, type)])"""
    src = strip_rust_comments(src)
    # the generated part ends where the builders / tests start; type items are all at column 0
    types = {}

    def put(name, val):
        if name in types:
            fail(f"dto: type {name} defined twice")
        types[name] = val

    for m in re.finditer(r"^pub type (\w+) = ([^;]+);", src, re.M):
        name, rhs = m.group(1), m.group(2).strip()
        if rhs in ("String", "i32", "i64", "bool"):
            put(name, ("alias", rhs))
        elif rhs == "Timestamp":
            put(name, ("timestamp",))
        elif re.fullmatch(r"List<(\w+)>", rhs):
            put(name, ("list", re.fullmatch(r"List<(\w+)>", rhs).group(1)))
        elif re.fullmatch(r"Map<(\w+), (\w+)>", rhs):
            mm = re.fullmatch(r"Map<(\w+), (\w+)>", rhs)
            put(name, ("map", mm.group(1), mm.group(2)))
        else:
            fail(f"dto: unrecognised type alias `pub type {name} = {rhs};`")
    for m in re.finditer(r"^pub struct (\w+)\(Cow<'static, str>\);", src, re.M):
        put(m.group(1), ("strenum",))
    for m in re.finditer(r"^pub struct (\w+) \{\n(.*?)^\}", src, re.M | re.S):
        name, body = m.group(1), m.group(2)
        fields = []
        for line in body.split("\n"):
            line = line.strip()
            if not line or line.startswith("#["):
                continue
            fm = re.fullmatch(r"pub (\w+): (Option<(\w+)>|(\w+)),", line)
            if not fm:
                fail(f"dto: struct {name}: unrecognised field line `{line}`")
            if fm.group(3):
                fields.append((fm.group(1), fm.group(3), True))
            else:
                fields.append((fm.group(1), fm.group(4), False))
        if name.endswith("Builder"):
            continue
        put(name, ("struct", fields))
    for m in re.finditer(r"^pub struct (\w+) \{\}", src, re.M):
        if m.group(1) not in types:
            put(m.group(1), ("struct", []))
    for m in re.finditer(r"^pub enum (\w+) \{\n(.*?)^\}", src, re.M | re.S):
        name, body = m.group(1), m.group(2)
        variants = []
        for line in body.split("\n"):
            line = line.strip()
            if not line or line.startswith("#["):
                continue
            vm = re.fullmatch(r"(\w+)\((\w+)\),", line)
            if not vm:
                fail(f"dto: enum {name}: unrecognised variant line `{line}`")
            variants.append((vm.group(1), vm.group(2)))
        put(name, ("union", variants))
    # provided by hand in dto/event.rs: a string newtype (`impl DeserializeContent for dto::Event` in xml/de.rs)
    if "Event" not in types:
        types["Event"] = ("strenum",)
    return types


# ------------------------------------------------------------------------------------------------
# xml/generated.rs (T3)


def split_impls(src):
    """yield (trait, type, body_text) for every `impl … for T { … }` at column 0"""
    src = strip_rust_comments(src)
    pos = 0
    out = []
    head = re.compile(r"^impl(?:<'xml>)? (Serialize|SerializeContent|Deserialize<'xml>|DeserializeContent<'xml>) for (\w+) \{\n", re.M)
    while True:
        m = head.search(src, pos)
        if not m:
            break
        end = src.find("\n}\n", m.end() - 1)
        if end < 0:
            fail(f"xml: impl {m.group(1)} for {m.group(2)}: no closing brace at column 0")
        out.append((m.group(1).replace("<'xml>", ""), m.group(2), src[m.end():end]))
        pos = end + 2
    # everything outside impls must be the fixed prelude
    return out


def norm(s):
    return re.sub(r"\s+", " ", s).strip()


def fn_body(ty, trait, text, sig_re):
    t = norm(text)
    m = re.fullmatch(sig_re + r" \{ (.*) \}", t)
    if not m:
        fail(f"xml: impl {trait} for {ty}: unrecognised function signature: {t[:120]}")
    return m.group(m.lastindex)


SER_SIG = r"fn serialize_content<W: Write>\(&self, (s|_): &mut Serializer<W>\) -> SerResult"
DE_SIG = r"fn deserialize_content\((d|_): &mut Deserializer<'xml>\) -> DeResult<Self>"
SER_ROOT_SIG = r"fn serialize<W: (?:std::io::)?Write>\(&self, (s): &mut Serializer<W>\) -> SerResult"
DE_ROOT_SIG = r"fn deserialize\((d): &mut Deserializer<'xml>\) -> DeResult<Self>"

TS_FORMATS = {"DateTime": "dateTime", "HttpDate": "httpDate", "EpochSeconds": "epochSeconds"}


XMLNS_XSI = "http://www.w3.org/2001/XMLSchema-instance"
ATTRS_FN = re.compile(r"(.*) fn attributes\(&self\) -> Vec<\(&str, &str\)> \{ vec!\[ ?(.*?),? ?\] \}")


def parse_attributes_fn(ty, items_text):
    """the body `vec![…]` of a generated `fn attributes(&self)`: a list of `("name", self.field.as_str())` items, each
    one with a prefixed name directly preceded by the declaration of its prefix `("xmlns:xsi", XMLNS_XSI)` — the only
    prefix the Lean model knows (`Xml.nsDeclFor`), and at most one prefixed attribute per struct.
    -> [{'tag', 'field'}] in list order"""
    item_re = re.compile(r'\("([^"]+)", (?:(XMLNS_XSI)|self\.(\w+)\.as_str\(\))\)(?:, |$)')
    items = []
    p = 0
    text = items_text.strip()
    while p < len(text):
        m = item_re.match(text, p)
        if not m:
            fail(f"xml: SerializeContent for {ty}: fn attributes: unrecognised item at `{text[p:p+80]}`")
        items.append((m.group(1), m.group(2), m.group(3)))
        p = m.end()
    if not items:
        fail(f"xml: SerializeContent for {ty}: fn attributes lists nothing")
    attrs = []
    prefixed = 0
    i = 0
    while i < len(items):
        name, const, field = items[i]
        if const is not None:
            if name != "xmlns:xsi":
                fail(f"xml: SerializeContent for {ty}: fn attributes: constant attribute {name} is not the declaration xmlns:xsi")
            if i + 1 >= len(items) or items[i + 1][1] is not None or not items[i + 1][0].startswith("xsi:"):
                fail(f"xml: SerializeContent for {ty}: fn attributes: the declaration xmlns:xsi is not directly followed by an xsi: attribute")
            i += 1
            name, const, field = items[i]
            prefixed += 1
        elif ":" in name:
            fail(f"xml: SerializeContent for {ty}: fn attributes: attribute {name} has a prefix but its declaration does not stand directly in front of it")
        if name.startswith("xmlns") or not re.fullmatch(r"[A-Za-z_][A-Za-z0-9_.:-]*", name):
            fail(f"xml: SerializeContent for {ty}: fn attributes: attribute name {name!r}")
        attrs.append({"tag": name, "field": field})
        i += 1
    if prefixed > 1:
        fail(f"xml: SerializeContent for {ty}: fn attributes: more than one prefixed attribute (the Lean model writes one "
             "declaration per prefixed attribute; extend Xml.attrPairs)")
    if len(set(a["tag"] for a in attrs)) != len(attrs) or len(set(a["field"] for a in attrs)) != len(attrs):
        fail(f"xml: SerializeContent for {ty}: fn attributes: an attribute or a field is listed twice")
    return attrs


def parse_ser_content(ty, text, dto):
    """-> ('strenum',) | ('union', [(tag, variant)]) | ('struct', [field dict])"""
    attr_items = None
    m = ATTRS_FN.fullmatch(norm(text))
    if m:
        # `fn serialize_content … { … }` followed by `fn attributes(&self) -> Vec<(&str, &str)> { vec![…] }` (since 680006e)
        text, attr_items = m.group(1), parse_attributes_fn(ty, m.group(2))
    elif "fn attributes" in text:
        fail(f"xml: SerializeContent for {ty}: unrecognised `fn attributes`")
    body = fn_body(ty, "SerializeContent", text, SER_SIG)
    if attr_items is not None and (body == "self.as_str().serialize_content(s)" or body.startswith("match self {")):
        fail(f"xml: SerializeContent for {ty}: fn attributes on a type that is not a struct")
    if body == "self.as_str().serialize_content(s)":
        return ("strenum",)
    m = re.fullmatch(r"match self \{ (.*) \}", body)
    if m:
        arms = []
        rest = m.group(1)
        arm_re = re.compile(r'Self::(\w+)\(x\) => s\.content\("([^"]+)", x\), ?')
        p = 0
        while p < len(rest):
            am = arm_re.match(rest, p)
            if not am:
                fail(f"xml: SerializeContent for {ty}: unrecognised match arm at `{rest[p:p+80]}`")
            arms.append({"tag": am.group(2), "variant": am.group(1)})
            p = am.end()
        return ("union", arms)
    # struct: statement list
    fields = []
    p = 0
    pats = [
        ("always", re.compile(r's\.content\("([^"]+)", &self\.(\w+)\)\?; ')),
        ("ifsome", re.compile(r'if let Some\(ref val\) = self\.(\w+) \{ s\.content\("([^"]+)", val\)\?; \} ')),
        ("skipzero", re.compile(r'if self\.(\w+) != 0 \{ s\.content\("([^"]+)", &self\.(\w+)\)\?; \} ')),
        ("ts_always", re.compile(r's\.timestamp\("([^"]+)", &self\.(\w+), TimestampFormat::(\w+)\)\?; ')),
        ("ts_ifsome", re.compile(r'if let Some\(ref val\) = self\.(\w+) \{ s\.timestamp\("([^"]+)", val, TimestampFormat::(\w+)\)\?; \} ')),
        ("list_ifsome", re.compile(r'if let Some\(iter\) = &self\.(\w+) \{ s\.(list|flattened_list)\("([^"]+)"(?:, "([^"]+)")?, iter\)\?; \} ')),
        ("list_always", re.compile(r'\{ let iter = &self\.(\w+); s\.(list|flattened_list)\("([^"]+)"(?:, "([^"]+)")?, iter\)\?; \} ')),
    ]
    body = body + " "
    while True:
        if body[p:] == "Ok(()) ":
            break
        for kind, pat in pats:
            m = pat.match(body, p)
            if m:
                break
        else:
            fail(f"xml: SerializeContent for {ty}: unrecognised statement at `{body[p:p+100]}`")
        p = m.end()
        if kind == "always":
            fields.append({"tag": m.group(1), "field": m.group(2), "pres": "req", "shape": "single"})
        elif kind == "ifsome":
            fields.append({"tag": m.group(2), "field": m.group(1), "pres": "opt", "shape": "single"})
        elif kind == "skipzero":
            fail(f"xml: SerializeContent for {ty}: member {m.group(2)} is skipped when zero — the template shape is known "
                 "but the Lean schema has no presence kind for it yet (extend Pres with skipDflt)")
        elif kind == "ts_always":
            fields.append({"tag": m.group(1), "field": m.group(2), "pres": "req", "shape": "single", "ts": m.group(3)})
        elif kind == "ts_ifsome":
            fields.append({"tag": m.group(2), "field": m.group(1), "pres": "opt", "shape": "single", "ts": m.group(3)})
        else:
            pres = "opt" if kind == "list_ifsome" else "req"
            fn, tag, member = m.group(2), m.group(3), m.group(4)
            if fn == "list":
                if member is None:
                    fail(f"xml: SerializeContent for {ty}: s.list without member name")
                fields.append({"tag": tag, "field": m.group(1), "pres": pres, "shape": "wrapped", "member": member})
            else:
                if member is not None:
                    fail(f"xml: SerializeContent for {ty}: s.flattened_list with two names")
                fields.append({"tag": tag, "field": m.group(1), "pres": pres, "shape": "flat"})
    # members bound to attributes come last, in the order `fn attributes` lists them (the deserialiser table is
    # ordered the same way): `self.field.as_str()` without `if let` = a plain (required) field
    for a in attr_items or []:
        if any(f["field"] == a["field"] or f["tag"] == a["tag"] for f in fields):
            fail(f"xml: SerializeContent for {ty}: {a['field']} / {a['tag']} is written as an element and as an attribute")
        fields.append({"tag": a["tag"], "field": a["field"], "pres": "req", "shape": "single", "attr": True})
    # kinds come from the struct definition in dto/generated.rs
    d = dto.get(ty)
    if not d or d[0] != "struct":
        fail(f"xml: SerializeContent for {ty} has struct shape but dto says {d and d[0]}")
    dfields = {f: (t, o) for f, t, o in d[1]}
    for f in fields:
        if f["field"] not in dfields:
            fail(f"xml: SerializeContent for {ty}: field {f['field']} not in the dto struct")
        fty, fopt = dfields[f["field"]]
        if fopt != (f["pres"] == "opt"):
            fail(f"xml: SerializeContent for {ty}.{f['field']}: statement shape says {f['pres']} but dto field is "
                 f"{'Option' if fopt else 'plain'}")
        resolve_kind(ty, f, fty, dto)
        if f.get("attr") and f["kind"] not in ("str", "enm"):
            fail(f"xml: SerializeContent for {ty}.{f['field']}: attribute of kind {f['kind']} (only strings have `.as_str()`)")
    return ("struct", fields)


def resolve_kind(ty, f, fty, dto):
    """fill f['kind'] (+ 'ref', 'fmt') from the Rust type name of the member (list types are unfolded)"""
    k = dto.get(fty)
    if k is None:
        fail(f"xml: {ty}.{f['field']}: type {fty} not found in dto/generated.rs")
    if f["shape"] in ("wrapped", "flat"):
        if k[0] != "list":
            fail(f"xml: {ty}.{f['field']}: list statement but dto type {fty} is {k[0]}")
        if "member_type" in f and f["member_type"] != k[1]:
            fail(f"xml: {ty}.{f['field']}: `let ans: {f['member_type']}` but dto list member is {k[1]}")
        fty = k[1]
        k = dto.get(fty)
        if k is None:
            fail(f"xml: {ty}.{f['field']}: list member type {fty} not found in dto/generated.rs")
    elif k[0] == "list":
        fail(f"xml: {ty}.{f['field']}: dto type {fty} is a list but the statement is not a list statement")
    if "ts" in f:
        if k[0] != "timestamp":
            fail(f"xml: {ty}.{f['field']}: timestamp statement but dto type {fty} is {k[0]}")
        if f["ts"] not in TS_FORMATS:
            fail(f"xml: {ty}.{f['field']}: unknown TimestampFormat::{f['ts']}")
        f["kind"] = "ts"
        f["fmt"] = TS_FORMATS[f.pop("ts")]
    elif k[0] == "alias":
        f["kind"] = {"String": "str", "i32": "i32", "i64": "i64", "bool": "bool"}[k[1]]
    elif k[0] == "strenum":
        f["kind"] = "enm"
    elif k[0] in ("struct", "union"):
        f["kind"] = "ref"
        f["ref"] = fty
    elif k[0] == "timestamp":
        fail(f"xml: {ty}.{f['field']}: dto type {fty} is a timestamp but the statement is s.content / d.content")
    else:
        fail(f"xml: {ty}.{f['field']}: dto kind {k[0]} of {fty} cannot be carried in XML")
    f["rust_type"] = fty


def parse_de_content(ty, text, dto):
    body = fn_body(ty, "DeserializeContent", text, DE_SIG)
    if body == "String::deserialize_content(d).map(Self::from)":
        return ("strenum",)
    m = re.fullmatch(r"d\.element\(\|d, x\| match x \{ (.*) _ => Err\(DeError::UnexpectedTagName\), \}\)", body)
    if m:
        arms = []
        rest = m.group(1)
        arm_re = re.compile(r'b"([^"]+)" => Ok\(Self::(\w+)\(d\.content\(\)\?\)\), ?')
        p = 0
        while p < len(rest):
            am = arm_re.match(rest, p)
            if not am:
                fail(f"xml: DeserializeContent for {ty}: unrecognised union arm at `{rest[p:p+80]}`")
            arms.append({"tag": am.group(1), "variant": am.group(2)})
            p = am.end()
        return ("union", arms)
    if body == "Ok(Self {})":
        return ("struct", [])
    # let mut x: Option<T> = None; …  d.for_each_element(|d, x| match x { arms _ => Err(..), })?; Ok(Self { … })
    # since 680006e a member bound to an attribute is `let x: Option<T> = d.attribute("tag")?.map(T::from);` — only
    # here, in the `let` block in front of `for_each_element` (the model relies on it: `Deserializer::attribute`
    # looks at the start tag that was entered last)
    p = 0
    lets = []
    attr_lets = []
    let_re = re.compile(r"let mut (\w+): Option<(\w+)> = None; ")
    attr_let_re = re.compile(r'let (\w+): Option<(\w+)> = d\.attribute\("([^"]+)"\)\?\.map\((\w+)::from\); ')
    while True:
        m = let_re.match(body, p)
        if m:
            lets.append((m.group(1), m.group(2)))
            p = m.end()
            continue
        m = attr_let_re.match(body, p)
        if m:
            if m.group(2) != m.group(4):
                fail(f"xml: DeserializeContent for {ty}: attribute {m.group(3)}: Option<{m.group(2)}> built with {m.group(4)}::from")
            lets.append((m.group(1), m.group(2)))
            attr_lets.append((m.group(1), m.group(3)))
            p = m.end()
            continue
        break
    if "d.attribute(" in body[p:]:
        fail(f"xml: DeserializeContent for {ty}: d.attribute outside the `let` block")
    m = re.compile(r"d\.for_each_element\(\|d, x\| match x \{ ").match(body, p)
    if not m:
        fail(f"xml: DeserializeContent for {ty}: expected d.for_each_element at `{body[p:p+100]}`")
    p = m.end()
    dup = r"if (\w+)\.is_some\(\) \{ return Err\(DeError::DuplicateField\); \} "
    arm_pats = [
        ("single", re.compile(r'b"([^"]+)" => \{ ' + dup + r"(\w+) = Some\(d\.content\(\)\?\); Ok\(\(\)\) \} ")),
        ("ts", re.compile(r'b"([^"]+)" => \{ ' + dup + r"(\w+) = Some\(d\.timestamp\(TimestampFormat::(\w+)\)\?\); Ok\(\(\)\) \} ")),
        ("wrapped", re.compile(r'b"([^"]+)" => \{ ' + dup + r'(\w+) = Some\(d\.list_content\("([^"]+)"\)\?\); Ok\(\(\)\) \} ')),
        ("flat", re.compile(r'b"([^"]+)" => \{ let ans: (\w+) = d\.content\(\)\?; (\w+)\.get_or_insert_with\(List::new\)\.push\(ans\); Ok\(\(\)\) \} ')),
    ]
    fields = []
    end_re = re.compile(r"_ => Err\(DeError::UnexpectedTagName\), \}\)\?; ")
    while True:
        m = end_re.match(body, p)
        if m:
            p = m.end()
            break
        for kind, pat in arm_pats:
            m = pat.match(body, p)
            if m:
                break
        else:
            fail(f"xml: DeserializeContent for {ty}: unrecognised match arm at `{body[p:p+140]}`")
        p = m.end()
        if kind == "flat":
            tag, mty, var = m.group(1), m.group(2), m.group(3)
            fields.append({"tag": tag, "field": var, "shape": "flat", "member_type": mty})
        else:
            tag, v1, v2 = m.group(1), m.group(2), m.group(3)
            # the duplicate guard `if v1.is_some()` must test the variable the arm assigns (v2); a guard on another
            # declared variable is recorded (table obligation `C13_dup_guards`), anything else is not a template shape
            f = {"tag": tag, "field": v2, "guard": v1, "shape": "wrapped" if kind == "wrapped" else "single"}
            if kind == "ts":
                f["ts"] = m.group(4)
            if kind == "wrapped":
                f["member"] = m.group(4)
            fields.append(f)
    # members bound to attributes come last, in `let` order (= the order their `?` can fail in)
    for var, tag in attr_lets:
        if any(f["field"] == var or f["tag"] == tag for f in fields):
            fail(f"xml: DeserializeContent for {ty}: {var} / {tag} is read from an element and from an attribute")
        fields.append({"tag": tag, "field": var, "shape": "single", "attr": True})
    if len(set(t for _, t in attr_lets)) != len(attr_lets):
        fail(f"xml: DeserializeContent for {ty}: an attribute is read twice")
    m = re.fullmatch(r"Ok\(Self \{ (.*)\}\)", body[p:])
    if not m:
        fail(f"xml: DeserializeContent for {ty}: expected `Ok(Self {{ … }})` at `{body[p:p+100]}`")
    ctor = m.group(1).strip()
    ctor = ctor + " " if ctor.endswith(",") else ctor + ", "  # rustfmt drops the last comma on one-line literals
    pres = {}
    q = 0
    ctor_pats = [
        ("opt", re.compile(r"(\w+), ")),
        ("req", re.compile(r"(\w+): (\w+)\.ok_or\(DeError::MissingField\)\?, ")),
        ("dflt", re.compile(r"(\w+): (\w+)\.unwrap_or\(([-\w]+)\), ")),
        ("sealed", re.compile(r"(\w+): (\w+)::default\(\), ")),
    ]
    while q < len(ctor):
        for kind, pat in ctor_pats:
            m = pat.match(ctor, q)
            if m:
                break
        else:
            fail(f"xml: DeserializeContent for {ty}: unrecognised constructor field at `{ctor[q:q+80]}`")
        q = m.end()
        if kind == "sealed":
            continue  # never read from XML, never written
        if kind in ("req", "dflt") and m.group(1) != m.group(2):
            fail(f"xml: DeserializeContent for {ty}: constructor field {m.group(1)} built from {m.group(2)}")
        if kind == "dflt":
            lit = m.group(3)
            if lit in ("true", "false"):
                pres[m.group(1)] = ("dflt", "bool", lit)
            elif re.fullmatch(r"-?\d+", lit):
                pres[m.group(1)] = ("dflt", "int", lit)
            else:
                fail(f"xml: DeserializeContent for {ty}: default literal {lit} is neither bool nor integer")
        else:
            pres[m.group(1)] = (kind,)
    letd = dict(lets)
    for f in fields:
        if "guard" in f and f["guard"] not in letd:
            fail(f"xml: DeserializeContent for {ty}: arm {f['tag']} guards on undeclared variable {f['guard']}")
    if len(letd) != len(lets):
        fail(f"xml: DeserializeContent for {ty}: a variable is declared twice")
    if set(letd) != set(pres) or set(f["field"] for f in fields) != set(letd) or len(fields) != len(lets):
        fail(f"xml: DeserializeContent for {ty}: declared variables, match arms and constructor fields do not line up")
    d = dto.get(ty)
    if not d or d[0] != "struct":
        fail(f"xml: DeserializeContent for {ty} has struct shape but dto says {d and d[0]}")
    dfields = {f: (t, o) for f, t, o in d[1]}
    for f in fields:
        pr = pres[f["field"]]
        f["pres"] = pr[0]
        if pr[0] == "dflt":
            f["lit_kind"], f["lit"] = pr[1], pr[2]
        if f["field"] not in dfields:
            fail(f"xml: DeserializeContent for {ty}: field {f['field']} not in the dto struct")
        fty, fopt = dfields[f["field"]]
        if fty != letd[f["field"]]:
            fail(f"xml: DeserializeContent for {ty}.{f['field']}: declared Option<{letd[f['field']]}> but dto field type is {fty}")
        if fopt != (pr[0] == "opt"):
            fail(f"xml: DeserializeContent for {ty}.{f['field']}: constructor says {pr[0]} but dto field is "
                 f"{'Option' if fopt else 'plain'}")
        resolve_kind(ty, f, fty, dto)
        f.pop("member_type", None)
        if f.get("attr") and f["kind"] not in ("str", "enm"):
            fail(f"xml: DeserializeContent for {ty}.{f['field']}: attribute of kind {f['kind']} (`d.attribute` yields a String)")
    return ("struct", fields)


XMLNS_S3 = "http://s3.amazonaws.com/doc/2006-03-01/"
XMLNS_STS = "https://sts.amazonaws.com/doc/2011-06-15/"

MANUAL_SER_LOCATION = norm("""
fn serialize<W: std::io::Write>(&self, s: &mut Serializer<W>) -> SerResult {
    let xmlns = "http://s3.amazonaws.com/doc/2006-03-01/";
    if let Some(location_constraint) = &self.location_constraint {
        s.content_with_ns("LocationConstraint", xmlns, location_constraint)?;
    } else {
        s.content_with_ns("LocationConstraint", xmlns, "")?;
    }
    Ok(())
}""")
MANUAL_DE_LOCATION = norm("""
fn deserialize(d: &mut Deserializer<'xml>) -> DeResult<Self> {
    let val: BucketLocationConstraint = d.named_element("LocationConstraint", Deserializer::content)?;
    let location_constraint = if val.as_str().is_empty() { None } else { Some(val) };
    Ok(Self { location_constraint })
}""")
MANUAL_SER_ASSUME = norm("""
fn serialize<W: std::io::Write>(&self, s: &mut Serializer<W>) -> SerResult {
    let xmlns = "https://sts.amazonaws.com/doc/2011-06-15/";
    s.element_with_ns("AssumeRoleResponse", xmlns, |s| {
        s.content("AssumeRoleResult", self)
    })?;
    Ok(())
}""")
MANUAL_DE_ASSUME = norm("""
fn deserialize(d: &mut Deserializer<'xml>) -> DeResult<Self> {
    d.named_element("AssumeRoleResponse", |d| {
        d.named_element("AssumeRoleResult", Self::deserialize_content)
    })
}""")


def parse_manual(src):
    """the `manually` module of xml/mod.rs: exact-text recognition of the two hand-written root impls"""
    src = strip_rust_comments(src)
    m = re.search(r"^mod manually \{\n(.*?)^\}", src, re.M | re.S)
    if not m:
        fail("xml/mod.rs: `mod manually` not found")
    body = m.group(1)
    impls = []
    head = re.compile(r"^    impl(?:<'xml>)? (Serialize|Deserialize<'xml>) for (\w+) \{\n", re.M)
    pos = 0
    while True:
        hm = head.search(body, pos)
        if not hm:
            break
        end = body.find("\n    }\n", hm.end() - 1)
        if end < 0:
            fail("xml/mod.rs: unterminated impl in `mod manually`")
        impls.append((hm.group(1).replace("<'xml>", ""), hm.group(2),
                      norm(re.sub(r"\s//\s*$", "", body[hm.end():end], flags=re.M))))
        pos = end + 6
    rest = head.sub("", body)
    n_impl = len(re.findall(r"\bimpl\b", body))
    if n_impl != len(impls):
        fail(f"xml/mod.rs: `mod manually` has {n_impl} impl blocks, {len(impls)} recognised")
    ser_roots, de_roots = {}, {}
    for trait, ty, text in impls:
        if (trait, ty) == ("Serialize", "GetBucketLocationOutput") and text == MANUAL_SER_LOCATION:
            ser_roots[ty] = {"kind": "location", "tag": "LocationConstraint", "ns": XMLNS_S3}
        elif (trait, ty) == ("Deserialize", "GetBucketLocationOutput") and text == MANUAL_DE_LOCATION:
            de_roots[ty] = {"kind": "location", "tag": "LocationConstraint"}
        elif (trait, ty) == ("Serialize", "AssumeRoleOutput") and text == MANUAL_SER_ASSUME:
            ser_roots[ty] = {"kind": "nested", "outer": "AssumeRoleResponse", "tag": "AssumeRoleResult", "ns": XMLNS_STS}
        elif (trait, ty) == ("Deserialize", "AssumeRoleOutput") and text == MANUAL_DE_ASSUME:
            de_roots[ty] = {"kind": "nested", "outer": "AssumeRoleResponse", "tag": "AssumeRoleResult"}
        else:
            fail(f"xml/mod.rs: hand-written impl {trait} for {ty} differs from the text this translator knows: {text[:200]}")
    _ = rest
    return ser_roots, de_roots


def parse_xml_generated(src, manual_src, dto):
    if 'const XMLNS_S3: &str = "http://s3.amazonaws.com/doc/2006-03-01/";' not in src:
        fail("xml/generated.rs: XMLNS_S3 constant changed")
    if "XMLNS_XSI" in src and f'const XMLNS_XSI: &str = "{XMLNS_XSI}";' not in src:
        fail("xml/generated.rs: XMLNS_XSI constant changed (the Lean model has it as Xml.xmlnsXsi)")
    ser, de, ser_root, de_root = {}, {}, {}, {}
    n = 0
    for trait, ty, text in split_impls(src):
        n += 1
        if trait == "SerializeContent":
            if ty in ser:
                fail(f"xml: two SerializeContent impls for {ty}")
            ser[ty] = parse_ser_content(ty, text, dto)
        elif trait == "DeserializeContent":
            if ty in de:
                fail(f"xml: two DeserializeContent impls for {ty}")
            de[ty] = parse_de_content(ty, text, dto)
        elif trait == "Serialize":
            body = fn_body(ty, trait, text, SER_ROOT_SIG)
            m = re.fullmatch(r's\.content\("([^"]+)", self\)', body)
            m2 = re.fullmatch(r's\.content_with_ns\("([^"]+)", XMLNS_S3, self\)', body)
            if m:
                ser_root[ty] = {"kind": "named", "tag": m.group(1), "ns": None}
            elif m2:
                ser_root[ty] = {"kind": "named", "tag": m2.group(1), "ns": XMLNS_S3}
            else:
                fail(f"xml: Serialize for {ty}: unrecognised body `{body[:120]}`")
        elif trait == "Deserialize":
            body = fn_body(ty, trait, text, DE_ROOT_SIG)
            m = re.fullmatch(r'd\.named_element\("([^"]+)", Deserializer::content\)', body)
            if not m:
                fail(f"xml: Deserialize for {ty}: unrecognised body `{body[:120]}`")
            de_root[ty] = {"kind": "named", "tag": m.group(1)}
    n_impl = len(re.findall(r"^impl\b", strip_rust_comments(src), re.M))
    if n_impl != n:
        fail(f"xml/generated.rs: {n_impl} impl blocks, {n} recognised")
    ms, md = parse_manual(manual_src)
    for ty, r in ms.items():
        if ty in ser_root:
            fail(f"xml: {ty} has a generated and a hand-written Serialize")
        ser_root[ty] = r
    for ty, r in md.items():
        if ty in de_root:
            fail(f"xml: {ty} has a generated and a hand-written Deserialize")
        de_root[ty] = r
    return ser, de, ser_root, de_root, n + len(ms) + len(md)


# ------------------------------------------------------------------------------------------------
# Smithy (T5): the same schema shape from the traits


def load_smithy(repo, dto_src):
    """join data/s3.json + reduced data/sts.json (+ minio patches when the tree was generated with them),
    exactly as codegen/src/v1/mod.rs::run does; returns name -> shape (names without namespace)"""
    shapes = json.load(open(os.path.join(repo, "data", "s3.json")))["shapes"]
    out = {}
    for k, v in shapes.items():
        ns, name = k.split("#")
        out[name] = v
    sts = json.load(open(os.path.join(repo, "data", "sts.json")))["shapes"]
    keep = ["AssumeRoleResponse", "AssumedRoleUser", "Credentials", "nonNegativeIntegerType", "sourceIdentityType",
            "arnType", "accessKeyIdType", "accessKeySecretType", "dateType", "tokenType", "assumedRoleIdType"]

    def camel(n):
        return n[0].upper() + n[1:] if n[0].islower() else n

    sts_names = set()
    for k, v in sts.items():
        name = k.split("#")[1]
        if name not in keep:
            continue
        new = "AssumeRoleOutput" if name == "AssumeRoleResponse" else camel(name)
        v = json.loads(json.dumps(v))
        if v["type"] == "structure":
            for mv in v["members"].values():
                tn = mv["target"].split("#")[1]
                mv["target"] = mv["target"].split("#")[0] + "#" + camel(tn)
            if name == "AssumeRoleResponse":
                v.setdefault("traits", {})["smithy.api#xmlName"] = name
        if new in out:
            fail(f"smithy: sts shape {new} collides with an s3 shape")
        out[new] = v
        sts_names.add(new)
    # codegen applies data/minio-patches.json only on the minio branch; the generated dto then contains CachedTags
    if "pub struct CachedTags" in dto_src:
        patches = json.load(open(os.path.join(repo, "data", "minio-patches.json")))["shapes"]
        for k, v in patches.items():
            name = k.split("#")[1]
            if name not in out:
                out[name] = v
            else:
                if out[name]["type"] != "structure":
                    fail(f"smithy: minio patch for non-structure {name}")
                for mn, mv in v["members"].items():
                    if mn in out[name]["members"]:
                        fail(f"smithy: minio patch redefines {name}${mn}")
                    out[name]["members"][mn] = mv
    return out, sts_names


HTTP_BINDINGS = ["smithy.api#httpHeader", "smithy.api#httpQuery", "smithy.api#httpLabel", "smithy.api#httpPrefixHeaders",
                 "smithy.api#httpResponseCode", "smithy.api#httpPayload", "smithy.api#httpQueryParams"]


def smithy_kind(shapes, target, member_traits, f, where):
    if target.startswith("smithy.api#"):
        prim = target.split("#")[1]
        k = {"String": "str", "Integer": "i32", "Long": "i64", "Boolean": "bool",
             "PrimitiveInteger": "i32", "PrimitiveLong": "i64", "PrimitiveBoolean": "bool"}.get(prim)
        if not k:
            fail(f"smithy: {where}: prelude target {target} not supported")
        f["kind"] = k
        return
    tn = target.split("#")[1]
    sh = shapes.get(tn)
    if sh is None:
        fail(f"smithy: {where}: target {tn} not found")
    t = sh["type"]
    if t == "string":
        f["kind"] = "str"
    elif t == "enum":
        f["kind"] = "enm"
    elif t == "integer":
        f["kind"] = "i32"
    elif t == "long":
        f["kind"] = "i64"
    elif t == "boolean":
        f["kind"] = "bool"
    elif t == "timestamp":
        fmt = member_traits.get("smithy.api#timestampFormat") or sh.get("traits", {}).get("smithy.api#timestampFormat") or "date-time"
        f["kind"] = "ts"
        f["fmt"] = {"date-time": "dateTime", "http-date": "httpDate", "epoch-seconds": "epochSeconds"}[fmt]
    elif t in ("structure", "union"):
        f["kind"] = "ref"
        f["ref"] = tn
    else:
        fail(f"smithy: {where}: target {tn} of type {t} cannot be an XML member here")


def smithy_struct(shapes, name):
    """XML-body members of a structure / variants of a union, from the traits only"""
    sh = shapes[name]
    if sh["type"] == "union":
        vs = []
        for mn, mv in sh["members"].items():
            t = mv.get("traits", {})
            v = {"tag": t.get("smithy.api#xmlName", mn), "variant": mn}
            if any(x in t for x in ("smithy.api#xmlFlattened", "smithy.api#xmlAttribute")):
                fail(f"smithy: union {name}${mn}: flattened / attribute variant")
            tsh = shapes.get(mv["target"].split("#")[1]) if not mv["target"].startswith("smithy.api#") else None
            if tsh is not None and tsh["type"] in ("list", "map"):
                fail(f"smithy: union {name}${mn}: list / map variant")
            smithy_kind(shapes, mv["target"], t, v, f"{name}${mn}")
            vs.append(v)
        return ("union", vs)
    fields = []
    for mn, mv in sh["members"].items():
        t = mv.get("traits", {})
        if any(b in t for b in HTTP_BINDINGS):
            continue
        if "s3s#sealed" in t:
            continue
        f = {"tag": t.get("smithy.api#xmlName", mn), "member": None, "smithy_member": mn}
        f["attr"] = "smithy.api#xmlAttribute" in t
        f["nsdecl"] = "smithy.api#xmlNamespace" in t
        if f["nsdecl"]:
            ns = t["smithy.api#xmlNamespace"]
            if not isinstance(ns, dict) or set(ns) != {"uri", "prefix"}:
                fail(f"smithy: {name}${mn}: member-level xmlNamespace without a prefix (or with unknown keys): {ns!r}")
            f["ns_prefix"], f["ns_uri"] = ns["prefix"], ns["uri"]
        if "smithy.api#default" in t and t["smithy.api#default"] is not None:
            dv = t["smithy.api#default"]
            if isinstance(dv, bool):
                f["pres"], f["lit_kind"], f["lit"] = "dflt", "bool", "true" if dv else "false"
            elif isinstance(dv, int):
                f["pres"], f["lit_kind"], f["lit"] = "dflt", "int", str(dv)
            else:
                fail(f"smithy: {name}${mn}: default {dv!r} is neither bool nor integer")
        elif "smithy.api#required" in t:
            f["pres"] = "req"
        else:
            f["pres"] = "opt"
        target = mv["target"]
        tn = target.split("#")[1]
        tsh = shapes.get(tn) if not target.startswith("smithy.api#") else None
        if tsh is not None and tsh["type"] == "list":
            mem = tsh["member"]
            if "smithy.api#xmlFlattened" in t:
                f["shape"] = "flat"
            else:
                f["shape"] = "wrapped"
                f["member"] = mem.get("traits", {}).get("smithy.api#xmlName", "member")
            smithy_kind(shapes, mem["target"], mem.get("traits", {}), f, f"{name}${mn}")
        elif tsh is not None and tsh["type"] == "map":
            fail(f"smithy: {name}${mn}: map in an XML body")
        else:
            if "smithy.api#xmlFlattened" in t:
                fail(f"smithy: {name}${mn}: xmlFlattened on a non-list member")
            f["shape"] = "single"
            smithy_kind(shapes, target, t, f, f"{name}${mn}")
        if f["member"] is None:
            del f["member"]
        fields.append(f)
    return ("struct", fields)


def smithy_roots(shapes):
    """type name -> set of root element names the operations demand; plus, per structure that is an operation
    output with body members, its own root name. Mirrors restXml: the payload member's xmlName, else the
    target's xmlName, else the target shape name; an output/input structure with body members uses its xmlName
    or its shape name."""
    roots = {}
    svc_ns = None
    for name, sh in shapes.items():
        if sh["type"] == "service" and "smithy.api#xmlNamespace" in sh.get("traits", {}):
            svc_ns = sh["traits"]["smithy.api#xmlNamespace"]["uri"]
    for name, sh in shapes.items():
        if sh["type"] != "operation":
            continue
        for role in ("input", "output"):
            tgt = sh.get(role, {}).get("target", "smithy.api#Unit")
            if tgt == "smithy.api#Unit":
                continue
            st = shapes[tgt.split("#")[1]]
            payload = [(mn, mv) for mn, mv in st["members"].items() if "smithy.api#httpPayload" in mv.get("traits", {})]
            if payload:
                mn, mv = payload[0]
                tn = mv["target"].split("#")[1]
                tsh = shapes.get(tn)
                if tsh is None or tsh["type"] not in ("structure", "union"):
                    continue
                if "smithy.api#streaming" in tsh.get("traits", {}):
                    continue
                rn = mv.get("traits", {}).get("smithy.api#xmlName") or tsh.get("traits", {}).get("smithy.api#xmlName") or tn
                roots.setdefault(tn, set()).add(rn)
            else:
                body = [mn for mn, mv in st["members"].items() if not any(b in mv.get("traits", {}) for b in HTTP_BINDINGS)]
                if body or "smithy.api#xmlName" in st.get("traits", {}):
                    tn = tgt.split("#")[1]
                    rn = st.get("traits", {}).get("smithy.api#xmlName") or tn
                    roots.setdefault((role, name), set()).add(rn)
    return roots, svc_ns


# ------------------------------------------------------------------------------------------------
# emission


def lean_bytes(s):
    return "[" + ", ".join(str(b) for b in s.encode("utf-8")) + "]"


def tag_ident(tag):
    return "t_" + re.sub(r"[^A-Za-z0-9_]", lambda m: "_x%02X" % ord(m.group(0)), tag)


def write_if_changed(path, content):
    os.makedirs(os.path.dirname(path), exist_ok=True)
    if os.path.exists(path) and open(path, encoding="utf-8").read() == content:
        return False
    with open(path, "w", encoding="utf-8") as f:
        f.write(content)
    return True


def lean_kind(f, tyset):
    if f["kind"] == "ts":
        return f"(.ts .{f['fmt']})"
    if f["kind"] == "ref":
        if f["ref"] not in tyset:
            fail(f"emit: member {f['tag']} refers to {f['ref']} which is not an XML struct/union type")
        return f"(.ref .{f['ref']})"
    return "." + f["kind"]


def lean_field(f, tyset):
    pres = {"req": ".req", "opt": ".opt"}.get(f["pres"])
    if f["pres"] == "dflt":
        lit = f"(.bool {f['lit']})" if f["lit_kind"] == "bool" else f"(.int ({f['lit']}))"
        pres = f"(.dflt {lit})"
    shape = {"single": ".single", "flat": ".flat"}.get(f["shape"]) or f"(.wrapped {tag_ident(f['member'])})"
    kind = lean_kind(f, tyset)
    flags = ""
    if f.get("attr"):
        flags += " (attr := true)"
    if f.get("nsdecl"):
        flags += " (nsdecl := true)"
    return f"⟨{tag_ident(f['tag'])}, {pres}, {shape}, {kind}, {'true' if f.get('attr') else 'false'}, {'true' if f.get('nsdecl') else 'false'}⟩"


def lean_def(d, tyset):
    if d[0] == "struct":
        return ".struct [" + ", ".join(lean_field(f, tyset) for f in d[1]) + "]"
    if d[0] == "union":
        return ".union [" + ", ".join(f"({tag_ident(v['tag'])}, {lean_kind(v, tyset)})" for v in d[1]) + "]"
    fail(f"emit: def kind {d[0]}")


def lean_root(r, with_ns):
    if r is None:
        return "none"
    ns = ""
    if with_ns:
        ns = " " + ("none" if r.get("ns") is None else "(some " + {XMLNS_S3: "nsS3", XMLNS_STS: "nsSts"}[r["ns"]] + ")")
    if r["kind"] == "named":
        return f"some (.named {tag_ident(r['tag'])}{ns})"
    if r["kind"] == "nested":
        return f"some (.nested {tag_ident(r['outer'])} {tag_ident(r['tag'])}{ns})"
    if r["kind"] == "location":
        return f"some (.location {tag_ident(r['tag'])}{ns})"
    fail(f"emit: root kind {r['kind']}")


def depth_of(defs):
    memo = {}

    def go(t, stack):
        if t in memo:
            return memo[t]
        if t in stack:
            fail(f"emit: recursive XML type {' -> '.join(stack + [t])} — the tree schema cannot be built")
        d = defs.get(t)
        if d is None:
            return 0
        refs = [f["ref"] for f in d[1] if f.get("kind") == "ref"]
        r = 1 + max([go(x, stack + [t]) for x in refs], default=0)
        memo[t] = r
        return r

    return max([go(t, []) for t in defs], default=0)


def de_guard_extra(de_defs, tys):
    """arms whose duplicate-field guard tests the variable of ANOTHER member: (type, arm tag, tag of the member tested)"""
    items = []
    for t in tys:
        d = de_defs.get(t)
        if not d or d[0] != "struct":
            continue
        by_var = {f["field"]: f["tag"] for f in d[1]}
        for f in d[1]:
            if "guard" in f and f["guard"] != f["field"]:
                items.append(f"(.{t}, {tag_ident(f['tag'])}, {tag_ident(by_var[f['guard']])})")
    return "\n".join([
        "",
        "/-- arms of generated struct deserialisers whose `if x.is_some() { return Err(DuplicateField) }` guard tests the",
        "variable of another member than the one the arm assigns: (type, element name of the arm, element name of the",
        "member whose variable is tested). The codegen template only prints guards on the arm's own variable. -/",
        "def deGuardMismatch : List (Ty × Bytes × Bytes) := [" + ", ".join(items) + "]"])


def emit_table(modname, doc, fn_prefix, defs, roots, tys, tyset, with_ns, extra=""):
    L = [f"/- GENERATED by translate/xml_tables.py — do not edit. {doc} -/",
         "import S3V.Gen.XmlNames", "", "namespace S3V.XmlGen", "open S3V.Xml", ""]
    L.append(f"def {fn_prefix}Def : Ty → Option (Def Ty)")
    for t in tys:
        if t in defs:
            L.append(f"  | .{t} => some ({lean_def(defs[t], tyset)})")
    if any(t not in defs for t in tys):
        L.append("  | _ => none")
    L.append("")
    rt = "SerRoot" if with_ns else "DeRoot"
    L.append(f"def {fn_prefix}Root : Ty → Option {rt}")
    for t in tys:
        if roots.get(t) is not None:
            L.append(f"  | .{t} => {lean_root(roots[t], with_ns)}")
    if any(roots.get(t) is None for t in tys):
        L.append("  | _ => none")
    L.append("")
    L.append(f"/-- nesting depth of the deepest type (fuel for `resolve`) -/")
    L.append(f"def {fn_prefix}Depth : Nat := {depth_of(defs)}")
    L.append(extra)
    L.append("end S3V.XmlGen")
    return "\n".join(L) + "\n"


def run(repo, verif_root):
    dto_src = open(os.path.join(repo, "crates/s3s/src/dto/generated.rs"), encoding="utf-8").read()
    xml_src = open(os.path.join(repo, "crates/s3s/src/xml/generated.rs"), encoding="utf-8").read()
    mod_src = open(os.path.join(repo, "crates/s3s/src/xml/mod.rs"), encoding="utf-8").read()
    dto = parse_dto(dto_src)
    ser, de, ser_root, de_root, n_impls = parse_xml_generated(xml_src, mod_src, dto)

    # unions: attach the variant's Rust type (from dto) and check it against the variant name table
    for side, tab in (("SerializeContent", ser), ("DeserializeContent", de)):
        for ty, d in tab.items():
            if d[0] == "union":
                k = dto.get(ty)
                if not k or k[0] != "union":
                    fail(f"xml: {side} for {ty} has union shape but dto says {k and k[0]}")
                vmap = dict(k[1])
                if [v["variant"] for v in d[1]] != [v for v, _ in k[1]]:
                    fail(f"xml: {side} for {ty}: variants differ from the dto enum")
                for v in d[1]:
                    v["field"] = v["variant"]
                    v["shape"] = "single"
                    resolve_kind(ty, v, vmap[v["variant"]], dto)
            if d[0] == "strenum":
                k = dto.get(ty)
                if not k or k[0] != "strenum":
                    fail(f"xml: {side} for {ty} has str-enum shape but dto says {k and k[0]}")

    ser_defs = {t: d for t, d in ser.items() if d[0] in ("struct", "union")}
    de_defs = {t: d for t, d in de.items() if d[0] in ("struct", "union")}
    for t, r in list(ser_root.items()) + list(de_root.items()):
        pass
    tys = sorted(set(ser_defs) | set(de_defs))
    tyset = set(tys)
    for t in ser_root:
        if t not in ser_defs:
            fail(f"xml: Serialize for {t} without a struct SerializeContent")
    for t in de_root:
        if t not in de_defs:
            fail(f"xml: Deserialize for {t} without a struct DeserializeContent")

    # Smithy side
    shapes, sts_names = load_smithy(repo, dto_src)
    sm_defs = {}
    # Rust type name -> Smithy shape name (codegen renames operation inputs/outputs; see dto.rs::unify_operation_types)
    rename = {"SelectObjectContentEvent": "SelectObjectContentEventStream"}
    ops = {n: s for n, s in shapes.items() if s["type"] == "operation"}
    for opn, op in ops.items():
        out_t = op.get("output", {}).get("target", "smithy.api#Unit")
        if out_t != "smithy.api#Unit":
            on = out_t.split("#")[1]
            if on != opn + "Output":
                rename[opn + "Output"] = on
        in_t = op.get("input", {}).get("target", "smithy.api#Unit")
        if in_t != "smithy.api#Unit":
            rename[opn + "Input"] = in_t.split("#")[1]
    no_smithy = []
    for t in tys:
        sn = rename.get(t, t)
        if t == "SelectObjectContentRequest":
            # codegen (dto.rs::patch_types) splits the operation input: the XML members form this struct
            sn = "SelectObjectContentRequest"
        sh = shapes.get(sn)
        if sh is None or sh["type"] not in ("structure", "union"):
            no_smithy.append(t)
            continue
        d = smithy_struct(shapes, sn)
        sm_defs[t] = d
    # Smithy refs use Smithy shape names; map them back to Rust type names (inverse renaming is the identity for
    # every nested type; operation inputs/outputs are never nested)
    for t, d in sm_defs.items():
        items = d[1]
        for f in items:
            if f.get("kind") == "ref":
                if f["ref"] not in tyset:
                    fail(f"smithy: {t}: member {f['tag']} targets {f['ref']} for which s3s has no XML impl")
    sm_roots_raw, svc_ns = smithy_roots(shapes)
    if svc_ns != XMLNS_S3:
        fail(f"smithy: service xmlNamespace is {svc_ns!r}")
    sm_roots = {}
    for key, names in sm_roots_raw.items():
        if isinstance(key, tuple):
            role, opn = key
            t = opn + ("Output" if role == "output" else "Input")
        else:
            t = key
        if t not in tyset:
            continue
        sm_roots.setdefault(t, set()).update(names)
    sm_root_tab = {}
    for t, names in sm_roots.items():
        if len(names) != 1:
            # one Rust impl can carry only one root name; codegen keeps the last one it sees
            sm_root_tab[t] = {"kind": "named", "tag": sorted(names)[0], "alts": sorted(names)}
        else:
            sm_root_tab[t] = {"kind": "named", "tag": next(iter(names))}

    # tags
    tags = set()
    for tab in (ser_defs, de_defs, sm_defs):
        for d in tab.values():
            for f in d[1]:
                tags.add(f["tag"])
                if f.get("member"):
                    tags.add(f["member"])
    for r in list(ser_root.values()) + list(de_root.values()) + list(sm_root_tab.values()):
        tags.add(r["tag"])
        if r.get("outer"):
            tags.add(r["outer"])
        for a in r.get("alts", []):
            tags.add(a)
    for t in tys:
        tags.add(t)  # synthetic root for content-only types in the harness
    tags = sorted(tags)

    gen = os.path.join(verif_root, "lean", "S3V", "Gen")
    # ---- XmlNames.lean
    L = ["/- GENERATED by translate/xml_tables.py — do not edit.",
         "   Names shared by the three XML schema tables: the enumeration of XML struct/union types of s3s and the",
         "   element names as byte strings (string literals do not reduce in the kernel). -/",
         "import S3V.Model.XmlSchema", "", "namespace S3V.XmlGen", ""]
    L.append("inductive Ty where")
    for t in tys:
        L.append(f"  | {t}")
    L.append("  deriving DecidableEq, Repr")
    L.append("")
    L.append("def Ty.all : List Ty := [" + ", ".join("." + t for t in tys) + "]")
    L.append("")
    L.append("def Ty.name : Ty → String")
    for t in tys:
        L.append(f'  | .{t} => "{t}"')
    L.append("")
    L.append("def Ty.ofName (s : String) : Option Ty := Ty.all.find? (fun t => t.name == s)")
    L.append("")
    for tg in tags:
        L.append(f"def {tag_ident(tg)} : Bytes := {lean_bytes(tg)} -- {tg}")
    L.append("")
    L.append(f"def nsS3 : Bytes := {lean_bytes(XMLNS_S3)}")
    L.append(f"def nsSts : Bytes := {lean_bytes(XMLNS_STS)}")
    L.append("")
    L.append("/-- synthetic root element the harness wraps a content-only type in: the type's own name -/")
    L.append("def Ty.selfTag : Ty → Bytes")
    for t in tys:
        L.append(f"  | .{t} => {tag_ident(t)}")
    L.append("")
    L.append("end S3V.XmlGen")
    write_if_changed(os.path.join(gen, "XmlNames.lean"), "\n".join(L) + "\n")

    write_if_changed(os.path.join(gen, "XmlSer.lean"), emit_table(
        "XmlSer", "Serialiser schema per type: what `impl SerializeContent for T` / `impl Serialize for T` write "
        f"({len(ser)} SerializeContent impls, {len(ser_root)} Serialize impls read).",
        "ser", ser_defs, ser_root, tys, tyset, True))
    write_if_changed(os.path.join(gen, "XmlDe.lean"), emit_table(
        "XmlDe", "Deserialiser schema per type: what `impl DeserializeContent for T` / `impl Deserialize for T` accept "
        f"({len(de)} DeserializeContent impls, {len(de_root)} Deserialize impls read).",
        "de", de_defs, de_root, tys, tyset, False, de_guard_extra(de_defs, tys)))
    extra = ["", "/-- types of s3s that have no structure/union of the Smithy S3 model behind them -/",
             "def noSmithy : List Ty := [" + ", ".join("." + t for t in no_smithy) + "]", "",
             "/-- shapes that come from data/sts.json (reduced by codegen) rather than data/s3.json -/",
             "def fromSts : List Ty := [" + ", ".join("." + t for t in tys if t in sts_names) + "]", "",
             "/-- every root name the operations of the model demand for a type (one Rust impl can only carry one) -/",
             "def smithyRootAlts : Ty → List Bytes"]
    for t in tys:
        if t in sm_root_tab:
            alts = sm_root_tab[t].get("alts", [sm_root_tab[t]["tag"]])
            extra.append(f"  | .{t} => [" + ", ".join(tag_ident(a) for a in alts) + "]")
    extra.append("  | _ => []")
    extra += ["", "/-- the member-level `xmlNamespace` traits of the model: (type, element name of the member, prefix, uri) -/",
              "def smithyNsDecls : List (Ty × Bytes × Bytes × Bytes) := ["
              + ", ".join(f"(.{t}, {tag_ident(f['tag'])}, {lean_bytes(f['ns_prefix'])}, {lean_bytes(f['ns_uri'])})"
                          for t in tys if t in sm_defs and sm_defs[t][0] == "struct"
                          for f in sm_defs[t][1] if f.get("nsdecl")) + "]"]
    write_if_changed(os.path.join(gen, "XmlSmithy.lean"), emit_table(
        "XmlSmithy", "The same schema shape derived from the Smithy model (data/s3.json + reduced data/sts.json"
        + (" + data/minio-patches.json" if "pub struct CachedTags" in dto_src else "") + ") only.",
        "smithy", sm_defs, sm_root_tab, tys, tyset, False, "\n".join(extra)))

    # ---- JSON copy for the harness document generator
    def js_def(d):
        if d is None:
            return None
        if d[0] == "struct":
            return {"kind": "struct", "fields": [{k: f[k] for k in ("tag", "pres", "shape", "kind", "member", "ref", "fmt", "attr") if k in f}
                                                 for f in d[1]]}
        return {"kind": "union", "variants": [{k: v[k] for k in ("tag", "kind", "ref") if k in v} for v in d[1]]}

    both = [t for t in tys if t in ser_defs and t in de_defs]
    def smithy_order(t):
        d = sm_defs.get(t)
        if not d or d[0] != "struct":
            return None
        return [f["tag"] for f in d[1]]  # JSON member order of the Smithy model = declaration order

    js = {"types": {t: {"ser": js_def(ser_defs.get(t)), "de": js_def(de_defs.get(t)),
                        "ser_root": ser_root.get(t), "de_root": de_root.get(t),
                        "smithy_order": smithy_order(t)} for t in tys},
          "both": both}
    write_if_changed(os.path.join(verif_root, "harness", "src", "gen_xml_tables.json"), json.dumps(js, indent=0, sort_keys=True) + "\n")

    # ---- Rust dispatch
    R = ["// GENERATED by translate/xml_tables.py — do not edit.",
         "// One arm per type that has a decoder and an encoder: decode with the real impl + expect_eof, re-serialise.",
         "",
         "fn roundtrip(type_name: &str, xml: &[u8]) -> Outcome {",
         "    match type_name {"]
    n_arms = 0
    for t in tys:
        if t in de_root and t in ser_root:
            R.append(f'        "{t}" => rt_root::<s3s::dto::{t}>(xml),')
            n_arms += 1
        elif t in de_defs and t in ser_defs and t not in de_root and t not in ser_root:
            R.append(f'        "{t}" => rt_content::<s3s::dto::{t}>("{t}", xml),')
            n_arms += 1
        elif t in de_defs and t in ser_defs:
            # only one of the two root impls exists: go through the content impls, wrapped in the type's own name
            R.append(f'        "{t}" => rt_content::<s3s::dto::{t}>("{t}", xml),')
            n_arms += 1
    R.append("        _ => Outcome::UnknownType,")
    R.append("    }")
    R.append("}")
    R.append("")
    R.append(f"#[allow(dead_code)]\nconst ROUNDTRIP_ARMS: usize = {n_arms};")
    write_if_changed(os.path.join(verif_root, "harness", "src", "gen_xml_dispatch.rs"), "\n".join(R) + "\n")
    n_build = emit_build(verif_root, shapes, ops, dto, sm_defs, tyset)
    return {"impls": n_impls, "types": len(tys), "ser": len(ser_defs), "de": len(de_defs), "smithy": len(sm_defs),
            "no_smithy": no_smithy, "arms": n_arms, "tags": len(tags), "build": n_build}

# ------------------------------------------------------------------------------------------------
# Smithy-driven constructors for XML response bodies (component svcoutput, C03)


def op_snake(n):
    """the backend method name of an operation (same rule as translate/ops_tables.py::snake)"""
    s = re.sub(r"([a-z0-9])([A-Z])", r"\1_\2", n)
    s = re.sub(r"([A-Z]+)([A-Z][a-z])", r"\1_\2", s)
    return s.lower()


def norm_field(s):
    return s.replace("_", "").lower()


def emit_build(verif_root, shapes, ops, dto, sm_defs, tyset):
    """harness/src/gen_xml_build.rs: for every operation whose Smithy output has an XML body (an httpPayload member
    that targets a structure / union, or members without an HTTP binding) a function that sets that body on the
    operation's dto output from a value generator `G`, which records what it handed out as `path=value` lines under
    the SMITHY element names. Nothing here is read from xml/generated.rs or ops/generated.rs."""
    def rust_field(ty, member):
        k = dto.get(ty)
        if not k or k[0] != "struct":
            fail(f"build: {ty} is not a dto struct")
        hits = [f for f in k[1] if norm_field(f[0]) == norm_field(member)]
        if len(hits) != 1:
            fail(f"build: {ty}: Smithy member {member} matches {len(hits)} dto fields")
        return hits[0]

    need = []          # nested types to build, in discovery order
    R = ["// GENERATED by translate/xml_tables.py (emit_build) - do not edit; regenerated on every run.",
         "// Constructors of the XML response body of every operation that has one, driven by the Smithy model only.",
         ""]

    def scalar_expr(f, path):
        k = f["kind"]
        if k == "str":
            return f"g.string({path}).into()"
        if k == "enm":
            return f"g.enm({path}).into()"
        if k == "i32":
            return f"g.int32({path})"
        if k == "i64":
            return f"g.int64({path})"
        if k == "bool":
            return f"g.boolean({path})"
        if k == "ts":
            return f"g.ts({path}, \"{f['fmt']}\")"
        if k == "ref":
            if f["ref"] not in need:
                need.append(f["ref"])
            return f"build_{f['ref']}(g, d + 1, {path})"
        fail(f"build: kind {k}")

    def member_expr(owner, f):
        """expression of the dto field of Smithy member `f` of `owner`; `p` is the path of the owner"""
        field, fty, optional = rust_field(owner, f["smithy_member"])
        required = "true" if f["pres"] != "opt" else "false"
        tag = f["tag"]
        dk = dto.get(fty)
        if f["shape"] == "single":
            if dk is None or dk[0] in ("list", "map"):
                fail(f"build: {owner}.{field}: single member of dto type {fty} ({dk and dk[0]})")
            inner = scalar_expr(f, f'&child(p, "{tag}")')
        else:
            if dk is None or dk[0] != "list":
                fail(f"build: {owner}.{field}: list member of dto type {fty} ({dk and dk[0]})")
            wrapped = "true" if f["shape"] == "wrapped" else "false"
            item = scalar_expr(f, '&format!("{}[{}]", lp, i)')
            inner = (f'{{ let lp = child(p, "{tag}"); let n = g.len(d, {required}, {wrapped}, &lp); '
                     f'(0..n).map(|i| {item}).collect::<Vec<_>>() }}')
        if optional:
            return field, f"if g.present(d, {required}) {{ Some({inner}) }} else {{ None }}"
        return field, inner

    def emit_struct(t):
        d = sm_defs.get(t)
        if d is None:
            fail(f"build: no Smithy structure behind {t}")
        if d[0] == "union":
            k = dto.get(t)
            if not k or k[0] != "union":
                fail(f"build: {t}: Smithy union, dto {k and k[0]}")
            names = [v for v, _ in k[1]]
            R.append("#[allow(non_snake_case, unused_variables)]")
            R.append(f"pub fn build_{t}(g: &mut G, d: u32, p: &str) -> s3s::dto::{t} {{")
            R.append(f"    match g.variant({len(d[1])}) {{")
            for i, v in enumerate(d[1]):
                if v["variant"] not in names:
                    fail(f"build: union {t}: no dto variant {v['variant']}")
                arm = "_" if i == len(d[1]) - 1 else str(i)
                vtag = v["tag"]
                e = scalar_expr(v, f'&child(p, "{vtag}")')
                R.append(f"        {arm} => s3s::dto::{t}::{v['variant']}({e}),")
            R.append("    }")
            R.append("}")
            R.append("")
            return
        k = dto.get(t)
        if not k or k[0] != "struct":
            fail(f"build: {t}: Smithy structure, dto {k and k[0]}")
        inits = {}
        for f in d[1]:
            field, e = member_expr(t, f)
            inits[field] = e
        R.append("#[allow(non_snake_case, unused_variables)]")
        R.append(f"pub fn build_{t}(g: &mut G, d: u32, p: &str) -> s3s::dto::{t} {{")
        R.append("    let n0 = g.lines.len();")
        # Smithy member order = the order the values are drawn in and the order of the recorded lines
        for f in d[1]:
            field, _, _ = rust_field(t, f["smithy_member"])
            R.append(f"    let f_{field} = {inits[field]};")
        R.append(f"    let v = s3s::dto::{t} {{")
        for field, _, _ in k[1]:
            if field in inits:
                R.append(f"        {field}: f_{field},")
            else:
                # a dto field without a body member of the Smithy structure behind it
                R.append(f"        {field}: Default::default(),")
        R.append("    };")
        R.append("    if g.lines.len() == n0 { g.mark(p, \"{}\"); }")
        R.append("    v")
        R.append("}")
        R.append("")

    arms = []
    for opn in sorted(ops):
        op = ops[opn]
        tgt = op.get("output", {}).get("target", "smithy.api#Unit")
        if tgt == "smithy.api#Unit":
            continue
        st = shapes[tgt.split("#")[1]]
        out_ty = opn + "Output"
        if out_ty not in dto:
            continue  # not an operation of s3s
        payload = [(mn, mv) for mn, mv in st["members"].items() if "smithy.api#httpPayload" in mv.get("traits", {})]
        if payload:
            mn, mv = payload[0]
            tn = mv["target"].split("#")[1]
            tsh = shapes.get(tn)
            if tsh is None or tsh["type"] not in ("structure", "union") or "smithy.api#streaming" in tsh.get("traits", {}):
                continue
            if tn not in tyset:
                fail(f"build: {opn}: payload type {tn} has no XML impl in s3s")
            field, fty, optional = rust_field(out_ty, mn)
            if fty != tn:
                fail(f"build: {opn}: payload member {field} has dto type {fty}, Smithy target {tn}")
            if tn not in need:
                need.append(tn)
            val = f'build_{tn}(g, 0, "")'
            arms.append((opn, out_ty, [f"o.{field} = {'Some(' + val + ')' if optional else val};"]))
        else:
            if out_ty not in sm_defs or sm_defs[out_ty][0] != "struct" or not sm_defs[out_ty][1]:
                continue
            stmts = ["let (d, p) = (0u32, \"\");"]
            for f in sm_defs[out_ty][1]:
                field, e = member_expr(out_ty, f)
                stmts.append(f"o.{field} = {e};")
            arms.append((opn, out_ty, stmts))
    done = 0
    while done < len(need):
        emit_struct(need[done])
        done += 1
    R.append("/// set the XML body of the output of backend method `meth`; false when the operation has none")
    R.append("#[allow(unused_variables)]")
    R.append("pub fn fill_output(meth: &str, out: &mut dyn std::any::Any, g: &mut G) -> bool {")
    R.append("    match meth {")
    for opn, out_ty, stmts in arms:
        R.append(f'        "{op_snake(opn)}" => {{')
        R.append(f'            let o = out.downcast_mut::<s3s::dto::{out_ty}>().expect("output type of {opn}");')
        for s in stmts:
            R.append("            " + s)
        R.append("            true")
        R.append("        }")
    R.append("        _ => false,")
    R.append("    }")
    R.append("}")
    R.append("")
    R.append("/// the operations `fill_output` knows")
    R.append("pub const XML_OUTPUT_OPS: &[&str] = &[" + ", ".join(f'"{opn}"' for opn, _, _ in arms) + "];")
    write_if_changed(os.path.join(verif_root, "harness", "src", "gen_xml_build.rs"), "\n".join(R) + "\n")
    return {"ops": len(arms), "types": len(need)}


if __name__ == "__main__":
    import sys
    print(run(sys.argv[1] if len(sys.argv) > 1 else "/repo", sys.argv[2] if len(sys.argv) > 2 else "/verif"))
