"""Sanity analysis for C16 (not part of bin/check): which obligation notices which kind of edit.

Copies `crates/` of the repository under study to a temporary directory, applies ONE edit at a time, runs
`translate/emit_sites.py` on the copy and elaborates the regenerated tables together with `S3V/Props/C16.lean`
in a single scratch file (nothing under /verif or /repo is written).  Prints, per edit, the theorems that stop
checking, or that the translator refuses the shape.  Expected on the pinned tree (names of the edits below):

  a_*   benign edits (log the access key, derive Debug on CredentialsExt, derive Hash)   -> all obligations hold
  b_*   Display / Deref / second accessor on SecretKey                                   -> C16_secret_key_has_no_other_accessor
  c_*   hand-written Debug of Credentials that prints the key                            -> C16_expose_only_in_signature_fns, C16_holders_render_by_delegation, ...
  d_*   #[instrument] on calculate_signature                                             -> C16_taint_sites_clean, C16_mac_helpers_do_not_log
  e_*, l_*  the CLI options of s3s-fs (plain String secret) logged as a whole            -> C16_raw_secret_holders_not_logged
  f_*   .expose() in another function                                                    -> C16_expose_only_in_signature_fns, C16_taint_flows_only_into_mac
  g_*, i_*  shapes outside the recognised ones                                           -> the translator refuses
  h_*   Serialize prints the key (always / only for formats that are not human readable)   -> C16_secret_render_constant
  j_*   format!() of the exposed key inside calculate_signature                          -> C16_taint_flows_only_into_mac
  k_*   debug!(?secret_key) of a local SecretKey (harmless, flagged by name: conservative) -> C16_taint_sites_clean

usage: python3 translate/emit_sites_mutations.py [edit-name ...]      (from /verif; needs `lake` on PATH)
"""
import os, shutil, subprocess, sys, re, tempfile
ROOT = os.path.dirname(os.path.dirname(os.path.abspath(__file__)))
sys.path.insert(0, ROOT)
from translate import emit_sites
REPO = os.environ.get("S3V_REPO", "/repo")
TMP = tempfile.mkdtemp(prefix="c16mut-")
BASE = os.path.join(TMP, "repo")
def fresh():
    if os.path.exists(BASE): shutil.rmtree(BASE)
    os.makedirs(BASE)
    shutil.copytree(os.path.join(REPO, 'crates'), BASE+'/crates')
def sub(path, old, new, count=1):
    p=os.path.join(BASE,path); s=open(p).read(); assert old in s, (path, old); open(p,'w').write(s.replace(old,new,count))
def app(path, text):
    p=os.path.join(BASE,path); open(p,'a').write(text)
def check(name):
    vr=os.path.join(TMP, 'vr'); os.makedirs(vr+'/lean/S3V/Gen', exist_ok=True)
    try:
        emit_sites.run(BASE, vr)
    except Exception as e:
        print(f"{name}: TRANSLATOR REFUSES: {type(e).__name__}: {e}"); return
    gen=open(vr+'/lean/S3V/Gen/Emit.lean').read().replace('import S3V.Model.Secrets\n','')
    props=open(os.path.join(ROOT, 'lean/S3V/Props/C16.lean')).read().replace('import S3V.Gen.Emit\n','')
    f=os.path.join(TMP, 'Check.lean')
    imports=''.join(l+'\n' for l in props.split('\n') if l.startswith('import '))
    props='\n'.join(l for l in props.split('\n') if not l.startswith('import '))
    open(f,'w').write('import S3V.Model.Secrets\n'+imports+gen+props)
    out=subprocess.run(['lake','env','lean',f],cwd=os.path.join(ROOT, 'lean'),capture_output=True,text=True).stdout
    lines=open(f).read().split('\n')
    failed=[]
    for m in re.finditer(r'Check\.lean:(\d+):\d+: error', out):
        L=int(m.group(1)); t='?'
        for k in range(L-1,-1,-1):
            mm=re.match(r'(theorem|example)\s*(\S*)', lines[k])
            if mm: t=mm.group(2) or 'example'; break
        if t not in failed: failed.append(t)
    print(f"{name}: " + ("all obligations hold" if not failed else "FAILS " + ", ".join(failed)))
tests = {}
def T(f): tests[f.__name__]=f; return f
@T
def a_benign_log_access_key():
    sub('crates/s3s/src/ops/signature.rs', '        let secret_key = auth.get_secret_key(access_key).await?;\n\n        let amz_date', '        let secret_key = auth.get_secret_key(access_key).await?;\n        debug!(?access_key, "looked up");\n\n        let amz_date')
@T
def a2_benign_derive_debug_credentials_ext():
    sub('crates/s3s/src/ops/signature.rs', 'pub struct CredentialsExt {', '#[derive(Debug)]\npub struct CredentialsExt {')
@T
def b_display_for_secret_key():
    app('crates/s3s/src/auth/secret_key.rs', '\nimpl fmt::Display for SecretKey {\n    fn fmt(&self, f: &mut fmt::Formatter<\'_>) -> fmt::Result {\n        f.write_str(&self.0)\n    }\n}\n')
@T
def b2_deref_for_secret_key():
    app('crates/s3s/src/auth/secret_key.rs', '\nimpl std::ops::Deref for SecretKey {\n    type Target = str;\n    fn deref(&self) -> &str {\n        &self.0\n    }\n}\n')
@T
def a3_benign_derive_hash_secret_key():
    sub('crates/s3s/src/auth/secret_key.rs', '#[derive(Clone, PartialEq, Eq)]\npub struct SecretKey', '#[derive(Clone, PartialEq, Eq, Hash)]\npub struct SecretKey')
@T
def b4_second_accessor():
    sub('crates/s3s/src/auth/secret_key.rs', '    #[must_use]\n    pub fn expose(&self)', '    pub fn as_str(&self) -> &str {\n        &self.0\n    }\n\n    #[must_use]\n    pub fn expose(&self)')
@T
def c_manual_debug_credentials():
    sub('crates/s3s/src/auth/secret_key.rs', '#[derive(Debug, Clone, PartialEq, Eq)]\npub struct Credentials', '#[derive(Clone, PartialEq, Eq)]\npub struct Credentials')
    app('crates/s3s/src/auth/secret_key.rs', '\nimpl fmt::Debug for Credentials {\n    fn fmt(&self, f: &mut fmt::Formatter<\'_>) -> fmt::Result {\n        write!(f, "{}:{}", self.access_key, self.secret_key.expose())\n    }\n}\n')
@T
def d_instrument_calculate_signature():
    sub('crates/s3s/src/sig_v4/methods.rs', '/// calculate signature\n#[must_use]\npub fn calculate_signature(', '/// calculate signature\n#[must_use]\n#[tracing::instrument]\npub fn calculate_signature(')
@T
def e_log_cli_options():
    sub('crates/s3s-fs/src/main.rs', '    let opt = Opt::parse();\n', '    let opt = Opt::parse();\n    info!(?opt);\n')
@T
def f_expose_elsewhere():
    app('crates/s3s/src/route.rs', '\npub fn describe(k: &crate::auth::SecretKey) -> String {\n    format!("key {}", k.expose())\n}\n')
@T
def g_unknown_macro_shape():
    sub('crates/s3s/src/ops/signature.rs', '            debug!("checked signature v2");', '            debug!({ version = 2 }, "checked signature");')
@T
def h_serialize_prints_key():
    sub('crates/s3s/src/auth/secret_key.rs', '<str as Serialize>::serialize(PLACEHOLDER, serializer)', '<str as Serialize>::serialize(&self.0, serializer)')
@T
def h2_serialize_redacts_only_human_readable():
    sub('crates/s3s/src/auth/secret_key.rs', '        <str as Serialize>::serialize(PLACEHOLDER, serializer)\n',
        '        if serializer.is_human_readable() {\n            <str as Serialize>::serialize(PLACEHOLDER, serializer)\n        } else {\n            serializer.serialize_str(&self.0)\n        }\n')
@T
def i_debug_new_shape():
    sub('crates/s3s/src/auth/secret_key.rs', 'f.debug_tuple("SecretKey").field(&PLACEHOLDER).finish()', 'write!(f, "SecretKey({})", self.0.len())')
@T
def j_format_in_signature_fn():
    sub('crates/s3s/src/sig_v2/methods.rs', '    base64(hmac_sha1(secret_key.expose(), string_to_sign))', '    let s = format!("{}", secret_key.expose());\n    base64(hmac_sha1(s, string_to_sign))')
@T
def k_log_secret_named_local():
    sub('crates/s3s/src/ops/signature.rs', '        let secret_key = auth.get_secret_key(access_key).await?;\n\n        let amz_date', '        let secret_key = auth.get_secret_key(access_key).await?;\n        debug!(?secret_key, "looked up");\n\n        let amz_date')
@T
def l_instrument_ret_on_fs_with_cred():
    sub('crates/s3s-fs/src/main.rs', '#[tokio::main]\nasync fn run(opt: Opt)', '#[tracing::instrument]\n#[tokio::main]\nasync fn run(opt: Opt)')
sel=sys.argv[1:] or list(tests)
for n in sel:
    fresh(); tests[n](); check(n)
shutil.rmtree(TMP, ignore_errors=True)
