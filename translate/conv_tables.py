"""Tie A for C02/C03 (SDK proxy configuration): translate crates/s3s-aws/src/conv/generated.rs into a Lean table of
field-to-field conversions in both directions (s3s dto <-> aws-sdk-s3 types), so that the kernel re-decides on
every run that every conversion maps field `f` to field `f` (names compared in a normal form: lower case, no
underscores, `r#` stripped — `checksum_crc32c` <-> `set_checksum_crc32_c`, `type_` <-> `r#type`), that every field
of the dto struct is converted exactly once in each direction, and that every enum constant / union variant is
mapped to the like-named one.

Names are interned: each distinct normal-form name gets a number; the Lean table holds numbers (fast kernel
evaluation) and a name array for diagnostics. Unknown statement shapes raise.
"""
import os
import re

from translate.ops_tables import Unrecognised, write_if_changed


def norm(s):
    return s.replace("r#", "").replace("_", "").lower()


def parse(repo):
    src = open(os.path.join(repo, "crates/s3s-aws/src/conv/generated.rs")).read()
    dto = open(os.path.join(repo, "crates/s3s/src/dto/generated.rs")).read()
    blocks = re.split(r"\nimpl AwsConversion for s3s::dto::", src)[1:]
    structs, enums, unions = [], [], []
    for b in blocks:
        name = re.match(r"(\w+) \{", b).group(1)
        body = re.sub(r"\s+", " ", b)
        mf = re.search(r"fn try_from_aws\(x: Self::Target\) -> S3Result<Self> \{ (.*?) \} (?:#\[allow\(deprecated\)\] )?fn try_into_aws", body)
        mi = re.search(r"fn try_into_aws\(x: Self\) -> S3Result<Self::Target> \{ (.*?) \} \}", body)
        if not mf or not mi:
            raise Unrecognised(f"conv: {name}: from/into bodies not found")
        f, i = mf.group(1), mi.group(1)
        if f.startswith("Ok(Self {") or f.startswith("let _ = x; Ok(Self {})"):
            fp = []
            inner = re.fullmatch(r"(?:let _ = x; )?Ok\(Self \{ ?(.*?),? ?\}\)", f)
            if inner is None:
                raise Unrecognised(f"conv: {name}: try_from_aws `{f[:80]}`")
            for item in split_top(inner.group(1)):
                item = item.strip()
                if not item:
                    continue
                m = re.fullmatch(r'(\w+): (?:Some\()?(?:try_from_aws|unwrap_from_aws)\( ?x\.((?:r#)?\w+)(?:, "(\w+)",?)? ?\)\?\)?', item)
                if not m:
                    m = re.fullmatch(r"(\w+): Some\(crate::event_stream::from_aws\(x\.(\w+)\)\)()", item)
                if not m:
                    raise Unrecognised(f"conv: {name}: field conversion `{item}`")
                if m.group(3) and m.group(3) != m.group(2):
                    raise Unrecognised(f"conv: {name}: unwrap_from_aws names {m.group(3)} for field {m.group(2)}")
                fp.append((m.group(1), m.group(2)))
            ip = []
            rest = i
            if rest.startswith("drop(x); unimplemented!("):
                # direction not implemented upstream (event streams towards the SDK); recorded, not compared
                sm = re.search(r"\npub struct " + name + r" \{(.*?)\n\}\n", dto, re.S)
                fields = re.findall(r"\n    pub (\w+): ", sm.group(1)) if sm else []
                structs.append((name, fp, None, fields))
                continue
            m0 = re.match(r"(?:let _ = x; )?let (?:mut )?y = Self::Target::builder\(\); ", rest)
            if not m0:
                raise Unrecognised(f"conv: {name}: try_into_aws start `{rest[:80]}`")
            rest = rest[m0.end():]
            while True:
                m = re.match(r"y = y\.set_(\w+)\( ?(?:Some\()?try_into_aws\(x\.((?:r#)?\w+)\)\?\)?,? ?\); ", rest)
                if not m:
                    break
                ip.append((m.group(1), m.group(2)))
                rest = rest[m.end():]
            if rest not in ("Ok(y.build())", "y.build().map_err(S3Error::internal_error)"):
                raise Unrecognised(f"conv: {name}: try_into_aws tail `{rest[:100]}`")
            sm = re.search(r"\npub struct " + name + r" \{(.*?)\n\}\n", dto, re.S)
            if sm:
                fields = re.findall(r"\n    pub (\w+): ", sm.group(1))
            elif re.search(r"\npub struct " + name + r" \{\}", dto):
                fields = []
            else:
                raise Unrecognised(f"conv: dto struct {name} not found")
            structs.append((name, fp, ip, fields))
        elif f.startswith("Ok(match x {") and "Self::from_static(" in f:
            pairs = re.findall(r"aws_sdk_s3::types::\w+::(\w+) => \{? ?Self::from_static\(Self::(\w+)\),? ?\}?", f)
            n_arms = len(re.findall(r"aws_sdk_s3::types::\w+::\w+ =>", f))
            if n_arms != len(pairs):
                raise Unrecognised(f"conv: {name}: {n_arms} enum arms but {len(pairs)} recognised")
            if not pairs or "_ => Self::from(x.as_str().to_owned())" not in f:
                raise Unrecognised(f"conv: {name}: enum from `{f[:100]}`")
            if not re.fullmatch(r"Ok\(aws_sdk_s3::types::\w+::from\(x\.as_str\(\)\)\)", i):
                raise Unrecognised(f"conv: {name}: enum into `{i[:100]}`")
            enums.append((name, pairs))
        elif f.startswith("Ok(match x {"):
            fp = re.findall(r"aws_sdk_s3::types::\w+::(\w+)\(v\) => Self::(\w+)\(try_from_aws\(v\)\?\)", f)
            ip = re.findall(r"Self::(\w+)\(v\) => aws_sdk_s3::types::\w+::(\w+)\(try_into_aws\(v\)\?\)", i)
            if not fp or not ip:
                raise Unrecognised(f"conv: {name}: union `{f[:100]}`")
            unions.append((name, fp, ip))
        else:
            raise Unrecognised(f"conv: {name}: shape `{f[:100]}`")
    if len(structs) < 300:
        raise Unrecognised(f"conv: only {len(structs)} struct conversions recognised")
    return structs, enums, unions


def split_top(s):
    out, depth, cur = [], 0, ""
    for ch in s:
        if ch in "([{":
            depth += 1
        elif ch in ")]}":
            depth -= 1
        if ch == "," and depth == 0:
            out.append(cur)
            cur = ""
        else:
            cur += ch
    out.append(cur)
    return out


def run(repo, verif_root):
    structs, enums, unions = parse(repo)
    names = {}

    def nid(s):
        k = norm(s)
        if k not in names:
            names[k] = len(names)
        return names[k]

    L = []
    L.append("/- GENERATED by translate/conv_tables.py from crates/s3s-aws/src/conv/generated.rs and crates/s3s/src/dto/generated.rs")
    L.append("   — do not edit; regenerated on every run. Names are interned in normal form (lower case, no underscores). -/")
    L.append("namespace S3V.Gen.Conv")
    L.append("")
    L.append("structure ConvStruct where\n  ty : Nat\n  fromPairs : List (Nat × Nat)   -- (dto field, sdk field read)\n  intoPairs : List (Nat × Nat)   -- (sdk setter, dto field read)\n  dtoFields : List Nat")
    L.append("structure ConvEnum where\n  ty : Nat\n  pairs : List (Nat × Nat)")
    L.append("")
    L.append("def structs : List ConvStruct := [")
    rows = []
    for name, fp, ip, fields in structs:
        rows.append("  ⟨%d, [%s], [%s], [%s]⟩" % (
            nid(name),
            ", ".join(f"({nid(a)}, {nid(b)})" for a, b in fp),
            ", ".join(f"({nid(a)}, {nid(b)})" for a, b in (ip if ip is not None else [(f2, f2) for f2 in fields])),
            ", ".join(str(nid(f)) for f in fields)))
    L.append(",\n".join(rows) + "]")
    L.append("")
    L.append("def enums : List ConvEnum := [")
    L.append(",\n".join("  ⟨%d, [%s]⟩" % (nid(n), ", ".join(f"({nid(a)}, {nid(b)})" for a, b in ps)) for n, ps in enums) + "]")
    L.append("")
    L.append("/-- unions: (sdk variant, dto variant) when reading, (dto variant, sdk variant) when writing -/")
    L.append("def unions : List (ConvEnum × ConvEnum) := [")
    L.append(",\n".join("  (⟨%d, [%s]⟩, ⟨%d, [%s]⟩)" % (
        nid(n), ", ".join(f"({nid(a)}, {nid(b)})" for a, b in fp),
        nid(n), ", ".join(f"({nid(a)}, {nid(b)})" for a, b in ip)) for n, fp, ip in unions) + "]")
    L.append("")
    inv = sorted(names.items(), key=lambda kv: kv[1])
    L.append("/-- diagnostics only: the interned names -/")
    L.append("def names : Array String := #[" + ", ".join(f'"{k}"' for k, _ in inv) + "]")
    L.append("")
    L.append("end S3V.Gen.Conv")
    write_if_changed(os.path.join(verif_root, "lean/S3V/Gen/Conv.lean"), "\n".join(L) + "\n")
    return {"structs": len(structs), "enums": len(enums), "unions": len(unions), "names": len(names)}


if __name__ == "__main__":
    import sys
    sys.path.insert(0, os.path.dirname(os.path.dirname(os.path.abspath(__file__))))
    print(run("/repo", os.path.dirname(os.path.dirname(os.path.abspath(__file__)))))
