"""Tie-A translator T10 (C16): inventory of emission and taint sites.

Reads, on every run, every hand-written `.rs` file under `crates/{s3s,s3s-fs,s3s-aws}/src` of the working
tree (files named `generated*.rs` are read only when they contain a logging macro, an `instrument` attribute or a secret access) and writes
`lean/S3V/Gen/Emit.lean` (only when its content changes):

  (a) `logSites`      every `trace!/debug!/info!/warn!/error!` (bare or `tracing::`-qualified), every
                      `println!/eprintln!/print!/eprint!/dbg!`, every error-message macro (`s3_error!`,
                      `invalid_request!`, `try_!`, …) and formatting macro (`format!`, `write!`, `panic!`, …), every
                      `#[instrument]`/`#[tracing::instrument]` site: file, line, enclosing fn / impl type, captured expressions (sigil, identifiers,
                      normalised token text), `ret`/`err` flags; for instrument sites the non-skipped parameters
  (b) `exposeSites`   every `.expose()` call: enclosing fn and the statement-level data flow of the result inside
                      that fn (names derived from it, every callee that handles derived data, whether the fn's
                      value is derived)
  (c) `secretKey*`    derives, trait impls and inherent methods of `SecretKey`; the bodies of its `Debug` and
                      `Serialize` impls as small terms (`DebugBody`, `SerBody`) with the constant they print
  (d) `holders`       every struct/enum that (transitively, by type name) contains a `SecretKey`, and how it
                      gets `Debug` / `Display` / `Serialize`;  `rawSecretFields`: fields named `secret…` of a
                      non-redacting type

The translator is deliberately dumb and refuses (raises `Unrecognised`) what it cannot read: an unterminated
token, a logging-macro argument of unknown form, an `instrument` argument it does not know, a tracing entry point
it does not read (`event!`, `span!`, `info_span!`, `Span::current()`), a `Debug` /
`Serialize` body of `SecretKey` outside the listed shapes, a manual `Debug`/`Display`/`Serialize` of a holder
whose shape it cannot classify, an `.expose()` outside any `fn`.
"""
import os
import re

CRATES = ["crates/s3s/src", "crates/s3s-fs/src", "crates/s3s-aws/src"]
LOG_MACROS = {"trace", "debug", "info", "warn", "error"}
PRINT_MACROS = {"println", "eprintln", "print", "eprint", "dbg"}
# macros whose arguments end up in an error message / a formatted string (response bytes, panics, Display impls)
ERROR_MACROS = {"s3_error", "invalid_request", "wrap_sdk_error", "try_", "ensure", "bail"}
FORMAT_MACROS = {"format", "write", "writeln", "format_args", "panic", "unreachable", "unimplemented", "todo"}
# tracing entry points this translator does not read: their presence is refused
UNREAD_MACROS = {"event", "span", "trace_span", "debug_span", "info_span", "warn_span", "error_span", "enabled"}
SECRET_TYPE = "SecretKey"
SECRET_FILE = "crates/s3s/src/auth/secret_key.rs"

# identifiers the Lean side refers to by name: always present in the generated enumeration
ANCHOR_IDS = [
    "expose", "calculate_signature", "SecretKey", "Credentials", "CredentialsExt", "Debug", "Display", "Serialize",
    "Deserialize", "Zeroize", "Drop", "From", "Clone", "PartialEq", "Eq", "Hash", "PartialOrd", "Ord", "Default",
    "Deref", "DerefMut", "AsRef", "AsMut", "Borrow", "ToString", "Into", "ToOwned", "LowerHex", "UpperHex",
    "new", "zeroize", "drop", "hmac_sha256", "hmac_sha1", "hex", "base64", "with_capacity", "len",
    "saturating_add", "extend_from_slice", "as_bytes", "as_slice", "as_str", "as_ref", "self", "clone", "to_owned",
    "borrow", "deref",
    "SignatureCtx", "SimpleAuth", "S3Request", "S3AccessContext", "S3Extensions", "Request",
]
ANCHOR_SRCS = [
    "crates/s3s/src/auth/secret_key.rs", "crates/s3s/src/sig_v4/methods.rs", "crates/s3s/src/sig_v2/methods.rs",
    "crates/s3s/src/utils/crypto.rs", "crates/s3s/src/ops/signature.rs",
]

KEYWORDS = {
    "as", "async", "await", "break", "const", "continue", "crate", "dyn", "else", "enum", "extern", "false", "fn",
    "for", "if", "impl", "in", "let", "loop", "match", "mod", "move", "mut", "pub", "ref", "return", "static",
    "struct", "super", "trait", "true", "type", "unsafe", "use", "where", "while", "Self",
}


class Unrecognised(Exception):
    pass


# --------------------------------------------------------------------------------------------
# tokenizer

class Tok:
    __slots__ = ("k", "t", "line", "val")

    def __init__(self, k, t, line, val=None):
        self.k, self.t, self.line, self.val = k, t, line, val

    def __repr__(self):
        return f"{self.k}:{self.t}@{self.line}"


PUNCT3 = ["..=", "...", "<<=", ">>="]
PUNCT2 = ["::", "->", "=>", "==", "!=", "<=", ">=", "&&", "||", "..", "+=", "-=", "*=", "/=", "%=", "^=", "&=", "|="]
ID_START = re.compile(r"[A-Za-z_]")
ID_CONT = re.compile(r"[A-Za-z0-9_]")


def tokenize(src, path):
    toks, i, n, line = [], 0, len(src), 1

    def bad(what):
        raise Unrecognised(f"{path}:{line}: {what}")

    while i < n:
        c = src[i]
        if c == "\n":
            line += 1
            i += 1
            continue
        if c in " \t\r":
            i += 1
            continue
        if src.startswith("//", i):
            while i < n and src[i] != "\n":
                i += 1
            continue
        if src.startswith("/*", i):
            depth, i = 1, i + 2
            while i < n and depth:
                if src.startswith("/*", i):
                    depth += 1
                    i += 2
                elif src.startswith("*/", i):
                    depth -= 1
                    i += 2
                else:
                    if src[i] == "\n":
                        line += 1
                    i += 1
            if depth:
                bad("unterminated block comment")
            continue
        # raw strings r"…", r#"…"#, br#"…"#, cr#"…"#
        m = re.match(r"(?:b|c)?r(#*)\"", src[i:i + 40])
        if m:
            hashes = m.group(1)
            start = i + m.end()
            end = src.find('"' + hashes, start)
            if end < 0:
                bad("unterminated raw string")
            body = src[start:end]
            toks.append(Tok("str", src[i:end + 1 + len(hashes)], line, body))
            line += body.count("\n")
            i = end + 1 + len(hashes)
            continue
        if c == '"' or (c in "bc" and i + 1 < n and src[i + 1] == '"'):
            j = i + (1 if c == '"' else 2)
            out = []
            l0 = line
            while j < n and src[j] != '"':
                if src[j] == "\\":
                    e = src[j + 1]
                    if e == "n":
                        out.append("\n")
                    elif e == "t":
                        out.append("\t")
                    elif e == "r":
                        out.append("\r")
                    elif e == "0":
                        out.append("\0")
                    elif e in "\\\"'":
                        out.append(e)
                    elif e == "x":
                        out.append(chr(int(src[j + 2:j + 4], 16)))
                        j += 2
                    elif e == "u":
                        k = src.index("}", j)
                        out.append(chr(int(src[j + 3:k], 16)))
                        j = k - 1
                    elif e == "\n":  # line continuation: skip the newline and leading whitespace
                        line += 1
                        j += 2
                        while j < n and src[j] in " \t\r\n":
                            if src[j] == "\n":
                                line += 1
                            j += 1
                        continue
                    else:
                        bad(f"unknown string escape \\{e}")
                    j += 2
                    continue
                if src[j] == "\n":
                    line += 1
                out.append(src[j])
                j += 1
            if j >= n:
                line = l0
                bad("unterminated string literal")
            toks.append(Tok("str", src[i:j + 1], l0, "".join(out)))
            i = j + 1
            continue
        if c == "'" or (c == "b" and i + 1 < n and src[i + 1] == "'"):
            j = i + (1 if c == "'" else 2)
            # char literal: 'x' or '\…'; lifetime / label: 'ident not followed by '
            if j < n and src[j] == "\\":
                k = src.find("'", j + 2)
                if k < 0:
                    bad("unterminated char literal")
                toks.append(Tok("char", src[i:k + 1], line))
                i = k + 1
                continue
            if j + 1 < n and src[j + 1] == "'" and src[j] != "'":
                toks.append(Tok("char", src[i:j + 2], line))
                i = j + 2
                continue
            if c == "'" and j < n and ID_START.match(src[j]):
                k = j
                while k < n and ID_CONT.match(src[k]):
                    k += 1
                toks.append(Tok("lifetime", src[i:k], line))
                i = k
                continue
            # multi-byte char literal such as '中'
            k = src.find("'", j)
            if 0 <= k <= j + 4:
                toks.append(Tok("char", src[i:k + 1], line))
                i = k + 1
                continue
            bad("unreadable quote")
        if ID_START.match(c):
            k = i
            while k < n and ID_CONT.match(src[k]):
                k += 1
            word = src[i:k]
            if word == "r" and k < n and src[k] == "#" and k + 1 < n and ID_START.match(src[k + 1]):  # raw identifier r#type
                k2 = k + 1
                while k2 < n and ID_CONT.match(src[k2]):
                    k2 += 1
                toks.append(Tok("ident", src[k + 1:k2], line))
                i = k2
                continue
            toks.append(Tok("ident", word, line))
            i = k
            continue
        if c.isdigit():
            k = i
            while k < n and (ID_CONT.match(src[k])):
                k += 1
            # fraction: `1.5` but not `1..2`, `x.0.1` is handled by the caller never needing it
            if k + 1 < n and src[k] == "." and src[k + 1].isdigit() and not (toks and toks[-1].t == "."):
                k += 1
                while k < n and ID_CONT.match(src[k]):
                    k += 1
            toks.append(Tok("num", src[i:k], line))
            i = k
            continue
        for group, ln in ((PUNCT3, 3), (PUNCT2, 2)):
            if src[i:i + ln] in group:
                toks.append(Tok("punct", src[i:i + ln], line))
                i += ln
                break
        else:
            if c in "{}()[]<>,;:.=!?%&|+-*/^~@#$":
                toks.append(Tok("punct", c, line))
                i += 1
            elif c == "\\":
                bad("stray backslash")
            else:
                bad(f"unexpected character {c!r}")
    return toks


OPEN = {"(": ")", "[": "]", "{": "}"}
CLOSE = {")", "]", "}"}


def match_close(toks, i):
    """index of the token closing the delimiter opened at toks[i]"""
    stack = []
    for j in range(i, len(toks)):
        t = toks[j]
        if t.k == "punct":
            if t.t in OPEN:
                stack.append(OPEN[t.t])
            elif t.t in CLOSE:
                if not stack or stack.pop() != t.t:
                    raise Unrecognised(f"line {t.line}: unbalanced {t.t}")
                if not stack:
                    return j
    raise Unrecognised(f"line {toks[i].line}: delimiter never closes")


def split_top(toks, sep=",", angles=False):
    """split a token list at top-level separators (nesting by () [] {} and, optionally, <>)"""
    parts, cur, depth, ang = [], [], 0, 0
    for t in toks:
        if t.k == "punct":
            if t.t in OPEN:
                depth += 1
            elif t.t in CLOSE:
                depth -= 1
            elif angles and t.t == "<":
                ang += 1
            elif angles and t.t == ">" and ang > 0:
                ang -= 1
            elif t.t == sep and depth == 0 and ang == 0:
                parts.append(cur)
                cur = []
                continue
        cur.append(t)
    if cur or parts:
        parts.append(cur)
    return [p for p in parts if p]


def norm(toks):
    """normalised token string: a single space only between two word-like tokens"""
    out = []
    prev_word = False
    for t in toks:
        word = t.k in ("ident", "num", "lifetime", "str", "char")
        if out and prev_word and word:
            out.append(" ")
        out.append(t.t)
        prev_word = word
    return "".join(out)


def idents_of(toks):
    """identifiers occurring in an expression (keywords dropped, order of first occurrence, no duplicates)"""
    seen, out = set(), []
    for t in toks:
        if t.k == "ident" and (t.t not in KEYWORDS or t.t == "self") and t.t not in seen:
            seen.add(t.t)
            out.append(t.t)
    return out


# --------------------------------------------------------------------------------------------
# format strings

FMT_PIECE = re.compile(r"\{\{|\}\}|\{([^{}]*)\}")


def fmt_inline_names(s, where):
    """identifiers captured inline by a format string: `{name}`, `{name:?}`, `{:>width$}` …"""
    names = []
    for m in FMT_PIECE.finditer(s):
        if m.group(1) is None:
            continue
        spec = m.group(1)
        arg, _, fmt = spec.partition(":")
        arg = arg.strip()
        if arg and not arg.isdigit():
            if not re.fullmatch(r"[A-Za-z_][A-Za-z0-9_]*", arg):
                raise Unrecognised(f"{where}: format argument {arg!r}")
            names.append(arg)
        for w in re.findall(r"([A-Za-z_][A-Za-z0-9_]*)\$", fmt):
            names.append(w)
    return names


# --------------------------------------------------------------------------------------------
# file walk: scopes, items, sites

class Scope:
    __slots__ = ("kind", "name", "owner", "trait", "test", "attrs", "start", "end", "params", "kw")

    def __init__(self, kind, name=None, owner=None, trait=None, test=False, attrs=None, start=0, params=None):
        self.kind, self.name, self.owner, self.trait, self.test = kind, name, owner, trait, test
        self.attrs, self.start, self.end, self.params = attrs or [], start, None, params
        self.kw = None   # index of the item keyword (`fn`, `impl`); `start`/`end` are the braces of the body


ITEM_PREFIX_OK = {"pub", "(", ")", "crate", "super", "self", "in", "async", "unsafe", "const", "extern", "default"}


def parse_impl_header(hdr, where):
    """tokens between `impl` and `{` → (trait or None, type name)"""
    # drop leading generics
    i = 0
    if hdr and hdr[0].t == "<":
        depth = 0
        for j, t in enumerate(hdr):
            if t.t == "<":
                depth += 1
            elif t.t == ">":
                depth -= 1
                if depth == 0:
                    i = j + 1
                    break
    rest = hdr[i:]
    # cut a where clause
    for j, t in enumerate(rest):
        if t.k == "ident" and t.t == "where":
            rest = rest[:j]
            break
    # split at top-level `for` (not `for<'a>` HRTB, which is followed by `<`)
    depth, split = 0, None
    for j, t in enumerate(rest):
        if t.t == "<":
            depth += 1
        elif t.t == ">":
            depth -= 1
        elif t.k == "ident" and t.t == "for" and depth == 0 and not (j + 1 < len(rest) and rest[j + 1].t == "<"):
            split = j
            break

    def head_name(ts):
        # last identifier of the path before any generic arguments: a::b::Name<…> → Name ; &'a T → T
        depth, last = 0, None
        for t in ts:
            if t.t == "<":
                depth += 1
            elif t.t == ">":
                depth -= 1
            elif depth == 0 and t.k == "ident" and t.t not in ("dyn", "mut", "const", "unsafe"):
                last = t.t
        return last

    if split is None:
        return None, head_name(rest)
    tr = rest[:split]
    if tr and tr[0].t == "!":
        tr = tr[1:]
    return head_name(tr), head_name(rest[split + 1:])


def parse_params(ptoks, where):
    """fn parameter list → [(name, type tokens)]; raises on patterns other than `[mut] ident` / self forms"""
    out = []
    for p in split_top(ptoks, ",", angles=True):
        # strip attributes on parameters
        while p and p[0].t == "#":
            j = match_close(p, 1)
            p = p[j + 1:]
        ts = [t.t for t in p]
        if "self" in ts[:3] and (":" not in ts or ts.index("self") < ts.index(":")):
            colon = ts.index(":") if ":" in ts else None
            out.append(("self", p[colon + 1:] if colon is not None else []))
            continue
        colon = None
        for j, t in enumerate(p):
            if t.t == ":" and t.k == "punct":
                colon = j
                break
        if colon is None:
            raise Unrecognised(f"{where}: parameter without type: {norm(p)}")
        pat = [t for t in p[:colon] if not (t.k == "ident" and t.t in ("mut", "ref"))]
        if len(pat) != 1 or pat[0].k != "ident":
            raise Unrecognised(f"{where}: parameter pattern {norm(p[:colon])!r} is not a plain identifier")
        out.append((pat[0].t, p[colon + 1:]))
    return out


class FileScan:
    def __init__(self, rel, toks, generated=False):
        self.rel, self.toks, self.generated = rel, toks, generated
        self.fns = []          # Scope(kind=fn) with start/end token indices
        self.impls = []        # Scope(kind=impl)
        self.types = []        # dict(name, kind, line, pub, derives, fields=[(name, type toks)])
        self.consts = {}       # NAME -> string value
        self.log_sites = []
        self.expose_at = []    # token indices of `expose` in `.expose()`
        self.file_is_test = os.path.basename(rel) in ("tests.rs", "test.rs") or "/tests/" in rel
        self.walk()

    def where(self, i):
        return f"{self.rel}:{self.toks[i].line}"

    # -- helpers -------------------------------------------------------------------------

    def enclosing(self, stack, kind):
        for s in reversed(stack):
            if s.kind == kind:
                return s
        return None

    def in_test(self, stack):
        return self.file_is_test or any(s.test for s in stack)

    # -- the walk ------------------------------------------------------------------------

    def walk(self):
        toks = self.toks
        n = len(toks)
        stack = []            # open `{` scopes
        attrs = []            # attributes waiting for their item
        pending = None        # (Scope, paren_depth) waiting for its `{`
        paren = 0
        i = 0
        while i < n:
            t = toks[i]
            # attributes
            if t.t == "#" and i + 1 < n and (toks[i + 1].t == "[" or (toks[i + 1].t == "!" and i + 2 < n and toks[i + 2].t == "[")):
                inner = toks[i + 1].t == "!"
                j = i + (2 if inner else 1)
                k = match_close(toks, j)
                if not inner:
                    attrs.append((toks[j + 1:k], toks[i].line))
                i = k + 1
                continue
            if t.k == "punct":
                if t.t in ("(", "["):
                    paren += 1
                elif t.t in (")", "]"):
                    paren -= 1
                elif t.t == "{":
                    if pending and pending[1] == paren:
                        sc = pending[0]
                        pending = None
                    else:
                        sc = Scope("block")
                    sc.start = i
                    stack.append((sc, paren))
                    paren = 0
                    attrs = []
                elif t.t == "}":
                    if not stack:
                        raise Unrecognised(f"{self.where(i)}: unbalanced }}")
                    sc, paren = stack.pop()
                    sc.end = i
                    attrs = []
                elif t.t == ";":
                    if pending and pending[1] == paren:
                        pending = None
                    attrs = []
                i += 1
                continue
            scopes = [s for s, _ in stack]
            if t.k == "ident":
                w = t.t
                prev = toks[i - 1].t if i else None
                nxt = toks[i + 1] if i + 1 < n else None
                if w == "fn" and nxt is not None and nxt.k == "ident":
                    # find the parameter list
                    j = i + 2
                    if toks[j].t == "<":
                        depth = 0
                        while True:
                            if toks[j].t == "<":
                                depth += 1
                            elif toks[j].t == ">":
                                depth -= 1
                                if depth == 0:
                                    j += 1
                                    break
                            elif toks[j].t == "->":
                                pass
                            j += 1
                    if toks[j].t != "(":
                        raise Unrecognised(f"{self.where(i)}: fn {nxt.t}: parameter list not found")
                    k = match_close(toks, j)
                    impl = self.enclosing(scopes, "impl")
                    test = any(norm(a) == "test" or norm(a).endswith("::test") or norm(a) == "cfg(test)" for a, _ in attrs)
                    sc = Scope("fn", nxt.t, owner=impl.owner if impl else None, trait=impl.trait if impl else None,
                               test=test, attrs=attrs, params=toks[j + 1:k])
                    sc.kw = i
                    self.fns.append(sc)
                    self.instrument_sites(sc, i, scopes)
                    pending = (sc, paren)
                    attrs = []
                    i = k + 1
                    continue
                if w == "impl" and prev in (None, "}", ";", "]", "{", "unsafe", "default"):
                    j = i + 1
                    depth = 0
                    while not (toks[j].t == "{" and depth == 0):
                        if toks[j].t in ("(", "["):
                            depth += 1
                        elif toks[j].t in (")", "]"):
                            depth -= 1
                        j += 1
                    tr, ty = parse_impl_header(toks[i + 1:j], self.where(i))
                    sc = Scope("impl", None, owner=ty, trait=tr, attrs=attrs)
                    sc.kw = i
                    self.impls.append(sc)
                    pending = (sc, paren)
                    attrs = []
                    i = j
                    continue
                if w == "mod" and nxt is not None and nxt.k == "ident":
                    test = any(norm(a) == "cfg(test)" for a, _ in attrs)
                    pending = (Scope("mod", nxt.t, test=test), paren)
                    attrs = []
                    i += 2
                    continue
                if w == "trait" and nxt is not None and nxt.k == "ident" and prev != "::":
                    pending = (Scope("trait", nxt.t), paren)
                    attrs = []
                    i += 2
                    continue
                if w in ("struct", "enum", "union") and nxt is not None and nxt.k == "ident":
                    i = self.type_item(i, attrs, scopes)
                    attrs = []
                    continue
                if w == "const" and nxt is not None and nxt.k == "ident" and i + 2 < n and toks[i + 2].t == ":":
                    # const NAME: &str = "…";
                    j = i + 3
                    while toks[j].t not in ("=", ";"):
                        j += 1
                    if toks[j].t == "=" and toks[j + 1].k == "str" and toks[j + 2].t == ";":
                        self.consts[nxt.t] = toks[j + 1].val
                if w == "use" and nxt is not None and nxt.t in ("tracing", "log") and prev in (None, ";", "}", "{", "]", "pub", ")"):
                    # a renamed import would hide a logging macro from the inventory
                    j = i + 1
                    while toks[j].t != ";":
                        if toks[j].k == "ident" and toks[j].t == "as":
                            raise Unrecognised(f"{self.where(j)}: renamed import from `{nxt.t}` (`as`): the inventory goes by macro name")
                        j += 1
                if w == "macro_rules" and nxt is not None and nxt.t == "!":
                    # macro definitions: skip the definition body but scan it for sites by plain recursion below
                    pass
                if nxt is not None and nxt.t == "!" and w in UNREAD_MACROS and i + 2 < n and toks[i + 2].t in ("(", "[", "{") \
                        and (prev != "::" or (i >= 2 and toks[i - 2].t == "tracing")):
                    raise Unrecognised(f"{self.where(i)}: `{w}!` is a tracing entry point this translator does not read")
                if w == "Span" and nxt is not None and nxt.t == "::" and i + 2 < n and toks[i + 2].t == "current":
                    raise Unrecognised(f"{self.where(i)}: `Span::current()` (fields recorded after the fact) is not a recognised shape")
                # error-message / formatting macros
                if nxt is not None and nxt.t == "!" and i + 2 < n and toks[i + 2].t in ("(", "[", "{") \
                        and (w in ERROR_MACROS or w in FORMAT_MACROS) and prev not in (".", "fn", "macro_rules"):
                    k = match_close(toks, i + 2)
                    self.format_site(w, i, toks[i + 3:k], scopes)
                    attrs = []
                    i += 2
                    continue
                # logging / printing macros
                if nxt is not None and nxt.t == "!" and i + 2 < n and toks[i + 2].t in ("(", "[", "{") \
                        and (w in LOG_MACROS or w in PRINT_MACROS):
                    qual_ok = True
                    if prev == "::":
                        qual_ok = i >= 2 and toks[i - 2].t in ("tracing", "log", "std")
                    if prev == "." or prev == "fn":
                        i += 1
                        continue
                    if not qual_ok:
                        raise Unrecognised(f"{self.where(i)}: `{toks[i - 2].t}::{w}!` — a logging macro behind an unknown path")
                    k = match_close(toks, i + 2)
                    self.macro_site(w, i, toks[i + 3:k], scopes)
                    # keep walking inside the arguments (nested closures/blocks keep the scope stack consistent)
                    if w not in ITEM_PREFIX_OK:
                        attrs = []
                    i += 2
                    continue
                if w == "expose" and prev == "." and nxt is not None and nxt.t == "(" and toks[i + 2].t == ")":
                    self.expose_at.append((i, self.enclosing(scopes, "fn"), self.in_test(scopes)))
                if w not in ITEM_PREFIX_OK:
                    attrs = []
            elif t.k != "str":
                attrs = []
            i += 1
        if stack:
            raise Unrecognised(f"{self.rel}: {len(stack)} unclosed braces")

    # -- items ---------------------------------------------------------------------------

    def type_item(self, i, attrs, scopes):
        toks = self.toks
        kind, name = toks[i].t, toks[i + 1].t
        line = toks[i].line
        is_pub = i > 0 and toks[i - 1].t == "pub"      # `pub(crate)` / `pub(super)` count as not public
        derives = []
        for a, _ in attrs:
            if a and a[0].t == "derive" and a[1].t == "(":
                for part in split_top(a[2:-1], ","):
                    derives.append(part[-1].t)
            if a and a[0].t == "cfg_attr":
                # cfg_attr(cond, derive(…)): treat the derives as present (conservative)
                for j, t in enumerate(a):
                    if t.t == "derive" and a[j + 1].t == "(":
                        k = match_close(a, j + 1)
                        for part in split_top(a[j + 2:k], ","):
                            derives.append(part[-1].t)
        j = i + 2
        if toks[j].t == "<":
            depth = 0
            while True:
                if toks[j].t == "<":
                    depth += 1
                elif toks[j].t == ">":
                    depth -= 1
                    if depth == 0:
                        j += 1
                        break
                j += 1
        # skip a where clause
        while toks[j].t not in ("{", "(", ";"):
            j += 1
        fields = []
        if toks[j].t == ";":
            end = j
        elif toks[j].t == "(":
            k = match_close(toks, j)
            for idx, part in enumerate(split_top(toks[j + 1:k], ",", angles=True)):
                part = self.strip_field_prefix(part)
                fields.append((str(idx), part))
            end = k
        else:
            k = match_close(toks, j)
            body = toks[j + 1:k]
            if kind == "enum":
                for var in split_top(body, ",", angles=True):
                    var = self.strip_attrs(var)
                    if not var:
                        continue
                    vname = var[0].t
                    if len(var) > 1 and var[1].t in ("(", "{"):
                        kk = match_close(var, 1)
                        inner = var[2:kk]
                        if var[1].t == "(":
                            for idx, part in enumerate(split_top(inner, ",", angles=True)):
                                fields.append((f"{vname}.{idx}", self.strip_field_prefix(part)))
                        else:
                            for part in split_top(inner, ",", angles=True):
                                part = self.strip_field_prefix(part)
                                fields.append((f"{vname}.{part[0].t}", part[2:]))
            else:
                for part in split_top(body, ",", angles=True):
                    part = self.strip_field_prefix(part)
                    if not part:
                        continue
                    if len(part) < 3 or part[0].k != "ident" or part[1].t != ":":
                        raise Unrecognised(f"{self.rel}:{line}: field of {name} not `name: Type`: {norm(part)}")
                    fields.append((part[0].t, part[2:], part[0].line))
            end = k
        self.types.append({"name": name, "kind": kind, "line": line, "pub": is_pub, "derives": derives,
                           "fields": [(f[0], f[1], f[2] if len(f) > 2 else line) for f in fields],
                           "test": self.in_test(scopes)})
        # brace-bodied items: let the main walk see the braces so that scopes stay balanced → return index of `{`
        if toks[j].t == "{":
            return end + 1
        return end + 1

    @staticmethod
    def strip_attrs(part):
        while part and part[0].t == "#":
            k = match_close(part, 1)
            part = part[k + 1:]
        return part

    def strip_field_prefix(self, part):
        part = self.strip_attrs(part)
        if part and part[0].t == "pub":
            part = part[1:]
            if part and part[0].t == "(":
                k = match_close(part, 0)
                part = part[k + 1:]
        return part

    # -- sites ---------------------------------------------------------------------------

    def site_base(self, i, scopes, kind):
        fn = self.enclosing(scopes, "fn")
        impl = self.enclosing(scopes, "impl")
        return {"file": self.rel, "line": self.toks[i].line, "fn": fn.name if fn else None,
                "owner": (impl.owner if impl else None), "kind": kind, "test": self.in_test(scopes),
                "captures": [], "ret": False, "err": False, "_fn": fn}

    def param_type(self, fn, name):
        if fn is None or fn.params is None:
            return []
        try:
            for pn, pty in parse_params(fn.params, self.rel):
                if pn == name:
                    return idents_of(pty)
        except Unrecognised:
            return []
        return []

    def cap(self, site, sigil, toks, text=None):
        ids = idents_of(toks)
        ty = []
        # a plain parameter (possibly behind & or *): remember its declared type
        core = [t for t in toks if t.t not in ("&", "*", "mut")]
        if len(core) == 1 and core[0].k == "ident":
            ty = self.param_type(site["_fn"], core[0].t)
        site["captures"].append({"sigil": sigil, "idents": ids, "ty": ty, "text": text if text is not None else norm(toks)})

    def macro_site(self, name, i, args, scopes):
        kind = "print" if name in PRINT_MACROS else name
        site = self.site_base(i, scopes, kind)
        where = self.where(i)
        parts = split_top(args, ",")
        seen_fmt = False
        for p in parts:
            if seen_fmt:
                # format arguments: `expr` or `name = expr`
                if len(p) >= 3 and p[0].k == "ident" and p[1].t == "=":
                    self.cap(site, "fmtArg", p[2:])
                else:
                    self.cap(site, "fmtArg", p)
                continue
            if p[0].k == "str":
                if len(p) != 1:
                    raise Unrecognised(f"{where}: tokens after the format string: {norm(p)}")
                seen_fmt = True
                for nm in fmt_inline_names(p[0].val, where):
                    self.cap(site, "fmtInline", [Tok("ident", nm, p[0].line)])
                continue
            if name in PRINT_MACROS:
                if name == "dbg":
                    self.cap(site, "dbg", p)
                    continue
                raise Unrecognised(f"{where}: {name}! without a literal format string")
            # `target: expr` / `parent: expr` / `name: expr`
            if len(p) >= 3 and p[0].k == "ident" and p[0].t in ("target", "parent", "name") and p[1].t == ":" and p[1].k == "punct":
                self.cap(site, "aux", p[2:])
                continue
            # `{ fields… }` group
            if p[0].t == "{":
                raise Unrecognised(f"{where}: braced field group is not a recognised shape")
            if p[0].t == "?":
                self.cap(site, "dbg", p[1:])
                continue
            if p[0].t == "%":
                self.cap(site, "disp", p[1:])
                continue
            # name(.name)* = [?|%] expr      |   "literal name" = …
            j = 0
            if p[0].k in ("ident", "str"):
                j = 1
                while j + 1 < len(p) and p[j].t == "." and p[j + 1].k == "ident":
                    j += 2
                if j < len(p) and p[j].t == "=" and p[j].k == "punct":
                    val = p[j + 1:]
                    if not val:
                        raise Unrecognised(f"{where}: empty field value: {norm(p)}")
                    if val[0].t == "?":
                        self.cap(site, "dbg", val[1:])
                    elif val[0].t == "%":
                        self.cap(site, "disp", val[1:])
                    else:
                        self.cap(site, "val", val)
                    continue
                if j == len(p) and p[0].k == "ident":
                    self.cap(site, "val", p)      # bare `ident` / `a.b` shorthand
                    continue
            raise Unrecognised(f"{where}: argument of {name}! not of a recognised form: {norm(p)}")
        del site["_fn"]
        self.log_sites.append(site)

    def format_site(self, name, i, args, scopes):
        """`s3_error!(…)`, `invalid_request!(…)`, `format!(…)`, `write!(f, …)`, `panic!(…)` …: every top-level argument that
        is not a string literal is a captured expression; literals contribute their inline `{name}` captures"""
        site = self.site_base(i, scopes, "errorMsg" if name in ERROR_MACROS else "format")
        where = self.where(i)
        for p in split_top(args, ","):
            if len(p) == 1 and p[0].k == "str":
                for nm in fmt_inline_names(p[0].val, where):
                    self.cap(site, "fmtInline", [Tok("ident", nm, p[0].line)])
            elif len(p) >= 3 and p[0].k == "ident" and p[1].t == "=" and p[1].k == "punct":
                self.cap(site, "fmtArg", p[2:])
            else:
                self.cap(site, "fmtArg", p)
        del site["_fn"]
        self.log_sites.append(site)

    def instrument_sites(self, fn, i, scopes):
        for a, line in fn.attrs:
            txt = norm(a)
            if not (a and (a[0].t == "instrument" or (len(a) > 2 and a[0].t == "tracing" and a[1].t == "::" and a[2].t == "instrument"))):
                if "instrument" in [t.t for t in a]:
                    raise Unrecognised(f"{self.rel}:{line}: attribute mentions `instrument` in an unknown form: {txt}")
                continue
            site = self.site_base(i, scopes, "instrument")
            site["line"] = line
            site["fn"] = fn.name
            site["owner"] = fn.owner
            site["_fn"] = fn
            where = f"{self.rel}:{line}"
            k0 = 1 if a[0].t == "instrument" else 3
            args = []
            if k0 < len(a):
                if a[k0].t != "(":
                    raise Unrecognised(f"{where}: instrument attribute: {txt}")
                args = split_top(a[k0 + 1:match_close(a, k0)], ",")
            skip_all, skips = False, []
            for p in args:
                h = p[0].t
                if h == "skip_all" and len(p) == 1:
                    skip_all = True
                elif h == "skip" and p[1].t == "(":
                    for q in split_top(p[2:-1], ","):
                        skips.append(norm(q))
                elif h == "fields" and p[1].t == "(":
                    for q in split_top(p[2:-1], ","):
                        j = 1
                        while j + 1 < len(q) and q[j].t == "." and q[j + 1].k == "ident":
                            j += 2
                        if q[0].t in ("?", "%"):
                            self.cap(site, "dbg" if q[0].t == "?" else "disp", q[1:])
                        elif j < len(q) and q[j].t == "=":
                            v = q[j + 1:]
                            if v and v[0].t in ("?", "%"):
                                self.cap(site, "dbg" if v[0].t == "?" else "disp", v[1:])
                            else:
                                self.cap(site, "val", v)
                        elif j == len(q):
                            pass  # declared empty field, recorded later through Span::record (none in the tree: see obligations)
                        else:
                            raise Unrecognised(f"{where}: instrument field {norm(q)}")
                elif h in ("err", "ret") and (len(p) == 1 or p[1].t == "("):
                    site[h] = True
                elif h in ("level", "name", "target", "parent", "follows_from") and len(p) >= 3 and p[1].t == "=":
                    self.cap(site, "aux", p[2:])
                else:
                    raise Unrecognised(f"{where}: instrument argument {norm(p)}")
            params = parse_params(fn.params, where)
            names = [pn for pn, _ in params]
            for s in skips:
                if s not in names:
                    raise Unrecognised(f"{where}: skip({s}) names no parameter of fn {fn.name}")
            if not skip_all:
                for pn, pty in params:
                    if pn in skips:
                        continue
                    ty = idents_of(pty)
                    if pn == "self" and not ty and fn.owner:
                        ty = [fn.owner]
                    site["captures"].append({"sigil": "param", "idents": [pn], "ty": ty,
                                             "text": f"{pn}: {norm(pty)}" if pty else pn})
            del site["_fn"]
            self.log_sites.append(site)


# --------------------------------------------------------------------------------------------
# (b) data flow of `.expose()` results

def flow_of_fn(scan, fn):
    """statement-level, name-based, conservative taint inside one fn body"""
    toks = scan.toks
    # body = tokens of the `{…}` that starts at the first `{` after the parameter list at depth 0
    j = fn.start
    depth = 0
    while not (toks[j].t == "{" and depth == 0):
        if toks[j].t in ("(", "["):
            depth += 1
        elif toks[j].t in (")", "]"):
            depth -= 1
        j += 1
    end = match_close(toks, j)
    body = toks[j + 1:end]

    # statements: split the body (recursively through nested blocks) at `;`
    stmts = []

    def collect(ts):
        cur, depth_p = [], 0
        i = 0
        while i < len(ts):
            t = ts[i]
            if t.t in ("(", "["):
                depth_p += 1
            elif t.t in (")", "]"):
                depth_p -= 1
            if t.t == "{":
                k = match_close(ts, i)
                collect(ts[i + 1:k])
                cur.extend(ts[i:k + 1])
                i = k + 1
                continue
            if t.t == ";" and depth_p == 0:
                stmts.append(cur)
                cur = []
            else:
                cur.append(t)
            i += 1
        if cur:
            stmts.append(cur)      # tail expression

    collect(body)
    # tail expression of the fn body itself
    tail = []
    depth_b = 0
    for t in body:
        if t.t in OPEN:
            depth_b += 1
        elif t.t in CLOSE:
            depth_b -= 1
        if t.t == ";" and depth_b == 0:
            tail = []
        else:
            tail.append(t)

    def has_expose(ts):
        return any(ts[k].t == "expose" and k > 0 and ts[k - 1].t == "." and k + 1 < len(ts) and ts[k + 1].t == "("
                   for k in range(len(ts)))

    tainted = []

    def is_tainted(ts):
        return has_expose(ts) or any(t.k == "ident" and t.t in tainted for t in ts)

    changed = True
    while changed:
        changed = False
        for st in stmts:
            if not st or not is_tainted(st):
                continue
            new = []
            if st[0].t == "let":
                # let [mut] PATTERN [: T] = EXPR   → every identifier bound by the pattern
                eq = None
                depth_p = 0
                for k, t in enumerate(st):
                    if t.t in OPEN:
                        depth_p += 1
                    elif t.t in CLOSE:
                        depth_p -= 1
                    elif t.t == "=" and depth_p == 0:
                        eq = k
                        break
                if eq is None:
                    continue
                if not is_tainted(st[eq + 1:]):
                    continue
                pat = st[1:eq]
                for k, t in enumerate(pat):
                    if t.t == ":" and t.k == "punct":
                        pat = pat[:k]
                        break
                new = [t.t for t in pat if t.k == "ident" and t.t not in KEYWORDS and t.t[0].islower()]
            else:
                # assignment `x = …`, `x op= …` or a call on a receiver `x.method(… tainted …)` / `f(x, tainted)`:
                # the first identifier of the statement (receiver / assignee) becomes tainted
                first = next((t for t in st if t.k == "ident" and t.t not in KEYWORDS), None)
                if first is not None and first.t[0].islower():
                    nxt_i = st.index(first) + 1
                    if nxt_i < len(st) and st[nxt_i].t in (".", "=", "+=", "-=", "[", "|=", "&=", "^="):
                        new = [first.t]
            for nm in new:
                if nm not in tainted:
                    tainted.append(nm)
                    changed = True
    callees = []
    for st in stmts:
        if not st or not is_tainted(st):
            continue
        # nested blocks were collected separately: only look at this statement's own tokens outside inner statements
        for k, t in enumerate(st):
            if t.k == "ident" and t.t not in KEYWORDS and k + 1 < len(st):
                if st[k + 1].t == "(" or (st[k + 1].t == "!" and k + 2 < len(st) and st[k + 2].t in ("(", "[", "{")):
                    nm = t.t
                    if nm not in callees:
                        callees.append(nm)
                # turbofish / qualified generic call `<T>::f(` is covered by the ident before `(`
    return tainted, callees, is_tainted(tail)


# --------------------------------------------------------------------------------------------
# (c) SecretKey impl bodies

def body_of_fn(scan, fn):
    toks = scan.toks
    j = fn.start
    depth = 0
    while not (toks[j].t == "{" and depth == 0):
        if toks[j].t in ("(", "["):
            depth += 1
        elif toks[j].t in (")", "]"):
            depth -= 1
        j += 1
    return toks[j + 1:match_close(toks, j)]


def parse_arg(ts, consts, where):
    """`&PLACEHOLDER` | `PLACEHOLDER` | `"lit"` | `&self.0` | `self.expose()` | `&*self.0`"""
    core = [t for t in ts if t.t not in ("&", "*")]
    txt = norm(core)
    if len(core) == 1 and core[0].k == "str":
        return ("const", core[0].val)
    if len(core) == 1 and core[0].k == "ident" and core[0].t in consts:
        return ("const", consts[core[0].t])
    if txt in ("self.0", "self.expose()", "self.0.as_ref()", "self.0.as_str()"):
        return ("inner", None)
    raise Unrecognised(f"{where}: argument {norm(ts)!r} is neither a string constant nor the inner string")


def parse_debug_body(body, consts, where):
    ts = list(body)
    if ts and ts[-1].t == ";":
        raise Unrecognised(f"{where}: Debug body does not end in an expression")
    txt = norm(ts)
    # f.debug_tuple("Name").field(&X)….finish()
    if len(ts) > 6 and ts[0].k == "ident" and ts[1].t == "." and ts[2].t == "debug_tuple" and ts[3].t == "(" and ts[4].k == "str" and ts[5].t == ")":
        name = ts[4].val
        i = 6
        fields = []
        while i < len(ts):
            if ts[i].t != ".":
                break
            m = ts[i + 1].t
            if m == "field" and ts[i + 2].t == "(":
                k = match_close(ts, i + 2)
                fields.append(parse_arg(ts[i + 3:k], consts, where))
                i = k + 1
            elif m == "finish" and norm(ts[i + 2:]) == "()":
                return ("tuple", name, fields)
            else:
                break
        raise Unrecognised(f"{where}: Debug body of SecretKey not a recognised debug_tuple chain: {txt}")
    if len(ts) == 11 and ts[2].t == "debug_struct" and ts[4].k == "str" and norm(ts[6:]) == ".finish_non_exhaustive()":
        return ("opaque", ts[4].val)
    if len(ts) >= 6 and ts[2].t == "write_str" and ts[3].t == "(" and match_close(ts, 3) == len(ts) - 1:
        return ("write", parse_arg(ts[4:-1], consts, where))
    raise Unrecognised(f"{where}: Debug body of SecretKey is not one of the recognised shapes: {txt}")


def parse_ser_body(body, consts, where):
    ts = list(body)
    txt = norm(ts)
    # if [!]serializer.is_human_readable() { A } else { B }     (recognised, and possibly NOT constant: the obligation decides)
    if ts and ts[0].t == "if":
        neg = ts[1].t == "!"
        c = ts[2:] if neg else ts[1:]
        if len(c) > 6 and c[0].k == "ident" and norm(c[1:5]) == ".is_human_readable()" and c[5].t == "{":
            k1 = match_close(c, 5)
            if k1 + 2 < len(c) and c[k1 + 1].t == "else" and c[k1 + 2].t == "{" and match_close(c, k1 + 2) == len(c) - 1:
                a = parse_ser_body(c[6:k1], consts, where)
                b2 = parse_ser_body(c[k1 + 3:-1], consts, where)
                if a[0] == "str" and b2[0] == "str":
                    human, binary = (b2[1], a[1]) if neg else (a[1], b2[1])
                    return ("strIf", human, binary)
        raise Unrecognised(f"{where}: Serialize body of SecretKey: conditional not of the shape "
                           f"`if serializer.is_human_readable() {{…}} else {{…}}`: {txt}")
    # <str as Serialize>::serialize(X, serializer)
    if norm(ts[:7]) == "<str as Serialize>::serialize" and ts[7].t == "(" and match_close(ts, 7) == len(ts) - 1:
        args = split_top(ts[8:-1], ",")
        if len(args) == 2 and len(args[1]) == 1 and args[1][0].k == "ident":
            return ("str", parse_arg(args[0], consts, where))
    # serializer.serialize_str(X)
    if len(ts) > 5 and ts[0].k == "ident" and ts[1].t == "." and ts[2].t == "serialize_str" and ts[3].t == "(" and match_close(ts, 3) == len(ts) - 1:
        return ("str", parse_arg(ts[4:-1], consts, where))
    raise Unrecognised(f"{where}: Serialize body of SecretKey is not one of the recognised shapes: {txt}")


def classify_manual(scan, impl, where):
    """manual Debug/Display/Serialize impl of a holder: opaque or other"""
    toks = scan.toks
    fns = [f for f in scan.fns if f.start > impl.start and impl.end is not None and f.start < impl.end]
    if len(fns) != 1:
        raise Unrecognised(f"{where}: manual impl with {len(fns)} methods")
    b = body_of_fn(scan, fns[0])
    if len(b) == 11 and b[2].t == "debug_struct" and b[4].k == "str" and norm(b[6:]) == ".finish_non_exhaustive()":
        return "manualOpaque"
    return "manualOther"


# --------------------------------------------------------------------------------------------
# Lean emission

LEAN_KEYWORDS = set()  # every identifier is prefixed, so no clash is possible


def lid(name):
    return "i_" + re.sub(r"[^A-Za-z0-9_]", "_", name)


def lsrc(path):
    return "f_" + re.sub(r"[^A-Za-z0-9]", "_", path[len("crates/"):] if path.startswith("crates/") else path)


def lbytes(s):
    return "[" + ", ".join(str(b) for b in s.encode("utf-8")) + "]"


def lstr(s):
    out = []
    for ch in s:
        if ch == "\\":
            out.append("\\\\")
        elif ch == '"':
            out.append('\\"')
        elif ch == "\n":
            out.append("\\n")
        elif ch == "\t":
            out.append("\\t")
        elif ch == "\r":
            out.append("\\r")
        elif ord(ch) < 32 or ord(ch) == 127:
            out.append("\\x%02x" % ord(ch))
        else:
            out.append(ch)
    return '"' + "".join(out) + '"'


def scan_repo(repo):
    scans = {}
    for base in CRATES:
        root = os.path.join(repo, base)
        if not os.path.isdir(root):
            raise Unrecognised(f"{base}: directory not found")
        for dp, dn, fns in os.walk(root):
            dn.sort()
            for fn in sorted(fns):
                if not fn.endswith(".rs"):
                    continue
                p = os.path.join(dp, fn)
                rel = os.path.relpath(p, repo)
                src = open(p, encoding="utf-8").read()
                generated = fn.startswith("generated")
                if generated:
                    # generated code is read in full only when a site can be present in it
                    if not (re.search(r"\b(trace|debug|info|warn|error|println|eprintln|print|eprint|dbg)!\s*[\(\[\{]", src)
                            or "instrument" in src or ".expose()" in src or SECRET_TYPE in src):
                        continue
                scans[rel] = FileScan(rel, tokenize(src, rel), generated=generated)
    return scans


def build(repo):
    scans = scan_repo(repo)
    if SECRET_FILE not in scans:
        raise Unrecognised(f"{SECRET_FILE} not found")

    log_sites = []
    for rel in sorted(scans):
        log_sites += scans[rel].log_sites
    log_sites.sort(key=lambda s: (s["file"], s["line"]))

    # (b)
    expose_sites = []
    for rel in sorted(scans):
        sc = scans[rel]
        for (i, fn, test) in sc.expose_at:
            if fn is None:
                raise Unrecognised(f"{sc.where(i)}: .expose() outside any fn")
            if fn.end is None:
                # fn scope end was recorded on the Scope by the walk
                pass
            tainted, callees, ret = flow_of_fn(sc, fn)
            expose_sites.append({"file": rel, "line": sc.toks[i].line, "fn": fn.name, "owner": fn.owner,
                                 "tainted": tainted, "callees": callees, "ret": ret, "test": test})
    expose_sites.sort(key=lambda s: (s["file"], s["line"]))

    # (c) SecretKey
    ssc = scans[SECRET_FILE]
    sk_types = [t for t in ssc.types if t["name"] == SECRET_TYPE]
    if len(sk_types) != 1:
        raise Unrecognised(f"{SECRET_FILE}: expected exactly one definition of {SECRET_TYPE}, found {len(sk_types)}")
    sk = sk_types[0]
    if [norm(f[1]) for f in sk["fields"]] != ["Box<str>"] or sk["kind"] != "struct":
        raise Unrecognised(f"{SECRET_FILE}: {SECRET_TYPE} is not `struct SecretKey(Box<str>)`: fields "
                           f"{[norm(f[1]) for f in sk['fields']]}")
    for rel, sc in scans.items():
        if rel != SECRET_FILE and any(t["name"] == SECRET_TYPE for t in sc.types):
            raise Unrecognised(f"{rel}: a second type named {SECRET_TYPE}")
    sk_impls, sk_methods = [], []
    dbg_body = ser_body = None
    for rel in sorted(scans):
        sc = scans[rel]
        for im in sc.impls:
            if im.owner != SECRET_TYPE:
                continue
            if im.trait is None:
                if rel != SECRET_FILE:
                    raise Unrecognised(f"{rel}: inherent impl of {SECRET_TYPE} outside {SECRET_FILE}")
                for f in sc.fns:
                    if im.start < f.start < im.end:
                        b = body_of_fn(sc, f)
                        hdr = sc.toks[max(im.start, f.kw - 6):f.kw]
                        # visibility: `pub` within the few tokens before `fn`, after the previous `}` / `{` / `]`
                        vis = False
                        for t in reversed(hdr):
                            if t.t in ("}", "{", "]", ";"):
                                break
                            if t.t == "pub":
                                vis = True
                        sk_methods.append({"name": f.name, "pub": vis,
                                           "inner": "self.0" in norm(b) or "self .0" in norm(b)})
            else:
                line = sc.toks[im.kw].line
                sk_impls.append({"trait": im.trait, "file": rel, "line": line, "derived": False})
                fns = [f for f in sc.fns if im.start < f.start < im.end]
                if im.trait == "Debug":
                    if len(fns) != 1 or fns[0].name != "fmt":
                        raise Unrecognised(f"{rel}:{line}: impl Debug for SecretKey without a single fn fmt")
                    dbg_body = parse_debug_body(body_of_fn(sc, fns[0]), sc.consts, f"{rel}:{line}")
                if im.trait == "Serialize":
                    if len(fns) != 1 or fns[0].name != "serialize":
                        raise Unrecognised(f"{rel}:{line}: impl Serialize for SecretKey without a single fn serialize")
                    ser_body = parse_ser_body(body_of_fn(sc, fns[0]), sc.consts, f"{rel}:{line}")
                if im.trait == "Deserialize":
                    # the only recognised shape builds the value and nothing else: an error constructed from the text read
                    # (serde's `invalid_value(Unexpected::Str(&s), …)` idiom) would carry the key into whatever prints it
                    if len(fns) != 1 or fns[0].name != "deserialize":
                        raise Unrecognised(f"{rel}:{line}: impl Deserialize for SecretKey without a single fn deserialize")
                    txt = norm(body_of_fn(sc, fns[0]))
                    if txt not in ("<String as Deserialize>::deserialize(deserializer).map(SecretKey::from)",
                                   "<String as Deserialize>::deserialize(deserializer).map(Self::from)",
                                   "String::deserialize(deserializer).map(SecretKey::from)",
                                   "String::deserialize(deserializer).map(Self::from)"):
                        raise Unrecognised(f"{rel}:{line}: Deserialize body of SecretKey is not the recognised shape "
                                           f"`<String as Deserialize>::deserialize(deserializer).map(SecretKey::from)`: {txt}")
            # no function of an impl of SecretKey (inherent or trait) formats, logs, prints or raises anything: inside these
            # bodies every value is the key or derived from it, whatever it is called
            for f in sc.fns:
                if im.start < f.start < im.end:
                    b = body_of_fn(sc, f)
                    for k in range(len(b) - 1):
                        if b[k].k == "ident" and b[k + 1].t == "!" and (k + 2 < len(b) and b[k + 2].t in ("(", "[", "{")):
                            raise Unrecognised(f"{rel}:{sc.toks[im.kw].line}: macro `{b[k].t}!` inside `{f.name}` of an impl of "
                                               f"{SECRET_TYPE}: not read (a value formatted there is the key)")
    for d in sk["derives"]:
        sk_impls.append({"trait": d, "file": SECRET_FILE, "line": sk["line"], "derived": True})
    if dbg_body is None and "Debug" not in sk["derives"]:
        dbg_body = None
    # placeholder: the constant both bodies print (if they print one)
    consts = ssc.consts

    # (d) holders: transitive closure by type name over all (non-test) types of the three crates
    all_types = []
    for rel in sorted(scans):
        for t in scans[rel].types:
            if not t["test"]:
                all_types.append((rel, t))
    holder_names = {SECRET_TYPE}
    changed = True
    while changed:
        changed = False
        for rel, t in all_types:
            if t["name"] in holder_names:
                continue
            if any(any(x.k == "ident" and x.t in holder_names for x in f[1]) for f in t["fields"]):
                holder_names.add(t["name"])
                changed = True
    manual = {}   # (type, trait) -> how
    for rel in sorted(scans):
        sc = scans[rel]
        for im in sc.impls:
            if im.owner in holder_names and im.owner != SECRET_TYPE and im.trait in ("Debug", "Display", "Serialize"):
                manual[(im.owner, im.trait)] = classify_manual(sc, im, f"{rel}:{sc.toks[im.kw].line}")
    holders = []
    for rel, t in all_types:
        if t["name"] in holder_names and t["name"] != SECRET_TYPE:
            def how(tr):
                if tr in t["derives"]:
                    return "derive"
                return manual.get((t["name"], tr), "absent")
            sf = [(f[0], idents_of(f[1])) for f in t["fields"] if any(x.k == "ident" and x.t in holder_names for x in f[1])]
            holders.append({"name": t["name"], "file": rel, "line": t["line"], "pub": t["pub"], "fields": sf,
                            "debug": how("Debug"), "display": how("Display"), "serialize": how("Serialize")})
    # raw secret fields
    raw = []
    for rel, t in all_types:
        for f in t["fields"]:
            fname = f[0].split(".")[-1]
            if "secret" in fname.lower() and not any(x.k == "ident" and x.t in holder_names for x in f[1]):
                dbg = "derive" if "Debug" in t["derives"] else "absent"
                for rel2 in scans:
                    for im in scans[rel2].impls:
                        if im.owner == t["name"] and im.trait == "Debug":
                            dbg = "manualOther"
                # names bound to a value of the owner type in the same file: parameters typed with it,
                # `let x = Owner::…` and `let x: Owner`
                binders = []
                sc0 = scans[rel]
                for fn_ in sc0.fns:
                    try:
                        for pn, pty in parse_params(fn_.params, rel):
                            if t["name"] in idents_of(pty) and pn not in binders:
                                binders.append(pn)
                    except Unrecognised:
                        pass
                tk = sc0.toks
                for k in range(len(tk) - 4):
                    if tk[k].t == "let":
                        m = k + 1
                        if tk[m].t == "mut":
                            m += 1
                        if tk[m].k == "ident" and ((tk[m + 1].t == "=" and tk[m + 2].t == t["name"])
                                                   or (tk[m + 1].t == ":" and tk[m + 2].t == t["name"])):
                            if tk[m].t not in binders:
                                binders.append(tk[m].t)
                raw.append({"file": rel, "line": f[2], "owner": t["name"], "field": fname, "ty": idents_of(f[1]),
                            "debug": dbg, "binders": binders})

    return {"scans": scans, "log_sites": log_sites, "expose_sites": expose_sites, "sk": sk, "sk_impls": sk_impls,
            "sk_methods": sk_methods, "dbg_body": dbg_body, "ser_body": ser_body, "consts": consts,
            "holders": holders, "raw": raw, "holder_names": sorted(holder_names)}


def emit(model):
    ids, srcs = [], []

    def use_id(x):
        if x not in ids:
            ids.append(x)
        return "." + lid(x)

    def use_src(x):
        if x not in srcs:
            srcs.append(x)
        return "." + lsrc(x)

    for a in ANCHOR_IDS:
        use_id(a)
    for a in ANCHOR_SRCS:
        if a in model["scans"]:
            use_src(a)
        else:
            raise Unrecognised(f"{a}: anchor file not found")

    def opt_id(x):
        return "none" if x is None else f"some {use_id(x)}"

    def id_list(xs):
        return "[" + ", ".join(use_id(x) for x in xs) + "]"

    body = []
    # log sites
    body.append("/-- (a) every logging / printing / error-message / formatting / `#[instrument]` site -/")
    body.append("def logSites : List (LogSite Src Id) := [")
    rows = []
    for s in model["log_sites"]:
        caps = []
        for c in s["captures"]:
            caps.append("{ sigil := .%s, idents := %s, tyIdents := %s, text := %s }"
                        % (c["sigil"], id_list(c["idents"]), id_list(c["ty"]), lstr(c["text"])))
        rows.append("  { file := %s, line := %d, fn := %s, owner := %s, kind := .%s, inTest := %s, ret := %s, err := %s,\n"
                    "    captures := [%s] }"
                    % (use_src(s["file"]), s["line"], opt_id(s["fn"]), opt_id(s["owner"]), s["kind"],
                       "true" if s["test"] else "false", "true" if s["ret"] else "false", "true" if s["err"] else "false",
                       ",\n      ".join(caps)))
    body.append(",\n".join(rows))
    body.append("]")
    body.append("")
    body.append("/-- (b) every `.expose()` call with the statement-level flow of its result -/")
    body.append("def exposeSites : List (ExposeSite Src Id) := [")
    rows = []
    for e in model["expose_sites"]:
        rows.append("  { file := %s, line := %d, fn := %s, owner := %s,\n    tainted := %s,\n    callees := %s,\n    returnsDerived := %s }"
                    % (use_src(e["file"]), e["line"], opt_id(e["fn"]), opt_id(e["owner"]), id_list(e["tainted"]),
                       id_list(e["callees"]), "true" if e["ret"] else "false"))
    body.append(",\n".join(rows))
    body.append("]")
    body.append("")
    body.append("/-- `.expose()` calls inside test code (`#[cfg(test)]`), listed separately -/")
    body.append("def exposeSitesInTests : Nat := %d" % sum(1 for e in model["expose_sites"] if e["test"]))
    body.append("")
    body.append("/-- (c) derives and trait impls of `SecretKey` -/")
    body.append("def secretKeyImpls : List (ImplInfo Src Id) := [")
    body.append(",\n".join("  { trait := %s, file := %s, line := %d, derived := %s }"
                           % (use_id(i["trait"]), use_src(i["file"]), i["line"], "true" if i["derived"] else "false")
                           for i in model["sk_impls"]))
    body.append("]")
    body.append("")
    body.append("/-- inherent methods of `SecretKey` -/")
    body.append("def secretKeyMethods : List (MethodInfo Id) := [")
    body.append(",\n".join("  { name := %s, isPub := %s, touchesInner := %s }"
                           % (use_id(m["name"]), "true" if m["pub"] else "false", "true" if m["inner"] else "false")
                           for m in model["sk_methods"]))
    body.append("]")
    body.append("")

    def arg(a):
        return f".const {lbytes(a[1])}" if a[0] == "const" else ".inner"

    db = model["dbg_body"]
    if db is None:
        raise Unrecognised("SecretKey has no hand-written Debug impl (derived or missing): the redaction is gone")
    if db[0] == "tuple":
        dterm = ".tuple %s [%s]" % (lbytes(db[1]), ", ".join(arg(a) for a in db[2]))
    elif db[0] == "opaque":
        dterm = ".opaque %s" % lbytes(db[1])
    else:
        dterm = ".write (%s)" % arg(db[1])
    body.append("/-- body of `impl fmt::Debug for SecretKey` -/")
    body.append(f"def secretKeyDebug : DebugBody := {dterm}")
    body.append("")
    sb = model["ser_body"]
    if sb is None:
        if any(i["trait"] == "Serialize" for i in model["sk_impls"]):
            raise Unrecognised("SecretKey derives Serialize: the redaction is gone")
        body.append("/-- `SecretKey` has no `Serialize` impl -/")
        body.append("def secretKeySerialize : Option SerBody := none")
    else:
        body.append("/-- body of `impl Serialize for SecretKey` -/")
        if sb[0] == "strIf":
            body.append(f"def secretKeySerialize : Option SerBody := some (.strIf ({arg(sb[1])}) ({arg(sb[2])}))")
        else:
            body.append(f"def secretKeySerialize : Option SerBody := some (.str ({arg(sb[1])}))")
    body.append("")
    ph = model["consts"].get("PLACEHOLDER")
    body.append("/-- `const PLACEHOLDER: &str` of `auth/secret_key.rs` (empty if the constant is gone) -/")
    body.append(f"def placeholder : Bytes := {lbytes(ph or '')}   -- {ph!r}")
    body.append("")
    body.append("/-- (d) types that contain a `SecretKey` (transitively, by type name) and how they render -/")
    body.append("def holders : List (Holder Src Id) := [")
    rows = []
    for h in model["holders"]:
        fl = ", ".join("(%s, %s)" % (use_id(f[0].split(".")[-1]) if not f[0].split(".")[-1].isdigit() else use_id("field" + f[0].split(".")[-1]), id_list(f[1])) for f in h["fields"])
        rows.append("  { name := %s, file := %s, line := %d, isPub := %s,\n    secretFields := [%s],\n    debug := .%s, display := .%s, serialize := .%s }"
                    % (use_id(h["name"]), use_src(h["file"]), h["line"], "true" if h["pub"] else "false", fl,
                       h["debug"], h["display"], h["serialize"]))
    body.append(",\n".join(rows))
    body.append("]")
    body.append("")
    body.append("/-- fields named `secret…` that keep the key as a plain (non-redacting) type -/")
    body.append("def rawSecretFields : List (RawSecretField Src Id) := [")
    body.append(",\n".join("  { file := %s, line := %d, owner := %s, field := %s, tyIdents := %s, ownerDebug := .%s, binders := %s }"
                           % (use_src(r["file"]), r["line"], use_id(r["owner"]), use_id(r["field"]), id_list(r["ty"]), r["debug"], id_list(r["binders"]))
                           for r in model["raw"]))
    body.append("]")
    body.append("")
    # make sure every identifier used anywhere is in the enumeration before computing secretNamed
    secret_named = [x for x in ids if "secret" in x.lower()]
    body.append("/-- identifiers of this file whose spelling contains `secret` -/")
    body.append("def secretNamed : List Id := " + "[" + ", ".join("." + lid(x) for x in secret_named) + "]")
    body.append("")
    body.append("/-- redacting types: `SecretKey` and everything that contains it and gets `Debug` by derive / opaque impl -/")
    safe = [SECRET_TYPE] + [h["name"] for h in model["holders"] if h["debug"] in ("derive", "manualOpaque")]
    body.append("def redactingTypes : List Id := [" + ", ".join(use_id(x) for x in safe) + "]")
    body.append("")
    body.append("def taintEnv : TaintEnv Src Id :=")
    body.append("  { exposeId := .i_expose, sites := exposeSites, secretNamed := secretNamed, safeTypes := redactingTypes }")
    body.append("")
    body.append("/-- files scanned on this run: hand-written / generated ones that contain a site -/")
    nfiles = sum(1 for s in model["scans"].values() if not s.generated)
    ngen = sum(1 for s in model["scans"].values() if s.generated)
    body.append(f"def scannedFiles : Nat := {nfiles}")
    body.append(f"def scannedGeneratedFiles : Nat := {ngen}")

    head = []
    head.append("import S3V.Model.Secrets")
    head.append("/-!")
    head.append("GENERATED by translate/emit_sites.py — do not edit; regenerated by every `bin/check C16` run from the working")
    head.append("tree: all hand-written `.rs` under crates/{s3s,s3s-fs,s3s-aws}/src (+ those `generated*.rs` that contain a site).")
    head.append("Identifiers and files are constructors of the two enumerations below so that the table obligations of")
    head.append("`S3V/Props/C16.lean` are decided by kernel evaluation.")
    head.append("-/")
    head.append("namespace S3V.Gen.Emit")
    head.append("open S3V.Secrets")
    head.append("")
    head.append("/-- source files with at least one site (plus the anchor files) -/")
    head.append("inductive Src where")
    for s in srcs:
        head.append(f"  | {lsrc(s)}   -- {s}")
    head.append("  deriving DecidableEq, Repr")
    head.append("")
    head.append("def Src.path : Src → String")
    for s in srcs:
        head.append(f"  | .{lsrc(s)} => {lstr(s)}")
    head.append("")
    head.append("/-- identifiers occurring in the tables (prefix `i_`) -/")
    head.append("inductive Id where")
    for x in ids:
        head.append(f"  | {lid(x)}")
    head.append("  deriving DecidableEq, Repr")
    head.append("")
    return "\n".join(head + body) + "\n\nend S3V.Gen.Emit\n"


def run(repo, verif_root):
    model = build(repo)
    text = emit(model)
    out = os.path.join(verif_root, "lean", "S3V", "Gen", "Emit.lean")
    os.makedirs(os.path.dirname(out), exist_ok=True)
    old = open(out, encoding="utf-8").read() if os.path.exists(out) else None
    if old != text:
        tmp = out + ".tmp"
        with open(tmp, "w", encoding="utf-8") as f:
            f.write(text)
        os.replace(tmp, out)
    return model


if __name__ == "__main__":
    import sys
    m = run(sys.argv[1] if len(sys.argv) > 1 else "/repo",
            sys.argv[2] if len(sys.argv) > 2 else os.path.dirname(os.path.dirname(os.path.abspath(__file__))))
    print(f"log sites {len(m['log_sites'])}, expose sites {len(m['expose_sites'])}, SecretKey impls {len(m['sk_impls'])}, "
          f"holders {len(m['holders'])}, raw secret fields {len(m['raw'])}")
