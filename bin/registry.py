"""Registry: which translators, Lean modules, drivers and harness components serve which property.

component entry:
  name      component name (first field of every case line)
  bin       harness binary (harness/src/bin/<bin>.rs)
  drv       Lean driver executable (lean_exe in lean/lakefile.toml)
  n         generated case count per tier (the binary may add exhaustive enumerations on top)
  trivial   AGREE classes that do not count as non-trivial for the evidence
Translators are names of functions in bin/translators (module `translate.<name>`, function `run(repo, out_dir)`).
"""

ALLOWED_AXIOMS = {"propext", "Classical.choice", "Quot.sound"}

PROPS = {
    "C20": {
        "title": "wildcard matching and policy documents",
        "technique": "Lean 4 theorem (loop invariant + lexicographic termination) about a literal model of match_pattern; correspondence check against PatternSet",
        "level_text": "matchPattern p s = true <-> Matches p s proved in Lean for all patterns and inputs over any alphabet (no length bound), "
                      "plus set/empty-pattern theorems; the model is tied to s3s-policy by an exhaustive (short strings over {a,b,*,?}) and random "
                      "Unicode differential run through the public PatternSet API, each answer also judged by an executable reference proved equal to the spec. "
                      "Policy JSON documents: not yet modelled (serde layer trusted).",
        "level_note": "Lean kernel + propext/Quot.sound/Classical.choice; the code consumes UTF-8 sequences where the model consumes symbols (valid UTF-8 is a Rust str invariant); "
                      "tie is differential testing; serde_json/indexmap trusted",
        "lean": ["S3V.Props.C20"],
        "translators": [],
        "components": [
            {"name": "pattern", "bin": "h_pattern", "drv": "drv-pattern",
             "n": {"quick": 20000, "thorough": 400000}, "trivial": ["refused"]},
        ],
    },
}

# properties not claimed (each with a reason); kept current by hand
NOT_APPLICABLE = [
    {"property_id": p, "reason": "check not built yet in this round (planned, see DESIGN.md §6); will be claimed when its model, theorems and correspondence exist"}
    for p in ["C01", "C02", "C03", "C04", "C05", "C06", "C07", "C08", "C09", "C10", "C11", "C12", "C13", "C14", "C15", "C16", "C17", "C18", "C19"]
]
NOT_APPLICABLE = [x for x in NOT_APPLICABLE if x["property_id"] not in PROPS]

# guarded hook commits in /repo (MANIFEST.hooks.source_commits)
HOOK_COMMITS = []
