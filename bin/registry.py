"""Registry: which translators, Lean modules, drivers and harness components serve which property.

One JSON fragment per property in bin/registry.d/<Cnn>.json:
  title, technique, level_text, level_note   texts for MANIFEST.json
  lean         Lean modules holding the property theorems (S3V.Props.Cnn [, more])
  translators  names of tie-A translators (module translate/<name>.py, function run(repo, verif_root))
  components   list of {name, bin, drv, n: {quick, thorough}, trivial: [AGREE classes not counted as non-trivial]}
  trusted_base, assumptions   strings copied into the evidence file
"""
import glob
import json
import os

ALLOWED_AXIOMS = {"propext", "Classical.choice", "Quot.sound"}

_HERE = os.path.dirname(os.path.abspath(__file__))
PROPS = {}
for _p in sorted(glob.glob(os.path.join(_HERE, "registry.d", "C*.json"))):
    PROPS[os.path.basename(_p)[:-5]] = json.load(open(_p))

ALL_IDS = ["C%02d" % i for i in range(1, 21)]
_REASONS_PATH = os.path.join(_HERE, "registry.d", "not_applicable.json")
_REASONS = json.load(open(_REASONS_PATH)) if os.path.exists(_REASONS_PATH) else {}
NOT_APPLICABLE = [
    {"property_id": p, "reason": _REASONS.get(p, "check not built yet (planned, DESIGN.md section 6); it will be claimed when its model, theorems and correspondence exist")}
    for p in ALL_IDS if p not in PROPS
]

# guarded hook commits in /repo (MANIFEST.hooks.source_commits)
HOOK_COMMITS = ["0af76b7"]
