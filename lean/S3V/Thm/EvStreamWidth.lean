import S3V.Thm.EvStream
/-!
# Lemmas for C15: `Message::serialize` does not depend on the pointer width

`serializeW limit` is the model of `serialize` for `usize::MAX + 1 = limit`. For every `limit ≥ 2^32` (a 32-bit
or wider target) it has the same closed form as `serialize` (`serialize_eq`) with `limit` in place of `2^64`;
since a frame is produced only below `2^32`, the frames are the same on every such target — only the error kind
of a message of `limit` bytes or more differs (`LengthOverflow` instead of `IntOverflow`).
-/
namespace S3V.EvStreamThm
open S3V S3V.EvStream S3V.EvStreamSpec

theorem headerLenStepW_eq (L acc : Nat) (h : Header) :
    headerLenStepW L acc h =
      if acc + (4 + h.name.length + h.value.length) < L
      then some (acc + (4 + h.name.length + h.value.length)) else none := by
  unfold headerLenStepW checkedAddW
  by_cases h1 : acc + 4 < L
  · by_cases h2 : acc + 4 + h.name.length < L
    · by_cases h3 : acc + 4 + h.name.length + h.value.length < L
      · have : acc + (4 + h.name.length + h.value.length) < L := by omega
        simp [h1, h2, h3, this]; omega
      · have : ¬ acc + (4 + h.name.length + h.value.length) < L := by omega
        simp [h1, h2, h3, this]
    · have : ¬ acc + (4 + h.name.length + h.value.length) < L := by omega
      simp [h1, h2, this]
  · have : ¬ acc + (4 + h.name.length + h.value.length) < L := by omega
    simp [h1, this]

theorem headersLenFromW_eq (L : Nat) (hs : List Header) : ∀ acc, acc < L →
    headersLenFromW L acc hs = if acc + hdrSize hs < L then some (acc + hdrSize hs) else none := by
  induction hs with
  | nil => intro acc hacc; simp [headersLenFromW, hdrSize, hacc]
  | cons h hs ih =>
    intro acc hacc
    simp only [headersLenFromW, headerLenStepW_eq, hdrSize]
    by_cases h1 : acc + (4 + h.name.length + h.value.length) < L
    · simp only [h1, if_true, Option.bind_some, ih _ h1]
      by_cases h2 : acc + (4 + h.name.length + h.value.length + hdrSize hs) < L
      · have : acc + (4 + h.name.length + h.value.length) + hdrSize hs < L := by omega
        simp [h2, this]; omega
      · have : ¬ acc + (4 + h.name.length + h.value.length) + hdrSize hs < L := by omega
        simp [h2, this]
    · have : ¬ acc + (4 + h.name.length + h.value.length + hdrSize hs) < L := by omega
      simp [h1, this]

/-- closed form of `serialize` on a target with `usize::MAX + 1 = L` -/
theorem serializeW_eq (L : Nat) (hL : 0 < L) (crc32 : Bytes → Nat) (m : Message) :
    serializeW L crc32 m =
      if L ≤ 16 + hdrSize m.headers + (payloadBytes m).length then .error .lengthOverflow
      else if sizesOk m then .ok (frameOf crc32 m) else .error .intOverflow := by
  unfold serializeW
  rw [headersLenFromW_eq L _ 0 hL]
  simp only [Nat.zero_add, checkedAddW, putHeaders_eq, sizesOk, frameOf]
  by_cases h0 : L ≤ 16 + hdrSize m.headers + (payloadBytes m).length
  · simp only [h0, if_true]
    by_cases h1 : hdrSize m.headers < L
    · by_cases h2 : hdrSize m.headers + 16 < L
      · have h3 : ¬ hdrSize m.headers + 16 + (payloadBytes m).length < L := by omega
        simp [h1, h2, h3]
      · simp [h1, h2]
    · simp [h1]
  · have h1 : hdrSize m.headers < L := by omega
    have h2 : hdrSize m.headers + 16 < L := by omega
    have h3 : hdrSize m.headers + 16 + (payloadBytes m).length < L := by omega
    simp only [h0, if_false, h1, h2, h3, if_true, Option.bind_some]
    by_cases h4 : 4294967296 ≤ hdrSize m.headers + 16 + (payloadBytes m).length
    · have : ¬ 16 + hdrSize m.headers + (payloadBytes m).length < 4294967296 := by omega
      simp [h4, this]
    · have h5 : 16 + hdrSize m.headers + (payloadBytes m).length < 4294967296 := by omega
      have h6 : ¬ 4294967296 ≤ hdrSize m.headers := by omega
      have h7 : hdrSize m.headers + 16 + (payloadBytes m).length = 16 + hdrSize m.headers + (payloadBytes m).length := by omega
      simp only [if_false, h6, h5, decide_true, Bool.and_true, h7]
      by_cases ha : m.headers.all fits = true
      · simp [ha]; omega
      · simp [ha]

/-- the model of the 64-bit target is the instance `L = 2^64` -/
theorem serializeW_usizeLimit (crc32 : Bytes → Nat) (m : Message) :
    serializeW usizeLimit crc32 m = serialize crc32 m := by
  rw [serializeW_eq usizeLimit (by decide), serialize_eq]

/-- on every target of at least 32 bits a frame is produced exactly when the sizes fit the wire format, and it
    is the same frame -/
theorem serializeW_ok_iff (L : Nat) (hL : 4294967296 ≤ L) (crc32 : Bytes → Nat) (m : Message) (b : Bytes) :
    serializeW L crc32 m = .ok b ↔ sizesOk m = true ∧ b = frameOf crc32 m := by
  rw [serializeW_eq L (by omega)]
  by_cases h0 : L ≤ 16 + hdrSize m.headers + (payloadBytes m).length
  · have : sizesOk m = false := by
      have h : ¬ 16 + hdrSize m.headers + (payloadBytes m).length < 4294967296 := by omega
      simp [sizesOk, h]
    simp [h0, this]
  · by_cases h1 : sizesOk m = true
    · simp [h0, h1, eq_comm]
    · simp [h0, h1]

end S3V.EvStreamThm
