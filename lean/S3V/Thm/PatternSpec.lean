import S3V.Thm.Pattern
/-! The executable reference `specMatch` decides the declarative `Matches`. -/
namespace S3V.PatternSpec
open S3V S3V.Pattern

theorem specMatch_iff : ∀ (p s : List Sym), specMatch p s = true ↔ Matches p s := by
  intro p s
  induction p, s using specMatch.induct with
  | case1 => simp [specMatch, Matches.nil]
  | case2 d s =>
    simp only [specMatch]
    exact ⟨fun h => Bool.noConfusion h, fun h => absurd h Matches.nil_cons⟩
  | case3 c p ih =>
    simp only [specMatch, Bool.and_eq_true, beq_iff_eq]
    constructor
    · rintro ⟨rfl, h⟩; exact .starSkip (ih.mp h)
    · intro h
      by_cases hc : c = star
      · subst hc
        cases h with
        | starSkip h => exact ⟨rfl, ih.mpr h⟩
      · exact absurd h (Matches.cons_nil hc)
  | case4 c p d s hc ih1 ih2 =>
    have hc' : c = star := by simpa using hc
    subst hc'
    simp only [specMatch, beq_self_eq_true, if_true, Bool.or_eq_true]
    constructor
    · rintro (h | h)
      · exact .starSkip (ih1.mp h)
      · exact .starTake (ih2.mp h)
    · intro h
      cases h with
      | starSkip h => exact Or.inl (ih1.mpr h)
      | starTake h => exact Or.inr (ih2.mpr h)
      | lit hne _ => exact absurd rfl hne
  | case5 c p d s hc ih =>
    have hc' : c ≠ star := by simpa using hc
    simp only [specMatch, hc, Bool.false_eq_true, if_false, Bool.and_eq_true, Bool.or_eq_true, beq_iff_eq]
    constructor
    · rintro ⟨hcd, h⟩; exact Matches.cons_intro hc' hcd (ih.mp h)
    · intro h
      have := Matches.cons_inv hc' h
      exact ⟨this.1, ih.mpr this.2⟩

end S3V.PatternSpec
