import S3V.Model.SigV2
/-!
# Lemmas: byte order, the stable sort, look-ups on a sorted vector (for C11)

`OrderedHeaders` / `OrderedQs` keep a vector sorted by name; `get_unique`, `get_all` and `has` read it
through `partition_point`. On a sorted vector they compute what one expects of the *unsorted* input:
`getAll (sortByFirst h) n` is the list of the values called `n` in arrival order, `getUnique` is that
list when it has exactly one element.
-/
namespace S3V.SigV2
open S3V

/-! ## `bLt` is a strict total order -/

theorem bLt_irrefl (a : Bytes) : bLt a a = false := by
  induction a with
  | nil => rfl
  | cons x xs ih => simp [bLt, ih]

theorem bLt_trans {a b c : Bytes} (h1 : bLt a b = true) (h2 : bLt b c = true) : bLt a c = true := by
  induction a generalizing b c with
  | nil =>
    cases b with
    | nil => simp [bLt] at h1
    | cons y ys =>
      cases c with
      | nil => simp [bLt] at h2
      | cons z zs => simp [bLt]
  | cons x xs ih =>
    cases b with
    | nil => simp [bLt] at h1
    | cons y ys =>
      cases c with
      | nil => simp [bLt] at h2
      | cons z zs =>
        simp only [bLt] at h1 h2 ⊢
        by_cases hxy : x.toNat < y.toNat
        · by_cases hyz : y.toNat < z.toNat
          · have : x.toNat < z.toNat := by omega
            simp [this]
          · simp only [hyz, if_false] at h2
            by_cases hzy : z.toNat < y.toNat
            · simp [hzy] at h2
            · have : x.toNat < z.toNat := by omega
              simp [this]
        · simp only [hxy, if_false] at h1
          by_cases hyx : y.toNat < x.toNat
          · simp [hyx] at h1
          · simp only [hyx, if_false] at h1
            have hxy' : x.toNat = y.toNat := by omega
            by_cases hyz : y.toNat < z.toNat
            · have : x.toNat < z.toNat := by omega
              simp [this]
            · simp only [hyz, if_false] at h2
              by_cases hzy : z.toNat < y.toNat
              · simp [hzy] at h2
              · simp only [hzy, if_false] at h2
                have h3 : ¬ x.toNat < z.toNat := by omega
                have h4 : ¬ z.toNat < x.toNat := by omega
                simp only [h3, h4, if_false]
                exact ih h1 h2

theorem bLt_total {a b : Bytes} (h1 : bLt a b = false) (h2 : bLt b a = false) : a = b := by
  induction a generalizing b with
  | nil =>
    cases b with
    | nil => rfl
    | cons y ys => simp [bLt] at h1
  | cons x xs ih =>
    cases b with
    | nil => simp [bLt] at h2
    | cons y ys =>
      simp only [bLt] at h1 h2
      by_cases hxy : x.toNat < y.toNat
      · simp [hxy] at h1
      · by_cases hyx : y.toNat < x.toNat
        · simp [hyx] at h2
        · simp only [hxy, hyx, if_false] at h1 h2
          have : x = y := UInt8.toNat_inj.mp (by omega)
          rw [this, ih h1 h2]

theorem bLt_asymm {a b : Bytes} (h : bLt a b = true) : bLt b a = false := by
  cases hb : bLt b a with
  | false => rfl
  | true => have := bLt_trans h hb; rw [bLt_irrefl] at this; cases this

theorem bLt_ne {a b : Bytes} (h : bLt a b = true) : a ≠ b := by
  intro e; subst e; rw [bLt_irrefl] at h; cases h

/-- `≤` is transitive: `¬ b < a → ¬ c < b → ¬ c < a` -/
theorem bLe_trans {a b c : Bytes} (h1 : bLt b a = false) (h2 : bLt c b = false) : bLt c a = false := by
  cases hca : bLt c a with
  | false => rfl
  | true =>
    cases hab : bLt a b with
    | true => have := bLt_trans hca hab; rw [h2] at this; cases this
    | false => have := bLt_total hab h1; subst this; rw [h2] at hca; cases hca

/-- `a < b → b ≤ c → a < c` -/
theorem bLt_of_lt_of_le {a b c : Bytes} (h1 : bLt a b = true) (h2 : bLt c b = false) : bLt a c = true := by
  cases hac : bLt a c with
  | true => rfl
  | false =>
    -- c ≤ a < b, so c < b or ... ; c ≤ a and a < b give c < b, contradiction with b ≤ c? no: use totality
    cases hca : bLt c a with
    | true => have := bLt_trans hca h1; rw [h2] at this; cases this
    | false => have := bLt_total hac hca; subst this; rw [h2] at h1; cases h1

/-! ## sortedness -/

/-- ascending by name (equal names allowed) -/
def Sorted (l : Pairs) : Prop := l.Pairwise fun a b => bLt b.1 a.1 = false

theorem mem_insertByFirst {x y : Bytes × Bytes} {l : Pairs} :
    y ∈ insertByFirst x l ↔ y = x ∨ y ∈ l := by
  induction l with
  | nil => simp [insertByFirst]
  | cons z zs ih =>
    simp only [insertByFirst]
    split
    · simp only [List.mem_cons, ih]
      constructor
      · rintro (h | h | h)
        · exact .inr (.inl h)
        · exact .inl h
        · exact .inr (.inr h)
      · rintro (h | h | h)
        · exact .inr (.inl h)
        · exact .inl h
        · exact .inr (.inr h)
    · simp

theorem sorted_insertByFirst {x : Bytes × Bytes} {l : Pairs} (h : Sorted l) : Sorted (insertByFirst x l) := by
  induction l with
  | nil => simp [insertByFirst, Sorted]
  | cons z zs ih =>
    unfold Sorted at h ih ⊢
    rw [List.pairwise_cons] at h
    simp only [insertByFirst]
    by_cases hz : bLt z.1 x.1 = true
    · simp only [hz, if_true]
      rw [List.pairwise_cons]
      refine ⟨?_, ih h.2⟩
      intro y hy
      rcases mem_insertByFirst.mp hy with rfl | hy
      · exact bLt_asymm hz
      · exact h.1 y hy
    · have hz' : bLt z.1 x.1 = false := by simpa using hz
      simp only [hz', Bool.false_eq_true, if_false]
      rw [List.pairwise_cons, List.pairwise_cons]
      refine ⟨?_, h⟩
      intro y hy
      rcases List.mem_cons.mp hy with rfl | hy
      · exact hz'
      · exact bLe_trans hz' (h.1 y hy)

theorem sorted_sortByFirst (l : Pairs) : Sorted (sortByFirst l) := by
  induction l with
  | nil => simp [sortByFirst, Sorted]
  | cons x xs ih => exact sorted_insertByFirst ih

/-- the sort is stable: it does not reorder the entries of one name -/
theorem filter_insertByFirst (x : Bytes × Bytes) (l : Pairs) (n : Bytes) :
    (insertByFirst x l).filter (fun p => p.1 = n) = (x :: l).filter (fun p => p.1 = n) := by
  induction l with
  | nil => simp [insertByFirst]
  | cons z zs ih =>
    simp only [insertByFirst]
    by_cases hz : bLt z.1 x.1 = true
    · simp only [hz, if_true]
      have hne : z.1 ≠ x.1 := bLt_ne hz
      rw [List.filter_cons, ih]
      by_cases hx : x.1 = n
      · have hzn : ¬ z.1 = n := fun e => hne (e.trans hx.symm)
        simp [hx, hzn]
      · simp [List.filter_cons, hx]
    · simp [hz]

theorem filter_sortByFirst (l : Pairs) (n : Bytes) :
    (sortByFirst l).filter (fun p => p.1 = n) = l.filter (fun p => p.1 = n) := by
  induction l with
  | nil => rfl
  | cons x xs ih =>
    simp only [sortByFirst]
    rw [filter_insertByFirst, List.filter_cons, List.filter_cons, ih]

theorem mem_sortByFirst {y : Bytes × Bytes} {l : Pairs} : y ∈ sortByFirst l ↔ y ∈ l := by
  induction l with
  | nil => simp [sortByFirst]
  | cons x xs ih => simp [sortByFirst, mem_insertByFirst, ih]

/-! ## a sorted vector splits at a name into (smaller) ++ (equal) ++ (greater) -/

theorem sorted_decomp {l : Pairs} (h : Sorted l) (n : Bytes) :
    ∃ A E C, l = A ++ E ++ C ∧ (∀ a ∈ A, bLt a.1 n = true) ∧ (∀ e ∈ E, e.1 = n) ∧ (∀ c ∈ C, bLt n c.1 = true) := by
  induction l with
  | nil => exact ⟨[], [], [], rfl, by simp, by simp, by simp⟩
  | cons x xs ih =>
    unfold Sorted at h
    rw [List.pairwise_cons] at h
    obtain ⟨A, E, C, rfl, hA, hE, hC⟩ := ih h.2
    by_cases hx : bLt x.1 n = true
    · refine ⟨x :: A, E, C, by simp, ?_, hE, hC⟩
      intro a ha
      rcases List.mem_cons.mp ha with rfl | ha
      · exact hx
      · exact hA a ha
    · have hx' : bLt x.1 n = false := by simpa using hx
      -- nothing after `x` is smaller than `n`
      have hA' : A = [] := by
        cases A with
        | nil => rfl
        | cons a as =>
          have h1 := hA a (by simp)
          have h2 := h.1 a (by simp)
          -- a < n, x ≤ a, ¬ x < n
          have := bLt_of_lt_of_le (a := a.1) (b := n) (c := n) h1 (bLt_irrefl n)
          have h3 : bLt x.1 n = true := by
            cases hxa : bLt x.1 a.1 with
            | true => exact bLt_trans hxa h1
            | false => have := bLt_total hxa h2; rw [this]; exact h1
          rw [hx'] at h3; cases h3
      subst hA'
      by_cases hxn : x.1 = n
      · refine ⟨[], x :: E, C, by simp, by simp, ?_, hC⟩
        intro e he
        rcases List.mem_cons.mp he with rfl | he
        · exact hxn
        · exact hE e he
      · have hnx : bLt n x.1 = true := by
          cases hnx : bLt n x.1 with
          | true => rfl
          | false => exact absurd (bLt_total hx' hnx) hxn
        have hE' : E = [] := by
          cases E with
          | nil => rfl
          | cons e es =>
            have h1 := hE e (by simp)
            have h2 := h.1 e (by simp)
            rw [h1] at h2
            rw [h2] at hnx; cases hnx
        subst hE'
        refine ⟨[], [], x :: C, by simp, by simp, by simp, ?_⟩
        intro c hc
        rcases List.mem_cons.mp hc with rfl | hc
        · exact hnx
        · exact hC c hc

theorem dropWhile_append_of_all {α} (p : α → Bool) (A B : List α) (h : ∀ a ∈ A, p a = true) :
    (A ++ B).dropWhile p = B.dropWhile p := by
  induction A with
  | nil => rfl
  | cons a as ih =>
    have := h a (by simp)
    simp only [List.cons_append, List.dropWhile_cons, this, if_true]
    exact ih fun a ha => h a (by simp [ha])

theorem dropWhile_of_head_false {α} (p : α → Bool) (B : List α) (h : ∀ b ∈ B.head?, p b = false) :
    B.dropWhile p = B := by
  cases B with
  | nil => rfl
  | cons b bs => have := h b (by simp); simp [this]

theorem takeWhile_append_of_all {α} (p : α → Bool) (A B : List α) (h : ∀ a ∈ A, p a = true) :
    (A ++ B).takeWhile p = A ++ B.takeWhile p := by
  induction A with
  | nil => rfl
  | cons a as ih =>
    have := h a (by simp)
    simp only [List.cons_append, List.takeWhile_cons, this, if_true]
    rw [ih fun a ha => h a (by simp [ha])]

theorem takeWhile_of_all_false {α} (p : α → Bool) (B : List α) (h : ∀ b ∈ B, p b = false) :
    B.takeWhile p = [] := by
  cases B with
  | nil => rfl
  | cons b bs => have := h b (by simp); simp [this]

theorem filter_eq_nil_of_all_false {α} (p : α → Bool) (B : List α) (h : ∀ b ∈ B, p b = false) :
    B.filter p = [] := by
  rw [List.filter_eq_nil_iff]; intro b hb; simp [h b hb]

theorem filter_eq_self_of_all {α} (p : α → Bool) (B : List α) (h : ∀ b ∈ B, p b = true) :
    B.filter p = B := by
  rw [List.filter_eq_self]; exact h

/-- the element of a one-element list -/
def theOnly : List Bytes → Option Bytes
  | [v] => some v
  | _ => none

section lookups
variable {l : Pairs} {n : Bytes} {A E C : Pairs}
  (hl : l = A ++ E ++ C) (hA : ∀ a ∈ A, bLt a.1 n = true) (hE : ∀ e ∈ E, e.1 = n) (hC : ∀ c ∈ C, bLt n c.1 = true)
include hl hA hE hC

theorem lowerBound_decomp : lowerBound l n = E ++ C := by
  subst hl
  unfold lowerBound
  rw [List.append_assoc, dropWhile_append_of_all _ _ _ hA]
  apply dropWhile_of_head_false
  intro b hb
  cases E with
  | nil =>
    cases C with
    | nil => simp at hb
    | cons c cs =>
      simp at hb; subst hb
      exact bLt_asymm (hC _ (by simp))
  | cons e es =>
    simp at hb; subst hb
    rw [hE _ (by simp)]; exact bLt_irrefl n

theorem filter_decomp : l.filter (fun p => p.1 = n) = E := by
  subst hl
  rw [List.filter_append, List.filter_append]
  rw [filter_eq_nil_of_all_false _ A, filter_eq_self_of_all _ E, filter_eq_nil_of_all_false _ C]
  · simp
  · intro c hc; have := bLt_ne (hC c hc); simpa using fun e => this e.symm
  · intro e he; simpa using hE e he
  · intro a ha; have := bLt_ne (hA a ha); simpa using this

theorem getAll_decomp : getAll l n = E.map (·.2) := by
  unfold getAll
  rw [lowerBound_decomp hl hA hE hC, takeWhile_append_of_all, takeWhile_of_all_false]
  · simp
  · intro c hc; simp [hC c hc]
  · intro e he; rw [hE e he]; simp [bLt_irrefl]

theorem getUnique_decomp :
    getUnique l n = theOnly (E.map (·.2)) := by
  unfold getUnique theOnly
  rw [lowerBound_decomp hl hA hE hC]
  cases E with
  | nil =>
    cases C with
    | nil => simp
    | cons c cs =>
      have hc : c.1 ≠ n := fun e => by have := hC c (by simp); rw [e, bLt_irrefl] at this; cases this
      cases cs with
      | nil => simp [hc]
      | cons d ds =>
        have hd : d.1 ≠ n := fun e => by have := hC d (by simp); rw [e, bLt_irrefl] at this; cases this
        simp [hc, hd]
  | cons e es =>
    have he : e.1 = n := hE e (by simp)
    cases es with
    | nil =>
      cases C with
      | nil => simp [he]
      | cons c cs =>
        have hc : c.1 ≠ n := fun e => by have := hC c (by simp); rw [e, bLt_irrefl] at this; cases this
        simp [he, hc]
    | cons f fs =>
      have hf : f.1 = n := hE f (by simp)
      simp [hf]

end lookups

/-- `get_all` on the sorted vector: the values called `n`, in arrival order -/
theorem getAll_sortByFirst (h : Pairs) (n : Bytes) :
    getAll (sortByFirst h) n = (h.filter fun p => p.1 = n).map (·.2) := by
  obtain ⟨A, E, C, hl, hA, hE, hC⟩ := sorted_decomp (sorted_sortByFirst h) n
  rw [getAll_decomp hl hA hE hC, ← filter_decomp hl hA hE hC, filter_sortByFirst]

/-- `get_unique` on the sorted vector: the value called `n` when there is exactly one -/
theorem getUnique_sortByFirst (h : Pairs) (n : Bytes) :
    getUnique (sortByFirst h) n = theOnly ((h.filter fun p => p.1 = n).map (·.2)) := by
  obtain ⟨A, E, C, hl, hA, hE, hC⟩ := sorted_decomp (sorted_sortByFirst h) n
  rw [getUnique_decomp hl hA hE hC, ← filter_decomp hl hA hE hC, filter_sortByFirst]

/-- `has` on the sorted vector -/
theorem has_sortByFirst (h : Pairs) (n : Bytes) :
    has (sortByFirst h) n = h.any fun p => p.1 = n := by
  unfold has
  rw [Bool.eq_iff_iff]
  simp only [List.any_eq_true, decide_eq_true_eq]
  constructor
  · rintro ⟨x, hx, e⟩; exact ⟨x, mem_sortByFirst.mp hx, e⟩
  · rintro ⟨x, hx, e⟩; exact ⟨x, mem_sortByFirst.mpr hx, e⟩

end S3V.SigV2
