import S3V.Model.SigDispatch
import S3V.Thm.SigV2Verdict
import S3V.Thm.SigV4Verdict
import S3V.Thm.SigV4Presigned
import S3V.Spec.Service
/-!
# Lemmas: the dispatcher `SigDispatch.check` (C07 on concrete requests)
-/
namespace S3V.SigDispatchThm
open S3V S3V.SigV4 S3V.SigV4.E2E S3V.SigDispatch

/-! ## the two verifiers read the same vectors with the same look-ups -/

theorem bLt_eq : ∀ (a b : Bytes), SigV2.bLt a b = SigV4.bLt a b
  | [], [] => rfl
  | [], _ :: _ => rfl
  | _ :: _, [] => rfl
  | a :: as, b :: bs => by
    unfold SigV2.bLt SigV4.bLt
    rw [bLt_eq as bs]

theorem getUnique_eq (l : List (Bytes × Bytes)) (name : Bytes) : SigV2.getUnique l name = SigV4.getUnique l name := by
  have h : (fun x : Bytes × Bytes => SigV2.bLt x.1 name) = (fun x => SigV4.bLt x.1 name) := by
    funext x; exact bLt_eq _ _
  unfold SigV2.getUnique SigV2.lowerBound SigV4.getUnique
  rw [h]
  cases l.dropWhile (fun x => SigV4.bLt x.1 name) with
  | nil => rfl
  | cons p rest => cases rest <;> rfl

theorem has_eq (l : List (Bytes × Bytes)) (name : Bytes) : SigV2.has l name = qsHas l name := rfl

/-- the query sends `v2_check` into its presigned branch iff there is a query and it has `Signature` -/
theorem presignedQs_v2Ctx (p : Prepared) (raw : Bytes) (vh : Option Bytes) :
    SigV2.presignedQs (v2Ctx p raw vh).qs = none ↔ (p.hasQuery && qsHas p.c.qs b!"Signature") = false := by
  unfold v2Ctx SigV2.presignedQs
  cases hq : p.hasQuery
  · simp
  · simp only [if_true, Bool.true_and]
    rw [has_eq]
    cases hs : qsHas p.c.qs b!"Signature" <;> simp

/-! ## the V2 half -/

/-- `v2_check` returns `None` exactly when `Authorization` is not repeated, the query (if any) has no `Signature`
    and there is no unique `Authorization` value of the form `AWS ak:sig` -/
theorem v2check_pass_iff (hmac : Bytes → Bytes → Bytes) (b64 : Bytes → Bytes) (lookup : Bytes → Option Bytes)
    (nowNs : Int) (c : SigV2.Ctx) :
    SigV2.check hmac b64 lookup nowNs c = .pass ↔
      ((SigV2.getAll c.hs b!"authorization").drop 1).isEmpty = true ∧ SigV2.presignedQs c.qs = none ∧
      (SigV2.getUnique c.hs b!"authorization").bind SigV2.parseAuthV2 = none := by
  unfold SigV2.check
  by_cases hd : ((SigV2.getAll c.hs b!"authorization").drop 1).isEmpty = true
  · have hd' : ((SigV2.getAll c.hs (v2b!"authorization")).drop 1).isEmpty = true := hd
    simp only [hd', if_true, true_and]
    unfold SigV2.v2Check
    cases hq : SigV2.presignedQs c.qs with
    | some q =>
      simp only [SigV2.checkPresigned]
      constructor
      · intro h
        exfalso
        revert h
        repeat' split
        all_goals simp
      · intro h; cases h.1
    | none =>
      simp only [true_and]
      cases ha : SigV2.getUnique c.hs (v2b!"authorization") with
      | none =>
        simp
      | some a =>
        simp only [Option.bind_some]
        cases hp : SigV2.parseAuthV2 a with
        | none => simp
        | some x =>
          simp only [SigV2.checkHeaderAuth]
          constructor
          · intro h
            exfalso
            revert h
            repeat' split
            all_goals simp
          · intro h; cases h
  · have hd' : ¬ ((SigV2.getAll c.hs (v2b!"authorization")).drop 1).isEmpty = true := hd
    rw [if_neg hd']
    constructor
    · intro h; cases h
    · intro h; exact absurd h.1 hd

theorem v2Part_none_iff (e : Env) (c2 : SigV2.Ctx) :
    v2Part e c2 = none ↔ SigV2.check e.hmacSha1 e.base64 (v2Lookup e.auth) e.nowNs c2 = .pass := by
  unfold v2Part
  cases h : SigV2.check e.hmacSha1 e.base64 (v2Lookup e.auth) e.nowNs c2 with
  | pass => simp
  | accept ak => simp
  | reject code => cases code <;> simp

theorem v2Part_ne_anon (e : Env) (c2 : SigV2.Ctx) : v2Part e c2 ≠ some .anon := by
  unfold v2Part
  cases h : SigV2.check e.hmacSha1 e.base64 (v2Lookup e.auth) e.nowNs c2 with
  | pass => simp
  | accept ak => simp
  | reject code => cases code <;> simp

theorem v2Part_ne_unmodelled (e : Env) (c2 : SigV2.Ctx) (why : String) : v2Part e c2 ≠ some (.unmodelled why) := by
  unfold v2Part
  cases h : SigV2.check e.hmacSha1 e.base64 (v2Lookup e.auth) e.nowNs c2 with
  | pass => simp
  | accept ak => simp
  | reject code => cases code <;> simp

theorem v2Part_accept_iff (e : Env) (c2 : SigV2.Ctx) (path : Path) (ak : Bytes) (r s : Option Bytes) :
    v2Part e c2 = some (.accept path ak r s) ↔
      SigV2.check e.hmacSha1 e.base64 (v2Lookup e.auth) e.nowNs c2 = .accept ak ∧ path = v2Path c2 ∧ r = none ∧
        s = some b!"s3" := by
  unfold v2Part
  cases h : SigV2.check e.hmacSha1 e.base64 (v2Lookup e.auth) e.nowNs c2 with
  | pass => simp
  | accept ak' =>
    simp only [Option.some.injEq, Result.accept.injEq, SigV2.Verdict.accept.injEq]
    constructor
    · rintro ⟨h1, h2, h3, h4⟩; exact ⟨h2, h1.symm, h3.symm, h4.symm⟩
    · rintro ⟨h1, h2, h3, h4⟩; exact ⟨h2.symm, h1, h3.symm, h4.symm⟩
  | reject code => cases code <;> simp

/-- the mode of the credentials `check` looks at is the branch `v2_check` takes -/
theorem presented_mode {c : SigV2.Ctx} {pr : SigV2Thm.Presented} (h : SigV2Thm.presented c = some pr) :
    pr.mode = if (SigV2.presignedQs c.qs).isSome then .presignedUrl else .headerAuth := by
  unfold SigV2Thm.presented at h
  split at h
  · cases hq : SigV2.presignedQs c.qs with
    | some q =>
      rw [hq] at h
      simp only at h
      cases hp : SigV2.parsePresigned q with
      | none => rw [hp] at h; cases h
      | some pp =>
        rw [hp] at h
        simp only [Option.map_some, Option.some.injEq] at h
        subst h; rfl
    | none =>
      rw [hq] at h
      simp only at h
      cases ha : SigV2.getUnique c.hs (v2b!"authorization") with
      | none => rw [ha] at h; cases h
      | some a =>
        rw [ha] at h
        simp only at h
        cases hp : SigV2.parseAuthV2 a with
        | none => rw [hp] at h; cases h
        | some x =>
          rw [hp] at h
          simp only [Option.map_some, Option.some.injEq] at h
          subst h; rfl
  · cases h

/-! ## the V4 half -/

theorem ofVerdict_ne_anon (path : Path) (v : Verdict) : ofVerdict path v ≠ .anon := by
  cases v <;> simp [ofVerdict]

theorem ofVerdict_ne_unmodelled (path : Path) (v : Verdict) (why : String) : ofVerdict path v ≠ .unmodelled why := by
  cases v <;> simp [ofVerdict]

theorem ofVerdict_accept_iff (path path' : Path) (v : Verdict) (ak : Bytes) (r s : Option Bytes) :
    ofVerdict path v = .accept path' ak r s ↔
      path' = path ∧ ∃ region service, r = some region ∧ s = some service ∧ v = .accept ak region service := by
  cases v with
  | err code => simp [ofVerdict]
  | accept a r' s' =>
    simp only [ofVerdict, Result.accept.injEq, Verdict.accept.injEq]
    constructor
    · rintro ⟨h1, h2, h3, h4⟩; exact ⟨h1.symm, r', s', h3.symm, h4.symm, h2, rfl, rfl⟩
    · rintro ⟨h1, region, service, h2, h3, h4, h5, h6⟩
      subst h5 h6; exact ⟨h1.symm, h4, h2.symm, h3.symm⟩

/-- `v4_check` returns `None` exactly when the request is no multipart POST form, the query (if any) has no
    `X-Amz-Signature`, and there is no unique `Authorization` header -/
theorem v4Part_anon_iff (e : Env) (p : Prepared) (w : Wire) :
    v4Part e p w = .anon ↔
      postForm p = none ∧ (p.hasQuery && qsHas p.c.qs b!"X-Amz-Signature") = false ∧
      getUnique p.c.hs b!"authorization" = none := by
  unfold v4Part
  cases hpf : postForm p with
  | some bd =>
    simp only
    constructor
    · intro h
      split at h
      · cases h
      · exact absurd h (ofVerdict_ne_anon _ _)
    · intro h; cases h.1
  | none =>
    simp only [true_and]
    cases hq : (p.hasQuery && qsHas p.c.qs b!"X-Amz-Signature")
    · simp only [Bool.false_eq_true, if_false, true_and]
      cases hu : getUnique p.c.hs b!"authorization" with
      | none => simp
      | some a =>
        simp only [Option.isSome_some, if_true]
        constructor
        · intro h; exact absurd h (ofVerdict_ne_anon _ _)
        · intro h; cases h
    · simp only [if_true]
      constructor
      · intro h
        exfalso
        revert h
        split
        · split
          · intro h; cases h
          · exact ofVerdict_ne_anon _ _
        · exact ofVerdict_ne_anon _ _
      · intro h; cases h.1

/-! ## no provider, no credentials -/

theorem v2check_no_provider (hmac : Bytes → Bytes → Bytes) (b64 : Bytes → Bytes) (nowNs : Int) (c : SigV2.Ctx)
    (ak : Bytes) : SigV2.check hmac b64 (fun _ => none) nowNs c ≠ .accept ak := by
  intro h
  obtain ⟨_, _, _, _, hl, _⟩ := (SigV2Thm.check_accept_iff hmac b64 (fun _ => none) nowNs c ak).mp h
  cases hl

theorem header_no_provider (sha256hex : Bytes → Bytes) (hmac : Bytes → Bytes → Bytes) (c : Ctx) (ak r s : Bytes) :
    v4CheckHeaderAuth sha256hex hmac none c ≠ .accept ak r s := by
  unfold v4CheckHeaderAuth
  repeat' split
  all_goals first | (simp; done) | simp_all

theorem presigned_no_provider (sha256hex : Bytes → Bytes) (hmac : Bytes → Bytes → Bytes) (nowNs : Int) (c : Ctx)
    (ak r s : Bytes) : v4CheckPresignedUrl sha256hex hmac none nowNs c ≠ .accept ak r s := by
  unfold v4CheckPresignedUrl
  repeat' split
  all_goals first | (simp; done) | (simp_all; done) | (simp_all; repeat' split) <;> simp

theorem post_no_provider (hmac : Bytes → Bytes → Bytes) (fields : List (Bytes × Bytes)) (ak r s : Bytes) :
    v4CheckPostSignature hmac none fields ≠ .accept ak r s := by
  simp [v4CheckPostSignature]

/-! ## "no `Authorization` header", on the wire -/

/-- on a sorted vector `get_unique` answers when exactly one pair carries the name -/
theorem getUnique_isSome_of_count_one {hs : List (Bytes × Bytes)} (hsort : SortedBy hs) {name : Bytes}
    (h : (hs.filter (fun p => p.1 = name)).length = 1) : (getUnique hs name).isSome = true := by
  rw [← filter_dropWhile_lt] at h
  have hsub : (hs.dropWhile fun x => bLt x.1 name).Pairwise (fun a b => bLt b.1 a.1 = false) :=
    List.Pairwise.sublist (List.dropWhile_sublist _) hsort
  unfold getUnique
  cases hd : (hs.dropWhile fun x => bLt x.1 name) with
  | nil => rw [hd] at h; simp at h
  | cons p rest =>
    rw [hd] at h hsub
    have hp0 : bLt p.1 name = false := dropWhile_head_false _ hs p rest hd
    rw [List.pairwise_cons] at hsub
    have hpn : p.1 = name := by
      apply Classical.byContradiction
      intro hne
      have hgt : bLt name p.1 = true := by
        cases hb : bLt name p.1 with
        | true => rfl
        | false => exact absurd (bLt_total hp0 hb) hne
      have hnil : (p :: rest).filter (fun q => q.1 = name) = [] := by
        rw [List.filter_eq_nil_iff]
        intro q hq
        simp only [decide_eq_true_eq]
        intro hqn
        rcases List.mem_cons.mp hq with rfl | hq'
        · exact hne hqn
        · have h1 : bLt q.1 p.1 = false := hsub.1 q hq'
          rw [hqn, hgt] at h1; cases h1
      rw [hnil] at h; simp at h
    cases rest with
    | nil => simp [hpn]
    | cons f tail =>
      have hf : f.1 ≠ name := by
        intro hfn
        rw [List.filter_cons, List.filter_cons] at h
        simp [hpn, hfn] at h
      simp [hf, hpn]

theorem getAll_eq (hs : List (Bytes × Bytes)) (name : Bytes) :
    SigV2.getAll hs name = (getAllPairs hs name).map (·.2) := by
  have h1 : (fun x : Bytes × Bytes => SigV2.bLt x.1 name) = (fun x => SigV4.bLt x.1 name) := by
    funext x; exact bLt_eq _ _
  have h2 : (fun x : Bytes × Bytes => !SigV2.bLt name x.1) = (fun x => bLe x.1 name) := by
    funext x; rw [bLt_eq]; rfl
  unfold SigV2.getAll SigV2.lowerBound getAllPairs
  rw [h1, h2]

/-- `Authorization` is neither repeated nor present once in the `OrderedHeaders` of a request exactly when no header
    line of the request is named `authorization` in any spelling of the letters' case -/
theorem noHeader_iff {raw hs : List (Bytes × Bytes)} (h : orderedHeaders raw = some hs) (name : Bytes) :
    (((SigV2.getAll hs name).drop 1).isEmpty = true ∧ getUnique hs name = none) ↔
      ∀ x ∈ raw, lower x.1 ≠ name := by
  have hhs : hs = hsOf raw := by
    unfold orderedHeaders at h
    split at h
    · injection h with h; exact h.symm
    · cases h
  subst hhs
  have hsorted : SortedBy (hsOf raw) := sortByFirst_sorted _
  have hlen : ((hsOf raw).filter (fun p => p.1 = name)).length = (raw.filter fun x => lower x.1 = name).length := by
    rw [← getAllPairs_sorted hsorted, getAllPairs_hsOf, List.length_map]
  rw [getAll_eq, getAllPairs_hsOf]
  constructor
  · rintro ⟨hd, hu⟩
    have hle : (raw.filter fun x => lower x.1 = name).length ≤ 1 := by
      cases hf : raw.filter (fun x => lower x.1 = name) with
      | nil => simp
      | cons a t =>
        rw [hf] at hd
        cases t with
        | nil => simp
        | cons b t' => simp at hd
    have hne : (raw.filter fun x => lower x.1 = name).length ≠ 1 := by
      intro h1
      have := getUnique_isSome_of_count_one hsorted (hlen.trans h1)
      rw [hu] at this; cases this
    have hz : (raw.filter fun x => lower x.1 = name) = [] := by
      cases hf : raw.filter (fun x => lower x.1 = name) with
      | nil => rfl
      | cons a t =>
        rw [hf] at hle hne
        cases t with
        | nil => exact absurd rfl hne
        | cons b t' => simp at hle
    intro x hx hxn
    have : x ∈ raw.filter (fun x => lower x.1 = name) := by
      rw [List.mem_filter]; exact ⟨hx, by simpa using hxn⟩
    rw [hz] at this; cases this
  · intro hall
    have hz : (raw.filter fun x => lower x.1 = name) = [] := by
      rw [List.filter_eq_nil_iff]
      intro x hx
      simpa using hall x hx
    constructor
    · rw [hz]; rfl
    · apply getUnique_none_of_count hsorted
      rw [hlen, hz]; simp

/-- what `ops::prepare` puts into the context it hands to the signature check -/
theorem prepareCtx_go_ok {w : E2E.Wire} {p : E2E.Prepared} {path : Bytes} (h : E2E.prepareCtx.go w path = .ok p) :
    orderedHeaders w.headers = some p.c.hs ∧ p.c.method = w.method ∧ p.hasQuery = w.rawQuery.isSome ∧
      p.c.qs = (match w.rawQuery with | some q => orderedQs q | none => []) := by
  unfold E2E.prepareCtx.go at h
  dsimp only at h
  repeat' split at h
  all_goals first
    | (cases h; done)
    | (injection h with h; subst h; simp_all)

theorem prepareCtx_ok {w : E2E.Wire} {p : E2E.Prepared} (h : E2E.prepareCtx w = .ok p) :
    orderedHeaders w.headers = some p.c.hs ∧ p.c.method = w.method ∧ p.hasQuery = w.rawQuery.isSome ∧
      p.c.qs = (match w.rawQuery with | some q => orderedQs q | none => []) := by
  unfold E2E.prepareCtx at h
  repeat' split at h
  all_goals first
    | (cases h; done)
    | exact prepareCtx_go_ok h

/-! ## `Service.afterSig`: who runs, with which identity -/

section
open S3V.Gen S3V.Service S3V.ServiceSpec
variable {I : Type} [DecidableEq I]

/-- steps 2–5 hand every component the identity they were started with -/
theorem afterSig_cred_all (cfg : Cfg) (cred : Option I) (rm : Bool) (op : Option Op) :
    (afterSig cfg cred rm op).events.all (fun ev => Event.cred ev == cred) = true := by
  cases hauth : cfg.auth <;> cases hacc : cfg.access <;> cases hr : cfg.route <;> cases rm <;> cases op <;>
    cases cred <;>
    simp [afterSig, refuse, Event.cred, hauth, hacc, hr] <;>
    (try (cases cfg.deniedOps _ <;> simp [Event.cred]))

theorem afterSig_cred (cfg : Cfg) (cred : Option I) (rm : Bool) (op : Option Op) (ev : Event I)
    (h : ev ∈ (afterSig cfg cred rm op).events) : Event.cred ev = cred := by
  have := afterSig_cred_all cfg cred rm op
  rw [List.all_eq_true] at this
  simpa using this ev h

/-- without an identity a backend method runs only when no provider is configured or a hook object approved, a route
    handler only when the route's own `check_access` approved -/
theorem afterSig_anonymous_all (cfg : Cfg) (rm : Bool) (op : Option Op) :
    (afterSig cfg (none : Option I) rm op).events.all (fun ev =>
      (!Event.isBackend ev || !cfg.auth || cfg.access != .none) &&
      (!Event.isRouteCall ev || cfg.route == .matchAllow)) = true := by
  cases hauth : cfg.auth <;> cases hacc : cfg.access <;> cases hr : cfg.route <;> cases rm <;> cases op <;>
    simp [afterSig, refuse, Event.isBackend, Event.isRouteCall, hauth, hacc, hr] <;>
    (try (cases cfg.deniedOps _ <;> simp [Event.isBackend, Event.isRouteCall]))

theorem afterSig_anonymous (cfg : Cfg) (rm : Bool) (op : Option Op) (ev : Event I)
    (h : ev ∈ (afterSig cfg (none : Option I) rm op).events) :
    (Event.isBackend ev = true → cfg.auth = false ∨ cfg.access ≠ .none) ∧
      (Event.isRouteCall ev = true → cfg.route = .matchAllow) := by
  have := afterSig_anonymous_all (I := I) cfg rm op
  rw [List.all_eq_true] at this
  have h2 := this ev h
  simp only [Bool.and_eq_true, Bool.or_eq_true, Bool.not_eq_true', bne_iff_ne, ne_eq, beq_iff_eq] at h2
  constructor
  · intro hb
    rcases h2.1 with (h3 | h3) | h3
    · rw [hb] at h3; cases h3
    · exact Or.inl h3
    · exact Or.inr h3
  · intro hr
    rcases h2.2 with h3 | h3
    · rw [hr] at h3; cases h3
    · exact h3
end

end S3V.SigDispatchThm
