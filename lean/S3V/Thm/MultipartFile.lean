import S3V.Model.Multipart
import S3V.Spec.Multipart
/-!
# Lemmas: the `FileStream` DFA refines "bytes before the first delimiter" (C09d, C10)

`scan_ok` is the loop invariant of state 2 against the two executable spec functions `beforeFirst` and
`withheld`; `fsRead_spec` / `fileStream_spec` is the refinement for every list of frames.
-/
namespace S3V.Multipart
open S3V S3V.MultipartSpec

def FTerm.toSpec : FTerm → FileEnd
  | .ok => .ok
  | .incomplete => .incomplete
  | .underlying => .underlying

/-! ## prefix facts -/

theorem prefix_append_of_le {p x z : Bytes} (h : p.length ≤ x.length) : p <+: x ++ z ↔ p <+: x := by
  constructor
  · intro hp
    exact List.prefix_of_prefix_length_le hp (List.prefix_append x z) h
  · intro hp
    exact hp.trans (List.prefix_append x z)

theorem prefix_of_short {p x z : Bytes} (h : x.length ≤ p.length) (hp : p <+: x ++ z) : x <+: p :=
  List.prefix_of_prefix_length_le (List.prefix_append x z) hp h

theorem prefix_left_of_append {p x z : Bytes} (h : x ++ z <+: p) : x <+: p :=
  (List.prefix_append x z).trans h

/-! ## spec functions on easy inputs -/

theorem beforeFirst_cons (pat : Bytes) (c : UInt8) (cs : Bytes) :
    beforeFirst pat (c :: cs) =
      if pat.isPrefixOf (c :: cs) then some [] else (beforeFirst pat cs).map (c :: ·) := by
  rw [beforeFirst]
  split
  · rfl
  · cases beforeFirst pat cs <;> rfl

theorem beforeFirst_short (pat : Bytes) : ∀ d : Bytes, d.length < pat.length → beforeFirst pat d = none
  | [], h => by
    have : pat ≠ [] := by intro h0; simp [h0] at h
    simp [beforeFirst, this]
  | c :: cs, h => by
    rw [beforeFirst_cons]
    have hnp : pat.isPrefixOf (c :: cs) = false := by
      cases hb : pat.isPrefixOf (c :: cs) with
      | false => rfl
      | true =>
        have := (List.isPrefixOf_iff_prefix.mp hb).length_le
        omega
    rw [hnp, beforeFirst_short pat cs (by simp at h ⊢; omega)]
    rfl

theorem withheld_of_proper_prefix (pat d : Bytes) (hl : d.length < pat.length) (hp : d <+: pat) :
    withheld pat d = [] := by
  cases d with
  | nil => rfl
  | cons c cs =>
    rw [withheld, if_pos]
    exact ⟨hl, List.isPrefixOf_iff_prefix.mpr hp⟩

/-! ## state 2 -/

/-- what one `scan` of `x` establishes about the data `x ++ z`, for every continuation `z` -/
def ScanOk (pat x z : Bytes) : Scan → Prop
  | .found before => beforeFirst pat (x ++ z) = some before
  | .carry y held =>
      x = y ++ held ∧ held.length < pat.length ∧ held <+: pat ∧
      beforeFirst pat (x ++ z) = (beforeFirst pat (held ++ z)).map (y ++ ·) ∧
      withheld pat (x ++ z) = y ++ withheld pat (held ++ z)
  | .all y =>
      x = y ∧ beforeFirst pat (x ++ z) = (beforeFirst pat z).map (y ++ ·) ∧
      withheld pat (x ++ z) = y ++ withheld pat z

theorem ScanOk_cons {pat cs z : Bytes} {c : UInt8} {s : Scan}
    (h1 : pat.isPrefixOf (c :: (cs ++ z)) = false)
    (h2 : ¬ ((c :: (cs ++ z)).length < pat.length ∧ (c :: (cs ++ z)).isPrefixOf pat = true))
    (h : ScanOk pat cs z s) : ScanOk pat (c :: cs) z (s.cons c) := by
  cases s with
  | found before =>
    simp only [ScanOk, Scan.cons, List.cons_append] at h ⊢
    rw [beforeFirst_cons, h1, h]; rfl
  | carry y held =>
    simp only [ScanOk, Scan.cons, List.cons_append] at h ⊢
    obtain ⟨hx, hl, hp, hb, hw⟩ := h
    refine ⟨by rw [hx], hl, hp, ?_, ?_⟩
    · rw [beforeFirst_cons, h1, hb]
      cases beforeFirst pat (held ++ z) <;> simp
    · rw [withheld, if_neg h2, hw]
  | all y =>
    simp only [ScanOk, Scan.cons, List.cons_append] at h ⊢
    obtain ⟨hx, hb, hw⟩ := h
    refine ⟨by rw [hx], ?_, ?_⟩
    · rw [beforeFirst_cons, h1, hb]
      cases beforeFirst pat z <;> simp
    · rw [withheld, if_neg h2, hw]

/-- loop invariant of state 2 (the delimiter starts with CR) -/
theorem scan_ok (pt : Bytes) : ∀ (x z : Bytes), ScanOk (13 :: pt) x z (scan (13 :: pt) x)
  | [], z => by
    simp [scan, ScanOk]
  | c :: cs, z => by
    have ih := scan_ok pt cs z
    rw [scan]
    by_cases hc : c = 13
    · rw [if_pos hc]
      by_cases hlen : (13 :: pt).length ≤ (c :: cs).length
      · rw [if_pos hlen]
        cases hpre : (13 :: pt).isPrefixOf (c :: cs) with
        | true =>
          simp only [if_true, ScanOk, List.cons_append]
          rw [beforeFirst_cons, if_pos]
          have := List.isPrefixOf_iff_prefix.mp hpre
          exact List.isPrefixOf_iff_prefix.mpr (this.trans (List.prefix_append (c :: cs) z))
        | false =>
          simp only [Bool.false_eq_true, if_false]
          apply ScanOk_cons _ _ ih
          · cases hb : (13 :: pt).isPrefixOf (c :: (cs ++ z)) with
            | false => rfl
            | true =>
              have h1 : (13 :: pt) <+: (c :: cs) ++ z := List.isPrefixOf_iff_prefix.mp hb
              have h2 := (prefix_append_of_le hlen).mp h1
              rw [List.isPrefixOf_iff_prefix.mpr h2] at hpre
              cases hpre
          · rintro ⟨hl, -⟩
            simp only [List.length_cons, List.length_append] at hl hlen
            omega
      · rw [if_neg hlen]
        cases hpre : (c :: cs).isPrefixOf (13 :: pt) with
        | true =>
          simp only [if_true, ScanOk]
          refine ⟨rfl, by omega, List.isPrefixOf_iff_prefix.mp hpre, ?_, rfl⟩
          cases beforeFirst (13 :: pt) (c :: cs ++ z) <;> simp
        | false =>
          simp only [Bool.false_eq_true, if_false]
          apply ScanOk_cons _ _ ih
          · cases hb : (13 :: pt).isPrefixOf (c :: (cs ++ z)) with
            | false => rfl
            | true =>
              have h1 : (13 :: pt) <+: (c :: cs) ++ z := List.isPrefixOf_iff_prefix.mp hb
              have h2 := prefix_of_short (by omega) h1
              rw [List.isPrefixOf_iff_prefix.mpr h2] at hpre
              cases hpre
          · rintro ⟨-, hp⟩
            have h1 : (c :: cs) ++ z <+: (13 :: pt) := List.isPrefixOf_iff_prefix.mp hp
            have h2 := prefix_left_of_append h1
            rw [List.isPrefixOf_iff_prefix.mpr h2] at hpre
            cases hpre
    · rw [if_neg hc]
      apply ScanOk_cons _ _ ih
      · simp [List.isPrefixOf, Ne.symm hc]
      · rintro ⟨-, hp⟩
        simp [List.isPrefixOf, hc] at hp

/-! ## the DFA over all frames -/

theorem fsRead_some (pat carry f : Bytes) (fs : List Frame) :
    fsRead pat carry (some f :: fs) = fsAfterScan (fsRead pat) (scan pat (carry ++ f)) fs := by
  rw [fsRead]
  cases scan pat (carry ++ f) <;> rfl

/-- the refinement statement for one start configuration: data already in hand `x`, frames to come -/
def Refines (pat x : Bytes) (fs : List Frame) (r : List Bytes × FTerm) : Prop :=
  (r.1.flatten, r.2.toSpec) = specFile pat (x ++ dataBeforeError fs) (hasError fs)

theorem afterScan_refines {pat x : Bytes} {fs : List Frame} {s : Scan}
    (hs : ScanOk pat x (dataBeforeError fs) s)
    (ih : ∀ carry, carry.length < pat.length → carry <+: pat → Refines pat carry fs (fsRead pat carry fs))
    (hpos : 0 < pat.length) :
    Refines pat x fs (fsAfterScan (fsRead pat) s fs) := by
  cases s with
  | found before =>
    simp only [ScanOk] at hs
    simp [Refines, fsAfterScan, specFile, hs, FTerm.toSpec]
  | carry y held =>
    obtain ⟨_, hl, hp, hb, hw⟩ := hs
    have := ih held hl hp
    simp only [Refines, specFile, fsAfterScan] at this ⊢
    rw [hb, hw]
    cases hbf : beforeFirst pat (held ++ dataBeforeError fs) with
    | some b' =>
      rw [hbf] at this
      simp only [Prod.mk.injEq, Option.map_some] at this ⊢
      simp [this.1, this.2]
    | none =>
      rw [hbf] at this
      simp only [Prod.mk.injEq, Option.map_none] at this ⊢
      simp [this.1, this.2]
  | all y =>
    obtain ⟨_, hb, hw⟩ := hs
    have := ih [] hpos (List.nil_prefix)
    simp only [Refines, specFile, fsAfterScan, List.nil_append] at this ⊢
    rw [hb, hw]
    cases hbf : beforeFirst pat (dataBeforeError fs) with
    | some b' =>
      rw [hbf] at this
      simp only [Prod.mk.injEq, Option.map_some] at this ⊢
      simp [this.1, this.2]
    | none =>
      rw [hbf] at this
      simp only [Prod.mk.injEq, Option.map_none] at this ⊢
      simp [this.1, this.2]

theorem fsRead_spec (pt : Bytes) : ∀ (fs : List Frame) (carry : Bytes),
    carry.length < (13 :: pt).length → carry <+: (13 :: pt) →
    Refines (13 :: pt) carry fs (fsRead (13 :: pt) carry fs)
  | [], carry, hl, hp => by
    simp [Refines, fsRead, dataBeforeError, hasError, specFile, beforeFirst_short _ _ hl,
      withheld_of_proper_prefix _ _ hl hp, FTerm.toSpec]
  | none :: _, carry, hl, hp => by
    simp [Refines, fsRead, dataBeforeError, hasError, specFile, beforeFirst_short _ _ hl,
      withheld_of_proper_prefix _ _ hl hp, FTerm.toSpec]
  | some f :: fs, carry, hl, hp => by
    rw [fsRead_some]
    have hs := scan_ok pt (carry ++ f) (dataBeforeError fs)
    have := afterScan_refines hs (fun c h1 h2 => fsRead_spec pt fs c h1 h2) (by simp)
    simpa [Refines, dataBeforeError, hasError, List.append_assoc] using this

/-- `FileStream` started by `try_parse` with the left-over bytes `rest`, over any frames -/
theorem fileStream_spec (b rest : Bytes) (fs : List Frame) :
    Refines (crlfPat b) rest fs (fileStream b rest fs) := by
  unfold fileStream fsStart crlfPat
  by_cases hr : rest = []
  · subst hr
    simpa using fsRead_spec (10 :: 45 :: 45 :: b) fs [] (by simp) List.nil_prefix
  · rw [if_neg hr]
    exact afterScan_refines (scan_ok _ rest (dataBeforeError fs))
      (fun c h1 h2 => fsRead_spec _ fs c h1 h2) (by simp)

end S3V.Multipart
