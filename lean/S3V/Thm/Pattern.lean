import S3V.Model.Pattern
import S3V.Spec.Pattern
/-!
# Lemmas: the loop of `match_pattern` decides `Matches`
-/
namespace S3V.Pattern
open S3V S3V.PatternSpec

/-- pointwise match of a star-free pattern segment -/
inductive PW : List Sym → List Sym → Prop
  | nil : PW [] []
  | cons {c d q t} : c ≠ star → (c = d ∨ c = qm) → PW q t → PW (c :: q) (d :: t)


theorem Matches.cons_inv {c p d s} (hc : c ≠ star) (h : Matches (c :: p) (d :: s)) :
    (c = d ∨ c = qm) ∧ Matches p s := by
  cases h with
  | starSkip _ => exact absurd rfl hc
  | starTake _ => exact absurd rfl hc
  | any1 h => exact ⟨Or.inr rfl, h⟩
  | lit _ h => exact ⟨Or.inl rfl, h⟩

theorem Matches.cons_intro {c p d s} (hc : c ≠ star) (hcd : c = d ∨ c = qm) (h : Matches p s) :
    Matches (c :: p) (d :: s) := by
  rcases hcd with rfl | rfl
  · exact .lit hc h
  · exact .any1 h

theorem Matches.cons_nil {c p} (hc : c ≠ star) : ¬ Matches (c :: p) [] := by
  intro h; cases h with
  | starSkip _ => exact hc rfl

theorem Matches.nil_cons {d s} : ¬ Matches [] (d :: s) := by
  intro h; cases h

theorem PW.cancel {q t} (h : PW q t) (p s : List Sym) : Matches (q ++ p) (t ++ s) ↔ Matches p s := by
  induction h with
  | nil => simp
  | cons hc hcd _ ih =>
    constructor
    · intro hm; exact ih.mp (Matches.cons_inv hc hm).2
    · intro hm; exact Matches.cons_intro hc hcd (ih.mpr hm)

theorem Matches.star_append {p s} (u : List Sym) (h : Matches (star :: p) s) : Matches (star :: p) (u ++ s) := by
  induction u with
  | nil => simpa
  | cons c u ih => exact .starTake ih

theorem Matches.star_inv {p s} (h : Matches (star :: p) s) : ∃ u r, s = u ++ r ∧ Matches p r := by
  generalize hp : star :: p = sp at h
  induction h with
  | nil => cases hp
  | starSkip h _ => injection hp with _ hp; subst hp; exact ⟨[], _, rfl, h⟩
  | @starTake p' c s' _ ih =>
    obtain ⟨u, r, rfl, hm⟩ := ih hp
    injection hp with _ hp; subst hp
    exact ⟨c :: u, r, rfl, hm⟩
  | any1 _ _ => injection hp with h1 _; exact absurd h1 star_ne_qm
  | lit hc _ _ => injection hp with h1 _; exact absurd h1.symm hc

theorem Matches.star_of_suffix {p u r} (h : Matches p r) : Matches (star :: p) (u ++ r) :=
  Matches.star_append u (.starSkip h)

/-- a star-free prefix consumes exactly its length -/
theorem PW.split_of_matches {q t} (hq : PW q t) {p r} (h : Matches (q ++ p) r) :
    ∃ t' r', r = t' ++ r' ∧ t'.length = q.length ∧ Matches p r' := by
  induction hq generalizing r with
  | nil => exact ⟨[], r, rfl, rfl, h⟩
  | @cons c d q t hc _ _ ih =>
    cases r with
    | nil => exact absurd h (Matches.cons_nil hc)
    | cons e r =>
      obtain ⟨t', r', rfl, hl, hm⟩ := ih (Matches.cons_inv hc h).2
      exact ⟨e :: t', r', rfl, by simp [hl], hm⟩

theorem PW.length_eq {q t} (h : PW q t) : q.length = t.length := by
  induction h with
  | nil => rfl
  | cons _ _ _ ih => simp [ih]

/-- key lemma for the star step: an older backtrack point may be dropped -/
theorem star_step {q t} (hq : PW q t) (p' s : List Sym) :
    Matches (star :: (q ++ star :: p')) (t ++ s) ↔ Matches (star :: p') s := by
  constructor
  · intro h
    obtain ⟨u, r, hur, hm⟩ := Matches.star_inv h
    obtain ⟨t', r', rfl, hl, hm'⟩ := hq.split_of_matches hm
    -- t ++ s = u ++ t' ++ r', |t'| = |q| = |t|  ⇒ r' is a suffix of s
    have hlen : t.length = t'.length := by rw [hl, hq.length_eq]
    have : ∃ v, s = v ++ r' := by
      have h1 : t ++ s = (u ++ t') ++ r' := by simpa using hur
      rcases List.append_eq_append_iff.mp h1 with ⟨a', _, h3⟩ | ⟨c', h2, h3⟩
      · exact ⟨a', h3⟩
      · have hl2 := congrArg List.length h2
        simp only [List.length_append] at hl2
        have : c' = [] := List.eq_nil_of_length_eq_zero (by omega)
        subst this
        exact ⟨[], by simpa using h3.symm⟩
    obtain ⟨v, rfl⟩ := this
    obtain ⟨w, r'', hw, hm''⟩ := Matches.star_inv hm'
    subst hw
    have := Matches.star_of_suffix (u := v ++ w) hm''
    simpa using this
  · intro h
    exact .starSkip ((hq.cancel _ _).mpr h)

/-- semantic loop invariant -/
def Sem (pat inp : List Sym) (st : St) : Prop :=
  match st.back with
  | none => (Matches pat inp ↔ Matches st.p st.s)
  | some (pb, sb) => (Matches pat inp ↔ Matches (star :: pb) sb) ∧ ∃ q t, pb = q ++ st.p ∧ sb = t ++ st.s ∧ PW q t

theorem PW.nil_right {q} (h : PW q []) : q = [] := by cases h; rfl

/-- the three mismatch exits share this argument -/
theorem retry_sem (pat inp p s : List Sym) (back : Option (List Sym × List Sym))
    (hs : Sem pat inp ⟨p, s, back⟩) (hmis : ¬ Matches p s) (hhead : ∀ c p', p = c :: p' → c ≠ star) :
    match retryStep back with
    | .done b => (b = true ↔ Matches pat inp)
    | .next st' => Sem pat inp st' := by
  cases back with
  | none =>
    simp only [Sem] at hs
    simp [retryStep, hs, hmis]
  | some b =>
    obtain ⟨pb, sb⟩ := b
    simp only [Sem] at hs
    obtain ⟨hiff, q, t, hpb, hsb, hpw⟩ := hs
    by_cases hnil : pb = []
    · subst hnil
      simp only [retryStep, if_true, true_iff]
      rw [hiff]
      have := Matches.star_of_suffix (u := sb) Matches.nil
      simpa using this
    · have hpb_nil : ¬ Matches pb [] := by
        intro hm
        cases q with
        | nil =>
          simp at hpb; subst hpb
          cases hp : pb with
          | nil => exact hnil hp
          | cons c p' => rw [hp] at hm; exact Matches.cons_nil (hhead c p' hp) hm
        | cons c q' =>
          cases hpw with
          | cons hc _ _ => rw [hpb] at hm; exact Matches.cons_nil hc hm
      have hskip : ¬ Matches pb sb := by
        intro hm; rw [hpb, hsb] at hm; exact hmis ((hpw.cancel _ _).mp hm)
      match sb, hiff, hskip with
      | x :: d :: sb', hiff, hskip =>
        simp only [retryStep, if_neg hnil, Sem]
        refine ⟨?_, [], [], by simp, by simp, PW.nil⟩
        rw [hiff]
        constructor
        · intro hm
          cases hm with
          | starSkip h => exact absurd h hskip
          | starTake h => exact h
          | lit hc _ => exact absurd rfl hc
        · intro hm; exact .starTake hm
      | [], hiff, hskip =>
        simp only [retryStep, if_neg hnil, Bool.false_eq_true, false_iff]
        rw [hiff]
        intro hm
        cases hm with
        | starSkip h => exact hskip h
      | [x], hiff, hskip =>
        simp only [retryStep, if_neg hnil, Bool.false_eq_true, false_iff]
        rw [hiff]
        intro hm
        cases hm with
        | starSkip h => exact hskip h
        | starTake h =>
          cases h with
          | starSkip h' => exact hpb_nil h'
        | lit hc _ => exact absurd rfl hc

theorem step_sem (pat inp : List Sym) (st : St) (hs : Sem pat inp st) :
    match step st with
    | .done b => (b = true ↔ Matches pat inp)
    | .next st' => Sem pat inp st' := by
  obtain ⟨p, s, back⟩ := st
  cases p with
  | cons c p' =>
    by_cases hc : c = star
    · -- star
      subst hc
      simp only [step, if_true, Sem]
      refine ⟨?_, [], [], by simp, by simp, PW.nil⟩
      cases back with
      | none => simp only [Sem] at hs; exact hs
      | some b =>
        obtain ⟨pb, sb⟩ := b
        simp only [Sem] at hs
        obtain ⟨hiff, q, t, hpb, hsb, hpw⟩ := hs
        rw [hiff, hpb, hsb]
        exact star_step hpw p' s
    · cases s with
      | cons d s' =>
        by_cases hcd : c = d ∨ c = qm
        · -- char match
          simp only [step, if_neg hc, if_pos hcd]
          cases back with
          | none =>
            simp only [Sem] at hs ⊢
            rw [hs]
            exact ⟨fun h => (Matches.cons_inv hc h).2, fun h => Matches.cons_intro hc hcd h⟩
          | some b =>
            obtain ⟨pb, sb⟩ := b
            simp only [Sem] at hs ⊢
            obtain ⟨hiff, q, t, hpb, hsb, hpw⟩ := hs
            refine ⟨hiff, q ++ [c], t ++ [d], by simp [hpb], by simp [hsb], ?_⟩
            clear hiff hpb hsb
            induction hpw with
            | nil => exact PW.cons hc hcd PW.nil
            | cons h1 h2 _ ih => exact PW.cons h1 h2 ih
        · simp only [step, if_neg hc, if_neg hcd]
          exact retry_sem pat inp (c :: p') (d :: s') back hs
            (fun h => hcd (Matches.cons_inv hc h).1) (fun c' p'' h => by injection h with h1 _; subst h1; exact hc)
      | nil =>
        simp only [step, if_neg hc]
        exact retry_sem pat inp (c :: p') [] back hs
          (Matches.cons_nil hc) (fun c' p'' h => by injection h with h1 _; subst h1; exact hc)
  | nil =>
    cases s with
    | nil =>
      simp only [step, true_iff]
      cases back with
      | none => simp only [Sem] at hs; exact hs.mpr Matches.nil
      | some b =>
        obtain ⟨pb, sb⟩ := b
        simp only [Sem] at hs
        obtain ⟨hiff, q, t, hpb, hsb, hpw⟩ := hs
        rw [hiff]
        simp at hpb hsb; subst hpb hsb
        have := (hpw.cancel [] []).mpr Matches.nil
        simp at this
        exact .starSkip this
    | cons d s' =>
      simp only [step]
      exact retry_sem pat inp [] (d :: s') back hs Matches.nil_cons (fun c p' h => by cases h)

theorem run_correct (pat inp : List Sym) (st : St) (hi : st.inv) (hs : Sem pat inp st) :
    run st hi = true ↔ Matches pat inp := by
  induction st, hi using run.induct with
  | case1 st hi b h =>
    rw [run]; split
    · rename_i b' h'; rw [h] at h'; injection h' with h'; subst h'
      have := step_sem pat inp st hs; rw [h] at this; exact this
    · rename_i st' h'; rw [h] at h'; cases h'
  | case2 st hi st' h ih =>
    rw [run]; split
    · rename_i b' h'; rw [h] at h'; cases h'
    · rename_i st'' h'; rw [h] at h'; injection h' with h'; subst h'
      have := step_sem pat inp st hs; rw [h] at this
      exact ih this

theorem matchPattern_correct (p s : List Sym) : matchPattern p s = true ↔ Matches p s := by
  unfold matchPattern
  exact run_correct p s _ _ (by simp [Sem])

end S3V.Pattern
