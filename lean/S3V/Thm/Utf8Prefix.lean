import S3V.Base.Utf8
/-!
# Lemma: a valid UTF-8 string cut in front of an ASCII byte is valid

`utf8Valid (w ++ c :: x) → c < 0x80 → utf8Valid w` — an ASCII byte is never a continuation byte, so no
multi-byte sequence can straddle the cut. Used for C09d: a field value that is not UTF-8 cannot become
UTF-8 by appending `CR …` to it.
-/
namespace S3V

/-- fuel-free validity -/
inductive Utf8 : Bytes → Prop where
  | nil : Utf8 []
  | step {b r : Bytes} {cp : Nat} : utf8DecodeOne b = some (cp, r) → Utf8 r → Utf8 b

/-- shape of one decoding step: `k` continuation bytes are consumed, and only they are looked at -/
theorem utf8DecodeOne_shape {b0 : UInt8} {rest r : Bytes} {cp : Nat}
    (h : utf8DecodeOne (b0 :: rest) = some (cp, r)) :
    ∃ k, k ≤ rest.length ∧ r = rest.drop k ∧ (∀ y ∈ rest.take k, isCont y = true) ∧
      ∀ rest' : Bytes, rest'.take k = rest.take k → k ≤ rest'.length →
        utf8DecodeOne (b0 :: rest') = some (cp, rest'.drop k) := by
  unfold utf8DecodeOne at h
  simp only at h
  by_cases h1 : b0.toNat < 0x80
  · rw [if_pos h1] at h
    simp only [Option.some.injEq, Prod.mk.injEq] at h
    obtain ⟨rfl, rfl⟩ := h
    refine ⟨0, by simp, by simp, by simp, ?_⟩
    intro rest' _ _
    unfold utf8DecodeOne
    simp only [if_pos h1, List.drop_zero]
  · rw [if_neg h1] at h
    by_cases h2 : b0.toNat < 0xC2
    · rw [if_pos h2] at h; exact absurd h (by simp)
    · rw [if_neg h2] at h
      by_cases h3 : b0.toNat < 0xE0
      · rw [if_pos h3] at h
        cases rest with
        | nil => exact absurd h (by simp)
        | cons b1 r1 =>
          simp only at h
          by_cases hc : isCont b1 = true
          · rw [if_pos hc] at h
            simp only [Option.some.injEq, Prod.mk.injEq] at h
            obtain ⟨rfl, rfl⟩ := h
            refine ⟨1, by simp, by simp, by simpa using hc, ?_⟩
            intro rest' ht hl
            cases rest' with
            | nil => simp at hl
            | cons b1' r1' =>
              simp only [List.take_succ_cons, List.take_zero, List.cons.injEq, and_true] at ht
              subst ht
              unfold utf8DecodeOne
              simp only [if_neg h1, if_neg h2, if_pos h3, if_pos hc, List.drop_succ_cons, List.drop_zero]
          · rw [if_neg hc] at h; exact absurd h (by simp)
      · rw [if_neg h3] at h
        by_cases h4 : b0.toNat < 0xF0
        · rw [if_pos h4] at h
          match rest, h with
          | [], h => exact absurd h (by simp)
          | [_], h => exact absurd h (by simp)
          | b1 :: b2 :: r2, h =>
            simp only at h
            by_cases hc : (isCont b1 && isCont b2) = true
            · rw [if_pos hc] at h
              split at h
              · exact absurd h (by simp)
              · rename_i hr
                simp only [Option.some.injEq, Prod.mk.injEq] at h
                obtain ⟨rfl, rfl⟩ := h
                have hc' : isCont b1 = true ∧ isCont b2 = true := by simpa using hc
                refine ⟨2, by simp, by simp, ?_, ?_⟩
                · intro y hy
                  simp only [List.take_succ_cons, List.take_zero, List.mem_cons, List.not_mem_nil, or_false] at hy
                  rcases hy with rfl | rfl
                  · exact hc'.1
                  · exact hc'.2
                · intro rest' ht hl
                  match rest', ht, hl with
                  | [], _, hl => simp at hl
                  | [_], _, hl => simp at hl
                  | b1' :: b2' :: r2', ht, _ =>
                    simp only [List.take_succ_cons, List.take_zero, List.cons.injEq, and_true] at ht
                    obtain ⟨rfl, rfl⟩ := ht
                    unfold utf8DecodeOne
                    simp only [if_neg h1, if_neg h2, if_neg h3, if_pos h4, if_pos hc, if_neg hr,
                      List.drop_succ_cons, List.drop_zero]
            · rw [if_neg hc] at h; exact absurd h (by simp)
        · rw [if_neg h4] at h
          by_cases h5 : b0.toNat < 0xF5
          · rw [if_pos h5] at h
            match rest, h with
            | [], h => exact absurd h (by simp)
            | [_], h => exact absurd h (by simp)
            | [_, _], h => exact absurd h (by simp)
            | b1 :: b2 :: b3 :: r3, h =>
              simp only at h
              by_cases hc : (isCont b1 && isCont b2 && isCont b3) = true
              · rw [if_pos hc] at h
                split at h
                · exact absurd h (by simp)
                · rename_i hr
                  simp only [Option.some.injEq, Prod.mk.injEq] at h
                  obtain ⟨rfl, rfl⟩ := h
                  have hc' : (isCont b1 = true ∧ isCont b2 = true) ∧ isCont b3 = true := by simpa using hc
                  refine ⟨3, by simp, by simp, ?_, ?_⟩
                  · intro y hy
                    simp only [List.take_succ_cons, List.take_zero, List.mem_cons, List.not_mem_nil, or_false] at hy
                    rcases hy with rfl | rfl | rfl
                    · exact hc'.1.1
                    · exact hc'.1.2
                    · exact hc'.2
                  · intro rest' ht hl
                    match rest', ht, hl with
                    | [], _, hl => simp at hl
                    | [_], _, hl => simp at hl
                    | [_, _], _, hl => simp at hl
                    | b1' :: b2' :: b3' :: r3', ht, _ =>
                      simp only [List.take_succ_cons, List.take_zero, List.cons.injEq, and_true] at ht
                      obtain ⟨rfl, rfl, rfl⟩ := ht
                      unfold utf8DecodeOne
                      simp only [if_neg h1, if_neg h2, if_neg h3, if_neg h4, if_pos h5, if_pos hc, if_neg hr,
                        List.drop_succ_cons, List.drop_zero]
              · rw [if_neg hc] at h; exact absurd h (by simp)
          · rw [if_neg h5] at h; exact absurd h (by simp)

theorem utf8DecodeOne_shorter {b r : Bytes} {cp : Nat} (h : utf8DecodeOne b = some (cp, r)) :
    r.length < b.length := by
  cases b with
  | nil => simp [utf8DecodeOne] at h
  | cons b0 rest =>
    obtain ⟨k, _, rfl, _, _⟩ := utf8DecodeOne_shape h
    simp only [List.length_drop, List.length_cons]
    omega

theorem utf8DecodeFuel_isSome_iff : ∀ (n : Nat) (b : Bytes), b.length ≤ n →
    ((utf8DecodeFuel n b).isSome = true ↔ Utf8 b) := by
  intro n
  induction n with
  | zero =>
    intro b hb
    have : b = [] := List.eq_nil_of_length_eq_zero (by omega)
    subst this
    simp [utf8DecodeFuel, Utf8.nil]
  | succ k ih =>
    intro b hb
    cases b with
    | nil => simp [utf8DecodeFuel, Utf8.nil]
    | cons b0 rest =>
      rw [utf8DecodeFuel]
      · cases hd : utf8DecodeOne (b0 :: rest) with
        | none =>
          simp only [Option.isSome_none, Bool.false_eq_true, false_iff]
          intro hu
          cases hu with
          | step h _ => rw [hd] at h; exact absurd h (by simp)
        | some cr =>
          obtain ⟨cp, r⟩ := cr
          have hlt := utf8DecodeOne_shorter hd
          have := ih r (by simp only [List.length_cons] at hlt hb; omega)
          simp only [Option.isSome_map]
          rw [this]
          constructor
          · intro hr; exact Utf8.step hd hr
          · intro hu
            cases hu with
            | step h hr =>
              rw [hd] at h
              simp only [Option.some.injEq, Prod.mk.injEq] at h
              obtain ⟨_, rfl⟩ := h
              exact hr
      · intro h; exact absurd h (by simp)

theorem utf8Valid_iff (b : Bytes) : utf8Valid b = true ↔ Utf8 b := by
  unfold utf8Valid utf8Decode
  exact utf8DecodeFuel_isSome_iff b.length b (Nat.le_refl _)

theorem not_isCont_of_ascii {c : UInt8} (hc : c.toNat < 128) : isCont c = false := by
  unfold isCont
  simp only [decide_eq_false_iff_not]
  omega

/-- one decoding step never straddles an ASCII byte -/
theorem utf8DecodeOne_append_ascii {w x r : Bytes} {c : UInt8} {cp : Nat} (hw : w ≠ []) (hc : c.toNat < 128)
    (h : utf8DecodeOne (w ++ c :: x) = some (cp, r)) :
    ∃ r1, utf8DecodeOne w = some (cp, r1) ∧ r = r1 ++ c :: x := by
  have hnc := not_isCont_of_ascii hc
  cases w with
  | nil => exact absurd rfl hw
  | cons b0 rw =>
    simp only [List.cons_append] at h
    obtain ⟨k, _, rfl, hcont, hall⟩ := utf8DecodeOne_shape h
    have hk : k ≤ rw.length := by
      apply Nat.le_of_not_lt
      intro hlt
      have hmem : c ∈ (rw ++ c :: x).take k := by
        rw [List.take_append]
        have : k - rw.length = (k - rw.length - 1) + 1 := by omega
        rw [this, List.take_succ_cons]
        simp
      have := hcont c hmem
      rw [hnc] at this
      exact absurd this (by simp)
    refine ⟨rw.drop k, ?_, ?_⟩
    · exact hall rw (by rw [List.take_append_of_le_length hk]) hk
    · rw [List.drop_append_of_le_length hk]

theorem Utf8.prefix_before_ascii {c : UInt8} (hc : c.toNat < 128) (x : Bytes) :
    ∀ (n : Nat) (w : Bytes), w.length ≤ n → Utf8 (w ++ c :: x) → Utf8 w := by
  intro n
  induction n with
  | zero =>
    intro w hw _
    have : w = [] := List.eq_nil_of_length_eq_zero (by omega)
    subst this; exact Utf8.nil
  | succ k ih =>
    intro w hw hu
    by_cases hnil : w = []
    · subst hnil; exact Utf8.nil
    · generalize he : w ++ c :: x = y at hu
      cases hu with
      | nil => simp at he
      | step hd hr =>
        subst he
        obtain ⟨r1, h1, rfl⟩ := utf8DecodeOne_append_ascii hnil hc hd
        have hlt := utf8DecodeOne_shorter h1
        exact Utf8.step h1 (ih r1 (by omega) hr)

/-- the lemma -/
theorem utf8Valid_prefix_before_ascii {w x : Bytes} {c : UInt8} (hc : c.toNat < 128)
    (h : utf8Valid (w ++ c :: x) = true) : utf8Valid w = true :=
  (utf8Valid_iff w).mpr (Utf8.prefix_before_ascii hc x w.length w (Nat.le_refl _) ((utf8Valid_iff _).mp h))

end S3V
