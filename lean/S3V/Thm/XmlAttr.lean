import S3V.Thm.XmlWf
import S3V.Thm.XmlToken
import S3V.Thm.XmlUtf8
/-!
Attributes (code since 680006e): what `Deserializer::attribute` — quick-xml's attribute iterator, attribute-value
normalisation, `unescape` — reads from a start tag is what `start_of` / `attr_value` wrote into it.
-/
namespace S3V.Xml
open S3V

/-- a (key, raw value) pair that `start_of` can write so that the iterator reads it back -/
def PairOk (kv : Bytes × Bytes) : Prop := keyPlain kv.1 = true ∧ ∀ c ∈ kv.2, c ≠ cQuot

theorem attrsOf_cons (kv : Bytes × Bytes) (ps : List (Bytes × Bytes)) :
    attrsOf (kv :: ps) = attrSeg kv.1 kv.2 ++ attrsOf ps := by
  simp [attrsOf]

theorem encAttrs_struct (fs : Flds) (vs : List FVal) : encAttrs (.struct fs) (.struct vs) = attrsOf (attrPairs fs vs) := by
  simp only [encAttrs, attrsOf]

theorem attrKeyOk_plain {k : Bytes} (h : attrKeyOk k = true) : keyPlain k = true ∧ k ≠ xmlnsXsiKey ∧ k ≠ xmlnsKey := by
  simp only [attrKeyOk, Bool.and_eq_true] at h
  refine ⟨by simp only [keyPlain, Bool.and_eq_true]; exact h.1.1, ?_, ?_⟩
  · simpa using h.1.2
  · simpa using h.2

theorem attrsOf_append (a b : List (Bytes × Bytes)) : attrsOf (a ++ b) = attrsOf a ++ attrsOf b := by
  simp [attrsOf]

/-- the ` xmlns="…"` of a root as a (key, raw value) pair -/
def nsPairsOf : Option Bytes → List (Bytes × Bytes)
  | none => []
  | some uri => [(xmlnsKey, escape uri)]

/-- the ` xmlns="…"` of a root is an attribute like the others -/
theorem nsAttr_eq (ns : Option Bytes) : nsAttr ns = attrsOf (nsPairsOf ns) := by
  cases ns <;> simp [nsAttr, nsPairsOf, attrsOf, attrSeg, xmlnsKey]

/-- pairs in front of the attributes of a value (`content_with_ns`: the `xmlns` attribute): well-formed, and named
`xmlns` -/
def NsPairs (ps : List (Bytes × Bytes)) : Prop := ∀ kv ∈ ps, PairOk kv ∧ kv.1 = xmlnsKey

/-- `try_get_attribute(name)` over what `start_of` wrote: the raw value of the first pair with that key -/
theorem attrFind_written (name : Bytes) : ∀ (ps : List (Bytes × Bytes)) (fuel : Nat), (∀ kv ∈ ps, PairOk kv) →
    (attrsOf ps).length < fuel →
    attrFind name fuel (attrsOf ps) = .ok ((ps.find? fun kv => kv.1 = name).map (·.2))
  | [], fuel, _, hf => by
    cases fuel with
    | zero => simp at hf
    | succ k => simp [attrsOf, attrFind, attrNext]
  | kv :: ps, fuel, hok, hf => by
    cases fuel with
    | zero => simp at hf
    | succ k =>
      obtain ⟨hk, hv⟩ := hok kv (by simp)
      rw [attrsOf_cons] at hf ⊢
      simp only [attrFind, attrNext_seg kv.1 kv.2 _ hk hv]
      by_cases hn : kv.1 = name
      · simp [hn]
      · have hlen := attrSeg_length_pos kv.1 kv.2
        rw [if_neg hn, attrFind_written name ps k (fun x hx => hok x (by simp [hx]))
          (by simp only [List.length_append] at hf; omega)]
        simp [List.find?, hn]

/-! ### which pair a member's name finds -/

/-- the raw value written for the first member bound to an attribute that is named `t` and has a value -/
def attrSlot : Flds → List FVal → Bytes → Option Bytes
  | .cons tag _ sh _ rest, fv :: fvs, t =>
    match sh, fv with
    | .attr, .one (.str b) => if tag = t then some (escapeAttr b) else attrSlot rest fvs t
    | _, _ => attrSlot rest fvs t
  | _, _, _ => none

theorem nsDeclFor_key (tag : Bytes) : ∀ kv ∈ nsDeclFor tag, kv = (xmlnsXsiKey, escapeAttr xmlnsXsi) := by
  intro kv hkv
  unfold nsDeclFor at hkv
  split at hkv
  · simpa using hkv
  · simp at hkv

theorem find_nsDeclFor (tag t : Bytes) (ht : t ≠ xmlnsXsiKey) (l : List (Bytes × Bytes)) :
    (nsDeclFor tag ++ l).find? (fun kv => kv.1 = t) = l.find? (fun kv => kv.1 = t) := by
  unfold nsDeclFor
  split
  · have : ¬ xmlnsXsiKey = t := fun h => ht h.symm
    simp [this]
  · simp

/-- a name other than `xmlns:xsi` finds the attribute of the member it names -/
theorem find_attrPairs (t : Bytes) (ht : t ≠ xmlnsXsiKey) : ∀ (fs : Flds) (fvs : List FVal),
    ((attrPairs fs fvs).find? fun kv => kv.1 = t).map (·.2) = attrSlot fs fvs t
  | .nil, _ => by simp [attrPairs, attrSlot]
  | .cons _ _ _ _ _, [] => by simp [attrPairs, attrSlot]
  | .cons tag p sh s rest, fv :: fvs => by
    have ih := find_attrPairs t ht rest fvs
    have hplain : attrPairs (.cons tag p sh s rest) (fv :: fvs) = attrPairs rest fvs →
        attrSlot (.cons tag p sh s rest) (fv :: fvs) t = attrSlot rest fvs t →
        ((attrPairs (.cons tag p sh s rest) (fv :: fvs)).find? fun kv => kv.1 = t).map (·.2)
          = attrSlot (.cons tag p sh s rest) (fv :: fvs) t := by
      intro h1 h2; rw [h1, h2]; exact ih
    cases sh with
    | attr =>
      cases fv with
      | one v =>
        cases v with
        | str b =>
          simp only [attrPairs, attrSlot, List.append_assoc]
          rw [find_nsDeclFor tag t ht]
          by_cases htt : tag = t
          · simp [htt]
          · simp only [List.cons_append, List.nil_append, List.find?, htt, decide_false]
            exact ih
        | int _ => exact hplain (by simp [attrPairs]) (by simp [attrSlot])
        | bool _ => exact hplain (by simp [attrPairs]) (by simp [attrSlot])
        | ts _ => exact hplain (by simp [attrPairs]) (by simp [attrSlot])
        | struct _ => exact hplain (by simp [attrPairs]) (by simp [attrSlot])
        | union _ _ => exact hplain (by simp [attrPairs]) (by simp [attrSlot])
      | absent => exact hplain (by simp [attrPairs]) (by simp [attrSlot])
      | many _ => exact hplain (by simp [attrPairs]) (by simp [attrSlot])
    | single => exact hplain (by cases fv <;> simp [attrPairs]) (by cases fv <;> simp [attrSlot])
    | wrapped m => exact hplain (by cases fv <;> simp [attrPairs]) (by cases fv <;> simp [attrSlot])
    | flat => exact hplain (by cases fv <;> simp [attrPairs]) (by cases fv <;> simp [attrSlot])

theorem attrSlot_not_mem (t : Bytes) : ∀ (fs : Flds) (fvs : List FVal), t ∉ fs.tags → attrSlot fs fvs t = none
  | .nil, _, _ => by simp [attrSlot]
  | .cons _ _ _ _ _, [], _ => by simp [attrSlot]
  | .cons tag p sh s rest, fv :: fvs, h => by
    have hne : tag ≠ t := fun e => h (by simp [Flds.tags, e])
    have hr : t ∉ rest.tags := fun e => h (by simp [Flds.tags, e])
    have ih := attrSlot_not_mem t rest fvs hr
    unfold attrSlot
    split
    · rw [if_neg hne]; exact ih
    · exact ih

/-! ### every pair the serialiser writes is read back -/

theorem keyPlain_xmlnsXsi : keyPlain xmlnsXsiKey = true := by decide

theorem attrPairs_ok : ∀ (fs : Flds) (fvs : List FVal), fs.wf = true → ∀ kv ∈ attrPairs fs fvs, PairOk kv
  | .nil, _, _, kv, h => by simp [attrPairs] at h
  | .cons _ _ _ _ _, [], _, kv, h => by simp [attrPairs] at h
  | .cons tag p sh s rest, fv :: fvs, hwf, kv, h => by
    simp only [Flds.wf, Bool.and_eq_true] at hwf
    have ih := attrPairs_ok rest fvs hwf.2.1
    simp only [attrPairs, List.mem_append] at h
    rcases h with h | h
    · -- the pairs of the head member
      split at h
      · rename_i b
        have hkey : attrKeyOk tag = true := by simpa using hwf.2.2
        simp only [List.mem_append, List.mem_singleton] at h
        rcases h with h | h
        · rw [nsDeclFor_key tag kv h]
          exact ⟨keyPlain_xmlnsXsi, fun c hc => (escapeAttr_clean _ c hc).2.2.2.1⟩
        · subst h
          exact ⟨(attrKeyOk_plain hkey).1, fun c hc => (escapeAttr_clean _ c hc).2.2.2.1⟩
      · simp at h
    · exact ih kv h

theorem find_nsPairs {ps0 : List (Bytes × Bytes)} (h0 : NsPairs ps0) (t : Bytes) (ht : t ≠ xmlnsKey)
    (l : List (Bytes × Bytes)) : (ps0 ++ l).find? (fun kv => kv.1 = t) = l.find? (fun kv => kv.1 = t) := by
  induction ps0 with
  | nil => rfl
  | cons kv ps ih =>
    have hk : ¬ kv.1 = t := fun e => ht (e ▸ (h0 kv (by simp)).2)
    simp only [List.cons_append, List.find?, hk, decide_false]
    exact ih (fun x hx => h0 x (by simp [hx]))

/-- **`Deserializer::attribute(tag)` on the start tag `start_of` wrote** (`ps0`: the `xmlns` attribute of a root, or
nothing) yields the string that was written for the member named `tag` (a Rust `String`: valid UTF-8), or nothing
when no member of that name has a value -/
theorem attrValue_written (ps0 : List (Bytes × Bytes)) (h0 : NsPairs ps0) (fs : Flds) (fvs : List FVal)
    (hwf : fs.wf = true) (t : Bytes) (ht : t ≠ xmlnsXsiKey) (ht' : t ≠ xmlnsKey) :
    (∀ b, attrSlot fs fvs t = some (escapeAttr b) → utf8Valid b = true →
      attrValue t (attrsOf ps0 ++ attrsOf (attrPairs fs fvs)) = .ok (some b)) ∧
    (attrSlot fs fvs t = none → attrValue t (attrsOf ps0 ++ attrsOf (attrPairs fs fvs)) = .ok none) := by
  rw [← attrsOf_append]
  have hfind := attrFind_written t (ps0 ++ attrPairs fs fvs) ((attrsOf (ps0 ++ attrPairs fs fvs)).length + 1)
    (fun kv hkv => by
      rcases List.mem_append.mp hkv with h | h
      · exact (h0 kv h).1
      · exact attrPairs_ok fs fvs hwf kv h) (by omega)
  rw [find_nsPairs h0 t ht', find_attrPairs t ht fs fvs] at hfind
  constructor
  · intro b hb hv
    simp only [attrValue, hfind, hb, utf8Valid_escapeAttr hv, if_true, attrNormalize_escapeAttr, unescape_escapeAttr]
  · intro hn
    simp only [attrValue, hfind, hn]

end S3V.Xml
