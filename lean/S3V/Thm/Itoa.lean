import S3V.Model.Itoa
import S3V.Model.EvStream
/-!
# Lemmas: `itoa`'s `write` for `i64` is the decimal text (`fmtLong` = optional `-` + `fmtDec |v|`)

* `lut2_pair` — the table holds the two decimal digits of `v` at offset `2 v` (all 100 entries, by evaluation);
* `magnitude_eq` — for `-2^63 ≤ v < 2^63` the `u64` the code formats is `|v|` (`i64::MIN` included: the
  `wrapping_add` wraps `2^64 - 2^63 - 1 + 1` to `2^63`);
* `loop4_spec` — the 4-digits-at-a-time loop keeps `fmtDec n ++ written` unchanged and leaves `n < 10000`;
* `write_eq_fmtLong`, `write_length_le` (the 20-byte buffer is never overrun).
-/
namespace S3V.Itoa
open S3V S3V.EvStream

theorem lut2_pair : ∀ v, v < 100 → lut2 (v <<< 1) = [digitChar (v / 10), digitChar (v % 10)] := by decide

/-! ## `fmtDec`, several digits at a time -/

theorem fmtDec_small {n : Nat} (h : n < 10) : fmtDec n = [digitChar n] := by
  rw [fmtDec, dif_pos h]

theorem fmtDec_snoc {n : Nat} (h : 10 ≤ n) : fmtDec n = fmtDec (n / 10) ++ [digitChar (n % 10)] := by
  rw [fmtDec, dif_neg (by omega)]

theorem fmtDec_split2 {n : Nat} (h : 100 ≤ n) :
    fmtDec n = fmtDec (n / 100) ++ [digitChar (n % 100 / 10), digitChar (n % 100 % 10)] := by
  rw [fmtDec_snoc (by omega : 10 ≤ n), fmtDec_snoc (by omega : 10 ≤ n / 10)]
  have h1 : n / 10 / 10 = n / 100 := by omega
  have h2 : n / 10 % 10 = n % 100 / 10 := by omega
  have h3 : n % 10 = n % 100 % 10 := by omega
  rw [h1, h2, ← h3]
  simp

theorem fmtDec_two {n : Nat} (h1 : 10 ≤ n) (h2 : n < 100) : fmtDec n = [digitChar (n / 10), digitChar (n % 10)] := by
  rw [fmtDec_snoc h1, fmtDec_small (by omega : n / 10 < 10)]
  rfl

theorem fmtDec_split4 {n : Nat} (h : 10000 ≤ n) :
    fmtDec n = fmtDec (n / 10000) ++ (lut2 ((n % 10000 / 100) <<< 1) ++ lut2 ((n % 10000 % 100) <<< 1)) := by
  rw [fmtDec_split2 (by omega : 100 ≤ n), fmtDec_split2 (by omega : 100 ≤ n / 100),
    lut2_pair _ (by omega), lut2_pair _ (by omega)]
  have h1 : n / 100 / 100 = n / 10000 := by omega
  have h2 : n / 100 % 100 = n % 10000 / 100 := by omega
  have h3 : n % 100 = n % 10000 % 100 := by omega
  rw [h1, h2, h3]
  simp

theorem fmtDec_length_le : ∀ (k n : Nat), n < 10 ^ (k + 1) → (fmtDec n).length ≤ k + 1 := by
  intro k
  induction k with
  | zero => intro n h; rw [fmtDec_small (by simpa using h)]; simp
  | succ k ih =>
    intro n h
    by_cases h10 : n < 10
    · rw [fmtDec_small h10]; simp
    · rw [fmtDec_snoc (by omega)]
      have : n / 10 < 10 ^ (k + 1) := by
        rw [Nat.pow_succ] at h
        exact Nat.div_lt_of_lt_mul (by rw [Nat.mul_comm]; exact h)
      have := ih (n / 10) this
      simp only [List.length_append, List.length_singleton]
      omega

/-! ## the magnitude -/

theorem magnitude_eq (v : Int) (hlo : -9223372036854775808 ≤ v) (hhi : v < 9223372036854775808) :
    magnitude v = v.natAbs := by
  unfold magnitude asU64 wrappingAdd notU64 u64Mod
  by_cases h : 0 ≤ v
  · rw [if_pos h]; omega
  · rw [if_neg h]; omega

/-! ## the loop -/

theorem loop4_spec (n : Nat) (out : Bytes) :
    (loop4 n out).1 < 10000 ∧ fmtDec (loop4 n out).1 ++ (loop4 n out).2 = fmtDec n ++ out := by
  induction n using Nat.strongRecOn generalizing out with
  | _ n ih =>
    rw [loop4]
    by_cases h : 10000 ≤ n
    · rw [dif_pos h]
      have := ih (n / 10000) (by omega)
        (lut2 ((n % 10000 / 100) <<< 1) ++ (lut2 ((n % 10000 % 100) <<< 1) ++ out))
      refine ⟨this.1, ?_⟩
      rw [this.2, fmtDec_split4 h]
      simp only [List.append_assoc]
    · rw [dif_neg h]
      exact ⟨by simpa using h, rfl⟩

theorem step2_spec (p : Nat × Bytes) (hp : p.1 < 10000) :
    (step2 p).1 < 100 ∧ fmtDec (step2 p).1 ++ (step2 p).2 = fmtDec p.1 ++ p.2 := by
  unfold step2
  by_cases h : 100 ≤ p.1
  · rw [if_pos h]
    refine ⟨by show p.1 / 100 < 100; omega, ?_⟩
    show fmtDec (p.1 / 100) ++ (lut2 ((p.1 % 100) <<< 1) ++ p.2) = fmtDec p.1 ++ p.2
    rw [fmtDec_split2 h, lut2_pair _ (by omega)]
    simp only [List.append_assoc]
  · rw [if_neg h]
    exact ⟨by omega, rfl⟩

theorem digit_byte {n : Nat} (h : n < 10) : UInt8.ofNat n + 48 = digitChar n := by
  have : n = 0 ∨ n = 1 ∨ n = 2 ∨ n = 3 ∨ n = 4 ∨ n = 5 ∨ n = 6 ∨ n = 7 ∨ n = 8 ∨ n = 9 := by omega
  rcases this with rfl | rfl | rfl | rfl | rfl | rfl | rfl | rfl | rfl | rfl <;> rfl

theorem last_spec (p : Nat × Bytes) (hp : p.1 < 100) : last p = fmtDec p.1 ++ p.2 := by
  unfold last
  by_cases h : p.1 < 10
  · rw [if_pos h, fmtDec_small h, digit_byte h]; rfl
  · rw [if_neg h, lut2_pair _ hp, fmtDec_two (by omega) hp]

/-- the digits `write` produces for the magnitude `n` -/
theorem digits_eq (n : Nat) : last (step2 (loop4 n [])) = fmtDec n := by
  have h1 := loop4_spec n []
  have h2 := step2_spec (loop4 n []) h1.1
  rw [last_spec _ h2.1, h2.2, h1.2, List.append_nil]

/-- `itoa` writes the decimal text of every `i64` -/
theorem write_eq_fmtLong (v : Int) (hlo : -9223372036854775808 ≤ v) (hhi : v < 9223372036854775808) :
    write v = fmtLong v := by
  unfold write fmtLong
  simp only [digits_eq, magnitude_eq v hlo hhi]
  by_cases h : 0 ≤ v
  · rw [if_pos h, if_neg (by omega)]
  · rw [if_neg h, if_pos (by omega)]

/-- … of at most 20 bytes (`i64::MAX_STR_LEN`): `curr` never passes the start of the buffer -/
theorem write_length_le (v : Int) (hlo : -9223372036854775808 ≤ v) (hhi : v < 9223372036854775808) :
    (write v).length ≤ 20 := by
  rw [write_eq_fmtLong v hlo hhi]
  unfold fmtLong
  have := fmtDec_length_le 18 v.natAbs (by omega)
  split <;> (try simp only [List.length_cons]) <;> omega

end S3V.Itoa
