import S3V.Model.HttpBody
import S3V.Thm.XmlToken
import S3V.Thm.XmlTokenEnc
/-!
# Lemmas: the body helpers of `http/de.rs` / `http/ser.rs` over the XML codec

* the reader skips the XML declaration `set_xml_body` writes (`tokenize_decl_write`);
* what `T::serialize` writes under any root is a well-nested event sequence (`WN_encodeDoc`), so `deserialize_xml`
  over the bytes of `set_xml_body[_no_decl]` sees the written events (`deEvents_setXmlBody`);
* that body is never empty (`setXmlBody_ne_nil`).
-/
namespace S3V.Xml

/-- `?xml version="1.0" encoding="UTF-8"?>` — the declaration without its `<` -/
def declTail : Bytes := [63, 120, 109, 108, 32, 118, 101, 114, 115, 105, 111, 110, 61, 34, 49, 46, 48, 34, 32, 101, 110, 99, 111,
   100, 105, 110, 103, 61, 34, 85, 84, 70, 45, 56, 34, 63, 62]

theorem xmlDecl_eq : xmlDecl = cLt :: declTail := by decide

/-- quick-xml reads `<?xml version="1.0" encoding="UTF-8"?>` as one `Decl` event, whatever follows -/
theorem markup_decl (w : Bytes) (st : List Bytes) : markup (declTail ++ w) st = some (.decl, w, st) := by
  simp [declTail, markup, bangEnd, cGt, startsWith]
  decide

/-- `Deserializer` over `<?xml …?>` followed by written events sees the written events (the declaration is skipped) -/
theorem tokenize_decl_write (evs : List Ev) (h : WN [] evs) :
    deEvents (tokenize (xmlDecl ++ write evs)) = evs := by
  have hb : stripBom (xmlDecl ++ write evs) = xmlDecl ++ write evs := by
    simp [xmlDecl, stripBom]
  unfold tokenize
  rw [hb, xmlDecl_eq]
  have hr := tokLoop_round ((declTail ++ write evs).length + 1) [] (declTail ++ write evs) [] [] .decl (write evs)
    (by simp) (markup_decl _ _)
  simp only [List.nil_append] at hr
  have hl : (cLt :: declTail ++ write evs).length + 1 = (declTail ++ write evs).length + 1 + 1 := by simp
  rw [hl, List.cons_append, hr, tokLoop_write evs [] _ h (by simp; omega)]
  simp only [if_true, List.nil_append, deEvents, deEventsAt]
  exact deEvents_toQ evs [] h

/-- what `T::serialize` writes is well nested and starts with a tag -/
theorem WN_encodeDoc (root : SerRoot) (s : Sch) (v : Val) (hr : root.tagsGood = true) (hs : s.tagsGood = true) :
    WN [] (encodeDoc root s v) ∧ headNotText (encodeDoc root s v) = true := by
  have hnil : WN [] [] := trivial
  cases root with
  | named tag ns =>
    simp only [SerRoot.tagsGood] at hr
    refine ⟨?_, by simp [encodeDoc, headNotText, Ev.isTextB]⟩
    simp only [encodeDoc, WN]
    refine ⟨hr, goodRest_ns_encAttrs ns s v hs, ?_⟩
    exact WN_encode s v hs [tag] (by simp) [.stop tag] (WN_stop [] tag [] hr hnil) (by simp [headNotText, Ev.isTextB])
  | nested o i ns =>
    simp only [SerRoot.tagsGood, Bool.and_eq_true] at hr
    refine ⟨?_, by simp [encodeDoc, headNotText, Ev.isTextB]⟩
    simp only [encodeDoc, WN, List.cons_append]
    refine ⟨hr.1, goodRest_nsAttr ns, ?_⟩
    have := WN_elemA [o] i (encAttrs s v) (encode s v) [.stop o] hr.2 (goodRest_encAttrs s v hs)
      (WN_encode s v hs [i, o] (by simp) [.stop i, .stop o] (WN_stop [o] i [.stop o] hr.2 (WN_stop [] o [] hr.1 hnil))
        (by simp [headNotText, Ev.isTextB]))
    simpa using this
  | location tag ns =>
    simp only [SerRoot.tagsGood] at hr
    have key : (∃ b, encodeDoc (.location tag ns) s v = .start tag (nsAttr ns) :: (textEv (escapeText b) ++ [.stop tag])) ∨
        encodeDoc (.location tag ns) s v = [.start tag (nsAttr ns), .stop tag] := by
      simp only [encodeDoc]
      split
      · exact Or.inl ⟨_, rfl⟩
      · exact Or.inr rfl
    rcases key with ⟨b, hb⟩ | hb
    · rw [hb]
      refine ⟨?_, by simp [headNotText, Ev.isTextB]⟩
      simp only [WN]
      exact ⟨hr, goodRest_nsAttr ns, WN_textEv [tag] (by simp) _ [.stop tag] (WN_stop [] tag [] hr hnil)
        (by simp [headNotText, Ev.isTextB])⟩
    · rw [hb]
      refine ⟨?_, by simp [headNotText, Ev.isTextB]⟩
      simp only [WN]
      exact ⟨hr, goodRest_nsAttr ns, hr, [], rfl, trivial⟩

end S3V.Xml

namespace S3V.HttpBody
open S3V S3V.Xml

/-- `Deserializer` over the body `set_xml_body` / `set_xml_body_no_decl` wrote sees exactly the events `T::serialize`
    wrote — with or without the XML declaration in front -/
theorem deEvents_setXmlBody (decl : Bool) (root : SerRoot) (s : Sch) (v : Val) (hr : root.tagsGood = true)
    (hs : s.tagsGood = true) :
    deEvents (tokenize (setXmlBody decl root s v)) = encodeDoc root s v := by
  obtain ⟨hwn, hh⟩ := WN_encodeDoc root s v hr hs
  cases decl with
  | true => simpa [setXmlBody] using tokenize_decl_write _ hwn
  | false => simpa [setXmlBody] using tokenize_write _ hh hwn

/-- a written document is not the empty body -/
theorem setXmlBody_ne_nil (decl : Bool) (root : SerRoot) (s : Sch) (v : Val) :
    (setXmlBody decl root s v).isEmpty = false := by
  have h : ∃ n a t, encodeDoc root s v = .start n a :: t := by
    cases root with
    | named tag ns => exact ⟨_, _, _, rfl⟩
    | nested o i ns => exact ⟨_, _, _, rfl⟩
    | location tag ns =>
      simp only [encodeDoc]
      split <;> exact ⟨_, _, _, rfl⟩
  obtain ⟨n, a, t, ht⟩ := h
  cases decl <;> simp [setXmlBody, ht, write_cons, writeEv, xmlDecl]

/-- `deserialize_xml` is the document decoder over the events the reader yields -/
theorem deserializeXml_of_decodeDoc {X : Ext} {root : DeRoot} {s : Sch} {bytes : Bytes} {v : Val}
    (h : decodeDoc X root s (deEvents (tokenize bytes)) = .ok v) : deserializeXml X root s bytes = .ok v := by
  simp only [deserializeXml, h]

/-- `take_xml_body` on a non-empty body is `deserialize_xml` -/
theorem takeXmlBody_of_ne_nil {X : Ext} {root : DeRoot} {s : Sch} {body : Bytes} (h : body.isEmpty = false) :
    takeXmlBody X root s body = deserializeXml X root s body := by
  simp only [takeXmlBody, h, Bool.false_eq_true, if_false]

/-- `take_opt_xml_body`: the empty body is the absent member -/
theorem takeOptXmlBody_nil (X : Ext) (root : DeRoot) (s : Sch) : takeOptXmlBody X root s [] = .ok none := by
  simp [takeOptXmlBody]

theorem takeOptXmlBody_of_ok {X : Ext} {root : DeRoot} {s : Sch} {body : Bytes} {v : Val} (h : body.isEmpty = false)
    (hd : deserializeXml X root s body = .ok v) : takeOptXmlBody X root s body = .ok (some v) := by
  simp only [takeOptXmlBody, h, Bool.false_eq_true, if_false, hd]

end S3V.HttpBody
