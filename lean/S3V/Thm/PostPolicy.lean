import S3V.Model.PostPolicy
import S3V.Spec.PostPolicy
import S3V.Model.SigV4
import S3V.Thm.DtoTimestampText
import S3V.Thm.SigV4Order
/-!
# Lemmas: the model of `post_policy.rs` refines the POST-policy specification

`M` = `S3V.PostPolicyModel` (mirror of the Rust), `Sp` = `S3V.PostPolicy` (from the AWS document).
1. decoding: whatever the visitors accept, the specification reads as the same policy (same instant, given that the
   instant reader agrees with `time`'s RFC 3339 parser on the expiration text; same conditions);
2. evaluation: `check_fields` on the lower-cased, sorted field list and `check_content_length` imply that the
   specification finds no defect on the form as sent.
-/
namespace S3V.PostPolicyThm
open S3V S3V.Policy

abbrev MCond := S3V.PostPolicyModel.Cond
abbrev SCond := S3V.PostPolicy.Cond

def toSpec : MCond → SCond
  | .eq f v => .eq f v
  | .startsWith f p => .startsWith f p
  | .lengthRange a b => .lengthRange a b

/-! ## the duplicated helpers are the same functions -/

theorem lower_eq : PostPolicyModel.lower = PostPolicy.lower := rfl
theorem lower_eq' : S3V.SigV4.lower = PostPolicy.lower := rfl
theorem allDigits_eq : PostPolicyModel.allDigits = PostPolicy.allDigits := rfl
theorem decVal_eq : PostPolicyModel.decVal = PostPolicy.decVal := rfl
theorem fieldRef_eq : PostPolicyModel.fieldRef = PostPolicy.fieldRef := rfl
theorem startsWithB_eq : PostPolicyModel.startsWithB = PostPolicy.startsWithB := by
  funext p s
  induction p generalizing s with
  | nil => cases s <;> rfl
  | cons a as ih =>
    cases s with
    | nil => rfl
    | cons b bs => simp [PostPolicyModel.startsWithB, PostPolicy.startsWithB, ih]

/-! ## decoding -/

theorem boundOf_refines {j : Json} {n : Nat} (h : PostPolicyModel.boundOf j = some n) : PostPolicy.boundOf j = some n := by
  cases j <;> simp only [PostPolicyModel.boundOf, PostPolicy.boundOf] at h ⊢
  all_goals first
    | (rw [allDigits_eq, decVal_eq] at h
       split at h
       · rename_i hc
         simp only [Bool.and_eq_true] at hc
         simp [hc.1]
         simpa using h
       · cases h)
    | cases h

theorem mapM_obj_refines (ms : List (Bytes × Json)) (cs : List MCond)
    (h : ms.mapM (fun (kv : Bytes × Json) => match kv.2 with
        | .str s => some (PostPolicyModel.Cond.eq (PostPolicyModel.lower kv.1) s)
        | _ => none) = some cs) :
    ms.mapM (fun (kv : Bytes × Json) => match kv.2 with
        | .str s => some (PostPolicy.Cond.eq (PostPolicy.lower kv.1) s)
        | _ => none) = some (cs.map toSpec) := by
  induction ms generalizing cs with
  | nil => simp at h; subst h; simp
  | cons kv rest ih =>
    obtain ⟨k, v⟩ := kv
    simp only [List.mapM_cons] at h ⊢
    cases v with
    | str s =>
      simp only [Option.pure_def, Option.bind_eq_bind, Option.bind_some] at h ⊢
      cases hr : rest.mapM (fun (kv : Bytes × Json) => match kv.2 with
        | .str s => some (PostPolicyModel.Cond.eq (PostPolicyModel.lower kv.1) s)
        | _ => none) with
      | none => rw [hr] at h; simp at h
      | some cs' =>
        rw [hr] at h
        simp at h
        subst h
        rw [ih cs' hr]
        simp [toSpec, lower_eq]
    | _ => simp at h


theorem sEq_ne_sStartsWith : PostPolicy.sEq ≠ PostPolicy.sStartsWith := by decide
theorem sEq_ne_sLengthRange : PostPolicy.sEq ≠ PostPolicy.sLengthRange := by decide
theorem sStartsWith_ne_sLengthRange : PostPolicy.sStartsWith ≠ PostPolicy.sLengthRange := by decide

/-- one element of `conditions`: what `ConditionGroup::deserialize` accepts, the specification reads as the same conditions -/
theorem condGroup_refines {j : Json} {cs : List MCond} (h : PostPolicyModel.condGroup j = some cs) :
    PostPolicy.condsOf j = some (cs.map toSpec) := by
  cases j with
  | obj ms =>
    simp only [PostPolicyModel.condGroup, PostPolicy.condsOf] at h ⊢
    split at h
    · cases h
    · rename_i hne
      simp only [hne, if_false]
      exact mapM_obj_refines ms cs h
  | arr l =>
    cases l with
    | nil => simp [PostPolicyModel.condGroup] at h
    | cons a rest =>
      cases a with
      | str op =>
        simp only [PostPolicyModel.condGroup] at h
        change (if op = PostPolicy.sEq then _ else if op = PostPolicy.sStartsWith then _
          else if op = PostPolicy.sLengthRange then _ else none) = some cs at h
        by_cases h1 : op = PostPolicy.sEq
        · rw [if_pos h1] at h
          subst h1
          split at h
          · rename_i f v
            rw [fieldRef_eq] at h
            simp only [PostPolicy.condsOf, if_true]
            cases hf : PostPolicy.fieldRef f with
            | none => rw [hf] at h; cases h
            | some n => rw [hf] at h; simp at h; subst h; simp [toSpec]
          · cases h
        · rw [if_neg h1] at h
          by_cases h2 : op = PostPolicy.sStartsWith
          · rw [if_pos h2] at h
            subst h2
            split at h
            · rename_i f v
              rw [fieldRef_eq] at h
              simp only [PostPolicy.condsOf, if_neg (Ne.symm sEq_ne_sStartsWith), if_true]
              cases hf : PostPolicy.fieldRef f with
              | none => rw [hf] at h; cases h
              | some n => rw [hf] at h; simp at h; subst h; simp [toSpec]
            · cases h
          · rw [if_neg h2] at h
            by_cases h3 : op = PostPolicy.sLengthRange
            · rw [if_pos h3] at h
              subst h3
              split at h
              · rename_i lo hi
                cases hlo : PostPolicyModel.boundOf lo with
                | none => rw [hlo] at h; cases h
                | some a =>
                  cases hhi : PostPolicyModel.boundOf hi with
                  | none => rw [hlo, hhi] at h; cases h
                  | some b =>
                    rw [hlo, hhi] at h
                    simp at h
                    subst h
                    have ha := boundOf_refines hlo
                    have hb := boundOf_refines hhi
                    cases lo <;> cases hi <;>
                      first
                      | (simp [PostPolicy.boundOf] at ha; done)
                      | (simp [PostPolicy.boundOf] at hb; done)
                      | simp [PostPolicy.condsOf, Ne.symm sEq_ne_sLengthRange, Ne.symm sStartsWith_ne_sLengthRange,
                          ha, hb, toSpec]
              · cases h
            · rw [if_neg h3] at h
              cases h
      | _ => simp [PostPolicyModel.condGroup] at h
  | _ => simp [PostPolicyModel.condGroup] at h

theorem mapM_condGroup_refines (l : List Json) (css : List (List MCond))
    (h : l.mapM PostPolicyModel.condGroup = some css) :
    l.mapM PostPolicy.condsOf = some (css.map (List.map toSpec)) := by
  induction l generalizing css with
  | nil => simp at h; subst h; simp
  | cons j rest ih =>
    simp only [List.mapM_cons, Option.pure_def, Option.bind_eq_bind] at h ⊢
    cases hj : PostPolicyModel.condGroup j with
    | none => rw [hj] at h; simp at h
    | some cs =>
      rw [hj] at h
      simp only [Option.bind_some] at h
      cases hr : rest.mapM PostPolicyModel.condGroup with
      | none => rw [hr] at h; simp at h
      | some css' =>
        rw [hr] at h
        simp at h
        subst h
        rw [condGroup_refines hj, ih css' hr]
        simp

theorem member_of_filter_singleton (ms : List (Bytes × Json)) (name : Bytes) (x : Json)
    (h : (ms.filter fun m => m.1 = name).map (·.2) = [x]) : PostPolicy.member ms name = some x := by
  unfold PostPolicy.member
  rw [← List.head?_filter]
  cases hf : ms.filter (fun m => decide (m.1 = name)) with
  | nil => rw [hf] at h; simp at h
  | cons y ys =>
    rw [hf] at h
    simp at h
    simp [h.1]

/-- the policy document: what `PostPolicy::deserialize` accepts, the specification reads as the same policy, for every
    reader `rd` of the expiration text that agrees with `time`'s RFC 3339 parser where that parser succeeds -/
theorem ofJson_refines (rd : Bytes → Option Int)
    (hrd : ∀ e t, Dto.parseRfc3339 e = some t → rd e = some t.unix)
    {j : Json} {pm : PostPolicyModel.Policy} (h : PostPolicyModel.ofJson j = some pm) :
    PostPolicy.ofJsonWith rd j = some ⟨pm.expUnix, pm.conditions.map toSpec⟩ := by
  cases j with
  | obj ms =>
    simp only [PostPolicyModel.ofJson] at h
    split at h
    · rename_i e cs he hc
      cases ht : Dto.parseRfc3339 e with
      | none => rw [ht] at h; simp at h
      | some t =>
        cases hm : cs.mapM PostPolicyModel.condGroup with
        | none => rw [ht, hm] at h; simp at h
        | some css =>
          rw [ht, hm] at h
          simp at h
          subst h
          have he' : PostPolicy.member ms PostPolicy.sExpiration = some (Json.str e) :=
            member_of_filter_singleton ms _ _ he
          have hc' : PostPolicy.member ms PostPolicy.sConditions = some (Json.arr cs) :=
            member_of_filter_singleton ms _ _ hc
          simp only [PostPolicy.ofJsonWith, he', hc', hrd e t ht, mapM_condGroup_refines cs css hm]
          simp [List.map_flatten]
    · cases h
  | _ => simp [PostPolicyModel.ofJson] at h

theorem fromBase64_refines (rd : Bytes → Option Int)
    (hrd : ∀ e t, Dto.parseRfc3339 e = some t → rd e = some t.unix)
    {pol : Bytes} {pm : PostPolicyModel.Policy} (h : PostPolicyModel.fromBase64 pol = some pm) :
    PostPolicy.decodeWith rd pol = some ⟨pm.expUnix, pm.conditions.map toSpec⟩ := by
  unfold PostPolicyModel.fromBase64 at h
  unfold PostPolicy.decodeWith
  cases hb : Crypto.base64Decode pol with
  | none => rw [hb] at h; cases h
  | some text =>
    rw [hb] at h
    simp only at h ⊢
    cases hj : JsonText.parse text with
    | none => rw [hj] at h; cases h
    | some j =>
      rw [hj] at h
      exact ofJson_refines rd hrd h


/-! ## the expiration instant -/

/-- `Timestamp::parse(DateTime)` yields a nanosecond below one second (proved with the timestamp lemmas) -/
theorem parseRfc3339_nanos_lt {e : Bytes} {t : Dto.Ts} (h : Dto.parseRfc3339 e = some t) : t.nanos < 1000000000 :=
  Dto.parseRfc3339_nanos_lt h

/-- `now > expiration` on `OffsetDateTime`s (nanosecond precision) is at least as strict as the specification's comparison
    of whole seconds -/
theorem not_expired_seconds {nowNs unix : Int} {nanos : Nat} (hn : nanos < 1000000000)
    (h : ¬ nowNs > unix * 1000000000 + (nanos : Int)) : ¬ nowNs / 1000000000 > unix := by
  omega

/-! ## evaluation -/

/-- the values a condition is matched against: `Multipart::fields()` (lower-cased, stably sorted) filtered by the exact
    name are the values of the form fields of that name, case ignored, in form order -/
theorem model_values (form : List (Bytes × Bytes)) (field : Bytes) :
    ((SigV4.multipartFields form).filter fun p => p.1 = field).map (·.2) =
      (form.filter fun f => PostPolicy.lower f.1 = field).map (·.2) := by
  unfold SigV4.multipartFields
  rw [SigV4.filter_sortByFirst, List.filter_map, List.map_map]
  rfl

theorem holds_iff (bucket : Bytes) (form : List (Bytes × Bytes)) (field : Bytes) (f : Bytes → Bool) :
    PostPolicyModel.holds bucket (SigV4.multipartFields form) field f =
      (let vs := PostPolicy.valuesOf form bucket field; !(vs = []) && vs.all f) := by
  unfold PostPolicyModel.holds PostPolicy.valuesOf
  change (if field = PostPolicy.sBucket then _ else _) = _
  by_cases hb : field = PostPolicy.sBucket
  · simp [hb]
  · simp only [if_neg hb]
    rw [model_values]
    cases (form.filter fun f => PostPolicy.lower f.1 = field).map (·.2) with
    | nil => simp
    | cons v vs => simp

theorem condHolds_spec (bucket : Bytes) (form : List (Bytes × Bytes)) (c : MCond)
    (h : PostPolicyModel.condHolds bucket (SigV4.multipartFields form) c = true) :
    PostPolicy.isEqViolated form bucket (toSpec c) = false ∧ PostPolicy.isStartsViolated form bucket (toSpec c) = false := by
  cases c with
  | eq f v =>
    simp only [PostPolicyModel.condHolds, holds_iff] at h
    simp only [toSpec, PostPolicy.isEqViolated, PostPolicy.isStartsViolated, and_true]
    simp only [Bool.and_eq_true, Bool.not_eq_true', List.all_eq_true, decide_eq_true_eq, decide_eq_false_iff_not] at h
    simp only [Bool.or_eq_false_iff, decide_eq_false_iff_not, List.any_eq_false, decide_eq_true_eq, ne_eq]
    exact ⟨h.1, fun x hx hne => hne (h.2 x hx)⟩
  | startsWith f p =>
    simp only [PostPolicyModel.condHolds] at h
    simp only [toSpec, PostPolicy.isEqViolated, PostPolicy.isStartsViolated, true_and]
    by_cases hp : p = []
    · simp [hp]
    · simp only [if_neg hp, holds_iff, startsWithB_eq] at h
      simp only [if_neg hp]
      simp only [Bool.and_eq_true, Bool.not_eq_true', List.all_eq_true, decide_eq_false_iff_not] at h
      simp only [Bool.or_eq_false_iff, decide_eq_false_iff_not, List.any_eq_false, Bool.not_eq_true', Bool.not_eq_false]
      exact ⟨h.1, h.2⟩
  | lengthRange a b => simp [toSpec, PostPolicy.isEqViolated, PostPolicy.isStartsViolated]

theorem checkContentLength_spec (len : Nat) (cs : List MCond) (h : PostPolicyModel.checkContentLength len cs = .ok) :
    (cs.map toSpec).any (PostPolicy.isLengthViolated len) = false := by
  induction cs with
  | nil => rfl
  | cons c rest ih =>
    cases c with
    | lengthRange lo hi =>
      simp only [PostPolicyModel.checkContentLength] at h
      split at h
      · cases h
      · split at h
        · cases h
        · rename_i h1 h2
          simp only [List.map_cons, List.any_cons, toSpec, PostPolicy.isLengthViolated, ih h, Bool.or_false]
          simp
          omega
    | eq f v => simpa [PostPolicyModel.checkContentLength, toSpec, PostPolicy.isLengthViolated] using ih h
    | startsWith f p => simpa [PostPolicyModel.checkContentLength, toSpec, PostPolicy.isLengthViolated] using ih h

theorem exempt_spec (n : Bytes) : PostPolicy.exempt n = PostPolicyModel.exempt (PostPolicy.lower n) := by
  unfold PostPolicy.exempt PostPolicyModel.exempt
  rw [startsWithB_eq]
  rfl

theorem covers_spec (n : Bytes) (c : MCond) : PostPolicy.covers n (toSpec c) = PostPolicyModel.covers (PostPolicy.lower n) c := by
  cases c <;> simp [toSpec, PostPolicy.covers, PostPolicyModel.covers]

theorem coverage_spec (form : List (Bytes × Bytes)) (cs : List MCond)
    (h : (SigV4.multipartFields form).all (fun f => PostPolicyModel.exempt f.1 || cs.any (PostPolicyModel.covers f.1)) = true) :
    form.any (fun f => !PostPolicy.exempt f.1 && !((cs.map toSpec).any (PostPolicy.covers f.1))) = false := by
  rw [List.any_eq_false]
  intro f hf
  rw [List.all_eq_true] at h
  have hm : (PostPolicy.lower f.1, f.2) ∈ SigV4.multipartFields form := by
    unfold SigV4.multipartFields
    rw [SigV4.mem_sortByFirst]
    exact List.mem_map.mpr ⟨f, hf, rfl⟩
  have := h _ hm
  simp only [exempt_spec, List.any_map]
  simp only [Bool.or_eq_true] at this
  rcases this with he | hc
  · simp [he]
  · have : (cs.any ((PostPolicy.covers f.1) ∘ toSpec)) = true := by
      rw [List.any_eq_true] at hc ⊢
      obtain ⟨c, hc1, hc2⟩ := hc
      exact ⟨c, hc1, by simpa [Function.comp, covers_spec] using hc2⟩
    simp [this]

/-- `check_fields` ∧ `check_content_length` ⇒ the specification finds no defect in the upload -/
theorem evaluation_refines (nowNs : Int) (pm : PostPolicyModel.Policy) (hn : pm.expNanos < 1000000000)
    (bucket : Bytes) (form : List (Bytes × Bytes)) (fileLen : Nat)
    (hf : PostPolicyModel.checkFields nowNs pm bucket (SigV4.multipartFields form) = true)
    (hl : PostPolicyModel.checkContentLength fileLen pm.conditions = .ok) :
    PostPolicy.defectOf (nowNs / 1000000000) ⟨pm.expUnix, pm.conditions.map toSpec⟩ form bucket fileLen = none := by
  unfold PostPolicyModel.checkFields at hf
  simp only [Bool.and_eq_true, Bool.not_eq_true', decide_eq_false_iff_not] at hf
  obtain ⟨⟨hexp, hconds⟩, hcov⟩ := hf
  have h1 : ¬ nowNs / 1000000000 > pm.expUnix := not_expired_seconds hn hexp
  have h2 : (pm.conditions.map toSpec).any (PostPolicy.isEqViolated form bucket) = false := by
    rw [List.any_eq_false]
    intro c hc
    obtain ⟨c', hc', rfl⟩ := List.mem_map.mp hc
    rw [(condHolds_spec bucket form c' (List.all_eq_true.mp hconds c' hc')).1]
    simp
  have h3 : (pm.conditions.map toSpec).any (PostPolicy.isStartsViolated form bucket) = false := by
    rw [List.any_eq_false]
    intro c hc
    obtain ⟨c', hc', rfl⟩ := List.mem_map.mp hc
    rw [(condHolds_spec bucket form c' (List.all_eq_true.mp hconds c' hc')).2]
    simp
  have h4 := checkContentLength_spec fileLen pm.conditions hl
  have h5 := coverage_spec form pm.conditions hcov
  unfold PostPolicy.defectOf
  simp only [h1, h2, h3, h4, h5, if_false, Bool.false_eq_true]

end S3V.PostPolicyThm
