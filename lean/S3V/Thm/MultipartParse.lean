import S3V.Model.Multipart
/-!
# Lemmas: `try_parse` on a buffer and on an extension of that buffer (C09d)

Every scanner of the model is shown *prefix-stable*: once it has returned something other than
"need more data" on `s`, it returns the same on `s ++ q` (with `q` appended to the unconsumed rest).
The one exception in the code is `CrlfLines::split_to`, which takes an unterminated trailing piece for a
line: `splitTo_append` needs `r ≠ [] ∨ ¬ pat <:+ s`.
-/
namespace S3V.Multipart
open S3V

/-! ## `splitCrlf`, `nextLine`, `nextTerminatedLine` -/

theorem splitCrlf_eq_some : ∀ {s l r : Bytes}, splitCrlf s = some (l, r) → s = l ++ 13 :: 10 :: r := by
  intro s
  fun_induction splitCrlf s with
  | case1 => intro l r h; cases h
  | case2 => intro l r h; cases h
  | case3 a b t hab =>
    intro l r h
    cases h
    simp [hab.1, hab.2]
  | case4 a b t hab l' r' heq ih =>
    intro l r h
    cases h
    simp [ih heq]
  | case5 a b t hab heq ih => intro l r h; cases h

theorem splitCrlf_append : ∀ {p l r : Bytes} (q : Bytes), splitCrlf p = some (l, r) →
    splitCrlf (p ++ q) = some (l, r ++ q) := by
  intro p
  fun_induction splitCrlf p with
  | case1 => intro l r q h; cases h
  | case2 => intro l r q h; cases h
  | case3 a b t hab =>
    intro l r q h
    cases h
    simp [splitCrlf, hab]
  | case4 a b t hab l' r' heq ih =>
    intro l r q h
    cases h
    have := ih q heq
    simp only [List.cons_append] at this ⊢
    rw [splitCrlf, if_neg hab, this]
  | case5 a b t hab heq ih => intro l r q h; cases h

/-- a CRLF anywhere makes `splitCrlf` succeed -/
theorem splitCrlf_isSome_of_crlf : ∀ (l r : Bytes), (splitCrlf (l ++ 13 :: 10 :: r)).isSome = true
  | [], r => by simp [splitCrlf]
  | [a], r => by
    simp only [List.cons_append, List.nil_append]
    rw [splitCrlf]
    split
    · rfl
    · simp [splitCrlf]
  | a :: b :: t, r => by
    have ih := splitCrlf_isSome_of_crlf (b :: t) r
    simp only [List.cons_append] at ih ⊢
    rw [splitCrlf]
    split
    · rfl
    · cases h : splitCrlf (b :: (t ++ 13 :: 10 :: r)) with
      | none => rw [h] at ih; cases ih
      | some x => rfl

theorem endsWithCrlf_iff (s : Bytes) : endsWithCrlf s = true ↔ ∃ l, s = l ++ [13, 10] := by
  unfold endsWithCrlf
  simp only [decide_eq_true_eq]
  constructor
  · intro h
    refine ⟨s.take (s.length - 2), ?_⟩
    rw [← h, List.take_append_drop]
  · rintro ⟨l, rfl⟩
    simp

/-- `next_terminated_line` is "split at the first CRLF, else nothing" -/
theorem nextTerminatedLine_eq (s : Bytes) : nextTerminatedLine s = splitCrlf s := by
  unfold nextTerminatedLine nextLine
  cases h : splitCrlf s with
  | some x =>
    obtain ⟨l, r⟩ := x
    simp only
    have hs := splitCrlf_eq_some h
    by_cases hr : r = []
    · subst hr
      have : endsWithCrlf s = true := (endsWithCrlf_iff s).mpr ⟨l, hs⟩
      simp [this]
    · simp [hr]
  | none =>
    simp only
    by_cases hs : s = []
    · simp [hs]
    · rw [if_neg hs]
      simp only [true_and]
      have : endsWithCrlf s = false := by
        cases he : endsWithCrlf s with
        | false => rfl
        | true =>
          obtain ⟨l, hl⟩ := (endsWithCrlf_iff s).mp he
          have := splitCrlf_isSome_of_crlf l []
          rw [← hl, h] at this
          cases this
      simp [this]


theorem span_append_of_ne_nil {p : UInt8 → Bool} : ∀ {s : Bytes} (q : Bytes), s.dropWhile p ≠ [] →
    (s ++ q).dropWhile p = s.dropWhile p ++ q ∧ (s ++ q).takeWhile p = s.takeWhile p
  | [], q, h => by simp at h
  | c :: cs, q, h => by
    by_cases hc : p c = true
    · have h' : cs.dropWhile p ≠ [] := by simpa [List.dropWhile, hc] using h
      have := span_append_of_ne_nil q h'
      simp [List.dropWhile, List.takeWhile, hc, this.1, this.2]
    · simp [List.dropWhile, List.takeWhile, hc]

def LineRes.ext (q : Bytes) : LineRes → LineRes
  | .more => .more
  | .error => .error
  | .line n v r => .line n v (r ++ q)

theorem lineEnd_append (n v r q : Bytes) (h : lineEnd n v r ≠ .more) :
    lineEnd n v (r ++ q) = (lineEnd n v r).ext q := by
  unfold lineEnd at h ⊢
  cases r with
  | nil => simp at h
  | cons c r1 =>
    simp only [List.cons_append]
    by_cases hc : c = 13
    · simp only [hc, if_true] at h ⊢
      cases r1 with
      | nil => simp at h
      | cons d r2 =>
        simp only [List.cons_append]
        by_cases hd : d = 10 <;> simp [hd, LineRes.ext]
    · simp only [hc, if_false]
      by_cases hc2 : c = 10 <;> simp [hc2, LineRes.ext]

theorem parseHeaderLine_append (s q : Bytes) (h : parseHeaderLine s ≠ .more) :
    parseHeaderLine (s ++ q) = (parseHeaderLine s).ext q := by
  unfold parseHeaderLine at h ⊢
  cases h1 : s.dropWhile isNameTok with
  | nil => simp [h1] at h
  | cons c r1 =>
    have hs := span_append_of_ne_nil (p := isNameTok) (s := s) q (by simp [h1])
    rw [hs.1, hs.2, h1]
    simp only [h1] at h
    simp only [List.cons_append]
    by_cases hc : c ≠ 58
    · simp [hc, LineRes.ext]
    · simp only [hc, if_false] at h ⊢
      cases h2 : r1.dropWhile isSpTab with
      | nil => simp [h2] at h
      | cons b r3 =>
        have hs2 := span_append_of_ne_nil (p := isSpTab) (s := r1) q (by simp [h2])
        rw [hs2.1, h2]
        simp only [h2] at h
        simp only [List.cons_append]
        by_cases hv : isValTok b = true
        · simp only [hv, if_true] at h ⊢
          by_cases h3 : (b :: r3).dropWhile isValTok = []
          · simp [h3, lineEnd] at h
          · have hs3 := span_append_of_ne_nil (p := isValTok) (s := b :: r3) q h3
            simp only [List.cons_append] at hs3
            rw [hs3.1, hs3.2]
            exact lineEnd_append _ _ _ _ h
        · simp only [hv, Bool.false_eq_true, if_false] at h ⊢
          by_cases hb : b = 13 ∨ b = 10
          · simp only [hb, if_true] at h ⊢
            exact lineEnd_append _ _ (b :: r3) q h
          · simp [hb, LineRes.ext]

def HStep.ext (q : Bytes) : HStep → HStep
  | .more => .more
  | .error => .error
  | .complete r => .complete (r ++ q)
  | .line n v r => .line n v (r ++ q)

theorem headerStep_append (s q : Bytes) (h : headerStep s ≠ .more) :
    headerStep (s ++ q) = (headerStep s).ext q := by
  unfold headerStep at h ⊢
  cases s with
  | nil => simp at h
  | cons b r =>
    simp only [List.cons_append] at h ⊢
    by_cases hb : b = 13
    · simp only [hb, if_true] at h ⊢
      cases r with
      | nil => simp at h
      | cons d r2 => by_cases hd : d = 10 <;> simp [hd, HStep.ext]
    · simp only [hb, if_false] at h ⊢
      by_cases hb2 : b = 10
      · simp [hb2, HStep.ext]
      · simp only [hb2, if_false] at h ⊢
        by_cases ht : isNameTok b = false
        · simp [ht, HStep.ext]
        · simp only [ht] at h ⊢
          have hl : parseHeaderLine (b :: r) ≠ .more := by
            intro hm; simp [hm] at h
          have := parseHeaderLine_append (b :: r) q hl
          simp only [List.cons_append] at this
          rw [this]
          cases parseHeaderLine (b :: r) <;> simp [LineRes.ext, HStep.ext]

def HRes.ext (q : Bytes) : HRes → HRes
  | .more => .more
  | .error => .error
  | .complete r h => .complete (r ++ q) h

theorem parseHeadersN_zero (s : Bytes) (acc : List (Bytes × Bytes)) :
    parseHeadersN 0 s acc = match headerStep s with
      | .more => .more | .error => .error | .complete r => .complete r acc | .line _ _ _ => .error := by
  unfold parseHeadersN
  cases headerStep s <;> rfl

theorem parseHeadersN_succ (k : Nat) (s : Bytes) (acc : List (Bytes × Bytes)) :
    parseHeadersN (k + 1) s acc = match headerStep s with
      | .more => .more | .error => .error | .complete r => .complete r acc
      | .line n v rest => parseHeadersN k rest (acc ++ [(n, v)]) := by
  conv => lhs; unfold parseHeadersN
  cases headerStep s <;> rfl

theorem parseHeadersN_append : ∀ (slots : Nat) (s q : Bytes) (acc : List (Bytes × Bytes)),
    parseHeadersN slots s acc ≠ .more → parseHeadersN slots (s ++ q) acc = (parseHeadersN slots s acc).ext q := by
  intro slots
  induction slots with
  | zero =>
    intro s q acc h
    have hs : headerStep s ≠ .more := by intro hm; rw [parseHeadersN_zero, hm] at h; exact h rfl
    rw [parseHeadersN_zero, parseHeadersN_zero, headerStep_append s q hs]
    cases headerStep s <;> simp [HStep.ext, HRes.ext]
  | succ k ih =>
    intro s q acc h
    have hs : headerStep s ≠ .more := by intro hm; rw [parseHeadersN_succ, hm] at h; exact h rfl
    rw [parseHeadersN_succ] at h
    rw [parseHeadersN_succ, parseHeadersN_succ, headerStep_append s q hs]
    cases hst : headerStep s with
    | more => exact absurd hst hs
    | error => simp [HStep.ext, HRes.ext]
    | complete r => simp [HStep.ext, HRes.ext]
    | line n v rest =>
      simp only [HStep.ext]
      simp only [hst] at h
      exact ih rest q _ h

theorem parseHeaders_append (s q : Bytes) (h : parseHeaders s ≠ .more) :
    parseHeaders (s ++ q) = (parseHeaders s).ext q := parseHeadersN_append 2 s q [] h

/-! ## `split_to` -/

theorem nextLine_cases (lines : Bytes) :
    (lines = [] ∧ nextLine lines = none) ∨
    (∃ l r, splitCrlf lines = some (l, r) ∧ nextLine lines = some (l, r)) ∨
    (splitCrlf lines = none ∧ lines ≠ [] ∧ nextLine lines = some (lines, [])) := by
  unfold nextLine
  cases h : splitCrlf lines with
  | some x => obtain ⟨l, r⟩ := x; exact Or.inr (Or.inl ⟨l, r, rfl, rfl⟩)
  | none =>
    by_cases hl : lines = []
    · exact Or.inl ⟨hl, by simp [hl]⟩
    · exact Or.inr (Or.inr ⟨rfl, hl, by simp [hl]⟩)

theorem nextLine_append_of_crlf {lines l r : Bytes} (q : Bytes) (h : splitCrlf lines = some (l, r)) :
    nextLine (lines ++ q) = some (l, r ++ q) := by
  unfold nextLine; rw [splitCrlf_append q h]

theorem splitToLoop_nil (pat self : Bytes) (fuel len : Nat) : splitToLoop pat self fuel [] len = none := by
  cases fuel with
  | zero => rfl
  | succ n => simp [splitToLoop, nextLine, splitCrlf]

theorem splitToLoop_append (pat self q : Bytes) : ∀ (fuel fuel' : Nat) (lines : Bytes) (len : Nat) (pre ans r : Bytes),
    self = pre ++ lines → pre.length = len → fuel ≤ fuel' →
    splitToLoop pat self fuel lines len = some (ans, r) → (r ≠ [] ∨ ¬ pat <:+ self) →
    splitToLoop pat (self ++ q) fuel' (lines ++ q) len = some (ans, r ++ q) := by
  intro fuel
  induction fuel with
  | zero => intro fuel' lines len pre ans r _ _ _ h; simp [splitToLoop] at h
  | succ n ih =>
    intro fuel' lines len pre ans r hself hlen hle h hgood
    obtain ⟨m, rfl⟩ : ∃ m, fuel' = m + 1 := ⟨fuel' - 1, by omega⟩
    rw [splitToLoop] at h ⊢
    rcases nextLine_cases lines with ⟨_, hn⟩ | ⟨l, r0, hs, hn⟩ | ⟨hs, hne, hn⟩
    · rw [hn] at h; cases h
    · rw [hn] at h
      rw [nextLine_append_of_crlf q hs]
      simp only at h ⊢
      by_cases hl : l = pat
      · rw [if_pos hl] at h
        rw [if_pos hl]
        cases h
        have hle' : len ≤ self.length := by rw [hself, ← hlen]; simp
        simp only [List.length_append, Option.some.injEq, Prod.mk.injEq, and_true]
        rw [Nat.min_eq_left hle', Nat.min_eq_left (by omega), List.take_append_of_le_length hle']
      · rw [if_neg hl] at h
        rw [if_neg hl]
        have hlines := splitCrlf_eq_some hs
        exact ih m r0 (len + l.length + 2) (pre ++ l ++ [13, 10]) ans r
          (by rw [hself, hlines]; simp) (by simp [hlen]; omega) (by omega) h hgood
    · rw [hn] at h
      simp only at h
      by_cases hl : lines = pat
      · rw [if_pos hl] at h
        cases h
        rcases hgood with hg | hg
        · exact absurd rfl hg
        · exact absurd ⟨pre, by rw [hself, hl]⟩ hg
      · rw [if_neg hl, splitToLoop_nil] at h
        cases h

theorem splitTo_append {pat s ans r : Bytes} (q : Bytes) (h : splitTo pat s = some (ans, r))
    (hgood : r ≠ [] ∨ ¬ pat <:+ s) : splitTo pat (s ++ q) = some (ans, r ++ q) := by
  unfold splitTo at h ⊢
  exact splitToLoop_append pat s q _ _ s 0 [] ans r rfl rfl (by simp) h hgood

theorem splitToLoop_suffix (pat self : Bytes) : ∀ (fuel : Nat) (lines : Bytes) (len : Nat) (ans r : Bytes),
    splitToLoop pat self fuel lines len = some (ans, r) → r <:+ lines ∧ r.length < lines.length := by
  intro fuel
  induction fuel with
  | zero => intro lines len ans r h; simp [splitToLoop] at h
  | succ n ih =>
    intro lines len ans r h
    rw [splitToLoop] at h
    rcases nextLine_cases lines with ⟨_, hn⟩ | ⟨l, r0, hs, hn⟩ | ⟨hs, hne, hn⟩
    · rw [hn] at h; cases h
    · rw [hn] at h
      simp only at h
      have hlines := splitCrlf_eq_some hs
      have hsuf : r0 <:+ lines := ⟨l ++ [13, 10], by rw [hlines]; simp⟩
      have hlen : r0.length < lines.length := by rw [hlines]; simp; omega
      by_cases hl : l = pat
      · rw [if_pos hl] at h; cases h; exact ⟨hsuf, hlen⟩
      · rw [if_neg hl] at h
        have := ih r0 _ ans r h
        exact ⟨this.1.trans hsuf, by omega⟩
    · rw [hn] at h
      simp only at h
      by_cases hl : lines = pat
      · rw [if_pos hl] at h; cases h
        exact ⟨List.nil_suffix, by cases lines with | nil => exact absurd rfl hne | cons _ _ => simp⟩
      · rw [if_neg hl, splitToLoop_nil] at h; cases h

theorem splitTo_suffix {pat s ans r : Bytes} (h : splitTo pat s = some (ans, r)) :
    r <:+ s ∧ r.length < s.length := splitToLoop_suffix pat s _ s 0 ans r h


/-! ## what is left over is a strictly shorter suffix -/

def Shorter (r s : Bytes) : Prop := r <:+ s ∧ r.length < s.length

theorem Shorter.trans_suffix {a b c : Bytes} (h : Shorter a b) (h2 : b <:+ c) : Shorter a c :=
  ⟨h.1.trans h2, Nat.lt_of_lt_of_le h.2 h2.length_le⟩

theorem shorter_cons (c : UInt8) (r : Bytes) : Shorter r (c :: r) := ⟨List.suffix_cons c r, by simp⟩

theorem lineEnd_shorter {n v r n' v' r' : Bytes} (h : lineEnd n v r = .line n' v' r') : Shorter r' r := by
  unfold lineEnd at h
  cases r with
  | nil => cases h
  | cons c r1 =>
    simp only at h
    by_cases hc : c = 13
    · simp only [hc, if_true] at h
      cases r1 with
      | nil => cases h
      | cons d r2 =>
        simp only at h
        by_cases hd : d = 10
        · simp only [hd, if_true] at h
          cases h
          exact (shorter_cons _ _).trans_suffix (List.suffix_cons _ _)
        · simp [hd] at h
    · simp only [hc, if_false] at h
      by_cases hc2 : c = 10
      · simp only [hc2, if_true] at h
        cases h; exact shorter_cons _ _
      · simp [hc2] at h

theorem parseHeaderLine_shorter {s n v r : Bytes} (h : parseHeaderLine s = .line n v r) : Shorter r s := by
  unfold parseHeaderLine at h
  have hd1 : s.dropWhile isNameTok <:+ s := List.dropWhile_suffix _
  cases h1 : s.dropWhile isNameTok with
  | nil => simp [h1] at h
  | cons c r1 =>
    rw [h1] at hd1
    simp only [h1] at h
    by_cases hc : c ≠ 58
    · simp [hc] at h
    · simp only [hc, if_false] at h
      have hd2 : r1.dropWhile isSpTab <:+ r1 := List.dropWhile_suffix _
      cases h2 : r1.dropWhile isSpTab with
      | nil => simp [h2] at h
      | cons b r3 =>
        rw [h2] at hd2
        simp only [h2] at h
        have hbs : (b :: r3) <:+ s := hd2.trans ((List.suffix_cons c r1).trans hd1)
        by_cases hv : isValTok b = true
        · simp only [hv, if_true] at h
          have := lineEnd_shorter h
          exact this.trans_suffix ((List.dropWhile_suffix _).trans hbs)
        · simp only [hv, Bool.false_eq_true, if_false] at h
          by_cases hb : b = 13 ∨ b = 10
          · simp only [hb, if_true] at h
            exact (lineEnd_shorter h).trans_suffix hbs
          · simp [hb] at h

theorem headerStep_shorter {s : Bytes} :
    (∀ r, headerStep s = .complete r → Shorter r s) ∧ (∀ n v r, headerStep s = .line n v r → Shorter r s) := by
  unfold headerStep
  cases s with
  | nil => simp
  | cons b r0 =>
    simp only
    by_cases hb : b = 13
    · simp only [hb, if_true]
      cases r0 with
      | nil => simp
      | cons d r2 =>
        simp only
        by_cases hd : d = 10
        · simp only [hd, if_true]
          refine ⟨?_, by simp⟩
          intro r h; cases h
          exact (shorter_cons _ _).trans_suffix (List.suffix_cons _ _)
        · simp [hd]
    · simp only [hb, if_false]
      by_cases hb2 : b = 10
      · simp only [hb2, if_true]
        refine ⟨?_, by simp⟩
        intro r h; cases h; exact shorter_cons _ _
      · simp only [hb2, if_false]
        by_cases ht : isNameTok b = false
        · simp [ht]
        · simp only [ht]
          cases hp : parseHeaderLine (b :: r0) with
          | more => simp
          | error => simp
          | line n v rest =>
            refine ⟨by simp, ?_⟩
            intro n' v' r' h
            cases h
            exact parseHeaderLine_shorter hp

theorem parseHeadersN_shorter : ∀ (slots : Nat) (s : Bytes) (acc : List (Bytes × Bytes)) (r : Bytes) (h : List (Bytes × Bytes)),
    parseHeadersN slots s acc = .complete r h → Shorter r s := by
  intro slots
  induction slots with
  | zero =>
    intro s acc r h heq
    rw [parseHeadersN_zero] at heq
    cases hst : headerStep s with
    | complete r' => rw [hst] at heq; cases heq; exact headerStep_shorter.1 _ hst
    | more => rw [hst] at heq; cases heq
    | error => rw [hst] at heq; cases heq
    | line => rw [hst] at heq; cases heq
  | succ k ih =>
    intro s acc r h heq
    rw [parseHeadersN_succ] at heq
    cases hst : headerStep s with
    | complete r' => rw [hst] at heq; cases heq; exact headerStep_shorter.1 _ hst
    | more => rw [hst] at heq; cases heq
    | error => rw [hst] at heq; cases heq
    | line n v rest =>
      rw [hst] at heq
      have h1 := headerStep_shorter.2 _ _ _ hst
      have h2 := ih rest _ r h heq
      exact ⟨h2.1.trans h1.1, by have := h2.2; have := h1.2; omega⟩

theorem parseHeaders_shorter {s r : Bytes} {h : List (Bytes × Bytes)} (heq : parseHeaders s = .complete r h) :
    Shorter r s := parseHeadersN_shorter 2 s [] r h heq

/-! ## the part loop -/

def PRes.ext (q : Bytes) : PRes → PRes
  | .needMore => .needMore
  | .invalid => .invalid
  | .parsed f n c r => .parsed f n c (r ++ q)

/-- results that survive an extension of the buffer: every success; a failure unless the buffer ends in
    an unterminated `--boundary` -/
def Good (b s : Bytes) (R : PRes) : Prop :=
  (∃ f n c r, R = .parsed f n c r) ∨ (R = .invalid ∧ ¬ dashBoundary b <:+ s)

theorem Good.of_suffix {b s s' : Bytes} {R : PRes} (h : Good b s R) (hs : s' <:+ s) : Good b s' R := by
  rcases h with h | ⟨h1, h2⟩
  · exact Or.inl h
  · exact Or.inr ⟨h1, fun h3 => h2 (h3.trans hs)⟩

theorem partsStep_nil (b : Bytes) (k) (fields) : partsStep b k [] fields = .needMore := by
  have : parseHeaders [] = .more := by rw [parseHeaders, parseHeadersN_succ]; rfl
  simp [partsStep, this]

theorem partsLoop_nil (b : Bytes) (fuel : Nat) (fields) : partsLoop b fuel [] fields = .needMore := by
  cases fuel with
  | zero => rfl
  | succ n => rw [partsLoop, partsStep_nil]

theorem partsStep_append (b q : Bytes) (k k' : Bytes → List (Bytes × Bytes) → PRes)
    (s : Bytes) (fields : List (Bytes × Bytes))
    (hk : ∀ s' f', Shorter s' s → Good b s' (k s' f') → k' (s' ++ q) f' = (k s' f').ext q)
    (hnil : ∀ f', k [] f' = .needMore)
    (hg : Good b s (partsStep b k s fields)) :
    partsStep b k' (s ++ q) fields = (partsStep b k s fields).ext q := by
  unfold partsStep at hg ⊢
  cases hh : parseHeaders s with
  | more => rw [hh] at hg; rcases hg with ⟨_, _, _, _, h⟩ | ⟨h, _⟩ <;> cases h
  | error =>
    rw [parseHeaders_append s q (by rw [hh]; simp), hh]
    rfl
  | complete rest hdrs =>
    rw [parseHeaders_append s q (by rw [hh]; simp), hh]
    rw [hh] at hg
    have hrest := parseHeaders_shorter hh
    simp only [HRes.ext] at hg ⊢
    cases hcd : lastHeader nameCD hdrs none with
    | none => rw [hcd] at hg; rcases hg with ⟨_, _, _, _, h⟩ | ⟨h, _⟩ <;> cases h
    | some cdv =>
      rw [hcd] at hg
      simp only at hg ⊢
      cases hp : parseCD cdv with
      | none => rfl
      | some nf =>
        obtain ⟨name, fn⟩ := nf
        rw [hp] at hg
        cases fn with
        | none =>
          simp only at hg ⊢
          cases hsp : splitTo (dashBoundary b) rest with
          | none => rw [hsp] at hg; rcases hg with ⟨_, _, _, _, h⟩ | ⟨h, _⟩ <;> cases h
          | some ar =>
            obtain ⟨ans, rest'⟩ := ar
            rw [hsp] at hg
            simp only at hg
            have hr' := splitTo_suffix hsp
            have hsh : Shorter rest' s := ⟨hr'.1.trans hrest.1, by have := hr'.2; have := hrest.2; omega⟩
            have hgood : rest' ≠ [] ∨ ¬ dashBoundary b <:+ rest := by
              rcases hg with ⟨f, n, c, r, h⟩ | ⟨h, hns⟩
              · left
                intro h0
                subst h0
                by_cases hu : utf8Valid (ans.take (ans.length - 2)) = true
                · rw [if_pos hu, hnil] at h; cases h
                · rw [if_neg hu] at h; cases h
              · right
                exact fun h3 => hns (h3.trans hrest.1)
            rw [splitTo_append q hsp hgood]
            simp only
            by_cases hu : utf8Valid (ans.take (ans.length - 2)) = true
            · rw [if_pos hu] at hg
              rw [if_pos hu, if_pos hu]
              exact hk rest' _ hsh (hg.of_suffix hsh.1)
            · rw [if_neg hu]; rw [if_neg hu]; rfl
        | some fname =>
          simp only at hg ⊢
          cases hct : lastHeader nameCT hdrs none with
          | none => rw [hct] at hg; rcases hg with ⟨_, _, _, _, h⟩ | ⟨h, _⟩ <;> cases h
          | some ctv =>
            simp only
            by_cases hu : utf8Valid ctv = true
            · rw [if_pos hu, if_pos hu]; rfl
            · rw [if_neg hu, if_neg hu]; rfl

theorem partsLoop_append (b q : Bytes) : ∀ (fuel fuel' : Nat) (s : Bytes) (fields : List (Bytes × Bytes)),
    fuel ≤ fuel' → Good b s (partsLoop b fuel s fields) →
    partsLoop b fuel' (s ++ q) fields = (partsLoop b fuel s fields).ext q := by
  intro fuel
  induction fuel with
  | zero =>
    intro fuel' s fields _ hg
    rcases hg with ⟨_, _, _, _, h⟩ | ⟨h, _⟩ <;> simp [partsLoop] at h
  | succ n ih =>
    intro fuel' s fields hle hg
    obtain ⟨m, rfl⟩ : ∃ m, fuel' = m + 1 := ⟨fuel' - 1, by omega⟩
    rw [partsLoop] at hg ⊢
    rw [partsLoop]
    exact partsStep_append b q _ _ s fields
      (fun s' f' _ hg' => ih m s' f' (by omega) hg') (fun f' => partsLoop_nil b n f') hg

/-! ## `try_parse` -/

theorem firstLines_invalid_append {b p : Bytes} (q : Bytes) (h : firstLines b p = .inl .invalid) :
    firstLines b (p ++ q) = .inl .invalid := by
  unfold firstLines at h ⊢
  simp only [nextTerminatedLine_eq] at h ⊢
  cases h1 : splitCrlf p with
  | none => rw [h1] at h; cases h
  | some lr =>
    obtain ⟨line, rest⟩ := lr
    rw [h1] at h
    rw [splitCrlf_append q h1]
    simp only at h ⊢
    by_cases hl : line = []
    · rw [if_pos hl] at h
      rw [if_pos hl]
      cases h2 : splitCrlf rest with
      | none => rw [h2] at h; cases h
      | some lr2 =>
        obtain ⟨line2, rest2⟩ := lr2
        rw [h2] at h
        rw [splitCrlf_append q h2]
        simp only at h ⊢
        by_cases hl2 : line2 ≠ dashBoundary b
        · rw [if_pos hl2]
        · rw [if_neg hl2] at h; cases h
    · rw [if_neg hl] at h
      rw [if_neg hl]
      by_cases hl2 : line ≠ dashBoundary b
      · rw [if_pos hl2]
      · rw [if_neg hl2] at h; cases h

theorem firstLines_slice_append {b p slice : Bytes} (q : Bytes) (h : firstLines b p = .inr slice) :
    firstLines b (p ++ q) = .inr (slice ++ q) ∧ slice <:+ p := by
  unfold firstLines at h ⊢
  simp only [nextTerminatedLine_eq] at h ⊢
  cases h1 : splitCrlf p with
  | none => rw [h1] at h; cases h
  | some lr =>
    obtain ⟨line, rest⟩ := lr
    rw [h1] at h
    rw [splitCrlf_append q h1]
    have hp := splitCrlf_eq_some h1
    have hsuf1 : rest <:+ p := ⟨line ++ [13, 10], by rw [hp]; simp⟩
    simp only at h ⊢
    by_cases hl : line = []
    · rw [if_pos hl] at h
      rw [if_pos hl]
      cases h2 : splitCrlf rest with
      | none => rw [h2] at h; cases h
      | some lr2 =>
        obtain ⟨line2, rest2⟩ := lr2
        rw [h2] at h
        rw [splitCrlf_append q h2]
        have hp2 := splitCrlf_eq_some h2
        have hsuf2 : rest2 <:+ rest := ⟨line2 ++ [13, 10], by rw [hp2]; simp⟩
        simp only at h ⊢
        by_cases hl2 : line2 ≠ dashBoundary b
        · rw [if_pos hl2] at h; cases h
        · rw [if_neg hl2] at h
          rw [if_neg hl2]
          cases h
          exact ⟨rfl, hsuf2.trans hsuf1⟩
    · rw [if_neg hl] at h
      rw [if_neg hl]
      by_cases hl2 : line ≠ dashBoundary b
      · rw [if_pos hl2] at h; cases h
      · rw [if_neg hl2] at h
        rw [if_neg hl2]
        cases h
        exact ⟨rfl, hsuf1⟩


theorem firstLines_inl {b p : Bytes} {r : Result} (h : firstLines b p = .inl r) : r = .needMore ∨ r = .invalid := by
  unfold firstLines at h
  repeat' split at h
  all_goals first | (cases h; simp) | cases h

/-- `try_parse` on an extension of the buffer: a definitive answer stays, unless it is a failure and the
    buffer ends in an unterminated `--boundary` -/
theorem tryParse_append (b p q : Bytes) (hdef : (tryParse b p).definitive = true)
    (hgood : (∃ f n c s, tryParse b p = .parsed f n c s) ∨ ¬ dashBoundary b <:+ p) :
    tryParse b (p ++ q) = tryParse b p := by
  unfold tryParse at hdef hgood ⊢
  cases hf : firstLines b p with
  | inl r =>
    rw [hf] at hdef
    simp only at hdef ⊢
    rcases firstLines_inl hf with hr | hr
    · subst hr; simp [Result.definitive] at hdef
    · subst hr; rw [firstLines_invalid_append q hf]
  | inr slice =>
    obtain ⟨hfa, hsuf⟩ := firstLines_slice_append q hf
    rw [hfa]
    rw [hf] at hdef hgood
    simp only at hdef hgood ⊢
    have hg : Good b slice (partsLoop b (slice.length + 1) slice []) := by
      cases hpl : partsLoop b (slice.length + 1) slice [] with
      | needMore => rw [hpl] at hdef; simp [Result.definitive] at hdef
      | invalid =>
        right
        refine ⟨rfl, ?_⟩
        rcases hgood with ⟨_, _, _, _, h⟩ | h
        · rw [hpl] at h; cases h
        · exact fun h3 => h (h3.trans hsuf)
      | parsed f n c r => exact Or.inl ⟨f, n, c, r, rfl⟩
    rw [partsLoop_append b q (slice.length + 1) ((slice ++ q).length + 1) slice [] (by simp) hg]
    cases hpl : partsLoop b (slice.length + 1) slice [] with
    | needMore => rfl
    | invalid => rfl
    | parsed f n c r =>
      simp only [PRes.ext, List.length_append, Result.parsed.injEq, true_and]
      omega

/-! ## the fuel of the two loops never runs out -/

theorem nextLine_shorter {lines l r : Bytes} (h : nextLine lines = some (l, r)) : r.length < lines.length := by
  rcases nextLine_cases lines with ⟨_, hn⟩ | ⟨l', r', hs, hn⟩ | ⟨_, hne, hn⟩
  · rw [hn] at h; cases h
  · rw [hn] at h
    simp only [Option.some.injEq, Prod.mk.injEq] at h
    obtain ⟨rfl, rfl⟩ := h
    rw [splitCrlf_eq_some hs]; simp; omega
  · rw [hn] at h
    simp only [Option.some.injEq, Prod.mk.injEq] at h
    obtain ⟨rfl, rfl⟩ := h
    cases lines with
    | nil => exact absurd rfl hne
    | cons _ _ => simp

theorem splitToLoop_fuel (pat self : Bytes) : ∀ (n m : Nat) (lines : Bytes) (len : Nat),
    lines.length < n → lines.length < m →
    splitToLoop pat self n lines len = splitToLoop pat self m lines len := by
  intro n
  induction n with
  | zero => intro m lines len h; omega
  | succ k ih =>
    intro m lines len hn hm
    cases m with
    | zero => omega
    | succ j =>
      rw [splitToLoop, splitToLoop]
      cases hnl : nextLine lines with
      | none => rfl
      | some lr =>
        obtain ⟨l, r⟩ := lr
        have := nextLine_shorter hnl
        simp only
        split
        · rfl
        · exact ih j r _ (by omega) (by omega)

theorem partsStep_congr (b : Bytes) (k k' : Bytes → List (Bytes × Bytes) → PRes) (s : Bytes)
    (fields : List (Bytes × Bytes)) (h : ∀ s' f', Shorter s' s → k s' f' = k' s' f') :
    partsStep b k s fields = partsStep b k' s fields := by
  unfold partsStep
  cases hh : parseHeaders s with
  | more => rfl
  | error => rfl
  | complete rest hdrs =>
    have hrest := parseHeaders_shorter hh
    simp only
    cases lastHeader nameCD hdrs none with
    | none => rfl
    | some cdv =>
      simp only
      cases parseCD cdv with
      | none => rfl
      | some nf =>
        obtain ⟨name, fn⟩ := nf
        cases fn with
        | some _ => rfl
        | none =>
          simp only
          cases hsp : splitTo (dashBoundary b) rest with
          | none => rfl
          | some ar =>
            obtain ⟨ans, rest'⟩ := ar
            have hr' := splitTo_suffix hsp
            have hsh : Shorter rest' s := ⟨hr'.1.trans hrest.1, by have := hr'.2; have := hrest.2; omega⟩
            simp only
            rw [h rest' _ hsh]

/-- every fuel above the slice length gives the same answer: the `fuel = 0` branch of `partsLoop` is dead
    in `tryParse` -/
theorem partsLoop_fuel (b : Bytes) : ∀ (n m : Nat) (s : Bytes) (fields : List (Bytes × Bytes)),
    s.length < n → s.length < m → partsLoop b n s fields = partsLoop b m s fields := by
  intro n
  induction n with
  | zero => intro m s fields h; omega
  | succ k ih =>
    intro m s fields hn hm
    cases m with
    | zero => omega
    | succ j =>
      rw [partsLoop, partsLoop]
      apply partsStep_congr
      intro s' f' hsh
      exact ih j s' f' (by have := hsh.2; omega) (by have := hsh.2; omega)


end S3V.Multipart
