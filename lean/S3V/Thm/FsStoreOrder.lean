import S3V.Thm.FsStoreBase
/-!
# C18 lemmas: the byte-wise order is total; insertion sort sorts; cutting a sorted listing at a marker
-/
namespace S3V.FsStore

/-! ## the byte-wise order is a total order -/

theorem u8_lt_irrefl (a : UInt8) : ¬ a < a := by
  rw [UInt8.lt_iff_toNat_lt]; omega

theorem bytesLe_refl : ∀ a : Bytes, bytesLe a a = true := by
  intro a
  induction a with
  | nil => rfl
  | cons x xs ih => simp [bytesLe, ih]

theorem bytesLe_total : ∀ a b : Bytes, bytesLe a b = true ∨ bytesLe b a = true := by
  intro a
  induction a with
  | nil => intro b; left; rfl
  | cons x xs ih =>
    intro b
    cases b with
    | nil => right; rfl
    | cons y ys =>
      unfold bytesLe
      by_cases h1 : x < y
      · left; simp [h1]
      · by_cases h2 : y < x
        · right; simp [h2]
        · simp only [h1, h2, if_false]
          exact ih ys

theorem bytesLe_trans : ∀ a b c : Bytes, bytesLe a b = true → bytesLe b c = true → bytesLe a c = true := by
  intro a
  induction a with
  | nil => intro b c _ _; rfl
  | cons x xs ih =>
    intro b c hab hbc
    cases b with
    | nil => simp [bytesLe] at hab
    | cons y ys =>
      cases c with
      | nil => simp [bytesLe] at hbc
      | cons z zs =>
        unfold bytesLe at hab hbc ⊢
        by_cases hxy : x < y
        · by_cases hyz : y < z
          · have : x < z := by rw [UInt8.lt_iff_toNat_lt] at *; omega
            simp [this]
          · by_cases hzy : z < y
            · simp [hyz, hzy] at hbc
            · have : x < z := by rw [UInt8.lt_iff_toNat_lt] at *; omega
              simp [this]
        · by_cases hyx : y < x
          · simp [hxy, hyx] at hab
          · simp only [hxy, hyx, if_false] at hab
            by_cases hyz : y < z
            · have : x < z := by rw [UInt8.lt_iff_toNat_lt] at *; omega
              simp [this]
            · by_cases hzy : z < y
              · simp [hyz, hzy] at hbc
              · simp only [hyz, hzy, if_false] at hbc
                have h1 : ¬ x < z := by rw [UInt8.lt_iff_toNat_lt] at *; omega
                have h2 : ¬ z < x := by rw [UInt8.lt_iff_toNat_lt] at *; omega
                simp only [h1, h2, if_false]
                exact ih ys zs hab hbc

theorem bytesLe_antisymm : ∀ a b : Bytes, bytesLe a b = true → bytesLe b a = true → a = b := by
  intro a
  induction a with
  | nil =>
    intro b _ hba
    cases b with
    | nil => rfl
    | cons y ys => simp [bytesLe] at hba
  | cons x xs ih =>
    intro b hab hba
    cases b with
    | nil => simp [bytesLe] at hab
    | cons y ys =>
      unfold bytesLe at hab hba
      by_cases hxy : x < y
      · have : ¬ y < x := by rw [UInt8.lt_iff_toNat_lt] at *; omega
        simp [hxy, this] at hba
      · by_cases hyx : y < x
        · simp [hxy, hyx] at hab
        · simp only [hxy, hyx, if_false] at hab hba
          have : x = y := by
            apply UInt8.toNat_inj.mp
            rw [UInt8.lt_iff_toNat_lt] at *; omega
          rw [this, ih ys hab hba]

theorem bytesLt_iff (a b : Bytes) : bytesLt a b = true ↔ bytesLe b a = false := by
  unfold bytesLt
  constructor
  · intro h
    simp only [Bool.and_eq_true, bne_iff_ne, ne_eq] at h
    cases hba : bytesLe b a with
    | false => rfl
    | true => exact absurd (bytesLe_antisymm a b h.1 hba) h.2
  · intro h
    simp only [Bool.and_eq_true, bne_iff_ne, ne_eq]
    constructor
    · rcases bytesLe_total a b with h1 | h1
      · exact h1
      · rw [h] at h1; exact absurd h1 (by simp)
    · intro e; subst e; rw [bytesLe_refl] at h; exact absurd h (by simp)

/-! ## insertion sort -/

def SortedKeys {β : Type} (l : List (Bytes × β)) : Prop := l.Pairwise fun x y => bytesLe x.1 y.1 = true

theorem insSorted_mem {β : Type} (x : Bytes × β) (l : List (Bytes × β)) (y : Bytes × β) :
    y ∈ insSorted bytesLe x l ↔ y = x ∨ y ∈ l := by
  induction l with
  | nil => simp [insSorted]
  | cons z t ih =>
    unfold insSorted
    split
    · simp only [List.mem_cons, ih]
      constructor
      · rintro (h | h | h)
        · exact Or.inr (Or.inl h)
        · exact Or.inl h
        · exact Or.inr (Or.inr h)
      · rintro (h | h | h)
        · exact Or.inr (Or.inl h)
        · exact Or.inl h
        · exact Or.inr (Or.inr h)
    · simp

theorem insSorted_sorted {β : Type} (x : Bytes × β) (l : List (Bytes × β)) (h : SortedKeys l) :
    SortedKeys (insSorted bytesLe x l) := by
  induction l with
  | nil => simp [insSorted, SortedKeys]
  | cons z t ih =>
    unfold SortedKeys at h ⊢
    rw [List.pairwise_cons] at h
    unfold insSorted
    split
    · rename_i hle
      rw [List.pairwise_cons]
      refine ⟨?_, ih h.2⟩
      intro y hy
      rcases (insSorted_mem x t y).mp hy with hy | hy
      · subst hy; exact hle
      · exact h.1 y hy
    · rename_i hle
      have hxz : bytesLe x.1 z.1 = true := by
        rcases bytesLe_total x.1 z.1 with h1 | h1
        · exact h1
        · exact absurd h1 hle
      rw [List.pairwise_cons]
      refine ⟨?_, List.pairwise_cons.mpr h⟩
      intro y hy
      simp only [List.mem_cons] at hy
      rcases hy with hy | hy
      · subst hy; exact hxz
      · exact bytesLe_trans _ _ _ hxz (h.1 y hy)

theorem foldl_insSorted_sorted {β : Type} (l acc : List (Bytes × β)) (h : SortedKeys acc) :
    SortedKeys (l.foldl (fun acc x => insSorted bytesLe x acc) acc) := by
  induction l generalizing acc with
  | nil => exact h
  | cons x t ih => exact ih _ (insSorted_sorted x acc h)

theorem sortByKey_sorted {β : Type} (l : List (Bytes × β)) : SortedKeys (sortByKey l) :=
  foldl_insSorted_sorted l [] (by simp [SortedKeys])

theorem foldl_insSorted_mem {β : Type} (l acc : List (Bytes × β)) (y : Bytes × β) :
    y ∈ l.foldl (fun acc x => insSorted bytesLe x acc) acc ↔ y ∈ l ∨ y ∈ acc := by
  induction l generalizing acc with
  | nil => simp
  | cons x t ih =>
    simp only [List.foldl_cons, ih, insSorted_mem, List.mem_cons]
    constructor
    · rintro (h | h | h)
      · exact Or.inl (Or.inr h)
      · exact Or.inl (Or.inl h)
      · exact Or.inr h
    · rintro ((h | h) | h)
      · exact Or.inr (Or.inl h)
      · exact Or.inl h
      · exact Or.inr (Or.inr h)

theorem sortByKey_mem {β : Type} (l : List (Bytes × β)) (y : Bytes × β) : y ∈ sortByKey l ↔ y ∈ l := by
  unfold sortByKey
  rw [foldl_insSorted_mem]; simp

/-- on a sorted list, dropping the entries up to a marker keeps exactly the entries after it -/
theorem dropWhile_le_eq_filter_lt {β : Type} (m : Bytes) (l : List (Bytes × β)) (h : SortedKeys l) :
    l.dropWhile (fun o => bytesLe o.1 m) = l.filter (fun e => bytesLt m e.1) := by
  induction l with
  | nil => rfl
  | cons x t ih =>
    unfold SortedKeys at h
    rw [List.pairwise_cons] at h
    by_cases hx : bytesLe x.1 m = true
    · have hlt : bytesLt m x.1 = false := by
        cases hb : bytesLt m x.1 with
        | false => rfl
        | true => rw [(bytesLt_iff m x.1).mp hb] at hx; exact absurd hx (by simp)
      simp only [List.dropWhile_cons, hx, if_true, List.filter_cons, hlt]
      exact ih h.2
    · have hx' : bytesLe x.1 m = false := by simpa using hx
      simp only [List.dropWhile_cons, hx', Bool.false_eq_true, if_false]
      symm
      apply List.filter_eq_self.mpr
      intro y hy
      apply (bytesLt_iff m y.1).mpr
      simp only [List.mem_cons] at hy
      rcases hy with hy | hy
      · subst hy; exact hx'
      · cases hb : bytesLe y.1 m with
        | false => rfl
        | true =>
          have := bytesLe_trans _ _ _ (h.1 y hy) hb
          rw [hx'] at this; exact absurd this (by simp)

/-! ## insertion sort of parts by part number -/

theorem insPart_mem {β : Type} (x : Int × β) (l : List (Int × β)) (y : Int × β) :
    y ∈ insPart x l ↔ y = x ∨ y ∈ l := by
  induction l with
  | nil => simp [insPart]
  | cons z t ih =>
    unfold insPart
    split
    · simp only [List.mem_cons, ih]
      constructor
      · rintro (h | h | h)
        · exact Or.inr (Or.inl h)
        · exact Or.inl h
        · exact Or.inr (Or.inr h)
      · rintro (h | h | h)
        · exact Or.inr (Or.inl h)
        · exact Or.inl h
        · exact Or.inr (Or.inr h)
    · simp

/-- inserting a part whose number is not in the list keeps it strictly ascending -/
theorem insPart_strict {β : Type} (x : Int × β) (l : List (Int × β)) (h : l.Pairwise fun a b => a.1 < b.1)
    (hx : ∀ y ∈ l, y.1 ≠ x.1) : (insPart x l).Pairwise fun a b => a.1 < b.1 := by
  induction l with
  | nil => simp [insPart]
  | cons z t ih =>
    rw [List.pairwise_cons] at h
    have hzx : z.1 ≠ x.1 := hx z (by simp)
    unfold insPart
    split
    · rename_i hle
      rw [List.pairwise_cons]
      refine ⟨?_, ih h.2 fun y hy => hx y (List.mem_cons_of_mem _ hy)⟩
      intro y hy
      rcases (insPart_mem x t y).mp hy with hy | hy
      · subst hy; omega
      · exact h.1 y hy
    · rename_i hle
      rw [List.pairwise_cons]
      refine ⟨?_, List.pairwise_cons.mpr h⟩
      intro y hy
      simp only [List.mem_cons] at hy
      rcases hy with hy | hy
      · subst hy; omega
      · have := h.1 y hy; omega

theorem foldl_insPart_mem {β : Type} (l acc : List (Int × β)) (y : Int × β) :
    y ∈ l.foldl (fun acc x => insPart x acc) acc ↔ y ∈ l ∨ y ∈ acc := by
  induction l generalizing acc with
  | nil => simp
  | cons x t ih =>
    simp only [List.foldl_cons, ih, insPart_mem, List.mem_cons]
    constructor
    · rintro (h | h | h)
      · exact Or.inl (Or.inr h)
      · exact Or.inl (Or.inl h)
      · exact Or.inr h
    · rintro ((h | h) | h)
      · exact Or.inr (Or.inl h)
      · exact Or.inl h
      · exact Or.inr (Or.inr h)

/-- `sortParts` is a rearrangement -/
theorem sortParts_mem {β : Type} (l : List (Int × β)) (y : Int × β) : y ∈ sortParts l ↔ y ∈ l := by
  unfold sortParts
  rw [foldl_insPart_mem]; simp

theorem foldl_insPart_strict {β : Type} (l acc : List (Int × β)) (hacc : acc.Pairwise fun a b => a.1 < b.1)
    (hnd : keysNodup l) (hdis : ∀ x ∈ l, ∀ y ∈ acc, y.1 ≠ x.1) :
    (l.foldl (fun acc x => insPart x acc) acc).Pairwise fun a b => a.1 < b.1 := by
  induction l generalizing acc with
  | nil => exact hacc
  | cons x t ih =>
    unfold keysNodup at hnd
    rw [List.map_cons, List.nodup_cons] at hnd
    refine ih _ (insPart_strict x acc hacc (hdis x (by simp))) hnd.2 ?_
    intro x' hx' y hy
    rcases (insPart_mem x acc y).mp hy with hy | hy
    · subst hy
      intro heq
      exact hnd.1 (heq ▸ List.mem_map_of_mem (f := (·.1)) hx')
    · exact hdis x' (List.mem_cons_of_mem _ hx') y hy

/-- parts with distinct numbers come out of `sortParts` in strictly ascending part-number order -/
theorem sortParts_strict {β : Type} (l : List (Int × β)) (hnd : keysNodup l) :
    (sortParts l).Pairwise fun a b => a.1 < b.1 :=
  foldl_insPart_strict l [] List.Pairwise.nil hnd (by simp)

end S3V.FsStore
