import S3V.Thm.CivilEraDefs
/-! finite check 2 of 2: every valid triple encodes to a day of the era that decodes back (kernel evaluation) -/
namespace S3V.Dto
theorem okEnc_0 : allBin okEnc 15 0 = true := by decide +kernel
theorem okEnc_1 : allBin okEnc 15 32768 = true := by decide +kernel
theorem okEnc_2 : allBin okEnc 15 65536 = true := by decide +kernel
theorem okEnc_3 : allBin okEnc 15 98304 = true := by decide +kernel
theorem okEnc_4 : allBin okEnc 15 131072 = true := by decide +kernel
end S3V.Dto
