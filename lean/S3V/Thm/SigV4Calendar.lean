import S3V.Model.SigV4
import S3V.Spec.SigV4
/-!
# Lemma: Hinnant's `days_from_civil` (the model of `time::Date`) equals the counting definition of the specification

`omega` is fed the era decomposition in small pieces (it cannot relate nested floor divisions on its own); the final
steps are purely linear after the division atoms are generalised.
-/
namespace S3V.SigV4
open S3V

theorem daysBeforeYear_closed (y : Nat) :
    SigV4Spec.daysBeforeYear y + (y + 99) / 100 = 365 * y + (y + 3) / 4 + (y + 399) / 400 := by
  induction y with
  | zero => rfl
  | succ y ih =>
    simp only [SigV4Spec.daysBeforeYear, SigV4Spec.yearDays]
    cases hl : SigV4Spec.leap y with
    | true =>
      simp only [SigV4Spec.leap, Bool.or_eq_true, Bool.and_eq_true, decide_eq_true_eq, ne_eq] at hl
      simp only [if_true]
      omega
    | false =>
      have hl' : ¬ (SigV4Spec.leap y = true) := by simp [hl]
      simp only [SigV4Spec.leap, Bool.or_eq_true, Bool.and_eq_true, decide_eq_true_eq, ne_eq, not_or, not_and] at hl'
      simp only [Bool.false_eq_true, if_false]
      omega

/-- days before each month, `L` = 1 in leap years -/
theorem daysBeforeMonth_values (y : Nat) :
    let L := if SigV4Spec.leap y = true then 1 else 0
    SigV4Spec.daysBeforeMonth y 1 = 0 ∧ SigV4Spec.daysBeforeMonth y 2 = 31 ∧ SigV4Spec.daysBeforeMonth y 3 = 59 + L ∧
    SigV4Spec.daysBeforeMonth y 4 = 90 + L ∧ SigV4Spec.daysBeforeMonth y 5 = 120 + L ∧
    SigV4Spec.daysBeforeMonth y 6 = 151 + L ∧ SigV4Spec.daysBeforeMonth y 7 = 181 + L ∧
    SigV4Spec.daysBeforeMonth y 8 = 212 + L ∧ SigV4Spec.daysBeforeMonth y 9 = 243 + L ∧
    SigV4Spec.daysBeforeMonth y 10 = 273 + L ∧ SigV4Spec.daysBeforeMonth y 11 = 304 + L ∧
    SigV4Spec.daysBeforeMonth y 12 = 334 + L := by
  cases hl : SigV4Spec.leap y <;> simp [SigV4Spec.daysBeforeMonth, SigV4Spec.monthDays, hl]

theorem era_flat (y' : Nat) :
    y' / 400 * 146097 + (y' % 400 * 365 + y' % 400 / 4 - y' % 400 / 100) = 365 * y' + y' / 4 + y' / 400 - y' / 100 := by
  have h4 : y' / 4 = 100 * (y' / 400) + y' % 400 / 4 := by omega
  have h100 : y' / 100 = 4 * (y' / 400) + y' % 400 / 100 := by omega
  omega

/-- Hinnant's formula with the year shift and day-of-year made explicit -/
theorem daysFromCivil_unfold (y m d : Nat) :
    daysFromCivil y m d =
      (((if m ≤ 2 then y + 399 else y + 400) / 400 * 146097 +
        ((if m ≤ 2 then y + 399 else y + 400) % 400 * 365 + (if m ≤ 2 then y + 399 else y + 400) % 400 / 4 -
          (if m ≤ 2 then y + 399 else y + 400) % 400 / 100 + ((153 * ((m + 9) % 12) + 2) / 5 + d - 1)) : Nat) : Int) -
        719468 - 146097 := rfl

/-- January and February: the era year is `y - 1` -/
theorem dfc_le2 (y K d dbm : Nat) (h3 : 1 ≤ d) (hK : dbm + 306 = K) :
    ((((y + 399) / 400 * 146097 +
        ((y + 399) % 400 * 365 + (y + 399) % 400 / 4 - (y + 399) % 400 / 100 + (K + d - 1)) : Nat) : Int)) - 719468 - 146097 =
      ((SigV4Spec.daysBeforeYear y + dbm + (d - 1) : Nat) : Int) - 719528 := by
  have hY := daysBeforeYear_closed y
  have ef := era_flat (y + 399)
  have a4 : (y + 399) / 4 = (y + 3) / 4 + 99 := by omega
  have a100 : (y + 399) / 100 = (y + 99) / 100 + 3 := by omega
  have nn : (y + 399) % 400 / 100 ≤ (y + 399) % 400 * 365 + (y + 399) % 400 / 4 := by omega
  have nn2 : (y + 399) / 100 ≤ 365 * (y + 399) + (y + 399) / 4 + (y + 399) / 400 := by omega
  rw [a4, a100] at ef nn2
  generalize (y + 399) / 400 = q at *
  generalize (y + 399) % 400 / 4 = r4 at *
  generalize (y + 399) % 400 / 100 = r100 at *
  generalize (y + 399) % 400 = r at *
  generalize (y + 3) / 4 = b4 at *
  generalize (y + 99) / 100 = b100 at *
  generalize SigV4Spec.daysBeforeYear y = dby at *
  omega

theorem leap_class (y : Nat) :
    (y + 3) / 4 + (y + 399) / 400 + (if SigV4Spec.leap y = true then 1 else 0) =
      y / 4 + y / 400 + ((y + 99) / 100 - y / 100) + 1 := by
  by_cases hl : SigV4Spec.leap y = true
  · rw [if_pos hl]
    simp only [SigV4Spec.leap, Bool.or_eq_true, Bool.and_eq_true, decide_eq_true_eq, ne_eq] at hl
    omega
  · rw [if_neg hl]
    simp only [SigV4Spec.leap, Bool.or_eq_true, Bool.and_eq_true, decide_eq_true_eq, ne_eq, not_or, not_and] at hl
    omega

/-- March to December -/
theorem dfc_gt2 (y K d dbm : Nat) (h3 : 1 ≤ d) (hK : dbm + 1 = K + 60) :
    ((((y + 400) / 400 * 146097 +
        ((y + 400) % 400 * 365 + (y + 400) % 400 / 4 - (y + 400) % 400 / 100 + (K + d - 1)) : Nat) : Int)) - 719468 - 146097 =
      ((SigV4Spec.daysBeforeYear y + (dbm + if SigV4Spec.leap y = true then 1 else 0) + (d - 1) : Nat) : Int) - 719528 := by
  have hY := daysBeforeYear_closed y
  have ef := era_flat (y + 400)
  have a4 : (y + 400) / 4 = y / 4 + 100 := by omega
  have a100 : (y + 400) / 100 = y / 100 + 4 := by omega
  have a400 : (y + 400) / 400 = y / 400 + 1 := by omega
  have nn : (y + 400) % 400 / 100 ≤ (y + 400) % 400 * 365 + (y + 400) % 400 / 4 := by omega
  have nn2 : y / 100 ≤ 365 * y + y / 4 + y / 400 := by omega
  have hc := leap_class y
  have hle : y / 100 ≤ (y + 99) / 100 := by omega
  generalize (if SigV4Spec.leap y = true then 1 else 0) = L at *
  rw [a4, a100, a400] at ef
  rw [a400]
  generalize (y + 400) % 400 / 4 = r4 at *
  generalize (y + 400) % 400 / 100 = r100 at *
  generalize (y + 400) % 400 = r at *
  generalize (y + 3) / 4 = b4 at *
  generalize (y + 99) / 100 = b100 at *
  generalize (y + 399) / 400 = b400 at *
  generalize y / 4 = c4 at *
  generalize y / 100 = c100 at *
  generalize y / 400 = c400 at *
  generalize SigV4Spec.daysBeforeYear y = dby at *
  omega

theorem daysFromCivil_eq (y m d : Nat) (h1 : 1 ≤ m) (h2 : m ≤ 12) (h3 : 1 ≤ d) :
    daysFromCivil y m d =
      ((SigV4Spec.daysBeforeYear y + SigV4Spec.daysBeforeMonth y m + (d - 1) : Nat) : Int) - 719528 := by
  obtain ⟨t1, t2, t3, t4, t5, t6, t7, t8, t9, t10, t11, t12⟩ := daysBeforeMonth_values y
  rw [daysFromCivil_unfold]
  have hm : m = 1 ∨ m = 2 ∨ m = 3 ∨ m = 4 ∨ m = 5 ∨ m = 6 ∨ m = 7 ∨ m = 8 ∨ m = 9 ∨ m = 10 ∨ m = 11 ∨ m = 12 := by omega
  rcases hm with rfl | rfl | rfl | rfl | rfl | rfl | rfl | rfl | rfl | rfl | rfl | rfl
  · rw [if_pos (by decide), t1]; exact dfc_le2 y _ d 0 h3 (by decide)
  · rw [if_pos (by decide), t2]; exact dfc_le2 y _ d 31 h3 (by decide)
  · rw [if_neg (by decide), t3]; exact dfc_gt2 y _ d 59 h3 (by decide)
  · rw [if_neg (by decide), t4]; exact dfc_gt2 y _ d 90 h3 (by decide)
  · rw [if_neg (by decide), t5]; exact dfc_gt2 y _ d 120 h3 (by decide)
  · rw [if_neg (by decide), t6]; exact dfc_gt2 y _ d 151 h3 (by decide)
  · rw [if_neg (by decide), t7]; exact dfc_gt2 y _ d 181 h3 (by decide)
  · rw [if_neg (by decide), t8]; exact dfc_gt2 y _ d 212 h3 (by decide)
  · rw [if_neg (by decide), t9]; exact dfc_gt2 y _ d 243 h3 (by decide)
  · rw [if_neg (by decide), t10]; exact dfc_gt2 y _ d 273 h3 (by decide)
  · rw [if_neg (by decide), t11]; exact dfc_gt2 y _ d 304 h3 (by decide)
  · rw [if_neg (by decide), t12]; exact dfc_gt2 y _ d 334 h3 (by decide)

theorem daysInMonth_eq (y m : Nat) : daysInMonth y m = SigV4Spec.monthDays y m := rfl

/-- `AmzDate::to_time` is the specified instant, and exists exactly for valid civil times -/
theorem toTime_eq_spec (d : AmzDate) :
    d.toTime = if SigV4Spec.validCivil d.year d.month d.day d.hour d.minute d.second = true then
      some (SigV4Spec.civilToUnix d.year d.month d.day d.hour d.minute d.second) else none := by
  unfold AmzDate.toTime SigV4Spec.validCivil
  rw [daysInMonth_eq]
  split
  · rename_i h
    simp only [Bool.and_eq_true, decide_eq_true_eq] at h
    rw [daysFromCivil_eq d.year d.month d.day h.1.1.1.1.1.1 h.1.1.1.1.1.2 h.1.1.1.1.2]
    rfl
  · rfl

end S3V.SigV4
