import S3V.Model.DtoCivil
/-!
# The 400-year era — definitions for the two finite checks (see `CivilEra.lean`)

The checked predicates are written with the kernel-accelerated `Nat.beq/ble/blt` so that one
evaluation costs ≈ 0.5 ms; `validEra_iff` / `eraMonthLenB_eq` restate them readably.
-/
namespace S3V.Dto

def allBin (f : Nat → Bool) : Nat → Nat → Bool
  | 0, s => f s
  | d + 1, s => allBin f d s && allBin f d (s + 2 ^ d)

theorem allBin_sound (f : Nat → Bool) :
    ∀ d s, allBin f d s = true → ∀ i, s ≤ i → i < s + 2 ^ d → f i = true := by
  intro d
  induction d with
  | zero =>
    intro s h i h1 h2
    simp [allBin] at h
    have : i = s := by simp at h2; omega
    subst this; exact h
  | succ d ih =>
    intro s h i h1 h2
    simp only [allBin, Bool.and_eq_true] at h
    by_cases hi : i < s + 2 ^ d
    · exact ih s h.1 i h1 hi
    · exact ih (s + 2 ^ d) h.2 i (by omega) (by rw [Nat.pow_succ] at h2; omega)

/-- five chunks of 2^15 cover 0 … 163839 -/
theorem five_chunks (f : Nat → Bool)
    (h0 : allBin f 15 0 = true) (h1 : allBin f 15 32768 = true) (h2 : allBin f 15 65536 = true)
    (h3 : allBin f 15 98304 = true) (h4 : allBin f 15 131072 = true) (i : Nat) (hi : i < 163840) :
    f i = true := by
  by_cases c0 : i < 32768
  · exact allBin_sound f 15 0 h0 i (by omega) (by omega)
  by_cases c1 : i < 65536
  · exact allBin_sound f 15 32768 h1 i (by omega) (by omega)
  by_cases c2 : i < 98304
  · exact allBin_sound f 15 65536 h2 i (by omega) (by omega)
  by_cases c3 : i < 131072
  · exact allBin_sound f 15 98304 h3 i (by omega) (by omega)
  · exact allBin_sound f 15 131072 h4 i (by omega) (by omega)

/-- leap rule for the calendar year that contains January/February of era-year `yoe` (= `yoe + 1`) -/
def eraLeap (yoe : Nat) : Bool := (yoe + 1) % 4 = 0 && ((yoe + 1) % 100 ≠ 0 || (yoe + 1) % 400 = 0)

/-- length of month `mp` (0 = March … 11 = February) of era-year `yoe` -/
def eraMonthLen (yoe mp : Nat) : Nat :=
  if mp = 11 then (if eraLeap yoe then 29 else 28)
  else if mp = 1 || mp = 3 || mp = 6 || mp = 8 then 30 else 31

def eraLeapB (yoe : Nat) : Bool :=
  Nat.beq ((yoe + 1) % 4) 0 && (!Nat.beq ((yoe + 1) % 100) 0 || Nat.beq ((yoe + 1) % 400) 0)

def eraMonthLenB (yoe mp : Nat) : Nat :=
  bif Nat.beq mp 11 then (bif eraLeapB yoe then 29 else 28)
  else bif (Nat.beq mp 1 || Nat.beq mp 3 || Nat.beq mp 6 || Nat.beq mp 8) then 30 else 31

def validEraB (yoe mp d : Nat) : Bool :=
  Nat.blt yoe 400 && Nat.blt mp 12 && Nat.ble 1 d && Nat.ble d (eraMonthLenB yoe mp)

theorem beq_iff (a b : Nat) : Nat.beq a b = decide (a = b) := by
  cases h : Nat.beq a b
  · have : a ≠ b := Nat.ne_of_beq_eq_false h
    simp [this]
  · have : a = b := Nat.eq_of_beq_eq_true h
    simp [this]

theorem eraLeapB_eq (yoe : Nat) : eraLeapB yoe = eraLeap yoe := by
  simp [eraLeapB, eraLeap, beq_iff]

theorem eraMonthLenB_eq (yoe mp : Nat) : eraMonthLenB yoe mp = eraMonthLen yoe mp := by
  simp only [eraMonthLenB, eraMonthLen, beq_iff, eraLeapB_eq, cond_eq_ite]
  simp

theorem validEra_iff (yoe mp d : Nat) :
    validEraB yoe mp d = true ↔ yoe < 400 ∧ mp < 12 ∧ 1 ≤ d ∧ d ≤ eraMonthLen yoe mp := by
  simp only [validEraB, Bool.and_eq_true, Nat.blt_eq, Nat.ble_eq, eraMonthLenB_eq]
  constructor
  · rintro ⟨⟨⟨a, b⟩, c⟩, d⟩; exact ⟨a, b, c, d⟩
  · rintro ⟨a, b, c, d⟩; exact ⟨⟨⟨a, b⟩, c⟩, d⟩

def okDec (doe : Nat) : Bool :=
  Nat.ble 146097 doe ||
  (let yoe := (doe - doe / 1460 + doe / 36524 - doe / 146096) / 365
   let doy := doe - (365 * yoe + yoe / 4 - yoe / 100)
   let mp := (5 * doy + 2) / 153
   let d := doy - (153 * mp + 2) / 5 + 1
   Nat.beq (encDoe yoe mp d) doe && validEraB yoe mp d)

def okEnc (i : Nat) : Bool :=
  let yoe := i / 384
  let mp := i / 32 % 12
  let d := i % 32
  !validEraB yoe mp d ||
  (let doe := encDoe yoe mp d
   let yoe' := (doe - doe / 1460 + doe / 36524 - doe / 146096) / 365
   let doy := doe - (365 * yoe' + yoe' / 4 - yoe' / 100)
   let mp' := (5 * doy + 2) / 153
   let d' := doy - (153 * mp' + 2) / 5 + 1
   Nat.blt doe 146097 && Nat.beq yoe' yoe && Nat.beq mp' mp && Nat.beq d' d)

end S3V.Dto
