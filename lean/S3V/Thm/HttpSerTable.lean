import S3V.Model.HttpSerHeaders
import S3V.Spec.HttpRespBinding
import S3V.Thm.KeepAlive
/-!
# Lemmas: the header half of `serialize_http` read back by a client (C03, output direction, all operations)

1. bytes: `HEADER_CHARS` yields lower-case names; the metadata name of key `k` is `x-amz-meta-` ++ `normKey k`;
2. header maps: a sequence of `insert`s (`applyWrites`), names and lookups after `insert` / `extend` / `remove`;
3. the model's `serializeHeaders`, when it returns `Ok`, is `applyWrites` of the writes of its statements;
4. under the side conditions on the statement shapes (`SideOk`) the written names are pairwise distinct;
5. the client-side readers of `Spec/HttpRespBinding` over `wireLines` are lookups in the header map;
6. `Setup.*`: what the serialized map holds and what is read back from any post-processing of it that leaves the
   relevant names alone; 7. the two post-processings of `Operation::call`; 8. Boolean forms for kernel evaluation.
-/
namespace S3V.HttpSerThm
open S3V S3V.KeepAlive S3V.HttpSerHeaders S3V.HttpRespBinding

/-! ## 1. bytes -/

theorem forall_uint8 (P : UInt8 → Bool) (h : (List.range 256).all (fun n => P (UInt8.ofNat n)) = true)
    (b : UInt8) : P b = true := by
  have := List.all_eq_true.mp h b.toNat (List.mem_range.mpr b.toNat_lt)
  simpa using this

/-- `headerChar` is the table `HEADER_CHARS` of `http-1.3.1/src/header/name.rs`, entry by entry (the literal is
    transcribed mechanically from that file) -/
theorem headerChar_table : (List.range 256).map (fun n => headerChar (UInt8.ofNat n)) =
  [0, 0, 0, 0, 0, 0, 0, 0, 0, 0, 0, 0, 0, 0, 0, 0,
   0, 0, 0, 0, 0, 0, 0, 0, 0, 0, 0, 0, 0, 0, 0, 0,
   0, 33, 0, 35, 36, 37, 38, 39, 0, 0, 42, 43, 0, 45, 46, 0,
   48, 49, 50, 51, 52, 53, 54, 55, 56, 57, 0, 0, 0, 0, 0, 0,
   0, 97, 98, 99, 100, 101, 102, 103, 104, 105, 106, 107, 108, 109, 110, 111,
   112, 113, 114, 115, 116, 117, 118, 119, 120, 121, 122, 0, 0, 0, 94, 95,
   96, 97, 98, 99, 100, 101, 102, 103, 104, 105, 106, 107, 108, 109, 110, 111,
   112, 113, 114, 115, 116, 117, 118, 119, 120, 121, 122, 0, 124, 0, 126, 0,
   0, 0, 0, 0, 0, 0, 0, 0, 0, 0, 0, 0, 0, 0, 0, 0,
   0, 0, 0, 0, 0, 0, 0, 0, 0, 0, 0, 0, 0, 0, 0, 0,
   0, 0, 0, 0, 0, 0, 0, 0, 0, 0, 0, 0, 0, 0, 0, 0,
   0, 0, 0, 0, 0, 0, 0, 0, 0, 0, 0, 0, 0, 0, 0, 0,
   0, 0, 0, 0, 0, 0, 0, 0, 0, 0, 0, 0, 0, 0, 0, 0,
   0, 0, 0, 0, 0, 0, 0, 0, 0, 0, 0, 0, 0, 0, 0, 0,
   0, 0, 0, 0, 0, 0, 0, 0, 0, 0, 0, 0, 0, 0, 0, 0,
   0, 0, 0, 0, 0, 0, 0, 0, 0, 0, 0, 0, 0, 0, 0, 0] := by
  decide +kernel

theorem lowerByte_headerChar (b : UInt8) : lowerByte (headerChar b) = headerChar b := by
  have := forall_uint8 (fun b => lowerByte (headerChar b) == headerChar b) (by decide +kernel) b
  simpa using this

theorem lowerName_map_headerChar (n : Bytes) : lowerName (n.map headerChar) = n.map headerChar := by
  simp [lowerName, lowerByte_headerChar]

theorem metaPrefix_headerChar : metaPrefix.map headerChar = metaPrefix := by decide
theorem lowerName_metaPrefix : lowerName metaPrefix = metaPrefix := by decide

theorem lowerName_append (a b : Bytes) : lowerName (a ++ b) = lowerName a ++ lowerName b := by
  simp [lowerName]

/-- the key under which a client finds the metadata entry written for key `k`: `HEADER_CHARS` applied to
    every byte (ASCII lower-casing of a valid key) -/
def normKey (k : Bytes) : Bytes := k.map headerChar

theorem lowerName_normKey (k : Bytes) : lowerName (normKey k) = normKey k := lowerName_map_headerChar k

theorem headerNameFromBytes_meta {k : Bytes} {n : HName} (h : headerNameFromBytes (metaPrefix ++ k) = some n) :
    n = metaPrefix ++ normKey k := by
  unfold headerNameFromBytes at h
  split at h
  · cases h
  · split at h
    · cases h
    · injection h with h
      rw [← h, List.map_append, metaPrefix_headerChar]; rfl

theorem headerValueFromString_eq {s : Bytes} {v : HVal} (h : headerValueFromString s = some v) : v = s := by
  unfold headerValueFromString at h
  split at h
  · injection h with h; exact h.symm
  · cases h

/-! ## 2. header maps -/

abbrev names (h : Hdrs) : List HName := h.map (·.1)

/-- the `HeaderMap` invariant as far as it is needed: one entry per name, names in lower case -/
structure WFL (h : Hdrs) : Prop where
  nodup : (names h).Nodup
  lower : ∀ n ∈ names h, lowerName n = n

theorem WFL_nil : WFL [] := ⟨by simp, by simp⟩

/-- a sequence of `HeaderMap::insert` calls -/
def applyWrites (h : Hdrs) (ws : List (HName × HVal)) : Hdrs := ws.foldl (fun h w => hInsert h w.1 w.2) h

theorem applyWrites_nil (h : Hdrs) : applyWrites h [] = h := rfl
theorem applyWrites_cons (h : Hdrs) (w : HName × HVal) (ws : List (HName × HVal)) :
    applyWrites h (w :: ws) = applyWrites (hInsert h w.1 w.2) ws := rfl
theorem applyWrites_append (h : Hdrs) (a b : List (HName × HVal)) :
    applyWrites h (a ++ b) = applyWrites (applyWrites h a) b := by
  simp [applyWrites, List.foldl_append]

theorem hGetAll_applyWrites_of_not_mem {ws : List (HName × HVal)} {m : HName} (hm : m ∉ ws.map (·.1)) (h : Hdrs) :
    hGetAll (applyWrites h ws) m = hGetAll h m := by
  induction ws generalizing h with
  | nil => rfl
  | cons w rest ih =>
    simp only [List.map_cons, List.mem_cons, not_or] at hm
    rw [applyWrites_cons, ih hm.2, hInsert, hGetAll_hSetAll, if_neg hm.1]

theorem hGetAll_applyWrites_of_mem {ws : List (HName × HVal)} (hn : (ws.map (·.1)).Nodup) {m : HName} {t : HVal}
    (hm : (m, t) ∈ ws) (h : Hdrs) : hGetAll (applyWrites h ws) m = [t] := by
  induction ws generalizing h with
  | nil => cases hm
  | cons w rest ih =>
    simp only [List.map_cons, List.nodup_cons] at hn
    rw [applyWrites_cons]
    rcases List.mem_cons.mp hm with heq | hmem
    · subst heq
      rw [hGetAll_applyWrites_of_not_mem hn.1, hInsert, hGetAll_hSetAll, if_pos rfl]
    · exact ih hn.2 hmem _

theorem mem_names_hSetAll {h : Hdrs} {n m : HName} {vs : List HVal} (hm : m ∈ names (hSetAll h n vs)) :
    m = n ∨ m ∈ names h := by
  simp only [names] at hm ⊢
  rw [names_hSetAll] at hm
  split at hm
  · exact Or.inr hm
  · rcases List.mem_append.mp hm with h1 | h1
    · exact Or.inr h1
    · exact Or.inl (by simpa using h1)

theorem WFL_hSetAll {h : Hdrs} (hw : WFL h) {n : HName} (hn : lowerName n = n) (vs : List HVal) :
    WFL (hSetAll h n vs) := by
  refine ⟨nodup_hSetAll hw.nodup n vs, ?_⟩
  intro m hm
  rcases mem_names_hSetAll hm with rfl | h1
  · exact hn
  · exact hw.lower m h1

theorem WFL_applyWrites {h : Hdrs} (hw : WFL h) {ws : List (HName × HVal)}
    (hl : ∀ n ∈ ws.map (·.1), lowerName n = n) : WFL (applyWrites h ws) := by
  induction ws generalizing h with
  | nil => exact hw
  | cons w rest ih =>
    rw [applyWrites_cons]
    exact ih (WFL_hSetAll hw (hl w.1 (by simp)) _) (fun n hn => hl n (by simp [List.mem_map] at hn ⊢; exact Or.inr hn))

theorem WFL_hExtend {h : Hdrs} (hw : WFL h) {src : Hdrs} (hl : ∀ n ∈ names src, lowerName n = n) :
    WFL (hExtend h src) := by
  induction src generalizing h with
  | nil => simpa [hExtend] using hw
  | cons kv rest ih =>
    have hstep : hExtend h (kv :: rest) = hExtend (hSetAll h kv.1 kv.2) rest := by simp [hExtend]
    rw [hstep]
    exact ih (WFL_hSetAll hw (hl kv.1 (by simp)) _) (fun n hn => hl n (by simp [List.mem_map] at hn ⊢; exact Or.inr hn))

theorem names_hRemove_sublist (h : Hdrs) (n : HName) : (names (hRemove h n)).Sublist (names h) := by
  induction h with
  | nil => simp [hRemove]
  | cons kv rest ih =>
    obtain ⟨k, vs⟩ := kv
    by_cases hk : k = n
    · simp [hRemove, hk]
    · simp only [hRemove, hk, if_false, names, List.map_cons]
      exact List.Sublist.cons_cons _ ih

theorem WFL_hRemove {h : Hdrs} (hw : WFL h) (n : HName) : WFL (hRemove h n) :=
  ⟨hw.nodup.sublist (names_hRemove_sublist h n), fun m hm => hw.lower m ((names_hRemove_sublist h n).subset hm)⟩

theorem WFL_bodySetterHeaders (k : BodyKind) : WFL (bodySetterHeaders k) := by
  cases k
  · exact WFL_nil
  · exact WFL_hSetAll WFL_nil (by decide) _
  · exact WFL_nil
  · exact WFL_hSetAll WFL_nil (by decide) _
  · exact WFL_nil

/-! ## 3. `serializeHeaders` returning `Ok` is a sequence of inserts -/

section
variable {T V : Type}

/-- the `insert` the loop of `add_opt_metadata` performs for one pair (when both conversions succeed) -/
def mdWrite (kv : Bytes × Bytes) : Option (HName × HVal) :=
  match headerNameFromBytes (metaPrefix ++ kv.1), headerValueFromString kv.2 with
  | some n, some v => some (n, v)
  | _, _ => none

theorem mdWrite_eq_some {kv : Bytes × Bytes} {w : HName × HVal} (h : mdWrite kv = some w) :
    w = (metaPrefix ++ normKey kv.1, kv.2) := by
  unfold mdWrite at h
  split at h
  · rename_i n v hn hv
    injection h with h
    rw [← h, headerNameFromBytes_meta hn, headerValueFromString_eq hv]
  · cases h

/-- the `insert`s one statement performs (conversions that fail contribute nothing) -/
def stmtWrites (conv : T → V → Option HVal) : Stmt T V → List (HName × HVal)
  | .optHeader n t (some v) =>
    match conv t v with
    | some val => [(n, val)]
    | none => []
  | .optHeader _ _ none => []
  | .optMetadata none => []
  | .optMetadata (some md) => md.filterMap mdWrite

/-- every conversion of the statement succeeds -/
def StmtOk (conv : T → V → Option HVal) : Stmt T V → Prop
  | .optHeader _ t (some v) => (conv t v).isSome = true
  | .optHeader _ _ none => True
  | .optMetadata none => True
  | .optMetadata (some md) => ∀ kv ∈ md, (mdWrite kv).isSome = true

def allWrites (conv : T → V → Option HVal) (stmts : List (Stmt T V)) : List (HName × HVal) :=
  stmts.flatMap (stmtWrites conv)

theorem allWrites_cons (conv : T → V → Option HVal) (s : Stmt T V) (rest : List (Stmt T V)) :
    allWrites conv (s :: rest) = stmtWrites conv s ++ allWrites conv rest := by
  simp [allWrites]

theorem addMetadataLoop_ok {full : Hdrs → HName → Bool} {md : Metadata} {h h' : Hdrs}
    (hok : addMetadataLoop full h md = .ok h') :
    (∀ kv ∈ md, (mdWrite kv).isSome = true) ∧ h' = applyWrites h (md.filterMap mdWrite) := by
  induction md generalizing h with
  | nil =>
    simp only [addMetadataLoop] at hok
    injection hok with hok
    exact ⟨by simp, by simp [hok, applyWrites_nil]⟩
  | cons kv rest ih =>
    obtain ⟨key, val⟩ := kv
    simp only [addMetadataLoop] at hok
    cases hn : headerNameFromBytes (metaPrefix ++ key) with
    | none => simp [hn] at hok
    | some name =>
      cases hv : headerValueFromString val with
      | none => simp [hn, hv] at hok
      | some value =>
        simp only [hn, hv, insertHeader] at hok
        by_cases hf : full h name = true
        · simp [hf] at hok
        · simp only [hf] at hok
          obtain ⟨h1, h2⟩ := ih hok
          have hw : mdWrite (key, val) = some (name, value) := by simp [mdWrite, hn, hv]
          refine ⟨?_, ?_⟩
          · intro kv hkv
            rcases List.mem_cons.mp hkv with rfl | hkv
            · simp [hw]
            · exact h1 kv hkv
          · rw [h2, List.filterMap_cons, hw, applyWrites_cons]

theorem exec_ok {full : Hdrs → HName → Bool} {conv : T → V → Option HVal} {s : Stmt T V} {h h' : Hdrs}
    (hok : exec full conv h s = .ok h') : StmtOk conv s ∧ h' = applyWrites h (stmtWrites conv s) := by
  cases s with
  | optHeader n t value =>
    cases value with
    | none =>
      simp only [exec, HttpSerHeaders.addOptHeader] at hok
      injection hok with hok
      exact ⟨trivial, by simp [stmtWrites, hok, applyWrites_nil]⟩
    | some v =>
      simp only [exec, HttpSerHeaders.addOptHeader] at hok
      cases hc : conv t v with
      | none => simp [hc] at hok
      | some val =>
        simp only [hc, insertHeader] at hok
        by_cases hf : full h n = true
        · simp [hf] at hok
        · simp only [hf] at hok
          injection hok with hok
          exact ⟨by simp [StmtOk, hc], by simp [stmtWrites, hc, ← hok, applyWrites]⟩
  | optMetadata md =>
    cases md with
    | none =>
      simp only [exec, addOptMetadata] at hok
      injection hok with hok
      exact ⟨trivial, by simp [stmtWrites, hok, applyWrites_nil]⟩
    | some m =>
      simp only [exec, addOptMetadata] at hok
      exact addMetadataLoop_ok hok

/-- when `serialize_http` returns `Ok(res)`, every conversion succeeded and `res.headers` is the body
    setter's map after the `insert`s of the statements, in order -/
theorem serializeHeaders_ok {full : Hdrs → HName → Bool} {conv : T → V → Option HVal} {stmts : List (Stmt T V)}
    {h h' : Hdrs} (hok : serializeHeaders full conv h stmts = .ok h') :
    (∀ s ∈ stmts, StmtOk conv s) ∧ h' = applyWrites h (allWrites conv stmts) := by
  induction stmts generalizing h with
  | nil =>
    simp only [serializeHeaders] at hok
    injection hok with hok
    exact ⟨by simp, by simp [allWrites, hok, applyWrites_nil]⟩
  | cons s rest ih =>
    simp only [serializeHeaders] at hok
    cases he : exec full conv h s with
    | error e => simp [he] at hok
    | ok h1 =>
      simp only [he] at hok
      obtain ⟨hs, h1eq⟩ := exec_ok he
      obtain ⟨hr, h'eq⟩ := ih hok
      refine ⟨?_, ?_⟩
      · intro s' hs'
        rcases List.mem_cons.mp hs' with rfl | hs'
        · exact hs
        · exact hr s' hs'
      · rw [h'eq, h1eq, allWrites_cons, applyWrites_append]

theorem addMetadataLoop_of_ok {full : Hdrs → HName → Bool} (hfull : ∀ h n, full h n = false) {md : Metadata}
    (hmd : ∀ kv ∈ md, (mdWrite kv).isSome = true) (h : Hdrs) :
    addMetadataLoop full h md = .ok (applyWrites h (md.filterMap mdWrite)) := by
  induction md generalizing h with
  | nil => rfl
  | cons kv rest ih =>
    obtain ⟨key, val⟩ := kv
    have hkv := hmd (key, val) (by simp)
    simp only [mdWrite] at hkv
    cases hn : headerNameFromBytes (metaPrefix ++ key) with
    | none => simp [hn] at hkv
    | some name =>
      cases hv : headerValueFromString val with
      | none => simp [hn, hv] at hkv
      | some value =>
        have hw : mdWrite (key, val) = some (name, value) := by simp [mdWrite, hn, hv]
        simp only [addMetadataLoop, hn, hv, insertHeader, hfull, Bool.false_eq_true, if_false]
        rw [ih (fun kv hkv => hmd kv (List.mem_cons_of_mem _ hkv)), List.filterMap_cons, hw, applyWrites_cons]

/-- conversely: when the map never overflows and every conversion succeeds, `serialize_http` returns `Ok` -/
theorem serializeHeaders_of_ok {full : Hdrs → HName → Bool} (hfull : ∀ h n, full h n = false)
    {conv : T → V → Option HVal} {stmts : List (Stmt T V)} (hs : ∀ s ∈ stmts, StmtOk conv s) (h : Hdrs) :
    serializeHeaders full conv h stmts = .ok (applyWrites h (allWrites conv stmts)) := by
  induction stmts generalizing h with
  | nil => rfl
  | cons s rest ih =>
    have hex : exec full conv h s = .ok (applyWrites h (stmtWrites conv s)) := by
      have hso := hs s (by simp)
      cases s with
      | optHeader n t value =>
        cases value with
        | none => rfl
        | some v =>
          simp only [StmtOk] at hso
          cases hc : conv t v with
          | none => simp [hc] at hso
          | some val => simp [exec, HttpSerHeaders.addOptHeader, hc, insertHeader, hfull, stmtWrites, applyWrites]
      | optMetadata md =>
        cases md with
        | none => rfl
        | some m => exact addMetadataLoop_of_ok hfull hso h
    simp only [serializeHeaders, hex]
    rw [ih (fun s' hs' => hs s' (List.mem_cons_of_mem _ hs')), allWrites_cons, applyWrites_append]

/-! ## 4. shapes of statements and the side conditions -/

/-- what the generated table knows of a statement: header name and member tag, or "the metadata statement" -/
inductive Shape (T : Type) where
  | hdr (name : HName) (tag : T)
  | metadata

def Stmt.shape : Stmt T V → Shape T
  | .optHeader n t _ => .hdr n t
  | .optMetadata _ => .metadata

def Shape.hdrName? : Shape T → Option HName
  | .hdr n _ => some n
  | .metadata => none

def Shape.isMeta : Shape T → Bool
  | .hdr _ _ => false
  | .metadata => true

/-- wire names of the header-bound members -/
def hdrNames (shapes : List (Shape T)) : List HName := shapes.filterMap Shape.hdrName?

/-- the side conditions of the round trip, on the statement shapes only:
    header names pairwise distinct, in lower case (as `HeaderName` constants are), none starting with the
    metadata prefix; at most one metadata statement -/
structure SideOk (shapes : List (Shape T)) : Prop where
  nodup : (hdrNames shapes).Nodup
  lower : ∀ n ∈ hdrNames shapes, lowerName n = n
  noPfx : ∀ n ∈ hdrNames shapes, ¬ metaPrefix <+: n
  oneMeta : shapes.countP Shape.isMeta ≤ 1

/-- the same as a computation (decided by the kernel on the generated table) -/
def sideOkB (shapes : List (Shape T)) : Bool :=
  decide (hdrNames shapes).Nodup
    && (hdrNames shapes).all (fun n => lowerName n == n && !metaPrefix.isPrefixOf n)
    && decide (shapes.countP Shape.isMeta ≤ 1)

theorem sideOkB_iff (shapes : List (Shape T)) : sideOkB shapes = true ↔ SideOk shapes := by
  simp only [sideOkB, Bool.and_eq_true, decide_eq_true_eq, List.all_eq_true, beq_iff_eq, Bool.not_eq_true',
    ← Bool.not_eq_true, List.isPrefixOf_iff_prefix]
  constructor
  · rintro ⟨⟨h1, h2⟩, h3⟩
    exact ⟨h1, fun n hn => (h2 n hn).1, fun n hn => (h2 n hn).2, h3⟩
  · rintro ⟨h1, h2, h3, h4⟩
    exact ⟨⟨h1, fun n hn => ⟨h2 n hn, h3 n hn⟩⟩, h4⟩

theorem SideOk.perm {a b : List (Shape T)} (hp : a.Perm b) (h : SideOk b) : SideOk a := by
  have hf : (hdrNames a).Perm (hdrNames b) := hp.filterMap _
  exact ⟨hf.nodup_iff.mpr h.nodup, fun n hn => h.lower n (hf.mem_iff.mp hn), fun n hn => h.noPfx n (hf.mem_iff.mp hn),
    by rw [hp.countP_eq]; exact h.oneMeta⟩

theorem SideOk.tail {s : Shape T} {rest : List (Shape T)} (h : SideOk (s :: rest)) : SideOk rest := by
  obtain ⟨h1, h2, h3, h4⟩ := h
  cases s with
  | hdr n t =>
    simp only [hdrNames, List.filterMap_cons, Shape.hdrName?, List.nodup_cons, List.mem_cons, forall_eq_or_imp] at h1 h2 h3
    refine ⟨h1.2, h2.2, h3.2, ?_⟩
    simp only [List.countP_cons, Shape.isMeta] at h4
    simpa using h4
  | metadata =>
    simp only [hdrNames, List.filterMap_cons, Shape.hdrName?] at h1 h2 h3
    refine ⟨h1, h2, h3, ?_⟩
    simp only [List.countP_cons, Shape.isMeta] at h4
    omega

abbrev stmtHdrNames (stmts : List (Stmt T V)) : List HName := hdrNames (stmts.map Stmt.shape)

theorem mem_stmtHdrNames {stmts : List (Stmt T V)} {n : HName} {t : T} {val : Option V}
    (h : Stmt.optHeader n t val ∈ stmts) : n ∈ stmtHdrNames stmts := by
  simp only [stmtHdrNames, hdrNames, List.mem_filterMap, List.mem_map]
  exact ⟨.hdr n t, ⟨_, h, rfl⟩, rfl⟩

/-- a header name occurs in one statement only -/
theorem hdr_unique {stmts : List (Stmt T V)} (hn : (stmtHdrNames stmts).Nodup) {n : HName} {t t' : T}
    {val val' : Option V} (h1 : Stmt.optHeader n t val ∈ stmts) (h2 : Stmt.optHeader n t' val' ∈ stmts) :
    val = val' := by
  induction stmts with
  | nil => cases h1
  | cons s rest ih =>
    rcases List.mem_cons.mp h1 with e1 | m1 <;> rcases List.mem_cons.mp h2 with e2 | m2
    · rw [← e1] at e2; injection e2 with _ _ e; exact e.symm
    · subst e1
      simp only [stmtHdrNames, hdrNames, List.map_cons, Stmt.shape, List.filterMap_cons, Shape.hdrName?,
        List.nodup_cons] at hn
      exact absurd (mem_stmtHdrNames m2) hn.1
    · subst e2
      simp only [stmtHdrNames, hdrNames, List.map_cons, Stmt.shape, List.filterMap_cons, Shape.hdrName?,
        List.nodup_cons] at hn
      exact absurd (mem_stmtHdrNames m1) hn.1
    · refine ih ?_ m1 m2
      cases s with
      | optHeader _ _ _ =>
        simp only [stmtHdrNames, hdrNames, List.map_cons, Stmt.shape, List.filterMap_cons, Shape.hdrName?,
          List.nodup_cons] at hn
        exact hn.2
      | optMetadata _ =>
        simp only [stmtHdrNames, hdrNames, List.map_cons, Stmt.shape, List.filterMap_cons, Shape.hdrName?] at hn
        exact hn

/-- what a write of a statement looks like -/
theorem mem_stmtWrites {conv : T → V → Option HVal} {s : Stmt T V} {w : HName × HVal} (hw : w ∈ stmtWrites conv s) :
    (∃ n t v, s = .optHeader n t (some v) ∧ w.1 = n ∧ conv t v = some w.2)
    ∨ (∃ md k0, s = .optMetadata (some md) ∧ (k0, w.2) ∈ md ∧ w.1 = metaPrefix ++ normKey k0) := by
  cases s with
  | optHeader n t value =>
    cases value with
    | none => simp [stmtWrites] at hw
    | some v =>
      simp only [stmtWrites] at hw
      cases hc : conv t v with
      | none => simp [hc] at hw
      | some val =>
        simp only [hc, List.mem_singleton] at hw
        subst hw
        exact Or.inl ⟨n, t, v, rfl, rfl, hc⟩
  | optMetadata md =>
    cases md with
    | none => simp [stmtWrites] at hw
    | some m =>
      simp only [stmtWrites, List.mem_filterMap] at hw
      obtain ⟨kv, hkv, hkw⟩ := hw
      have := mdWrite_eq_some hkw
      subst this
      exact Or.inr ⟨m, kv.1, rfl, hkv, rfl⟩

/-- … and of the whole statement list -/
theorem mem_allWrites {conv : T → V → Option HVal} {stmts : List (Stmt T V)} {w : HName × HVal}
    (hw : w ∈ allWrites conv stmts) :
    (∃ n t v, Stmt.optHeader n t (some v) ∈ stmts ∧ w.1 = n ∧ conv t v = some w.2)
    ∨ (∃ md k0, Stmt.optMetadata (some md) ∈ stmts ∧ (k0, w.2) ∈ md ∧ w.1 = metaPrefix ++ normKey k0) := by
  obtain ⟨s, hs, hws⟩ := List.mem_flatMap.mp hw
  rcases mem_stmtWrites hws with ⟨n, t, v, rfl, h1, h2⟩ | ⟨md, k0, rfl, h1, h2⟩
  · exact Or.inl ⟨n, t, v, hs, h1, h2⟩
  · exact Or.inr ⟨md, k0, hs, h1, h2⟩

theorem prefix_meta (k : Bytes) : metaPrefix <+: metaPrefix ++ k := List.prefix_append _ _

/-- names written for one metadata map are pairwise distinct when the normalised keys are -/
theorem nodup_mdWrites {md : Metadata} (hmd : (md.map fun kv => normKey kv.1).Nodup) :
    ((md.filterMap mdWrite).map (·.1)).Nodup := by
  induction md with
  | nil => simp
  | cons kv rest ih =>
    simp only [List.map_cons, List.nodup_cons] at hmd
    rw [List.filterMap_cons]
    cases hw : mdWrite kv with
    | none => exact ih hmd.2
    | some w =>
      simp only [List.map_cons, List.nodup_cons]
      refine ⟨?_, ih hmd.2⟩
      intro hin
      obtain ⟨w', hw', hw'e⟩ := List.mem_map.mp hin
      obtain ⟨kv', hkv', hkw'⟩ := List.mem_filterMap.mp hw'
      have e1 := mdWrite_eq_some hw
      have e2 := mdWrite_eq_some hkw'
      rw [e1, e2] at hw'e
      have : normKey kv'.1 = normKey kv.1 := List.append_cancel_left hw'e
      exact hmd.1 (List.mem_map.mpr ⟨kv', hkv', this⟩)

/-- under the side conditions no name is written twice -/
theorem nodup_allWrites {conv : T → V → Option HVal} {stmts : List (Stmt T V)}
    (hside : SideOk (stmts.map Stmt.shape))
    (hmd : ∀ md, Stmt.optMetadata (some md) ∈ stmts → (md.map fun kv => normKey kv.1).Nodup) :
    ((allWrites conv stmts).map (·.1)).Nodup := by
  induction stmts with
  | nil => simp [allWrites]
  | cons s rest ih =>
    have hrest := ih (by simpa using hside.tail) (fun md h => hmd md (List.mem_cons_of_mem _ h))
    rw [allWrites_cons, List.map_append, List.nodup_append]
    refine ⟨?_, hrest, ?_⟩
    · cases s with
      | optHeader n t value =>
        cases value with
        | none => simp [stmtWrites]
        | some v =>
          simp only [stmtWrites]
          cases conv t v <;> simp
      | optMetadata md =>
        cases md with
        | none => simp [stmtWrites]
        | some m => exact nodup_mdWrites (hmd m (by simp))
    · intro a ha b hb hab
      subst hab
      obtain ⟨w, hw, rfl⟩ := List.mem_map.mp ha
      obtain ⟨w', hw', hww'⟩ := List.mem_map.mp hb
      have hw'' : w' ∈ allWrites conv rest := hw'
      rcases mem_stmtWrites hw with ⟨n, t, v, rfl, h1, _⟩ | ⟨md, k0, rfl, _, h1⟩
      · -- the head is a header statement
        have hnd := hside.nodup
        simp only [List.map_cons, Stmt.shape, hdrNames, List.filterMap_cons, Shape.hdrName?, List.nodup_cons] at hnd
        rcases mem_allWrites hw'' with ⟨n', t', v', hm, h2, _⟩ | ⟨md', k0', _, _, h2⟩
        · apply hnd.1
          have := mem_stmtHdrNames hm
          rw [← h2, hww', h1] at this
          exact this
        · have hp := hside.noPfx n (by simp [hdrNames, Stmt.shape, Shape.hdrName?])
          apply hp
          rw [← h1, ← hww', h2]
          exact prefix_meta _
      · -- the head is the metadata statement
        rcases mem_allWrites hw'' with ⟨n', t', v', hm, h2, _⟩ | ⟨md', k0', hm, _, _⟩
        · have hp := hside.noPfx n' (by
            have := mem_stmtHdrNames hm
            simp only [List.map_cons, hdrNames, List.filterMap_cons, Stmt.shape, Shape.hdrName?]
            exact this)
          apply hp
          rw [← h2, hww', h1]
          exact prefix_meta _
        · have hc := hside.oneMeta
          simp only [List.map_cons, Stmt.shape, List.countP_cons, Shape.isMeta] at hc
          have hz : (rest.map Stmt.shape).countP Shape.isMeta = 0 := by
            simp only [if_true] at hc; omega
          rw [List.countP_eq_zero] at hz
          exact hz _ (List.mem_map.mpr ⟨_, hm, rfl⟩) rfl

/-- there is one metadata statement at most -/
theorem meta_unique {stmts : List (Stmt T V)} (hc : (stmts.map Stmt.shape).countP Shape.isMeta ≤ 1)
    {a b : Option Metadata} (h1 : Stmt.optMetadata a ∈ stmts) (h2 : Stmt.optMetadata b ∈ stmts) : a = b := by
  induction stmts with
  | nil => cases h1
  | cons s rest ih =>
    simp only [List.map_cons, List.countP_cons] at hc
    rcases List.mem_cons.mp h1 with e1 | m1 <;> rcases List.mem_cons.mp h2 with e2 | m2
    · rw [← e1] at e2; injection e2 with e; exact e.symm
    · subst e1
      simp only [Stmt.shape, Shape.isMeta, if_true] at hc
      have hz : (rest.map Stmt.shape).countP Shape.isMeta = 0 := by omega
      rw [List.countP_eq_zero] at hz
      exact absurd rfl (hz _ (List.mem_map.mpr ⟨_, m2, rfl⟩))
    · subst e2
      simp only [Stmt.shape, Shape.isMeta, if_true] at hc
      have hz : (rest.map Stmt.shape).countP Shape.isMeta = 0 := by omega
      rw [List.countP_eq_zero] at hz
      exact absurd rfl (hz _ (List.mem_map.mpr ⟨_, m1, rfl⟩))
    · exact ih (by omega) m1 m2

theorem inj_of_nodup_map {α β : Type} {f : α → β} {l : List α} (hn : (l.map f).Nodup) {x y : α} (hx : x ∈ l)
    (hy : y ∈ l) (hxy : f x = f y) : x = y := by
  induction l with
  | nil => cases hx
  | cons a rest ih =>
    simp only [List.map_cons, List.nodup_cons] at hn
    rcases List.mem_cons.mp hx with rfl | hx' <;> rcases List.mem_cons.mp hy with rfl | hy'
    · rfl
    · exact absurd (List.mem_map.mpr ⟨y, hy', hxy.symm⟩) hn.1
    · exact absurd (List.mem_map.mpr ⟨x, hx', hxy⟩) hn.1
    · exact ih hn.2 hx' hy'

/-! ## 5. the client-side readers over `wireLines` are lookups -/

/-- a value without white space bytes is handed over unchanged -/
theorem trimOws_of_no_ows {v : Bytes} (h : ∀ c ∈ v, isOws c = false) : trimOws v = v := by
  have drop : ∀ l : Bytes, (∀ c ∈ l, isOws c = false) → l.dropWhile isOws = l := by
    intro l hl
    cases l with
    | nil => rfl
    | cons c cs => simp [List.dropWhile, hl c (by simp)]
  unfold trimOws
  rw [drop v h, drop v.reverse (fun c hc => h c (List.mem_reverse.mp hc)), List.reverse_reverse]


theorem wireLines_cons (k : HName) (vs : List HVal) (rest : Hdrs) :
    wireLines ((k, vs) :: rest) = vs.map (fun v => (k, v)) ++ wireLines rest := by
  simp [wireLines]

theorem mem_wireLines_name {hs : Hdrs} {n : HName} {v : HVal} (h : (n, v) ∈ wireLines hs) : n ∈ names hs := by
  simp only [wireLines, List.mem_flatMap, List.mem_map] at h
  obtain ⟨kv, hkv, v', _, he⟩ := h
  injection he with e1 _
  exact List.mem_map.mpr ⟨kv, hkv, e1⟩

theorem mem_wireLines {hs : Hdrs} (hn : (names hs).Nodup) (n : HName) (v : HVal) :
    (n, v) ∈ wireLines hs ↔ v ∈ hGetAll hs n := by
  induction hs with
  | nil => simp [wireLines, hGetAll]
  | cons kv rest ih =>
    obtain ⟨k, vs⟩ := kv
    simp only [names, List.map_cons, List.nodup_cons] at hn
    rw [wireLines_cons, List.mem_append, ih hn.2]
    by_cases hk : k = n
    · subst hk
      have : hGetAll rest k = [] := hGetAll_eq_nil_of_not_mem hn.1
      simp [hGetAll, this]
    · simp [hGetAll, hk]

theorem fieldValues_append (a b : List Line) (n : Bytes) :
    fieldValues (a ++ b) n = fieldValues a n ++ fieldValues b n := by
  simp [fieldValues]

theorem fieldValues_entry (k : HName) (vs : List HVal) (n : Bytes) :
    fieldValues (vs.map fun v => (k, v)) n = if sameName k n then vs.map trimOws else [] := by
  induction vs with
  | nil => simp [fieldValues]
  | cons v rest ih =>
    simp only [fieldValues] at ih ⊢
    by_cases h : sameName k n = true
    · simp only [h, if_true] at ih ⊢
      simp [h, ih]
    · simp only [h] at ih ⊢
      simp [h, ih]

/-- all field lines of a (lower-case) name = `HeaderMap::get_all(name)`, each value trimmed -/
theorem fieldValues_wireLines {hs : Hdrs} (hw : WFL hs) {n : Bytes} (hl : lowerName n = n) :
    fieldValues (wireLines hs) n = (hGetAll hs n).map trimOws := by
  induction hs with
  | nil => simp [wireLines, fieldValues, hGetAll]
  | cons kv rest ih =>
    obtain ⟨k, vs⟩ := kv
    have hnd := hw.nodup
    simp only [names, List.map_cons, List.nodup_cons] at hnd
    have hrest : WFL rest := ⟨hnd.2, fun m hm => hw.lower m (List.mem_cons_of_mem _ hm)⟩
    have hkl : lowerName k = k := hw.lower k (by simp [names])
    rw [wireLines_cons, fieldValues_append, fieldValues_entry, ih hrest]
    by_cases hk : k = n
    · subst hk
      have : hGetAll rest k = [] := hGetAll_eq_nil_of_not_mem hnd.1
      simp [sameName, hGetAll, this]
    · have : sameName k n = false := by simp [sameName, hkl, hl, hk]
      simp [this, hGetAll, hk]

/-- a pair of the prefix-headers map = a (trimmed) value of the header `prefix ++ key` -/
theorem mem_readPrefix_wireLines {hs : Hdrs} (hw : WFL hs) {pfx : Bytes} (hp : lowerName pfx = pfx) (k v : Bytes) :
    (k, v) ∈ readPrefix (wireLines hs) pfx ↔ ∃ v0, v0 ∈ hGetAll hs (pfx ++ k) ∧ v = trimOws v0 := by
  simp only [readPrefix, List.mem_filterMap, hp]
  constructor
  · rintro ⟨⟨n, v'⟩, hmem, hite⟩
    have hnl : lowerName n = n := hw.lower n (mem_wireLines_name hmem)
    simp only [hnl] at hite
    split at hite
    · rename_i hpre
      obtain ⟨t, rfl⟩ := List.isPrefixOf_iff_prefix.mp hpre
      rw [List.drop_left] at hite
      injection hite with hite
      injection hite with e1 e2
      subst e1
      exact ⟨v', (mem_wireLines hw.nodup _ _).mp hmem, e2.symm⟩
    · cases hite
  · rintro ⟨v0, hv, rfl⟩
    have hmem := (mem_wireLines hw.nodup _ _).mpr hv
    have hnl : lowerName (pfx ++ k) = pfx ++ k := hw.lower _ (mem_wireLines_name hmem)
    refine ⟨(pfx ++ k, v0), hmem, ?_⟩
    simp only [hnl]
    have : pfx.isPrefixOf (pfx ++ k) = true := List.isPrefixOf_iff_prefix.mpr (List.prefix_append _ _)
    simp [this]

/-! ## 6. what the serialized map holds, and what is read back from any post-processing of it that leaves
the relevant names alone -/

/-- the hypotheses of the round trip -/
structure Setup (full : Hdrs → HName → Bool) (conv : T → V → Option HVal) (init : Hdrs) (stmts : List (Stmt T V))
    (ser : Hdrs) : Prop where
  /-- side conditions on the statement shapes (decided on the generated table) -/
  side : SideOk (stmts.map Stmt.shape)
  /-- keys of the metadata map stay distinct as header names (header names are case-insensitive) -/
  md : ∀ md, Stmt.optMetadata (some md) ∈ stmts → (md.map fun kv => normKey kv.1).Nodup
  /-- the map the body setter left is a header map … -/
  initWF : WFL init
  /-- … that holds neither a member's name nor a prefixed name -/
  initM : ∀ n ∈ names init, n ∉ stmtHdrNames stmts ∧ ¬ metaPrefix <+: n
  /-- `serialize_http` returned `Ok` with these headers -/
  ser : serializeHeaders full conv init stmts = .ok ser

section
variable {full : Hdrs → HName → Bool} {conv : T → V → Option HVal} {init : Hdrs} {stmts : List (Stmt T V)}
  {ser : Hdrs}

theorem Setup.ser_eq (S : Setup full conv init stmts ser) : ser = applyWrites init (allWrites conv stmts) :=
  (serializeHeaders_ok S.ser).2

theorem Setup.nodupW (S : Setup full conv init stmts ser) : ((allWrites conv stmts).map (·.1)).Nodup :=
  nodup_allWrites S.side S.md

/-- a member that is set: its header holds exactly the converted value -/
theorem Setup.member_some (S : Setup full conv init stmts ser) {n : HName} {t : T} {v : V}
    (hm : Stmt.optHeader n t (some v) ∈ stmts) : ∃ text, conv t v = some text ∧ hGetAll ser n = [text] := by
  have hok := (serializeHeaders_ok S.ser).1 _ hm
  simp only [StmtOk] at hok
  cases hc : conv t v with
  | none => simp [hc] at hok
  | some text =>
    refine ⟨text, rfl, ?_⟩
    rw [S.ser_eq]
    apply hGetAll_applyWrites_of_mem S.nodupW
    exact List.mem_flatMap.mpr ⟨_, hm, by simp [stmtWrites, hc]⟩

/-- a member that is not set: no header of its name -/
theorem Setup.member_none (S : Setup full conv init stmts ser) {n : HName} {t : T}
    (hm : Stmt.optHeader n t none ∈ stmts) : hGetAll ser n = [] := by
  have hnot : n ∉ (allWrites conv stmts).map (·.1) := by
    intro hin
    obtain ⟨w, hw, hwn⟩ := List.mem_map.mp hin
    rcases mem_allWrites hw with ⟨n', t', v', hm', h1, _⟩ | ⟨md, k0, _, _, h1⟩
    · rw [hwn] at h1; subst h1
      have := hdr_unique S.side.nodup hm hm'
      cases this
    · apply S.side.noPfx n (mem_stmtHdrNames hm)
      rw [← hwn, h1]; exact prefix_meta _
  rw [S.ser_eq, hGetAll_applyWrites_of_not_mem hnot]
  apply hGetAll_eq_nil_of_not_mem
  intro hin
  exact (S.initM n hin).1 (mem_stmtHdrNames hm)

/-- the headers of prefixed names: exactly the pairs of the metadata map, under the normalised keys -/
theorem Setup.prefixed (S : Setup full conv init stmts ser) (k v : Bytes) :
    v ∈ hGetAll ser (metaPrefix ++ k) ↔
      ∃ md k0, Stmt.optMetadata (some md) ∈ stmts ∧ (k0, v) ∈ md ∧ k = normKey k0 := by
  rw [S.ser_eq]
  constructor
  · intro hv
    by_cases hin : metaPrefix ++ k ∈ (allWrites conv stmts).map (·.1)
    · obtain ⟨w, hw, hwn⟩ := List.mem_map.mp hin
      have hget := hGetAll_applyWrites_of_mem S.nodupW (m := w.1) (t := w.2) hw init
      rw [hwn] at hget
      rw [hget, List.mem_singleton] at hv
      rcases mem_allWrites hw with ⟨n', t', v', hm', h1, _⟩ | ⟨md, k0, hm', h2, h1⟩
      · exfalso
        apply S.side.noPfx n' (mem_stmtHdrNames hm')
        rw [← h1, hwn]; exact prefix_meta _
      · rw [hwn] at h1
        exact ⟨md, k0, hm', by rw [hv]; exact h2, List.append_cancel_left h1⟩
    · rw [hGetAll_applyWrites_of_not_mem hin] at hv
      have : hGetAll init (metaPrefix ++ k) = [] := by
        apply hGetAll_eq_nil_of_not_mem
        intro hin'
        exact (S.initM _ hin').2 (prefix_meta _)
      rw [this] at hv; cases hv
  · rintro ⟨md, k0, hm, hkv, rfl⟩
    have hok := (serializeHeaders_ok S.ser).1 _ hm
    simp only [StmtOk] at hok
    have hsome := hok _ hkv
    cases hw : mdWrite (k0, v) with
    | none => simp [hw] at hsome
    | some w =>
      have hwe := mdWrite_eq_some hw
      have hmem : (metaPrefix ++ normKey k0, v) ∈ allWrites conv stmts := by
        refine List.mem_flatMap.mpr ⟨_, hm, ?_⟩
        simp only [stmtWrites, List.mem_filterMap]
        exact ⟨(k0, v), hkv, by rw [hw, hwe]⟩
      rw [hGetAll_applyWrites_of_mem S.nodupW hmem]
      simp

/-- names the statements do not write keep what the body setter left -/
theorem Setup.frame (S : Setup full conv init stmts ser) {m : HName} (h1 : m ∉ stmtHdrNames stmts)
    (h2 : ¬ metaPrefix <+: m) : hGetAll ser m = hGetAll init m := by
  rw [S.ser_eq]
  apply hGetAll_applyWrites_of_not_mem
  intro hin
  obtain ⟨w, hw, hwn⟩ := List.mem_map.mp hin
  rcases mem_allWrites hw with ⟨n', t', v', hm', h3, _⟩ | ⟨md, k0, _, _, h3⟩
  · apply h1; rw [← hwn, h3]; exact mem_stmtHdrNames hm'
  · apply h2; rw [← hwn, h3]; exact prefix_meta _

theorem Setup.serWF (S : Setup full conv init stmts ser) : WFL ser := by
  rw [S.ser_eq]
  apply WFL_applyWrites S.initWF
  intro n hin
  obtain ⟨w, hw, hwn⟩ := List.mem_map.mp hin
  rcases mem_allWrites hw with ⟨n', t', v', hm', h3, _⟩ | ⟨md, k0, _, _, h3⟩
  · rw [← hwn, h3]; exact S.side.lower n' (mem_stmtHdrNames hm')
  · rw [← hwn, h3, lowerName_append, lowerName_metaPrefix, lowerName_normKey]

/-- MEMBERS. `final` is the header map that goes on the wire; if it holds for the member's name what the
    serialized map holds, the client reads the member back: the value set, or absent. The codec hypothesis is
    about what the client's parser is handed: the converted text without surrounding white space. -/
theorem Setup.read_member (S : Setup full conv init stmts ser) {dec : T → HVal → Option V}
    {final : Hdrs} (hwf : WFL final) {n : HName} {t : T} {val : Option V}
    (hm : Stmt.optHeader n t val ∈ stmts)
    (hcodec : ∀ v text, val = some v → conv t v = some text → dec t (trimOws text) = some v)
    (hag : hGetAll final n = hGetAll ser n) :
    readTyped (dec t) (wireLines final) n = val.map some := by
  have hl : lowerName n = n := S.side.lower n (mem_stmtHdrNames hm)
  simp only [readTyped, readMember, fieldValues_wireLines hwf hl, hag]
  cases val with
  | none => simp [S.member_none hm]
  | some v =>
    obtain ⟨text, hc, hg⟩ := S.member_some hm
    simp [hg, combine, hcodec v text rfl hc]

/-- METADATA. If `final` holds for every prefixed name what the serialized map holds, the prefix-headers map
    the client reads is, as a set of pairs, the metadata map under the normalised keys, values trimmed. -/
theorem Setup.read_prefix (S : Setup full conv init stmts ser) {final : Hdrs} (hwf : WFL final)
    (hag : ∀ k, hGetAll final (metaPrefix ++ k) = hGetAll ser (metaPrefix ++ k)) (k v : Bytes) :
    (k, v) ∈ readPrefix (wireLines final) metaPrefix ↔
      ∃ md k0 v0, Stmt.optMetadata (some md) ∈ stmts ∧ (k0, v0) ∈ md ∧ k = normKey k0 ∧ v = trimOws v0 := by
  rw [mem_readPrefix_wireLines hwf lowerName_metaPrefix, hag]
  constructor
  · rintro ⟨v0, hv0, hv⟩
    obtain ⟨md, k0, hm, hkv, hk⟩ := (S.prefixed k v0).mp hv0
    exact ⟨md, k0, v0, hm, hkv, hk, hv⟩
  · rintro ⟨md, k0, v0, hm, hkv, hk, hv⟩
    exact ⟨v0, (S.prefixed k v0).mpr ⟨md, k0, hm, hkv, hk⟩, hv⟩

/-- … and it is a map: one value per key -/
theorem Setup.read_prefix_functional (S : Setup full conv init stmts ser) {final : Hdrs} (hwf : WFL final)
    (hag : ∀ k, hGetAll final (metaPrefix ++ k) = hGetAll ser (metaPrefix ++ k)) {k v v' : Bytes}
    (h1 : (k, v) ∈ readPrefix (wireLines final) metaPrefix) (h2 : (k, v') ∈ readPrefix (wireLines final) metaPrefix) :
    v = v' := by
  obtain ⟨md, k0, v0, hm, hkv, hk, hv⟩ := (S.read_prefix hwf hag k v).mp h1
  obtain ⟨md', k0', v0', hm', hkv', hk', hv'⟩ := (S.read_prefix hwf hag k v').mp h2
  have : some md = some md' := meta_unique S.side.oneMeta hm hm'
  injection this with this
  subst this
  have := inj_of_nodup_map (S.md md hm) hkv hkv' (by simp only; rw [← hk, ← hk'])
  injection this with _ e
  rw [hv, hv', e]

end

/-- THE METADATA CLAUSE, as a statement about the field lines a client receives: the prefix-headers map is,
    as a set of pairs, the metadata map the backend returned, each key in its normalised (`normKey`:
    lower-case) form and each value without surrounding white space — hence the very same set of pairs when
    keys are lower-case and values trimmed already; it has one value per key; it is empty when the backend
    returned no map -/
structure MetadataReadBack (stmts : List (Stmt T V)) (lines : List Line) : Prop where
  pairs : ∀ md, Stmt.optMetadata (some md) ∈ stmts →
    ∀ k v, (k, v) ∈ readPrefix lines metaPrefix ↔ ∃ k0 v0, (k0, v0) ∈ md ∧ k = normKey k0 ∧ v = trimOws v0
  canonical : ∀ md, Stmt.optMetadata (some md) ∈ stmts → (∀ kv ∈ md, normKey kv.1 = kv.1 ∧ trimOws kv.2 = kv.2) →
    ∀ k v, (k, v) ∈ readPrefix lines metaPrefix ↔ (k, v) ∈ md
  functional : ∀ k v v', (k, v) ∈ readPrefix lines metaPrefix → (k, v') ∈ readPrefix lines metaPrefix → v = v'
  absent : (∀ md, Stmt.optMetadata (some md) ∉ stmts) → readPrefix lines metaPrefix = []

section
variable {full : Hdrs → HName → Bool} {conv : T → V → Option HVal} {init : Hdrs} {stmts : List (Stmt T V)}
  {ser : Hdrs}

theorem Setup.metadataReadBack (S : Setup full conv init stmts ser) {final : Hdrs} (hwf : WFL final)
    (hag : ∀ k, hGetAll final (metaPrefix ++ k) = hGetAll ser (metaPrefix ++ k)) :
    MetadataReadBack stmts (wireLines final) := by
  have pairs : ∀ md, Stmt.optMetadata (some md) ∈ stmts →
      ∀ k v, (k, v) ∈ readPrefix (wireLines final) metaPrefix ↔
        ∃ k0 v0, (k0, v0) ∈ md ∧ k = normKey k0 ∧ v = trimOws v0 := by
    intro md hm k v
    rw [S.read_prefix hwf hag]
    constructor
    · rintro ⟨md', k0, v0, hm', hkv, hk, hv⟩
      have : some md' = some md := meta_unique S.side.oneMeta hm' hm
      injection this with this
      subst this
      exact ⟨k0, v0, hkv, hk, hv⟩
    · rintro ⟨k0, v0, hkv, hk, hv⟩
      exact ⟨md, k0, v0, hm, hkv, hk, hv⟩
  refine ⟨pairs, ?_, fun k v v' => S.read_prefix_functional hwf hag, ?_⟩
  · intro md hm hcan k v
    rw [pairs md hm]
    constructor
    · rintro ⟨k0, v0, hkv, hk, hv⟩
      rw [hk, hv, (hcan _ hkv).1, (hcan _ hkv).2]; exact hkv
    · intro hkv
      exact ⟨k, v, hkv, (hcan _ hkv).1.symm, (hcan _ hkv).2.symm⟩
  · intro hno
    apply List.eq_nil_iff_forall_not_mem.mpr
    rintro ⟨k, v⟩ hkv
    obtain ⟨md, _, _, hm, _⟩ := (S.read_prefix hwf hag k v).mp hkv
    exact hno md hm

end

/-! ## 7. the two post-processings of the serialized map in `Operation::call` -/

theorem hGetAll_hExtend_of_not_mem {src : Hdrs} (hn : (names src).Nodup) {m : HName} (hm : m ∉ names src) (h : Hdrs) :
    hGetAll (hExtend h src) m = hGetAll h m := by
  rw [hGetAll_hExtend _ _ hn, srcLookup_none_of_not_mem hm]; rfl

theorem hGetAll_hExtend_of_mem {src : Hdrs} (hn : (names src).Nodup) {n : HName} {vs : List HVal}
    (hm : (n, vs) ∈ src) (h : Hdrs) : hGetAll (hExtend h src) n = vs := by
  rw [hGetAll_hExtend _ _ hn, srcLookup_of_mem hn hm]; rfl

theorem WFL_mergeCustomHeaders {h : Hdrs} (hw : WFL h) {s3hdrs : Hdrs} (hs : WFL s3hdrs) :
    WFL (mergeCustomHeaders h s3hdrs) := by
  have h1 : WFL (hExtend h s3hdrs) := WFL_hExtend hw hs.lower
  simp only [mergeCustomHeaders]
  split
  · split
    · exact WFL_hRemove h1 _
    · exact h1
  · exact h1

/-- `merge_custom_headers` leaves every name but `content-length` as `extend` made it -/
theorem hGetAll_mergeCustomHeaders_ne (h s3hdrs : Hdrs) {m : HName} (hm : m ≠ hContentLength) :
    hGetAll (mergeCustomHeaders h s3hdrs) m = hGetAll (hExtend h s3hdrs) m := by
  simp only [mergeCustomHeaders]
  split
  · split
    · exact hGetAll_hRemove_ne _ _ _ hm
    · rfl
  · rfl

/-- … and `content-length` too unless the merged `transfer-encoding` is `chunked` -/
theorem hGetAll_mergeCustomHeaders_not_chunked (h s3hdrs : Hdrs)
    (hc : hGet (hExtend h s3hdrs) hTransferEncoding ≠ some vChunked) (m : HName) :
    hGetAll (mergeCustomHeaders h s3hdrs) m = hGetAll (hExtend h s3hdrs) m := by
  simp only [mergeCustomHeaders]
  split
  · rename_i v hv
    split
    · rename_i hvc
      rw [hv, hvc] at hc
      exact absurd rfl hc
    · rfl
  · rfl

/-! ## 8. Boolean forms for kernel evaluation -/

def stmtOkB (conv : T → V → Option HVal) : Stmt T V → Bool
  | .optHeader _ t (some v) => (conv t v).isSome
  | .optHeader _ _ none => true
  | .optMetadata none => true
  | .optMetadata (some md) => md.all fun kv => (mdWrite kv).isSome

theorem stmtOkB_iff (conv : T → V → Option HVal) (s : Stmt T V) : stmtOkB conv s = true ↔ StmtOk conv s := by
  cases s with
  | optHeader n t value => cases value <;> simp [stmtOkB, StmtOk]
  | optMetadata md => cases md <;> simp [stmtOkB, StmtOk]

theorem stmtOk_of_all {conv : T → V → Option HVal} {stmts : List (Stmt T V)}
    (h : stmts.all (stmtOkB conv) = true) : ∀ s ∈ stmts, StmtOk conv s :=
  fun s hs => (stmtOkB_iff conv s).mp (List.all_eq_true.mp h s hs)

end

end S3V.HttpSerThm
