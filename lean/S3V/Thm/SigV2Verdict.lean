import S3V.Thm.SigV2Sts
import S3V.Thm.SigV2Inj
/-!
# Lemmas: when the V2 branches of `SignatureContext::check` accept (C11)
-/
namespace S3V.SigV2Thm
open S3V S3V.SigV2

/-- the V2 credentials the code reads off a request -/
structure Presented where
  mode : Mode
  accessKey : Bytes
  signature : Bytes
  /-- `expires_time` of a presigned URL, in nanoseconds since the epoch -/
  expiresNs : Option Int
deriving DecidableEq, Repr

/-- which credentials `check` looks at: none when `authorization` is repeated; the query parameters as
    soon as the query has `Signature` (also when they do not parse: no fall-back to the header);
    otherwise the `AWS ak:sig` header -/
def presented (c : Ctx) : Option Presented :=
  if ((getAll c.hs (v2b!"authorization")).drop 1).isEmpty then
    match presignedQs c.qs with
    | some q => (parsePresigned q).map fun p => ⟨.presignedUrl, p.accessKey, p.signature, some p.expiresNs⟩
    | none =>
      match getUnique c.hs (v2b!"authorization") with
      | none => none
      | some a => (parseAuthV2 a).map fun x => ⟨.headerAuth, x.1, x.2, none⟩
  else none

/-- `v2_check_header_auth` insists on a time stamp -/
def hasDate (c : Ctx) : Bool :=
  !(getAll c.hs (v2b!"date")).isEmpty || !(getAll c.hs (v2b!"x-amz-date")).isEmpty

def stsOf (m : Mode) (c : Ctx) : Bytes := stringToSign m c.method c.uriPath c.qs c.hs c.vhBucket

/-- the `SignatureContext` of a request as the specification sees it -/
def ctxOf (r : SigV2Spec.Req) : Ctx := ⟨r.method, r.path, implQs r, implHeaders r, r.vhBucket⟩

theorem stsOf_ctxOf (mode : SigV2Spec.Mode) (r : SigV2Spec.Req) : stsOf (implMode mode) (ctxOf r) = stsImpl mode r := rfl

theorem check_accept_iff (hmac : Bytes → Bytes → Bytes) (b64 : Bytes → Bytes) (lookup : Bytes → Option Bytes)
    (nowNs : Int) (c : Ctx) (ak : Bytes) :
    check hmac b64 lookup nowNs c = .accept ak ↔
      ∃ p secret, presented c = some p ∧ p.accessKey = ak ∧ lookup ak = some secret ∧
        p.signature = b64 (hmac secret (stsOf p.mode c)) ∧
        (p.mode = .headerAuth → hasDate c = true) ∧
        (∀ e, p.expiresNs = some e → nowNs ≤ e) := by
  unfold check presented
  by_cases hdup : ((getAll c.hs (v2b!"authorization")).drop 1).isEmpty = true
  · simp only [hdup, if_true]
    unfold v2Check
    cases hq : presignedQs c.qs with
    | some q =>
      simp only [checkPresigned]
      cases hp : parsePresigned q with
      | none => simp
      | some p =>
        simp only [Option.map_some]
        by_cases hexp : nowNs > p.expiresNs
        · simp only [hexp, if_true]
          constructor
          · intro h; cases h
          · rintro ⟨p', secret, h1, -, -, -, -, h6⟩
            simp only [Option.some.injEq] at h1
            subst h1
            have := h6 p.expiresNs rfl
            omega
        · simp only [hexp, if_false]
          cases hl : lookup p.accessKey with
          | none =>
            constructor
            · intro h; cases h
            · rintro ⟨p', secret, h1, h2, h3, -⟩
              simp only [Option.some.injEq] at h1
              subst h1
              simp only at h2
              rw [← h2, hl] at h3; cases h3
          | some secret =>
            simp only [calcSignature]
            by_cases hs : b64 (hmac secret (stringToSign .presignedUrl c.method c.uriPath c.qs c.hs c.vhBucket)) = p.signature
            · simp only [hs, ne_eq, not_true_eq_false, if_false, Verdict.accept.injEq]
              constructor
              · intro h
                refine ⟨_, secret, rfl, h, by rw [← h]; exact hl, hs.symm, by simp, ?_⟩
                intro e he; simp only [Option.some.injEq] at he; subst he; omega
              · rintro ⟨p', secret', h1, h2, -⟩
                simp only [Option.some.injEq] at h1
                subst h1; exact h2
            · simp only [ne_eq, hs, not_false_eq_true, if_true]
              constructor
              · intro h; cases h
              · rintro ⟨p', secret', h1, h2, h3, h4, -⟩
                simp only [Option.some.injEq] at h1
                subst h1
                simp only at h2 h4
                rw [← h2, hl] at h3
                simp only [Option.some.injEq] at h3
                subst h3
                exact absurd h4.symm hs
    | none =>
      simp only
      cases ha : getUnique c.hs (v2b!"authorization") with
      | none => simp
      | some a =>
        simp only
        cases hp : parseAuthV2 a with
        | none => simp
        | some x =>
          obtain ⟨ak', sg⟩ := x
          simp only [Option.map_some, checkHeaderAuth]
          have hd : (!(getAll c.hs (v2b!"date")).isEmpty || !(getAll c.hs (v2b!"x-amz-date")).isEmpty)
              = hasDate c := rfl
          rw [hd]
          by_cases hdate : hasDate c = true
          · simp only [hdate, Bool.not_true, Bool.false_eq_true, if_false]
            cases hl : lookup ak' with
            | none =>
              constructor
              · intro h; cases h
              · rintro ⟨p', secret, h1, h2, h3, -⟩
                simp only [Option.some.injEq] at h1
                subst h1
                simp only at h2
                rw [← h2, hl] at h3; cases h3
            | some secret =>
              simp only [calcSignature]
              by_cases hs : b64 (hmac secret (stringToSign .headerAuth c.method c.uriPath c.qs c.hs c.vhBucket)) = sg
              · simp only [hs, ne_eq, not_true_eq_false, if_false, Verdict.accept.injEq]
                constructor
                · intro h
                  refine ⟨_, secret, rfl, h, by rw [← h]; exact hl, hs.symm, fun _ => trivial, ?_⟩
                  intro e he; cases he
                · rintro ⟨p', secret', h1, h2, -⟩
                  simp only [Option.some.injEq] at h1
                  subst h1; exact h2
              · simp only [ne_eq, hs, not_false_eq_true, if_true]
                constructor
                · intro h; cases h
                · rintro ⟨p', secret', h1, h2, h3, h4, -⟩
                  simp only [Option.some.injEq] at h1
                  subst h1
                  simp only at h2 h4
                  rw [← h2, hl] at h3
                  simp only [Option.some.injEq] at h3
                  subst h3
                  exact absurd h4.symm hs
          · have hdate' : hasDate c = false := by simpa using hdate
            simp only [hdate', Bool.not_false, if_true]
            constructor
            · intro h; cases h
            · rintro ⟨p', secret, h1, -, -, -, h5, -⟩
              simp only [Option.some.injEq] at h1
              subst h1
              have := h5 rfl
              cases this
  · simp only [hdup, Bool.false_eq_true, if_false]
    constructor
    · intro h; cases h
    · rintro ⟨p, secret, h1, -⟩; cases h1

end S3V.SigV2Thm
