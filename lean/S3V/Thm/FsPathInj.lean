import S3V.Thm.FsPathNames
/-!
# Lemmas: the bookkeeping names determine what they belong to (C17)

Assumption on the encoder (`base64_simd::URL_SAFE_NO_PAD`): injective, output without `.`; UUID texts without `.`.
-/
namespace S3V.FsPath

theorem split_at_dot {x x' r r' : Bytes} (hx : (46 : UInt8) ∉ x) (hx' : (46 : UInt8) ∉ x')
    (h : x ++ 46 :: r = x' ++ 46 :: r') : x = x' ∧ r = r' := by
  induction x generalizing x' with
  | nil =>
    cases x' with
    | nil => simpa using h
    | cons c cs =>
      simp only [List.nil_append, List.cons_append, List.cons.injEq] at h
      exact absurd (by simp [← h.1]) hx'
  | cons a as ih =>
    cases x' with
    | nil =>
      simp only [List.nil_append, List.cons_append, List.cons.injEq] at h
      exact absurd (by simp [h.1]) hx
    | cons c cs =>
      simp only [List.cons_append, List.cons.injEq] at h
      obtain ⟨rfl, h⟩ := h
      obtain ⟨h1, h2⟩ := ih (fun m => hx (List.mem_cons_of_mem _ m)) (fun m => hx' (List.mem_cons_of_mem _ m)) h
      exact ⟨by rw [h1], h2⟩

def NoDot (s : Bytes) : Prop := (46 : UInt8) ∉ s

/-- the tail after the encoded key: `[.upload-<uuid>].metadata.json` or `.internal.json`, without its first `.` -/
def metaTail (u : Option Bytes) : Bytes :=
  (match u with | some u => [117, 112, 108, 111, 97, 100, 45] ++ u ++ sMetadataJson | none => [109, 101, 116, 97, 100, 97, 116, 97, 46, 106, 115, 111, 110])
def infoTail : Bytes := [105, 110, 116, 101, 114, 110, 97, 108, 46, 106, 115, 111, 110]

theorem metadataName_eq (enc : Bytes → Bytes) (b k : Bytes) (u : Option Bytes) :
    metadataName enc b k u =
      sBucket ++ (enc b ++ 46 :: ([111, 98, 106, 101, 99, 116, 45] ++ (enc k ++ 46 :: metaTail u))) := by
  cases u <;> simp [metadataName, metaTail, sObject, sUpload, sMetadataJson]

theorem internalInfoName_eq (enc : Bytes → Bytes) (b k : Bytes) :
    internalInfoName enc b k =
      sBucket ++ (enc b ++ 46 :: ([111, 98, 106, 101, 99, 116, 45] ++ (enc k ++ 46 :: infoTail))) := by
  simp [internalInfoName, infoTail, sObject, sInternalJson]

theorem objName_inj {enc : Bytes → Bytes} (hd : ∀ x, NoDot (enc x)) {b k b' k' t t' : Bytes}
    (h : sBucket ++ (enc b ++ 46 :: ([111, 98, 106, 101, 99, 116, 45] ++ (enc k ++ 46 :: t))) =
         sBucket ++ (enc b' ++ 46 :: ([111, 98, 106, 101, 99, 116, 45] ++ (enc k' ++ 46 :: t')))) :
    enc b = enc b' ∧ enc k = enc k' ∧ t = t' := by
  have h1 := List.append_cancel_left h
  obtain ⟨hb, h2⟩ := split_at_dot (hd b) (hd b') h1
  have h3 := List.append_cancel_left h2
  obtain ⟨hk, h4⟩ := split_at_dot (hd k) (hd k') h3
  exact ⟨hb, hk, h4⟩

theorem metaTail_inj {u u' : Option Bytes} (hu : ∀ x, u = some x → NoDot x) (hu' : ∀ x, u' = some x → NoDot x)
    (h : metaTail u = metaTail u') : u = u' := by
  cases u with
  | none =>
    cases u' with
    | none => rfl
    | some y => simp [metaTail] at h
  | some x =>
    cases u' with
    | none => simp [metaTail] at h
    | some y =>
      simp only [metaTail, List.append_assoc] at h
      have h1 := List.append_cancel_left h
      have : sMetadataJson = 46 :: [109, 101, 116, 97, 100, 97, 116, 97, 46, 106, 115, 111, 110] := rfl
      rw [this] at h1
      rw [(split_at_dot (hu x rfl) (hu' y rfl) h1).1]

theorem metaTail_ne_infoTail (u : Option Bytes) : metaTail u ≠ infoTail := by
  cases u <;> simp [metaTail, infoTail]

/-- metadata file names are in one-to-one correspondence with (bucket, key, upload) -/
theorem metadataName_inj {enc : Bytes → Bytes} (hi : ∀ x y, enc x = enc y → x = y) (hd : ∀ x, NoDot (enc x))
    {b k b' k' : Bytes} {u u' : Option Bytes} (hu : ∀ x, u = some x → NoDot x) (hu' : ∀ x, u' = some x → NoDot x)
    (h : metadataName enc b k u = metadataName enc b' k' u') : b = b' ∧ k = k' ∧ u = u' := by
  rw [metadataName_eq, metadataName_eq] at h
  obtain ⟨hb, hk, ht⟩ := objName_inj hd h
  exact ⟨hi _ _ hb, hi _ _ hk, metaTail_inj hu hu' ht⟩

theorem internalInfoName_inj {enc : Bytes → Bytes} (hi : ∀ x y, enc x = enc y → x = y) (hd : ∀ x, NoDot (enc x))
    {b k b' k' : Bytes} (h : internalInfoName enc b k = internalInfoName enc b' k') : b = b' ∧ k = k' := by
  rw [internalInfoName_eq, internalInfoName_eq] at h
  obtain ⟨hb, hk, _⟩ := objName_inj hd h
  exact ⟨hi _ _ hb, hi _ _ hk⟩

theorem metadataName_ne_internalInfoName {enc : Bytes → Bytes} (hd : ∀ x, NoDot (enc x))
    (b k b' k' : Bytes) (u : Option Bytes) : metadataName enc b k u ≠ internalInfoName enc b' k' := by
  intro h
  rw [metadataName_eq, internalInfoName_eq] at h
  exact metaTail_ne_infoTail u (objName_inj hd h).2.2

theorem uploadInfoName_inj {u u' : Bytes} (hu : NoDot u) (hu' : NoDot u')
    (h : uploadInfoName u = uploadInfoName u') : u = u' := by
  simp only [uploadInfoName, List.append_assoc] at h
  have h1 := List.append_cancel_left h
  have : sJson = 46 :: [106, 115, 111, 110] := rfl
  rw [this] at h1
  exact (split_at_dot hu hu' h1).1

theorem noDot_natDigits (n : Nat) : NoDot (natDigits n) := by
  intro h
  have := S3V.fmtDec_all_digits n 46 h
  simp [S3V.isDigit] at this

theorem natDigits_inj {a b : Nat} (h : natDigits a = natDigits b) : a = b := by
  have h1 := S3V.digitsVal_fmtDec_zero a
  have h2 := S3V.digitsVal_fmtDec_zero b
  unfold natDigits at h
  rw [h, h2] at h1
  exact (Option.some.inj h1).symm

theorem natDigits_head_ne_minus (n : Nat) : (natDigits n).head? ≠ some 45 := by
  intro h
  have hne := S3V.fmtDec_ne_nil n
  cases hd : natDigits n with
  | nil => exact hne hd
  | cons c cs =>
    rw [hd] at h
    simp at h
    have := S3V.fmtDec_all_digits n c (by unfold natDigits at hd; rw [hd]; simp)
    rw [h] at this
    simp [S3V.isDigit] at this

theorem intText_inj {a b : Int} (h : intText a = intText b) : a = b := by
  unfold intText at h
  by_cases ha : a < 0 <;> by_cases hb : b < 0 <;> simp only [ha, hb, ↓reduceIte] at h
  · have := natDigits_inj (List.cons.inj h).2
    omega
  · exact absurd (by rw [← h]; rfl) (natDigits_head_ne_minus b.natAbs)
  · exact absurd (by rw [h]; rfl) (natDigits_head_ne_minus a.natAbs)
  · have := natDigits_inj h
    omega

/-- part file names are in one-to-one correspondence with (upload, part number) -/
theorem uploadPartName_inj {u u' : Bytes} {n n' : Int} (hu : NoDot u) (hu' : NoDot u')
    (h : uploadPartName u n = uploadPartName u' n') : u = u' ∧ n = n' := by
  simp only [uploadPartName, uploadPartPrefix, List.append_assoc] at h
  have h1 := List.append_cancel_left h
  have : ∀ t, sPart ++ t = 46 :: ([112, 97, 114, 116, 45] ++ t) := fun _ => rfl
  rw [this, this] at h1
  obtain ⟨hu1, h2⟩ := split_at_dot hu hu' h1
  exact ⟨hu1, intText_inj (List.append_cancel_left h2)⟩

theorem tmpName_inj {a b : Nat} (h : tmpName a = tmpName b) : a = b := by
  simp only [tmpName, List.append_assoc] at h
  have h1 := List.append_cancel_left h
  have : sInternalPart = 46 :: [105, 110, 116, 101, 114, 110, 97, 108, 46, 112, 97, 114, 116] := rfl
  rw [this] at h1
  exact natDigits_inj (split_at_dot (noDot_natDigits a) (noDot_natDigits b) h1).1

/-- names of different kinds never coincide (they differ within their fixed prefixes) -/
theorem kinds_disjoint (enc : Bytes → Bytes) (b k : Bytes) (uo : Option Bytes) (u u' : Bytes) (n : Int) (c : Nat) :
    metadataName enc b k uo ≠ uploadInfoName u ∧ metadataName enc b k uo ≠ uploadPartName u n ∧
    metadataName enc b k uo ≠ tmpName c ∧ internalInfoName enc b k ≠ uploadInfoName u ∧
    internalInfoName enc b k ≠ uploadPartName u n ∧ internalInfoName enc b k ≠ tmpName c ∧
    uploadInfoName u ≠ uploadPartName u' n ∧ uploadInfoName u ≠ tmpName c ∧ uploadPartName u n ≠ tmpName c := by
  refine ⟨?_, ?_, ?_, ?_, ?_, ?_, ?_, ?_, ?_⟩ <;>
    simp [metadataName, internalInfoName, uploadInfoName, uploadPartName, uploadPartPrefix, tmpName, sBucket, sUpload,
      sUploadId, sTmp]

end S3V.FsPath

namespace S3V.FsPath

/-- the single component of a bucket string that starts with a lower-case letter or digit starts with that byte -/
theorem bucket_comp_head {b bn : Bytes} (hf : bucketNameFirstOk b = true) (hc : components b = [.normal bn]) :
    bn.head? ≠ some 46 := by
  cases b with
  | nil => simp [bucketNameFirstOk] at hf
  | cons c cs =>
    have hc46 : c ≠ 46 := by
      intro e; subst e; simp [bucketNameFirstOk] at hf
    have hc47 : c ≠ 47 := by
      intro e; subst e; simp [bucketNameFirstOk] at hf
    obtain ⟨s, r, _, h2⟩ := splitSlash_cons_ne hc47 cs
    have hseg : segComp (c :: s) = some (.normal (c :: s)) := by
      unfold segComp
      rw [if_neg (by simp), if_neg (by intro e; exact hc46 (List.cons.inj e).1),
        if_neg (by intro e; exact hc46 (List.cons.inj e).1)]
    have hbody : body (c :: cs) = .normal (c :: s) :: r.filterMap segComp := by
      simp [body, h2, hseg]
    have hrel : isAbsolute (c :: cs) = false := by
      unfold isAbsolute
      split
      · rename_i heq; cases heq; exact absurd rfl hc47
      · rfl
    rcases components_rel_cases hrel with h' | h' <;> rw [hc, hbody] at h'
    · have := (List.cons.inj h').1
      cases this
      simp [hc46]
    · cases h'

end S3V.FsPath
