import S3V.Spec.Xml
import S3V.Thm.XmlUtf8b
/-!
Line ends (XML 1.0 §2.11): what `xml/de.rs` does to a text piece or a CDATA section (`Xml.normText` /
`Xml.normLineEnds`: nothing without a CR, otherwise `replace("\r\n", "\n")` then `replace('\r', "\n")`; code since
d365e05) is the specification's one-pass `XmlSpec.normEol`, and it keeps UTF-8 valid.
-/
namespace S3V.XmlSpec
open S3V S3V.Xml

/-! ### `normEol`, one byte at a time -/

theorem normEol_nil : normEol [] = [] := rfl

theorem normEol_cr_lf (r : Bytes) : normEol (13 :: 10 :: r) = 10 :: normEol r := by
  simp [normEol]

theorem normEol_lf (r : Bytes) : normEol (10 :: r) = 10 :: normEol r := by
  simp [normEol]

/-- a CR that is not followed by LF -/
theorem normEol_cr {r : Bytes} (h : r.head? ≠ some 10) : normEol (13 :: r) = 10 :: normEol r := by
  cases r with
  | nil => simp [normEol]
  | cons b r' =>
    have hb : b ≠ 10 := by intro hb; subst hb; simp at h
    rw [normEol.eq_3 _ (by intro r'' heq; injection heq with h1 _; exact hb h1)]

theorem normEol_other {c : UInt8} (hc : c ≠ 13) (r : Bytes) : normEol (c :: r) = c :: normEol r := by
  rw [normEol.eq_4 _ _ (by intro r' h1 _; exact hc h1) (by intro h1; exact hc h1)]

/-- what one byte becomes, given what follows it -/
def eolByte (c : UInt8) (cs : Bytes) : Bytes :=
  if c = 13 then (if cs.head? = some 10 then [] else [10]) else [c]

theorem normEol_cons (c : UInt8) (cs : Bytes) : normEol (c :: cs) = eolByte c cs ++ normEol cs := by
  unfold eolByte
  by_cases hc : c = 13
  · subst hc
    by_cases hh : cs.head? = some 10
    · cases cs with
      | nil => simp at hh
      | cons b r =>
        simp only [List.head?_cons, Option.some.injEq] at hh
        subst hh
        simp [normEol_cr_lf, normEol_lf]
    · simp [hh, normEol_cr hh]
  · simp [hc, normEol_other hc]

/-- nothing happens to a text without CR -/
theorem normEol_of_noCr : ∀ {x : Bytes}, (∀ c ∈ x, c ≠ 13) → normEol x = x
  | [], _ => rfl
  | c :: cs, h => by
    rw [normEol_other (h c (by simp)), normEol_of_noCr (fun d hd => h d (by simp [hd]))]

/-- the result holds no CR -/
theorem normEol_noCr : ∀ (x : Bytes), ∀ c ∈ normEol x, c ≠ 13
  | [], c, hc => by simp [normEol_nil] at hc
  | b :: bs, c, hc => by
    rw [normEol_cons, List.mem_append] at hc
    rcases hc with hc | hc
    · unfold eolByte at hc
      split at hc
      · split at hc
        · simp at hc
        · simp only [List.mem_singleton] at hc; subst hc; decide
      · rename_i hb
        simp only [List.mem_singleton] at hc; subst hc; exact hb
    · exact normEol_noCr bs c hc

/-! ### the two `str::replace` passes of the code are `normEol` -/

theorem replaceCrLf_cr_lf (r : Bytes) : replaceCrLf (13 :: 10 :: r) = 10 :: replaceCrLf r := by
  simp [replaceCrLf]

theorem replaceCrLf_lf (r : Bytes) : replaceCrLf (10 :: r) = 10 :: replaceCrLf r := by
  simp [replaceCrLf]

theorem replaceCrLf_cr {r : Bytes} (h : r.head? ≠ some 10) : replaceCrLf (13 :: r) = 13 :: replaceCrLf r := by
  cases r with
  | nil => simp [replaceCrLf]
  | cons b r' =>
    have hb : b ≠ 10 := by intro hb; subst hb; simp at h
    rw [replaceCrLf.eq_3 _ _ (by intro r'' h1 heq; injection heq with h2 _; exact hb h2)]

theorem replaceCrLf_other {c : UInt8} (hc : c ≠ 13) (r : Bytes) : replaceCrLf (c :: r) = c :: replaceCrLf r := by
  rw [replaceCrLf.eq_3 _ _ (by intro r' h1 _; exact hc h1)]

theorem replace_eq_normEol : ∀ (x : Bytes), replaceCrByLf (replaceCrLf x) = normEol x
  | [] => rfl
  | c :: cs => by
    have ih := replace_eq_normEol cs
    by_cases hc : c = 13
    · subst hc
      by_cases hh : cs.head? = some 10
      · cases cs with
        | nil => simp at hh
        | cons b r =>
          simp only [List.head?_cons, Option.some.injEq] at hh
          subst hh
          rw [replaceCrLf_lf] at ih
          rw [normEol_lf] at ih
          rw [replaceCrLf_cr_lf, normEol_cr_lf]
          exact ih
      · rw [replaceCrLf_cr hh, normEol_cr hh]
        simp [replaceCrByLf, ih]
    · rw [replaceCrLf_other hc, normEol_other hc]
      simp [replaceCrByLf, hc, ih]

/-- **`normalize_line_ends` of `xml/de.rs` is the line-end normalisation of XML 1.0 §2.11** -/
theorem normLineEnds_eq_normEol (x : Bytes) : normLineEnds x = normEol x := by
  unfold normLineEnds
  split
  · exact replace_eq_normEol x
  · rename_i h
    have hno : ∀ c ∈ x, c ≠ 13 := by
      intro c hc hc13
      subst hc13
      exact h (List.contains_iff_mem.mpr hc)
    exact (normEol_of_noCr hno).symm

/-- … and so is `normalize_text` on every text piece that is UTF-8 -/
theorem normText_eq_normEol {x : Bytes} (hv : utf8Valid x = true) : normText x = normEol x := by
  simp only [normText, hv, if_true, normLineEnds_eq_normEol]
  split
  · rfl
  · rename_i h
    have hno : ∀ c ∈ x, c ≠ 13 := by
      intro c hc hc13
      subst hc13
      exact h (List.contains_iff_mem.mpr hc)
    exact (normEol_of_noCr hno).symm

/-! ### UTF-8 -/

def eolExpansion : Expansion where
  f := normEol
  g := eolByte
  nil := rfl
  cons := normEol_cons
  ascii := by
    intro c cs hc x hx
    unfold eolByte at hx
    split at hx
    · split at hx
      · simp at hx
      · simp only [List.mem_singleton] at hx; subst hx; decide
    · simp only [List.mem_singleton] at hx; subst hx; exact hc
  high := by
    intro c cs hc
    have : c ≠ 13 := by intro h; subst h; simp at hc
    simp [eolByte, this]

/-- **normalising the line ends of a valid UTF-8 string gives a valid UTF-8 string** -/
theorem utf8Valid_normEol {b : Bytes} (h : utf8Valid b = true) : utf8Valid (normEol b) = true :=
  utf8Valid_expand eolExpansion h

end S3V.XmlSpec
