import S3V.Thm.Route
import S3V.Thm.PathKey
/-!
# Lemmas for the composition of C01 (router) with C12 (addressing styles)

`ops::prepare` first turns the raw path and the `Host` header into an `S3Path` (C12's `classify`),
later hands that `S3Path` to `resolve_route` (C01's `resolve`), whose first step is
`match s3_path { Root, Bucket{..}, Object{..} }`. This file defines that hand-over (`pathKind`,
`view`, `routerInput`, `dispatch`) and proves the `classify`-level facts that C12 does not state
itself: the bucket-only form `/b` against virtual-hosted `/` at the glue, the results of `classify`
for a key that may be empty, and the root.

What lies between the two steps in `prepare` (query-string extraction, signature check, custom
route, the POST-multipart special case) neither changes the `S3Path` nor depends on the addressing
style except through `vh_bucket`/`decoded_uri_path` in the signature check (property C10); it is
modelled in `S3V/Model/Prepare.lean` and composed with this file in `S3V/Props/C01Prepare.lean`.
-/
namespace S3V.RouteCompose
open S3V S3V.Net S3V.Host S3V.Path S3V.PathSpec S3V.Gen S3V.Route S3V.RouteSpec

/-! ## the hand-over from `prepare` to `resolve_route` -/

/-- the first step of `resolve_route`: `match s3_path { S3Path::Root => …, S3Path::Bucket { .. } => …,
    S3Path::Object { .. } => … }` — the router looks at the kind of path only -/
def pathKind : S3Path → PK
  | .root => .root
  | .bucket _ => .bucket
  | .object _ _ => .object

/-- what the router observes of a request apart from the path: the method, the query keys and the
    discriminating headers (`x-amz-copy-source`, `x-amz-request-route`, `x-amz-request-token`).
    None of these is the `Host` header or the path, so they are the same in both addressing
    styles. -/
structure RRest where
  method : Meth
  q : QKey → Pres
  h : HKey → Bool

/-- the router's view of a request whose path has been resolved to `p` -/
def view (x : RRest) (p : S3Path) : RReq := ⟨x.method, pathKind p, x.q, x.h⟩

/-- the router's view of the request with raw path `uriPath` and `Host` header `host` under host
    configuration `cfg`, or the S3 error code with which `prepare` answers before routing -/
def routerInput (cfg : HostCfg) (host : Option Bytes) (uriPath : Bytes) (x : RRest) : Except Code RReq :=
  (classify cfg host uriPath).map (view x)

/-- first block of `prepare`, then `resolve_route`: `.error c` = S3 error `c` from path
    classification (no routing, no backend call); `.ok none` = `Err(unknown_operation())` from the
    router (no backend call); `.ok (some (op, full))` = operation `op` selected -/
def dispatch (cfg : HostCfg) (host : Option Bytes) (uriPath : Bytes) (x : RRest) :
    Except Code (Option (Op × Bool)) :=
  (routerInput cfg host uriPath x).map resolve

/-- the kind of request a key stands for: the empty key is the bucket itself -/
def keyKind (k : Bytes) : PK := if k = [] then .bucket else .object

/-- the `S3Path` that a request for bucket `b`, key `k` means -/
def target (b k : Bytes) : S3Path := if k = [] then .bucket b else .object b k

/-- the request as the client means it, independent of how it is addressed and spelled -/
def intended (x : RRest) (k : Bytes) : RReq := ⟨x.method, keyKind k, x.q, x.h⟩

theorem pathKind_target (b k : Bytes) : pathKind (target b k) = keyKind k := by
  unfold target keyKind; split <;> rfl

theorem view_target (x : RRest) (b k : Bytes) : view x (target b k) = intended x k := by
  simp [view, intended, pathKind_target]

theorem routerInput_of_classify {cfg : HostCfg} {host : Option Bytes} {p : Bytes} {s : S3Path}
    (h : classify cfg host p = .ok s) (x : RRest) : routerInput cfg host p x = .ok (view x s) := by
  simp [routerInput, h, Except.map]

theorem routerInput_of_classify_error {cfg : HostCfg} {host : Option Bytes} {p : Bytes} {c : Code}
    (h : classify cfg host p = .error c) (x : RRest) : routerInput cfg host p x = .error c := by
  simp [routerInput, h, Except.map]

theorem dispatch_of_routerInput {cfg : HostCfg} {host : Option Bytes} {p : Bytes} {x : RRest} {r : RReq}
    (h : routerInput cfg host p x = .ok r) : dispatch cfg host p x = .ok (resolve r) := by
  simp [dispatch, h, Except.map]

theorem dispatch_of_classify_error {cfg : HostCfg} {host : Option Bytes} {p : Bytes} {c : Code}
    (h : classify cfg host p = .error c) (x : RRest) : dispatch cfg host p x = .error c := by
  simp [dispatch, routerInput_of_classify_error h, Except.map]

/-! ## every valid bucket name is a label the style-equivalence theorems accept -/

theorem bucketChar_ne_pct {c : UInt8} (h : bucketChar c = true) : c ≠ pct := by
  intro e; subst e; revert h; decide

theorem pct_not_mem_of_check {b : Bytes} (hb : checkBucketName b = true) : pct ∉ b := by
  obtain ⟨_, hch, _⟩ := (checkBucketName_iff b).mp hb
  intro hm
  exact bucketChar_ne_pct (List.all_eq_true.mp hch _ hm) rfl

theorem ne_nil_of_check {b : Bytes} (hb : checkBucketName b = true) : b ≠ [] := by
  obtain ⟨⟨h, _⟩, _⟩ := (checkBucketName_iff b).mp hb
  intro e; subst e; simp at h

/-- a valid bucket name is ASCII and contains neither `%` nor `/` -/
theorem label_of_valid_bucket {b : Bytes} (hb : checkBucketName b = true) :
    (∀ c ∈ b, c.toNat < 128) ∧ pct ∉ b ∧ slash ∉ b :=
  ⟨ascii_of_check hb, pct_not_mem_of_check hb, slash_not_mem_of_check hb⟩

/-- a text without `%` written literally in front of a spelling -/
theorem spelling_lit_append {p : Bytes} (hp : (37 : UInt8) ∉ p) {e k : Bytes} (h : Spelling e k) :
    Spelling (p ++ e) (p ++ k) := by
  induction p with
  | nil => exact h
  | cons c r ih =>
    exact .lit (fun e => hp (by simp [e])) (ih (fun e => hp (by simp [e])))

/-! ## the bucket-only form at the glue -/

theorem urlDecode_no_pct {p : Bytes} (h : pct ∉ p) : urlDecode p = some p := by
  unfold urlDecode
  have : p.contains pct = false := by
    cases hx : p.contains pct with
    | false => rfl
    | true => exact absurd (List.contains_iff_mem.mp hx) h
  rw [this]; rfl

/-- virtual-hosted-style `/` under host `b.t` and path-style `/b` (no trailing slash) have the same
    outcome at the glue of `prepare`, for every non-empty label `b` without `%` and `/` -/
theorem classify_style_equiv_bucket {cfg cfg' : HostCfg} {host' : Option Bytes} {d t b : Bytes}
    (hc : ConfiguredDomain cfg d) (ht : toAsciiLower t = toAsciiLower d)
    (hs : headerToStrOk (b ++ dot :: t) = true)
    (hip : isSocketAddrOrIpAddr (b ++ dot :: t) = false) (hps : PathStyleChosen cfg' host')
    (hb2 : pct ∉ b) (hb3 : slash ∉ b) (hne : b ≠ []) :
    classify cfg (some (b ++ dot :: t)) [slash] = classify cfg' host' (slash :: b) := by
  obtain ⟨parse, hp, hv⟩ := parser_of_configured hc b t ht (boundary_of_headerToStrOk hs)
  rw [classify_vhost hp hs hip hv, classify_pathStyle hps, pathStyleOutcome]
  have h1 : urlDecode [slash] = some [slash] := urlDecode_no_pct (by decide)
  have h2 : urlDecode (slash :: b) = some (slash :: b) := by
    apply urlDecode_no_pct
    intro hm
    rcases List.mem_cons.mp hm with h | h
    · revert h; decide
    · exact hb2 h
  rw [h1, h2]
  simp only []
  rw [style_equiv_bucket b hb3 hne]

/-! ## results of `classify` for a valid bucket and a key that may be empty -/

theorem parseVirtualHostedStyle_target {b k : Bytes} (hb : checkBucketName b = true)
    (hk : k.length ≤ 1024) :
    parseVirtualHostedStyle (some b) (slash :: k) = .ok (target b k) := by
  cases k with
  | nil => simp [parseVirtualHostedStyle, stripSlash_cons, hb, target]
  | cons c r =>
    rw [parseVirtualHostedStyle_object hb (by simp) hk]
    simp [target]

/-- path-style, any percent-spelling of `/b/k`, `k` possibly empty (`/b/`) -/
theorem classify_path_target {cfg : HostCfg} {host : Option Bytes} {b k e : Bytes}
    (hps : PathStyleChosen cfg host) (hb : checkBucketName b = true) (hk : k.length ≤ 1024)
    (hu : utf8Valid k = true) (hsp : Spelling e (slash :: (b ++ slash :: k))) :
    classify cfg host e = .ok (target b k) := by
  rw [classify_path_result hps hb hu hsp, parseVirtualHostedStyle_target hb hk]; rfl

/-- virtual-hosted-style, any percent-spelling of `/k`, `k` possibly empty (`/`) -/
theorem classify_vhost_target {cfg : HostCfg} {d t b k e : Bytes} (hc : ConfiguredDomain cfg d)
    (ht : toAsciiLower t = toAsciiLower d)
    (hs : headerToStrOk (b ++ dot :: t) = true) (hip : isSocketAddrOrIpAddr (b ++ dot :: t) = false)
    (hb : checkBucketName b = true) (hk : k.length ≤ 1024) (hu : utf8Valid k = true)
    (hsp : Spelling e (slash :: k)) :
    classify cfg (some (b ++ dot :: t)) e = .ok (target b k) := by
  rw [classify_vhost_result hc ht hs hip hu hsp, parseVirtualHostedStyle_target hb hk]; rfl

/-- path-style, any percent-spelling of `/b` (no trailing slash) -/
theorem classify_path_bucket {cfg : HostCfg} {host : Option Bytes} {b e : Bytes}
    (hps : PathStyleChosen cfg host) (hb : checkBucketName b = true)
    (hsp : Spelling e (slash :: b)) :
    classify cfg host e = .ok (.bucket b) := by
  have hu : utf8Valid (slash :: b) = true := by
    have := utf8Valid_append_ascii (ascii_of_check hb) []
    rw [List.append_nil] at this
    rw [utf8Valid_cons_ascii (by decide), this]; decide
  rw [classify_pathStyle hps, pathStyleOutcome, urlDecode_spelling hsp hu]
  simp only []
  rw [style_equiv_bucket b (slash_not_mem_of_check hb) (ne_nil_of_check hb),
    parseVirtualHostedStyle_target (k := []) hb (by simp)]
  rfl

/-! ## the root -/

/-- path-style `/` is the root -/
theorem classify_path_root {cfg : HostCfg} {host : Option Bytes} {e : Bytes}
    (hps : PathStyleChosen cfg host) (hsp : Spelling e [slash]) : classify cfg host e = .ok .root := by
  rw [classify_pathStyle hps, pathStyleOutcome, urlDecode_spelling hsp (by decide)]
  rfl

/-- the configured host parser resolves the base domain itself (any ASCII case) to "no bucket" -/
theorem parser_of_configured_self {cfg : HostCfg} {d : Bytes} (h : ConfiguredDomain cfg d) (t : Bytes)
    (ht : toAsciiLower t = toAsciiLower d) :
    ∃ parse, cfg.parser = some parse ∧ parse t = some ⟨d, none⟩ := by
  have hm : parseHostHeader d t = some ⟨d, none⟩ := by
    simp [parseHostHeader, (eqIgnoreAsciiCase_iff t d).mpr ht]
  rcases h with rfl | ⟨ds, hacc, hd, rfl⟩
  · exact ⟨singleParse d, rfl, by simp [singleParse, hm]⟩
  · refine ⟨multiParse ds, rfl, ?_⟩
    simp [multiParse, firstMatch_eq_of_mem (pairwiseCI_of_accepted hacc) hd hm]

/-- `/` under a `Host` that is a configured base domain itself is the root -/
theorem classify_vhost_root {cfg : HostCfg} {d t e : Bytes} (hc : ConfiguredDomain cfg d)
    (ht : toAsciiLower t = toAsciiLower d) (hs : headerToStrOk t = true)
    (hip : isSocketAddrOrIpAddr t = false) (hsp : Spelling e [slash]) :
    classify cfg (some t) e = .ok .root := by
  obtain ⟨parse, hp, hv⟩ := parser_of_configured_self hc t ht
  rw [classify_vhost hp hs hip hv, urlDecode_spelling hsp (by decide)]
  rfl

/-- a `Host` that is a configured base domain itself (no bucket label) is handled like a path-style
    request: `vh.bucket()` is `None`, and `parse_virtual_hosted_style(None, p)` is
    `parse_path_style(p)` -/
theorem classify_domain_host {cfg : HostCfg} {d t : Bytes} (hc : ConfiguredDomain cfg d)
    (ht : toAsciiLower t = toAsciiLower d) (hs : headerToStrOk t = true)
    (hip : isSocketAddrOrIpAddr t = false) (p : Bytes) :
    classify cfg (some t) p = pathStyleOutcome p := by
  obtain ⟨parse, hp, hv⟩ := parser_of_configured_self hc t ht
  rw [classify_vhost hp hs hip hv, pathStyleOutcome]
  cases urlDecode p <;> rfl

/-! ## two requests with the same classification reach the router alike -/

theorem both_dispatch {cfg₁ cfg₂ : HostCfg} {host₁ host₂ : Option Bytes} {p₁ p₂ : Bytes}
    (heq : classify cfg₁ host₁ p₁ = classify cfg₂ host₂ p₂) (x : RRest) :
    routerInput cfg₁ host₁ p₁ x = routerInput cfg₂ host₂ p₂ x ∧
    dispatch cfg₁ host₁ p₁ x = dispatch cfg₂ host₂ p₂ x := by
  simp only [dispatch, routerInput, heq, and_self]

theorem both_resolve {cfg₁ cfg₂ : HostCfg} {host₁ host₂ : Option Bytes} {p₁ p₂ : Bytes}
    (heq : classify cfg₁ host₁ p₁ = classify cfg₂ host₂ p₂) {x : RRest} {r : RReq}
    (hr : routerInput cfg₁ host₁ p₁ x = .ok r ∨ routerInput cfg₂ host₂ p₂ x = .ok r) :
    dispatch cfg₁ host₁ p₁ x = .ok (resolve r) ∧ dispatch cfg₂ host₂ p₂ x = .ok (resolve r) := by
  obtain ⟨hi, hd⟩ := both_dispatch heq x
  have h1 : routerInput cfg₁ host₁ p₁ x = .ok r := by
    rcases hr with h | h
    · exact h
    · rw [hi]; exact h
  have := dispatch_of_routerInput h1
  exact ⟨this, by rw [← hd]; exact this⟩

theorem both_error {cfg₁ cfg₂ : HostCfg} {host₁ host₂ : Option Bytes} {p₁ p₂ : Bytes}
    (heq : classify cfg₁ host₁ p₁ = classify cfg₂ host₂ p₂) {x : RRest} {c : Code}
    (hr : routerInput cfg₁ host₁ p₁ x = .error c ∨ routerInput cfg₂ host₂ p₂ x = .error c) :
    dispatch cfg₁ host₁ p₁ x = .error c ∧ dispatch cfg₂ host₂ p₂ x = .error c := by
  obtain ⟨hi, hd⟩ := both_dispatch heq x
  have h1 : routerInput cfg₁ host₁ p₁ x = .error c := by
    rcases hr with h | h
    · exact h
    · rw [hi]; exact h
  have : dispatch cfg₁ host₁ p₁ x = .error c := by simp [dispatch, h1, Except.map]
  exact ⟨this, by rw [← hd]; exact this⟩

end S3V.RouteCompose
