import S3V.Model.Multipart
import S3V.Spec.Multipart
/-!
# Lemmas: `find_field_value` on the lower-cased, stably sorted field list = the last field of that name (C10)
-/
namespace S3V.Multipart
open S3V S3V.MultipartSpec

/-! ## `bytesLe` is a total order -/

theorem bytesLe_refl : ∀ a : Bytes, bytesLe a a = true
  | [] => rfl
  | a :: as => by simp [bytesLe, UInt8.lt_irrefl, bytesLe_refl as]

theorem bytesLe_total : ∀ a b : Bytes, bytesLe a b = false → bytesLe b a = true
  | [], _, h => by simp [bytesLe] at h
  | _ :: _, [], _ => rfl
  | a :: as, b :: bs, h => by
    rw [bytesLe] at h ⊢
    by_cases h1 : a < b
    · simp [h1] at h
    · rw [if_neg h1] at h
      by_cases h2 : b < a
      · simp [h2]
      · rw [if_neg h2] at h
        rw [if_neg h2, if_neg h1]
        exact bytesLe_total as bs h

theorem bytesLe_trans : ∀ a b c : Bytes, bytesLe a b = true → bytesLe b c = true → bytesLe a c = true
  | [], _, _, _, _ => rfl
  | _ :: _, [], _, h, _ => by simp [bytesLe] at h
  | _ :: _, _ :: _, [], _, h => by simp [bytesLe] at h
  | a :: as, b :: bs, c :: cs, h1, h2 => by
    rw [bytesLe] at h1 h2 ⊢
    by_cases hab : a < b
    · by_cases hbc : b < c
      · simp [UInt8.lt_trans hab hbc]
      · rw [if_neg hbc] at h2
        by_cases hcb : c < b
        · simp [hcb] at h2
        · have : b = c := UInt8.le_antisymm (UInt8.not_lt.mp hcb) (UInt8.not_lt.mp hbc)
          subst this; simp [hab]
    · rw [if_neg hab] at h1
      by_cases hba : b < a
      · simp [hba] at h1
      · rw [if_neg hba] at h1
        have : a = b := UInt8.le_antisymm (UInt8.not_lt.mp hba) (UInt8.not_lt.mp hab)
        subst this
        by_cases hac : a < c
        · simp [hac]
        · rw [if_neg hac] at h2 ⊢
          by_cases hca : c < a
          · simp [hca] at h2
          · rw [if_neg hca] at h2 ⊢
            exact bytesLe_trans as bs cs h1 h2

theorem bytesLe_antisymm : ∀ a b : Bytes, bytesLe a b = true → bytesLe b a = true → a = b
  | [], [], _, _ => rfl
  | [], _ :: _, _, h => by simp [bytesLe] at h
  | _ :: _, [], h, _ => by simp [bytesLe] at h
  | a :: as, b :: bs, h1, h2 => by
    rw [bytesLe] at h1 h2
    by_cases hab : a < b
    · have hba : ¬ b < a := fun h => UInt8.lt_irrefl _ (UInt8.lt_trans hab h)
      simp [hab, hba] at h2
    · rw [if_neg hab] at h1 h2
      by_cases hba : b < a
      · simp [hba] at h1
      · rw [if_neg hba] at h1 h2
        have : a = b := UInt8.le_antisymm (UInt8.not_lt.mp hba) (UInt8.not_lt.mp hab)
        subst this
        rw [bytesLe_antisymm as bs h1 h2]

/-! ## sortedness -/

abbrev Fields := List (Bytes × Bytes)

def Sorted (l : Fields) : Prop := l.Pairwise fun x y => bytesLe x.1 y.1 = true

theorem mem_insertField {f x : Bytes × Bytes} : ∀ {l : Fields}, x ∈ insertField f l ↔ x = f ∨ x ∈ l
  | [] => by simp [insertField]
  | g :: gs => by
    rw [insertField]
    split
    · simp only [List.mem_cons, mem_insertField (l := gs)]
      constructor
      · rintro (h | h | h)
        · exact Or.inr (Or.inl h)
        · exact Or.inl h
        · exact Or.inr (Or.inr h)
      · rintro (h | h | h)
        · exact Or.inr (Or.inl h)
        · exact Or.inl h
        · exact Or.inr (Or.inr h)
    · simp

theorem insertField_sorted (f : Bytes × Bytes) : ∀ {l : Fields}, Sorted l → Sorted (insertField f l)
  | [], _ => by simp [insertField, Sorted]
  | g :: gs, h => by
    have hg := List.pairwise_cons.mp h
    rw [insertField]
    split
    · rename_i hle
      apply List.pairwise_cons.mpr
      refine ⟨?_, insertField_sorted f hg.2⟩
      intro x hx
      rcases mem_insertField.mp hx with rfl | hx
      · exact hle
      · exact hg.1 x hx
    · rename_i hle
      have hfg : bytesLe f.1 g.1 = true := bytesLe_total _ _ (by simpa using hle)
      apply List.pairwise_cons.mpr
      refine ⟨?_, h⟩
      intro x hx
      rcases List.mem_cons.mp hx with rfl | hx
      · exact hfg
      · exact bytesLe_trans _ _ _ hfg (hg.1 x hx)

/-! ## `lastField` -/

theorem lastField_none_of_forall_ne {name : Bytes} : ∀ {l : Fields}, (∀ x ∈ l, x.1 ≠ name) → lastField name l = none
  | [], _ => rfl
  | f :: l, h => by
    rw [lastField, lastField_none_of_forall_ne (fun x hx => h x (List.mem_cons_of_mem _ hx))]
    simp [h f (List.mem_cons_self)]

theorem lastField_ne_none_of_mem {name : Bytes} : ∀ {l : Fields} {x : Bytes × Bytes}, x ∈ l → x.1 = name →
    lastField name l ≠ none
  | f :: l, x, hx, hn => by
    rw [lastField]
    cases hl : lastField name l with
    | some v => simp
    | none =>
      rcases List.mem_cons.mp hx with rfl | hx'
      · simp [hn]
      · exact absurd hl (lastField_ne_none_of_mem hx' hn)

/-- in a sorted list, behind an element greater than `name` nothing is named `name` -/
theorem lastField_none_of_sorted_gt {name : Bytes} {g : Bytes × Bytes} {gs : Fields}
    (h : Sorted (g :: gs)) (hg : bytesLe g.1 name = false) : lastField name (g :: gs) = none := by
  apply lastField_none_of_forall_ne
  have hp := List.pairwise_cons.mp h
  intro x hx hn
  rcases List.mem_cons.mp hx with rfl | hx
  · rw [hn, bytesLe_refl] at hg; cases hg
  · have := hp.1 x hx
    rw [hn] at this
    rw [this] at hg; cases hg

theorem lastField_insertField {name : Bytes} (f : Bytes × Bytes) : ∀ {l : Fields}, Sorted l →
    lastField name (insertField f l) = if f.1 = name then some f.2 else lastField name l
  | [], _ => by simp [insertField, lastField]
  | g :: gs, h => by
    have hg := List.pairwise_cons.mp h
    rw [insertField]
    split
    · rw [lastField, lastField_insertField f hg.2]
      by_cases hf : f.1 = name
      · simp [hf]
      · simp only [hf, if_false]
        rw [lastField]
    · rename_i hle
      rw [lastField]
      by_cases hf : f.1 = name
      · have : lastField name (g :: gs) = none :=
          lastField_none_of_sorted_gt h (by rw [← hf]; simpa using hle)
        simp [this, hf]
      · simp only [hf, if_false]
        cases lastField name (g :: gs) <;> rfl

theorem foldl_insertField_spec {name : Bytes} : ∀ (l acc : Fields), Sorted acc →
    Sorted (l.foldl (fun a f => insertField f a) acc) ∧
    lastField name (l.foldl (fun a f => insertField f a) acc) =
      match lastField name l with
      | some v => some v
      | none => lastField name acc
  | [], acc, h => ⟨h, rfl⟩
  | f :: l, acc, h => by
    have ih := foldl_insertField_spec (name := name) l (insertField f acc) (insertField_sorted f h)
    refine ⟨ih.1, ?_⟩
    simp only [List.foldl_cons]
    rw [ih.2, lastField_insertField f h, lastField]
    cases lastField name l with
    | some v => rfl
    | none =>
      by_cases hf : f.1 = name <;> simp [hf]

theorem sortFields_sorted (l : Fields) : Sorted (sortFields l) :=
  (foldl_insertField_spec (name := []) l [] List.Pairwise.nil).1

theorem lastField_sortFields (name : Bytes) (l : Fields) : lastField name (sortFields l) = lastField name l := by
  have := (foldl_insertField_spec (name := name) l [] List.Pairwise.nil).2
  unfold sortFields
  rw [this]
  cases lastField name l <;> rfl

/-! ## `find_field_value` on a sorted list -/

theorem findFieldValue_nil (name : Bytes) : findFieldValue [] name = none := rfl

theorem findFieldValue_cons (g : Bytes × Bytes) (gs : Fields) (name : Bytes) :
    findFieldValue (g :: gs) name =
      if bytesLe g.1 name = true then
        (if (gs.takeWhile fun x => bytesLe x.1 name).length = 0 then (if g.1 = name then some g.2 else none)
         else findFieldValue gs name)
      else none := by
  unfold findFieldValue
  simp only [List.takeWhile_cons]
  by_cases hg : bytesLe g.1 name = true
  · simp only [hg, if_true, List.length_cons]
    by_cases hu : (gs.takeWhile fun x => bytesLe x.1 name).length = 0
    · simp [hu]
    · have : (gs.takeWhile fun x => bytesLe x.1 name).length + 1 - 1
          = ((gs.takeWhile fun x => bytesLe x.1 name).length - 1) + 1 := by omega
      simp only [Nat.add_one_ne_zero, if_false, hu, this, List.getElem?_cons_succ]
  · simp [hg]

theorem findFieldValue_sorted (name : Bytes) : ∀ {l : Fields}, Sorted l → findFieldValue l name = lastField name l
  | [], _ => rfl
  | g :: gs, h => by
    have hp := List.pairwise_cons.mp h
    rw [findFieldValue_cons]
    by_cases hg : bytesLe g.1 name = true
    · rw [if_pos hg]
      by_cases hu : (gs.takeWhile fun x => bytesLe x.1 name).length = 0
      · rw [if_pos hu, lastField]
        have hgs : lastField name gs = none := by
          cases gs with
          | nil => rfl
          | cons h0 hs =>
            apply lastField_none_of_sorted_gt hp.2
            cases hb : bytesLe h0.1 name with
            | false => rfl
            | true => simp [hb] at hu
        rw [hgs]
      · rw [if_neg hu, findFieldValue_sorted name hp.2, lastField]
        cases hl : lastField name gs with
        | some v => rfl
        | none =>
          have hne : g.1 ≠ name := by
            intro hn
            cases gs with
            | nil => simp at hu
            | cons h0 hs =>
              have hb : bytesLe h0.1 name = true := by
                cases hb : bytesLe h0.1 name with
                | true => rfl
                | false => simp [hb] at hu
              have h1 := hp.1 h0 List.mem_cons_self
              rw [hn] at h1
              have := bytesLe_antisymm _ _ hb h1
              exact lastField_ne_none_of_mem (List.mem_cons_self) this hl
          simp [hne]
    · rw [if_neg hg]
      exact (lastField_none_of_sorted_gt h (by simpa using hg)).symm

/-- `find_field_value` on what `try_parse` builds from the fields in arrival order -/
theorem findFieldValue_finishFields (raw : Fields) (name : Bytes) :
    findFieldValue (finishFields raw) name = lastField name (raw.map fun f => (asciiLower f.1, f.2)) := by
  unfold finishFields
  rw [findFieldValue_sorted name (sortFields_sorted _), lastField_sortFields]

end S3V.Multipart
