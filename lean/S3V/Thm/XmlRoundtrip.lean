import S3V.Thm.XmlWf
import S3V.Thm.XmlEscape
/-!
Round trip of the generic XML codec: `decode s (encode s v ++ stop …) = ok (v, stop …)` for every well-formed schema and
every value of it in normal form, by mutual structural induction on the schema.
-/
namespace S3V.Xml
open S3V

/-! ### values of a schema, in normal form -/

mutual
  /-- `Fits X s v`: `v` is a value of schema `s` in *normal form*.
  Normal form = the values that have a restXml representation of their own:
  * a list member written flattened is not the empty list (`Some([])` and `[]` write nothing at all, which reads
    back as `None` / `MissingField`);
  * a member is `absent` only if it is optional.
  Strings are Rust `String`s, i.e. valid UTF-8 (stated on the escaped form the decoder checks; escaping replaces
  ASCII bytes by ASCII bytes). Integers are in range. A timestamp is its own canonical rendering. -/
  def Fits (X : Ext) : Sch → Val → Prop
    | .str, .str b | .enm, .str b => utf8Valid (escape b) = true
    | .i32, .int i => i32Min ≤ i ∧ i ≤ i32Max
    | .i64, .int i => i64Min ≤ i ∧ i ≤ i64Max
    | .bool, .bool _ => True
    | .ts f, .ts t => X.tsParse f t = some t ∧ isAscii t = true ∧ escape t = t
    | .struct fs, .struct vs => FitsFields X fs vs
    | .union vs, .union tag v => FitsVariant X vs tag v
    | _, _ => False
  def FitsFields (X : Ext) : Flds → List FVal → Prop
    | .nil, [] => True
    | .cons _ pres shape s rest, fv :: fvs =>
      (match shape, fv with
        | .single, .one v => Fits X s v
        | .wrapped _, .many vs => ∀ v ∈ vs, Fits X s v
        | .flat, .many vs => vs ≠ [] ∧ ∀ v ∈ vs, Fits X s v
        | _, .absent => pres = .opt
        | _, _ => False) ∧ FitsFields X rest fvs
    | _, _ => False
  def FitsVariant (X : Ext) : Vars → Bytes → Val → Prop
    | .nil, _, _ => False
    | .cons t s rest, tag, v => if t = tag then Fits X s v else FitsVariant X rest tag v
end

/-! ### helpers -/

def Flds.append : Flds → Flds → Flds
  | .nil, b => b
  | .cons t p sh s r, b => .cons t p sh s (r.append b)

def Flds.length : Flds → Nat
  | .nil => 0
  | .cons _ _ _ _ r => r.length + 1

theorem Flds.append_nil : ∀ a : Flds, a.append .nil = a
  | .nil => rfl
  | .cons t p sh s r => by simp [Flds.append, Flds.append_nil r]

theorem Flds.append_assoc : ∀ a b c : Flds, (a.append b).append c = a.append (b.append c)
  | .nil, _, _ => rfl
  | .cons t p sh s r, b, c => by simp [Flds.append, Flds.append_assoc r b c]

theorem Flds.tags_append : ∀ a b : Flds, (a.append b).tags = a.tags ++ b.tags
  | .nil, _ => rfl
  | .cons t p sh s r, b => by simp [Flds.append, Flds.tags, Flds.tags_append r b]

theorem Flds.length_append : ∀ a b : Flds, (a.append b).length = a.length + b.length
  | .nil, b => by simp [Flds.append, Flds.length]
  | .cons t p sh s r, b => by simp [Flds.append, Flds.length, Flds.length_append r b]; omega

theorem distinct_append_cons {a : List Bytes} {t : Bytes} {b : List Bytes} (h : distinct (a ++ t :: b) = true) :
    t ∉ a := by
  induction a with
  | nil => simp
  | cons x xs ih =>
    simp only [List.cons_append, distinct, Bool.and_eq_true, Bool.not_eq_true', List.contains_eq_mem,
      List.mem_append, List.mem_cons, decide_eq_false_iff_not] at h
    intro hm
    rcases List.mem_cons.mp hm with hx | hx
    · exact h.1 (Or.inr (Or.inl hx.symm))
    · exact ih h.2 hx

/-- what one member contributes (the inline `match` of `encodeFields`) -/
def encField (tag : Bytes) (shape : Shape) (s : Sch) (fv : FVal) : List Ev :=
  match shape, fv with
  | .single, .one v => elem tag (encode s v)
  | .wrapped m, .many vs => elem tag (vs.flatMap fun v => elem m (encode s v))
  | .flat, .many vs => vs.flatMap fun v => elem tag (encode s v)
  | _, _ => []

theorem encodeFields_cons (tag : Bytes) (p : Pres) (shape : Shape) (s : Sch) (rest : Flds) (fv : FVal) (fvs : List FVal) :
    encodeFields (.cons tag p shape s rest) (fv :: fvs) = encField tag shape s fv ++ encodeFields rest fvs := by
  cases shape <;> cases fv <;> simp [encodeFields, encField]

theorem elem_length (tag : Bytes) (inner : List Ev) : (elem tag inner).length = inner.length + 2 := by
  simp [elem]

/-! ### cursor lemmas -/

theorem skipText_start (n a : Bytes) (r : List Ev) : skipText (.start n a :: r) = .start n a :: r := by
  simp [skipText]

theorem skipText_stop (n : Bytes) (r : List Ev) : skipText (.stop n :: r) = .stop n :: r := by
  simp [skipText]

theorem expectEnd_stop (n : Bytes) (r : List Ev) : expectEnd n (.stop n :: r) = .ok r := by
  simp [expectEnd, skipText]

theorem expectStart_start (n a : Bytes) (r : List Ev) : expectStart n (.start n a :: r) = .ok r := by
  simp [expectStart, skipText]

theorem forEach_stop {α : Type} (f : Bytes → List Ev → α → R α) (fuel : Nat) (n : Bytes) (r : List Ev) (acc : α) :
    forEach f (fuel + 1) (.stop n :: r) acc = .ok (acc, .stop n :: r) := by
  simp [forEach, skipText]

theorem forEach_step {α : Type} (f : Bytes → List Ev → α → R α) (fuel : Nat) (n a : Bytes) (r r' : List Ev)
    (acc acc' : α) (hf : f n r acc = .ok (acc', .stop n :: r')) :
    forEach f (fuel + 1) (.start n a :: r) acc = forEach f fuel r' acc' := by
  simp [forEach, skipText, hf, expectEnd]

/-! ### dispatch of an element name to its member -/

theorem decodeField_ne (X : Ext) {name tag : Bytes} (h : name ≠ tag) (pres : Pres) (shape : Shape) (s : Sch)
    (rest : Flds) (evs : List Ev) (slot : FVal) (accRest : List FVal) :
    decodeField X (.cons tag pres shape s rest) name evs (slot :: accRest)
      = (match decodeField X rest name evs accRest with
         | .error e => .error e
         | .ok (acc', r) => .ok (slot :: acc', r)) := by
  cases shape <;> simp only [decodeField, if_neg h] <;> cases decodeField X rest name evs accRest <;> rfl

theorem decodeField_append (X : Ext) (tag : Bytes) (pres : Pres) (shape : Shape) (s : Sch) (Rf : Flds)
    (slot : FVal) (B : List FVal) (evs : List Ev) :
    ∀ (P : Flds) (A : List FVal), tag ∉ P.tags → A.length = P.length →
      decodeField X (P.append (.cons tag pres shape s Rf)) tag evs (A ++ slot :: B)
        = (match decodeField X (.cons tag pres shape s Rf) tag evs (slot :: B) with
           | .error e => .error e
           | .ok (acc', r) => .ok (A ++ acc', r))
  | .nil, A, _, hl => by
    have : A = [] := by simpa [Flds.length] using hl
    subst this
    simp only [Flds.append, List.nil_append]
    cases decodeField X (.cons tag pres shape s Rf) tag evs (slot :: B) with
    | error e => rfl
    | ok p => rfl
  | .cons t' p' sh' s' P', A, hnot, hl => by
    cases A with
    | nil => simp [Flds.length] at hl
    | cons a A' =>
      have hne : tag ≠ t' := by
        intro h; apply hnot; simp [Flds.tags, h]
      have hnot' : tag ∉ P'.tags := by
        intro h; apply hnot; simp [Flds.tags, h]
      have hl' : A'.length = P'.length := by simpa [Flds.length] using hl
      simp only [Flds.append, List.cons_append]
      rw [decodeField_ne X hne]
      rw [decodeField_append X tag pres shape s Rf slot B evs P' A' hnot' hl']
      cases decodeField X (.cons tag pres shape s Rf) tag evs (slot :: B) with
      | error e => rfl
      | ok p => rfl

end S3V.Xml
