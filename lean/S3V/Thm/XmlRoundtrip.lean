import S3V.Thm.XmlWf
import S3V.Thm.XmlEscape
import S3V.Thm.XmlUtf8
import S3V.Thm.XmlAttr
/-!
Round trip of the generic XML codec: `decode s (encode s v ++ stop …) = ok (v, stop …)` for every well-formed schema and
every value of it in normal form, by mutual structural induction on the schema.
-/
namespace S3V.Xml
open S3V

/-! ### values of a schema, in normal form -/

mutual
  /-- `Fits X s v`: `v` is a value of schema `s` in *normal form*.
  Normal form = the values that have a restXml representation of their own:
  * a list member written flattened is not the empty list (`Some([])` and `[]` write nothing at all, which reads
    back as `None` / `MissingField`);
  * a member is `absent` only if it is optional;
  * a member bound to an attribute holds a string.
  Strings are Rust `String`s, i.e. valid UTF-8. Integers are in range. A timestamp is its own canonical rendering. -/
  def Fits (X : Ext) : Sch → Val → Prop
    | .str, .str b | .enm, .str b => utf8Valid b = true
    | .i32, .int i => i32Min ≤ i ∧ i ≤ i32Max
    | .i64, .int i => i64Min ≤ i ∧ i ≤ i64Max
    | .bool, .bool _ => True
    | .ts f, .ts t => X.tsParse f t = some t ∧ isAscii t = true ∧ escapeText t = t
    | .struct fs, .struct vs => FitsFields X fs vs
    | .union vs, .union tag v => FitsVariant X vs tag v
    | _, _ => False
  def FitsFields (X : Ext) : Flds → List FVal → Prop
    | .nil, [] => True
    | .cons _ pres shape s rest, fv :: fvs =>
      (match shape, fv with
        | .single, .one v => Fits X s v
        | .wrapped _, .many vs => ∀ v ∈ vs, Fits X s v
        | .flat, .many vs => vs ≠ [] ∧ ∀ v ∈ vs, Fits X s v
        | .attr, .one (.str b) => utf8Valid b = true
        | _, .absent => pres = .opt
        | _, _ => False) ∧ FitsFields X rest fvs
    | _, _ => False
  def FitsVariant (X : Ext) : Vars → Bytes → Val → Prop
    | .nil, _, _ => False
    | .cons t s rest, tag, v => if t = tag then Fits X s v else FitsVariant X rest tag v
end

/-! ### unfolding `Fits` (general forms; used to exhibit concrete values) -/

theorem fits_struct (X : Ext) (fs : Flds) (vs : List FVal) : Fits X (.struct fs) (.struct vs) = FitsFields X fs vs := by
  simp only [Fits]

theorem fits_str (X : Ext) (b : Bytes) : Fits X .str (.str b) = (utf8Valid b = true) := by simp only [Fits]

theorem fitsFields_nil (X : Ext) : FitsFields X .nil [] = True := by simp only [FitsFields]

theorem fitsFields_one (X : Ext) (t : Bytes) (p : Pres) (s : Sch) (r : Flds) (v : Val) (fvs : List FVal) :
    FitsFields X (.cons t p .single s r) (.one v :: fvs) = (Fits X s v ∧ FitsFields X r fvs) := by
  simp only [FitsFields]

theorem fitsFields_absent (X : Ext) (t : Bytes) (p : Pres) (sh : Shape) (s : Sch) (r : Flds) (fvs : List FVal) :
    FitsFields X (.cons t p sh s r) (.absent :: fvs) = (p = .opt ∧ FitsFields X r fvs) := by
  cases sh <;> simp only [FitsFields]

theorem fitsFields_wrapped (X : Ext) (t m : Bytes) (p : Pres) (s : Sch) (r : Flds) (vs : List Val) (fvs : List FVal) :
    FitsFields X (.cons t p (.wrapped m) s r) (.many vs :: fvs) = ((∀ v ∈ vs, Fits X s v) ∧ FitsFields X r fvs) := by
  simp only [FitsFields]

theorem fitsFields_flat (X : Ext) (t : Bytes) (p : Pres) (s : Sch) (r : Flds) (vs : List Val) (fvs : List FVal) :
    FitsFields X (.cons t p .flat s r) (.many vs :: fvs) = ((vs ≠ [] ∧ ∀ v ∈ vs, Fits X s v) ∧ FitsFields X r fvs) := by
  simp only [FitsFields]

theorem fitsFields_attr (X : Ext) (t : Bytes) (p : Pres) (s : Sch) (r : Flds) (b : Bytes) (fvs : List FVal) :
    FitsFields X (.cons t p .attr s r) (.one (.str b) :: fvs) = (utf8Valid b = true ∧ FitsFields X r fvs) := by
  simp only [FitsFields]

/-! ### helpers -/

def Flds.append : Flds → Flds → Flds
  | .nil, b => b
  | .cons t p sh s r, b => .cons t p sh s (r.append b)

def Flds.length : Flds → Nat
  | .nil => 0
  | .cons _ _ _ _ r => r.length + 1

theorem Flds.append_nil : ∀ a : Flds, a.append .nil = a
  | .nil => rfl
  | .cons t p sh s r => by simp [Flds.append, Flds.append_nil r]

theorem Flds.append_assoc : ∀ a b c : Flds, (a.append b).append c = a.append (b.append c)
  | .nil, _, _ => rfl
  | .cons t p sh s r, b, c => by simp [Flds.append, Flds.append_assoc r b c]

theorem Flds.tags_append : ∀ a b : Flds, (a.append b).tags = a.tags ++ b.tags
  | .nil, _ => rfl
  | .cons t p sh s r, b => by simp [Flds.append, Flds.tags, Flds.tags_append r b]

theorem Flds.length_append : ∀ a b : Flds, (a.append b).length = a.length + b.length
  | .nil, b => by simp [Flds.append, Flds.length]
  | .cons t p sh s r, b => by simp [Flds.append, Flds.length, Flds.length_append r b]; omega

theorem distinct_append_cons {a : List Bytes} {t : Bytes} {b : List Bytes} (h : distinct (a ++ t :: b) = true) :
    t ∉ a := by
  induction a with
  | nil => simp
  | cons x xs ih =>
    simp only [List.cons_append, distinct, Bool.and_eq_true, Bool.not_eq_true', List.contains_eq_mem,
      List.mem_append, List.mem_cons, decide_eq_false_iff_not] at h
    intro hm
    rcases List.mem_cons.mp hm with hx | hx
    · exact h.1 (Or.inr (Or.inl hx.symm))
    · exact ih h.2 hx

/-- what one member contributes (the inline `match` of `encodeFields`) -/
def encField (tag : Bytes) (shape : Shape) (s : Sch) (fv : FVal) : List Ev :=
  match shape, fv with
  | .single, .one v => elemA tag (encAttrs s v) (encode s v)
  | .wrapped m, .many vs => elem tag (vs.flatMap fun v => elemA m (encAttrs s v) (encode s v))
  | .flat, .many vs => vs.flatMap fun v => elemA tag (encAttrs s v) (encode s v)
  | _, _ => []

theorem encodeFields_cons (tag : Bytes) (p : Pres) (shape : Shape) (s : Sch) (rest : Flds) (fv : FVal) (fvs : List FVal) :
    encodeFields (.cons tag p shape s rest) (fv :: fvs) = encField tag shape s fv ++ encodeFields rest fvs := by
  cases shape <;> cases fv <;> simp [encodeFields, encField]

theorem elem_length (tag : Bytes) (inner : List Ev) : (elem tag inner).length = inner.length + 2 := by
  simp [elem]

theorem elemA_length (tag a : Bytes) (inner : List Ev) : (elemA tag a inner).length = inner.length + 2 := by
  simp [elemA]

/-! ### cursor lemmas -/

theorem skipText_start (n a : Bytes) (r : List Ev) : skipText (.start n a :: r) = .start n a :: r := by
  simp [skipText]

theorem skipText_stop (n : Bytes) (r : List Ev) : skipText (.stop n :: r) = .stop n :: r := by
  simp [skipText]

theorem expectEnd_stop (n : Bytes) (r : List Ev) : expectEnd n (.stop n :: r) = .ok r := by
  simp [expectEnd, skipText]

theorem expectStart_start (n a : Bytes) (r : List Ev) : expectStart n (.start n a :: r) = .ok (a, r) := by
  simp [expectStart, skipText]

theorem forEach_stop {α : Type} (f : Bytes → Bytes → List Ev → α → R α) (fuel : Nat) (n : Bytes) (r : List Ev)
    (acc : α) : forEach f (fuel + 1) (.stop n :: r) acc = .ok (acc, .stop n :: r) := by
  simp [forEach, skipText]

theorem forEach_step {α : Type} (f : Bytes → Bytes → List Ev → α → R α) (fuel : Nat) (n a : Bytes)
    (r r' : List Ev) (acc acc' : α) (hf : f n a r acc = .ok (acc', .stop n :: r')) :
    forEach f (fuel + 1) (.start n a :: r) acc = forEach f fuel r' acc' := by
  simp [forEach, skipText, hf, expectEnd]

/-! ### dispatch of an element name to its member -/

theorem decodeField_ne (X : Ext) {name tag : Bytes} (h : name ≠ tag) (pres : Pres) (shape : Shape) (s : Sch)
    (rest : Flds) (a : Bytes) (evs : List Ev) (slot : FVal) (accRest : List FVal) :
    decodeField X (.cons tag pres shape s rest) name a evs (slot :: accRest)
      = (match decodeField X rest name a evs accRest with
         | .error e => .error e
         | .ok (acc', r) => .ok (slot :: acc', r)) := by
  cases shape <;> simp only [decodeField, if_neg h] <;> cases decodeField X rest name a evs accRest <;> rfl

theorem decodeField_append (X : Ext) (tag : Bytes) (pres : Pres) (shape : Shape) (s : Sch) (Rf : Flds)
    (slot : FVal) (B : List FVal) (a : Bytes) (evs : List Ev) :
    ∀ (P : Flds) (A : List FVal), tag ∉ P.tags → A.length = P.length →
      decodeField X (P.append (.cons tag pres shape s Rf)) tag a evs (A ++ slot :: B)
        = (match decodeField X (.cons tag pres shape s Rf) tag a evs (slot :: B) with
           | .error e => .error e
           | .ok (acc', r) => .ok (A ++ acc', r))
  | .nil, A, _, hl => by
    have : A = [] := by simpa [Flds.length] using hl
    subst this
    simp only [Flds.append, List.nil_append]
    cases decodeField X (.cons tag pres shape s Rf) tag a evs (slot :: B) with
    | error e => rfl
    | ok p => rfl
  | .cons t' p' sh' s' P', A, hnot, hl => by
    cases A with
    | nil => simp [Flds.length] at hl
    | cons a0 A' =>
      have hne : tag ≠ t' := by
        intro h; apply hnot; simp [Flds.tags, h]
      have hnot' : tag ∉ P'.tags := by
        intro h; apply hnot; simp [Flds.tags, h]
      have hl' : A'.length = P'.length := by simpa [Flds.length] using hl
      simp only [Flds.append, List.cons_append]
      rw [decodeField_ne X hne]
      rw [decodeField_append X tag pres shape s Rf slot B a evs P' A' hnot' hl']
      cases decodeField X (.cons tag pres shape s Rf) tag a evs (slot :: B) with
      | error e => rfl
      | ok p => rfl


theorem decodeField_at (X : Ext) {tag : Bytes} {pres : Pres} {shape : Shape} {s : Sch} {Rf : Flds}
    {slot : FVal} {B : List FVal} {a : Bytes} {evs : List Ev} {acc' : List FVal} {r : List Ev}
    (P : Flds) (A : List FVal) (hnot : tag ∉ P.tags) (hl : A.length = P.length)
    (hhead : decodeField X (.cons tag pres shape s Rf) tag a evs (slot :: B) = .ok (acc', r)) :
    decodeField X (P.append (.cons tag pres shape s Rf)) tag a evs (A ++ slot :: B) = .ok (A ++ acc', r) := by
  rw [decodeField_append X tag pres shape s Rf slot B a evs P A hnot hl, hhead]

theorem decodeField_single_ok (X : Ext) {tag : Bytes} {pres : Pres} {s : Sch} {Rf : Flds} {B : List FVal}
    {a : Bytes} {evs r : List Ev} {v : Val} (h : decode X s a evs = .ok (v, r)) :
    decodeField X (.cons tag pres .single s Rf) tag a evs (.absent :: B) = .ok (.one v :: B, r) := by
  simp [decodeField, FVal.isAbsent, h]

theorem decodeField_flat_ok (X : Ext) {tag : Bytes} {pres : Pres} {s : Sch} {Rf : Flds} {slot : FVal} {B : List FVal}
    {a : Bytes} {evs r : List Ev} {v : Val} (h : decode X s a evs = .ok (v, r)) :
    decodeField X (.cons tag pres .flat s Rf) tag a evs (slot :: B) = .ok (slot.push v :: B, r) := by
  simp [decodeField, h]

theorem decodeField_wrapped_ok (X : Ext) {tag m : Bytes} {pres : Pres} {s : Sch} {Rf : Flds} {B : List FVal}
    {a : Bytes} {evs r : List Ev} {l : List Val}
    (h : forEach (listItem (fun a evs => decode X s a evs) m) (evs.length + 1) evs [] = .ok (l, r)) :
    decodeField X (.cons tag pres (.wrapped m) s Rf) tag a evs (.absent :: B) = .ok (.many l :: B, r) := by
  simp [decodeField, FVal.isAbsent, h]

/-! ### lists -/

theorem flatMap_elem_length (tag : Bytes) (s : Sch) (vs : List Val) :
    2 * vs.length ≤ (vs.flatMap fun v => elemA tag (encAttrs s v) (encode s v)).length := by
  induction vs with
  | nil => simp
  | cons v vs ih => simp only [List.flatMap_cons, List.length_append, elemA_length, List.length_cons]; omega

/-- `d.list_content(m)` reads back what `s.list(_, m, iter)` wrote -/
theorem forEach_listItem (X : Ext) (s : Sch) (m : Bytes) (tag : Bytes) (more : List Ev) :
    ∀ (vs : List Val),
      (∀ v ∈ vs, ∀ n rest, decode X s (encAttrs s v) (encode s v ++ .stop n :: rest) = .ok (v, .stop n :: rest)) →
      ∀ (l : List Val) (fuel : Nat), (vs.flatMap fun v => elemA m (encAttrs s v) (encode s v)).length < fuel →
        forEach (listItem (fun a evs => decode X s a evs) m) fuel
          ((vs.flatMap fun v => elemA m (encAttrs s v) (encode s v)) ++ .stop tag :: more) l
          = .ok (l ++ vs, .stop tag :: more)
  | [], _, l, fuel, hfuel => by
    cases fuel with
    | zero => simp at hfuel
    | succ k => simp [forEach_stop]
  | v :: vs, hdec, l, fuel, hfuel => by
    cases fuel with
    | zero => simp at hfuel
    | succ k =>
      simp only [List.flatMap_cons, elemA, List.cons_append, List.append_assoc, List.nil_append] at hfuel ⊢
      have hitem : listItem (fun a evs => decode X s a evs) m m (encAttrs s v)
          (encode s v ++ .stop m :: ((vs.flatMap fun v => .start m (encAttrs s v) :: (encode s v ++ [.stop m])) ++ .stop tag :: more)) l
          = .ok (l ++ [v], .stop m :: ((vs.flatMap fun v => .start m (encAttrs s v) :: (encode s v ++ [.stop m])) ++ .stop tag :: more)) := by
        simp [listItem, hdec v (by simp)]
      rw [forEach_step _ k m (encAttrs s v) _ _ l (l ++ [v]) hitem]
      have ih := forEach_listItem X s m tag more vs (fun v hv => hdec v (by simp [hv])) (l ++ [v]) k
        (by simp only [elemA, List.cons_append] at *; simp only [List.length_cons, List.length_append] at hfuel; omega)
      simp only [elemA, List.cons_append] at ih
      rw [ih]; simp

/-- pushing the items of a flattened list one by one -/
def pushAll (slot : FVal) (vs : List Val) : FVal := vs.foldl FVal.push slot

theorem pushAll_absent_cons (v : Val) (vs : List Val) : pushAll .absent (v :: vs) = .many (v :: vs) := by
  have h : ∀ (vs l : List Val), pushAll (.many l) vs = .many (l ++ vs) := by
    intro vs
    induction vs with
    | nil => intro l; simp [pushAll]
    | cons x xs ih =>
      intro l
      have := ih (l ++ [x])
      simp only [pushAll, List.foldl_cons, FVal.push] at this ⊢
      rw [this]; simp
  simp only [pushAll, List.foldl_cons, FVal.push]
  exact h vs [v]

/-- the elements of a flattened list are read back one by one into the member's slot -/
theorem forEach_flat (f : Bytes → Bytes → List Ev → List FVal → R (List FVal)) (s : Sch) (tag : Bytes)
    (A B : List FVal) (more : List Ev) :
    ∀ (vs : List Val),
      (∀ v ∈ vs, ∀ slot rest, f tag (encAttrs s v) (encode s v ++ .stop tag :: rest) (A ++ slot :: B)
          = .ok (A ++ slot.push v :: B, .stop tag :: rest)) →
      ∀ (slot : FVal) (fuel : Nat), vs.length ≤ fuel →
        forEach f fuel ((vs.flatMap fun v => elemA tag (encAttrs s v) (encode s v)) ++ more) (A ++ slot :: B)
          = forEach f (fuel - vs.length) more (A ++ pushAll slot vs :: B)
  | [], _, slot, fuel, _ => by simp [pushAll]
  | v :: vs, hf, slot, fuel, hfuel => by
    cases fuel with
    | zero => simp at hfuel
    | succ k =>
      simp only [List.flatMap_cons, elemA, List.cons_append, List.append_assoc, List.nil_append]
      rw [forEach_step f k tag (encAttrs s v) _ _ _ _ (hf v (by simp) slot _)]
      have ih := forEach_flat f s tag A B more vs (fun v hv => hf v (by simp [hv])) (slot.push v) k
        (by simp at hfuel; omega)
      simp only [elemA, List.cons_append] at ih
      rw [ih]
      simp [pushAll]


/-! ### the `Ok(Self { … })` expression on a value that fits -/

theorem finish_fits (X : Ext) : ∀ (fs : Flds) (fvs : List FVal), FitsFields X fs fvs → fs.finish fvs = .ok fvs
  | .nil, [], _ => by simp [Flds.finish]
  | .nil, _ :: _, h => by simp [FitsFields] at h
  | .cons _ _ _ _ _, [], h => by simp [FitsFields] at h
  | .cons t pres shape s r, fv :: fvs, h => by
    simp only [FitsFields] at h
    have ih := finish_fits X r fvs h.2
    simp only [Flds.finish, ih]
    cases fv with
    | absent =>
      have hp : pres = .opt := by
        cases shape <;> simpa using h.1
      subst hp; rfl
    | one v => cases pres <;> rfl
    | many vs => cases pres <;> rfl

/-! ### the `let` block on the start tag the serialiser wrote -/

/-- the slots a struct deserialiser starts with on the start tag written for `fvs`: a member bound to an attribute
is already read, every other member is still `None` -/
def initSlots : Flds → List FVal → List FVal
  | .cons _ _ sh _ rest, fv :: fvs => (match sh with | .attr => fv | _ => .absent) :: initSlots rest fvs
  | _, _ => []

theorem initSlot_absent (shape : Shape) :
    (match shape with | .attr => FVal.absent | _ => FVal.absent) = FVal.absent := by cases shape <;> rfl

theorem Flds.wf_append_right : ∀ (P S : Flds), (P.append S).wf = true → S.wf = true
  | .nil, _, h => h
  | .cons _ _ _ _ r, S, h => by
    simp only [Flds.append, Flds.wf, Bool.and_eq_true] at h
    exact Flds.wf_append_right r S h.2.1

theorem distinct_append_right : ∀ (a b : List Bytes), distinct (a ++ b) = true → distinct b = true
  | [], _, h => h
  | _ :: xs, b, h => by
    simp only [List.cons_append, distinct, Bool.and_eq_true] at h
    exact distinct_append_right xs b h.2

theorem distinct_cons_not_mem {t : Bytes} {r : List Bytes} (h : distinct (t :: r) = true) : t ∉ r := by
  simp only [distinct, Bool.and_eq_true, Bool.not_eq_true', List.contains_eq_mem, decide_eq_false_iff_not] at h
  exact h.1

theorem attrSlot_append (t : Bytes) (S : Flds) (fvs : List FVal) : ∀ (P : Flds) (A : List FVal), t ∉ P.tags →
    A.length = P.length → attrSlot (P.append S) (A ++ fvs) t = attrSlot S fvs t
  | .nil, A, _, hl => by
    have : A = [] := by simpa [Flds.length] using hl
    subst this; rfl
  | .cons t' p' sh' s' P', A, hnot, hl => by
    cases A with
    | nil => simp [Flds.length] at hl
    | cons a0 A' =>
      have hne : t' ≠ t := fun e => hnot (by simp [Flds.tags, e])
      have hnot' : t ∉ P'.tags := fun e => hnot (by simp [Flds.tags, e])
      have ih := attrSlot_append t S fvs P' A' hnot' (by simpa [Flds.length] using hl)
      simp only [Flds.append, List.cons_append]
      conv => lhs; unfold attrSlot
      split
      · rw [if_neg hne]; exact ih
      · exact ih

/-- **the `let` block reads the attributes the serialiser wrote**: on the start tag written for the struct value
`FVS` (`start_of`: `attrPairs`), `d.attribute` yields, for every member bound to an attribute, the string that was
written — so the deserialiser starts with these members read and every other member `None` -/
theorem initAcc_written (X : Ext) (ps0 : List (Bytes × Bytes)) (h0 : NsPairs ps0) (FS : Flds) (FVS : List FVal)
    (hwfF : FS.wf = true) (hd : distinct FS.tags = true) :
    ∀ (S P : Flds) (fvs A : List FVal), FS = P.append S → FVS = A ++ fvs → A.length = P.length →
      FitsFields X S fvs → S.initAcc (attrsOf ps0 ++ attrsOf (attrPairs FS FVS)) = .ok (initSlots S fvs)
  | .nil, _, fvs, _, _, _, _, hfit => by
    cases fvs with
    | nil => simp [Flds.initAcc, initSlots]
    | cons _ _ => simp [FitsFields] at hfit
  | .cons _ _ _ _ _, _, [], _, _, _, _, hfit => by simp [FitsFields] at hfit
  | .cons tag pres sh s Rf, P, fv :: fvs', A, hFS, hFVS, hl, hfit => by
    simp only [FitsFields] at hfit
    have ih := initAcc_written X ps0 h0 FS FVS hwfF hd Rf (P.append (.cons tag pres sh s .nil)) fvs' (A ++ [fv])
      (by rw [hFS, Flds.append_assoc]; rfl) (by simp [hFVS]) (by simp [Flds.length_append, Flds.length, hl]) hfit.2
    cases sh with
    | attr =>
      have hdt : distinct (P.tags ++ tag :: Rf.tags) = true := by
        have := hd; rw [hFS, Flds.tags_append] at this; simpa [Flds.tags] using this
      have htagP : tag ∉ P.tags := distinct_append_cons hdt
      have htagR : tag ∉ Rf.tags := distinct_cons_not_mem (distinct_append_right _ _ hdt)
      have hwfS : (Flds.cons tag pres .attr s Rf).wf = true := Flds.wf_append_right P _ (hFS ▸ hwfF)
      have hkey : attrKeyOk tag = true := by
        simp only [Flds.wf, Bool.and_eq_true] at hwfS; exact hwfS.2.2
      have hslot : attrSlot FS FVS tag = attrSlot (.cons tag pres .attr s Rf) (fv :: fvs') tag := by
        rw [hFS, hFVS]; exact attrSlot_append tag _ _ P A htagP hl
      obtain ⟨hsome, hnone⟩ := attrValue_written ps0 h0 FS FVS hwfF tag (attrKeyOk_plain hkey).2.1
        (attrKeyOk_plain hkey).2.2
      simp only [Flds.initAcc, ih, initSlots]
      cases fv with
      | absent =>
        have : attrSlot FS FVS tag = none := by
          rw [hslot]; simp only [attrSlot]; exact attrSlot_not_mem tag Rf fvs' htagR
        rw [hnone this]
      | one v =>
        cases v with
        | str b =>
          have hv : utf8Valid b = true := by simpa using hfit.1
          have : attrSlot FS FVS tag = some (escapeAttr b) := by
            rw [hslot]; simp [attrSlot]
          rw [hsome b this hv]
        | int _ => simp at hfit
        | bool _ => simp at hfit
        | ts _ => simp at hfit
        | struct _ => simp at hfit
        | union _ _ => simp at hfit
      | many _ => simp at hfit
    | single => simp only [Flds.initAcc, ih, initSlots]
    | wrapped m => simp only [Flds.initAcc, ih, initSlots]
    | flat => simp only [Flds.initAcc, ih, initSlots]

/-! ### scalars -/

theorem decodeStr_escape {b : Bytes} (h : utf8Valid (escape b) = true) : decodeStr (escape b) = .ok b := by
  simp [decodeStr, h, unescape_escape]

theorem decodeStr_escapeText {b : Bytes} (h : utf8Valid b = true) : decodeStr (escapeText b) = .ok b := by
  simp [decodeStr, utf8Valid_escapeText h, unescape_escapeText]

theorem decode_scalar_ok (X : Ext) (s : Sch) {a : Bytes} {evs r : List Ev} {raw : Bytes} {v : Val}
    (hs : isScalar s = true) (htext : textOf evs = .ok (raw, r)) (hval : decodeScalarText X s raw = .ok v) :
    decode X s a evs = .ok (v, r) := by
  cases s <;> first
    | (simp [isScalar] at hs; done)
    | (rw [decode.eq_3 X _ _ _ (by intros; contradiction) (by intros; contradiction)]; simp [htext, hval])

/-- `Deserializer::text` at an end tag: the empty text -/
theorem textOf_stop (n : Bytes) (rest : List Ev) : textOf (.stop n :: rest) = .ok ([], .stop n :: rest) := by
  simp [textOf, textLoop]

/-- `Deserializer::text` at a lone text piece: the piece with its line ends normalised (fast path) -/
theorem textOf_text_stop' (raw n : Bytes) (rest : List Ev) :
    textOf (.text raw :: .stop n :: rest) = .ok (normText raw, .stop n :: rest) := by
  simp [textOf, textLoop]

/-- … which is the piece as it is when it holds no literal CR — everything the serialiser writes (`escapeText_noCr`) -/
theorem textOf_text_stop (raw n : Bytes) (rest : List Ev) (hcr : ∀ c ∈ raw, c ≠ 13) :
    textOf (.text raw :: .stop n :: rest) = .ok (raw, .stop n :: rest) := by
  rw [textOf_text_stop', normText_of_noCr hcr]

theorem decode_scalar_text (X : Ext) (s : Sch) (a raw : Bytes) (v : Val) (n : Bytes) (rest : List Ev)
    (hs : isScalar s = true) (hcr : ∀ c ∈ raw, c ≠ 13) (hraw : decodeScalarText X s raw = .ok v) :
    decode X s a (textEv raw ++ .stop n :: rest) = .ok (v, .stop n :: rest) := by
  by_cases hr : raw = []
  · subst hr
    exact decode_scalar_ok X s hs (by simp [textEv, textOf_stop]) hraw
  · exact decode_scalar_ok X s hs (by simp [textEv, hr, textOf_text_stop _ _ _ hcr]) hraw


/-! ### the round trip -/

theorem append_single_assoc (P : Flds) (tag : Bytes) (pres : Pres) (shape : Shape) (s : Sch) (Rf : Flds) :
    (P.append (.cons tag pres shape s .nil)).append Rf = P.append (.cons tag pres shape s Rf) := by
  rw [Flds.append_assoc]; rfl

mutual
  theorem decode_encode (X : Ext) : ∀ (s : Sch) (v : Val), s.wf = true → Fits X s v →
      ∀ (n : Bytes) (rest : List Ev),
        decode X s (encAttrs s v) (encode s v ++ .stop n :: rest) = .ok (v, .stop n :: rest)
    | .str, .str b, _, hfit, n, rest => by
      simp only [Fits] at hfit
      simp only [encode]
      exact decode_scalar_text X .str _ _ _ n rest rfl (escapeText_noCr _) (by simp [decodeScalarText, decodeStr_escapeText hfit, Except.map])
    | .enm, .str b, _, hfit, n, rest => by
      simp only [Fits] at hfit
      simp only [encode]
      exact decode_scalar_text X .enm _ _ _ n rest rfl (escapeText_noCr _) (by simp [decodeScalarText, decodeStr_escapeText hfit, Except.map])
    | .i32, .int i, _, hfit, n, rest => by
      simp only [Fits] at hfit
      simp only [encode]
      exact decode_scalar_text X .i32 _ _ _ n rest rfl (escapeText_noCr _)
        (by simp [decodeScalarText, escapeText_fmtInt, parseInt_fmtInt hfit.1 hfit.2])
    | .i64, .int i, _, hfit, n, rest => by
      simp only [Fits] at hfit
      simp only [encode]
      exact decode_scalar_text X .i64 _ _ _ n rest rfl (escapeText_noCr _)
        (by simp [decodeScalarText, escapeText_fmtInt, parseInt_fmtInt hfit.1 hfit.2])
    | .bool, .bool b, _, _, n, rest => by
      simp only [encode]
      exact decode_scalar_text X .bool _ _ _ n rest rfl (escapeText_noCr _)
        (by simp [decodeScalarText, escapeText_fmtBool, parseBool_fmtBool])
    | .ts f, .ts t, _, hfit, n, rest => by
      simp only [Fits] at hfit
      simp only [encode]
      exact decode_scalar_text X (.ts f) _ _ _ n rest rfl (escapeText_noCr _)
        (by simp [decodeScalarText, hfit.2.2, hfit.2.1, hfit.1])
    | .struct fs, .struct vs, hwf, hfit, n, rest => by
      simp only [Fits] at hfit
      simp only [Sch.wf, Bool.and_eq_true] at hwf
      simp only [encode]
      rw [decode.eq_1]
      cases hnil : fs.isNil with
      | true =>
        cases fs with
        | nil =>
          cases vs with
          | nil => simp [encodeFields]
          | cons _ _ => simp [FitsFields] at hfit
        | cons _ _ _ _ _ => simp [Flds.isNil] at hnil
      | false =>
        have hinit := initAcc_written X [] (fun _ h => by simp at h) fs vs hwf.2 hwf.1 fs .nil vs [] rfl rfl rfl hfit
        simp only [attrsOf, List.flatMap_nil, List.nil_append] at hinit
        have hloop := fields_roundtrip X fs .nil [] vs ((encodeFields fs vs ++ .stop n :: rest).length + 1) n rest
          (by simpa [Flds.append] using hwf.1) hwf.2 hfit rfl (by simp; omega)
        simp only [Flds.append, List.nil_append] at hloop
        simp only [Bool.false_eq_true, if_false, encAttrs, hinit, hloop, finish_fits X fs vs hfit]
    | .union vars, .union tag v, hwf, hfit, n, rest => by
      simp only [Fits] at hfit
      simp only [Sch.wf, Bool.and_eq_true] at hwf
      simp only [encode]
      obtain ⟨a, inner, henc, hdec⟩ := variant_roundtrip X vars tag v hwf.2 hfit
      rw [henc, decode.eq_2]
      simp only [elemA, List.cons_append, List.append_assoc, List.nil_append, skipText_start]
      simp [hdec, expectEnd_stop]
    | .str, .int _, _, h, _, _ | .str, .bool _, _, h, _, _ | .str, .ts _, _, h, _, _ | .str, .struct _, _, h, _, _
    | .str, .union _ _, _, h, _, _ => by simp [Fits] at h
    | .enm, .int _, _, h, _, _ | .enm, .bool _, _, h, _, _ | .enm, .ts _, _, h, _, _ | .enm, .struct _, _, h, _, _
    | .enm, .union _ _, _, h, _, _ => by simp [Fits] at h
    | .i32, .str _, _, h, _, _ | .i32, .bool _, _, h, _, _ | .i32, .ts _, _, h, _, _ | .i32, .struct _, _, h, _, _
    | .i32, .union _ _, _, h, _, _ => by simp [Fits] at h
    | .i64, .str _, _, h, _, _ | .i64, .bool _, _, h, _, _ | .i64, .ts _, _, h, _, _ | .i64, .struct _, _, h, _, _
    | .i64, .union _ _, _, h, _, _ => by simp [Fits] at h
    | .bool, .str _, _, h, _, _ | .bool, .int _, _, h, _, _ | .bool, .ts _, _, h, _, _ | .bool, .struct _, _, h, _, _
    | .bool, .union _ _, _, h, _, _ => by simp [Fits] at h
    | .ts _, .str _, _, h, _, _ | .ts _, .int _, _, h, _, _ | .ts _, .bool _, _, h, _, _ | .ts _, .struct _, _, h, _, _
    | .ts _, .union _ _, _, h, _, _ => by simp [Fits] at h
    | .struct _, .str _, _, h, _, _ | .struct _, .int _, _, h, _, _ | .struct _, .bool _, _, h, _, _
    | .struct _, .ts _, _, h, _, _ | .struct _, .union _ _, _, h, _, _ => by simp [Fits] at h
    | .union _, .str _, _, h, _, _ | .union _, .int _, _, h, _, _ | .union _, .bool _, _, h, _, _
    | .union _, .ts _, _, h, _, _ | .union _, .struct _, _, h, _, _ => by simp [Fits] at h
  /-- the `for_each_element` loop of a struct deserialiser over what the struct serialiser wrote, started in the
  middle: the members `P` are done (their slots are `A`), the members `S` are still to come (those bound to an
  attribute are read already: `initSlots`) -/
  theorem fields_roundtrip (X : Ext) : ∀ (S : Flds) (P : Flds) (A fvs : List FVal) (fuel : Nat) (n : Bytes)
      (tail : List Ev), distinct (P.append S).tags = true → S.wf = true → FitsFields X S fvs →
      A.length = P.length → (encodeFields S fvs).length < fuel →
      forEach (fun name a evs acc => decodeField X (P.append S) name a evs acc) fuel
        (encodeFields S fvs ++ .stop n :: tail) (A ++ initSlots S fvs) = .ok (A ++ fvs, .stop n :: tail)
    | .nil, P, A, fvs, fuel, n, tail, _, _, hfit, _, hfuel => by
      cases fvs with
      | cons _ _ => simp [FitsFields] at hfit
      | nil =>
        cases fuel with
        | zero => simp at hfuel
        | succ k => simp [encodeFields, initSlots, forEach_stop]
    | .cons tag pres shape s Rf, P, A, [], fuel, n, tail, _, _, hfit, _, _ => by simp [FitsFields] at hfit
    | .cons tag pres shape s Rf, P, A, fv :: fvs', fuel, n, tail, hd, hwf, hfit, hl, hfuel => by
      simp only [FitsFields] at hfit
      simp only [Flds.wf, Bool.and_eq_true] at hwf
      have htag : tag ∉ P.tags := by
        rw [Flds.tags_append] at hd
        exact distinct_append_cons (by simpa [Flds.tags] using hd)
      -- the loop over the remaining members, with this member done
      have hP := append_single_assoc P tag pres shape s Rf
      have hrest : ∀ (slot : FVal) (fuel' : Nat), (encodeFields Rf fvs').length < fuel' →
          forEach (fun name a evs acc => decodeField X (P.append (.cons tag pres shape s Rf)) name a evs acc) fuel'
            (encodeFields Rf fvs' ++ .stop n :: tail) (A ++ slot :: initSlots Rf fvs')
            = .ok (A ++ slot :: fvs', .stop n :: tail) := by
        intro slot fuel' hf'
        have := fields_roundtrip X Rf (P.append (.cons tag pres shape s .nil)) (A ++ [slot]) fvs' fuel' n tail
          (by rw [hP]; exact hd) hwf.2.1 hfit.2 (by simp [Flds.length_append, Flds.length, hl]) hf'
        rw [hP] at this
        simpa using this
      rw [encodeFields_cons] at hfuel ⊢
      simp only [initSlots, List.append_assoc]
      cases fv with
      | absent =>
        have : encField tag shape s .absent = [] := by cases shape <;> rfl
        rw [this] at hfuel ⊢
        rw [initSlot_absent]
        exact hrest .absent fuel (by simpa using hfuel)
      | one v =>
        cases shape with
        | single =>
          have hv : Fits X s v := by simpa using hfit.1
          cases fuel with
          | zero => simp at hfuel
          | succ k =>
            simp only [encField, elemA, List.cons_append, List.append_assoc, List.nil_append] at hfuel ⊢
            rw [forEach_step _ k tag (encAttrs s v) _ _ _ _
              (decodeField_at X P A htag hl (decodeField_single_ok X (decode_encode X s v hwf.1 hv tag _)))]
            exact hrest (.one v) k (by simp at hfuel; omega)
        | wrapped m => simp at hfit
        | flat => simp at hfit
        | attr =>
          -- no element: the attribute was read by the `let` block
          have : encField tag .attr s (.one v) = [] := rfl
          rw [this] at hfuel ⊢
          exact hrest (.one v) fuel (by simpa using hfuel)
      | many vs =>
        cases shape with
        | single => simp at hfit
        | attr => simp at hfit
        | wrapped m =>
          have hv : ∀ v ∈ vs, Fits X s v := by simpa using hfit.1
          cases fuel with
          | zero => simp at hfuel
          | succ k =>
            simp only [encField, elem, List.cons_append, List.append_assoc, List.nil_append] at hfuel ⊢
            have hlist := forEach_listItem X s m tag (encodeFields Rf fvs' ++ .stop n :: tail) vs
              (fun v hvm n' rest' => decode_encode X s v hwf.1 (hv v hvm) n' rest') []
              (((vs.flatMap fun v => elemA m (encAttrs s v) (encode s v)) ++ .stop tag :: (encodeFields Rf fvs' ++ .stop n :: tail)).length + 1)
              (by simp; omega)
            simp only [List.nil_append] at hlist
            rw [forEach_step _ k tag [] _ _ _ _
              (decodeField_at X P A htag hl (decodeField_wrapped_ok X hlist))]
            exact hrest (.many vs) k (by simp at hfuel; omega)
        | flat =>
          have hne : vs ≠ [] := by
            have := hfit.1; simp at this; exact this.1
          have hv : ∀ v ∈ vs, Fits X s v := by
            have := hfit.1; simp at this; exact this.2
          simp only [encField] at hfuel ⊢
          have h2 := flatMap_elem_length tag s vs
          rw [forEach_flat _ s tag A (initSlots Rf fvs') _ vs
            (fun v hvm slot rest' =>
              decodeField_at X P A htag hl (decodeField_flat_ok X (decode_encode X s v hwf.1 (hv v hvm) tag rest')))
            .absent fuel (by simp only [List.length_append] at hfuel; omega)]
          cases vs with
          | nil => exact absurd rfl hne
          | cons v0 vs0 =>
            rw [pushAll_absent_cons]
            exact hrest _ _ (by simp only [List.length_append] at hfuel; omega)
  /-- the variant a union value was written as is the variant it is read as -/
  theorem variant_roundtrip (X : Ext) : ∀ (vars : Vars) (tag : Bytes) (v : Val), vars.wf = true →
      FitsVariant X vars tag v →
      ∃ a inner, encodeVariant vars tag v = elemA tag a inner ∧
        ∀ more, decodeVariant X vars tag a (inner ++ .stop tag :: more) = .ok (.union tag v, .stop tag :: more)
    | .nil, _, _, _, hfit => by simp [FitsVariant] at hfit
    | .cons t s rest, tag, v, hwf, hfit => by
      simp only [Vars.wf, Bool.and_eq_true] at hwf
      simp only [FitsVariant] at hfit
      by_cases h : t = tag
      · subst h
        simp only [if_true] at hfit
        refine ⟨encAttrs s v, encode s v, by simp [encodeVariant], ?_⟩
        intro more
        simp [decodeVariant, decode_encode X s v hwf.1 hfit t more]
      · simp only [if_neg h] at hfit
        obtain ⟨a, inner, henc, hdec⟩ := variant_roundtrip X rest tag v hwf.2 hfit
        refine ⟨a, inner, by simp [encodeVariant, h, henc], ?_⟩
        intro more
        have h' : tag ≠ t := fun e => h e.symm
        simp [decodeVariant, h', hdec more]
end


/-! ### documents -/

theorem expectEof_nil : expectEof [] = .ok () := by simp [expectEof, skipText]

/-- what is not a struct never looks at the attributes -/
theorem decode_attrs_irrel (X : Ext) : ∀ (s : Sch) (a a' : Bytes) (evs : List Ev),
    (∀ fs, s ≠ .struct fs) → decode X s a evs = decode X s a' evs
  | .struct fs, _, _, _, h => absurd rfl (h fs)
  | .union vs, a, a', evs, _ => by rw [decode.eq_2, decode.eq_2]
  | .str, a, a', evs, _ => by
    rw [decode.eq_3 X _ _ _ (by intros; contradiction) (by intros; contradiction),
      decode.eq_3 X _ _ _ (by intros; contradiction) (by intros; contradiction)]
  | .enm, a, a', evs, _ => by
    rw [decode.eq_3 X _ _ _ (by intros; contradiction) (by intros; contradiction),
      decode.eq_3 X _ _ _ (by intros; contradiction) (by intros; contradiction)]
  | .i32, a, a', evs, _ => by
    rw [decode.eq_3 X _ _ _ (by intros; contradiction) (by intros; contradiction),
      decode.eq_3 X _ _ _ (by intros; contradiction) (by intros; contradiction)]
  | .i64, a, a', evs, _ => by
    rw [decode.eq_3 X _ _ _ (by intros; contradiction) (by intros; contradiction),
      decode.eq_3 X _ _ _ (by intros; contradiction) (by intros; contradiction)]
  | .bool, a, a', evs, _ => by
    rw [decode.eq_3 X _ _ _ (by intros; contradiction) (by intros; contradiction),
      decode.eq_3 X _ _ _ (by intros; contradiction) (by intros; contradiction)]
  | .ts _, a, a', evs, _ => by
    rw [decode.eq_3 X _ _ _ (by intros; contradiction) (by intros; contradiction),
      decode.eq_3 X _ _ _ (by intros; contradiction) (by intros; contradiction)]

/-- the round trip of a content whose start tag also carries the `xmlns` attribute of a root
(`content_with_ns`): `d.attribute` finds the attributes of the value behind it -/
theorem decode_encode_ns (X : Ext) (ps0 : List (Bytes × Bytes)) (h0 : NsPairs ps0) (s : Sch) (v : Val)
    (hwf : s.wf = true) (hfit : Fits X s v) (n : Bytes) (rest : List Ev) :
    decode X s (attrsOf ps0 ++ encAttrs s v) (encode s v ++ .stop n :: rest) = .ok (v, .stop n :: rest) := by
  cases s with
  | struct fs =>
    cases v with
    | struct vs =>
      simp only [Fits] at hfit
      simp only [Sch.wf, Bool.and_eq_true] at hwf
      simp only [encode, encAttrs_struct]
      rw [decode.eq_1]
      cases hnil : fs.isNil with
      | true =>
        cases fs with
        | nil =>
          cases vs with
          | nil => simp [encodeFields]
          | cons _ _ => simp [FitsFields] at hfit
        | cons _ _ _ _ _ => simp [Flds.isNil] at hnil
      | false =>
        have hinit := initAcc_written X ps0 h0 fs vs hwf.2 hwf.1 fs .nil vs [] rfl rfl rfl hfit
        have hloop := fields_roundtrip X fs .nil [] vs ((encodeFields fs vs ++ .stop n :: rest).length + 1) n rest
          (by simpa [Flds.append] using hwf.1) hwf.2 hfit rfl (by simp; omega)
        simp only [Flds.append, List.nil_append] at hloop
        simp only [Bool.false_eq_true, if_false, hinit, hloop, finish_fits X fs vs hfit]
    | str _ => simp [Fits] at hfit
    | int _ => simp [Fits] at hfit
    | bool _ => simp [Fits] at hfit
    | ts _ => simp [Fits] at hfit
    | union _ _ => simp [Fits] at hfit
  | union vs =>
    rw [decode_attrs_irrel X (.union vs) _ (encAttrs (.union vs) v) _ (by intro fs h; cases h)]
    exact decode_encode X _ v hwf hfit n rest
  | str =>
    rw [decode_attrs_irrel X .str _ (encAttrs .str v) _ (by intro fs h; cases h)]
    exact decode_encode X _ v hwf hfit n rest
  | enm =>
    rw [decode_attrs_irrel X .enm _ (encAttrs .enm v) _ (by intro fs h; cases h)]
    exact decode_encode X _ v hwf hfit n rest
  | i32 =>
    rw [decode_attrs_irrel X .i32 _ (encAttrs .i32 v) _ (by intro fs h; cases h)]
    exact decode_encode X _ v hwf hfit n rest
  | i64 =>
    rw [decode_attrs_irrel X .i64 _ (encAttrs .i64 v) _ (by intro fs h; cases h)]
    exact decode_encode X _ v hwf hfit n rest
  | bool =>
    rw [decode_attrs_irrel X .bool _ (encAttrs .bool v) _ (by intro fs h; cases h)]
    exact decode_encode X _ v hwf hfit n rest
  | ts f =>
    rw [decode_attrs_irrel X (.ts f) _ (encAttrs (.ts f) v) _ (by intro fs h; cases h)]
    exact decode_encode X _ v hwf hfit n rest

theorem nsPairs_ns (ns : Option Bytes) : NsPairs (nsPairsOf ns) := by
  cases ns with
  | none => intro kv h; simp [nsPairsOf] at h
  | some uri =>
    intro kv h
    simp only [nsPairsOf, List.mem_singleton] at h
    subst h
    exact ⟨⟨(by decide : keyPlain xmlnsKey = true), fun c hc => (escape_no uri c hc).2⟩, rfl⟩

/-- `T::deserialize` + `expect_eof` reads back what `T::serialize` wrote (generated roots) -/
theorem decodeDoc_encodeDoc_named (X : Ext) (tag : Bytes) (ns : Option Bytes) (s : Sch) (v : Val)
    (hwf : s.wf = true) (hfit : Fits X s v) :
    decodeDoc X (.named tag) s (encodeDoc (.named tag ns) s v) = .ok v := by
  simp only [decodeDoc, encodeDoc, List.cons_append, expectStart_start]
  rw [nsAttr_eq, decode_encode_ns X _ (nsPairs_ns ns) s v hwf hfit tag []]
  simp [expectEnd_stop, expectEof_nil]

/-- the two-level wrapper of `AssumeRoleOutput` (xml/mod.rs) -/
theorem decodeDoc_encodeDoc_nested (X : Ext) (outer inner : Bytes) (ns : Option Bytes) (s : Sch) (v : Val)
    (hwf : s.wf = true) (hfit : Fits X s v) :
    decodeDoc X (.nested outer inner) s (encodeDoc (.nested outer inner ns) s v) = .ok v := by
  simp only [decodeDoc, encodeDoc, elemA, List.cons_append, List.append_assoc, List.nil_append, expectStart_start]
  simp [decode_encode X s v hwf hfit inner [.stop outer], expectEnd_stop, expectEof_nil]

/-! ### the serialiser never looks at what distinguishes `dflt` from `req` -/

theorem attrPairs_serView : ∀ (fs : Flds) (vs : List FVal), attrPairs fs.serView vs = attrPairs fs vs
  | .nil, _ => by simp [Flds.serView, attrPairs]
  | .cons t p sh s r, [] => by simp [Flds.serView, attrPairs]
  | .cons t p sh s r, fv :: fvs => by simp [Flds.serView, attrPairs, attrPairs_serView r fvs]

theorem encAttrs_serView (s : Sch) (v : Val) : encAttrs s.serView v = encAttrs s v := by
  cases s <;> cases v <;> simp [Sch.serView, encAttrs, attrPairs_serView]

mutual
  theorem encode_serView : ∀ (s : Sch) (v : Val), encode s.serView v = encode s v
    | .struct fs, .struct vs => by simp [Sch.serView, encode, encodeFields_serView fs vs]
    | .union vars, .union tag v => by simp [Sch.serView, encode, encodeVariant_serView vars tag v]
    | .str, _ | .enm, _ | .i32, _ | .i64, _ | .bool, _ | .ts _, _ => by simp [Sch.serView]
    | .struct _, .str _ | .struct _, .int _ | .struct _, .bool _ | .struct _, .ts _ | .struct _, .union _ _ => by
      simp [Sch.serView, encode]
    | .union _, .str _ | .union _, .int _ | .union _, .bool _ | .union _, .ts _ | .union _, .struct _ => by
      simp [Sch.serView, encode]
  theorem encodeFields_serView : ∀ (fs : Flds) (vs : List FVal), encodeFields fs.serView vs = encodeFields fs vs
    | .nil, _ => by simp [Flds.serView, encodeFields]
    | .cons t p sh s r, [] => by simp [Flds.serView, encodeFields]
    | .cons t p sh s r, fv :: fvs => by
      simp only [Flds.serView]
      rw [encodeFields_cons, encodeFields_cons, encodeFields_serView r fvs]
      congr 1
      cases sh <;> cases fv <;> simp [encField, encode_serView s, encAttrs_serView s]
  theorem encodeVariant_serView : ∀ (vars : Vars) (tag : Bytes) (v : Val),
      encodeVariant vars.serView tag v = encodeVariant vars tag v
    | .nil, _, _ => by simp [Vars.serView, encodeVariant]
    | .cons t s r, tag, v => by
      simp [Vars.serView, encodeVariant, encode_serView s v, encAttrs_serView s v, encodeVariant_serView r tag v]
end

end S3V.Xml
