import S3V.Thm.XmlWf
import S3V.Thm.XmlEscape
import S3V.Thm.XmlUtf8
/-!
Round trip of the generic XML codec: `decode s (encode s v ++ stop …) = ok (v, stop …)` for every well-formed schema and
every value of it in normal form, by mutual structural induction on the schema.
-/
namespace S3V.Xml
open S3V

/-! ### values of a schema, in normal form -/

mutual
  /-- `Fits X s v`: `v` is a value of schema `s` in *normal form*.
  Normal form = the values that have a restXml representation of their own:
  * a list member written flattened is not the empty list (`Some([])` and `[]` write nothing at all, which reads
    back as `None` / `MissingField`);
  * a member is `absent` only if it is optional.
  Strings are Rust `String`s, i.e. valid UTF-8. Integers are in range. A timestamp is its own canonical rendering. -/
  def Fits (X : Ext) : Sch → Val → Prop
    | .str, .str b | .enm, .str b => utf8Valid b = true
    | .i32, .int i => i32Min ≤ i ∧ i ≤ i32Max
    | .i64, .int i => i64Min ≤ i ∧ i ≤ i64Max
    | .bool, .bool _ => True
    | .ts f, .ts t => X.tsParse f t = some t ∧ isAscii t = true ∧ escapeText t = t
    | .struct fs, .struct vs => FitsFields X fs vs
    | .union vs, .union tag v => FitsVariant X vs tag v
    | _, _ => False
  def FitsFields (X : Ext) : Flds → List FVal → Prop
    | .nil, [] => True
    | .cons _ pres shape s rest, fv :: fvs =>
      (match shape, fv with
        | .single, .one v => Fits X s v
        | .wrapped _, .many vs => ∀ v ∈ vs, Fits X s v
        | .flat, .many vs => vs ≠ [] ∧ ∀ v ∈ vs, Fits X s v
        | _, .absent => pres = .opt
        | _, _ => False) ∧ FitsFields X rest fvs
    | _, _ => False
  def FitsVariant (X : Ext) : Vars → Bytes → Val → Prop
    | .nil, _, _ => False
    | .cons t s rest, tag, v => if t = tag then Fits X s v else FitsVariant X rest tag v
end

/-! ### unfolding `Fits` (general forms; used to exhibit concrete values) -/

theorem fits_struct (X : Ext) (fs : Flds) (vs : List FVal) : Fits X (.struct fs) (.struct vs) = FitsFields X fs vs := by
  simp only [Fits]

theorem fits_str (X : Ext) (b : Bytes) : Fits X .str (.str b) = (utf8Valid b = true) := by simp only [Fits]

theorem fitsFields_nil (X : Ext) : FitsFields X .nil [] = True := by simp only [FitsFields]

theorem fitsFields_one (X : Ext) (t : Bytes) (p : Pres) (s : Sch) (r : Flds) (v : Val) (fvs : List FVal) :
    FitsFields X (.cons t p .single s r) (.one v :: fvs) = (Fits X s v ∧ FitsFields X r fvs) := by
  simp only [FitsFields]

theorem fitsFields_absent (X : Ext) (t : Bytes) (p : Pres) (sh : Shape) (s : Sch) (r : Flds) (fvs : List FVal) :
    FitsFields X (.cons t p sh s r) (.absent :: fvs) = (p = .opt ∧ FitsFields X r fvs) := by
  cases sh <;> simp only [FitsFields]

theorem fitsFields_wrapped (X : Ext) (t m : Bytes) (p : Pres) (s : Sch) (r : Flds) (vs : List Val) (fvs : List FVal) :
    FitsFields X (.cons t p (.wrapped m) s r) (.many vs :: fvs) = ((∀ v ∈ vs, Fits X s v) ∧ FitsFields X r fvs) := by
  simp only [FitsFields]

theorem fitsFields_flat (X : Ext) (t : Bytes) (p : Pres) (s : Sch) (r : Flds) (vs : List Val) (fvs : List FVal) :
    FitsFields X (.cons t p .flat s r) (.many vs :: fvs) = ((vs ≠ [] ∧ ∀ v ∈ vs, Fits X s v) ∧ FitsFields X r fvs) := by
  simp only [FitsFields]

/-! ### helpers -/

def Flds.append : Flds → Flds → Flds
  | .nil, b => b
  | .cons t p sh s r, b => .cons t p sh s (r.append b)

def Flds.length : Flds → Nat
  | .nil => 0
  | .cons _ _ _ _ r => r.length + 1

theorem Flds.append_nil : ∀ a : Flds, a.append .nil = a
  | .nil => rfl
  | .cons t p sh s r => by simp [Flds.append, Flds.append_nil r]

theorem Flds.append_assoc : ∀ a b c : Flds, (a.append b).append c = a.append (b.append c)
  | .nil, _, _ => rfl
  | .cons t p sh s r, b, c => by simp [Flds.append, Flds.append_assoc r b c]

theorem Flds.tags_append : ∀ a b : Flds, (a.append b).tags = a.tags ++ b.tags
  | .nil, _ => rfl
  | .cons t p sh s r, b => by simp [Flds.append, Flds.tags, Flds.tags_append r b]

theorem Flds.length_append : ∀ a b : Flds, (a.append b).length = a.length + b.length
  | .nil, b => by simp [Flds.append, Flds.length]
  | .cons t p sh s r, b => by simp [Flds.append, Flds.length, Flds.length_append r b]; omega

theorem distinct_append_cons {a : List Bytes} {t : Bytes} {b : List Bytes} (h : distinct (a ++ t :: b) = true) :
    t ∉ a := by
  induction a with
  | nil => simp
  | cons x xs ih =>
    simp only [List.cons_append, distinct, Bool.and_eq_true, Bool.not_eq_true', List.contains_eq_mem,
      List.mem_append, List.mem_cons, decide_eq_false_iff_not] at h
    intro hm
    rcases List.mem_cons.mp hm with hx | hx
    · exact h.1 (Or.inr (Or.inl hx.symm))
    · exact ih h.2 hx

/-- what one member contributes (the inline `match` of `encodeFields`) -/
def encField (tag : Bytes) (shape : Shape) (s : Sch) (fv : FVal) : List Ev :=
  match shape, fv with
  | .single, .one v => elem tag (encode s v)
  | .wrapped m, .many vs => elem tag (vs.flatMap fun v => elem m (encode s v))
  | .flat, .many vs => vs.flatMap fun v => elem tag (encode s v)
  | _, _ => []

theorem encodeFields_cons (tag : Bytes) (p : Pres) (shape : Shape) (s : Sch) (rest : Flds) (fv : FVal) (fvs : List FVal) :
    encodeFields (.cons tag p shape s rest) (fv :: fvs) = encField tag shape s fv ++ encodeFields rest fvs := by
  cases shape <;> cases fv <;> simp [encodeFields, encField]

theorem elem_length (tag : Bytes) (inner : List Ev) : (elem tag inner).length = inner.length + 2 := by
  simp [elem]

/-! ### cursor lemmas -/

theorem skipText_start (n a : Bytes) (r : List Ev) : skipText (.start n a :: r) = .start n a :: r := by
  simp [skipText]

theorem skipText_stop (n : Bytes) (r : List Ev) : skipText (.stop n :: r) = .stop n :: r := by
  simp [skipText]

theorem expectEnd_stop (n : Bytes) (r : List Ev) : expectEnd n (.stop n :: r) = .ok r := by
  simp [expectEnd, skipText]

theorem expectStart_start (n a : Bytes) (r : List Ev) : expectStart n (.start n a :: r) = .ok r := by
  simp [expectStart, skipText]

theorem forEach_stop {α : Type} (f : Bytes → List Ev → α → R α) (fuel : Nat) (n : Bytes) (r : List Ev) (acc : α) :
    forEach f (fuel + 1) (.stop n :: r) acc = .ok (acc, .stop n :: r) := by
  simp [forEach, skipText]

theorem forEach_step {α : Type} (f : Bytes → List Ev → α → R α) (fuel : Nat) (n a : Bytes) (r r' : List Ev)
    (acc acc' : α) (hf : f n r acc = .ok (acc', .stop n :: r')) :
    forEach f (fuel + 1) (.start n a :: r) acc = forEach f fuel r' acc' := by
  simp [forEach, skipText, hf, expectEnd]

/-! ### dispatch of an element name to its member -/

theorem decodeField_ne (X : Ext) {name tag : Bytes} (h : name ≠ tag) (pres : Pres) (shape : Shape) (s : Sch)
    (rest : Flds) (evs : List Ev) (slot : FVal) (accRest : List FVal) :
    decodeField X (.cons tag pres shape s rest) name evs (slot :: accRest)
      = (match decodeField X rest name evs accRest with
         | .error e => .error e
         | .ok (acc', r) => .ok (slot :: acc', r)) := by
  cases shape <;> simp only [decodeField, if_neg h] <;> cases decodeField X rest name evs accRest <;> rfl

theorem decodeField_append (X : Ext) (tag : Bytes) (pres : Pres) (shape : Shape) (s : Sch) (Rf : Flds)
    (slot : FVal) (B : List FVal) (evs : List Ev) :
    ∀ (P : Flds) (A : List FVal), tag ∉ P.tags → A.length = P.length →
      decodeField X (P.append (.cons tag pres shape s Rf)) tag evs (A ++ slot :: B)
        = (match decodeField X (.cons tag pres shape s Rf) tag evs (slot :: B) with
           | .error e => .error e
           | .ok (acc', r) => .ok (A ++ acc', r))
  | .nil, A, _, hl => by
    have : A = [] := by simpa [Flds.length] using hl
    subst this
    simp only [Flds.append, List.nil_append]
    cases decodeField X (.cons tag pres shape s Rf) tag evs (slot :: B) with
    | error e => rfl
    | ok p => rfl
  | .cons t' p' sh' s' P', A, hnot, hl => by
    cases A with
    | nil => simp [Flds.length] at hl
    | cons a A' =>
      have hne : tag ≠ t' := by
        intro h; apply hnot; simp [Flds.tags, h]
      have hnot' : tag ∉ P'.tags := by
        intro h; apply hnot; simp [Flds.tags, h]
      have hl' : A'.length = P'.length := by simpa [Flds.length] using hl
      simp only [Flds.append, List.cons_append]
      rw [decodeField_ne X hne]
      rw [decodeField_append X tag pres shape s Rf slot B evs P' A' hnot' hl']
      cases decodeField X (.cons tag pres shape s Rf) tag evs (slot :: B) with
      | error e => rfl
      | ok p => rfl


theorem decodeField_at (X : Ext) {tag : Bytes} {pres : Pres} {shape : Shape} {s : Sch} {Rf : Flds}
    {slot : FVal} {B : List FVal} {evs : List Ev} {acc' : List FVal} {r : List Ev}
    (P : Flds) (A : List FVal) (hnot : tag ∉ P.tags) (hl : A.length = P.length)
    (hhead : decodeField X (.cons tag pres shape s Rf) tag evs (slot :: B) = .ok (acc', r)) :
    decodeField X (P.append (.cons tag pres shape s Rf)) tag evs (A ++ slot :: B) = .ok (A ++ acc', r) := by
  rw [decodeField_append X tag pres shape s Rf slot B evs P A hnot hl, hhead]

theorem decodeField_single_ok (X : Ext) {tag : Bytes} {pres : Pres} {s : Sch} {Rf : Flds} {B : List FVal}
    {evs r : List Ev} {v : Val} (h : decode X s evs = .ok (v, r)) :
    decodeField X (.cons tag pres .single s Rf) tag evs (.absent :: B) = .ok (.one v :: B, r) := by
  simp [decodeField, FVal.isAbsent, h]

theorem decodeField_flat_ok (X : Ext) {tag : Bytes} {pres : Pres} {s : Sch} {Rf : Flds} {slot : FVal} {B : List FVal}
    {evs r : List Ev} {v : Val} (h : decode X s evs = .ok (v, r)) :
    decodeField X (.cons tag pres .flat s Rf) tag evs (slot :: B) = .ok (slot.push v :: B, r) := by
  simp [decodeField, h]

theorem decodeField_wrapped_ok (X : Ext) {tag m : Bytes} {pres : Pres} {s : Sch} {Rf : Flds} {B : List FVal}
    {evs r : List Ev} {l : List Val}
    (h : forEach (listItem (fun evs => decode X s evs) m) (evs.length + 1) evs [] = .ok (l, r)) :
    decodeField X (.cons tag pres (.wrapped m) s Rf) tag evs (.absent :: B) = .ok (.many l :: B, r) := by
  simp [decodeField, FVal.isAbsent, h]

/-! ### lists -/

theorem flatMap_elem_length (tag : Bytes) (s : Sch) (vs : List Val) :
    2 * vs.length ≤ (vs.flatMap fun v => elem tag (encode s v)).length := by
  induction vs with
  | nil => simp
  | cons v vs ih => simp only [List.flatMap_cons, List.length_append, elem_length, List.length_cons]; omega

/-- `d.list_content(m)` reads back what `s.list(_, m, iter)` wrote -/
theorem forEach_listItem (X : Ext) (s : Sch) (m : Bytes) (tag : Bytes) (more : List Ev) :
    ∀ (vs : List Val),
      (∀ v ∈ vs, ∀ n rest, decode X s (encode s v ++ .stop n :: rest) = .ok (v, .stop n :: rest)) →
      ∀ (l : List Val) (fuel : Nat), (vs.flatMap fun v => elem m (encode s v)).length < fuel →
        forEach (listItem (fun evs => decode X s evs) m) fuel
          ((vs.flatMap fun v => elem m (encode s v)) ++ .stop tag :: more) l = .ok (l ++ vs, .stop tag :: more)
  | [], _, l, fuel, hfuel => by
    cases fuel with
    | zero => simp at hfuel
    | succ k => simp [forEach_stop]
  | v :: vs, hdec, l, fuel, hfuel => by
    cases fuel with
    | zero => simp at hfuel
    | succ k =>
      simp only [List.flatMap_cons, elem, List.cons_append, List.append_assoc, List.nil_append] at hfuel ⊢
      have hitem : listItem (fun evs => decode X s evs) m m
          (encode s v ++ .stop m :: ((vs.flatMap fun v => .start m [] :: (encode s v ++ [.stop m])) ++ .stop tag :: more)) l
          = .ok (l ++ [v], .stop m :: ((vs.flatMap fun v => .start m [] :: (encode s v ++ [.stop m])) ++ .stop tag :: more)) := by
        simp [listItem, hdec v (by simp)]
      rw [forEach_step _ k m [] _ _ l (l ++ [v]) hitem]
      have ih := forEach_listItem X s m tag more vs (fun v hv => hdec v (by simp [hv])) (l ++ [v]) k
        (by simp only [elem, List.cons_append] at *; simp only [List.length_cons, List.length_append] at hfuel; omega)
      simp only [elem, List.cons_append] at ih
      rw [ih]; simp

/-- pushing the items of a flattened list one by one -/
def pushAll (slot : FVal) (vs : List Val) : FVal := vs.foldl FVal.push slot

theorem pushAll_absent_cons (v : Val) (vs : List Val) : pushAll .absent (v :: vs) = .many (v :: vs) := by
  have h : ∀ (vs l : List Val), pushAll (.many l) vs = .many (l ++ vs) := by
    intro vs
    induction vs with
    | nil => intro l; simp [pushAll]
    | cons x xs ih =>
      intro l
      have := ih (l ++ [x])
      simp only [pushAll, List.foldl_cons, FVal.push] at this ⊢
      rw [this]; simp
  simp only [pushAll, List.foldl_cons, FVal.push]
  exact h vs [v]

/-- the elements of a flattened list are read back one by one into the member's slot -/
theorem forEach_flat (f : Bytes → List Ev → List FVal → R (List FVal)) (s : Sch) (tag : Bytes)
    (A B : List FVal) (more : List Ev) :
    ∀ (vs : List Val),
      (∀ v ∈ vs, ∀ slot rest, f tag (encode s v ++ .stop tag :: rest) (A ++ slot :: B)
          = .ok (A ++ slot.push v :: B, .stop tag :: rest)) →
      ∀ (slot : FVal) (fuel : Nat), vs.length ≤ fuel →
        forEach f fuel ((vs.flatMap fun v => elem tag (encode s v)) ++ more) (A ++ slot :: B)
          = forEach f (fuel - vs.length) more (A ++ pushAll slot vs :: B)
  | [], _, slot, fuel, _ => by simp [pushAll]
  | v :: vs, hf, slot, fuel, hfuel => by
    cases fuel with
    | zero => simp at hfuel
    | succ k =>
      simp only [List.flatMap_cons, elem, List.cons_append, List.append_assoc, List.nil_append]
      rw [forEach_step f k tag [] _ _ _ _ (hf v (by simp) slot _)]
      have ih := forEach_flat f s tag A B more vs (fun v hv => hf v (by simp [hv])) (slot.push v) k
        (by simp at hfuel; omega)
      simp only [elem, List.cons_append] at ih
      rw [ih]
      simp [pushAll]


/-! ### the `Ok(Self { … })` expression on a value that fits -/

theorem emptyAcc_length : ∀ fs : Flds, fs.emptyAcc.length = fs.length
  | .nil => rfl
  | .cons _ _ _ _ r => by simp [Flds.emptyAcc, Flds.length, emptyAcc_length r]

theorem finish_fits (X : Ext) : ∀ (fs : Flds) (fvs : List FVal), FitsFields X fs fvs → fs.finish fvs = .ok fvs
  | .nil, [], _ => by simp [Flds.finish]
  | .nil, _ :: _, h => by simp [FitsFields] at h
  | .cons _ _ _ _ _, [], h => by simp [FitsFields] at h
  | .cons t pres shape s r, fv :: fvs, h => by
    simp only [FitsFields] at h
    have ih := finish_fits X r fvs h.2
    simp only [Flds.finish, ih]
    cases fv with
    | absent =>
      have hp : pres = .opt := by
        cases shape <;> simpa using h.1
      subst hp; rfl
    | one v => cases pres <;> rfl
    | many vs => cases pres <;> rfl

/-! ### scalars -/

theorem decodeStr_escape {b : Bytes} (h : utf8Valid (escape b) = true) : decodeStr (escape b) = .ok b := by
  simp [decodeStr, h, unescape_escape]

theorem decodeStr_escapeText {b : Bytes} (h : utf8Valid b = true) : decodeStr (escapeText b) = .ok b := by
  simp [decodeStr, utf8Valid_escapeText h, unescape_escapeText]

theorem decode_scalar_ok (X : Ext) (s : Sch) {evs r : List Ev} {raw : Bytes} {v : Val}
    (hs : isScalar s = true) (htext : textOf evs = .ok (raw, r)) (hval : decodeScalarText X s raw = .ok v) :
    decode X s evs = .ok (v, r) := by
  cases s <;> first
    | (simp [isScalar] at hs; done)
    | (rw [decode.eq_3 X _ _ (by intros; contradiction) (by intros; contradiction)]; simp [htext, hval])

/-- `Deserializer::text` at an end tag: the empty text -/
theorem textOf_stop (n : Bytes) (rest : List Ev) : textOf (.stop n :: rest) = .ok ([], .stop n :: rest) := by
  simp [textOf, textLoop]

/-- `Deserializer::text` at a lone text piece: the piece with its line ends normalised (fast path) -/
theorem textOf_text_stop' (raw n : Bytes) (rest : List Ev) :
    textOf (.text raw :: .stop n :: rest) = .ok (normText raw, .stop n :: rest) := by
  simp [textOf, textLoop]

/-- … which is the piece as it is when it holds no literal CR — everything the serialiser writes (`escapeText_noCr`) -/
theorem textOf_text_stop (raw n : Bytes) (rest : List Ev) (hcr : ∀ c ∈ raw, c ≠ 13) :
    textOf (.text raw :: .stop n :: rest) = .ok (raw, .stop n :: rest) := by
  rw [textOf_text_stop', normText_of_noCr hcr]

theorem decode_scalar_text (X : Ext) (s : Sch) (raw : Bytes) (v : Val) (n : Bytes) (rest : List Ev)
    (hs : isScalar s = true) (hcr : ∀ c ∈ raw, c ≠ 13) (hraw : decodeScalarText X s raw = .ok v) :
    decode X s (textEv raw ++ .stop n :: rest) = .ok (v, .stop n :: rest) := by
  by_cases hr : raw = []
  · subst hr
    exact decode_scalar_ok X s hs (by simp [textEv, textOf_stop]) hraw
  · exact decode_scalar_ok X s hs (by simp [textEv, hr, textOf_text_stop _ _ _ hcr]) hraw


/-! ### the round trip -/

theorem append_single_assoc (P : Flds) (tag : Bytes) (pres : Pres) (shape : Shape) (s : Sch) (Rf : Flds) :
    (P.append (.cons tag pres shape s .nil)).append Rf = P.append (.cons tag pres shape s Rf) := by
  rw [Flds.append_assoc]; rfl

mutual
  theorem decode_encode (X : Ext) : ∀ (s : Sch) (v : Val), s.wf = true → Fits X s v →
      ∀ (n : Bytes) (rest : List Ev), decode X s (encode s v ++ .stop n :: rest) = .ok (v, .stop n :: rest)
    | .str, .str b, _, hfit, n, rest => by
      simp only [Fits] at hfit
      simp only [encode]
      exact decode_scalar_text X .str _ _ n rest rfl (escapeText_noCr _) (by simp [decodeScalarText, decodeStr_escapeText hfit, Except.map])
    | .enm, .str b, _, hfit, n, rest => by
      simp only [Fits] at hfit
      simp only [encode]
      exact decode_scalar_text X .enm _ _ n rest rfl (escapeText_noCr _) (by simp [decodeScalarText, decodeStr_escapeText hfit, Except.map])
    | .i32, .int i, _, hfit, n, rest => by
      simp only [Fits] at hfit
      simp only [encode]
      exact decode_scalar_text X .i32 _ _ n rest rfl (escapeText_noCr _)
        (by simp [decodeScalarText, escapeText_fmtInt, parseInt_fmtInt hfit.1 hfit.2])
    | .i64, .int i, _, hfit, n, rest => by
      simp only [Fits] at hfit
      simp only [encode]
      exact decode_scalar_text X .i64 _ _ n rest rfl (escapeText_noCr _)
        (by simp [decodeScalarText, escapeText_fmtInt, parseInt_fmtInt hfit.1 hfit.2])
    | .bool, .bool b, _, _, n, rest => by
      simp only [encode]
      exact decode_scalar_text X .bool _ _ n rest rfl (escapeText_noCr _)
        (by simp [decodeScalarText, escapeText_fmtBool, parseBool_fmtBool])
    | .ts f, .ts t, _, hfit, n, rest => by
      simp only [Fits] at hfit
      simp only [encode]
      exact decode_scalar_text X (.ts f) _ _ n rest rfl (escapeText_noCr _)
        (by simp [decodeScalarText, hfit.2.2, hfit.2.1, hfit.1])
    | .struct fs, .struct vs, hwf, hfit, n, rest => by
      simp only [Fits] at hfit
      simp only [Sch.wf, Bool.and_eq_true] at hwf
      simp only [encode]
      rw [decode.eq_1]
      cases hnil : fs.isNil with
      | true =>
        cases fs with
        | nil =>
          cases vs with
          | nil => simp [encodeFields]
          | cons _ _ => simp [FitsFields] at hfit
        | cons _ _ _ _ _ => simp [Flds.isNil] at hnil
      | false =>
        have hloop := fields_roundtrip X fs .nil [] vs ((encodeFields fs vs ++ .stop n :: rest).length + 1) n rest
          (by simpa [Flds.append] using hwf.1) hwf.2 hfit rfl (by simp; omega)
        simp only [Flds.append, List.nil_append] at hloop
        simp only [Bool.false_eq_true, if_false, hloop, finish_fits X fs vs hfit]
    | .union vars, .union tag v, hwf, hfit, n, rest => by
      simp only [Fits] at hfit
      simp only [Sch.wf, Bool.and_eq_true] at hwf
      simp only [encode]
      obtain ⟨inner, henc, hdec⟩ := variant_roundtrip X vars tag v hwf.2 hfit
      rw [henc, decode.eq_2]
      simp only [elem, List.cons_append, List.append_assoc, List.nil_append, skipText_start]
      simp [hdec, expectEnd_stop]
    | .str, .int _, _, h, _, _ | .str, .bool _, _, h, _, _ | .str, .ts _, _, h, _, _ | .str, .struct _, _, h, _, _
    | .str, .union _ _, _, h, _, _ => by simp [Fits] at h
    | .enm, .int _, _, h, _, _ | .enm, .bool _, _, h, _, _ | .enm, .ts _, _, h, _, _ | .enm, .struct _, _, h, _, _
    | .enm, .union _ _, _, h, _, _ => by simp [Fits] at h
    | .i32, .str _, _, h, _, _ | .i32, .bool _, _, h, _, _ | .i32, .ts _, _, h, _, _ | .i32, .struct _, _, h, _, _
    | .i32, .union _ _, _, h, _, _ => by simp [Fits] at h
    | .i64, .str _, _, h, _, _ | .i64, .bool _, _, h, _, _ | .i64, .ts _, _, h, _, _ | .i64, .struct _, _, h, _, _
    | .i64, .union _ _, _, h, _, _ => by simp [Fits] at h
    | .bool, .str _, _, h, _, _ | .bool, .int _, _, h, _, _ | .bool, .ts _, _, h, _, _ | .bool, .struct _, _, h, _, _
    | .bool, .union _ _, _, h, _, _ => by simp [Fits] at h
    | .ts _, .str _, _, h, _, _ | .ts _, .int _, _, h, _, _ | .ts _, .bool _, _, h, _, _ | .ts _, .struct _, _, h, _, _
    | .ts _, .union _ _, _, h, _, _ => by simp [Fits] at h
    | .struct _, .str _, _, h, _, _ | .struct _, .int _, _, h, _, _ | .struct _, .bool _, _, h, _, _
    | .struct _, .ts _, _, h, _, _ | .struct _, .union _ _, _, h, _, _ => by simp [Fits] at h
    | .union _, .str _, _, h, _, _ | .union _, .int _, _, h, _, _ | .union _, .bool _, _, h, _, _
    | .union _, .ts _, _, h, _, _ | .union _, .struct _, _, h, _, _ => by simp [Fits] at h
  /-- the `for_each_element` loop of a struct deserialiser over what the struct serialiser wrote, started in the
  middle: the members `P` are done (their slots are `A`), the members `S` are still to come -/
  theorem fields_roundtrip (X : Ext) : ∀ (S : Flds) (P : Flds) (A fvs : List FVal) (fuel : Nat) (n : Bytes)
      (tail : List Ev), distinct (P.append S).tags = true → S.wf = true → FitsFields X S fvs →
      A.length = P.length → (encodeFields S fvs).length < fuel →
      forEach (fun name evs acc => decodeField X (P.append S) name evs acc) fuel
        (encodeFields S fvs ++ .stop n :: tail) (A ++ S.emptyAcc) = .ok (A ++ fvs, .stop n :: tail)
    | .nil, P, A, fvs, fuel, n, tail, _, _, hfit, _, hfuel => by
      cases fvs with
      | cons _ _ => simp [FitsFields] at hfit
      | nil =>
        cases fuel with
        | zero => simp at hfuel
        | succ k => simp [encodeFields, Flds.emptyAcc, forEach_stop]
    | .cons tag pres shape s Rf, P, A, [], fuel, n, tail, _, _, hfit, _, _ => by simp [FitsFields] at hfit
    | .cons tag pres shape s Rf, P, A, fv :: fvs', fuel, n, tail, hd, hwf, hfit, hl, hfuel => by
      simp only [FitsFields] at hfit
      simp only [Flds.wf, Bool.and_eq_true] at hwf
      have htag : tag ∉ P.tags := by
        rw [Flds.tags_append] at hd
        exact distinct_append_cons (by simpa [Flds.tags] using hd)
      -- the loop over the remaining members, with this member done
      have hP := append_single_assoc P tag pres shape s Rf
      have hrest : ∀ (slot : FVal) (fuel' : Nat), (encodeFields Rf fvs').length < fuel' →
          forEach (fun name evs acc => decodeField X (P.append (.cons tag pres shape s Rf)) name evs acc) fuel'
            (encodeFields Rf fvs' ++ .stop n :: tail) (A ++ slot :: Rf.emptyAcc)
            = .ok (A ++ slot :: fvs', .stop n :: tail) := by
        intro slot fuel' hf'
        have := fields_roundtrip X Rf (P.append (.cons tag pres shape s .nil)) (A ++ [slot]) fvs' fuel' n tail
          (by rw [hP]; exact hd) hwf.2 hfit.2 (by simp [Flds.length_append, Flds.length, hl]) hf'
        rw [hP] at this
        simpa using this
      rw [encodeFields_cons] at hfuel ⊢
      simp only [Flds.emptyAcc, List.append_assoc]
      cases fv with
      | absent =>
        have : encField tag shape s .absent = [] := by cases shape <;> rfl
        rw [this] at hfuel ⊢
        exact hrest .absent fuel (by simpa using hfuel)
      | one v =>
        cases shape with
        | single =>
          have hv : Fits X s v := by simpa using hfit.1
          cases fuel with
          | zero => simp at hfuel
          | succ k =>
            simp only [encField, elem, List.cons_append, List.append_assoc, List.nil_append] at hfuel ⊢
            rw [forEach_step _ k tag [] _ _ _ _
              (decodeField_at X P A htag hl (decodeField_single_ok X (decode_encode X s v hwf.1 hv tag _)))]
            exact hrest (.one v) k (by simp at hfuel; omega)
        | wrapped m => simp at hfit
        | flat => simp at hfit
      | many vs =>
        cases shape with
        | single => simp at hfit
        | wrapped m =>
          have hv : ∀ v ∈ vs, Fits X s v := by simpa using hfit.1
          cases fuel with
          | zero => simp at hfuel
          | succ k =>
            simp only [encField, elem, List.cons_append, List.append_assoc, List.nil_append] at hfuel ⊢
            have hlist := forEach_listItem X s m tag (encodeFields Rf fvs' ++ .stop n :: tail) vs
              (fun v hvm n' rest' => decode_encode X s v hwf.1 (hv v hvm) n' rest') []
              (((vs.flatMap fun v => elem m (encode s v)) ++ .stop tag :: (encodeFields Rf fvs' ++ .stop n :: tail)).length + 1)
              (by simp; omega)
            simp only [elem, List.cons_append, List.nil_append] at hlist
            rw [forEach_step _ k tag [] _ _ _ _
              (decodeField_at X P A htag hl (decodeField_wrapped_ok X hlist))]
            exact hrest (.many vs) k (by simp at hfuel; omega)
        | flat =>
          have hne : vs ≠ [] := by
            have := hfit.1; simp at this; exact this.1
          have hv : ∀ v ∈ vs, Fits X s v := by
            have := hfit.1; simp at this; exact this.2
          simp only [encField] at hfuel ⊢
          have h2 := flatMap_elem_length tag s vs
          rw [forEach_flat _ s tag A Rf.emptyAcc _ vs
            (fun v hvm slot rest' =>
              decodeField_at X P A htag hl (decodeField_flat_ok X (decode_encode X s v hwf.1 (hv v hvm) tag rest')))
            .absent fuel (by simp only [List.length_append] at hfuel; omega)]
          cases vs with
          | nil => exact absurd rfl hne
          | cons v0 vs0 =>
            rw [pushAll_absent_cons]
            exact hrest _ _ (by simp only [List.length_append] at hfuel; omega)
  /-- the variant a union value was written as is the variant it is read as -/
  theorem variant_roundtrip (X : Ext) : ∀ (vars : Vars) (tag : Bytes) (v : Val), vars.wf = true →
      FitsVariant X vars tag v →
      ∃ inner, encodeVariant vars tag v = elem tag inner ∧
        ∀ more, decodeVariant X vars tag (inner ++ .stop tag :: more) = .ok (.union tag v, .stop tag :: more)
    | .nil, _, _, _, hfit => by simp [FitsVariant] at hfit
    | .cons t s rest, tag, v, hwf, hfit => by
      simp only [Vars.wf, Bool.and_eq_true] at hwf
      simp only [FitsVariant] at hfit
      by_cases h : t = tag
      · subst h
        simp only [if_true] at hfit
        refine ⟨encode s v, by simp [encodeVariant], ?_⟩
        intro more
        simp [decodeVariant, decode_encode X s v hwf.1 hfit t more]
      · simp only [if_neg h] at hfit
        obtain ⟨inner, henc, hdec⟩ := variant_roundtrip X rest tag v hwf.2 hfit
        refine ⟨inner, by simp [encodeVariant, h, henc], ?_⟩
        intro more
        have h' : tag ≠ t := fun e => h e.symm
        simp [decodeVariant, h', hdec more]
end


/-! ### documents -/

theorem expectEof_nil : expectEof [] = .ok () := by simp [expectEof, skipText]

/-- `T::deserialize` + `expect_eof` reads back what `T::serialize` wrote (generated roots) -/
theorem decodeDoc_encodeDoc_named (X : Ext) (tag : Bytes) (ns : Option Bytes) (s : Sch) (v : Val)
    (hwf : s.wf = true) (hfit : Fits X s v) :
    decodeDoc X (.named tag) s (encodeDoc (.named tag ns) s v) = .ok v := by
  simp only [decodeDoc, encodeDoc, List.cons_append, expectStart_start]
  simp [decode_encode X s v hwf hfit tag [], expectEnd_stop, expectEof_nil]

/-- the two-level wrapper of `AssumeRoleOutput` (xml/mod.rs) -/
theorem decodeDoc_encodeDoc_nested (X : Ext) (outer inner : Bytes) (ns : Option Bytes) (s : Sch) (v : Val)
    (hwf : s.wf = true) (hfit : Fits X s v) :
    decodeDoc X (.nested outer inner) s (encodeDoc (.nested outer inner ns) s v) = .ok v := by
  simp only [decodeDoc, encodeDoc, elem, List.cons_append, List.append_assoc, List.nil_append, expectStart_start]
  simp [decode_encode X s v hwf hfit inner [.stop outer], expectEnd_stop, expectEof_nil]

/-! ### the serialiser never looks at what distinguishes `dflt` from `req` -/

mutual
  theorem encode_serView : ∀ (s : Sch) (v : Val), encode s.serView v = encode s v
    | .struct fs, .struct vs => by simp [Sch.serView, encode, encodeFields_serView fs vs]
    | .union vars, .union tag v => by simp [Sch.serView, encode, encodeVariant_serView vars tag v]
    | .str, _ | .enm, _ | .i32, _ | .i64, _ | .bool, _ | .ts _, _ => by simp [Sch.serView]
    | .struct _, .str _ | .struct _, .int _ | .struct _, .bool _ | .struct _, .ts _ | .struct _, .union _ _ => by
      simp [Sch.serView, encode]
    | .union _, .str _ | .union _, .int _ | .union _, .bool _ | .union _, .ts _ | .union _, .struct _ => by
      simp [Sch.serView, encode]
  theorem encodeFields_serView : ∀ (fs : Flds) (vs : List FVal), encodeFields fs.serView vs = encodeFields fs vs
    | .nil, _ => by simp [Flds.serView, encodeFields]
    | .cons t p sh s r, [] => by simp [Flds.serView, encodeFields]
    | .cons t p sh s r, fv :: fvs => by
      simp only [Flds.serView]
      rw [encodeFields_cons, encodeFields_cons, encodeFields_serView r fvs]
      congr 1
      cases sh <;> cases fv <;> simp [encField, encode_serView s]
  theorem encodeVariant_serView : ∀ (vars : Vars) (tag : Bytes) (v : Val),
      encodeVariant vars.serView tag v = encodeVariant vars tag v
    | .nil, _, _ => by simp [Vars.serView, encodeVariant]
    | .cons t s r, tag, v => by
      simp [Vars.serView, encodeVariant, encode_serView s v, encodeVariant_serView r tag v]
end

end S3V.Xml
