import S3V.Model.Secrets
/-!
# Lemmas for C16 (rendering and emission model)
-/
namespace S3V.Secrets

theorem isNil_eraseFlds (fs : Flds) : (eraseFlds fs).isNil = fs.isNil := by
  cases fs <;> simp [eraseFlds, Flds.isNil]

mutual
theorem debugVal_eraseVal (body : DebugBody) (hc : Constant (renderDebug body)) :
    ∀ v, debugVal body (eraseVal v) = debugVal body v
  | .str b => by simp [eraseVal]
  | .secret s => by simp only [eraseVal, debugVal]; exact hc _ _
  | .none => by simp [eraseVal]
  | .some v => by simp only [eraseVal, debugVal]; rw [debugVal_eraseVal body hc v]
  | .struct n fs => by
    simp only [eraseVal, debugVal, isNil_eraseFlds]; rw [debugFlds_eraseFlds body hc fs]
theorem debugFlds_eraseFlds (body : DebugBody) (hc : Constant (renderDebug body)) :
    ∀ fs, debugFlds body (eraseFlds fs) = debugFlds body fs
  | .nil => by simp [eraseFlds]
  | .cons n v rest => by
    simp only [eraseFlds, debugFlds, isNil_eraseFlds]
    rw [debugVal_eraseVal body hc v, debugFlds_eraseFlds body hc rest]
end

/-- a derived `Debug` does not see the secrets inside a value, as soon as `SecretKey`'s own `Debug` is constant -/
theorem debugVal_erase (body : DebugBody) (hc : Constant (renderDebug body)) (v w : Val)
    (h : eraseVal v = eraseVal w) : debugVal body v = debugVal body w := by
  rw [← debugVal_eraseVal body hc v, ← debugVal_eraseVal body hc w, h]

theorem credentials_debug_const (body : DebugBody) (hc : Constant (renderDebug body)) (ak s₁ s₂ : Bytes) :
    debugVal body (credentialsVal ak s₁) = debugVal body (credentialsVal ak s₂) :=
  debugVal_erase body hc _ _ rfl

/-- everything `check` emits, as a function of the request and of the signature computed for it
    (`none`: unknown access key) — no secret, no table, no crypto in sight -/
def emittedFromSig (body : DebugBody) (v : Bool) (r : AuthReq) (sig : Option Bytes) : List Emission :=
  match r.pre with
  | some (code, msg) =>
    (if r.preInsideCheck then [Emission.log .debug .checkedSignature []] else []) ++
    [.log .error .prepareErr [(.errCode, code), (.errMessage, msg)],
     .log .debug .failedToPrepare [(.errCode, code), (.errMessage, msg)],
     .error (.pre code) msg]
  | none =>
    match sig with
    | none =>
      [.log .debug .checkedSignature [],
       .log .error .prepareErr [(.errMessage, notSignedUpMsg)],
       .log .debug .failedToPrepare [(.errMessage, notSignedUpMsg)],
       .error .notSignedUp notSignedUpMsg]
    | some signature =>
      let pre := if r.logsStringToSign then [Emission.log .debug .v2StringToSign [(.stringToSign, r.stringToSign)]] else []
      if signature ≠ r.provided then
        pre ++ [.log .debug .signatureMismatch (mismatchFields v signature r.provided),
                .log .debug .checkedSignature [],
                .log .error .prepareErr [],
                .log .debug .failedToPrepare [],
                .error .signatureDoesNotMatch []]
      else
        pre ++ [.log .debug .checkedSignature [],
                .credDebug (debugVal body (credentialsVal r.accessKey []))]

theorem check_factors (c : Crypto) (body : DebugBody) (hc : Constant (renderDebug body)) (v : Bool)
    (l : Bytes → Option Bytes) (r : AuthReq) :
    (check c body v l r).2 = emittedFromSig body v r ((l r.accessKey).map fun s => computeSig c s r) := by
  unfold check emittedFromSig
  cases hp : r.pre with
  | some p => rfl
  | none =>
    cases hl : l r.accessKey with
    | none => rfl
    | some s =>
      simp only [Option.map_some]
      by_cases hs : computeSig c s r ≠ r.provided
      · simp only [if_pos hs]
      · simp only [if_neg hs]
        rw [credentials_debug_const body hc r.accessKey s []]

/-- the verdict is a function of the request and the computed signature too -/
def verdictFromSig (r : AuthReq) (sig : Option Bytes) : Verdict :=
  match r.pre with
  | some (code, _) => .reject (.pre code)
  | none =>
    match sig with
    | none => .reject .notSignedUp
    | some signature => if signature ≠ r.provided then .reject .signatureDoesNotMatch else .accept r.accessKey

theorem check_verdict (c : Crypto) (body : DebugBody) (v : Bool) (l : Bytes → Option Bytes) (r : AuthReq) :
    (check c body v l r).1 = verdictFromSig r ((l r.accessKey).map fun s => computeSig c s r) := by
  unfold check verdictFromSig
  cases hp : r.pre with
  | some p => rfl
  | none =>
    cases hl : l r.accessKey with
    | none => rfl
    | some s =>
      simp only [Option.map_some]
      by_cases hs : computeSig c s r ≠ r.provided
      · simp only [if_pos hs]
      · simp only [if_neg hs]

/-- equal verdicts ⇒ equal emissions once the computed-signature field is blanked -/
theorem emitted_masked_of_verdict (body : DebugBody) (v : Bool) (r : AuthReq) (g₁ g₂ : Option Bytes)
    (hv : verdictFromSig r g₁ = verdictFromSig r g₂) :
    (emittedFromSig body v r g₁).map maskEmission = (emittedFromSig body v r g₂).map maskEmission := by
  unfold verdictFromSig at hv
  unfold emittedFromSig
  cases hp : r.pre with
  | some p => rfl
  | none =>
    simp only [hp] at hv
    cases g₁ with
    | none =>
      cases g₂ with
      | none => rfl
      | some b => simp only at hv; split at hv <;> cases hv
    | some a =>
      cases g₂ with
      | none => simp only at hv; split at hv <;> cases hv
      | some b =>
        simp only at hv ⊢
        by_cases ha : a ≠ r.provided <;> by_cases hb : b ≠ r.provided
        · simp only [if_pos ha, if_pos hb, List.map_append, List.map_cons, List.map_nil, maskEmission,
            isComputedSigField]
          cases v <;> simp [mismatchFields]
        · simp only [if_pos ha, if_neg hb] at hv; cases hv
        · simp only [if_neg ha, if_pos hb] at hv; cases hv
        · simp only [if_neg ha, if_neg hb]

theorem check_noninterference_masked (c : Crypto) (body : DebugBody) (hc : Constant (renderDebug body)) (v : Bool)
    (l₁ l₂ : Bytes → Option Bytes) (r : AuthReq)
    (hv : (check c body v l₁ r).1 = (check c body v l₂ r).1) :
    (check c body v l₁ r).2.map maskEmission = (check c body v l₂ r).2.map maskEmission := by
  rw [check_verdict, check_verdict] at hv
  rw [check_factors c body hc, check_factors c body hc]
  exact emitted_masked_of_verdict body v r _ _ hv

/-- repaired variant (the computed MAC is not recorded): equal verdicts ⇒ equal emissions, nothing masked -/
theorem emitted_of_verdict_repaired (body : DebugBody) (r : AuthReq) (g₁ g₂ : Option Bytes)
    (hv : verdictFromSig r g₁ = verdictFromSig r g₂) :
    emittedFromSig body false r g₁ = emittedFromSig body false r g₂ := by
  unfold verdictFromSig at hv
  unfold emittedFromSig
  cases hp : r.pre with
  | some p => rfl
  | none =>
    simp only [hp] at hv
    cases g₁ with
    | none =>
      cases g₂ with
      | none => rfl
      | some b => simp only at hv; split at hv <;> cases hv
    | some a =>
      cases g₂ with
      | none => simp only at hv; split at hv <;> cases hv
      | some b =>
        simp only at hv ⊢
        by_cases ha : a ≠ r.provided <;> by_cases hb : b ≠ r.provided
        · simp only [if_pos ha, if_pos hb, mismatchFields]
          simp
        · simp only [if_pos ha, if_neg hb] at hv; cases hv
        · simp only [if_neg ha, if_pos hb] at hv; cases hv
        · simp only [if_neg ha, if_neg hb]

theorem check_noninterference_repaired (c : Crypto) (body : DebugBody) (hc : Constant (renderDebug body))
    (l₁ l₂ : Bytes → Option Bytes) (r : AuthReq)
    (hv : (check c body false l₁ r).1 = (check c body false l₂ r).1) :
    (check c body false l₁ r).2 = (check c body false l₂ r).2 := by
  rw [check_verdict, check_verdict] at hv
  rw [check_factors c body hc, check_factors c body hc]
  exact emitted_of_verdict_repaired body r _ _ hv

/-- equal verdicts ⇒ equal emissions above DEBUG (nothing masked) -/
theorem emitted_above_debug_of_verdict (body : DebugBody) (v : Bool) (r : AuthReq) (g₁ g₂ : Option Bytes)
    (hv : verdictFromSig r g₁ = verdictFromSig r g₂) :
    (emittedFromSig body v r g₁).filter aboveDebug = (emittedFromSig body v r g₂).filter aboveDebug := by
  unfold verdictFromSig at hv
  unfold emittedFromSig
  cases hp : r.pre with
  | some p => rfl
  | none =>
    simp only [hp] at hv
    cases g₁ with
    | none =>
      cases g₂ with
      | none => rfl
      | some b => simp only at hv; split at hv <;> cases hv
    | some a =>
      cases g₂ with
      | none => simp only at hv; split at hv <;> cases hv
      | some b =>
        simp only at hv ⊢
        by_cases ha : a ≠ r.provided <;> by_cases hb : b ≠ r.provided
        · simp only [if_pos ha, if_pos hb, List.filter_append]
          simp [List.filter, aboveDebug]
        · simp only [if_pos ha, if_neg hb] at hv; cases hv
        · simp only [if_neg ha, if_pos hb] at hv; cases hv
        · simp only [if_neg ha, if_neg hb]

theorem check_noninterference_above_debug (c : Crypto) (body : DebugBody) (hc : Constant (renderDebug body)) (v : Bool)
    (l₁ l₂ : Bytes → Option Bytes) (r : AuthReq)
    (hv : (check c body v l₁ r).1 = (check c body v l₂ r).1) :
    (check c body v l₁ r).2.filter aboveDebug = (check c body v l₂ r).2.filter aboveDebug := by
  rw [check_verdict, check_verdict] at hv
  rw [check_factors c body hc, check_factors c body hc]
  exact emitted_above_debug_of_verdict body v r _ _ hv

end S3V.Secrets
