import S3V.Thm.PolicyGrammar
/-!
# Lemmas: what every accepted document has, whatever else is in it

* every value the reader produces satisfies the `IndexMap` invariant and never contains `One("*")`,
  so it is in the domain of the round-trip theorem (`fromJson?_wf`);
* necessary conditions for acceptance that hold with no assumption about the rest of the document
  (`fromJson?_must`): they give the refusal of the property's stated shapes outright;
* the encoder meets the value-side "one versus many" shape specification (`valueShape_toJson`).
-/
namespace S3V.Policy
open S3V S3V.PolicySpec

/-! ## decoded values are well-formed -/

theorem imInsert_keys {β : Type} (m : IMap β) (k : Bytes) (v : β) :
    (imInsert m k v).map (·.1) = if k ∈ m.map (·.1) then m.map (·.1) else m.map (·.1) ++ [k] := by
  induction m with
  | nil => simp [imInsert]
  | cons e m ih =>
    obtain ⟨k', v'⟩ := e
    by_cases h : k' = k
    · simp [imInsert, h]
    · have h' : ¬ k = k' := fun hh => h hh.symm
      simp only [imInsert, h, if_false, List.map_cons, ih, List.mem_cons, h', false_or]
      split <;> simp

theorem imInsert_unique {β : Type} (m : IMap β) (k : Bytes) (v : β) (h : keysUnique m) :
    keysUnique (imInsert m k v) := by
  unfold keysUnique at h ⊢
  rw [imInsert_keys]
  split
  · exact h
  · rename_i hk
    rw [List.nodup_append]
    exact ⟨h, by simp, by intro a ha b hb; simp at hb; subst hb; intro hab; subst hab; exact hk ha⟩

theorem imInsert_mem {β : Type} (m : IMap β) (k : Bytes) (v : β) (e : Bytes × β)
    (h : e ∈ imInsert m k v) : e ∈ m ∨ e.2 = v := by
  induction m with
  | nil => simp [imInsert] at h; right; rw [h]
  | cons e' m ih =>
    obtain ⟨k', v'⟩ := e'
    by_cases hk : k' = k
    · simp only [imInsert, hk, if_true, List.mem_cons] at h
      rcases h with h | h
      · right; rw [h]
      · left; exact List.mem_cons_of_mem _ h
    · simp only [imInsert, hk, if_false, List.mem_cons] at h
      rcases h with h | h
      · left; rw [h]; simp
      · rcases ih h with h' | h'
        · left; exact List.mem_cons_of_mem _ h'
        · right; exact h'

theorem im_fold_inv {β : Type} (f : Json → Option β) (P : β → Prop) (hP : ∀ v b, f v = some b → P b)
    (ms : List (Bytes × Json)) : ∀ (acc m : IMap β),
    List.foldlM (fun a (kv : Bytes × Json) => (f kv.2).map (imInsert a kv.1)) acc ms = some m →
    keysUnique acc → (∀ e ∈ acc, P e.2) → keysUnique m ∧ ∀ e ∈ m, P e.2 := by
  induction ms with
  | nil => intro acc m h hu hp; simp at h; subst h; exact ⟨hu, hp⟩
  | cons kv ms ih =>
    intro acc m h hu hp
    rw [List.foldlM_cons] at h
    cases hf : f kv.2 with
    | none => simp [hf] at h
    | some b =>
      simp only [hf, Option.map_some, Option.bind_eq_bind, Option.bind_some] at h
      refine ih _ _ h (imInsert_unique _ _ _ hu) ?_
      intro e he
      rcases imInsert_mem _ _ _ _ he with h1 | h1
      · exact hp e h1
      · rw [h1]; exact hP _ _ hf

theorem imOfMembers_inv {β : Type} (f : Json → Option β) (P : β → Prop) (hP : ∀ v b, f v = some b → P b)
    (ms : List (Bytes × Json)) (m : IMap β) (h : imOfMembers f ms = some m) :
    keysUnique m ∧ ∀ e ∈ m, P e.2 :=
  im_fold_inv f P hP ms [] m h (by simp [keysUnique]) (by simp)

theorem principalOfJson_wf (v : Json) (p : Principal) (h : principalOfJson v = some p) : p.wf := by
  cases v with
  | str s => by_cases hs : s = nStar <;> simp [principalOfJson, hs] at h; subst h; trivial
  | obj kvs =>
    simp only [principalOfJson, Option.map_eq_some_iff] at h
    obtain ⟨m, hm, rfl⟩ := h
    exact (imOfMembers_inv oomOfJson (fun _ => True) (fun _ _ _ => trivial) kvs m hm).1
  | _ => simp [principalOfJson] at h

theorem condKeyValuesOfJson_wf (v : Json) (c : CondKeyValues) (h : condKeyValuesOfJson v = some c) :
    keysUnique c := by
  cases v with
  | obj kvs => exact (imOfMembers_inv oomOfJson (fun _ => True) (fun _ _ _ => trivial) kvs c h).1
  | _ => simp [condKeyValuesOfJson] at h

theorem optCondition_wf (v : Json) (c : Option ConditionRule) (h : optCondition v = some c) :
    ∀ c', c = some c' → conditionWf c' := by
  intro c' hc; subst hc
  cases v with
  | null => simp [optCondition] at h
  | obj ops =>
    simp only [optCondition, conditionOfJson, Option.map_eq_some_iff] at h
    obtain ⟨m, hm, hmc⟩ := h
    cases hmc
    exact imOfMembers_inv condKeyValuesOfJson keysUnique condKeyValuesOfJson_wf ops _ hm
  | _ => simp [optCondition, conditionOfJson] at h

theorem woomOfJson_noOneStar (v : Json) (w : WildcardOneOrMore Bytes) (h : woomOfJson v = some w) :
    w.isOneStar = false := by
  cases v with
  | str s =>
    by_cases hs : s = nStar
    · simp [woomOfJson, hs] at h; subst h; rfl
    · simp [woomOfJson, hs] at h; subst h; simp [WildcardOneOrMore.isOneStar, hs]
  | arr items =>
    simp only [woomOfJson, Option.map_eq_some_iff] at h
    obtain ⟨ss, _, rfl⟩ := h; rfl
  | _ => simp [woomOfJson] at h

theorem slot_getD_of {α : Type} (f : Json → Option (Option α)) (P : Option α → Prop) (hnone : P none)
    (hP : ∀ v x, f v = some x → P x) (vs : List Json) (r : Option (Option α)) (h : slot f none vs = some r) :
    P (r.getD none) := by
  rcases (slot_none_some_iff f vs r).mp h with ⟨_, rfl⟩ | ⟨v, x, _, hx, rfl⟩
  · exact hnone
  · exact hP v x hx

theorem statementOfMembers_wf (ms : List (Bytes × Json)) (s : Statement) (h : statementOfMembers ms = some s) :
    s.mapsWf ∧ s.hasOneStar = false := by
  rw [statementOfMembers_eq] at h
  simp only [Option.bind_eq_some_iff] at h
  obtain ⟨sid, _, pr, hpr, ef, _, ac, hac, re, hre, co, hco, effect, _, action, haction, resource, hresource, hs⟩ := h
  simp only [Option.some.injEq] at hs
  subst hs haction hresource
  refine ⟨⟨?_, ?_⟩, ?_⟩
  · intro r hr
    simp only at hr
    subst hr
    rcases (slot_none_some_iff principalMemberOf _ _).mp hpr with ⟨_, hh⟩ | ⟨kv, x, _, hx, hh⟩
    · cases hh
    · simp only [Option.some.injEq] at hh
      subst hh
      unfold principalMemberOf at hx
      cases hp : principalOfJson kv.2 with
      | none => simp [hp] at hx
      | some p =>
        have := principalOfJson_wf kv.2 p hp
        simp only [hp, Option.map_some, Option.some.injEq] at hx
        subst hx
        split <;> exact this
  · exact slot_getD_of optCondition (fun c => ∀ c', c = some c' → conditionWf c') (by intro _ h; cases h)
      (fun v x hx => optCondition_wf v x hx) _ co hco
  · rw [hasOneStar_eq]
    simp only [Bool.or_eq_false_iff]
    constructor
    · rcases (slot_none_some_iff actionMemberOf _ _).mp hac with ⟨_, hh⟩ | ⟨kv, x, _, hx, hh⟩
      · cases hh
      · simp only [Option.some.injEq] at hh
        subst hh
        simp only [actionMemberOf, Option.map_eq_some_iff] at hx
        obtain ⟨w, hw, rfl⟩ := hx
        have := woomOfJson_noOneStar kv.2 w hw
        split <;> exact this
    · rcases (slot_none_some_iff resourceMemberOf _ _).mp hre with ⟨_, hh⟩ | ⟨kv, x, _, hx, hh⟩
      · cases hh
      · simp only [Option.some.injEq] at hh
        subst hh
        simp only [resourceMemberOf, Option.map_eq_some_iff] at hx
        obtain ⟨w, hw, rfl⟩ := hx
        have := woomOfJson_noOneStar kv.2 w hw
        split <;> exact this

theorem statementOfJson_wf (x : Json) (s : Statement) (h : statementOfJson x = some s) :
    s.mapsWf ∧ s.hasOneStar = false := by
  cases x with
  | obj ms => exact statementOfMembers_wf ms s h
  | _ => simp [statementOfJson] at h

theorem mapM_statement_wf (items : List Json) : ∀ ss, items.mapM statementOfJson = some ss →
    ∀ s ∈ ss, s.mapsWf ∧ s.hasOneStar = false := by
  induction items with
  | nil => intro ss h s hs; simp at h; subst h; simp at hs
  | cons x xs ih =>
    intro ss h s hs
    simp only [List.mapM_cons, Option.bind_eq_bind, Option.bind_eq_some_iff] at h
    obtain ⟨s0, hs0, ss', hss', hcons⟩ := h
    simp only [Option.pure_def, Option.some.injEq] at hcons
    subst hcons
    simp only [List.mem_cons] at hs
    rcases hs with rfl | hs
    · exact statementOfJson_wf x _ hs0
    · exact ih ss' hss' s hs

theorem statementsOfJson_wf (v : Json) (st : OneOrMore Statement) (h : statementsOfJson v = some st) :
    ∀ s ∈ st.toList, s.mapsWf ∧ s.hasOneStar = false := by
  cases v with
  | obj ms =>
    simp only [statementsOfJson, Option.map_eq_some_iff] at h
    obtain ⟨s, hs, rfl⟩ := h
    intro s' hs'
    simp only [OneOrMore.toList, List.mem_singleton] at hs'
    subst hs'
    exact statementOfMembers_wf ms _ hs
  | arr items =>
    simp only [statementsOfJson, Option.map_eq_some_iff] at h
    obtain ⟨ss, hss, rfl⟩ := h
    exact mapM_statement_wf items ss hss
  | _ => simp [statementsOfJson] at h

/-- every value the reader produces is in the domain of the round-trip theorem -/
theorem fromJson?_wf (j : Json) (p : Policy) (h : fromJson? j = some p) : p.mapsWf ∧ p.hasOneStar = false := by
  have key : ∀ v st, statementsOfJson v = some st →
      (∀ s ∈ st.toList, s.mapsWf) ∧ (st.toList.any Statement.hasOneStar) = false := by
    intro v st hst
    have := statementsOfJson_wf v st hst
    refine ⟨fun s hs => (this s hs).1, ?_⟩
    simp only [List.any_eq_false]
    exact fun s hs => by simp [(this s hs).2]
  cases j with
  | obj ms =>
    simp only [fromJson?] at h
    rw [policyOfMembers_eq] at h
    simp only [Option.bind_eq_some_iff] at h
    obtain ⟨v, _, i, _, s, hs, st, hst, hp⟩ := h
    simp only [Option.some.injEq] at hp
    subst hp hst
    rcases (slot_none_some_iff _ _ _).mp hs with ⟨_, hh⟩ | ⟨w, x, _, hx, hh⟩
    · cases hh
    · simp only [Option.some.injEq] at hh
      subst hh
      exact key w _ hx
  | _ => simp [fromJson?] at h


/-! ## necessary conditions for acceptance -/

theorem slot_all {α β : Type} (f : β → Option α) (vs : List β) (r : Option α) (h : slot f none vs = some r) :
    ∀ v ∈ vs, ∃ x, f v = some x := by
  rcases (slot_none_some_iff f vs r).mp h with ⟨rfl, _⟩ | ⟨v, x, rfl, hx, _⟩
  · simp
  · intro w hw; simp at hw; subst hw; exact ⟨x, hx⟩

theorem slot_len {α β : Type} (f : β → Option α) (vs : List β) (r : Option α) (h : slot f none vs = some r) :
    vs.length ≤ 1 := by
  rcases (slot_none_some_iff f vs r).mp h with ⟨rfl, _⟩ | ⟨v, x, rfl, _, _⟩ <;> simp

theorem effect_must (v : Json) (e : Effect) (h : nameEnum effectOfName v = some e) :
    (effectValueViol v).isNone = true := by
  simp [grammar_of_effect v e h]

theorem version_must (v : Json) (x : Option Version) (h : optVersion v = some x) :
    (versionValueViol v).isNone = true := by
  simp [grammar_of_optVersion v x h]

theorem enumObjectForm_version (v : Json) (h : enumObjectForm v = true) :
    versionValueViol v = some .enumObjectForm := by
  cases v with
  | obj ms =>
    rcases ms with _ | ⟨⟨k, x⟩, _ | _⟩
    · simp [enumObjectForm] at h
    · cases x <;> simp [enumObjectForm] at h
      rfl
    · simp [enumObjectForm] at h
  | _ => simp [enumObjectForm] at h

theorem enumObjectForm_effect (v : Json) (h : enumObjectForm v = true) :
    effectValueViol v = some .enumObjectForm := by
  cases v with
  | obj ms =>
    rcases ms with _ | ⟨⟨k, x⟩, _ | _⟩
    · simp [enumObjectForm] at h
    · cases x <;> simp [enumObjectForm] at h
      rfl
    · simp [enumObjectForm] at h
  | _ => simp [enumObjectForm] at h

theorem rule_must {ρ : Type} (a b : Bytes) (read : Bytes × Json → Option ρ)
    (mk : Bytes → WildcardOneOrMore Bytes → ρ) (hread : ∀ kv, read kv = (woomOfJson kv.2).map (mk kv.1))
    (ms : List (Bytes × Json)) (r : ρ) (h : slot read none (membersOf2 a b ms) = some (some r)) :
    (match (membersOf2 a b ms).head? with
      | some kv => strOrStrs kv.2
      | none => false) = true := by
  rcases (slot_none_some_iff read _ _).mp h with ⟨_, hh⟩ | ⟨kv, x, hm, hx, _⟩
  · cases hh
  · rw [hm]
    rw [hread] at hx
    cases hw : woomOfJson kv.2 with
    | none => simp [hw] at hx
    | some w => exact (woomOfJson_some_iff kv.2).mp ⟨w, hw⟩

theorem statementOfMembers_must (ms : List (Bytes × Json)) (s : Statement) (h : statementOfMembers ms = some s) :
    stmtMust (.obj ms) = true := by
  rw [statementOfMembers_eq] at h
  simp only [Option.bind_eq_some_iff] at h
  obtain ⟨sid, hsid, pr, hpr, ef, hef, ac, hac, re, hre, co, hco, effect, heffect, action, haction, resource,
    hresource, _⟩ := h
  subst heffect haction hresource
  simp only [stmtMust, Bool.and_eq_true, List.all_eq_true, decide_eq_true_eq]
  refine ⟨⟨⟨⟨⟨⟨⟨⟨⟨⟨⟨⟨slot_len _ _ _ hsid, slot_len _ _ _ hef⟩, slot_len _ _ _ hco⟩, ?_⟩, ?_⟩, ?_⟩, ?_⟩, ?_⟩, ?_⟩,
    slot_len _ _ _ hpr⟩, slot_len _ _ _ hac⟩, slot_len _ _ _ hre⟩, ?_⟩
  · intro v hv
    obtain ⟨x, hx⟩ := slot_all _ _ _ hsid v hv
    simp [(optString_some_iff .sidShape v).mp ⟨x, hx⟩]
  · rcases (slot_none_some_iff _ _ _).mp hef with ⟨_, hh⟩ | ⟨v, x, hm, _, _⟩
    · cases hh
    · simp [hm]
  · intro v hv
    obtain ⟨x, hx⟩ := slot_all _ _ _ hef v hv
    exact effect_must v x hx
  · exact rule_must kAction kNotAction actionMemberOf
      (fun k w => if k = kAction then ActionRule.action w else .notAction w) (fun _ => rfl) ms action hac
  · exact rule_must kResource kNotResource resourceMemberOf
      (fun k w => if k = kResource then ResourceRule.resource w else .notResource w) (fun _ => rfl) ms resource hre
  · intro v hv
    obtain ⟨x, hx⟩ := slot_all _ _ _ hco v hv
    simp [(optCondition_some_iff v).mp ⟨x, hx⟩]
  · intro kv hkv
    obtain ⟨x, hx⟩ := slot_all _ _ _ hpr kv hkv
    simp only [principalMemberOf, Option.map_eq_some_iff] at hx
    obtain ⟨p, hp, _⟩ := hx
    exact (principalOfJson_some_iff kv.2).mp ⟨p, hp⟩

theorem statementOfJson_must (x : Json) (s : Statement) (h : statementOfJson x = some s) : stmtMust x = true := by
  cases x with
  | obj ms => exact statementOfMembers_must ms s h
  | _ => simp [statementOfJson] at h

theorem mapM_statement_must (items : List Json) : ∀ ss, items.mapM statementOfJson = some ss →
    ∀ x ∈ items, stmtMust x = true := by
  induction items with
  | nil => intro _ _ x hx; simp at hx
  | cons y ys ih =>
    intro ss h x hx
    simp only [List.mapM_cons, Option.bind_eq_bind, Option.bind_eq_some_iff] at h
    obtain ⟨s0, hs0, ss', hss', _⟩ := h
    simp only [List.mem_cons] at hx
    rcases hx with rfl | hx
    · exact statementOfJson_must _ s0 hs0
    · exact ih ss' hss' x hx

theorem statementsOfJson_must (v : Json) (st : OneOrMore Statement) (h : statementsOfJson v = some st) :
    ∀ x ∈ stmtItems v, stmtMust x = true := by
  cases v with
  | obj ms =>
    simp only [statementsOfJson, Option.map_eq_some_iff] at h
    obtain ⟨s, hs, _⟩ := h
    intro x hx
    simp only [stmtItems, List.mem_singleton] at hx
    subst hx
    exact statementOfMembers_must ms s hs
  | arr items =>
    simp only [statementsOfJson, Option.map_eq_some_iff] at h
    obtain ⟨ss, hss, _⟩ := h
    exact mapM_statement_must items ss hss
  | _ => simp [statementsOfJson] at h

theorem fromJson?_must (j : Json) (p : Policy) (h : fromJson? j = some p) :
    headMust j = true ∧ ∀ x ∈ statementNodes j, stmtMust x = true := by
  cases j with
  | obj ms =>
    simp only [fromJson?] at h
    rw [policyOfMembers_eq] at h
    simp only [Option.bind_eq_some_iff] at h
    obtain ⟨v, hv, i, hi, s, hs, st, hst, _⟩ := h
    subst hst
    rcases (slot_none_some_iff _ _ _).mp hs with ⟨_, hh⟩ | ⟨w, x, hm, hx, _⟩
    · cases hh
    · refine ⟨?_, ?_⟩
      · simp only [headMust, Bool.and_eq_true, List.all_eq_true, decide_eq_true_eq]
        refine ⟨⟨⟨⟨⟨slot_len _ _ _ hv, slot_len _ _ _ hi⟩, slot_len _ _ _ hs⟩, ?_⟩, ?_⟩, by simp [hm]⟩
        · intro u hu
          obtain ⟨y, hy⟩ := slot_all _ _ _ hv u hu
          exact version_must u y hy
        · intro u hu
          obtain ⟨y, hy⟩ := slot_all _ _ _ hi u hu
          simp [(optString_some_iff .idShape u).mp ⟨y, hy⟩]
      · simp only [statementNodes, hm, List.flatMap_cons, List.flatMap_nil, List.append_nil]
        exact statementsOfJson_must w x hx
  | _ => simp [fromJson?] at h

/-! ## the encoder against the value-side shape specification -/

theorem oomShape_oomJson (o : OneOrMore Bytes) : oomShape o (oomJson o) = true := by
  cases o <;> simp [oomShape, oomJson]

theorem woomShape_woomJson (w : WildcardOneOrMore Bytes) : woomShape w (woomJson w) = true := by
  cases w <;> simp [woomShape, woomJson]

theorem zip_map_all {α β : Type} (f : α → β) (P : α × β → Bool) (l : List α) (h : ∀ a ∈ l, P (a, f a) = true) :
    (l.zip (l.map f)).all P = true := by
  induction l with
  | nil => rfl
  | cons a l ih =>
    simp only [List.map_cons, List.zip_cons_cons, List.all_cons, Bool.and_eq_true]
    exact ⟨h a (by simp), ih fun b hb => h b (List.mem_cons_of_mem _ hb)⟩

theorem kvsShape_kvsJson (m : IMap (OneOrMore Bytes)) : kvsShape m (kvsJson m) = true := by
  simp only [kvsShape, kvsJson, List.length_map, beq_self_eq_true, Bool.true_and]
  exact zip_map_all _ _ m fun e _ => oomShape_oomJson e.2

theorem condShape_written (co : Option ConditionRule) : condShape co (optConditionJson co) = true := by
  cases co with
  | none => rfl
  | some c =>
    simp only [condShape, optConditionJson, conditionJson, List.length_map, beq_self_eq_true, Bool.true_and]
    exact zip_map_all _ _ c fun e _ => kvsShape_kvsJson e.2

theorem stmtShape_statementJson (s : Statement) : stmtShape s (statementJson s) = true := by
  obtain ⟨sid, pr, ef, ac, re, co⟩ := s
  have hc := condShape_written co
  rcases pr with _ | ⟨(_ | m) | (_ | m)⟩ <;> cases ac <;> cases re <;>
    simp [stmtShape, statementJson, principalMembers, actionMember, resourceMember, pick, valuesOf,
      woomShape_woomJson, kSid, kEffect, kCondition, kPrincipal, kNotPrincipal, kAction, kNotAction, kResource,
      kNotResource, hc, principalJson, kvsShape_kvsJson]

/-- the model's encoder writes `One` as a bare value and `More` as a list, everywhere -/
theorem valueShape_toJson (p : Policy) : valueShape p (toJson p) = true := by
  obtain ⟨v, i, st⟩ := p
  cases st with
  | one s =>
    have := stmtShape_statementJson s
    simpa [valueShape, toJson, pick, valuesOf, kVersion, kId, kStatement, statementsJson] using this
  | more ss =>
    have := zip_map_all statementJson (fun sj => stmtShape sj.1 sj.2) ss fun s _ => stmtShape_statementJson s
    simpa [valueShape, toJson, pick, valuesOf, kVersion, kId, kStatement, statementsJson] using this

end S3V.Policy
