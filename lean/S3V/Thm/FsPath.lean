import S3V.Model.FsPath
/-!
# Lemmas about the path model (C17)

`Good n` — a byte string that is exactly one `Normal` path component.
Main results: `components_join`, `components_render_abs`, `dedotFrom_abs_normals`, `resolve_single`,
`getBucketPath_shape`, `getObjectPath_shape`.
-/
namespace S3V.FsPath

/-! ## segments -/

theorem splitSlash_ne_nil (s : Bytes) : splitSlash s ≠ [] := by
  cases s with
  | nil => simp [splitSlash]
  | cons c cs =>
    simp only [splitSlash]
    split
    · simp
    · split <;> simp

theorem splitSlash_cons_ne {c : UInt8} (h : c ≠ 47) (cs : Bytes) :
    ∃ s r, splitSlash cs = s :: r ∧ splitSlash (c :: cs) = (c :: s) :: r := by
  cases hs : splitSlash cs with
  | nil => exact absurd hs (splitSlash_ne_nil cs)
  | cons s r => exact ⟨s, r, rfl, by simp [splitSlash, h, hs]⟩

theorem splitSlash_append (a b : Bytes) : splitSlash (a ++ 47 :: b) = splitSlash a ++ splitSlash b := by
  induction a with
  | nil => simp [splitSlash]
  | cons c cs ih =>
    by_cases hc : c = 47
    · subst hc; simp [splitSlash, ih]
    · obtain ⟨s, r, h1, h2⟩ := splitSlash_cons_ne hc cs
      obtain ⟨s', r', h1', h2'⟩ := splitSlash_cons_ne hc (cs ++ 47 :: b)
      rw [List.cons_append, h2', h2]
      rw [ih, h1] at h1'
      simp only [List.cons_append, List.cons.injEq] at h1'
      obtain ⟨rfl, rfl⟩ := h1'
      rfl

theorem splitSlash_noslash {s : Bytes} (h : (47 : UInt8) ∉ s) : splitSlash s = [s] := by
  induction s with
  | nil => rfl
  | cons c cs ih =>
    have hc : c ≠ 47 := fun e => h (by simp [e])
    have hcs : (47 : UInt8) ∉ cs := fun m => h (List.mem_cons_of_mem _ m)
    simp [splitSlash, hc, ih hcs]

theorem mem_splitSlash_noslash {s seg : Bytes} (h : seg ∈ splitSlash s) : (47 : UInt8) ∉ seg := by
  induction s generalizing seg with
  | nil => simp [splitSlash] at h; subst h; simp
  | cons c cs ih =>
    by_cases hc : c = 47
    · subst hc
      simp only [splitSlash, ↓reduceIte, List.mem_cons] at h
      rcases h with rfl | h
      · simp
      · exact ih h
    · obtain ⟨s, r, h1, h2⟩ := splitSlash_cons_ne hc cs
      rw [h2] at h
      simp only [List.mem_cons] at h
      rcases h with rfl | h
      · have := ih (seg := s) (by rw [h1]; simp)
        intro m
        simp only [List.mem_cons] at m
        rcases m with m | m
        · exact hc m.symm
        · exact this m
      · exact ih (by rw [h1]; exact List.mem_cons_of_mem _ h)

/-- exactly one `Normal` component -/
def Good (n : Bytes) : Prop := n ≠ [] ∧ n ≠ [46] ∧ n ≠ [46, 46] ∧ (47 : UInt8) ∉ n

theorem segComp_good {n : Bytes} (h : Good n) : segComp n = some (.normal n) := by
  simp [segComp, h.1, h.2.1, h.2.2.1]

theorem segComp_normal {s n : Bytes} (h : segComp s = some (.normal n)) :
    n = s ∧ s ≠ [] ∧ s ≠ [46] ∧ s ≠ [46, 46] := by
  unfold segComp at h
  split at h
  · cases h
  · split at h
    · cases h
    · split at h
      · cases h
      · simp only [Option.some.injEq, Comp.normal.injEq] at h
        exact ⟨h.symm, by assumption, by assumption, by assumption⟩

theorem segComp_cases (s : Bytes) :
    segComp s = none ∨ segComp s = some .parentDir ∨ segComp s = some (.normal s) := by
  unfold segComp
  split
  · simp
  · split
    · simp
    · split <;> simp

theorem body_append (a b : Bytes) : body (a ++ 47 :: b) = body a ++ body b := by
  simp [body, splitSlash_append]

theorem body_nil : body [] = [] := by simp [body, splitSlash, segComp]

theorem body_good {n : Bytes} (h : Good n) : body n = [.normal n] := by
  simp [body, splitSlash_noslash h.2.2.2, segComp_good h]

/-- every `Normal` the body yields is a good name; the body yields nothing but `Normal` and `ParentDir` -/
theorem mem_body {s : Bytes} {c : Comp} (h : c ∈ body s) : c = .parentDir ∨ ∃ n, c = .normal n ∧ Good n := by
  simp only [body, List.mem_filterMap] at h
  obtain ⟨seg, hseg, hc⟩ := h
  rcases segComp_cases seg with h0 | h0 | h0
  · rw [h0] at hc; cases hc
  · rw [h0] at hc; left; exact (Option.some.inj hc).symm
  · right
    have := segComp_normal h0
    rw [h0] at hc
    exact ⟨seg, (Option.some.inj hc).symm, this.2.1, this.2.2.1, this.2.2.2, mem_splitSlash_noslash hseg⟩

theorem components_abs {s : Bytes} (h : isAbsolute s = true) : components s = .rootDir :: body s := by
  cases s with
  | nil => simp [isAbsolute] at h
  | cons c cs =>
    by_cases hc : c = 47
    · subst hc; rfl
    · exfalso
      unfold isAbsolute at h
      split at h
      · rename_i heq; cases heq; exact hc rfl
      · cases h

theorem components_rel_cases {s : Bytes} (h : isAbsolute s = false) :
    components s = body s ∨ components s = .curDir :: body s := by
  cases s with
  | nil => left; simp [components, splitSlash]
  | cons c cs =>
    by_cases hc : c = 47
    · subst hc; simp [isAbsolute] at h
    · unfold components
      split
      · rename_i heq; cases heq; exact absurd rfl hc
      · split
        · right; rfl
        · left; rfl

theorem components_good {n : Bytes} (h : Good n) : components n = [.normal n] := by
  have hrel : isAbsolute n = false := by
    cases n with
    | nil => rfl
    | cons c cs =>
      have : c ≠ 47 := fun e => h.2.2.2 (by simp [e])
      unfold isAbsolute
      split
      · rename_i heq; cases heq; exact absurd rfl this
      · rfl
  cases n with
  | nil => exact absurd rfl h.1
  | cons c cs =>
    have hc : c ≠ 47 := fun e => h.2.2.2 (by simp [e])
    unfold components
    split
    · rename_i heq; cases heq; exact absurd rfl hc
    · rw [splitSlash_noslash h.2.2.2]
      simp only [List.head?_cons, Option.some.injEq]
      rw [if_neg h.2.1]
      exact body_good h

theorem isAbsolute_good {n : Bytes} (h : Good n) : isAbsolute n = false := by
  cases n with
  | nil => rfl
  | cons c cs =>
    have : c ≠ 47 := fun e => h.2.2.2 (by simp [e])
    unfold isAbsolute
    split
    · rename_i heq; cases heq; exact absurd rfl this
    · rfl

/-- a `Normal` component of any path is a good name -/
theorem mem_components {s : Bytes} {n : Bytes} (h : Comp.normal n ∈ components s) : Good n := by
  have key : Comp.normal n ∈ body s := by
    by_cases ha : isAbsolute s = true
    · rw [components_abs ha] at h
      simpa using h
    · rcases components_rel_cases (by simpa using ha) with h' | h' <;> rw [h'] at h <;> simpa using h
  rcases mem_body key with h' | ⟨m, hm, hg⟩
  · cases h'
  · cases hm; exact hg

/-! ## join -/

theorem isAbsolute_cons (s : Bytes) : isAbsolute s = true ↔ ∃ t, s = 47 :: t := by
  constructor
  · intro h
    cases s with
    | nil => simp [isAbsolute] at h
    | cons c cs =>
      by_cases hc : c = 47
      · exact ⟨cs, by rw [hc]⟩
      · exfalso
        unfold isAbsolute at h
        split at h
        · rename_i heq; cases heq; exact hc rfl
        · cases h
  · rintro ⟨t, rfl⟩; rfl

theorem getLast?_eq_some_append {l : Bytes} {x : UInt8} (h : l.getLast? = some x) : ∃ l', l = l' ++ [x] := by
  rw [List.getLast?_eq_some_iff] at h
  exact h

/-- joining a relative path onto an absolute one appends its body -/
theorem components_join {a b : Bytes} (ha : isAbsolute a = true) (hb : isAbsolute b = false) :
    components (join a b) = components a ++ body b ∧ isAbsolute (join a b) = true := by
  obtain ⟨t, rfl⟩ := (isAbsolute_cons a).mp ha
  unfold join
  rw [if_neg (by simp [hb])]
  by_cases hl : (47 :: t : Bytes).getLast? = some 47
  · rw [if_neg (by simp [hl])]
    obtain ⟨l', hl'⟩ := getLast?_eq_some_append hl
    constructor
    · have habs : isAbsolute (47 :: t ++ b) = true := rfl
      rw [components_abs habs, components_abs ha]
      rw [hl']
      have : l' ++ [47] ++ b = l' ++ 47 :: b := by simp
      rw [this, body_append]
      have : l' ++ [47] = l' ++ 47 :: [] := rfl
      rw [this, body_append, body_nil]
      simp
    · rfl
  · rw [if_pos ⟨by simp, hl⟩]
    constructor
    · have habs : isAbsolute (47 :: t ++ 47 :: b) = true := rfl
      rw [components_abs habs, components_abs ha, body_append]
      simp
    · rfl

/-! ## render -/

theorem splitSlash_joinSlash {names : List Bytes} (hne : names ≠ []) (h : ∀ n ∈ names, (47 : UInt8) ∉ n) :
    splitSlash (joinSlash names) = names := by
  induction names with
  | nil => exact absurd rfl hne
  | cons a r ih =>
    cases r with
    | nil => simp [joinSlash, splitSlash_noslash (h a (by simp))]
    | cons b r' =>
      have : joinSlash (a :: b :: r') = a ++ 47 :: joinSlash (b :: r') := rfl
      rw [this, splitSlash_append, splitSlash_noslash (h a (by simp)),
        ih (by simp) (fun n hn => h n (List.mem_cons_of_mem _ hn))]
      rfl

theorem filterMap_segComp_good {names : List Bytes} (h : ∀ n ∈ names, Good n) :
    names.filterMap segComp = names.map .normal := by
  induction names with
  | nil => rfl
  | cons a r ih =>
    rw [List.filterMap_cons, segComp_good (h a (by simp)), List.map_cons,
      ih (fun n hn => h n (List.mem_cons_of_mem _ hn))]

theorem body_joinSlash {names : List Bytes} (h : ∀ n ∈ names, Good n) :
    body (joinSlash names) = names.map .normal := by
  cases names with
  | nil => simp [joinSlash, body_nil]
  | cons a r =>
    unfold body
    rw [splitSlash_joinSlash (by simp) (fun n hn => (h n hn).2.2.2), filterMap_segComp_good h]

/-- the string rendered from a root token and good names has exactly those components -/
theorem components_render_abs {names : List Bytes} (h : ∀ n ∈ names, Good n) :
    components (render ([47] :: names) true) = .rootDir :: names.map .normal ∧
      isAbsolute (render ([47] :: names) true) = true := by
  cases names with
  | nil => exact ⟨by decide, rfl⟩
  | cons a r =>
    have e : render ([47] :: a :: r) true = 47 :: joinSlash (a :: r) := by simp [render]
    rw [e]
    refine ⟨?_, rfl⟩
    have habs : isAbsolute (47 :: joinSlash (a :: r)) = true := rfl
    rw [components_abs habs]
    have : (47 :: joinSlash (a :: r) : Bytes) = [] ++ 47 :: joinSlash (a :: r) := rfl
    rw [this, body_append, body_nil, body_joinSlash h]
    rfl

/-! ## dedot on absolute paths without `..` -/

/-- the names of a list of `Normal` components -/
def names : List Comp → List Bytes
  | [] => []
  | .normal n :: r => n :: names r
  | _ :: r => names r

def AllNormal (l : List Comp) : Prop := ∀ c ∈ l, ∃ n, c = .normal n

theorem AllNormal.tail {c : Comp} {l : List Comp} (h : AllNormal (c :: l)) : AllNormal l :=
  fun x hx => h x (List.mem_cons_of_mem _ hx)

theorem map_normal_names {l : List Comp} (h : AllNormal l) : (names l).map .normal = l := by
  induction l with
  | nil => rfl
  | cons c r ih =>
    obtain ⟨n, rfl⟩ := h c (by simp)
    simp [names, ih h.tail]

theorem allNormal_map (ns : List Bytes) : AllNormal (ns.map .normal) := by
  intro c hc
  simp only [List.mem_map] at hc
  obtain ⟨n, _, rfl⟩ := hc
  exact ⟨n, rfl⟩

theorem names_map (ns : List Bytes) : names (ns.map .normal) = ns := by
  induction ns with
  | nil => rfl
  | cons a r ih => simp [names, ih]

theorem foldl_dedotStep_normals (root : Bool) (l : List Comp) (h : AllNormal l) (t : List Bytes) (f : Bool) :
    l.foldl (dedotStep root) (t, f) = (t ++ names l, f) := by
  induction l generalizing t with
  | nil => simp [names]
  | cons c r ih =>
    obtain ⟨n, rfl⟩ := h c (by simp)
    rw [List.foldl_cons]
    have : dedotStep root (t, f) (.normal n) = (t ++ [n], f) := rfl
    rw [this, ih h.tail]
    simp [names]

/-- `parse_dot` / `absolutize` of an absolute path whose other components are all `Normal` keeps the components -/
theorem dedotFrom_abs_normals (ab : Bool) (cwd s : Bytes) {l : List Comp}
    (hc : components s = .rootDir :: l) (hl : AllNormal l) :
    ∃ p, dedotFrom ab cwd s = .ok p ∧ components p = components s ∧ isAbsolute p = true := by
  have hgood : ∀ n ∈ names l, Good n := by
    intro n hn
    apply mem_components (s := s)
    rw [hc, ← map_normal_names hl]
    simp [hn]
  have hsabs : isAbsolute s = true := by
    cases hs : isAbsolute s with
    | true => rfl
    | false =>
      rcases components_rel_cases hs with h' | h' <;> rw [hc] at h'
      · have : Comp.rootDir ∈ body s := by rw [← h']; simp
        rcases mem_body this with h0 | ⟨n, h0, _⟩ <;> cases h0
      · cases h'
  unfold dedotFrom
  rw [hc]
  simp only [dedotStart, foldl_dedotStep_normals true l hl]
  simp only [List.cons_append, List.nil_append, reduceCtorEq, ↓reduceIte, Bool.false_eq_true, false_or]
  split
  · refine ⟨_, rfl, ?_, (components_render_abs hgood).2⟩
    rw [(components_render_abs hgood).1, map_normal_names hl]
  · exact ⟨s, rfl, hc, hsabs⟩

/-- `parse_dot` of a single good name -/
theorem dedotFrom_good (cwd : Bytes) {s n : Bytes} (hc : components s = [.normal n]) :
    ∃ p, dedotFrom false cwd s = .ok p ∧ components p = [.normal n] ∧ isAbsolute p = false := by
  have hg : Good n := mem_components (s := s) (by rw [hc]; simp)
  have hrel : isAbsolute s = false := by
    cases hs : isAbsolute s with
    | false => rfl
    | true => rw [components_abs hs] at hc; cases hc
  unfold dedotFrom
  rw [hc]
  simp only [dedotStart, List.foldl_nil, Bool.false_eq_true, ↓reduceIte, false_or]
  rw [if_neg (by simp)]
  split
  · exact ⟨_, rfl, by simp [render, components_good hg], by simp [render, isAbsolute_good hg]⟩
  · exact ⟨s, rfl, hc, hrel⟩

/-! ## the root -/

/-- what `FileSystem::new` guarantees of `self.root` (`canonicalize`): absolute, no `..` left -/
def RootOk (root : Bytes) : Prop := isAbsolute root = true ∧ Comp.parentDir ∉ components root

theorem RootOk.shape {root : Bytes} (h : RootOk root) :
    ∃ l, components root = .rootDir :: l ∧ AllNormal l := by
  refine ⟨body root, components_abs h.1, ?_⟩
  intro c hc
  rcases mem_body hc with h0 | ⟨n, h0, _⟩
  · exfalso; apply h.2; rw [components_abs h.1, h0.symm]; exact List.mem_cons_of_mem _ hc
  · exact ⟨n, h0⟩

theorem isPrefixOf_append_self {α} [BEq α] [LawfulBEq α] (a b : List α) : a.isPrefixOf (a ++ b) = true := by
  rw [List.isPrefixOf_iff_prefix]; exact List.prefix_append a b

/-- `resolve_abs_path` of a relative string that is one good name: the root's child of that name -/
theorem resolve_single (e : Env) (hr : RootOk e.root) {s n : Bytes} (hc : components s = [.normal n]) :
    ∃ p, resolveAbsPath e s = .ok p ∧ components p = components e.root ++ [.normal n] ∧ isAbsolute p = true := by
  obtain ⟨l, hl, hn⟩ := hr.shape
  obtain ⟨vr, hvr, hvc, hva⟩ := dedotFrom_abs_normals true e.cwd e.root hl hn
  obtain ⟨p, hp, hpc, hpa⟩ := dedotFrom_good e.cwd hc
  have hj := components_join hva hpa
  refine ⟨join vr p, ?_, ?_, hj.2⟩
  · simp [resolveAbsPath, absolutizeVirtually, hvr, hp, hpa]
  · rw [hj.1, hvc]
    rcases components_rel_cases hpa with h' | h' <;> rw [hpc] at h'
    · rw [← h']
    · cases h'

/-- `resolve_abs_path` of an absolute string under the root whose components are all `Normal` -/
theorem resolve_abs_under (e : Env) (hr : RootOk e.root) {s : Bytes} {ext : List Comp}
    (hc : components s = components e.root ++ ext) (hext : AllNormal ext) :
    ∃ p, resolveAbsPath e s = .ok p ∧ components p = components s ∧ isAbsolute p = true := by
  obtain ⟨l, hl, hn⟩ := hr.shape
  obtain ⟨vr, hvr, hvc, hva⟩ := dedotFrom_abs_normals true e.cwd e.root hl hn
  have hall : AllNormal (l ++ ext) := by
    intro c hcm
    rcases List.mem_append.mp hcm with h' | h'
    · exact hn c h'
    · exact hext c h'
  obtain ⟨p, hp, hpc, hpa⟩ := dedotFrom_abs_normals false e.cwd s (l := l ++ ext) (by rw [hc, hl]; rfl) hall
  refine ⟨p, ?_, hpc, hpa⟩
  have hsw : startsWith p vr = true := by
    unfold startsWith
    rw [hvc, hpc, hc]
    exact isPrefixOf_append_self _ _
  simp [resolveAbsPath, absolutizeVirtually, hvr, hp, hpa, hsw]

/-! ## bucket and object paths -/

theorem getBucketPath_ok {e : Env} {b p : Bytes} (h : getBucketPath e b = .ok p) :
    ∃ bn, components b = [.normal bn] ∧ resolveAbsPath e b = .ok p := by
  unfold getBucketPath at h
  split at h
  · rename_i n hc; exact ⟨n, hc, h⟩
  · cases h

/-- `get_bucket_path`: the result is the root's child named by the bucket's single component -/
theorem getBucketPath_shape (e : Env) (hr : RootOk e.root) {b p : Bytes} (h : getBucketPath e b = .ok p) :
    ∃ bn, components b = [.normal bn] ∧ Good bn ∧ components p = components e.root ++ [.normal bn] ∧
      isAbsolute p = true := by
  obtain ⟨bn, hc, hres⟩ := getBucketPath_ok h
  obtain ⟨p', hp', hpc, hpa⟩ := resolve_single e hr hc
  rw [hres] at hp'
  cases hp'
  exact ⟨bn, hc, mem_components (s := b) (by rw [hc]; simp), hpc, hpa⟩

theorem getBucketPath_total (e : Env) (hr : RootOk e.root) {b bn : Bytes} (hc : components b = [.normal bn]) :
    ∃ p, getBucketPath e b = .ok p := by
  obtain ⟨p, hp, _⟩ := resolve_single e hr hc
  exact ⟨p, by simp [getBucketPath, hc, hp]⟩

/-- the key scan accepts exactly lists of `Normal`/`CurDir` and reports whether a `Normal` was seen -/
theorem keyScan_some {l : List Comp} {h0 r : Bool} (h : keyScan l h0 = some r) :
    (∀ c ∈ l, c = .curDir ∨ ∃ n, c = .normal n) ∧ (r = true ↔ (h0 = true ∨ ∃ n, Comp.normal n ∈ l)) := by
  induction l generalizing h0 with
  | nil =>
    simp only [keyScan, Option.some.injEq] at h
    subst h
    simp
  | cons c cs ih =>
    cases c with
    | normal n =>
      simp only [keyScan] at h
      obtain ⟨h1, h2⟩ := ih h
      refine ⟨?_, ?_⟩
      · intro c hc
        rcases List.mem_cons.mp hc with rfl | hc
        · exact .inr ⟨n, rfl⟩
        · exact h1 c hc
      · rw [h2]; simp
    | curDir =>
      simp only [keyScan] at h
      obtain ⟨h1, h2⟩ := ih h
      refine ⟨?_, ?_⟩
      · intro c hc
        rcases List.mem_cons.mp hc with rfl | hc
        · exact .inl rfl
        · exact h1 c hc
      · rw [h2]; simp
    | rootDir => simp [keyScan] at h
    | parentDir => simp [keyScan] at h

/-- a key the scan accepts is relative, and its body is its `Normal` components -/
theorem key_body {k : Bytes} {r : Bool} (h : keyScan (components k) false = some r) :
    isAbsolute k = false ∧ AllNormal (body k) ∧ (r = true ↔ body k ≠ []) := by
  obtain ⟨h1, h2⟩ := keyScan_some h
  have hrel : isAbsolute k = false := by
    cases hs : isAbsolute k with
    | false => rfl
    | true =>
      rw [components_abs hs] at h1
      rcases h1 .rootDir (by simp) with h' | ⟨_, h'⟩ <;> cases h'
  have hb : ∀ c ∈ body k, c ∈ components k := by
    intro c hc
    rcases components_rel_cases hrel with h' | h' <;> rw [h'] <;> simp [hc]
  have hall : AllNormal (body k) := by
    intro c hc
    rcases h1 c (hb c hc) with h' | h'
    · rcases mem_body hc with h0 | ⟨n, h0, _⟩ <;> rw [h'] at h0 <;> cases h0
    · exact h'
  refine ⟨hrel, hall, ?_⟩
  rw [h2]
  simp only [Bool.false_eq_true, false_or]
  constructor
  · rintro ⟨n, hn⟩ hb0
    have : Comp.normal n ∈ body k := by
      rcases components_rel_cases hrel with h' | h' <;> rw [h'] at hn
      · exact hn
      · simpa using hn
    rw [hb0] at this; cases this
  · intro hne
    cases hbk : body k with
    | nil => exact absurd hbk hne
    | cons c cs =>
      obtain ⟨n, rfl⟩ := hall c (by rw [hbk]; simp)
      exact ⟨n, hb _ (by rw [hbk]; simp)⟩

/-- `get_object_path`: the result lies strictly below the bucket directory; its components are the root's, the
    bucket's single name, then the key's `Normal` components (at least one), nothing else -/
theorem getObjectPath_shape (e : Env) (hr : RootOk e.root) {b k p : Bytes} (h : getObjectPath e b k = .ok p) :
    ∃ bn, components b = [.normal bn] ∧ Good bn ∧ AllNormal (body k) ∧ body k ≠ [] ∧ isAbsolute k = false ∧
      components p = components e.root ++ .normal bn :: body k ∧ isAbsolute p = true := by
  unfold getObjectPath at h
  split at h
  · cases h
  · rename_i dir hdir
    obtain ⟨bn, hbc, hbg, hdc, hda⟩ := getBucketPath_shape e hr hdir
    split at h
    · rename_i hscan
      obtain ⟨hrel, hall, hne⟩ := key_body hscan
      have hj := components_join hda hrel
      have hcj : components (join dir k) = components e.root ++ (.normal bn :: body k) := by
        rw [hj.1, hdc]; simp
      have hext : AllNormal (.normal bn :: body k) := by
        intro c hc
        rcases List.mem_cons.mp hc with rfl | hc
        · exact ⟨bn, rfl⟩
        · exact hall c hc
      obtain ⟨p', hp', hpc, hpa⟩ := resolve_abs_under e hr hcj hext
      rw [hp'] at h
      cases h
      exact ⟨bn, hbc, hbg, hall, hne.mp rfl, hrel, by rw [hpc, hcj], hpa⟩
    · cases h

/-- conversely every key made of `Normal`/leading `.` components with at least one name is accepted -/
theorem getObjectPath_total (e : Env) (hr : RootOk e.root) {b bn k : Bytes} (hb : components b = [.normal bn])
    (hk : keyScan (components k) false = some true) : ∃ p, getObjectPath e b k = .ok p := by
  obtain ⟨dir, hdir⟩ := getBucketPath_total e hr hb
  obtain ⟨bn', hbc, hbg, hdc, hda⟩ := getBucketPath_shape e hr hdir
  obtain ⟨hrel, hall, _⟩ := key_body hk
  have hj := components_join hda hrel
  have hcj : components (join dir k) = components e.root ++ (.normal bn' :: body k) := by
    rw [hj.1, hdc]; simp
  have hext : AllNormal (.normal bn' :: body k) := by
    intro c hc
    rcases List.mem_cons.mp hc with rfl | hc
    · exact ⟨bn', rfl⟩
    · exact hall c hc
  obtain ⟨p', hp', _⟩ := resolve_abs_under e hr hcj hext
  exact ⟨p', by simp [getObjectPath, hdir, hk, hp']⟩

end S3V.FsPath
