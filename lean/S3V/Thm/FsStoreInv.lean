import S3V.Model.FsStoreAbs
import S3V.Thm.FsStoreBase
import S3V.Thm.FsStorePath
/-!
# C18 lemmas: the invariant of backend states and how `abs` sees a file being written
-/
namespace S3V.FsStore
open S3V.StoreSpec

def absTree (s : State) (b : Bytes) (t : Tree) : List (Bytes × Obj) := t.filterMap (absObj s b)

/-- invariant of reachable backend states -/
structure Inv (s : State) : Prop where
  bnd : keysNodup s.buckets
  tnd : ∀ e ∈ s.buckets, keysNodup e.2
  paths : ∀ e ∈ s.buckets, ∀ x ∈ e.2, PathOk x.1
  metaOk : ∀ e ∈ s.metas, e.2 ≠ MetaFile.corrupt
  und : keysNodup s.uploads
  pnd : keysNodup s.parts
  upIds : ∀ e ∈ s.uploads, e.1 ≤ s.issued
  partIds : ∀ e ∈ s.parts, e.1.1 ≤ s.issued
  upMetaIds : ∀ e ∈ s.upMetas, e.1.2.2 ≤ s.issued

theorem abs_buckets (s : State) : (abs s).buckets = s.buckets.map fun e => (e.1, absTree s e.1 e.2) := rfl

theorem abs_bucket (s : State) (b : Bytes) : (abs s).bucket b = (s.tree b).map (absTree s b) := by
  unfold Store.bucket State.tree
  rw [abs_buckets]
  exact alLookup_map_val (fun b t => absTree s b t) b s.buckets

theorem abs_alHas (s : State) (b : Bytes) : alHas b (abs s).buckets = alHas b s.buckets := by
  have := abs_bucket s b
  unfold Store.bucket State.tree at this
  simp [alHas, this]

/-- the object a tree node stands for -/
def nodeObj (s : State) (b k : Bytes) : Node → Option Obj
  | .file c => some ⟨c, absMeta s b k, (alLookup (b, k) s.infos).getD {}⟩
  | .dir => none

theorem absObj_eq (s : State) (b : Bytes) (p : Path) (n : Node) :
    absObj s b (p, n) = (nodeObj s b (joinWith [slash] p) n).map fun o => (joinWith [slash] p, o) := by
  cases n <;> rfl

theorem tree_mem {s : State} {b : Bytes} {t : Tree} (h : s.tree b = some t) : (b, t) ∈ s.buckets :=
  alLookup_mem h

theorem abs_lookup_obj {s : State} (hi : Inv s) {b : Bytes} {t : Tree} (ht : s.tree b = some t)
    {p : Path} (hp : PathOk p) :
    alLookup (joinWith [slash] p) (absTree s b t) = (t.node p).bind (nodeObj s b (joinWith [slash] p)) := by
  have hm := tree_mem ht
  unfold absTree
  rw [alLookup_filterMap (absObj s b) p (joinWith [slash] p) t (hi.tnd _ hm)]
  · unfold Tree.node
    cases alLookup p t with
    | none => rfl
    | some n => simp [absObj_eq]; cases nodeObj s b (joinWith [slash] p) n <;> rfl
  · intro n cd _ h
    rw [absObj_eq] at h
    cases hn : nodeObj s b (joinWith [slash] p) n with
    | none => simp [hn] at h
    | some o => simp [hn] at h; rw [← h]
  · intro q n c' d' hq hne h
    rw [absObj_eq] at h
    cases hn : nodeObj s b (joinWith [slash] q) n with
    | none => simp [hn] at h
    | some o =>
      simp [hn] at h
      rw [← h.1]
      intro heq
      exact hne ((hi.paths _ hm _ hq).join_inj hp heq)

end S3V.FsStore

namespace S3V.FsStore
open S3V.StoreSpec

/-! ## more association-list facts -/

section
variable {α β : Type} [DecidableEq α]

theorem alLookup_none_not_mem {k : α} {l : List (α × β)} (h : alLookup k l = none) : ∀ e ∈ l, e.1 ≠ k := by
  induction l with
  | nil => simp
  | cons x t ih =>
    obtain ⟨a, b⟩ := x
    by_cases h' : a = k
    · simp [alLookup_cons, h'] at h
    · simp only [alLookup_cons, h', if_false] at h
      intro e he
      simp only [List.mem_cons] at he
      rcases he with he | he
      · subst he; exact h'
      · exact ih h e he

theorem alLookup_of_mem_nodup {k : α} {v : β} {l : List (α × β)} (hnd : keysNodup l) (h : (k, v) ∈ l) :
    alLookup k l = some v := by
  induction l with
  | nil => simp at h
  | cons x t ih =>
    obtain ⟨a, b⟩ := x
    obtain ⟨hfresh, hnd'⟩ := keysNodup_cons hnd
    simp only [List.mem_cons] at h
    rcases h with h | h
    · simp at h; simp [alLookup_cons, h.1, h.2]
    · by_cases h' : a = k
      · subst h'; exact absurd h (hfresh v)
      · simp only [alLookup_cons, h', if_false]; exact ih hnd' h

theorem keysNodup_alInsert {k : α} {v : β} {l : List (α × β)} (h : keysNodup l) : keysNodup (alInsert k v l) := by
  induction l with
  | nil => simp [alInsert, keysNodup]
  | cons x t ih =>
    obtain ⟨a, b⟩ := x
    obtain ⟨hfresh, hnd'⟩ := keysNodup_cons h
    by_cases h' : a = k
    · subst h'
      simp only [alInsert, if_true]
      unfold keysNodup at h ⊢
      simpa using h
    · simp only [alInsert, h', if_false]
      unfold keysNodup
      simp only [List.map_cons, List.nodup_cons]
      refine ⟨?_, ih hnd'⟩
      intro hm
      obtain ⟨e, he, hea⟩ := List.mem_map.mp hm
      rcases alInsert_mem he with he | he
      · subst he; exact h' hea.symm
      · obtain ⟨a', b'⟩ := e
        simp at hea; subst hea
        exact hfresh b' he

theorem keysNodup_alErase {k : α} {l : List (α × β)} (h : keysNodup l) : keysNodup (alErase k l) := by
  induction l with
  | nil => simp [alErase, keysNodup]
  | cons x t ih =>
    obtain ⟨a, b⟩ := x
    obtain ⟨hfresh, hnd'⟩ := keysNodup_cons h
    by_cases h' : a = k
    · simp only [alErase, h', if_true]; exact ih hnd'
    · simp only [alErase, h', if_false]
      unfold keysNodup
      simp only [List.map_cons, List.nodup_cons]
      refine ⟨?_, ih hnd'⟩
      intro hm
      obtain ⟨e, he, hea⟩ := List.mem_map.mp hm
      obtain ⟨a', b'⟩ := e
      simp at hea; subst hea
      exact hfresh b' (alErase_mem he)

theorem keysNodup_append_single {k : α} {v : β} {l : List (α × β)} (h : keysNodup l) (hk : alLookup k l = none) :
    keysNodup (l ++ [(k, v)]) := by
  unfold keysNodup at h ⊢
  rw [List.map_append, List.nodup_append]
  refine ⟨h, by simp, ?_⟩
  intro a ha b hb
  simp at hb; subst hb
  obtain ⟨e, he, hea⟩ := List.mem_map.mp ha
  intro heq
  exact alLookup_none_not_mem hk e he (hea.trans heq)

theorem alInsert_alInsert (k : α) (v w : β) (l : List (α × β)) :
    alInsert k w (alInsert k v l) = alInsert k w l := by
  induction l with
  | nil => simp [alInsert]
  | cons x t ih =>
    obtain ⟨a, b⟩ := x
    by_cases h' : a = k
    · simp [alInsert, h']
    · simp [alInsert, h', ih]

/-- replacing the entry of `k` makes the old values of `k` irrelevant -/
theorem alInsert_map_congr {γ : Type} (g' g : α → β → γ) (k : α) (x : γ) (l : List (α × β)) (hnd : keysNodup l)
    (h : ∀ e ∈ l, e.1 ≠ k → g' e.1 e.2 = g e.1 e.2) :
    alInsert k x (l.map fun e => (e.1, g' e.1 e.2)) = alInsert k x (l.map fun e => (e.1, g e.1 e.2)) := by
  induction l with
  | nil => rfl
  | cons e t ih =>
    obtain ⟨a, b⟩ := e
    obtain ⟨hfresh, hnd'⟩ := keysNodup_cons hnd
    by_cases h' : a = k
    · subst h'
      simp only [List.map_cons, alInsert, if_true, List.cons.injEq, true_and]
      apply List.map_congr_left
      intro e he
      obtain ⟨a', b'⟩ := e
      have : a' ≠ a := by intro h; subst h; exact hfresh b' he
      simp [h (a', b') (List.mem_cons_of_mem _ he) this]
    · simp only [List.map_cons, alInsert, h', if_false]
      rw [h (a, b) (by simp) h', ih hnd' fun e he => h e (List.mem_cons_of_mem _ he)]

end

/-! ## `create_dir_all` -/

def addDirs (t : Tree) (qs : List Path) : Tree :=
  qs.foldl (fun t q => if alHas q t then t else t ++ [(q, Node.dir)]) t

theorem addDirs_spec (qs : List Path) : ∀ (t : Tree), keysNodup t →
    ∃ ds : Tree, addDirs t qs = t ++ ds ∧ (∀ e ∈ ds, e.2 = Node.dir ∧ e.1 ∈ qs) ∧ keysNodup (t ++ ds) := by
  induction qs with
  | nil => intro t h; exact ⟨[], by simp [addDirs], by simp, by simpa using h⟩
  | cons q qs ih =>
    intro t h
    unfold addDirs
    simp only [List.foldl_cons]
    by_cases hq : alHas q t = true
    · simp only [hq, if_true]
      obtain ⟨ds, h1, h2, h3⟩ := ih t h
      exact ⟨ds, h1, fun e he => ⟨(h2 e he).1, List.mem_cons_of_mem _ (h2 e he).2⟩, h3⟩
    · simp only [hq]
      have hn : alLookup q t = none := by
        simp [alHas] at hq; exact hq
      obtain ⟨ds, h1, h2, h3⟩ := ih (t ++ [(q, Node.dir)]) (keysNodup_append_single h hn)
      refine ⟨(q, Node.dir) :: ds, ?_, ?_, ?_⟩
      · unfold addDirs at h1
        simp only [Bool.false_eq_true, if_false]
        rw [h1]; simp
      · intro e he
        simp only [List.mem_cons] at he
        rcases he with he | he
        · subst he; simp
        · exact ⟨(h2 e he).1, List.mem_cons_of_mem _ (h2 e he).2⟩
      · simpa using h3

theorem mkdirAll_eq (t : Tree) (p : Path) :
    t.mkdirAll p = if (prefixes p).any (fun q => isFile (t.node q)) then none else some (addDirs t (prefixes p)) := rfl

theorem absTree_append_dirs (s : State) (b : Bytes) (t ds : Tree) (h : ∀ e ∈ ds, e.2 = Node.dir) :
    absTree s b (t ++ ds) = absTree s b t := by
  unfold absTree
  rw [List.filterMap_append]
  have : ds.filterMap (absObj s b) = [] := by
    apply List.filterMap_eq_nil_iff.mpr
    intro e he
    obtain ⟨p, n⟩ := e
    have := h (p, n) he
    simp at this; subst this; rfl
  simp [this]

end S3V.FsStore

namespace S3V.FsStore
open S3V.StoreSpec

/-- a file can be written at `p`: no proper prefix of `p` is a file, `p` itself is not a directory -/
def WriteOk (t : Tree) (p : Path) : Prop :=
  (∀ q ∈ prefixes p.dropLast, isFile (t.node q) = false) ∧ t.node p ≠ some Node.dir

theorem not_mem_prefixes_dropLast {p : Path} (hp : PathOk p) : p ∉ prefixes p.dropLast := by
  intro h
  have := (hp.prefix_dropLast h).2
  omega

theorem node_append_dirs {t ds : Tree} {p : Path} (h : ∀ e ∈ ds, e.1 ≠ p) : (t ++ ds).node p = t.node p := by
  unfold Tree.node
  rw [alLookup_append, alLookup_none_of_not_mem h]
  cases alLookup p t <;> rfl

theorem commitFile_ok (s : State) (bd : Bytes) (p : Path) (c : Bytes) (t : Tree)
    (ht : (s.tree bd).getD [] = t) (hw : WriteOk t p) (hnd : keysNodup t) (hp : PathOk p) :
    ∃ ds : Tree, (∀ e ∈ ds, e.2 = Node.dir ∧ e.1 ∈ prefixes p.dropLast) ∧ keysNodup (t ++ ds) ∧
      s.commitFile bd p c =
        ({ s with buckets := alInsert bd (alInsert p (.file c) (t ++ ds)) s.buckets }, true) := by
  obtain ⟨ds, h1, h2, h3⟩ := addDirs_spec (prefixes p.dropLast) t hnd
  refine ⟨ds, h2, h3, ?_⟩
  have hany : (prefixes p.dropLast).any (fun q => isFile (t.node q)) = false := by
    rw [List.any_eq_false]
    intro q hq
    simp [hw.1 q hq]
  have hnode : (t ++ ds).node p = t.node p :=
    node_append_dirs fun e he heq => not_mem_prefixes_dropLast hp (heq ▸ (h2 e he).2)
  unfold State.commitFile State.mkdirAll
  rw [ht, mkdirAll_eq, hany]
  simp only [Bool.false_eq_true, if_false, h1]
  have htree : (State.setTree s bd (t ++ ds)).tree bd = some (t ++ ds) := by
    unfold State.tree State.setTree
    exact alLookup_alInsert_self _ _ _
  simp only [htree, Option.getD_some, hnode]
  have hne := hw.2
  cases hn : t.node p with
  | none => simp [State.setTree, alInsert_alInsert]
  | some n =>
    cases n with
    | dir => exact absurd hn hne
    | file c0 => simp [State.setTree, alInsert_alInsert]

/-- how the abstraction sees a file written at `p` (key `k`) of bucket `b`, side tables changed only at `(b, k)` -/
theorem abs_write {s s' : State} (hi : Inv s) {b k : Bytes} {t ds : Tree} {p : Path} {c : Bytes}
    (ht : s.tree b = some t) (hp : PathOk p) (hk : joinWith [slash] p = k)
    (hw : t.node p ≠ some Node.dir)
    (hds : ∀ e ∈ ds, e.2 = Node.dir ∧ e.1 ∈ prefixes p.dropLast) (hnd : keysNodup (t ++ ds))
    (hb : s'.buckets = alInsert b (alInsert p (.file c) (t ++ ds)) s.buckets)
    (hm : ∀ x, x ≠ (b, k) → alLookup x s'.metas = alLookup x s.metas)
    (hin : ∀ x, x ≠ (b, k) → alLookup x s'.infos = alLookup x s.infos) :
    (abs s').buckets =
      alInsert b (alInsert k ⟨c, absMeta s' b k, (alLookup (b, k) s'.infos).getD {}⟩ (absTree s b t)) (abs s).buckets := by
  have hmem := tree_mem ht
  -- objects under other keys look the same in `s'`
  have hsame : ∀ (b2 : Bytes) (q : Path) (n : Node), (b2, joinWith [slash] q) ≠ (b, k) →
      absObj s' b2 (q, n) = absObj s b2 (q, n) := by
    intro b2 q n hne
    cases n with
    | dir => rfl
    | file c0 =>
      simp only [absObj, absMeta]
      rw [hm _ hne, hin _ hne]
  rw [abs_buckets, hb, alInsert_map_val (fun b t => absTree s' b t)]
  rw [alInsert_map_congr (fun b t => absTree s' b t) (fun b t => absTree s b t) b _ s.buckets hi.bnd]
  · rw [← abs_buckets]
    congr 1
    -- the tree of bucket `b`
    have hdsdir : ∀ e ∈ ds, e.2 = Node.dir := fun e he => (hds e he).1
    rw [← absTree_append_dirs s b t ds hdsdir]
    unfold absTree
    have hpaths : ∀ x ∈ t ++ ds, PathOk x.1 := by
      intro x hx
      rcases List.mem_append.mp hx with hx | hx
      · exact hi.paths _ hmem _ hx
      · exact (hp.prefix_dropLast (hds x hx).2).1
    apply filterMap_alInsert (absObj s' b) (absObj s b) p (.file c) k _ (t ++ ds) hnd
    · simp [absObj, hk]
    · intro n hn
      have hl : (t ++ ds).node p = some n := alLookup_of_mem_nodup hnd hn
      have hnode : (t ++ ds).node p = t.node p :=
        node_append_dirs fun e he heq => not_mem_prefixes_dropLast hp (heq ▸ (hds e he).2)
      rw [hnode] at hl
      cases n with
      | dir => exact absurd hl hw
      | file c0 => exact ⟨⟨c0, absMeta s b k, (alLookup (b, k) s.infos).getD {}⟩, by simp [absObj, hk]⟩
    · intro q n hq hne
      apply hsame
      intro heq
      simp only [Prod.mk.injEq] at heq
      exact hne ((hpaths _ hq).join_inj hp (heq.2.trans hk.symm))
    · intro q n c' d' hq hne h
      rw [absObj_eq] at h
      cases hn : nodeObj s b (joinWith [slash] q) n with
      | none => simp [hn] at h
      | some o =>
        simp [hn] at h
        rw [← h.1]
        intro heq
        exact hne ((hpaths _ hq).join_inj hp (heq.trans hk.symm))
  · intro e he hne
    unfold absTree
    apply filterMap_congr_mem
    intro x _
    obtain ⟨q, n⟩ := x
    apply hsame
    intro heq
    simp only [Prod.mk.injEq] at heq
    exact hne heq.1

end S3V.FsStore
