import S3V.Model.SigV4
import S3V.Spec.SigV4
/-!
# Lemmas: byte-lexicographic order, the stable sort by first component, slices of sorted lists
-/
namespace S3V.SigV4
open S3V

theorem bLt_irrefl (a : Bytes) : bLt a a = false := by
  induction a with
  | nil => rfl
  | cons x xs ih => simp [bLt, ih]

theorem bLt_asymm {a b : Bytes} (h : bLt a b = true) : bLt b a = false := by
  induction a generalizing b with
  | nil => cases b <;> simp_all [bLt]
  | cons x xs ih =>
    cases b with
    | nil => simp [bLt] at h
    | cons y ys =>
      simp only [bLt] at h ⊢
      split at h
      · rename_i hlt
        have : ¬ y.toNat < x.toNat := by omega
        simp [this, hlt]
      · split at h
        · simp at h
        · rename_i h1 h2
          simp [h1, h2, ih h]

theorem bLt_trans {a b c : Bytes} (h1 : bLt a b = true) (h2 : bLt b c = true) : bLt a c = true := by
  induction a generalizing b c with
  | nil =>
    cases b with
    | nil => simp [bLt] at h1
    | cons y ys => cases c with
      | nil => simp [bLt] at h2
      | cons z zs => simp [bLt]
  | cons x xs ih =>
    cases b with
    | nil => simp [bLt] at h1
    | cons y ys =>
      cases c with
      | nil => simp [bLt] at h2
      | cons z zs =>
        simp only [bLt] at h1 h2 ⊢
        by_cases hxy : x.toNat < y.toNat
        · by_cases hyz : y.toNat < z.toNat
          · have : x.toNat < z.toNat := by omega
            simp [this]
          · simp only [hyz, if_false] at h2
            by_cases hzy : z.toNat < y.toNat
            · simp [hzy] at h2
            · have : x.toNat < z.toNat := by omega
              simp [this]
        · simp only [hxy, if_false] at h1
          by_cases hyx : y.toNat < x.toNat
          · simp [hyx] at h1
          · simp only [hyx, if_false] at h1
            by_cases hyz : y.toNat < z.toNat
            · have : x.toNat < z.toNat := by omega
              simp [this]
            · simp only [hyz, if_false] at h2
              by_cases hzy : z.toNat < y.toNat
              · simp [hzy] at h2
              · simp only [hzy, if_false] at h2
                have e1 : ¬ x.toNat < z.toNat := by omega
                have e2 : ¬ z.toNat < x.toNat := by omega
                simp [e1, e2, ih h1 h2]

theorem bLt_total {a b : Bytes} (h1 : bLt a b = false) (h2 : bLt b a = false) : a = b := by
  induction a generalizing b with
  | nil => cases b <;> simp_all [bLt]
  | cons x xs ih =>
    cases b with
    | nil => simp [bLt] at h2
    | cons y ys =>
      simp only [bLt] at h1 h2
      by_cases hxy : x.toNat < y.toNat
      · simp [hxy] at h1
      · by_cases hyx : y.toNat < x.toNat
        · simp [hyx] at h2
        · simp only [hxy, hyx, if_false] at h1 h2
          have : x = y := UInt8.toNat_inj.mp (by omega)
          rw [this, ih h1 h2]

/-- `≤` is transitive -/
theorem bLe_trans' {a b c : Bytes} (h1 : bLt b a = false) (h2 : bLt c b = false) : bLt c a = false := by
  cases hca : bLt c a with
  | false => rfl
  | true =>
    cases hab : bLt a b with
    | true => rw [bLt_trans hca hab] at h2; cases h2
    | false => have := bLt_total hab h1; subst this; rw [hca] at h2; cases h2

theorem strLt_eq_bLt (a b : Bytes) : SigV4Spec.strLt a b = bLt a b := by
  induction a generalizing b with
  | nil => cases b <;> rfl
  | cons x xs ih => cases b with
    | nil => rfl
    | cons y ys => simp [SigV4Spec.strLt, bLt, ih]

/-! ## the stable sort by first component -/

/-- ascending in the first component -/
def SortedBy (l : List (Bytes × Bytes)) : Prop := l.Pairwise (fun a b => bLt b.1 a.1 = false)

theorem mem_insertByFirst {x y : Bytes × Bytes} {l : List (Bytes × Bytes)} :
    y ∈ insertByFirst x l ↔ y = x ∨ y ∈ l := by
  induction l with
  | nil => simp [insertByFirst]
  | cons z zs ih =>
    simp only [insertByFirst]
    split
    · simp only [List.mem_cons, ih]
      constructor
      · rintro (h | h | h) <;> simp [h]
      · rintro (h | h | h) <;> simp [h]
    · simp

theorem insertByFirst_sorted {x : Bytes × Bytes} {l : List (Bytes × Bytes)} (h : SortedBy l) :
    SortedBy (insertByFirst x l) := by
  induction l with
  | nil => simp [insertByFirst, SortedBy]
  | cons z zs ih =>
    unfold SortedBy at h ih ⊢
    rw [List.pairwise_cons] at h
    simp only [insertByFirst]
    split
    · rename_i hlt
      rw [List.pairwise_cons]
      refine ⟨?_, ih h.2⟩
      intro y hy
      rcases mem_insertByFirst.mp hy with rfl | hy
      · exact bLt_asymm hlt
      · exact h.1 y hy
    · rename_i hnl
      have hnl : bLt z.1 x.1 = false := by simpa using hnl
      rw [List.pairwise_cons, List.pairwise_cons]
      refine ⟨?_, h⟩
      intro y hy
      rcases List.mem_cons.mp hy with rfl | hy
      · exact hnl
      · exact bLe_trans' hnl (h.1 y hy)

theorem sortByFirst_sorted (l : List (Bytes × Bytes)) : SortedBy (sortByFirst l) := by
  induction l with
  | nil => simp [sortByFirst, SortedBy]
  | cons x xs ih => exact insertByFirst_sorted ih

theorem mem_sortByFirst {y : Bytes × Bytes} {l : List (Bytes × Bytes)} : y ∈ sortByFirst l ↔ y ∈ l := by
  induction l with
  | nil => simp [sortByFirst]
  | cons x xs ih => simp [sortByFirst, mem_insertByFirst, ih]

/-- stability, in the form needed: the sub-list of one name is untouched -/
theorem filter_insertByFirst (name : Bytes) (x : Bytes × Bytes) (l : List (Bytes × Bytes)) :
    (insertByFirst x l).filter (fun p => p.1 = name) =
      if x.1 = name then x :: l.filter (fun p => p.1 = name) else l.filter (fun p => p.1 = name) := by
  induction l with
  | nil => by_cases h : x.1 = name <;> simp [insertByFirst, h]
  | cons z zs ih =>
    simp only [insertByFirst]
    split
    · rename_i hlt
      rw [List.filter_cons, ih]
      by_cases hx : x.1 = name
      · have hz : z.1 ≠ name := by
          intro hz; rw [hz, hx, bLt_irrefl] at hlt; cases hlt
        simp [hx, hz]
      · by_cases hz : z.1 = name <;> simp [hx, hz]
    · by_cases hx : x.1 = name <;> simp [hx]

theorem filter_sortByFirst (name : Bytes) (l : List (Bytes × Bytes)) :
    (sortByFirst l).filter (fun p => p.1 = name) = l.filter (fun p => p.1 = name) := by
  induction l with
  | nil => rfl
  | cons x xs ih =>
    simp only [sortByFirst, filter_insertByFirst, ih]
    by_cases hx : x.1 = name <;> simp [hx]

/-- on a list whose names are all `≥ name` and ascending, the prefix `≤ name` is the sub-list `= name` -/
theorem takeWhile_le_eq_filter {name : Bytes} {l : List (Bytes × Bytes)} (hs : SortedBy l)
    (hge : ∀ p ∈ l, bLt p.1 name = false) :
    l.takeWhile (fun x => bLe x.1 name) = l.filter (fun p => p.1 = name) := by
  induction l with
  | nil => rfl
  | cons z zs ih =>
    unfold SortedBy at hs
    rw [List.pairwise_cons] at hs
    have hz := hge z (by simp)
    by_cases hle : bLt name z.1 = true
    · -- z is beyond `name`: so is everything after it
      have hne : z.1 ≠ name := by intro e; rw [e, bLt_irrefl] at hle; cases hle
      have hrest : zs.filter (fun p => p.1 = name) = [] := by
        rw [List.filter_eq_nil_iff]
        intro p hp
        have h1 := hs.1 p hp
        have : bLt name p.1 = true := by
          cases hnp : bLt name p.1 with
          | true => rfl
          | false => exact absurd (bLe_trans' h1 hnp) (by simp [hle])
        intro e; simp only [decide_eq_true_eq] at e; rw [e, bLt_irrefl] at this; cases this
      simp [List.takeWhile_cons, bLe, hle, List.filter_cons, hne, hrest]
    · have hle : bLt name z.1 = false := by simpa using hle
      have he : z.1 = name := bLt_total hz hle
      rw [List.takeWhile_cons, List.filter_cons]
      have c1 : bLe z.1 name = true := by simp [bLe, hle]
      have c2 : decide (z.1 = name) = true := by simp [he]
      rw [if_pos c1, if_pos c2, ih hs.2 (fun p hp => hge p (by simp [hp]))]

theorem getAllPairs_sorted {hs : List (Bytes × Bytes)} (h : SortedBy hs) (name : Bytes) :
    getAllPairs hs name = hs.filter (fun p => p.1 = name) := by
  unfold getAllPairs
  induction hs with
  | nil => rfl
  | cons z zs ih =>
    have h' := h
    unfold SortedBy at h
    rw [List.pairwise_cons] at h
    by_cases hlt : bLt z.1 name = true
    · have hne : z.1 ≠ name := by intro e; rw [e, bLt_irrefl] at hlt; cases hlt
      rw [List.dropWhile_cons]
      simp only [hlt, if_true, List.filter_cons, hne, decide_false]
      exact ih h.2
    · have hge : bLt z.1 name = false := by simpa using hlt
      rw [List.dropWhile_cons]
      simp only [hge]
      apply takeWhile_le_eq_filter h'
      intro p hp
      rcases List.mem_cons.mp hp with rfl | hp
      · exact hge
      · exact bLe_trans' hge (h.1 p hp)

end S3V.SigV4
