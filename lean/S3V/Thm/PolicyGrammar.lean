import S3V.Thm.Policy
import S3V.Spec.Policy
/-!
# Lemmas: the policy reader against the IAM grammar

* `policy_fold`, `stmt_fold`: the two `visit_map` loops, member by member, equal "one slot per block,
  filled at most once" (`slot`): per known name for `Policy` and for `Sid`/`Effect`/`Condition`, per
  pair of names for the principal, action and resource block of a statement;
* value level: each reader accepts exactly the grammar's values (`…_some_iff`) and writing the value
  read gives the JSON back (`…Json_of_…`);
* `fromJson?_of_grammar`: a document of the (string-valued) grammar is accepted, and re-encodes to
  `canon` of itself when no name repeats inside its maps;
* `grammar_of_fromJson?`: an accepted document is in the grammar (no exception any more);
* `violation_mono`: the string-valued grammar lies inside the published one.
-/
namespace S3V.Policy
open S3V S3V.PolicySpec

/-- what the dup-checked loop leaves in one slot: `cur` is the slot's content so far, the list holds
    the members (or their values) that go to this slot, in document order -/
def slot {α β : Type} (f : β → Option α) : Option α → List β → Option (Option α)
  | cur, [] => some cur
  | none, v :: rest => (f v).bind fun x => slot f (some x) rest
  | some _, _ :: _ => none

theorem slot_none_eq {α β : Type} (f : β → Option α) (vs : List β) :
    slot f none vs = match vs with
      | [] => some none
      | [v] => (f v).map some
      | _ => none := by
  match vs with
  | [] => rfl
  | [v] => cases h : f v <;> simp [slot, h]
  | v :: w :: rest => cases h : f v <;> simp [slot, h]

theorem valuesOf_cons (k k' : Bytes) (v : Json) (ms : List (Bytes × Json)) :
    valuesOf k ((k', v) :: ms) = if k' = k then v :: valuesOf k ms else valuesOf k ms := by
  unfold valuesOf
  by_cases h : k' = k <;> simp [h]

theorem policy_fold (ms : List (Bytes × Json)) : ∀ acc : PolAcc,
    ms.foldlM policyField acc =
      (slot optVersion acc.version (valuesOf kVersion ms)).bind fun v =>
      (slot optString acc.id (valuesOf kId ms)).bind fun i =>
      (slot statementsOfJson acc.statement (valuesOf kStatement ms)).bind fun s =>
      some ⟨v, i, s⟩ := by
  induction ms with
  | nil => intro acc; simp [valuesOf, slot]
  | cons e ms ih =>
    intro acc
    obtain ⟨k, v⟩ := e
    rw [List.foldlM_cons]
    by_cases h1 : k = kVersion
    · subst h1
      rw [policyField_version]
      simp only [valuesOf_cons, if_true, show ¬ kVersion = kId by decide, show ¬ kVersion = kStatement by decide, if_false]
      cases hv : acc.version with
      | some x => simp [slot]
      | none =>
        cases hf : optVersion v with
        | none => simp [slot, hf]
        | some y => simp [slot, hf, ih]
    · by_cases h2 : k = kId
      · subst h2
        rw [policyField_id]
        simp only [valuesOf_cons, if_true, show ¬ kId = kVersion by decide, show ¬ kId = kStatement by decide, if_false]
        cases hv : acc.id with
        | some x => simp [slot]
        | none =>
          cases hf : optString v with
          | none => simp [slot, hf]
          | some y => simp [slot, hf, ih]
      · by_cases h3 : k = kStatement
        · subst h3
          rw [policyField_statement]
          simp only [valuesOf_cons, if_true, show ¬ kStatement = kVersion by decide, show ¬ kStatement = kId by decide, if_false]
          cases hv : acc.statement with
          | some x => simp [slot]
          | none =>
            cases hf : statementsOfJson v with
            | none => simp [slot, hf]
            | some y => simp [slot, hf, ih]
        · rw [policyField_other _ _ _ h1 h2 h3]
          simp [valuesOf_cons, h1, h2, h3, ih]

theorem membersOf2_cons (a b k : Bytes) (v : Json) (ms : List (Bytes × Json)) :
    membersOf2 a b ((k, v) :: ms) = if k = a ∨ k = b then (k, v) :: membersOf2 a b ms else membersOf2 a b ms := by
  unfold membersOf2
  by_cases h1 : k = a <;> by_cases h2 : k = b <;> simp [h1, h2]

/-- what `Statement::visit_map` makes of a member of the principal block: the value through the
    reader of `Principal`, wrapped by the variant the name selects -/
def principalMemberOf (kv : Bytes × Json) : Option PrincipalRule :=
  (principalOfJson kv.2).map fun p => if kv.1 = kPrincipal then .principal p else .notPrincipal p

def actionMemberOf (kv : Bytes × Json) : Option ActionRule :=
  (woomOfJson kv.2).map fun w => if kv.1 = kAction then .action w else .notAction w

def resourceMemberOf (kv : Bytes × Json) : Option ResourceRule :=
  (woomOfJson kv.2).map fun w => if kv.1 = kResource then .resource w else .notResource w

/-- the loop of `Statement::visit_map` is six independent slots -/
theorem stmt_fold (ms : List (Bytes × Json)) : ∀ acc : StAcc,
    ms.foldlM stmtField acc =
      (slot optString acc.sid (valuesOf kSid ms)).bind fun s =>
      (slot principalMemberOf acc.principal (membersOf2 kPrincipal kNotPrincipal ms)).bind fun p =>
      (slot (nameEnum effectOfName) acc.effect (valuesOf kEffect ms)).bind fun e =>
      (slot actionMemberOf acc.action (membersOf2 kAction kNotAction ms)).bind fun a =>
      (slot resourceMemberOf acc.resource (membersOf2 kResource kNotResource ms)).bind fun r =>
      (slot optCondition acc.condition (valuesOf kCondition ms)).bind fun c =>
      some ⟨s, p, e, a, r, c⟩ := by
  induction ms with
  | nil => intro acc; simp [valuesOf, membersOf2, slot]
  | cons e ms ih =>
    intro acc
    obtain ⟨k, v⟩ := e
    rw [List.foldlM_cons]
    by_cases h1 : k = kSid
    · subst h1
      rw [stmtField_sid]
      simp (config := { decide := true }) only [valuesOf_cons, membersOf2_cons, if_true, if_false]
      cases hv : acc.sid with
      | some x => simp [slot]
      | none =>
        cases hf : optString v with
        | none => simp [slot, hf]
        | some y => simp [slot, hf, ih]
    by_cases h2 : k = kPrincipal
    · subst h2
      rw [stmtField_principal]
      simp (config := { decide := true }) only [valuesOf_cons, membersOf2_cons, if_true, if_false]
      cases hv : acc.principal with
      | some x => simp [slot]
      | none =>
        cases hf : principalOfJson v with
        | none => simp [slot, principalMemberOf, hf]
        | some y => simp [slot, principalMemberOf, hf, ih]
    by_cases h3 : k = kNotPrincipal
    · subst h3
      rw [stmtField_notPrincipal]
      simp (config := { decide := true }) only [valuesOf_cons, membersOf2_cons, if_true, if_false]
      cases hv : acc.principal with
      | some x => simp [slot]
      | none =>
        cases hf : principalOfJson v with
        | none => simp [slot, principalMemberOf, hf]
        | some y => simp (config := { decide := true }) [slot, principalMemberOf, hf, ih]
    by_cases h4 : k = kEffect
    · subst h4
      rw [stmtField_effect]
      simp (config := { decide := true }) only [valuesOf_cons, membersOf2_cons, if_true, if_false]
      cases hv : acc.effect with
      | some x => simp [slot]
      | none =>
        cases hf : nameEnum effectOfName v with
        | none => simp [slot, hf]
        | some y => simp [slot, hf, ih]
    by_cases h5 : k = kAction
    · subst h5
      rw [stmtField_action]
      simp (config := { decide := true }) only [valuesOf_cons, membersOf2_cons, if_true, if_false]
      cases hv : acc.action with
      | some x => simp [slot]
      | none =>
        cases hf : woomOfJson v with
        | none => simp [slot, actionMemberOf, hf]
        | some y => simp [slot, actionMemberOf, hf, ih]
    by_cases h6 : k = kNotAction
    · subst h6
      rw [stmtField_notAction]
      simp (config := { decide := true }) only [valuesOf_cons, membersOf2_cons, if_true, if_false]
      cases hv : acc.action with
      | some x => simp [slot]
      | none =>
        cases hf : woomOfJson v with
        | none => simp [slot, actionMemberOf, hf]
        | some y => simp (config := { decide := true }) [slot, actionMemberOf, hf, ih]
    by_cases h7 : k = kResource
    · subst h7
      rw [stmtField_resource]
      simp (config := { decide := true }) only [valuesOf_cons, membersOf2_cons, if_true, if_false]
      cases hv : acc.resource with
      | some x => simp [slot]
      | none =>
        cases hf : woomOfJson v with
        | none => simp [slot, resourceMemberOf, hf]
        | some y => simp [slot, resourceMemberOf, hf, ih]
    by_cases h8 : k = kNotResource
    · subst h8
      rw [stmtField_notResource]
      simp (config := { decide := true }) only [valuesOf_cons, membersOf2_cons, if_true, if_false]
      cases hv : acc.resource with
      | some x => simp [slot]
      | none =>
        cases hf : woomOfJson v with
        | none => simp [slot, resourceMemberOf, hf]
        | some y => simp (config := { decide := true }) [slot, resourceMemberOf, hf, ih]
    by_cases h9 : k = kCondition
    · subst h9
      rw [stmtField_condition]
      simp (config := { decide := true }) only [valuesOf_cons, membersOf2_cons, if_true, if_false]
      cases hv : acc.condition with
      | some x => simp [slot]
      | none =>
        cases hf : optCondition v with
        | none => simp [slot, hf]
        | some y => simp [slot, hf, ih]
    rw [stmtField_other _ _ _ ⟨h1, h2, h3, h4, h5, h6, h7, h8, h9⟩]
    simp [valuesOf_cons, membersOf2_cons, h1, h2, h3, h4, h5, h6, h7, h8, h9, ih]


/-! ## value level: what each reader accepts, and that writing gives the value back -/

theorem strList_cons (x : Json) (xs : List Json) :
    strList (x :: xs) = (strOf x).bind fun s => (strList xs).bind fun r => some (s :: r) := by
  simp only [strList, List.mapM_cons]
  cases strOf x <;> simp

theorem strList_eq_some_iff (items : List Json) : ∀ ss, strList items = some ss ↔ items = ss.map Json.str := by
  induction items with
  | nil => intro ss; cases ss <;> simp [strList]
  | cons x xs ih =>
    intro ss
    rw [strList_cons]
    cases x with
    | str s =>
      cases h : strList xs with
      | none =>
        simp only [strOf, Option.bind_some, Option.bind_none]
        refine Iff.intro (fun hh => nomatch hh) (fun hc => ?_)
        exfalso
        cases ss with
        | nil => simp at hc
        | cons a as =>
          simp only [List.map_cons, List.cons.injEq] at hc
          have := (ih as).mpr hc.2
          rw [h] at this; cases this
      | some r =>
        have hr := (ih r).mp h
        simp only [strOf, Option.bind_some, Option.some.injEq]
        constructor
        · rintro rfl; simp [hr]
        · intro hc
          cases ss with
          | nil => simp at hc
          | cons a as =>
            simp only [List.map_cons, List.cons.injEq, Json.str.injEq] at hc
            have := (ih as).mpr hc.2
            rw [h] at this
            simp only [Option.some.injEq] at this
            rw [hc.1, this]
    | _ =>
      simp only [strOf, Option.bind_none]
      refine Iff.intro (fun hh => nomatch hh) (fun hc => ?_)
      cases ss <;> simp at hc

theorem all_isStr_iff (items : List Json) : items.all isStr = true ↔ ∃ ss : List Bytes, items = ss.map Json.str := by
  induction items with
  | nil => simp
  | cons x xs ih =>
    simp only [List.all_cons, Bool.and_eq_true, ih]
    constructor
    · rintro ⟨hx, ss, rfl⟩
      cases x <;> simp [isStr] at hx
      rename_i s
      exact ⟨s :: ss, rfl⟩
    · rintro ⟨ss, h⟩
      cases ss with
      | nil => simp at h
      | cons a as =>
        simp only [List.map_cons, List.cons.injEq] at h
        exact ⟨by rw [h.1]; rfl, as, h.2⟩

theorem oomOfJson_some_iff (v : Json) : (∃ o, oomOfJson v = some o) ↔ strOrStrs v = true := by
  cases v with
  | str s => simp [oomOfJson, strOrStrs]
  | arr items =>
    simp only [oomOfJson, strOrStrs, all_isStr_iff]
    constructor
    · rintro ⟨o, h⟩
      cases hs : strList items with
      | none => simp [hs] at h
      | some ss => exact ⟨ss, (strList_eq_some_iff _ _).mp hs⟩
    · rintro ⟨ss, h⟩
      exact ⟨.more ss, by rw [(strList_eq_some_iff _ _).mpr h]; rfl⟩
  | _ => simp [oomOfJson, strOrStrs]

theorem oomJson_of_oomOfJson (v : Json) (o : OneOrMore Bytes) (h : oomOfJson v = some o) : oomJson o = v := by
  cases v with
  | str s => simp [oomOfJson] at h; subst h; rfl
  | arr items =>
    simp only [oomOfJson] at h
    cases hs : strList items with
    | none => simp [hs] at h
    | some ss =>
      simp [hs] at h; subst h
      simp [oomJson, (strList_eq_some_iff _ _).mp hs]
  | _ => simp [oomOfJson] at h

theorem woomOfJson_some_iff (v : Json) : (∃ o, woomOfJson v = some o) ↔ strOrStrs v = true := by
  cases v with
  | str s => by_cases h : s = nStar <;> simp [woomOfJson, strOrStrs, h]
  | arr items =>
    simp only [woomOfJson, strOrStrs, all_isStr_iff]
    constructor
    · rintro ⟨o, h⟩
      cases hs : strList items with
      | none => simp [hs] at h
      | some ss => exact ⟨ss, (strList_eq_some_iff _ _).mp hs⟩
    · rintro ⟨ss, h⟩
      exact ⟨.more ss, by rw [(strList_eq_some_iff _ _).mpr h]; rfl⟩
  | _ => simp [woomOfJson, strOrStrs]

theorem woomJson_of_woomOfJson (v : Json) (o : WildcardOneOrMore Bytes) (h : woomOfJson v = some o) :
    woomJson o = v := by
  cases v with
  | str s =>
    by_cases hs : s = nStar
    · simp [woomOfJson, hs] at h; subst h; simp [woomJson, hs]
    · simp [woomOfJson, hs] at h; subst h; rfl
  | arr items =>
    simp only [woomOfJson] at h
    cases hs : strList items with
    | none => simp [hs] at h
    | some ss =>
      simp [hs] at h; subst h
      simp [woomJson, (strList_eq_some_iff _ _).mp hs]
  | _ => simp [woomOfJson] at h


/-! ### maps -/

theorem im_fold_some_iff {β : Type} (f : Json → Option β) (ms : List (Bytes × Json)) : ∀ acc : IMap β,
    (∃ m, List.foldlM (fun a (kv : Bytes × Json) => (f kv.2).map (imInsert a kv.1)) acc ms = some m)
      ↔ ∀ kv ∈ ms, ∃ b, f kv.2 = some b := by
  induction ms with
  | nil => intro acc; simp
  | cons e ms ih =>
    intro acc
    rw [List.foldlM_cons]
    cases hf : f e.2 with
    | none =>
      simp only [Option.map_none, Option.bind_eq_bind, Option.bind_none, List.mem_cons, forall_eq_or_imp, hf]
      simp
    | some b =>
      simp only [Option.map_some, Option.bind_eq_bind, Option.bind_some, List.mem_cons, forall_eq_or_imp, hf, ih]
      simp

theorem im_fold_unique {β : Type} (f : Json → Option β) (g : β → Json)
    (ms : List (Bytes × Json)) (hg : ∀ kv ∈ ms, ∀ b, f kv.2 = some b → g b = kv.2) : ∀ (acc m : IMap β),
    List.foldlM (fun a (kv : Bytes × Json) => (f kv.2).map (imInsert a kv.1)) acc ms = some m →
    (acc.map (·.1) ++ ms.map (·.1)).Nodup →
    ∃ m', m = acc ++ m' ∧ m'.map (fun kv => (kv.1, g kv.2)) = ms := by
  induction ms with
  | nil => intro acc m h _; simp at h; exact ⟨[], by simp [h]⟩
  | cons e ms ih =>
    intro acc m h hnd
    rw [List.foldlM_cons] at h
    cases hf : f e.2 with
    | none => simp [hf] at h
    | some b =>
      simp only [hf, Option.map_some, Option.bind_eq_bind, Option.bind_some] at h
      have hnew : e.1 ∉ acc.map (·.1) := by
        intro hmem
        rw [List.nodup_append] at hnd
        exact hnd.2.2 _ hmem _ (by simp) rfl
      rw [imInsert_new _ _ _ hnew] at h
      obtain ⟨m'', hm, hmap⟩ := ih (fun kv hkv => hg kv (List.mem_cons_of_mem _ hkv)) _ _ h (by
        simp only [List.map_append, List.map_cons, List.map_nil, List.append_assoc, List.cons_append, List.nil_append]
        simpa using hnd)
      refine ⟨(e.1, b) :: m'', by simp [hm], ?_⟩
      simp only [List.map_cons, hmap, hg e (by simp) b hf]

theorem imOfMembers_some_iff {β : Type} (f : Json → Option β) (ms : List (Bytes × Json)) :
    (∃ m, imOfMembers f ms = some m) ↔ ∀ kv ∈ ms, ∃ b, f kv.2 = some b :=
  im_fold_some_iff f ms []

theorem imOfMembers_unique {β : Type} (f : Json → Option β) (g : β → Json) (ms : List (Bytes × Json))
    (hg : ∀ kv ∈ ms, ∀ b, f kv.2 = some b → g b = kv.2) (m : IMap β) (h : imOfMembers f ms = some m)
    (hnd : namesNodup ms = true) : m.map (fun kv => (kv.1, g kv.2)) = ms := by
  obtain ⟨m', hm, hmap⟩ := im_fold_unique f g ms hg [] m h (by simpa [namesNodup] using hnd)
  simpa [hm] using hmap

/-! ### principal -/

theorem principalOfJson_some_iff (v : Json) : (∃ p, principalOfJson v = some p) ↔ principalValueOk v = true := by
  cases v with
  | str s => by_cases h : s = nStar <;> simp [principalOfJson, principalValueOk, h]
  | obj kvs =>
    simp only [principalOfJson, principalValueOk, List.all_eq_true]
    constructor
    · rintro ⟨p, h⟩ kv hkv
      cases hm : imOfMembers oomOfJson kvs with
      | none => simp [hm] at h
      | some m => exact (oomOfJson_some_iff _).mp ((imOfMembers_some_iff _ _).mp ⟨m, hm⟩ kv hkv)
    · intro h
      obtain ⟨m, hm⟩ := (imOfMembers_some_iff oomOfJson kvs).mpr fun kv hkv => (oomOfJson_some_iff _).mpr (h kv hkv)
      exact ⟨.map m, by rw [hm]; rfl⟩
  | _ => simp [principalOfJson, principalValueOk]

theorem principalJson_of_principalOfJson (v : Json) (p : Principal) (h : principalOfJson v = some p)
    (hu : objNamesUnique v = true) : principalJson p = v := by
  cases v with
  | str s =>
    by_cases hs : s = nStar
    · simp [principalOfJson, hs] at h; subst h; simp [principalJson, hs]
    · simp [principalOfJson, hs] at h
  | obj kvs =>
    simp only [principalOfJson] at h
    cases hm : imOfMembers oomOfJson kvs with
    | none => simp [hm] at h
    | some m =>
      simp [hm] at h; subst h
      simp only [principalJson, kvsJson]
      rw [imOfMembers_unique oomOfJson oomJson kvs (fun kv _ b hb => oomJson_of_oomOfJson _ _ hb) m hm hu]
  | _ => simp [principalOfJson] at h

/-! ### condition -/

theorem condScalarOk_false (v : Json) : condScalarOk false v = isStr v := by
  cases v <;> rfl

theorem condValueOk_false (v : Json) : condValueOk false v = strOrStrs v := by
  cases v with
  | arr items =>
    simp only [condValueOk, strOrStrs]
    congr 1; funext x; exact condScalarOk_false x
  | _ => rfl

theorem condKeyValues_some_iff (v : Json) : (∃ c, condKeyValuesOfJson v = some c) ↔ condKeysOk false v = true := by
  cases v with
  | obj kvs =>
    simp only [condKeyValuesOfJson, condKeysOk, List.all_eq_true, condValueOk_false, imOfMembers_some_iff,
      oomOfJson_some_iff]
  | _ => simp [condKeyValuesOfJson, condKeysOk]

theorem kvsJson_of_condKeyValues (v : Json) (c : CondKeyValues) (h : condKeyValuesOfJson v = some c)
    (hu : objNamesUnique v = true) : kvsJson c = v := by
  cases v with
  | obj kvs =>
    simp only [condKeyValuesOfJson] at h
    simp only [kvsJson]
    rw [imOfMembers_unique oomOfJson oomJson kvs (fun kv _ b hb => oomJson_of_oomOfJson _ _ hb) c h hu]
  | _ => simp [condKeyValuesOfJson] at h

theorem optCondition_some_iff (v : Json) : (∃ c, optCondition v = some c) ↔ conditionValueViol false v = none := by
  cases v with
  | null => simp [optCondition, conditionValueViol]
  | obj ops =>
    simp only [optCondition, conditionOfJson, conditionValueViol]
    have key : (∃ m, imOfMembers condKeyValuesOfJson ops = some m) ↔ ops.all (fun op => condKeysOk false op.2) = true := by
      simp only [imOfMembers_some_iff, condKeyValues_some_iff, List.all_eq_true]
    constructor
    · rintro ⟨c, h⟩
      cases hm : imOfMembers condKeyValuesOfJson ops with
      | none => simp [hm] at h
      | some m => simp [key.mp ⟨m, hm⟩]
    · intro h
      have : ops.all (fun op => condKeysOk false op.2) = true := by
        by_cases hh : ops.all (fun op => condKeysOk false op.2) = true
        · exact hh
        · simp [hh] at h
      obtain ⟨m, hm⟩ := key.mpr this
      exact ⟨some m, by rw [hm]; rfl⟩
  | _ => simp [optCondition, conditionOfJson, conditionValueViol]

theorem optConditionJson_of_optCondition (v : Json) (c : Option ConditionRule) (h : optCondition v = some c)
    (hu : conditionNamesUnique v = true) : optConditionJson c = v := by
  cases v with
  | null => simp [optCondition] at h; subst h; rfl
  | obj ops =>
    simp only [optCondition, conditionOfJson] at h
    cases hm : imOfMembers condKeyValuesOfJson ops with
    | none => simp [hm] at h
    | some m =>
      simp [hm] at h; subst h
      simp only [conditionNamesUnique, Bool.and_eq_true, List.all_eq_true] at hu
      simp only [optConditionJson, conditionJson]
      rw [imOfMembers_unique condKeyValuesOfJson kvsJson ops
        (fun kv hkv b hb => kvsJson_of_condKeyValues _ _ hb (hu.2 kv hkv)) m hm hu.1]
  | _ => simp [optCondition, conditionOfJson] at h


/-! ### enumerations and optional strings -/

theorem optString_some_iff (shape : Viol) (v : Json) : (∃ x, optString v = some x) ↔ optStringValueViol shape v = none := by
  cases v <;> simp [optString, optStringValueViol]

theorem optStrJson_of_optString (v : Json) (x : Option Bytes) (h : optString v = some x) : optStrJson x = v := by
  cases v <;> simp [optString] at h <;> subst h <;> rfl

theorem optVersion_of_grammar (v : Json) (h : versionValueViol v = none) :
    ∃ x, optVersion v = some x ∧ optVersionJson x = v := by
  cases v with
  | null => exact ⟨none, rfl, rfl⟩
  | str s =>
    simp only [versionValueViol] at h
    by_cases h1 : s = n2012
    · exact ⟨some .v2012_10_17, by simp [optVersion, nameEnum, versionOfName, h1], by simp [optVersionJson, versionName, h1]⟩
    · by_cases h2 : s = n2008
      · exact ⟨some .v2008_10_17, by simp [optVersion, nameEnum, versionOfName, h2, n2008, n2012],
          by simp [optVersionJson, versionName, h2]⟩
      · simp [h1, h2] at h
  | obj ms =>
    rcases ms with _ | ⟨⟨k, x⟩, _ | _⟩
    · simp [versionValueViol] at h
    · cases x <;> simp [versionValueViol] at h
    · simp [versionValueViol] at h
  | _ => simp [versionValueViol] at h

theorem grammar_of_optVersion (v : Json) (x : Option Version) (h : optVersion v = some x) :
    versionValueViol v = none := by
  cases v with
  | null => rfl
  | str s =>
    simp only [optVersion, nameEnum, versionOfName] at h
    by_cases h1 : s = n2012
    · simp [versionValueViol, h1]
    · by_cases h2 : s = n2008
      · simp [versionValueViol, h2]
      · simp [h1, h2] at h
  | _ => simp [optVersion, nameEnum] at h

theorem effect_of_grammar (v : Json) (h : effectValueViol v = none) :
    ∃ e, nameEnum effectOfName v = some e ∧ Json.str (effectName e) = v := by
  cases v with
  | str s =>
    simp only [effectValueViol] at h
    by_cases h1 : s = nAllow
    · exact ⟨.allow, by simp [nameEnum, effectOfName, h1], by simp [effectName, h1]⟩
    · by_cases h2 : s = nDeny
      · exact ⟨.deny, by simp [nameEnum, effectOfName, h2, nAllow, nDeny], by simp [effectName, h2]⟩
      · simp [h1, h2] at h
  | obj ms =>
    rcases ms with _ | ⟨⟨k, x⟩, _ | _⟩
    · simp [effectValueViol] at h
    · cases x <;> simp [effectValueViol] at h
    · simp [effectValueViol] at h
  | _ => simp [effectValueViol] at h

theorem grammar_of_effect (v : Json) (e : Effect) (h : nameEnum effectOfName v = some e) :
    effectValueViol v = none := by
  cases v with
  | str s =>
    simp only [nameEnum, effectOfName] at h
    by_cases h1 : s = nAllow
    · simp [effectValueViol, h1]
    · by_cases h2 : s = nDeny
      · simp [effectValueViol, h2]
      · simp [h1, h2] at h
  | _ => simp [nameEnum] at h

/-! ### blocks: at most one / exactly one -/

theorem slot_none_some_iff {α β : Type} (f : β → Option α) (vs : List β) (r : Option α) :
    slot f none vs = some r ↔ (vs = [] ∧ r = none) ∨ (∃ v x, vs = [v] ∧ f v = some x ∧ r = some x) := by
  rw [slot_none_eq]
  match vs with
  | [] => simp [eq_comm]
  | [v] =>
    cases h : f v with
    | none => simp [h]
    | some x => simp [h, eq_comm]
  | v :: w :: rest => simp

theorem atMostOne_none_iff {α : Type} (g : α → Option Viol) (many : Viol) (vs : List α) :
    atMostOne g many vs = none ↔ vs = [] ∨ ∃ v, vs = [v] ∧ g v = none := by
  match vs with
  | [] => simp [atMostOne]
  | [v] => simp [atMostOne]
  | v :: w :: rest => simp [atMostOne]

theorem exactlyOne_none_iff {α : Type} (g : α → Option Viol) (missing many : Viol) (vs : List α) :
    exactlyOne missing g many vs = none ↔ ∃ v, vs = [v] ∧ g v = none := by
  match vs with
  | [] => simp [exactlyOne]
  | [v] => simp [exactlyOne]
  | v :: w :: rest => simp [exactlyOne]

/-- an optional block that the grammar accepts is read, and written back as it stood -/
theorem slot_opt_of_grammar {α : Type} (f : Json → Option (Option α)) (g : Json → Option Viol)
    (tojson : Option α → Json) (U : Json → Prop) (many : Viol) (vs : List Json)
    (hA : ∀ v, g v = none → ∃ x, f v = some x ∧ (U v → tojson x = v)) (hnull : tojson none = .null)
    (h : atMostOne g many vs = none) :
    ∃ r, slot f none vs = some r ∧ ((∀ v ∈ vs, U v) → tojson (r.getD none) = (vs.head?).getD .null) := by
  rcases (atMostOne_none_iff g many vs).mp h with rfl | ⟨v, rfl, hv⟩
  · exact ⟨none, rfl, fun _ => hnull⟩
  · obtain ⟨x, hx, hj⟩ := hA v hv
    exact ⟨some x, by simp [slot, hx], fun hu => by simpa using hj (hu v (by simp))⟩

theorem grammar_of_slot_opt {α : Type} (f : Json → Option (Option α)) (g : Json → Option Viol)
    (Q : Json → Prop) (many : Viol) (vs : List Json)
    (hR : ∀ v x, f v = some x → Q v → g v = none) (r : Option (Option α)) (h : slot f none vs = some r)
    (hq : ∀ v ∈ vs, Q v) : atMostOne g many vs = none := by
  rcases (slot_none_some_iff f vs r).mp h with ⟨rfl, _⟩ | ⟨v, x, rfl, hx, _⟩
  · rfl
  · exact hR v x hx (hq v (by simp))


/-! ### statement -/

theorem statementOfMembers_eq (ms : List (Bytes × Json)) :
    statementOfMembers ms =
      (slot optString none (valuesOf kSid ms)).bind fun sid =>
      (slot principalMemberOf none (membersOf2 kPrincipal kNotPrincipal ms)).bind fun pr =>
      (slot (nameEnum effectOfName) none (valuesOf kEffect ms)).bind fun ef =>
      (slot actionMemberOf none (membersOf2 kAction kNotAction ms)).bind fun ac =>
      (slot resourceMemberOf none (membersOf2 kResource kNotResource ms)).bind fun re =>
      (slot optCondition none (valuesOf kCondition ms)).bind fun co =>
      ef.bind fun effect =>
      ac.bind fun action =>
      re.bind fun resource =>
      some { sid := sid.getD none, principal := pr, effect := effect,
             action := action, resource := resource, condition := co.getD none } := by
  unfold statementOfMembers
  rw [stmt_fold]
  simp only [Option.bind_assoc, Option.bind_some]

theorem mem_membersOf2 (a b : Bytes) (ms : List (Bytes × Json)) (kv : Bytes × Json)
    (h : kv ∈ membersOf2 a b ms) : kv.1 = a ∨ kv.1 = b := by
  simpa [membersOf2] using (List.mem_filter.mp h).2

/-- an action / resource block the grammar accepts fills its slot, and is written back as it stood -/
theorem rule_of_grammar {ρ : Type} (a b : Bytes) (read : Bytes × Json → Option ρ)
    (mk : Bytes → WildcardOneOrMore Bytes → ρ) (hread : ∀ kv, read kv = (woomOfJson kv.2).map (mk kv.1))
    (member : ρ → Bytes × Json) (hmember : ∀ k w, k = a ∨ k = b → member (mk k w) = (k, woomJson w))
    (shape missing : Viol) (ms : List (Bytes × Json))
    (h : exactlyOne missing (ruleMemberViol shape) .conflictingMembers (membersOf2 a b ms) = none) :
    ∃ r, slot read none (membersOf2 a b ms) = some (some r) ∧ [member r] = membersOf2 a b ms := by
  obtain ⟨kv, hm, hv⟩ := (exactlyOne_none_iff _ _ _ _).mp h
  have hk := mem_membersOf2 a b ms kv (by rw [hm]; simp)
  rw [hm]
  have hs : strOrStrs kv.2 = true := by
    unfold ruleMemberViol at hv
    by_cases hh : strOrStrs kv.2 = true
    · exact hh
    · simp [hh] at hv
  obtain ⟨w, hw⟩ := (woomOfJson_some_iff kv.2).mpr hs
  refine ⟨mk kv.1 w, by simp [slot, hread, hw], ?_⟩
  rw [hmember _ _ hk, woomJson_of_woomOfJson _ _ hw]

/-- a filled action / resource slot means: exactly one block under the two names, with a value of the
    grammar (no exception any more: a second block is refused by the reader) -/
theorem grammar_of_rule {ρ : Type} (a b : Bytes) (read : Bytes × Json → Option ρ)
    (mk : Bytes → WildcardOneOrMore Bytes → ρ) (hread : ∀ kv, read kv = (woomOfJson kv.2).map (mk kv.1))
    (shape missing : Viol) (ms : List (Bytes × Json)) (r : ρ)
    (h : slot read none (membersOf2 a b ms) = some (some r)) :
    exactlyOne missing (ruleMemberViol shape) .conflictingMembers (membersOf2 a b ms) = none := by
  rcases (slot_none_some_iff read _ _).mp h with ⟨_, hh⟩ | ⟨kv, x, hm, hx, _⟩
  · cases hh
  · rw [hm]
    rw [hread] at hx
    cases hw : woomOfJson kv.2 with
    | none => simp [hw] at hx
    | some w =>
      have := (woomOfJson_some_iff kv.2).mp ⟨w, hw⟩
      simp [exactlyOne, ruleMemberViol, this]

theorem actionMember_mk (k : Bytes) (w : WildcardOneOrMore Bytes) (hk : k = kAction ∨ k = kNotAction) :
    actionMember (if k = kAction then ActionRule.action w else .notAction w) = (k, woomJson w) := by
  rcases hk with rfl | rfl <;> simp [actionMember, kAction, kNotAction]

theorem resourceMember_mk (k : Bytes) (w : WildcardOneOrMore Bytes) (hk : k = kResource ∨ k = kNotResource) :
    resourceMember (if k = kResource then ResourceRule.resource w else .notResource w) = (k, woomJson w) := by
  rcases hk with rfl | rfl <;> simp [resourceMember, kResource, kNotResource]

/-- a principal block the grammar accepts (or none) fills the slot accordingly, and is written back as
    it stood -/
theorem principal_of_grammar (ms : List (Bytes × Json))
    (h : atMostOne principalMemberViol .conflictingMembers (membersOf2 kPrincipal kNotPrincipal ms) = none) :
    ∃ pr, slot principalMemberOf none (membersOf2 kPrincipal kNotPrincipal ms) = some pr ∧
      ((∀ kv ∈ membersOf2 kPrincipal kNotPrincipal ms, objNamesUnique kv.2 = true) →
        principalMembers pr = membersOf2 kPrincipal kNotPrincipal ms) := by
  rcases (atMostOne_none_iff _ _ _).mp h with hm | ⟨kv, hm, hv⟩
  · exact ⟨none, by simp [hm, slot], fun _ => by simp [hm, principalMembers]⟩
  · have hk := mem_membersOf2 _ _ ms kv (by rw [hm]; simp)
    have hs : principalValueOk kv.2 = true := by
      unfold principalMemberViol at hv
      by_cases hh : principalValueOk kv.2 = true
      · exact hh
      · simp [hh] at hv
    obtain ⟨p, hp⟩ := (principalOfJson_some_iff kv.2).mpr hs
    rw [hm]
    refine ⟨some (if kv.1 = kPrincipal then .principal p else .notPrincipal p),
      by simp [slot, principalMemberOf, hp], fun hu => ?_⟩
    have hj := principalJson_of_principalOfJson _ _ hp (hu kv (by simp))
    obtain ⟨k, v⟩ := kv
    simp only at hk hj
    rcases hk with rfl | rfl
    · simp [principalMembers, hj]
    · simp [principalMembers, hj, kPrincipal, kNotPrincipal]

/-- a principal slot that came out of the loop means: at most one block under the two names, and its
    value is of the grammar (no exception any more: a second block and a malformed value are refused) -/
theorem grammar_of_principal (ms : List (Bytes × Json)) (pr : Option PrincipalRule)
    (h : slot principalMemberOf none (membersOf2 kPrincipal kNotPrincipal ms) = some pr) :
    atMostOne principalMemberViol .conflictingMembers (membersOf2 kPrincipal kNotPrincipal ms) = none := by
  rcases (slot_none_some_iff principalMemberOf _ _).mp h with ⟨hm, _⟩ | ⟨kv, x, hm, hx, _⟩
  · rw [hm]; rfl
  · rw [hm]
    unfold principalMemberOf at hx
    cases hp : principalOfJson kv.2 with
    | none => simp [hp] at hx
    | some p =>
      have := (principalOfJson_some_iff kv.2).mp ⟨p, hp⟩
      simp [atMostOne, principalMemberViol, this]

theorem statement_of_grammar (ms : List (Bytes × Json)) (h : stmtViol false (.obj ms) = none) :
    ∃ s, statementOfMembers ms = some s ∧
      (stmtNamesUnique (.obj ms) = true → statementJson s = canonStmt (.obj ms)) := by
  simp only [stmtViol, Option.or_eq_none_iff] at h
  obtain ⟨h1, h2, h3, h4, h5, h6⟩ := h
  obtain ⟨rs, hrs, hjs⟩ := slot_opt_of_grammar optString (optStringValueViol .sidShape) optStrJson (fun _ => True)
    .dupMember _ (fun v hv => by
      obtain ⟨x, hx⟩ := (optString_some_iff _ v).mpr hv
      exact ⟨x, hx, fun _ => optStrJson_of_optString _ _ hx⟩) rfl h1
  obtain ⟨ve, hme, hve⟩ := (exactlyOne_none_iff _ _ _ _).mp h3
  obtain ⟨e, he, hje⟩ := effect_of_grammar ve hve
  obtain ⟨rc, hrc, hjc⟩ := slot_opt_of_grammar optCondition (conditionValueViol false) optConditionJson
    (fun v => conditionNamesUnique v = true) .dupMember _ (fun v hv => by
      obtain ⟨c, hc⟩ := (optCondition_some_iff v).mpr hv
      exact ⟨c, hc, fun hu => optConditionJson_of_optCondition _ _ hc hu⟩) rfl h6
  obtain ⟨a, ha, hma⟩ := rule_of_grammar kAction kNotAction actionMemberOf
    (fun k w => if k = kAction then ActionRule.action w else .notAction w) (fun _ => rfl) actionMember
    actionMember_mk .actionShape .actionMissing ms h4
  obtain ⟨r, hr, hmr⟩ := rule_of_grammar kResource kNotResource resourceMemberOf
    (fun k w => if k = kResource then ResourceRule.resource w else .notResource w) (fun _ => rfl) resourceMember
    resourceMember_mk .resourceShape .resourceMissing ms h5
  obtain ⟨pr, hpr, hjp⟩ := principal_of_grammar ms h2
  have hse : slot (nameEnum effectOfName) none (valuesOf kEffect ms) = some (some e) := by
    rw [hme]; simp [slot, he]
  refine ⟨_, by rw [statementOfMembers_eq, hrs, hpr, hse, ha, hr, hrc]; rfl, ?_⟩
  intro hu
  simp only [stmtNamesUnique, Bool.and_eq_true, List.all_eq_true] at hu
  simp only [statementJson, canonStmt, pick, hjp hu.1, hjs (fun _ _ => trivial), hjc hu.2, hme, ← hma, ← hmr, hje]
  simp

theorem grammar_of_statement (ms : List (Bytes × Json)) (s : Statement) (h : statementOfMembers ms = some s) :
    stmtViol false (.obj ms) = none := by
  rw [statementOfMembers_eq] at h
  simp only [Option.bind_eq_some_iff] at h
  obtain ⟨sid, hsid, pr, hpr, ef, hef, ac, hac, re, hre, co, hco, effect, heffect, action, haction, resource,
    hresource, _⟩ := h
  simp only [stmtViol, Option.or_eq_none_iff]
  refine ⟨?_, grammar_of_principal ms pr hpr, ?_, ?_, ?_, ?_⟩
  · exact grammar_of_slot_opt optString (optStringValueViol .sidShape) (fun _ => True) .dupMember _
      (fun v x hx _ => (optString_some_iff _ v).mp ⟨x, hx⟩) sid hsid (fun _ _ => trivial)
  · subst heffect
    rcases (slot_none_some_iff _ _ _).mp hef with ⟨_, hh⟩ | ⟨v, x, hm, hx, _⟩
    · cases hh
    · rw [hm]
      simpa [exactlyOne] using grammar_of_effect v x hx
  · subst haction
    exact grammar_of_rule kAction kNotAction actionMemberOf
      (fun k w => if k = kAction then ActionRule.action w else .notAction w) (fun _ => rfl) .actionShape
      .actionMissing ms action hac
  · subst hresource
    exact grammar_of_rule kResource kNotResource resourceMemberOf
      (fun k w => if k = kResource then ResourceRule.resource w else .notResource w) (fun _ => rfl) .resourceShape
      .resourceMissing ms resource hre
  · exact grammar_of_slot_opt optCondition (conditionValueViol false) (fun _ => True) .dupMember _
      (fun v x hx _ => (optCondition_some_iff v).mp ⟨x, hx⟩) co hco (fun _ _ => trivial)


/-! ### the `Statement` block -/

theorem statementOfJson_of_grammar (x : Json) (h : stmtViol false x = none) :
    ∃ s, statementOfJson x = some s ∧ (stmtNamesUnique x = true → statementJson s = canonStmt x) := by
  cases x with
  | obj ms => exact statement_of_grammar ms h
  | _ => simp [stmtViol] at h

theorem grammar_of_statementOfJson (x : Json) (s : Statement) (h : statementOfJson x = some s) :
    stmtViol false x = none := by
  cases x with
  | obj ms => exact grammar_of_statement ms s h
  | _ => simp [statementOfJson] at h

theorem statementList_of_grammar (items : List Json) (h : ∀ x ∈ items, stmtViol false x = none) :
    ∃ ss, items.mapM statementOfJson = some ss ∧
      ((∀ x ∈ items, stmtNamesUnique x = true) → ss.map statementJson = items.map canonStmt) := by
  induction items with
  | nil => exact ⟨[], rfl, fun _ => rfl⟩
  | cons x xs ih =>
    obtain ⟨s, hs, hj⟩ := statementOfJson_of_grammar x (h x (by simp))
    obtain ⟨ss, hss, hjs⟩ := ih (fun y hy => h y (List.mem_cons_of_mem _ hy))
    refine ⟨s :: ss, by simp [List.mapM_cons, hs, hss], fun hu => ?_⟩
    simp only [List.map_cons, hj (hu x (by simp)), hjs (fun y hy => hu y (List.mem_cons_of_mem _ hy))]

theorem grammar_of_statementList (items : List Json) : ∀ ss, items.mapM statementOfJson = some ss →
    ∀ x ∈ items, stmtViol false x = none := by
  induction items with
  | nil => intro _ _ x hx; simp at hx
  | cons y ys ih =>
    intro ss h x hx
    simp only [List.mapM_cons, Option.bind_eq_bind, Option.bind_eq_some_iff] at h
    obtain ⟨s, hs, ss', hss, _⟩ := h
    simp only [List.mem_cons] at hx
    rcases hx with rfl | hx
    · exact grammar_of_statementOfJson _ s hs
    · exact ih ss' hss x hx

theorem statements_of_grammar (v : Json) (h : statementsValueViol false v = none) :
    ∃ st, statementsOfJson v = some st ∧ (stmtsNamesUnique v = true → statementsJson st = canonStmts v) := by
  cases v with
  | obj ms =>
    obtain ⟨s, hs, hj⟩ := statement_of_grammar ms h
    exact ⟨.one s, by simp [statementsOfJson, hs], fun hu => by simpa [statementsJson, canonStmts] using hj hu⟩
  | arr items =>
    simp only [statementsValueViol, List.findSome?_eq_none_iff] at h
    obtain ⟨ss, hss, hj⟩ := statementList_of_grammar items h
    refine ⟨.more ss, by simp [statementsOfJson, hss], fun hu => ?_⟩
    simp only [stmtsNamesUnique, List.all_eq_true] at hu
    simp [statementsJson, canonStmts, hj hu]
  | _ => simp [statementsValueViol] at h

theorem grammar_of_statements (v : Json) (st : OneOrMore Statement) (h : statementsOfJson v = some st) :
    statementsValueViol false v = none := by
  cases v with
  | obj ms =>
    simp only [statementsOfJson, Option.map_eq_some_iff] at h
    obtain ⟨s, hs, _⟩ := h
    exact grammar_of_statement ms s hs
  | arr items =>
    simp only [statementsOfJson, Option.map_eq_some_iff] at h
    obtain ⟨ss, hss, _⟩ := h
    simp only [statementsValueViol, List.findSome?_eq_none_iff]
    exact grammar_of_statementList items ss hss
  | _ => simp [statementsOfJson] at h

/-! ### policy -/

theorem policyOfMembers_eq (ms : List (Bytes × Json)) :
    policyOfMembers ms =
      (slot optVersion none (valuesOf kVersion ms)).bind fun v =>
      (slot optString none (valuesOf kId ms)).bind fun i =>
      (slot statementsOfJson none (valuesOf kStatement ms)).bind fun s =>
      s.bind fun st => some { version := v.getD none, id := i.getD none, statement := st } := by
  unfold policyOfMembers
  rw [policy_fold]
  simp only [Option.bind_assoc, Option.bind_some]

theorem fromJson?_of_grammar (j : Json) (h : violation false j = none) :
    ∃ p, fromJson? j = some p ∧ (mapNamesUnique j = true → toJson p = canon j) := by
  cases j with
  | obj ms =>
    simp only [violation, Option.or_eq_none_iff] at h
    obtain ⟨h1, h2, h3⟩ := h
    obtain ⟨rv, hrv, hjv⟩ := slot_opt_of_grammar optVersion versionValueViol optVersionJson (fun _ => True)
      .dupMember _ (fun v hv => by
        obtain ⟨x, hx, hj⟩ := optVersion_of_grammar v hv
        exact ⟨x, hx, fun _ => hj⟩) rfl h1
    obtain ⟨ri, hri, hji⟩ := slot_opt_of_grammar optString (optStringValueViol .idShape) optStrJson (fun _ => True)
      .dupMember _ (fun v hv => by
        obtain ⟨x, hx⟩ := (optString_some_iff _ v).mpr hv
        exact ⟨x, hx, fun _ => optStrJson_of_optString _ _ hx⟩) rfl h2
    obtain ⟨vs, hms, hvs⟩ := (exactlyOne_none_iff _ _ _ _).mp h3
    obtain ⟨st, hst, hjst⟩ := statements_of_grammar vs hvs
    have hss : slot statementsOfJson none (valuesOf kStatement ms) = some (some st) := by
      rw [hms]; simp [slot, hst]
    refine ⟨_, by simp only [fromJson?]; rw [policyOfMembers_eq, hrv, hri, hss]; rfl, fun hu => ?_⟩
    simp only [mapNamesUnique, hms, List.all_cons, List.all_nil, Bool.and_true] at hu
    simp only [toJson, canon, pick, hjv (fun _ _ => trivial), hji (fun _ _ => trivial), hms, hjst hu]
    simp
  | arr _ => simp [violation] at h
  | _ => simp [violation] at h

theorem grammar_of_fromJson? (j : Json) (p : Policy) (h : fromJson? j = some p) :
    violation false j = none := by
  cases j with
  | obj ms =>
    simp only [fromJson?] at h
    rw [policyOfMembers_eq] at h
    simp only [Option.bind_eq_some_iff] at h
    obtain ⟨v, hv, i, hi, s, hs, st, hst, _⟩ := h
    simp only [violation, Option.or_eq_none_iff]
    refine ⟨?_, ?_, ?_⟩
    · exact grammar_of_slot_opt optVersion versionValueViol (fun _ => True) .dupMember _
        (fun v x hx _ => grammar_of_optVersion v x hx) v hv (fun _ _ => trivial)
    · exact grammar_of_slot_opt optString (optStringValueViol .idShape) (fun _ => True) .dupMember _
        (fun v x hx _ => (optString_some_iff _ v).mp ⟨x, hx⟩) i hi (fun _ _ => trivial)
    · subst hst
      rcases (slot_none_some_iff _ _ _).mp hs with ⟨_, hh⟩ | ⟨w, x, hm, hx, _⟩
      · cases hh
      · rw [hm]
        simpa [exactlyOne] using grammar_of_statements w x hx
  | _ => simp [fromJson?] at h

/-! ### the published grammar contains the string-valued one -/

theorem atMostOne_mono {α : Type} (g g' : α → Option Viol) (many : Viol) (vs : List α)
    (hg : ∀ v, g v = none → g' v = none) (h : atMostOne g many vs = none) : atMostOne g' many vs = none := by
  rcases (atMostOne_none_iff g many vs).mp h with rfl | ⟨v, rfl, hv⟩
  · rfl
  · exact hg v hv

theorem exactlyOne_mono {α : Type} (g g' : α → Option Viol) (missing many : Viol) (vs : List α)
    (hg : ∀ v, g v = none → g' v = none) (h : exactlyOne missing g many vs = none) :
    exactlyOne missing g' many vs = none := by
  obtain ⟨v, rfl, hv⟩ := (exactlyOne_none_iff g missing many vs).mp h
  exact hg v hv

theorem condScalarOk_mono (v : Json) (h : condScalarOk false v = true) : condScalarOk true v = true := by
  cases v <;> simp_all [condScalarOk]

theorem condValueOk_mono (v : Json) (h : condValueOk false v = true) : condValueOk true v = true := by
  cases v with
  | arr items =>
    simp only [condValueOk, List.all_eq_true] at h ⊢
    exact fun x hx => condScalarOk_mono x (h x hx)
  | _ => simp_all [condValueOk, condScalarOk]

theorem condKeysOk_mono (v : Json) (h : condKeysOk false v = true) : condKeysOk true v = true := by
  cases v with
  | obj kvs =>
    simp only [condKeysOk, List.all_eq_true] at h ⊢
    exact fun x hx => condValueOk_mono _ (h x hx)
  | _ => simp [condKeysOk] at h

theorem conditionValueViol_mono (v : Json) (h : conditionValueViol false v = none) :
    conditionValueViol true v = none := by
  cases v with
  | null => rfl
  | obj ops =>
    simp only [conditionValueViol] at h ⊢
    have : ops.all (fun op => condKeysOk false op.2) = true := by
      by_cases hh : ops.all (fun op => condKeysOk false op.2) = true
      · exact hh
      · simp [hh] at h
    have : ops.all (fun op => condKeysOk true op.2) = true := by
      simp only [List.all_eq_true] at this ⊢
      exact fun x hx => condKeysOk_mono _ (this x hx)
    simp [this]
  | _ => simp [conditionValueViol] at h

theorem stmtViol_mono (x : Json) (h : stmtViol false x = none) : stmtViol true x = none := by
  cases x with
  | obj ms =>
    simp only [stmtViol, Option.or_eq_none_iff] at h ⊢
    exact ⟨h.1, h.2.1, h.2.2.1, h.2.2.2.1, h.2.2.2.2.1,
      atMostOne_mono _ _ _ _ conditionValueViol_mono h.2.2.2.2.2⟩
  | _ => simp [stmtViol] at h

theorem statementsValueViol_mono (v : Json) (h : statementsValueViol false v = none) :
    statementsValueViol true v = none := by
  cases v with
  | obj ms => exact stmtViol_mono (.obj ms) h
  | arr items =>
    simp only [statementsValueViol, List.findSome?_eq_none_iff] at h ⊢
    exact fun x hx => stmtViol_mono x (h x hx)
  | _ => simp [statementsValueViol] at h

theorem violation_mono (j : Json) (h : violation false j = none) : violation true j = none := by
  cases j with
  | obj ms =>
    simp only [violation, Option.or_eq_none_iff] at h ⊢
    exact ⟨h.1, h.2.1, exactlyOne_mono _ _ _ _ _ statementsValueViol_mono h.2.2⟩
  | arr _ => simp [violation] at h
  | _ => simp [violation] at h

end S3V.Policy
