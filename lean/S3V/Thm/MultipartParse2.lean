import S3V.Thm.MultipartParse
import S3V.Thm.Utf8Prefix
/-!
# Lemmas: a failed `try_parse` never turns into a success on a longer buffer (C09d)

`try_parse` is not prefix-stable where `split_to` matched an unterminated trailing `--boundary`
(`S3V/Findings/C09.lean`). What still holds there, and is all the accumulate loop needs: the early
`InvalidFormat` (a field value that is not UTF-8) stays a failure or becomes "need more data", because the
longer value is the old value followed by `CR LF --boundary…`, and a string that is not UTF-8 does not
become UTF-8 by appending an ASCII byte and more (`utf8Valid_prefix_before_ascii`).
-/
namespace S3V.Multipart
open S3V

/-- where `split_to` can stop, seen from the cursor: at the cursor or at least two bytes later -/
theorem splitToLoop_ans (pat self : Bytes) : ∀ (fuel : Nat) (lines : Bytes) (len : Nat) (pre ans r : Bytes),
    self = pre ++ lines → pre.length = len →
    splitToLoop pat self fuel lines len = some (ans, r) →
    ans = pre ∨ ∃ y, ans = pre ++ y ∧ 2 ≤ y.length := by
  intro fuel
  induction fuel with
  | zero => intro lines len pre ans r _ _ h; simp [splitToLoop] at h
  | succ n ih =>
    intro lines len pre ans r hself hlen h
    rw [splitToLoop] at h
    have htake : self.take (min len self.length) = pre := by
      have hle' : len ≤ self.length := by rw [hself, ← hlen]; simp
      rw [Nat.min_eq_left hle', hself, ← hlen, List.take_left']
      rfl
    rcases nextLine_cases lines with ⟨_, hn⟩ | ⟨l, r0, hs, hn⟩ | ⟨hs, hne, hn⟩
    · rw [hn] at h; cases h
    · rw [hn] at h
      simp only at h
      by_cases hl : l = pat
      · rw [if_pos hl] at h
        simp only [Option.some.injEq, Prod.mk.injEq] at h
        exact Or.inl (by rw [← h.1, htake])
      · rw [if_neg hl] at h
        have hlines := splitCrlf_eq_some hs
        rcases ih r0 (len + l.length + 2) (pre ++ l ++ [13, 10]) ans r
          (by rw [hself, hlines]; simp) (by simp [hlen]; omega) h with h1 | ⟨y, h1, h2⟩
        · exact Or.inr ⟨l ++ [13, 10], by rw [h1]; simp, by simp⟩
        · exact Or.inr ⟨l ++ [13, 10] ++ y, by rw [h1]; simp, by simp; omega⟩
    · rw [hn] at h
      simp only at h
      by_cases hl : lines = pat
      · rw [if_pos hl] at h
        simp only [Option.some.injEq, Prod.mk.injEq] at h
        exact Or.inl (by rw [← h.1, htake])
      · rw [if_neg hl, splitToLoop_nil] at h; cases h

/-- `split_to` on a buffer and on an extension of it: the same bytes, or the first answer is empty, or
    the first answer ends in CRLF and the second continues it by at least two bytes -/
theorem splitToLoop_ans_ext (pat self q : Bytes) :
    ∀ (fuel fuel' : Nat) (lines : Bytes) (len : Nat) (pre ans r ans' r' : Bytes),
    self = pre ++ lines → pre.length = len → (pre = [] ∨ ∃ w, pre = w ++ [13, 10]) →
    splitToLoop pat self fuel lines len = some (ans, r) →
    splitToLoop pat (self ++ q) fuel' (lines ++ q) len = some (ans', r') →
    ans' = ans ∨ ans = [] ∨ ∃ w y, ans = w ++ [13, 10] ∧ ans' = w ++ [13, 10] ++ y ∧ 2 ≤ y.length := by
  intro fuel
  induction fuel with
  | zero => intro fuel' lines len pre ans r ans' r' _ _ _ h; simp [splitToLoop] at h
  | succ n ih =>
    intro fuel' lines len pre ans r ans' r' hself hlen hpre h h'
    cases fuel' with
    | zero => simp [splitToLoop] at h'
    | succ m =>
      have hle' : len ≤ self.length := by rw [hself, ← hlen]; simp
      have htake : self.take (min len self.length) = pre := by
        rw [Nat.min_eq_left hle', hself, ← hlen, List.take_left']
        rfl
      have hext := h'
      rw [splitToLoop] at h h'
      rcases nextLine_cases lines with ⟨_, hn⟩ | ⟨l, r0, hs, hn⟩ | ⟨hs, hne, hn⟩
      · rw [hn] at h; cases h
      · rw [hn] at h
        rw [nextLine_append_of_crlf q hs] at h'
        simp only at h h'
        by_cases hl : l = pat
        · rw [if_pos hl] at h h'
          simp only [Option.some.injEq, Prod.mk.injEq] at h h'
          left
          rw [← h.1, ← h'.1]
          simp only [List.length_append]
          rw [Nat.min_eq_left hle', Nat.min_eq_left (by omega), List.take_append_of_le_length hle']
        · rw [if_neg hl] at h h'
          have hlines := splitCrlf_eq_some hs
          exact ih m r0 (len + l.length + 2) (pre ++ l ++ [13, 10]) ans r ans' r'
            (by rw [hself, hlines]; simp) (by simp [hlen]; omega)
            (Or.inr ⟨pre ++ l, rfl⟩) h h'
      · rw [hn] at h
        simp only at h
        by_cases hl : lines = pat
        · rw [if_pos hl] at h
          simp only [Option.some.injEq, Prod.mk.injEq] at h
          have hans : ans = pre := by rw [← h.1, htake]
          rcases splitToLoop_ans pat (self ++ q) (m + 1) (lines ++ q) len pre ans' r'
            (by rw [hself]; simp) hlen hext with h1 | ⟨y, h1, h2⟩
          · exact Or.inl (by rw [h1, hans])
          · rcases hpre with hp | ⟨w, hp⟩
            · exact Or.inr (Or.inl (by rw [hans, hp]))
            · exact Or.inr (Or.inr ⟨w, y, by rw [hans, hp], by rw [h1, hp], h2⟩)
        · rw [if_neg hl, splitToLoop_nil] at h; cases h

/-- the value cut out by `split_to` on a longer buffer is UTF-8 only if the one cut out on the shorter
    buffer is -/
theorem splitTo_value_utf8 {pat s q ans r ans' r' : Bytes}
    (h : splitTo pat s = some (ans, r)) (h' : splitTo pat (s ++ q) = some (ans', r'))
    (hv : utf8Valid (ans'.take (ans'.length - 2)) = true) :
    utf8Valid (ans.take (ans.length - 2)) = true := by
  unfold splitTo at h h'
  rcases splitToLoop_ans_ext pat s q _ _ s 0 [] ans r ans' r' rfl rfl (Or.inl rfl) h h' with
    h1 | h1 | ⟨w, y, h1, h2, h3⟩
  · rw [← h1]; exact hv
  · rw [h1]; rfl
  · have e1 : ans.take (ans.length - 2) = w := by
      rw [h1]; simp
    have e2 : ans'.take (ans'.length - 2) = w ++ 13 :: (10 :: y).take (y.length - 1) := by
      rw [h2]
      have : (w ++ [13, 10] ++ y).length - 2 = w.length + ((y.length - 1) + 1) := by
        simp only [List.length_append, List.length_cons, List.length_nil]; omega
      rw [this, List.append_assoc, List.take_length_add_append]
      simp
    rw [e1]
    rw [e2] at hv
    exact utf8Valid_prefix_before_ascii (by decide) hv

def NotParsed (R : PRes) : Prop := ∀ f n c r, R ≠ .parsed f n c r

theorem partsStep_invalid_ext (b q : Bytes) (k k' : Bytes → List (Bytes × Bytes) → PRes)
    (s : Bytes) (fields : List (Bytes × Bytes))
    (hk : ∀ s' f', k s' f' = .invalid → NotParsed (k' (s' ++ q) f'))
    (hnil : ∀ f', k [] f' = .needMore)
    (h : partsStep b k s fields = .invalid) :
    NotParsed (partsStep b k' (s ++ q) fields) := by
  unfold partsStep at h ⊢
  cases hh : parseHeaders s with
  | more => rw [hh] at h; cases h
  | error =>
    rw [parseHeaders_append s q (by rw [hh]; simp), hh]
    intro f n c r hc; cases hc
  | complete rest hdrs =>
    rw [parseHeaders_append s q (by rw [hh]; simp), hh]
    rw [hh] at h
    simp only [HRes.ext] at h ⊢
    cases hcd : lastHeader nameCD hdrs none with
    | none => rw [hcd] at h; cases h
    | some cdv =>
      rw [hcd] at h
      simp only at h ⊢
      cases hp : parseCD cdv with
      | none => intro f n c r hc; cases hc
      | some nf =>
        obtain ⟨name, fn⟩ := nf
        rw [hp] at h
        cases fn with
        | none =>
          simp only at h ⊢
          cases hsp : splitTo (dashBoundary b) rest with
          | none => rw [hsp] at h; cases h
          | some ar =>
            obtain ⟨ans, rest'⟩ := ar
            rw [hsp] at h
            simp only at h
            by_cases hu : utf8Valid (ans.take (ans.length - 2)) = true
            · rw [if_pos hu] at h
              have hne : rest' ≠ [] := by
                intro h0; subst h0; rw [hnil] at h; cases h
              rw [splitTo_append q hsp (Or.inl hne)]
              simp only
              rw [if_pos hu]
              exact hk rest' _ h
            · cases hsp' : splitTo (dashBoundary b) (rest ++ q) with
              | none => intro f n c r hc; cases hc
              | some ar' =>
                obtain ⟨ans', rest''⟩ := ar'
                simp only
                have hu' : ¬ utf8Valid (ans'.take (ans'.length - 2)) = true :=
                  fun hv => hu (splitTo_value_utf8 hsp hsp' hv)
                rw [if_neg hu']
                intro f n c r hc; cases hc
        | some fname =>
          simp only at h ⊢
          cases hct : lastHeader nameCT hdrs none with
          | none => rw [hct] at h; cases h
          | some ctv =>
            rw [hct] at h
            simp only at h ⊢
            by_cases hu : utf8Valid ctv = true
            · rw [if_pos hu] at h; cases h
            · rw [if_neg hu]; intro f n c r hc; cases hc

theorem partsLoop_invalid_ext (b q : Bytes) : ∀ (fuel fuel' : Nat) (s : Bytes) (fields : List (Bytes × Bytes)),
    partsLoop b fuel s fields = .invalid → NotParsed (partsLoop b fuel' (s ++ q) fields) := by
  intro fuel
  induction fuel with
  | zero => intro fuel' s fields h; simp [partsLoop] at h
  | succ n ih =>
    intro fuel' s fields h
    cases fuel' with
    | zero => intro f n c r hc; simp [partsLoop] at hc
    | succ m =>
      rw [partsLoop] at h ⊢
      exact partsStep_invalid_ext b q _ _ s fields (fun s' f' hi => ih m s' f' hi)
        (fun f' => partsLoop_nil b n f') h

/-- a failed `try_parse` does not become a success when more data is appended -/
theorem tryParse_invalid_ext (b p q : Bytes) (h : tryParse b p = .invalid) :
    ∀ f n c s, tryParse b (p ++ q) ≠ .parsed f n c s := by
  unfold tryParse at h ⊢
  cases hf : firstLines b p with
  | inl r =>
    rw [hf] at h
    simp only at h
    subst h
    rw [firstLines_invalid_append q hf]
    intro f n c s hc; cases hc
  | inr slice =>
    obtain ⟨hfa, _⟩ := firstLines_slice_append q hf
    rw [hfa]
    rw [hf] at h
    simp only at h ⊢
    have hinv : partsLoop b (slice.length + 1) slice [] = .invalid := by
      cases hpl : partsLoop b (slice.length + 1) slice [] with
      | needMore => rw [hpl] at h; cases h
      | invalid => rfl
      | parsed _ _ _ _ => rw [hpl] at h; cases h
    have := partsLoop_invalid_ext b q _ ((slice ++ q).length + 1) slice [] hinv
    intro f n c s hc
    cases hpl : partsLoop b ((slice ++ q).length + 1) (slice ++ q) [] with
    | needMore => rw [hpl] at hc; cases hc
    | invalid => rw [hpl] at hc; cases hc
    | parsed f' n' c' r' => exact this f' n' c' r' hpl

end S3V.Multipart
