import S3V.Model.MultipartObs
import S3V.Thm.MultipartFile
import S3V.Thm.MultipartSpec
import S3V.Thm.MultipartParse2
/-!
# Lemmas: the accumulate-and-reparse loop followed by the file stream = single-frame semantics (C09d)
-/
namespace S3V.Multipart
open S3V S3V.MultipartSpec

theorem tryParse_nil (b : Bytes) : tryParse b [] = .needMore := by
  simp [tryParse, firstLines, nextTerminatedLine, nextLine, splitCrlf]

theorem tryParse_start_le {b p : Bytes} {f : List (Bytes × Bytes)} {n c : Bytes} {s : Nat}
    (h : tryParse b p = .parsed f n c s) : s ≤ p.length := by
  unfold tryParse at h
  cases hf : firstLines b p with
  | inl r =>
    rw [hf] at h
    simp only at h
    rcases firstLines_inl hf with hr | hr <;> (subst hr; cases h)
  | inr slice =>
    rw [hf] at h
    simp only at h
    cases hpl : partsLoop b (slice.length + 1) slice [] with
    | needMore => rw [hpl] at h; cases h
    | invalid => rw [hpl] at h; cases h
    | parsed f' n' c' r' =>
      rw [hpl] at h
      simp only [Result.parsed.injEq] at h
      omega

/-- the accumulate loop, started on a buffer that still needs data, succeeds exactly when the one-shot
    parse of all the data succeeds, with the same form, and hands the file stream the same bytes -/
theorem accumulate_parsed (b : Bytes) : ∀ (frames : List Frame) (buf : Bytes),
    tryParse b buf = .needMore →
    ∀ f n c start, tryParse b (buf ++ dataBeforeError frames) = .parsed f n c start →
    ∃ rest fs, accumulate b buf frames = .parsed f n c rest fs ∧
      rest ++ dataBeforeError fs = (buf ++ dataBeforeError frames).drop start ∧
      hasError fs = hasError frames
  | [], buf, h0, f, n, c, start, h => by
    simp only [dataBeforeError, List.append_nil] at h
    rw [h0] at h; cases h
  | none :: _, buf, h0, f, n, c, start, h => by
    simp only [dataBeforeError, List.append_nil] at h
    rw [h0] at h; cases h
  | some fr :: fs, buf, h0, f, n, c, start, h => by
    have hD : buf ++ dataBeforeError (some fr :: fs) = (buf ++ fr) ++ dataBeforeError fs := by
      simp [dataBeforeError]
    rw [hD] at h ⊢
    rw [accumulate]
    cases ht : tryParse b (buf ++ fr) with
    | needMore =>
      simp only
      obtain ⟨rest, fs', h1, h2, h3⟩ := accumulate_parsed b fs (buf ++ fr) ht f n c start h
      exact ⟨rest, fs', h1, h2, by simp [hasError, h3]⟩
    | invalid =>
      exact absurd h (tryParse_invalid_ext b (buf ++ fr) (dataBeforeError fs) ht f n c start)
    | parsed f' n' c' s' =>
      have hst := tryParse_append b (buf ++ fr) (dataBeforeError fs) (by rw [ht]; rfl)
        (Or.inl ⟨f', n', c', s', ht⟩)
      rw [h, ht] at hst
      simp only [Result.parsed.injEq] at hst
      obtain ⟨rfl, rfl, rfl, rfl⟩ := hst
      refine ⟨(buf ++ fr).drop start, fs, rfl, ?_, by simp [hasError]⟩
      rw [List.drop_append_of_le_length (tryParse_start_le ht)]

theorem accumulate_failed (b : Bytes) : ∀ (frames : List Frame) (buf : Bytes),
    tryParse b buf = .needMore →
    (∀ f n c start, tryParse b (buf ++ dataBeforeError frames) ≠ .parsed f n c start) →
    accumulate b buf frames = .invalidFormat ∨ accumulate b buf frames = .underlying
  | [], buf, _, _ => Or.inl rfl
  | none :: _, buf, _, _ => Or.inr rfl
  | some fr :: fs, buf, h0, h => by
    have hD : buf ++ dataBeforeError (some fr :: fs) = (buf ++ fr) ++ dataBeforeError fs := by
      simp [dataBeforeError]
    rw [hD] at h
    rw [accumulate]
    cases ht : tryParse b (buf ++ fr) with
    | needMore => exact accumulate_failed b fs (buf ++ fr) ht h
    | invalid => exact Or.inl rfl
    | parsed f' n' c' s' =>
      have hst := tryParse_append b (buf ++ fr) (dataBeforeError fs) (by rw [ht]; rfl)
        (Or.inl ⟨f', n', c', s', ht⟩)
      rw [ht] at hst
      exact absurd hst (h f' n' c' s')

theorem accumulate_no_underlying (b : Bytes) : ∀ (frames : List Frame) (buf : Bytes),
    hasError frames = false → accumulate b buf frames ≠ .underlying
  | [], _, _ => by simp [accumulate]
  | none :: _, _, h => by simp [hasError] at h
  | some fr :: fs, buf, h => by
    rw [accumulate]
    cases tryParse b (buf ++ fr) with
    | needMore => exact accumulate_no_underlying b fs (buf ++ fr) (by simpa [hasError] using h)
    | invalid => simp
    | parsed _ _ _ _ => simp

/-- C09d: the whole run, observed, is the single-frame semantics of the data before the first error -/
theorem run_spec (b : Bytes) (frames : List Frame) :
    observe (run b frames) = specOutcome (oneShot b) b (dataBeforeError frames) (hasError frames) := by
  unfold run specOutcome oneShot
  cases ht : tryParse b (dataBeforeError frames) with
  | parsed f n c start =>
    obtain ⟨rest, fs, h1, h2, h3⟩ :=
      accumulate_parsed b frames [] (tryParse_nil b) f n c start (by simpa using ht)
    rw [h1]
    have hfs := fileStream_spec b rest fs
    simp only [Refines, List.nil_append] at hfs h2
    rw [h2, h3] at hfs
    simp only [observe]
    have hpat : crlfPat b = 13 :: 10 :: 45 :: 45 :: b := rfl
    rw [← hpat, ← hfs]
    cases (fileStream b rest fs).2 <;> rfl
  | needMore =>
    have := accumulate_failed b frames [] (tryParse_nil b)
      (by intro f n c s h; simp only [List.nil_append] at h; rw [ht] at h; cases h)
    rcases this with h | h <;> rw [h] <;> rfl
  | invalid =>
    have := accumulate_failed b frames [] (tryParse_nil b)
      (by intro f n c s h; simp only [List.nil_append] at h; rw [ht] at h; cases h)
    rcases this with h | h <;> rw [h] <;> rfl

theorem dataBeforeError_map_some (l : List Bytes) : dataBeforeError (l.map some) = l.flatten := by
  induction l with
  | nil => rfl
  | cons a l ih => simp [dataBeforeError, ih]

theorem hasError_map_some (l : List Bytes) : hasError (l.map some) = false := by
  induction l with
  | nil => rfl
  | cons a l ih => simp [hasError, ih]

/-- without transport errors the run never ends `underlying` at the parse stage -/
theorem run_form_none_terminal (b : Bytes) (frames : List Frame) (he : hasError frames = false)
    (h : (run b frames).form = none) : (run b frames).terminal = .invalidFormat := by
  unfold run at h ⊢
  cases ha : accumulate b [] frames with
  | invalidFormat => rfl
  | underlying => exact absurd ha (accumulate_no_underlying b frames [] he)
  | parsed _ _ _ _ _ => rw [ha] at h; simp at h

theorem run_form_some_terminal (b : Bytes) (frames : List Frame) {f}
    (h : (run b frames).form = some f) : (run b frames).terminal ≠ .invalidFormat := by
  unfold run at h ⊢
  cases ha : accumulate b [] frames with
  | invalidFormat => rw [ha] at h; simp at h
  | underlying => rw [ha] at h; simp at h
  | parsed _ _ _ rest fs =>
    simp only
    cases (fileStream b rest fs).2 <;> simp [FTerm.toTerminal]

theorem run_form_none_chunks (b : Bytes) (frames : List Frame)
    (h : (run b frames).form = none) : (run b frames).chunks = [] := by
  unfold run at h ⊢
  cases ha : accumulate b [] frames with
  | invalidFormat => rfl
  | underlying => rfl
  | parsed _ _ _ _ _ => rw [ha] at h; simp at h

theorem Terminal.toEnd_injective {a c : Terminal} (h : a.toEnd = c.toEnd) : a = c := by
  cases a <;> cases c <;> simp [Terminal.toEnd] at h ⊢

end S3V.Multipart
