import S3V.Thm.XmlEscape
/-!
The tokeniser reads back what the writer wrote: `deEvents (tokenize (write evs)) = evs` for well-nested event
sequences with element names made of name bytes, attributes ` key="value"` with such names as keys and `"`-free
values (the `xmlns` attribute; since 680006e also `SerializeContent::attributes`), and `<`-free non-empty texts that
are not adjacent and — outside every element — white space only (the deserialiser refuses other character data
there) — in particular for everything the encoder produces (`XmlTokenEnc.lean`).
-/
namespace S3V.Xml
open S3V

/-! ### bytes -/

/-- bytes an element name of the tables is made of: ASCII letters, digits, `:` `_` `-` `.` -/
def isNameByte (c : UInt8) : Bool :=
  (48 ≤ c.toNat && c.toNat ≤ 57) || (65 ≤ c.toNat && c.toNat ≤ 90) || (97 ≤ c.toNat && c.toNat ≤ 122) ||
  c = 58 || c = 95 || c = 45 || c = 46

def goodName (n : Bytes) : Bool := !n.isEmpty && n.all isNameByte

theorem isNameByte_facts {c : UInt8} (h : isNameByte c = true) :
    c ≠ cGt ∧ c ≠ cApos ∧ c ≠ cQuot ∧ c ≠ cLt ∧ c ≠ 33 ∧ c ≠ 47 ∧ c ≠ 63 ∧ isWs c = false := by
  refine ⟨?_, ?_, ?_, ?_, ?_, ?_, ?_, ?_⟩
  all_goals first
    | (intro hc; subst hc; revert h; decide)
    | (cases hw : isWs c with
       | false => rfl
       | true =>
         simp only [isWs, Bool.or_eq_true, decide_eq_true_eq] at hw
         rcases hw with ((hw | hw) | hw) | hw <;> (subst hw; revert h; decide))

/-- the attribute bytes of a start tag: ` key="value"` for every pair (`BytesStart::push_attribute`) -/
def attrsOf (ps : List (Bytes × Bytes)) : Bytes := ps.flatMap fun kv => attrSeg kv.1 kv.2

/-- what may follow the name in a start tag the serialiser writes: attributes whose keys are made of name bytes and
whose values hold no `"` (the ` xmlns="…"` of an operation output; the attributes of a value, `attr_value`) -/
def GoodRest (r : Bytes) : Prop :=
  ∃ ps : List (Bytes × Bytes), r = attrsOf ps ∧ (∀ kv ∈ ps, goodName kv.1 = true ∧ ∀ c ∈ kv.2, c ≠ cQuot) ∧
    (ps.map (·.1)).Nodup

theorem GoodRest.nil : GoodRest [] := ⟨[], rfl, fun _ h => by simp at h, by simp⟩

theorem splitAtByte_hit (x : UInt8) : ∀ (raw r : Bytes), (∀ c ∈ raw, c ≠ x) → splitAtByte x (raw ++ x :: r) = some (raw, r)
  | [], r, _ => by simp [splitAtByte]
  | b :: bs, r, h => by
    have hb : b ≠ x := h b (by simp)
    simp only [List.cons_append, splitAtByte, if_neg hb]
    rw [splitAtByte_hit x bs r (fun c hc => h c (by simp [hc]))]
    rfl

theorem splitAtByte_miss (x : UInt8) : ∀ (raw : Bytes), (∀ c ∈ raw, c ≠ x) → splitAtByte x raw = none
  | [], _ => rfl
  | b :: bs, h => by
    have hb : b ≠ x := h b (by simp)
    simp only [splitAtByte, if_neg hb]
    rw [splitAtByte_miss x bs (fun c hc => h c (by simp [hc]))]
    rfl

/-- outside quotes, bytes other than `>` `'` `"` are skipped -/
theorem elementEnd_plain : ∀ (p X : Bytes), (∀ c ∈ p, c ≠ cGt ∧ c ≠ cApos ∧ c ≠ cQuot) →
    elementEnd 0 (p ++ X) = (elementEnd 0 X).map fun (q, r) => (p ++ q, r)
  | [], X, _ => by
    cases h : elementEnd 0 X with
    | none => simp [h]
    | some pr => simp [h]
  | b :: bs, X, h => by
    obtain ⟨h1, h2, h3⟩ := h b (by simp)
    simp only [List.cons_append, elementEnd, if_true, if_neg h1, if_neg h2, if_neg h3]
    rw [elementEnd_plain bs X (fun c hc => h c (by simp [hc]))]
    cases elementEnd 0 X with
    | none => simp
    | some pr => simp

/-- inside double quotes everything up to the closing quote is skipped -/
theorem elementEnd_dq : ∀ (u X : Bytes), (∀ c ∈ u, c ≠ cQuot) →
    elementEnd 2 (u ++ cQuot :: X) = (elementEnd 0 X).map fun (q, r) => (u ++ cQuot :: q, r)
  | [], X, _ => by
    simp only [List.nil_append, elementEnd]
    simp
  | b :: bs, X, h => by
    have hb : b ≠ cQuot := h b (by simp)
    simp only [List.cons_append, elementEnd]
    simp only [show (2 : Nat) = 0 ↔ False by decide, show (2 : Nat) = 1 ↔ False by decide, if_false, if_neg hb]
    rw [elementEnd_dq bs X (fun c hc => h c (by simp [hc]))]
    cases elementEnd 0 X with
    | none => simp
    | some pr => simp

theorem elementEnd_gt (r : Bytes) : elementEnd 0 (cGt :: r) = some ([], r) := by simp [elementEnd]

theorem goodName_plain {n : Bytes} (h : goodName n = true) : ∀ c ∈ n, c ≠ cGt ∧ c ≠ cApos ∧ c ≠ cQuot := by
  intro c hc
  simp only [goodName, Bool.and_eq_true, List.all_eq_true] at h
  have := isNameByte_facts (h.2 c hc)
  exact ⟨this.1, this.2.1, this.2.2.1⟩

/-- attributes the serialiser wrote are skipped as a whole by the element parser (every `"` is closed again), and
they begin with a blank and end with a `"` -/
theorem GoodRest.shape {r : Bytes} (h : GoodRest r) :
    (∀ X, elementEnd 0 (r ++ X) = (elementEnd 0 X).map fun (q, w) => (r ++ q, w)) ∧
    (r = [] ∨ ∃ i, r = 32 :: (i ++ [cQuot])) := by
  obtain ⟨ps, hr, hps, -⟩ := h
  subst hr
  induction ps with
  | nil =>
    refine ⟨fun X => ?_, Or.inl rfl⟩
    cases h : elementEnd 0 X with
    | none => simp [attrsOf, h]
    | some pr => simp [attrsOf, h]
  | cons kv ps ih =>
    obtain ⟨ih1, ih2⟩ := ih (fun x hx => hps x (by simp [hx]))
    obtain ⟨hk, hv⟩ := hps kv (by simp)
    have hcons : attrsOf (kv :: ps) = attrSeg kv.1 kv.2 ++ attrsOf ps := by simp [attrsOf]
    constructor
    · intro X
      have hpre : ∀ c ∈ (32 :: kv.1 ++ [61] : Bytes), c ≠ cGt ∧ c ≠ cApos ∧ c ≠ cQuot := by
        intro c hc
        simp only [List.cons_append, List.mem_cons, List.mem_append, List.not_mem_nil, or_false] at hc
        rcases hc with hc | hc | hc
        · subst hc; decide
        · exact goodName_plain hk c hc
        · subst hc; decide
      have hsplit : attrsOf (kv :: ps) ++ X = (32 :: kv.1 ++ [61]) ++ (cQuot :: (kv.2 ++ cQuot :: (attrsOf ps ++ X))) := by
        simp [hcons, attrSeg, cQuot]
      have hq : ∀ Y, elementEnd 0 (cQuot :: Y) = (elementEnd 2 Y).map fun (p, r) => (cQuot :: p, r) := by
        intro Y; simp [elementEnd, cQuot, cGt, cApos]
      rw [hsplit, elementEnd_plain _ _ hpre, hq, elementEnd_dq kv.2 _ hv, ih1 X]
      cases h : elementEnd 0 X with
      | none => simp
      | some pr => simp [hcons, attrSeg, cQuot]
    · refine Or.inr ?_
      rcases ih2 with h0 | ⟨i, hi⟩
      · exact ⟨kv.1 ++ [61, 34] ++ kv.2, by simp [hcons, h0, attrSeg, cQuot]⟩
      · exact ⟨kv.1 ++ [61, 34] ++ kv.2 ++ [34] ++ 32 :: i, by simp [hcons, hi, attrSeg, cQuot]⟩

/-- the element parser finds the `>` that ends a start tag the serialiser wrote -/
theorem elementEnd_start {n r : Bytes} (w : Bytes) (hn : goodName n = true) (hr : GoodRest r) :
    elementEnd 0 (n ++ r ++ cGt :: w) = some (n ++ r, w) := by
  rw [List.append_assoc, elementEnd_plain n _ (goodName_plain hn), hr.shape.1, elementEnd_gt]
  simp


/-! ### one markup construct -/

theorem goodName_cons {n : Bytes} (h : goodName n = true) : ∃ c n', n = c :: n' ∧ isNameByte c = true := by
  cases n with
  | nil => simp [goodName] at h
  | cons c n' =>
    simp only [goodName, Bool.and_eq_true, List.all_eq_true] at h
    exact ⟨c, n', rfl, h.2 c (by simp)⟩

theorem goodName_last {n : Bytes} (h : goodName n = true) : ∃ i c, n = i ++ [c] ∧ isNameByte c = true := by
  simp only [goodName, Bool.and_eq_true, List.all_eq_true, Bool.not_eq_true', List.isEmpty_eq_false_iff] at h
  obtain ⟨hne, hall⟩ := h
  refine ⟨n.dropLast, n.getLast hne, (List.dropLast_concat_getLast hne).symm, hall _ (List.getLast_mem hne)⟩

/-- the last byte of the tag content is not `/` (so the tag is a `Start`, not an `Empty`) -/
theorem getLast_start {n r : Bytes} (hn : goodName n = true) (hr : GoodRest r) : (n ++ r).getLast? ≠ some 47 := by
  rcases hr.shape.2 with hr | ⟨i, hr⟩
  · subst hr
    obtain ⟨i, c, hic, hc⟩ := goodName_last hn
    rw [List.append_nil, hic, List.getLast?_append]
    simp only [List.getLast?_singleton, Option.some_or, ne_eq, Option.some.injEq]
    exact (isNameByte_facts hc).2.2.2.2.2.1
  · subst hr
    have : n ++ 32 :: (i ++ [cQuot]) = (n ++ 32 :: i) ++ [cQuot] := by simp
    rw [this, List.getLast?_append]
    simp [cQuot]

theorem takeWhile_all {p : UInt8 → Bool} : ∀ (l : Bytes), (∀ c ∈ l, p c = true) → l.takeWhile p = l
  | [], _ => rfl
  | c :: cs, h => by
    simp only [List.takeWhile, h c (by simp)]
    rw [takeWhile_all cs (fun x hx => h x (by simp [hx]))]

theorem takeWhile_name {n r : Bytes} (hn : goodName n = true) (hr : GoodRest r) : nameOf (n ++ r) = n := by
  have hall : ∀ c ∈ n, (!isWs c) = true := by
    intro c hc
    simp only [goodName, Bool.and_eq_true, List.all_eq_true] at hn
    simp [(isNameByte_facts (hn.2 c hc)).2.2.2.2.2.2.2]
  unfold nameOf
  rcases hr.shape.2 with hr | ⟨i, hr⟩
  · subst hr
    rw [List.append_nil]
    exact takeWhile_all n hall
  · subst hr
    rw [List.takeWhile_append_of_pos hall]
    simp [List.takeWhile, isWs]

theorem markup_start {n r : Bytes} (w : Bytes) (st : List Bytes) (hn : goodName n = true) (hr : GoodRest r) :
    markup (n ++ r ++ cGt :: w) st = some (.start n r, w, n :: st) := by
  have hee := elementEnd_start w hn hr
  have hgl := getLast_start hn hr
  have hnm := takeWhile_name hn hr
  obtain ⟨c, n', hcn, hc⟩ := goodName_cons hn
  have hf := isNameByte_facts hc
  subst hcn
  simp only [List.cons_append] at hee hgl hnm ⊢
  unfold markup
  split
  · rename_i heq; cases heq
  · rename_i heq; injection heq with h1 _; exact absurd h1 hf.2.2.2.2.1
  · rename_i heq; injection heq with h1 _; exact absurd h1 hf.2.2.2.2.2.1
  · rename_i heq; injection heq with h1 _; exact absurd h1 hf.2.2.2.2.2.2.1
  · simp only [hee]
    first
      | (split
         · rename_i heq; exact absurd heq hgl
         · simp only [hnm]; simp)
      | (simp only [hnm]; simp)

theorem trimEndWs_name {n : Bytes} (hn : goodName n = true) : trimEndWs n = n := by
  obtain ⟨i, c, hic, hc⟩ := goodName_last hn
  have hw := (isNameByte_facts hc).2.2.2.2.2.2.2
  subst hic
  simp [trimEndWs, List.dropWhile, hw]

theorem markup_stop {n : Bytes} (w : Bytes) (st : List Bytes) (hn : goodName n = true) :
    markup (47 :: n ++ cGt :: w) (n :: st) = some (.stop n, w, st) := by
  have hplain : ∀ c ∈ (47 :: n : Bytes), c ≠ cGt ∧ c ≠ cApos ∧ c ≠ cQuot := by
    intro c hc
    rcases List.mem_cons.mp hc with hc | hc
    · subst hc; decide
    · exact goodName_plain hn c hc
  have hee : elementEnd 0 (47 :: n ++ cGt :: w) = some (47 :: n, w) := by
    rw [elementEnd_plain _ _ hplain, elementEnd_gt]; simp
  simp only [List.cons_append] at hee
  have hnotws : n.all isWs = false := by
    obtain ⟨c, n', hcn, hc⟩ := goodName_cons hn
    subst hcn
    simp [(isNameByte_facts hc).2.2.2.2.2.2.2]
  unfold markup
  simp only [List.cons_append, hee, List.drop_succ_cons, List.drop_zero, hnotws, Bool.false_eq_true, if_false,
    trimEndWs_name hn, if_true]

/-! ### the loop -/

/-- one round of `tokLoop`: an optional `<`-free text, then one markup construct -/
theorem tokLoop_round (k : Nat) (raw X : Bytes) (st st' : List Bytes) (ev : QEv) (rest' : Bytes)
    (hraw : ∀ c ∈ raw, c ≠ cLt) (hm : markup X st = some (ev, rest', st')) :
    tokLoop (k + 1) (raw ++ cLt :: X) st = (if raw = [] then [] else [QEv.text raw]) ++ ev :: tokLoop k rest' st' := by
  simp only [tokLoop, splitAtByte_hit cLt raw X hraw, hm]

theorem tokLoop_end (k : Nat) (raw : Bytes) (st : List Bytes) (hraw : ∀ c ∈ raw, c ≠ cLt) :
    tokLoop (k + 1) raw st = (if raw = [] then [] else [QEv.text raw]) := by
  simp only [tokLoop, splitAtByte_miss cLt raw hraw]


/-! ### event sequences the writer can be given -/

def Ev.toQ : Ev → QEv
  | .start n r => .start n r
  | .stop n => .stop n
  | .text raw => .text raw
  | .cdata c => .cdata c
  | .bad _ => .err

def Ev.isTextB : Ev → Bool
  | .text _ => true
  | _ => false

/-- a text without `>` holds no `]]>` -/
theorem hasCdataEnd_of_noGt : ∀ (raw : Bytes), (∀ c ∈ raw, c ≠ cGt) → hasCdataEnd raw = false
  | [], _ => rfl
  | b :: bs, h => by
    have ih := hasCdataEnd_of_noGt bs (fun c hc => h c (by simp [hc]))
    have hs : startsWith [93, 93, 62] (b :: bs) = false := by
      cases hsw : startsWith [93, 93, 62] (b :: bs) with
      | false => rfl
      | true =>
        simp only [startsWith, beq_iff_eq] at hsw
        have hmem : (62 : UInt8) ∈ List.take 3 (b :: bs) := by
          have : List.take [93, 93, 62].length (b :: bs) = [93, 93, 62] := hsw
          simp only [List.length_cons, List.length_nil] at this
          rw [this]; simp
        exact absurd rfl (h 62 (List.mem_of_mem_take hmem))
    simp [hasCdataEnd, hs, ih]

/-- `headNotText t`: `t` is empty or begins with a tag -/
def headNotText : List Ev → Bool
  | [] => true
  | e :: _ => !e.isTextB

/-- well-nested w.r.t. the stack of open element names; names are good, attributes at most the `xmlns` one, texts are
non-empty, free of `<` and of `]]>` (since the repair of `xml-illformed-accepted:cdata-end` the deserialiser refuses a
text with `]]>`) and followed by a tag (never by another text); a text outside every element (empty stack) is white
space -/
def WN : List Bytes → List Ev → Prop
  | _, [] => True
  | st, .start n r :: t => goodName n = true ∧ GoodRest r ∧ WN (n :: st) t
  | st, .stop n :: t => goodName n = true ∧ (∃ st', st = n :: st' ∧ WN st' t)
  | st, .text raw :: t =>
    ((st ≠ [] ∨ raw.all isWs = true) ∧ hasCdataEnd raw = false) ∧ raw ≠ [] ∧ (∀ c ∈ raw, c ≠ cLt) ∧
      headNotText t = true ∧ WN st t
  | _, .cdata _ :: _ => False     -- the serialiser never writes a CDATA section
  | _, .bad _ :: _ => False

theorem write_cons (e : Ev) (t : List Ev) : write (e :: t) = writeEv e ++ write t := by simp [write]

/-- the stack of open element names after a tag -/
def nextStack : Ev → List Bytes → List Bytes
  | .start n _, st => n :: st
  | .stop _, st => st.drop 1
  | _, st => st

/-- a tag event, possibly after a text, is read back in one round -/
theorem tokLoop_tag (k : Nat) (raw : Bytes) (hraw : ∀ c ∈ raw, c ≠ cLt) (e : Ev) (t : List Ev) (st : List Bytes)
    (he : e.isTextB = false) (hwn : WN st (e :: t)) :
    WN (nextStack e st) t ∧
      tokLoop (k + 1) (raw ++ write (e :: t)) st
        = (if raw = [] then [] else [QEv.text raw]) ++ e.toQ :: tokLoop k (write t) (nextStack e st) := by
  cases e with
  | text _ => simp [Ev.isTextB] at he
  | bad _ => simp [WN] at hwn
  | cdata _ => simp [WN] at hwn
  | start n r =>
    simp only [WN] at hwn
    refine ⟨hwn.2.2, ?_⟩
    have hm := markup_start (write t) st hwn.1 hwn.2.1
    have : raw ++ write (.start n r :: t) = raw ++ cLt :: (n ++ r ++ cGt :: write t) := by
      simp [write_cons, writeEv]
    rw [this, tokLoop_round k raw _ st (n :: st) _ _ hraw hm]
    rfl
  | stop n =>
    simp only [WN] at hwn
    obtain ⟨hn, st', hst, hwt⟩ := hwn
    subst hst
    refine ⟨hwt, ?_⟩
    have hm := markup_stop (write t) st' hn
    have : raw ++ write (.stop n :: t) = raw ++ cLt :: (47 :: n ++ cGt :: write t) := by
      simp [write_cons, writeEv]
    rw [this, tokLoop_round k raw _ (n :: st') st' _ _ hraw hm]
    rfl

theorem writeEv_length_pos (e : Ev) (st : List Bytes) (t : List Ev) (h : WN st (e :: t)) : 0 < (writeEv e).length := by
  cases e with
  | start n r => simp [writeEv]
  | stop n => simp [writeEv]
  | text raw =>
    simp only [WN] at h
    simp only [writeEv]
    exact List.length_pos_iff.mpr h.2.1
  | cdata _ => simp [WN] at h
  | bad _ => simp [WN] at h

/-- **the tokeniser reads back what the writer wrote** -/
theorem tokLoop_write : ∀ (evs : List Ev) (st : List Bytes) (fuel : Nat), WN st evs → (write evs).length < fuel →
    tokLoop fuel (write evs) st = evs.map Ev.toQ
  | [], st, fuel, _, hf => by
    cases fuel with
    | zero => simp at hf
    | succ k => simp [write, tokLoop, splitAtByte]
  | e :: t, st, fuel, hwn, hf => by
    cases fuel with
    | zero => simp at hf
    | succ k =>
      have hpos := writeEv_length_pos e st t hwn
      rw [write_cons, List.length_append] at hf
      cases hte : e.isTextB with
      | false =>
        obtain ⟨hwt, heq⟩ := tokLoop_tag k [] (by simp) e t st hte hwn
        simp only [List.nil_append, if_true] at heq
        rw [heq, tokLoop_write t _ k hwt (by omega)]
        rfl
      | true =>
        cases e with
        | start _ _ => simp [Ev.isTextB] at hte
        | stop _ => simp [Ev.isTextB] at hte
        | bad _ => simp [Ev.isTextB] at hte
        | cdata _ => simp [Ev.isTextB] at hte
        | text raw =>
          simp only [WN] at hwn
          obtain ⟨_, hne, hraw, hhead, hwt⟩ := hwn
          cases t with
          | nil =>
            have : write [Ev.text raw] = raw := by simp [write, writeEv]
            rw [this, tokLoop_end k raw st hraw]
            simp [hne, Ev.toQ]
          | cons e' t' =>
            have he' : e'.isTextB = false := by simpa [headNotText] using hhead
            obtain ⟨hwt', heq⟩ := tokLoop_tag k raw hraw e' t' st he' hwt
            have : write (Ev.text raw :: e' :: t') = raw ++ write (e' :: t') := by simp [write_cons, writeEv]
            rw [this, heq]
            -- the tail: the induction hypothesis for `e' :: t'`, peeled by one round
            have hlen : (write (e' :: t')).length < k + 1 := by
              simp only [writeEv] at hf hpos; omega
            have ih := tokLoop_write (e' :: t') st (k + 1) hwt hlen
            obtain ⟨_, heq2⟩ := tokLoop_tag k [] (by simp) e' t' st he' hwt
            simp only [List.nil_append, if_true] at heq2
            rw [heq2] at ih
            simp only [List.map_cons, List.cons.injEq, true_and] at ih
            simp [hne, ih, Ev.toQ]

/-- an attribute name the iterator reads back as written: not empty, no `=`, no white space -/
def keyPlain (k : Bytes) : Bool := !k.isEmpty && k.all (fun c => !(c = 61 || isWs c))


/-- one step of the iterator over ` key="value"` followed by anything -/
theorem attrNext_seg (k v rest : Bytes) (hk : keyPlain k = true) (hv : ∀ c ∈ v, c ≠ cQuot) :
    attrNext (attrSeg k v ++ rest) = some (some (k, v, rest)) := by
  cases k with
  | nil => simp [keyPlain] at hk
  | cons c0 kt =>
    simp only [keyPlain, List.isEmpty_cons, Bool.not_false, Bool.true_and, List.all_cons, Bool.and_eq_true,
      List.all_eq_true] at hk
    obtain ⟨hc0, hkt⟩ := hk
    have hws0 : isWs c0 = false := by
      cases hw : isWs c0 with
      | false => rfl
      | true => simp [hw] at hc0
    have hseg : attrSeg (c0 :: kt) v ++ rest = 32 :: c0 :: (kt ++ (61 :: 34 :: (v ++ 34 :: rest))) := by
      simp [attrSeg]
    have htw : (kt ++ (61 :: 34 :: (v ++ 34 :: rest))).takeWhile (fun c => !(c = 61 || isWs c)) = kt := by
      rw [List.takeWhile_append_of_pos (fun c hc => hkt c hc)]
      simp [List.takeWhile]
    have hsplit : splitAtByte 34 (v ++ 34 :: rest) = some (v, rest) := splitAtByte_hit 34 v rest hv
    rw [hseg]
    unfold attrNext
    have hdw : (32 :: c0 :: (kt ++ (61 :: 34 :: (v ++ 34 :: rest)))).dropWhile isWs
        = c0 :: (kt ++ (61 :: 34 :: (v ++ 34 :: rest))) := by
      rw [List.dropWhile_cons_of_pos (by decide), List.dropWhile_cons_of_neg (by simp [hws0])]
    rw [hdw]
    simp only [attrKeyTail, htw, List.drop_left']
    simp [attrAfterEq, attrQuoted, List.dropWhile, isWs, cQuot, hsplit]

theorem attrSeg_length_pos (k v : Bytes) : 0 < (attrSeg k v).length := by simp [attrSeg]


theorem goodName_keyPlain {k : Bytes} (h : goodName k = true) : keyPlain k = true := by
  simp only [goodName, Bool.and_eq_true, List.all_eq_true] at h
  simp only [keyPlain, Bool.and_eq_true, List.all_eq_true]
  refine ⟨h.1, fun c hc => ?_⟩
  have hn := h.2 c hc
  have hw := (isNameByte_facts hn).2.2.2.2.2.2.2
  have h61 : c ≠ 61 := by intro hc'; subst hc'; revert hn; decide
  simp [hw, h61]

/-- quick-xml's attribute iterator with the duplicate check on, over what `start_of` wrote: no error when the keys
are pairwise distinct (and differ from those seen before) -/
theorem attrsOk_written : ∀ (ps : List (Bytes × Bytes)) (fuel : Nat) (seen : List Bytes),
    (∀ kv ∈ ps, goodName kv.1 = true ∧ ∀ c ∈ kv.2, c ≠ cQuot) → (ps.map (·.1)).Nodup →
    (∀ kv ∈ ps, kv.1 ∉ seen) → attrsOk fuel (attrsOf ps) seen = true
  | _, 0, _, _, _, _ => by simp [attrsOk]
  | [], fuel + 1, seen, _, _, _ => by simp [attrsOf, attrsOk, attrNext]
  | kv :: ps, fuel + 1, seen, hok, hnd, hseen => by
    obtain ⟨hk, hv⟩ := hok kv (by simp)
    have hcons : attrsOf (kv :: ps) = attrSeg kv.1 kv.2 ++ attrsOf ps := by simp [attrsOf]
    rw [hcons]
    simp only [attrsOk, attrNext_seg kv.1 kv.2 _ (goodName_keyPlain hk) hv]
    have hns : seen.contains kv.1 = false := by
      have := hseen kv (by simp)
      simpa using this
    simp only [hns, Bool.false_eq_true, if_false]
    simp only [List.map_cons, List.nodup_cons] at hnd
    refine attrsOk_written ps fuel (kv.1 :: seen) (fun x hx => hok x (by simp [hx])) hnd.2 (fun x hx => ?_)
    simp only [List.mem_cons, not_or]
    refine ⟨fun he => hnd.1 (by rw [← he]; exact List.mem_map_of_mem hx), hseen x (by simp [hx])⟩

/-- `check_attributes` passes every start tag the serialiser writes -/
theorem startOk_of_goodRest {r : Bytes} (h : GoodRest r) : startOk r = true := by
  obtain ⟨ps, hr, hps, hnd⟩ := h
  subst hr
  exact attrsOk_written ps _ [] hps hnd (fun _ _ => by simp)

theorem deEvents_toQ : ∀ (evs : List Ev) (st : List Bytes), WN st evs → deEventsAt st.length (evs.map Ev.toQ) = evs
  | [], _, _ => by simp [deEventsAt]
  | .start n r :: t, st, h => by
    simp only [WN] at h
    have ih := deEvents_toQ t (n :: st) h.2.2
    simp only [List.length_cons] at ih
    simp [Ev.toQ, deEventsAt, ih, startOk_of_goodRest h.2.1]
  | .stop n :: t, st, h => by
    simp only [WN] at h
    obtain ⟨_, st', hst, hw⟩ := h
    subst hst
    have ih := deEvents_toQ t st' hw
    simp [Ev.toQ, deEventsAt, ih]
  | .text raw :: t, st, h => by
    simp only [WN] at h
    have ih := deEvents_toQ t st h.2.2.2.2
    have hcond : ¬ (st.length = 0 ∧ raw.all isWs = false) := by
      intro hc
      rcases h.1.1 with h1 | h1
      · exact h1 (List.length_eq_zero_iff.mp hc.1)
      · rw [h1] at hc; exact absurd hc.2 (by simp)
    simp only [List.map_cons, Ev.toQ, deEventsAt, if_neg hcond, h.1.2, Bool.false_eq_true, if_false, ih]
  | .cdata _ :: _, _, h => by simp [WN] at h
  | .bad _ :: _, _, h => by simp [WN] at h

/-- a written document does not start with a byte-order mark -/
theorem stripBom_write (e : Ev) (t : List Ev) (st : List Bytes) (he : e.isTextB = false) (h : WN st (e :: t)) :
    stripBom (write (e :: t)) = write (e :: t) := by
  cases e with
  | text _ => simp [Ev.isTextB] at he
  | bad _ => simp [WN] at h
  | cdata _ => simp [WN] at h
  | start n r => simp [write_cons, writeEv, stripBom, cLt]
  | stop n => simp [write_cons, writeEv, stripBom, cLt]

/-- `Deserializer` over the written bytes sees the events that were written -/
theorem tokenize_write (evs : List Ev) (hhead : headNotText evs = true) (h : WN [] evs) :
    deEvents (tokenize (write evs)) = evs := by
  unfold tokenize
  cases evs with
  | nil => simp [write, stripBom, tokLoop, splitAtByte, deEvents, deEventsAt]
  | cons e t =>
    have he : e.isTextB = false := by simpa [headNotText] using hhead
    rw [stripBom_write e t [] he h, tokLoop_write (e :: t) [] _ h (by omega)]
    exact deEvents_toQ (e :: t) [] h

end S3V.Xml
