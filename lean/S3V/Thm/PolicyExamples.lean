import S3V.Model.Policy
import S3V.Spec.Policy
/-!
# Concrete documents and values (for the non-vacuity `example`s and the counterexamples)

Strings are spelled as byte lists because string literals do not reduce in the kernel.
-/
namespace S3V.Policy.Ex
open S3V S3V.Policy

/-- `"s3:ListBucket"` -/
def sListBucket : Bytes := [115, 51, 58, 76, 105, 115, 116, 66, 117, 99, 107, 101, 116]
/-- `"s3:GetObject"` -/
def sGetObject : Bytes := [115, 51, 58, 71, 101, 116, 79, 98, 106, 101, 99, 116]
/-- `"arn:aws:s3:::example_bucket"` -/
def sArn : Bytes := [97, 114, 110, 58, 97, 119, 115, 58, 115, 51, 58, 58, 58, 101, 120, 97, 109, 112, 108, 101, 95, 98,
  117, 99, 107, 101, 116]
/-- `"AWS"` -/
def sAWS : Bytes := [65, 87, 83]
/-- `"arn:aws:iam::123456789012:root"` -/
def sRoot : Bytes := [97, 114, 110, 58, 97, 119, 115, 58, 105, 97, 109, 58, 58, 49, 50, 51, 52, 53, 54, 55, 56, 57, 48,
  49, 50, 58, 114, 111, 111, 116]
/-- `"Bool"` -/
def sBool : Bytes := [66, 111, 111, 108]
/-- `"aws:MultiFactorAuthPresent"` -/
def sMfa : Bytes := [97, 119, 115, 58, 77, 117, 108, 116, 105, 70, 97, 99, 116, 111, 114, 65, 117, 116, 104, 80, 114,
  101, 115, 101, 110, 116]
/-- `"true"` -/
def sTrue : Bytes := [116, 114, 117, 101]
/-- `"Permit"` -/
def sPermit : Bytes := [80, 101, 114, 109, 105, 116]
/-- `"2020-01-01"` -/
def s2020 : Bytes := [50, 48, 50, 48, 45, 48, 49, 45, 48, 49]

/-- a value using every optional part: principal map, one and many, a condition -/
def policyA : Policy :=
  { version := some .v2012_10_17, id := none,
    statement := .more [
      { sid := some sTrue, principal := some (.principal (.map [(sAWS, .more [sRoot])])), effect := .allow,
        action := .action (.one sGetObject), resource := .resource (.more [sArn]),
        condition := some [(sBool, [(sMfa, .one sTrue)])] },
      { sid := none, principal := some (.notPrincipal .wildcard), effect := .deny,
        action := .notAction .wildcard, resource := .notResource (.more []), condition := none }] }

/-- the smallest value that does not survive: `Action: One("*")` -/
def policyOneStar : Policy :=
  { version := none, id := none,
    statement := .one { sid := none, principal := none, effect := .allow, action := .action (.one nStar),
                        resource := .resource .wildcard, condition := none } }

/-- what it comes back as -/
def policyOneStarBack : Policy :=
  { version := none, id := none,
    statement := .one { sid := none, principal := none, effect := .allow, action := .action .wildcard,
                        resource := .resource .wildcard, condition := none } }

/-- `{"Effect":"Allow","Action":"s3:ListBucket","Resource":"arn:aws:s3:::example_bucket"}` plus `extra` -/
def stmtWith (effect : Json) (extra : List (Bytes × Json)) : Json :=
  .obj ([(kEffect, effect), (kAction, .str sListBucket), (kResource, .str sArn)] ++ extra)

/-- `example2_json` of `s3s-policy/src/tests.rs` -/
def doc2 : Json := .obj [(kVersion, .str n2012), (kStatement, stmtWith (.str nAllow) [])]

/-- the same with the action as a one-element list, members in another order and a foreign member -/
def doc2List : Json :=
  .obj [(kStatement, .arr [.obj [(kResource, .str sArn), (sAWS, .num [49]), (kAction, .arr [.str sListBucket]),
                                 (kEffect, .str nAllow)]]),
        (kVersion, .str n2012)]

/-! documents outside the grammar that are refused -/
def docUnknownEffect : Json := .obj [(kStatement, stmtWith (.str sPermit) [])]
def docUnknownVersion : Json := .obj [(kVersion, .str s2020), (kStatement, stmtWith (.str nAllow) [])]
def docNumberAction : Json :=
  .obj [(kStatement, .obj [(kEffect, .str nAllow), (kAction, .num [53]), (kResource, .str sArn)])]
def docObjectEffect : Json := .obj [(kStatement, stmtWith (.obj [(nAllow, .bool true)]) [])]
def docNoAction : Json := .obj [(kStatement, .obj [(kEffect, .str nAllow), (kResource, .str sArn)])]
def docTwoSids : Json := .obj [(kStatement, stmtWith (.str nAllow) [(kSid, .str sTrue), (kSid, .str sTrue)])]

/-! documents outside the grammar that were accepted before the repair of `Statement`'s reader (two
    action blocks; a malformed principal value) and are refused now -/
def docBothActions : Json := .obj [(kStatement, stmtWith (.str nAllow) [(kNotAction, .str sGetObject)])]
def docNumberPrincipal : Json := .obj [(kStatement, stmtWith (.str nAllow) [(kPrincipal, .num [53])])]
/-- `NotAction` first, then `Action`; `Resource` twice; `Principal` next to `NotPrincipal`; a principal
    that is a string other than `"*"`; `"Principal": null` -/
def docNotActionThenAction : Json :=
  .obj [(kStatement, .obj [(kEffect, .str nAllow), (kNotAction, .str sGetObject), (kAction, .str nStar),
                           (kResource, .str sArn)])]
def docResourceTwice : Json := .obj [(kStatement, stmtWith (.str nAllow) [(kResource, .str sArn)])]
def docBothPrincipals : Json :=
  .obj [(kStatement, stmtWith (.str nAllow) [(kPrincipal, .str nStar), (kNotPrincipal, .obj [(sAWS, .str sRoot)])])]
def docStringPrincipal : Json := .obj [(kStatement, stmtWith (.str nAllow) [(kPrincipal, .str sRoot)])]
def docNullPrincipal : Json := .obj [(kStatement, stmtWith (.str nAllow) [(kNotPrincipal, .null)])]

/-! `Effect` / `Version` written `{"<name>": null}`: accepted before the repair of their readers
    (`docEffectObjectForm` read like `doc2` without its version), refused now; `Deny` in the second
    statement of a list; both at once -/
def docEffectObjectForm : Json := .obj [(kStatement, stmtWith (.obj [(nAllow, .null)]) [])]
def docVersionObjectForm : Json := .obj [(kVersion, .obj [(n2012, .null)]), (kStatement, stmtWith (.str nAllow) [])]
def docEffectObjectFormInList : Json :=
  .obj [(kStatement, .arr [stmtWith (.str nAllow) [], stmtWith (.obj [(nDeny, .null)]) []])]
def docBothObjectForms : Json :=
  .obj [(kVersion, .obj [(n2008, .null)]), (kStatement, stmtWith (.obj [(nAllow, .null)]) [])]

/-! the policy written as an array `[version, id, statement]`: accepted before the repair of `Policy`'s
    reader (read like `doc2`), refused now; with a statement list, and with fewer / more elements -/
def docArrayForm : Json := .arr [.str n2012, .null, stmtWith (.str nAllow) []]
def docArrayFormList : Json := .arr [.null, .str sTrue, .arr [stmtWith (.str nAllow) []]]
def docArrayFormShort : Json := .arr [.str n2012, .null]
def docArrayFormLong : Json := .arr [.str n2012, .null, stmtWith (.str nAllow) [], .null]

/-- what the former witnesses were read as: `doc2` without / with its version -/
def policy2 (v : Option Version) : Policy :=
  { version := v, id := none,
    statement := .one { sid := none, principal := none, effect := .allow, action := .action (.one sListBucket),
                        resource := .resource (.one sArn), condition := none } }

end S3V.Policy.Ex
