import S3V.Thm.SigV2Order
import S3V.Spec.SigV2
/-!
# Lemmas: the string to sign of the model equals the string to sign of the specification (C11)

`implHeaders` / `implQs` say how a request as the specification sees it (`SigV2Spec.Req`) reaches
`create_string_to_sign`: the `http` crate stores header names in lower case, `OrderedHeaders` and
`OrderedQs` sort stably by name.
-/
namespace S3V.SigV2Thm
open S3V S3V.SigV2

/-- `HeaderMap` (lower-case names) → `OrderedHeaders::from_headers` -/
def implHeaders (r : SigV2Spec.Req) : Pairs :=
  sortByFirst (r.headers.map fun h => (SigV2Spec.lower h.1, h.2))

/-- `OrderedQs::parse` (the decoded pairs, sorted) -/
def implQs (r : SigV2Spec.Req) : Option Pairs := some (sortByFirst r.query)

def implMode : SigV2Spec.Mode → Mode
  | .header => .headerAuth
  | .query => .presignedUrl

/-- the model's string to sign for the request `r` -/
def stsImpl (mode : SigV2Spec.Mode) (r : SigV2Spec.Req) : Bytes :=
  stringToSign (implMode mode) r.method r.path (implQs r) (implHeaders r) r.vhBucket

/-- the specification's -/
def stsSpec (mode : SigV2Spec.Mode) (r : SigV2Spec.Req) : Bytes := SigV2Spec.stringToSign mode r

/-! ## look-ups -/

theorem getAll_implHeaders (r : SigV2Spec.Req) (n : Bytes) :
    getAll (implHeaders r) n = SigV2Spec.fieldValues r n := by
  unfold implHeaders SigV2Spec.fieldValues
  rw [getAll_sortByFirst, List.filter_map, List.map_map]
  rfl

theorem getUnique_implHeaders (r : SigV2Spec.Req) (n : Bytes) :
    getUnique (implHeaders r) n = theOnly (SigV2Spec.fieldValues r n) := by
  unfold implHeaders SigV2Spec.fieldValues
  rw [getUnique_sortByFirst, List.filter_map, List.map_map]
  rfl

theorem getAll_query (r : SigV2Spec.Req) (n : Bytes) :
    getAll (sortByFirst r.query) n = SigV2Spec.paramValues r n := by
  unfold SigV2Spec.paramValues
  rw [getAll_sortByFirst]

theorem getUnique_query (r : SigV2Spec.Req) (n : Bytes) :
    getUnique (sortByFirst r.query) n = theOnly (SigV2Spec.paramValues r n) := by
  unfold SigV2Spec.paramValues
  rw [getUnique_sortByFirst]

theorem commaJoin_single (v : Bytes) : SigV2Spec.commaJoin [v] = v := by
  simp [SigV2Spec.commaJoin]

theorem joinValues_eq (vs : List Bytes) : joinValues vs = SigV2Spec.commaJoin vs := by
  cases vs <;> rfl

/-- a positional header, however often it occurs: the comma-joined field of the document -/
theorem positional_eq (r : SigV2Spec.Req) (n : Bytes) :
    joinValues (getAll (implHeaders r) n) = SigV2Spec.positional r n := by
  rw [getAll_implHeaders, joinValues_eq]
  rfl

/-! ## CanonicalizedAmzHeaders -/

theorem startsWith_eq (p s : Bytes) : startsWith p s = SigV2Spec.isPrefixOf p s := by
  unfold startsWith
  induction p generalizing s with
  | nil => cases s <;> simp [stripPrefix, SigV2Spec.isPrefixOf]
  | cons a as ih =>
    cases s with
    | nil => simp [stripPrefix, SigV2Spec.isPrefixOf]
    | cons c cs =>
      simp only [stripPrefix, SigV2Spec.isPrefixOf]
      by_cases hac : a = c
      · simp [hac, ih]
      · simp [hac]

/-- names in the order of first occurrence, a run of equal names counted once; `last` as in the loop -/
def dedupFrom : Bytes → List Bytes → List Bytes
  | _, [] => []
  | last, n :: rest => if n = last then dedupFrom last rest else n :: dedupFrom n rest

def implLine (all : Pairs) (n : Bytes) : Bytes := n ++ 58 :: joinTrimmed (getAll all n) ++ [10]

theorem amzLoop_eq (all : Pairs) (l : Pairs) (last : Bytes) :
    amzLoop all l last =
      (dedupFrom last ((l.map (·.1)).filter SigV2Spec.isAmzName)).flatMap (implLine all) := by
  induction l generalizing last with
  | nil => simp [amzLoop, dedupFrom]
  | cons x xs ih =>
    obtain ⟨name, v⟩ := x
    simp only [amzLoop, List.map_cons, List.filter_cons]
    have hs : startsWith (v2b!"x-amz-") name = SigV2Spec.isAmzName name := startsWith_eq _ _
    rw [hs]
    by_cases ha : SigV2Spec.isAmzName name = true
    · simp only [ha, Bool.not_true, Bool.false_eq_true, if_false, if_true, dedupFrom]
      by_cases hl : name = last
      · subst hl; simp only [if_true]; exact ih name
      · simp only [hl, if_false, List.flatMap_cons, implLine]
        rw [ih]
        simp [List.append_assoc]
    · have ha' : SigV2Spec.isAmzName name = false := by simpa using ha
      simp only [ha', Bool.not_false, if_true, Bool.false_eq_true, if_false]
      exact ih last

/-! ### the names: sorted, each once -/

theorem bLt_eq_nameLt (a b : Bytes) : bLt a b = SigV2Spec.nameLt a b := by
  induction a generalizing b with
  | nil => cases b <;> rfl
  | cons x xs ih => cases b with
    | nil => rfl
    | cons y ys => simp only [bLt, SigV2Spec.nameLt, ih]

theorem map_fst_insertByFirst (x : Bytes × Bytes) (l : Pairs) :
    (insertByFirst x l).map (·.1) = SigV2Spec.insertName x.1 (l.map (·.1)) := by
  induction l with
  | nil => rfl
  | cons y ys ih =>
    simp only [insertByFirst, List.map_cons, SigV2Spec.insertName, ← bLt_eq_nameLt]
    split
    · simp [ih]
    · simp

theorem map_fst_sortByFirst (l : Pairs) :
    (sortByFirst l).map (·.1) = SigV2Spec.sortNames (l.map (·.1)) := by
  induction l with
  | nil => rfl
  | cons x xs ih => simp only [sortByFirst, List.map_cons, SigV2Spec.sortNames, map_fst_insertByFirst, ih]

/-- ascending list of names -/
def SortedN (l : List Bytes) : Prop := l.Pairwise fun a b => bLt b a = false

theorem mem_insertName {x y : Bytes} {l : List Bytes} : y ∈ SigV2Spec.insertName x l ↔ y = x ∨ y ∈ l := by
  induction l with
  | nil => simp [SigV2Spec.insertName]
  | cons z zs ih =>
    simp only [SigV2Spec.insertName]
    split
    · simp only [List.mem_cons, ih]
      constructor
      · rintro (h | h | h)
        · exact .inr (.inl h)
        · exact .inl h
        · exact .inr (.inr h)
      · rintro (h | h | h)
        · exact .inr (.inl h)
        · exact .inl h
        · exact .inr (.inr h)
    · simp

theorem sortedN_insertName {x : Bytes} {l : List Bytes} (h : SortedN l) : SortedN (SigV2Spec.insertName x l) := by
  induction l with
  | nil => simp [SigV2Spec.insertName, SortedN]
  | cons z zs ih =>
    unfold SortedN at h ih ⊢
    rw [List.pairwise_cons] at h
    simp only [SigV2Spec.insertName, ← bLt_eq_nameLt]
    by_cases hz : bLt z x = true
    · simp only [hz, if_true]
      rw [List.pairwise_cons]
      refine ⟨?_, ih h.2⟩
      intro y hy
      rcases mem_insertName.mp hy with rfl | hy
      · exact bLt_asymm hz
      · exact h.1 y hy
    · have hz' : bLt z x = false := by simpa using hz
      simp only [hz', Bool.false_eq_true, if_false]
      rw [List.pairwise_cons, List.pairwise_cons]
      refine ⟨?_, h⟩
      intro y hy
      rcases List.mem_cons.mp hy with rfl | hy
      · exact hz'
      · exact bLe_trans hz' (h.1 y hy)

theorem sortedN_sortNames (l : List Bytes) : SortedN (SigV2Spec.sortNames l) := by
  induction l with
  | nil => simp [SigV2Spec.sortNames, SortedN]
  | cons x xs ih => exact sortedN_insertName ih

theorem insertName_of_le (x : Bytes) (l : List Bytes) (h : ∀ z ∈ l, bLt z x = false) :
    SigV2Spec.insertName x l = x :: l := by
  cases l with
  | nil => rfl
  | cons z zs => simp [SigV2Spec.insertName, ← bLt_eq_nameLt, h z (by simp)]

/-- selecting commutes with inserting into a sorted list -/
theorem filter_insertName (p : Bytes → Bool) (x : Bytes) {l : List Bytes} (h : SortedN l) :
    (SigV2Spec.insertName x l).filter p = if p x then SigV2Spec.insertName x (l.filter p) else l.filter p := by
  induction l with
  | nil => by_cases hx : p x <;> simp [SigV2Spec.insertName, hx]
  | cons y ys ih =>
    unfold SortedN at h ih
    rw [List.pairwise_cons] at h
    simp only [SigV2Spec.insertName, ← bLt_eq_nameLt]
    by_cases hy : bLt y x = true
    · simp only [hy, if_true, List.filter_cons]
      rw [ih h.2]
      by_cases hpy : p y = true <;> by_cases hpx : p x = true <;>
        simp [hpy, hpx, SigV2Spec.insertName, ← bLt_eq_nameLt, hy]
    · have hy' : bLt y x = false := by simpa using hy
      simp only [hy', Bool.false_eq_true, if_false]
      by_cases hpx : p x = true
      · simp only [List.filter_cons, hpx, if_true]
        by_cases hpy : p y = true
        · simp [hpy, SigV2Spec.insertName, ← bLt_eq_nameLt, hy']
        · simp only [hpy, Bool.false_eq_true, if_false]
          rw [insertName_of_le]
          intro z hz
          exact bLe_trans hy' (h.1 z (List.mem_filter.mp hz).1)
      · simp [List.filter_cons, hpx]

theorem filter_sortNames (p : Bytes → Bool) (l : List Bytes) :
    (SigV2Spec.sortNames l).filter p = SigV2Spec.sortNames (l.filter p) := by
  induction l with
  | nil => rfl
  | cons x xs ih =>
    simp only [SigV2Spec.sortNames, List.filter_cons]
    rw [filter_insertName p x (sortedN_sortNames xs), ih]
    by_cases hx : p x = true <;> simp [hx, SigV2Spec.sortNames]

theorem head?_mergeEqual (x : Bytes) (l : List Bytes) : (SigV2Spec.mergeEqual (x :: l)).head? = some x := by
  induction l generalizing x with
  | nil => rfl
  | cons y ys ih =>
    simp only [SigV2Spec.mergeEqual]
    split
    · rename_i h; rw [h]; exact ih y
    · rfl

theorem dedupFrom_eq (l : List Bytes) (last : Bytes) :
    dedupFrom last l =
      if l.head? = some last then (SigV2Spec.mergeEqual l).tail else SigV2Spec.mergeEqual l := by
  induction l generalizing last with
  | nil => simp [dedupFrom, SigV2Spec.mergeEqual]
  | cons x xs ih =>
    simp only [dedupFrom, List.head?_cons, Option.some.injEq]
    by_cases hx : x = last
    · subst hx
      simp only [if_true]
      rw [ih]
      cases xs with
      | nil => simp [SigV2Spec.mergeEqual]
      | cons y ys =>
        simp only [List.head?_cons, Option.some.injEq, SigV2Spec.mergeEqual]
        by_cases hy : y = x
        · subst hy; simp
        · have : ¬ x = y := fun e => hy e.symm
          simp [hy, this]
    · simp only [hx, if_false]
      rw [ih]
      cases xs with
      | nil => simp [SigV2Spec.mergeEqual]
      | cons y ys =>
        simp only [List.head?_cons, Option.some.injEq, SigV2Spec.mergeEqual]
        by_cases hy : y = x
        · subst hy
          simp only [if_true]
          have := head?_mergeEqual y ys
          cases hm : SigV2Spec.mergeEqual (y :: ys) with
          | nil => rw [hm] at this; cases this
          | cons a as => rw [hm] at this; simp at this; simp [this]
        · have : ¬ x = y := fun e => hy e.symm
          simp [hy, this]

theorem isAmzName_nil : SigV2Spec.isAmzName [] = false := by decide

/-- the names the loop writes are the specification's `amzNames` -/
theorem dedup_names_eq (r : SigV2Spec.Req) :
    dedupFrom [] (((implHeaders r).map (·.1)).filter SigV2Spec.isAmzName) = SigV2Spec.amzNames r := by
  unfold implHeaders SigV2Spec.amzNames
  rw [map_fst_sortByFirst, List.map_map, filter_sortNames, dedupFrom_eq]
  have hfun : ((fun x : Bytes × Bytes => x.1) ∘ fun h : Bytes × Bytes => (SigV2Spec.lower h.1, h.2)) =
      fun h => SigV2Spec.lower h.1 := rfl
  rw [hfun]
  split
  · rename_i hh
    -- the head would be the empty name, which is not an x-amz- name
    exfalso
    generalize hM : (List.map (fun h : Bytes × Bytes => SigV2Spec.lower h.1) r.headers).filter SigV2Spec.isAmzName = M at hh
    have hmem : ([] : Bytes) ∈ SigV2Spec.sortNames M := by
      cases hs : SigV2Spec.sortNames M with
      | nil => rw [hs] at hh; cases hh
      | cons a as => rw [hs] at hh; simp at hh; simp [hh]
    have hmem' : ([] : Bytes) ∈ M := by
      clear hh hM
      induction M with
      | nil => simp [SigV2Spec.sortNames] at hmem
      | cons m ms ih =>
        simp only [SigV2Spec.sortNames] at hmem
        rcases mem_insertName.mp hmem with h | h
        · simp [h]
        · exact List.mem_cons_of_mem _ (ih h)
    rw [← hM] at hmem'
    have := (List.mem_filter.mp hmem').2
    rw [isAmzName_nil] at this; cases this
  · rfl

/-! ### the values -/

theorem flatMap_congr_mem {α β} (f g : α → List β) (l : List α) (h : ∀ a ∈ l, f a = g a) :
    l.flatMap f = l.flatMap g := by
  induction l with
  | nil => rfl
  | cons a as ih =>
    simp only [List.flatMap_cons, h a (by simp)]
    rw [ih fun b hb => h b (by simp [hb])]

theorem dropWhile_congr_mem {α} (p q : α → Bool) (l : List α) (h : ∀ a ∈ l, p a = q a) :
    l.dropWhile p = l.dropWhile q := by
  induction l with
  | nil => rfl
  | cons a as ih =>
    simp only [List.dropWhile_cons, h a (by simp)]
    split
    · exact ih fun b hb => h b (by simp [hb])
    · rfl

/-- `str::trim` and trimming SP/HTAB agree on a `to_str`-able value -/
theorem trim_eq_trimOws (v : Bytes) (h : v.all isVisibleAscii = true) : trim v = SigV2Spec.trimOws v := by
  have hp : ∀ c ∈ v, isTrimWs c = SigV2Spec.isOws c := by
    intro c hc
    have := List.all_eq_true.mp h c hc
    unfold isVisibleAscii at this
    unfold isTrimWs SigV2Spec.isOws
    by_cases h9 : c = 9
    · subst h9; decide
    · have h9' : c.toNat ≠ 9 := fun e => h9 (UInt8.toNat_inj.mp (by simpa using e))
      simp only [h9, decide_false, Bool.or_false, Bool.and_eq_true, decide_eq_true_eq] at this
      have h1 : ¬ (9 ≤ c.toNat ∧ c.toNat ≤ 13) := by omega
      simp [h9, h1]
  unfold trim SigV2Spec.trimOws
  rw [dropWhile_congr_mem _ _ v hp]
  congr 1
  apply dropWhile_congr_mem
  intro c hc
  exact hp c ((List.dropWhile_sublist _).subset (List.mem_reverse.mp hc))

theorem joinTrimmed_eq (vs : List Bytes) (h : ∀ v ∈ vs, v.all isVisibleAscii = true) :
    joinTrimmed vs = SigV2Spec.commaJoin (vs.map SigV2Spec.trimOws) := by
  cases vs with
  | nil => rfl
  | cons v ws =>
    simp only [joinTrimmed, List.map_cons, SigV2Spec.commaJoin, List.flatMap_map]
    rw [trim_eq_trimOws v (h v (by simp))]
    congr 1
    apply flatMap_congr_mem
    intro w hw
    rw [trim_eq_trimOws w (h w (by simp [hw]))]

/-- every header value is a string for `HeaderValue::to_str` (otherwise the request is refused with
    `InvalidRequest` before any signature code runs) -/
def valuesVisible (r : SigV2Spec.Req) : Bool := r.headers.all fun h => h.2.all isVisibleAscii

theorem fieldValues_visible (r : SigV2Spec.Req) (h : valuesVisible r = true) (n : Bytes) :
    ∀ v ∈ SigV2Spec.fieldValues r n, v.all isVisibleAscii = true := by
  intro v hv
  unfold SigV2Spec.fieldValues at hv
  obtain ⟨x, hx, rfl⟩ := List.mem_map.mp hv
  exact List.all_eq_true.mp h x (List.mem_filter.mp hx).1

theorem amzBlock_eq (r : SigV2Spec.Req) (h : valuesVisible r = true) :
    amzLoop (implHeaders r) (implHeaders r) [] = SigV2Spec.canonicalizedAmzHeaders r := by
  rw [amzLoop_eq, dedup_names_eq]
  unfold SigV2Spec.canonicalizedAmzHeaders SigV2Spec.amzHeaders
  rw [List.flatMap_map]
  apply flatMap_congr_mem
  intro n _
  unfold implLine SigV2Spec.amzLine
  rw [getAll_implHeaders, joinTrimmed_eq _ (fieldValues_visible r h n)]

/-! ## CanonicalizedResource -/

/-- the `is_first` discipline on a list of items -/
def itemsText : Bool → List (Bytes × Bytes) → Bytes
  | _, [] => []
  | first, p :: ps => (if first then 63 else 38) :: SigV2Spec.paramText p ++ itemsText false ps

theorem itemsText_append (first : Bool) (a b : List (Bytes × Bytes)) :
    itemsText first (a ++ b) = itemsText first a ++ itemsText (first && a.isEmpty) b := by
  cases a with
  | nil => simp [itemsText]
  | cons p ps =>
    simp only [List.cons_append, itemsText, List.isEmpty_cons, Bool.and_false, List.append_assoc, List.cons_append]
    congr 2
    induction ps with
    | nil => simp [itemsText]
    | cons q qs ih => simp [itemsText, ih]

theorem subresItems_eq (q : Bytes) (vs : List Bytes) (first : Bool) :
    subresItems q vs first = itemsText first (vs.map fun v => (q, v)) := by
  induction vs generalizing first with
  | nil => rfl
  | cons v ws ih =>
    simp only [subresItems, List.map_cons, itemsText, SigV2Spec.paramText, ih]
    by_cases hv : v = [] <;> by_cases hf : first = true <;> simp [hv, hf]

theorem subresLoop_eq (qs : Pairs) (l : List Bytes) (first : Bool) :
    subresLoop qs l first = itemsText first (l.flatMap fun q => (getAll qs q).map fun v => (q, v)) := by
  induction l generalizing first with
  | nil => rfl
  | cons q rest ih =>
    simp only [subresLoop, List.flatMap_cons, itemsText_append, subresItems_eq, ih, List.isEmpty_map]

theorem itemsText_false (ps : List (Bytes × Bytes)) :
    itemsText false ps = ps.flatMap fun q => 38 :: SigV2Spec.paramText q := by
  induction ps with
  | nil => rfl
  | cons p ps ih => simp [itemsText, ih]

theorem itemsText_true (ps : List (Bytes × Bytes)) : itemsText true ps = SigV2Spec.subresourceText ps := by
  cases ps with
  | nil => rfl
  | cons p ps => simp [itemsText, SigV2Spec.subresourceText, itemsText_false]

theorem filter_fst_eq (l : List (Bytes × Bytes)) (q : Bytes) :
    (l.filter fun p => p.1 = q) = ((l.filter fun p => p.1 = q).map (·.2)).map fun v => (q, v) := by
  induction l with
  | nil => rfl
  | cons x xs ih =>
    simp only [List.filter_cons]
    split
    · rename_i hx
      have : x.1 = q := by simpa using hx
      rw [List.map_cons, List.map_cons, ← ih, ← this]
    · exact ih

theorem includedQuery_eq : includedQuery = SigV2Spec.subresources := by decide

theorem subres_eq (r : SigV2Spec.Req) :
    subresLoop (sortByFirst r.query) includedQuery true = SigV2Spec.subresourceText (SigV2Spec.signedParams r) := by
  rw [subresLoop_eq, itemsText_true, includedQuery_eq]
  unfold SigV2Spec.signedParams
  congr 1
  apply flatMap_congr_mem
  intro q _
  rw [getAll_query]
  unfold SigV2Spec.paramValues
  exact (filter_fst_eq r.query q).symm

/-! ## the string to sign -/

/-- query authentication: `Expires` occurs at most once (a request that repeats it presents no
    credentials for either side, see `C11_expires_repeated_rejected`) -/
def expiresOnce (mode : SigV2Spec.Mode) (r : SigV2Spec.Req) : Bool :=
  mode = .header || (SigV2Spec.paramValues r (sp!"Expires")).length ≤ 1

/-- the region on which model and specification build the same string to sign -/
def wf (mode : SigV2Spec.Mode) (r : SigV2Spec.Req) : Bool :=
  valuesVisible r && expiresOnce mode r

theorem theOnly_getD_of_le_one (vs : List Bytes) (h : vs.length ≤ 1) :
    (theOnly vs).getD [] = SigV2Spec.commaJoin vs := by
  match vs, h with
  | [], _ => rfl
  | [v], _ => simp [theOnly, commaJoin_single]

theorem dateLine_eq (mode : SigV2Spec.Mode) (r : SigV2Spec.Req) (h3 : expiresOnce mode r = true) :
    dateLine (implMode mode) (implQs r) (implHeaders r) = SigV2Spec.dateElement mode r := by
  cases mode with
  | header =>
    simp only [implMode, dateLine, SigV2Spec.dateElement, getAll_implHeaders, joinValues_eq]
    cases SigV2Spec.fieldValues r (sp!"x-amz-date") <;> simp [SigV2Spec.positional]
  | query =>
    simp only [expiresOnce, Bool.or_eq_true, decide_eq_true_eq, reduceCtorEq, false_or] at h3
    simp only [implMode, dateLine, SigV2Spec.dateElement, implQs, Option.bind_some, getUnique_query]
    exact theOnly_getD_of_le_one _ h3

theorem resource_eq (r : SigV2Spec.Req) :
    resource r.path (implQs r) r.vhBucket = SigV2Spec.canonicalizedResource r := by
  simp only [resource, implQs, SigV2Spec.canonicalizedResource, subres_eq]
  cases r.vhBucket <;> rfl

theorem stsImpl_eq_stsSpec (mode : SigV2Spec.Mode) (r : SigV2Spec.Req) (h : wf mode r = true) :
    stsImpl mode r = stsSpec mode r := by
  simp only [wf, Bool.and_eq_true] at h
  obtain ⟨hv, he⟩ := h
  unfold stsImpl stsSpec SigV2Spec.stringToSign SigV2Spec.render SigV2Spec.view stringToSign
  simp only []
  rw [positional_eq r, positional_eq r, dateLine_eq mode r he, amzBlock_eq r hv, resource_eq]
  rfl

/-- without a query (`qs = None`) the code computes what it computes for an empty one -/
theorem stringToSign_none (mode : Mode) (m p : Bytes) (h : Pairs) (vh : Option Bytes) :
    stringToSign mode m p none h vh = stringToSign mode m p (some []) h vh := by
  have hl : ∀ l b, subresLoop [] l b = [] := by
    intro l
    induction l with
    | nil => intro b; rfl
    | cons q qs ih => intro b; simp [subresLoop, getAll, lowerBound, subresItems, ih]
  cases mode <;> simp [stringToSign, dateLine, resource, getUnique, lowerBound, hl]

end S3V.SigV2Thm
