import S3V.Thm.Path
import S3V.Thm.PathBucket
import S3V.Thm.PathHost
/-!
# Lemmas for C12: exactly-once decoding and the glue of `prepare`
-/
namespace S3V.Path
open S3V S3V.Net S3V.Host S3V.PathSpec

theorem fromHexDigit_eq_hexValue : fromHexDigit = hexValue := rfl

theorem pctDecodeFuel_nil (f : Nat) : pctDecodeFuel f [] = [] := by cases f <;> rfl

/-- decoding a percent-spelling of `k` gives `k` -/
theorem pctDecodeFuel_spelling {e k : Bytes} (h : Spelling e k) :
    ∀ f, e.length ≤ f → pctDecodeFuel f e = k := by
  induction h with
  | nil => intro f _; exact pctDecodeFuel_nil f
  | @lit c e k hc _ ih =>
    intro f hf
    cases f with
    | zero => simp at hf
    | succ f =>
      have hc' : ¬ c = pct := hc
      simp only [pctDecodeFuel, if_neg hc']
      rw [ih f (by simpa using hf)]
  | @enc c h1 h2 x y e k hx hy hv _ ih =>
    intro f hf
    cases f with
    | zero => simp at hf
    | succ f =>
      have e1 : fromHexDigit h1 = some x := hx
      have e2 : fromHexDigit h2 = some y := hy
      have hp : (37 : UInt8) = pct := rfl
      simp only [pctDecodeFuel, hp, if_true, e1, e2]
      rw [ih f (by simp at hf; omega), hv, UInt8.ofNat_toNat]

theorem pctDecodeBytes_spelling {e k : Bytes} (h : Spelling e k) : pctDecodeBytes e = k :=
  pctDecodeFuel_spelling h _ (Nat.le_refl _)

theorem pctDecodeFuel_no_pct {e : Bytes} (h : pct ∉ e) : ∀ f, e.length ≤ f → pctDecodeFuel f e = e := by
  induction e with
  | nil => intro f _; exact pctDecodeFuel_nil f
  | cons c r ih =>
    intro f hf
    cases f with
    | zero => simp at hf
    | succ f =>
      have hc : ¬ c = pct := fun e => h (by simp [e])
      have hr : pct ∉ r := fun e => h (by simp [e])
      simp only [pctDecodeFuel, if_neg hc]
      rw [ih hr f (by simpa using hf)]

/-- `urlencoding::decode` on a percent-spelling of a UTF-8 text gives the text -/
theorem urlDecode_spelling {e k : Bytes} (h : Spelling e k) (hu : utf8Valid k = true) :
    urlDecode e = some k := by
  unfold urlDecode
  by_cases hc : e.contains pct = true
  · simp only [hc, if_true, pctDecodeBytes_spelling h, hu]
  · have hm : pct ∉ e := by
      intro hm; exact hc (List.contains_iff_mem.mpr hm)
    have : e = k := by
      rw [← pctDecodeBytes_spelling h]
      exact (pctDecodeFuel_no_pct hm _ (Nat.le_refl _)).symm
    have hc' : e.contains pct = false := by
      cases hx : e.contains pct with
      | false => rfl
      | true => exact absurd hx hc
    rw [hc', this]; rfl

/-! ### UTF-8 validity of an ASCII prefix -/

theorem utf8Valid_cons_ascii {c : UInt8} (hc : c.toNat < 128) (s : Bytes) :
    utf8Valid (c :: s) = utf8Valid s := by
  unfold utf8Valid utf8Decode
  simp only [List.length_cons, utf8DecodeFuel, utf8DecodeOne]
  rw [if_pos hc]
  cases hx : utf8DecodeFuel s.length s <;> simp [hx]

theorem utf8Valid_append_ascii {b : Bytes} (hb : ∀ c ∈ b, c.toNat < 128) (s : Bytes) :
    utf8Valid (b ++ s) = utf8Valid s := by
  induction b with
  | nil => rfl
  | cons c r ih =>
    rw [List.cons_append, utf8Valid_cons_ascii (hb c (by simp)), ih (fun x hx => hb x (by simp [hx]))]

theorem bucketChar_ascii {c : UInt8} (h : bucketChar c = true) : c.toNat < 128 := by
  simp only [bucketChar, isLowerOrDigit, isDigit, dot, Bool.or_eq_true, Bool.and_eq_true,
    decide_eq_true_eq] at h
  rcases h with ((⟨_, h⟩ | ⟨_, h⟩) | h) | h
  · omega
  · omega
  · have h := of_decide_eq_true h; subst h; decide
  · subst h; decide

theorem bucketChar_ne_slash {c : UInt8} (h : bucketChar c = true) : c ≠ slash := by
  intro e; subst e; revert h; decide

/-! ### results of the two parsers on well-formed input -/

theorem parseVirtualHostedStyle_object {b k : Bytes} (hb : checkBucketName b = true)
    (hk0 : 0 < k.length) (hk : k.length ≤ 1024) :
    parseVirtualHostedStyle (some b) (slash :: k) = .ok (.object b k) := by
  have hne : k.isEmpty = false := by cases k <;> simp_all
  simp [parseVirtualHostedStyle, stripSlash_cons, hb, hne, checkKey, hk]

theorem parseVirtualHostedStyle_tooLong {b k : Bytes} (hb : checkBucketName b = true)
    (hk : 1024 < k.length) :
    parseVirtualHostedStyle (some b) (slash :: k) = .error .keyTooLong := by
  have hne : k.isEmpty = false := by cases k <;> simp_all
  have : ¬ k.length ≤ 1024 := by omega
  simp [parseVirtualHostedStyle, stripSlash_cons, hb, hne, checkKey, this]

theorem slash_not_mem_of_check {b : Bytes} (hb : checkBucketName b = true) : slash ∉ b := by
  obtain ⟨_, hch, _⟩ := (checkBucketName_iff b).mp hb
  intro hm
  exact bucketChar_ne_slash (List.all_eq_true.mp hch _ hm) rfl

theorem ascii_of_check {b : Bytes} (hb : checkBucketName b = true) : ∀ c ∈ b, c.toNat < 128 := by
  obtain ⟨_, hch, _⟩ := (checkBucketName_iff b).mp hb
  intro c hc
  exact bucketChar_ascii (List.all_eq_true.mp hch _ hc)

/-- the decoded path `/b/k` is UTF-8 when `k` is -/
theorem utf8Valid_path {b k : Bytes} (hb : checkBucketName b = true) (hu : utf8Valid k = true) :
    utf8Valid (slash :: (b ++ slash :: k)) = true := by
  rw [utf8Valid_cons_ascii (by decide), utf8Valid_append_ascii (ascii_of_check hb),
    utf8Valid_cons_ascii (by decide), hu]

/-! ### the glue -/

/-- when is the request parsed path-style whatever the path is: no `Host` header, or a readable
    `Host` header and either no host parser configured or the host is an IP / socket address -/
def PathStyleChosen (cfg : HostCfg) (host : Option Bytes) : Prop :=
  host = none ∨ ∃ h, host = some h ∧ headerToStrOk h = true ∧
    (cfg = .none ∨ isSocketAddrOrIpAddr h = true)

/-- the outcome of a path-style request -/
def pathStyleOutcome (uriPath : Bytes) : Except Code S3Path :=
  match urlDecode uriPath with
  | none => .error .invalidURI
  | some decoded => convert (parsePathStyle decoded)

theorem classify_pathStyle {cfg : HostCfg} {host : Option Bytes} (h : PathStyleChosen cfg host)
    (p : Bytes) : classify cfg host p = pathStyleOutcome p := by
  unfold classify pathStyleOutcome
  cases hd : urlDecode p with
  | none => rfl
  | some decoded =>
    rcases h with rfl | ⟨h, rfl, hs, hc | hip⟩
    · simp
    · subst hc; simp [hs, HostCfg.parser]
    · simp only [hs, if_true]
      cases hp : cfg.parser with
      | none => simp
      | some parse => simp [hip]

/-- virtual-hosted-style outcome once the host parser has answered with bucket `b` -/
theorem classify_vhost {cfg : HostCfg} {h : Bytes} {parse : Bytes → Option VirtualHost}
    {vh : VirtualHost} (hp : cfg.parser = some parse) (hs : headerToStrOk h = true)
    (hip : isSocketAddrOrIpAddr h = false) (hv : parse h = some vh) (p : Bytes) :
    classify cfg (some h) p =
      match urlDecode p with
      | none => .error .invalidURI
      | some decoded => convert (parseVirtualHostedStyle vh.bucket decoded) := by
  unfold classify
  cases hd : urlDecode p with
  | none => rfl
  | some decoded => simp [hs, hp, hip, hv]

/-- a header value that `to_str` accepts is ASCII -/
theorem ascii_of_headerToStrOk {h : Bytes} (hs : headerToStrOk h = true) : ∀ c ∈ h, c.toNat < 128 := by
  intro c hc
  have := List.all_eq_true.mp hs c hc
  simp only [Bool.or_eq_true, Bool.and_eq_true, decide_eq_true_eq] at this
  rcases this with h | ⟨_, h⟩
  · subst h; decide
  · omega

/-- `b.t` belongs to base domain `d` with bucket `b` (verbatim) whenever `t` is `d` up to ASCII
    case and starts at a character boundary -/
theorem parseHostHeader_sub (b t d : Bytes) (ht : toAsciiLower t = toAsciiLower d)
    (hbnd : ∀ c ∈ t.head?, c.toNat < 128 ∨ 192 ≤ c.toNat) :
    parseHostHeader d (b ++ dot :: t) = some ⟨d, some b⟩ := by
  have hlen : t.length = d.length := by
    have := congrArg List.length ht
    simpa [toAsciiLower_length] using this
  unfold parseHostHeader
  have hne : eqIgnoreAsciiCase (b ++ dot :: t) d = false := by
    cases he : eqIgnoreAsciiCase (b ++ dot :: t) d with
    | false => rfl
    | true =>
      have := congrArg List.length ((eqIgnoreAsciiCase_iff _ _).mp he)
      simp [toAsciiLower_length] at this
      omega
  rw [hne]
  have hidx : (b ++ dot :: t).length - d.length = (b ++ [dot]).length := by simp; omega
  have hsplit : b ++ dot :: t = (b ++ [dot]) ++ t := by simp
  have h1 : stripSuffixIgnoreAsciiCase (b ++ dot :: t) d = some (b ++ [dot]) := by
    unfold stripSuffixIgnoreAsciiCase
    have hlt : ¬ (b ++ dot :: t).length < d.length := by simp; omega
    rw [if_neg hlt]
    simp only [hidx]
    have hdrop : (b ++ dot :: t).drop (b ++ [dot]).length = t := by
      rw [hsplit, List.drop_left]
    have htake : (b ++ dot :: t).take (b ++ [dot]).length = b ++ [dot] := by
      rw [hsplit, List.take_left]
    have hb : isCharBoundary (b ++ dot :: t) (b ++ [dot]).length = true := by
      unfold isCharBoundary
      have : (b ++ [dot]).length ≠ 0 := by simp
      rw [if_neg this, hdrop]
      cases t with
      | nil => simp
      | cons c r =>
        have := hbnd c (by simp)
        simpa using this
    rw [hb, hdrop, htake]
    have : eqIgnoreAsciiCase t d = true := (eqIgnoreAsciiCase_iff _ _).mpr ht
    simp [this]
  have h2 : stripSuffix [dot] (b ++ [dot]) = some b := by
    unfold stripSuffix
    have : [dot].isSuffixOf (b ++ [dot]) = true :=
      List.isSuffixOf_iff_suffix.mpr ⟨b, rfl⟩
    rw [if_pos this]
    congr 1
    have : (b ++ [dot]).length - [dot].length = b.length := by simp
    rw [this, List.take_left]
  simp [h1, h2]

/-- a base domain of the configuration: the single one, or a member of a list accepted by
    `MultiDomain::new` (its members then do not overlap even when ASCII case is ignored,
    `pairwiseCI_of_accepted`) -/
def ConfiguredDomain (cfg : HostCfg) (d : Bytes) : Prop :=
  cfg = .single d ∨ ∃ ds, multiNew ds = .ok ds ∧ d ∈ ds ∧ cfg = .multi ds

/-- the configured host parser resolves `b.t` (`t` = `d` up to case) to bucket `b` of base
    domain `d` -/
theorem parser_of_configured {cfg : HostCfg} {d : Bytes} (h : ConfiguredDomain cfg d) (b t : Bytes)
    (ht : toAsciiLower t = toAsciiLower d)
    (hbnd : ∀ c ∈ t.head?, c.toNat < 128 ∨ 192 ≤ c.toNat) :
    ∃ parse, cfg.parser = some parse ∧ parse (b ++ dot :: t) = some ⟨d, some b⟩ := by
  rcases h with rfl | ⟨ds, hacc, hd, rfl⟩
  · exact ⟨singleParse d, rfl, by simp [singleParse, parseHostHeader_sub b t d ht hbnd]⟩
  · refine ⟨multiParse ds, rfl, ?_⟩
    simp [multiParse, firstMatch_eq_of_mem (pairwiseCI_of_accepted hacc) hd
      (parseHostHeader_sub b t d ht hbnd)]

theorem boundary_of_headerToStrOk {b t : Bytes} (hs : headerToStrOk (b ++ dot :: t) = true) :
    ∀ c ∈ t.head?, c.toNat < 128 ∨ 192 ≤ c.toNat := by
  intro c hc
  have hm : c ∈ t := List.mem_of_mem_head? hc
  exact Or.inl (ascii_of_headerToStrOk hs c (by simp [hm]))

/-- path-style request for `/b/k`, spelled in any legal way: the outcome is that of the parser on
    bucket `b` and path `/k` -/
theorem classify_path_result {cfg : HostCfg} {host : Option Bytes} {b k e : Bytes}
    (hps : PathStyleChosen cfg host) (hb : checkBucketName b = true) (hu : utf8Valid k = true)
    (hsp : Spelling e (slash :: (b ++ slash :: k))) :
    classify cfg host e = convert (parseVirtualHostedStyle (some b) (slash :: k)) := by
  rw [classify_pathStyle hps, pathStyleOutcome, urlDecode_spelling hsp (utf8Valid_path hb hu)]
  simp only []
  rw [style_equiv b k (slash_not_mem_of_check hb)]

/-- virtual-hosted-style request for host `b.t` (`t` = base domain `d` up to ASCII case) and path
    `/k`, spelled in any legal way -/
theorem classify_vhost_result {cfg : HostCfg} {d t b k e : Bytes} (hc : ConfiguredDomain cfg d)
    (ht : toAsciiLower t = toAsciiLower d)
    (hs : headerToStrOk (b ++ dot :: t) = true) (hip : isSocketAddrOrIpAddr (b ++ dot :: t) = false)
    (hu : utf8Valid k = true) (hsp : Spelling e (slash :: k)) :
    classify cfg (some (b ++ dot :: t)) e = convert (parseVirtualHostedStyle (some b) (slash :: k)) := by
  obtain ⟨parse, hp, hv⟩ := parser_of_configured hc b t ht (boundary_of_headerToStrOk hs)
  rw [classify_vhost hp hs hip hv, urlDecode_spelling hsp (by rw [utf8Valid_cons_ascii (by decide), hu])]

/-! ### `pctEncode` produces spellings -/

theorem hexValue_upperHexDigit : ∀ n, n < 16 → hexValue (upperHexDigit n) = some n := by
  decide

theorem spelling_pctEncode (mask : UInt8 → Bool) (k : Bytes) : Spelling (pctEncode mask k) k := by
  induction k with
  | nil => exact .nil
  | cons c k ih =>
    unfold pctEncode
    by_cases h : (c = 37 || mask c) = true
    · rw [if_pos h]
      have hlt : c.toNat < 256 := UInt8.toNat_lt c
      exact .enc (hexValue_upperHexDigit _ (by omega)) (hexValue_upperHexDigit _ (by omega))
        (by omega) ih
    · rw [if_neg h]
      have hc : c ≠ 37 := by
        intro e; apply h; simp [e]
      exact .lit hc ih

/-! ### an undecoded ASCII prefix passes through `urlencoding::decode` -/

theorem pctDecodeFuel_fuel {s : Bytes} : ∀ f g, s.length ≤ f → s.length ≤ g →
    pctDecodeFuel f s = pctDecodeFuel g s := by
  intro f
  induction f generalizing s with
  | zero =>
    intro g hf _
    have : s = [] := by cases s <;> simp_all
    subst this
    rw [pctDecodeFuel_nil, pctDecodeFuel_nil]
  | succ f ih =>
    intro g hf hg
    cases s with
    | nil => rw [pctDecodeFuel_nil, pctDecodeFuel_nil]
    | cons c r =>
      cases g with
      | zero => simp at hg
      | succ g =>
        simp only [List.length_cons, Nat.add_le_add_iff_right] at hf hg
        simp only [pctDecodeFuel]
        by_cases hc : c = pct
        · simp only [hc, if_true]
          cases r with
          | nil => rfl
          | cons a r1 =>
            cases r1 with
            | nil => rfl
            | cons b r2 =>
              simp only [List.length_cons] at hf hg
              simp only []
              rw [ih (s := r2) g (by omega) (by omega),
                ih (s := b :: r2) g (by simp; omega) (by simp; omega),
                ih (s := a :: b :: r2) g (by simp; omega) (by simp; omega)]
        · simp only [hc, if_false]
          rw [ih g hf hg]

theorem pctDecodeBytes_cons_of_ne {c : UInt8} (hc : c ≠ pct) (s : Bytes) :
    pctDecodeBytes (c :: s) = c :: pctDecodeBytes s := by
  unfold pctDecodeBytes
  simp only [List.length_cons, pctDecodeFuel, if_neg hc]

theorem pctDecodeBytes_append_of_no_pct {p : Bytes} (hp : pct ∉ p) (s : Bytes) :
    pctDecodeBytes (p ++ s) = p ++ pctDecodeBytes s := by
  induction p with
  | nil => rfl
  | cons c r ih =>
    have hc : c ≠ pct := fun e => hp (by simp [e])
    rw [List.cons_append, pctDecodeBytes_cons_of_ne hc, ih (fun e => hp (by simp [e]))]
    rfl

/-- `decode(p ++ s) = p ++ decode(s)` (error for error) when `p` is ASCII without `%` -/
theorem urlDecode_append_ascii {p : Bytes} (hp : pct ∉ p) (ha : ∀ c ∈ p, c.toNat < 128) (s : Bytes) :
    urlDecode (p ++ s) = (urlDecode s).map (p ++ ·) := by
  have hcont : (p ++ s).contains pct = s.contains pct := by
    cases h1 : s.contains pct with
    | true =>
      exact List.contains_iff_mem.mpr (List.mem_append_right _ (List.contains_iff_mem.mp h1))
    | false =>
      cases h2 : (p ++ s).contains pct with
      | false => rfl
      | true =>
        have := List.contains_iff_mem.mp h2
        rcases List.mem_append.mp this with h | h
        · exact absurd h hp
        · rw [List.contains_iff_mem.mpr h] at h1; cases h1
  unfold urlDecode
  rw [hcont, pctDecodeBytes_append_of_no_pct hp]
  simp only [utf8Valid_append_ascii ha]
  cases s.contains pct with
  | false => rfl
  | true =>
    simp only [if_true]
    cases utf8Valid (pctDecodeBytes s) <;> rfl

/-- the two forms of one request have the same outcome at the glue, for every raw path -/
theorem classify_style_equiv {cfg cfg' : HostCfg} {host' : Option Bytes} {d t b : Bytes}
    (hc : ConfiguredDomain cfg d) (ht : toAsciiLower t = toAsciiLower d)
    (hs : headerToStrOk (b ++ dot :: t) = true)
    (hip : isSocketAddrOrIpAddr (b ++ dot :: t) = false) (hps : PathStyleChosen cfg' host')
    (hb1 : ∀ c ∈ b, c.toNat < 128) (hb2 : pct ∉ b) (hb3 : slash ∉ b) (e : Bytes) :
    classify cfg (some (b ++ dot :: t)) (slash :: e) =
      classify cfg' host' (slash :: (b ++ slash :: e)) := by
  obtain ⟨parse, hp, hv⟩ := parser_of_configured hc b t ht (boundary_of_headerToStrOk hs)
  rw [classify_vhost hp hs hip hv, classify_pathStyle hps, pathStyleOutcome]
  have h1 : urlDecode (slash :: e) = (urlDecode e).map ([slash] ++ ·) :=
    urlDecode_append_ascii (p := [slash]) (by decide) (by decide) e
  have h2 : urlDecode (slash :: (b ++ slash :: e)) = (urlDecode e).map ((slash :: (b ++ [slash])) ++ ·) := by
    have := urlDecode_append_ascii (p := slash :: (b ++ [slash])) (s := e)
      (by
        intro hm
        rcases List.mem_cons.mp hm with h | h
        · revert h; decide
        · rcases List.mem_append.mp h with h | h
          · exact hb2 h
          · simp at h; revert h; decide)
      (by
        intro c hm
        rcases List.mem_cons.mp hm with h | h
        · subst h; decide
        · rcases List.mem_append.mp h with h | h
          · exact hb1 c h
          · simp at h; subst h; decide)
    simpa using this
  rw [h1, h2]
  cases urlDecode e with
  | none => rfl
  | some k =>
    simp only [Option.map_some, List.cons_append, List.nil_append, List.append_assoc]
    rw [style_equiv b k hb3]

end S3V.Path
