import S3V.Thm.FsStoreDeleteObjects
/-!
# C18: per-operation refinement assembled — `Good`, one step, whole histories
-/
namespace S3V.FsStore
open S3V.StoreSpec

/-- builds a `Decidable` instance for a predicate made of `∧`, `→`, `∨` and `match` over decidable leaves -/
macro "decide_pred" : tactic =>
  `(tactic| repeat' first | infer_instance | apply instDecidableAnd | apply instDecidableOr | refine @forall_prop_decidable _ _ inferInstance (fun _ => ?_) | split)

instance (s : State) (b k : Bytes) : Decidable (PutOk s b k) := by
  unfold PutOk; decide_pred
instance (s : State) (b k : Bytes) : Decidable (GetOk s b k) := by
  unfold GetOk; decide_pred
instance (s : State) (b k : Bytes) : Decidable (HeadOk s b k) := by
  unfold HeadOk; decide_pred
instance (s : State) (b k : Bytes) : Decidable (DeleteOk s b k) := by
  unfold DeleteOk; decide_pred
instance (s : State) (sb sk db dk : Bytes) : Decidable (CopyOk s sb sk db dk) := by
  unfold CopyOk; decide_pred
instance (b : Bytes) (p : Option Bytes) : Decidable (ListOk b p) := by
  unfold ListOk; decide_pred
instance (s : State) (b k : Bytes) : Decidable (CreateUploadOk s b k) := by
  unfold CreateUploadOk; decide_pred
instance (s : State) (b k : Bytes) (id : Nat) : Decidable (CompleteSuccessOk s b k id) := by
  unfold CompleteSuccessOk; decide_pred
instance (s : State) (b k : Bytes) (id : Nat) (pl : List (Option Int)) : Decidable (CompleteOwnerOk s b k id pl) := by
  unfold CompleteOwnerOk; decide_pred
instance (s : State) (who : Who) (b k : Bytes) (u : UploadRef) (parts : Option (List (Option Int))) :
    Decidable (CompleteOk s who b k u parts) := by
  unfold CompleteOk; decide_pred
instance (s : State) (b k : Bytes) (u : UploadRef) (n : Int) (sb sk : Bytes) (r : Option Bytes) :
    Decidable (UploadPartCopyOk s b k u n sb sk r) := by
  unfold UploadPartCopyOk; decide_pred
instance (s : State) (b : Bytes) (keys : List Bytes) : Decidable (DeleteObjectsOk s b keys) := by
  unfold DeleteObjectsOk; decide_pred

/-- the (state, request) pairs on which the backend is compared with the store. Outside it lie the recorded
    deviations (see the finding classes named at each predicate) and what the theorems do not cover
    (`upload_part_copy` with a malformed range; `delete_objects` under a bucket name both sides refuse). -/
def Good (s : State) : Op → Prop
  | .createBucket b => NameOk b
  | .deleteBucket b => NameOk b
  | .headBucket b => NameOk b
  | .getBucketLocation b => NameOk b
  | .listBuckets => True
  | .putObject b k _ _ _ _ => PutOk s b k
  | .getObject b k _ => GetOk s b k
  | .headObject b k => HeadOk s b k
  | .deleteObject b k => DeleteOk s b k
  | .deleteObjects b ks => DeleteObjectsOk s b ks
  | .copyObject sb sk db dk => CopyOk s sb sk db dk
  | .listObjectsV2 b p _ _ _ => ListOk b p
  | .listObjects b p _ _ _ => ListOk b p
  | .createMultipartUpload _ b k _ => CreateUploadOk s b k
  | .uploadPart .. => True
  | .uploadPartCopy _ b k u n sb sk r => UploadPartCopyOk s b k u n sb sk r
  | .listParts .. => True
  | .completeMultipartUpload who b k u parts => CompleteOk s who b k u parts
  | .abortMultipartUpload .. => True

instance (s : State) (op : Op) : Decidable (Good s op) := by
  cases op <;> (unfold Good; infer_instance)

theorem inv_empty : Inv {} := by
  refine ⟨?_, ?_, ?_, ?_, ?_, ?_, ?_, ?_, ?_⟩ <;> simp [keysNodup]

/-- one request: answers agree, the abstraction commutes, the invariant holds -/
theorem step_refines (H : Hashes) (dl : Nat) {s : State} (hi : Inv s) {op : Op} (hg : Good s op) :
    (step H dl s op).2 = (StoreSpec.step H (abs s) op).2 ∧
    abs (step H dl s op).1 = (StoreSpec.step H (abs s) op).1 ∧ Inv (step H dl s op).1 := by
  cases op with
  | createBucket b => exact createBucket_refines H dl hi hg
  | deleteBucket b => exact deleteBucket_refines H dl hi hg
  | headBucket b => exact headBucket_refines H dl hi hg
  | getBucketLocation b => exact getBucketLocation_refines H dl hi hg
  | listBuckets => exact listBuckets_refines H dl hi
  | putObject b k c md cks clen =>
    exact put_refines H dl hi (c := c) (md := md) (cks := cks) (clen := clen) hg
  | getObject b k r => exact get_refines H dl hi (range := r) hg
  | headObject b k => exact head_refines H dl hi hg
  | deleteObject b k => exact delete_refines H dl hi hg
  | deleteObjects b ks => exact deleteObjects_refines H dl hi hg
  | copyObject sb sk db dk => exact copy_refines H dl hi hg
  | listObjectsV2 b p d a m => exact listV2_refines H dl hi (after := a) hg
  | listObjects b p d a m => exact listV1_refines H dl hi (marker := a) hg
  | createMultipartUpload w b k md =>
    exact createUpload_refines H dl hi (who := w) (md := md) hg
  | uploadPart w b k u n c =>
    exact uploadPart_refines H dl hi (who := w) (c := c)
  | uploadPartCopy w b k u n sb sk r =>
    exact uploadPartCopy_refines H dl hi (who := w) hg
  | listParts w b k u => exact listParts_refines H dl hi (who := w)
  | completeMultipartUpload w b k u parts => exact complete_refines H dl hi hg
  | abortMultipartUpload w b k u => exact abort_refines H dl hi (who := w)

/-- every request of the history meets `Good` in the state the backend is in when it arrives -/
def GoodRun (H : Hashes) (dl : Nat) : State → List Op → Prop
  | _, [] => True
  | s, op :: ops => Good s op ∧ GoodRun H dl (step H dl s op).1 ops

instance (H : Hashes) (dl : Nat) : ∀ (s : State) (ops : List Op), Decidable (GoodRun H dl s ops)
  | _, [] => isTrue trivial
  | s, op :: ops =>
    have := instDecidableGoodRun H dl (step H dl s op).1 ops
    by unfold GoodRun; infer_instance

theorem history_refines (H : Hashes) (dl : Nat) : ∀ (ops : List Op) (s : State), Inv s → GoodRun H dl s ops →
    (run H dl s ops).2 = (StoreSpec.run H (abs s) ops).2 ∧
    abs (run H dl s ops).1 = (StoreSpec.run H (abs s) ops).1 ∧ Inv (run H dl s ops).1 := by
  intro ops
  induction ops with
  | nil => intro s hi _; exact ⟨rfl, rfl, hi⟩
  | cons op ops ih =>
    intro s hi hg
    obtain ⟨hg1, hg2⟩ := hg
    obtain ⟨h1, h2, h3⟩ := step_refines H dl hi hg1
    obtain ⟨i1, i2, i3⟩ := ih (step H dl s op).1 h3 hg2
    simp only [run, StoreSpec.run]
    rw [h2] at i1 i2
    exact ⟨by simp [h1, i1], i2, i3⟩

end S3V.FsStore
