import S3V.Thm.CivilEra
/-!
# Calendar theorems: `civilFromDays` and `daysFromCivil` are inverse to each other (all of `Int`),
from the era facts of `CivilEra.lean` by linear arithmetic
-/
namespace S3V.Dto

/-- calendar month (1 = January) of month-from-March index -/
def monthOfMp (mp : Nat) : Nat := if mp < 10 then mp + 3 else mp - 9

/-- calendar year of (era, year-of-era, month index) -/
def yearOf (era : Int) (yoe mp : Nat) : Int :=
  if monthOfMp mp ≤ 2 then (yoe : Int) + era * 400 + 1 else (yoe : Int) + era * 400

theorem isLeap_era (era : Int) (yoe : Nat) : isLeap ((yoe : Int) + era * 400 + 1) = eraLeap yoe := by
  have h4 : (((yoe : Int) + era * 400 + 1) % 4 = 0) ↔ ((yoe + 1) % 4 = 0) := by omega
  have h100 : (((yoe : Int) + era * 400 + 1) % 100 = 0) ↔ ((yoe + 1) % 100 = 0) := by omega
  have h400 : (((yoe : Int) + era * 400 + 1) % 400 = 0) ↔ ((yoe + 1) % 400 = 0) := by omega
  simp only [isLeap, eraLeap, ne_eq, h4, h100, h400]

theorem daysFromCivil_era (era : Int) (yoe mp d : Nat) (hy : yoe < 400) (hm : mp < 12) :
    daysFromCivil (yearOf era yoe mp) (monthOfMp mp) d = era * 146097 + (encDoe yoe mp d : Nat) - 719468 := by
  unfold daysFromCivil yearOf
  have hy' : (if monthOfMp mp ≤ 2 then
      (if monthOfMp mp ≤ 2 then (yoe : Int) + era * 400 + 1 else (yoe : Int) + era * 400) - 1
      else (if monthOfMp mp ≤ 2 then (yoe : Int) + era * 400 + 1 else (yoe : Int) + era * 400)) = (yoe : Int) + era * 400 := by
    split <;> omega
  simp only [hy']
  have he : ((yoe : Int) + era * 400) / 400 = era := by omega
  have hyoe : ((yoe : Int) + era * 400 - era * 400).toNat = yoe := by omega
  have hmp : (monthOfMp mp + 9) % 12 = mp := by unfold monthOfMp; split <;> omega
  simp only [he, hyoe, hmp]

theorem daysInMonth_era (era : Int) (yoe mp : Nat) (hm : mp < 12) :
    daysInMonth (yearOf era yoe mp) (monthOfMp mp) = eraMonthLen yoe mp := by
  have : mp = 0 ∨ mp = 1 ∨ mp = 2 ∨ mp = 3 ∨ mp = 4 ∨ mp = 5 ∨ mp = 6 ∨ mp = 7 ∨ mp = 8 ∨ mp = 9 ∨ mp = 10 ∨ mp = 11 := by
    omega
  rcases this with rfl | rfl | rfl | rfl | rfl | rfl | rfl | rfl | rfl | rfl | rfl | rfl <;>
    first
    | (simp [daysInMonth, eraMonthLen, monthOfMp]; done)
    | (simp only [daysInMonth, eraMonthLen, monthOfMp, yearOf]
       simp [isLeap_era])



theorem civil_days_civil (z : Int) :
    daysFromCivil (civilFromDays z).1 (civilFromDays z).2.1 (civilFromDays z).2.2 = z ∧
    1 ≤ (civilFromDays z).2.1 ∧ (civilFromDays z).2.1 ≤ 12 ∧
    1 ≤ (civilFromDays z).2.2 ∧ (civilFromDays z).2.2 ≤ daysInMonth (civilFromDays z).1 (civilFromDays z).2.1 := by
  have hdoe : ((z + 719468 - (z + 719468) / 146097 * 146097).toNat) < 146097 := by omega
  have hcast : (((z + 719468 - (z + 719468) / 146097 * 146097).toNat : Nat) : Int) =
      z + 719468 - (z + 719468) / 146097 * 146097 := by omega
  obtain ⟨henc, hval⟩ := era_dec _ hdoe
  have hcf : civilFromDays z =
      (yearOf ((z + 719468) / 146097) (decDoe (z + 719468 - (z + 719468) / 146097 * 146097).toNat).1
          (decDoe (z + 719468 - (z + 719468) / 146097 * 146097).toNat).2.1,
        monthOfMp (decDoe (z + 719468 - (z + 719468) / 146097 * 146097).toNat).2.1,
        (decDoe (z + 719468 - (z + 719468) / 146097 * 146097).toNat).2.2) := by
    unfold civilFromDays yearOf monthOfMp
    rfl
  generalize decDoe (z + 719468 - (z + 719468) / 146097 * 146097).toNat = t at henc hval hcf
  obtain ⟨yoe, mp, d⟩ := t
  simp only at henc hval hcf
  obtain ⟨h1, h2, h3, h4⟩ := hval
  rw [hcf]
  simp only
  refine ⟨?_, ?_, ?_, h3, ?_⟩
  · rw [daysFromCivil_era _ _ _ _ h1 h2, henc]; omega
  · unfold monthOfMp; split <;> omega
  · unfold monthOfMp; split <;> omega
  · rw [daysInMonth_era _ _ _ h2]; exact h4

theorem days_civil_days (y : Int) (m d : Nat) (hm1 : 1 ≤ m) (hm2 : m ≤ 12) (hd1 : 1 ≤ d)
    (hd2 : d ≤ daysInMonth y m) : civilFromDays (daysFromCivil y m d) = (y, m, d) := by
  -- era coordinates of the date
  have key : ∃ (era : Int) (yoe mp : Nat), yoe < 400 ∧ mp < 12 ∧ y = yearOf era yoe mp ∧ m = monthOfMp mp := by
    refine ⟨(if m ≤ 2 then y - 1 else y) / 400,
      ((if m ≤ 2 then y - 1 else y) - (if m ≤ 2 then y - 1 else y) / 400 * 400).toNat, (m + 9) % 12, ?_, ?_, ?_, ?_⟩
    · omega
    · omega
    · have hmm : monthOfMp ((m + 9) % 12) = m := by unfold monthOfMp; split <;> omega
      unfold yearOf; rw [hmm]
      split <;> omega
    · unfold monthOfMp; split <;> omega
  obtain ⟨era, yoe, mp, h1, h2, rfl, rfl⟩ := key
  rw [daysInMonth_era _ _ _ h2] at hd2
  obtain ⟨hlt, hdec⟩ := era_enc yoe mp d h1 h2 hd1 hd2
  rw [daysFromCivil_era _ _ _ _ h1 h2]
  have he : (era * 146097 + (encDoe yoe mp d : Nat) - 719468 + 719468) / 146097 = era := by omega
  have hdoe : (era * 146097 + (encDoe yoe mp d : Nat) - 719468 + 719468 - era * 146097).toNat = encDoe yoe mp d := by
    omega
  unfold civilFromDays
  simp only [he, hdoe, hdec]
  rfl



theorem daysFromCivil_le_of_year_le_zero (y : Int) (m d : Nat) (hy : y ≤ 0) (hm1 : 1 ≤ m) (hm2 : m ≤ 12)
    (hd1 : 1 ≤ d) (hd2 : d ≤ 31) : daysFromCivil y m d ≤ -719163 := by
  unfold daysFromCivil encDoe
  simp only
  omega

theorem daysFromCivil_ge_of_year_ge (y : Int) (m d : Nat) (hy : 10000 ≤ y) (hm1 : 1 ≤ m) (hm2 : m ≤ 12)
    (hd1 : 1 ≤ d) (hd2 : d ≤ 31) : 2932897 ≤ daysFromCivil y m d := by
  unfold daysFromCivil encDoe
  simp only
  by_cases h : m ≤ 2
  · simp only [h, if_true]
    have : m = 1 ∨ m = 2 := by omega
    rcases this with rfl | rfl <;> omega
  · simp only [h, if_false]
    omega

/-! day-number bounds by year, for the year checks of `Timestamp::parse` (0000 … 9999) and of `time` (−9999 … 9999) -/

theorem daysFromCivil_le_of_year_le_neg1 (y : Int) (m d : Nat) (hy : y ≤ -1) (hm1 : 1 ≤ m) (hm2 : m ≤ 12)
    (hd1 : 1 ≤ d) (hd2 : d ≤ 31) : daysFromCivil y m d ≤ -719529 := by
  have hm : m = 1 ∨ m = 2 ∨ m = 3 ∨ m = 4 ∨ m = 5 ∨ m = 6 ∨ m = 7 ∨ m = 8 ∨ m = 9 ∨ m = 10 ∨ m = 11 ∨ m = 12 := by omega
  unfold daysFromCivil encDoe
  simp only
  rcases hm with rfl | rfl | rfl | rfl | rfl | rfl | rfl | rfl | rfl | rfl | rfl | rfl <;> simp <;> omega

theorem daysFromCivil_ge_of_year_ge_zero (y : Int) (m d : Nat) (hy : 0 ≤ y) (hm1 : 1 ≤ m) (hm2 : m ≤ 12)
    (hd1 : 1 ≤ d) : -719528 ≤ daysFromCivil y m d := by
  unfold daysFromCivil encDoe
  simp only
  by_cases h : m ≤ 2
  · simp only [h, if_true]
    have : m = 1 ∨ m = 2 := by omega
    rcases this with rfl | rfl <;> omega
  · simp only [h, if_false]
    omega

theorem daysFromCivil_le_of_year_le_9999 (y : Int) (m d : Nat) (hy : y ≤ 9999) (hm1 : 1 ≤ m) (hm2 : m ≤ 12)
    (hd1 : 1 ≤ d) (hd2 : d ≤ 31) : daysFromCivil y m d ≤ 2932896 := by
  have hm : m = 1 ∨ m = 2 ∨ m = 3 ∨ m = 4 ∨ m = 5 ∨ m = 6 ∨ m = 7 ∨ m = 8 ∨ m = 9 ∨ m = 10 ∨ m = 11 ∨ m = 12 := by omega
  unfold daysFromCivil encDoe
  simp only
  rcases hm with rfl | rfl | rfl | rfl | rfl | rfl | rfl | rfl | rfl | rfl | rfl | rfl <;> simp <;> omega

theorem daysFromCivil_le_of_year_le_neg10000 (y : Int) (m d : Nat) (hy : y ≤ -10000) (hm1 : 1 ≤ m) (hm2 : m ≤ 12)
    (hd1 : 1 ≤ d) (hd2 : d ≤ 31) : daysFromCivil y m d ≤ -4371588 := by
  have hm : m = 1 ∨ m = 2 ∨ m = 3 ∨ m = 4 ∨ m = 5 ∨ m = 6 ∨ m = 7 ∨ m = 8 ∨ m = 9 ∨ m = 10 ∨ m = 11 ∨ m = 12 := by omega
  unfold daysFromCivil encDoe
  simp only
  rcases hm with rfl | rfl | rfl | rfl | rfl | rfl | rfl | rfl | rfl | rfl | rfl | rfl <;> simp <;> omega

theorem daysFromCivil_ge_of_year_ge_neg9999 (y : Int) (m d : Nat) (hy : -9999 ≤ y) (hm1 : 1 ≤ m) (hm2 : m ≤ 12)
    (hd1 : 1 ≤ d) : -4371587 ≤ daysFromCivil y m d := by
  unfold daysFromCivil encDoe
  simp only
  by_cases h : m ≤ 2
  · simp only [h, if_true]
    have : m = 1 ∨ m = 2 := by omega
    rcases this with rfl | rfl <;> omega
  · simp only [h, if_false]
    omega

end S3V.Dto
