import S3V.Thm.XmlEscape
/-!
Escaping keeps UTF-8 valid: `escape` replaces ASCII bytes by ASCII byte sequences and leaves every other byte alone.
-/
namespace S3V.Xml
open S3V

theorem special_small {c : UInt8} (h : 128 ≤ c.toNat) : isSpecial c = false := by
  cases hs : isSpecial c with
  | false => rfl
  | true =>
    simp only [isSpecial, Bool.or_eq_true, cLt, cGt, cAmp, cApos, cQuot] at hs
    rcases hs with (((hs | hs) | hs) | hs) | hs <;>
      (have hc := of_decide_eq_true hs; subst hc; exact absurd h (by decide))

theorem escapeByte_ascii {c : UInt8} (h : c.toNat < 128) : ∀ x ∈ escapeByte c, x.toNat < 128 := by
  intro x hx
  unfold escapeByte at hx
  split at hx
  · revert x; decide
  split at hx
  · revert x; decide
  split at hx
  · revert x; decide
  split at hx
  · revert x; decide
  split at hx
  · revert x; decide
  · simp only [List.mem_singleton] at hx; subst hx; exact h

/-- a byte-wise text expansion that rewrites ASCII bytes into ASCII bytes (possibly none, possibly depending on what
follows the byte: `g c cs` is what `c` becomes in front of `cs`) and leaves every other byte alone -/
structure Expansion where
  f : Bytes → Bytes
  g : UInt8 → Bytes → Bytes
  nil : f [] = []
  cons : ∀ c cs, f (c :: cs) = g c cs ++ f cs
  ascii : ∀ c cs, c.toNat < 128 → ∀ x ∈ g c cs, x.toNat < 128
  high : ∀ c cs, 128 ≤ c.toNat → g c cs = [c]

theorem Expansion.high_cons (E : Expansion) (b : UInt8) (r : Bytes) (h : 128 ≤ b.toNat) : E.f (b :: r) = b :: E.f r := by
  rw [E.cons, E.high b _ h]; rfl

theorem Expansion.high_prefix (E : Expansion) : ∀ (mid r : Bytes), (∀ c ∈ mid, 128 ≤ c.toNat) →
    E.f (mid ++ r) = mid ++ E.f r
  | [], r, _ => rfl
  | c :: cs, r, h => by
    rw [List.cons_append, E.high_cons c _ (h c (by simp)), E.high_prefix cs r (fun x hx => h x (by simp [hx]))]
    rfl

theorem decodeOne_ascii {c : UInt8} (h : c.toNat < 128) (r : Bytes) : utf8DecodeOne (c :: r) = some (c.toNat, r) := by
  simp [utf8DecodeOne, h]

/-- an ASCII prefix is decoded byte by byte -/
theorem decodeFuel_ascii : ∀ (E x : Bytes) (m : Nat), (∀ c ∈ E, c.toNat < 128) → E.length ≤ m →
    (utf8DecodeFuel m (E ++ x)).isSome = (utf8DecodeFuel (m - E.length) x).isSome
  | [], x, m, _, _ => by simp
  | c :: cs, x, m, h, hm => by
    cases m with
    | zero => simp at hm
    | succ k =>
      simp only [List.cons_append, utf8DecodeFuel, decodeOne_ascii (h c (by simp))]
      rw [Option.isSome_map, decodeFuel_ascii cs x k (fun y hy => h y (by simp [hy])) (by simpa using hm)]
      simp

theorem isCont_high {b : UInt8} (h : isCont b = true) : 128 ≤ b.toNat := by
  simp only [isCont, decide_eq_true_eq] at h
  omega

/-- what `utf8DecodeOne` consumed: one ASCII byte, or a lead byte ≥ 0x80 with continuation bytes ≥ 0x80, and the
scalar value does not depend on what follows -/
theorem decodeOne_shape {b0 : UInt8} {rest r : Bytes} {cp : Nat} (h : utf8DecodeOne (b0 :: rest) = some (cp, r)) :
    (b0.toNat < 128 ∧ r = rest) ∨
    (128 ≤ b0.toNat ∧ ∃ mid, rest = mid ++ r ∧ (∀ c ∈ mid, 128 ≤ c.toNat) ∧
      ∀ x, utf8DecodeOne (b0 :: (mid ++ x)) = some (cp, x)) := by
  unfold utf8DecodeOne at h
  simp only at h
  split at h
  · rename_i h1
    simp only [Option.some.injEq, Prod.mk.injEq] at h
    exact Or.inl ⟨h1, h.2.symm⟩
  · rename_i h1
    have hb0 : 128 ≤ b0.toNat := by omega
    refine Or.inr ⟨hb0, ?_⟩
    split at h
    · cases h
    split at h
    · rename_i h2 h3
      -- two bytes
      split at h
      · rename_i b1 r'
        split at h
        · rename_i hc
          simp only [Option.some.injEq, Prod.mk.injEq] at h
          obtain ⟨hcp, hr⟩ := h
          subst hr
          refine ⟨[b1], rfl, ?_, ?_⟩
          · intro c hcm; simp only [List.mem_singleton] at hcm; subst hcm; exact isCont_high hc
          · intro x
            simp [utf8DecodeOne, h1, h2, h3, hc, hcp]
        · cases h
      · cases h
    split at h
    · rename_i h2 h3 h4
      -- three bytes
      split at h
      · rename_i b1 b2 r'
        split at h
        · rename_i hc
          simp only [Bool.and_eq_true] at hc
          split at h
          · cases h
          · rename_i hcp
            simp only [Option.some.injEq, Prod.mk.injEq] at h
            obtain ⟨hcp', hr⟩ := h
            subst hr
            refine ⟨[b1, b2], rfl, ?_, ?_⟩
            · intro c hcm
              simp only [List.mem_cons, List.not_mem_nil, or_false] at hcm
              rcases hcm with hcm | hcm <;> subst hcm
              · exact isCont_high hc.1
              · exact isCont_high hc.2
            · intro x
              rw [hcp'] at hcp
              simp only [utf8DecodeOne, List.cons_append, List.nil_append, if_neg h1, if_neg h2, if_neg h3, if_pos h4,
                hc.1, hc.2, Bool.and_self, if_true, if_neg hcp, hcp']
        · cases h
      · cases h
    split at h
    · rename_i h2 h3 h4 h5
      -- four bytes
      split at h
      · rename_i b1 b2 b3 r'
        split at h
        · rename_i hc
          simp only [Bool.and_eq_true] at hc
          split at h
          · cases h
          · rename_i hcp
            simp only [Option.some.injEq, Prod.mk.injEq] at h
            obtain ⟨hcp', hr⟩ := h
            subst hr
            refine ⟨[b1, b2, b3], rfl, ?_, ?_⟩
            · intro c hcm
              simp only [List.mem_cons, List.not_mem_nil, or_false] at hcm
              rcases hcm with hcm | hcm | hcm <;> subst hcm
              · exact isCont_high hc.1.1
              · exact isCont_high hc.1.2
              · exact isCont_high hc.2
            · intro x
              rw [hcp'] at hcp
              simp only [utf8DecodeOne, List.cons_append, List.nil_append, if_neg h1, if_neg h2, if_neg h3, if_neg h4,
                if_pos h5, hc.1.1, hc.1.2, hc.2, Bool.and_self, if_true, if_neg hcp, hcp']
        · cases h
      · cases h
    · cases h

theorem decodeFuel_expand (E : Expansion) : ∀ (n : Nat) (b : Bytes), b.length ≤ n → (utf8DecodeFuel n b).isSome = true →
    ∀ m, (E.f b).length ≤ m → (utf8DecodeFuel m (E.f b)).isSome = true
  | _, [], _, _, m, _ => by cases m <;> simp [E.nil, utf8DecodeFuel]
  | 0, _ :: _, hn, _, _, _ => by simp at hn
  | k + 1, b0 :: rest, hn, hv, m, hm => by
    simp only [utf8DecodeFuel] at hv
    cases hd : utf8DecodeOne (b0 :: rest) with
    | none => simp [hd] at hv
    | some p =>
      obtain ⟨cp, r⟩ := p
      simp only [hd, Option.isSome_map] at hv
      rcases decodeOne_shape hd with ⟨hascii, hr⟩ | ⟨hhigh, mid, hrest, hmid, hsame⟩
      · subst hr
        have hE := E.ascii b0 r hascii
        rw [E.cons] at hm ⊢
        have hlen : (E.g b0 r).length ≤ m := by
          simp only [List.length_append] at hm; omega
        rw [decodeFuel_ascii _ _ m hE hlen]
        exact decodeFuel_expand E k r (by simpa using hn) hv _
          (by simp only [List.length_append] at hm; omega)
      · subst hrest
        have he : E.f (b0 :: (mid ++ r)) = b0 :: (mid ++ E.f r) := by
          rw [E.high_cons b0 _ hhigh, E.high_prefix mid r hmid]
        rw [he] at hm ⊢
        cases m with
        | zero => simp at hm
        | succ m' =>
          simp only [utf8DecodeFuel, hsame (E.f r), Option.isSome_map]
          exact decodeFuel_expand E k r (by simp at hn; omega) hv m'
            (by simp only [List.length_cons, List.length_append] at hm; omega)

theorem utf8Valid_expand (E : Expansion) {b : Bytes} (h : utf8Valid b = true) : utf8Valid (E.f b) = true := by
  unfold utf8Valid utf8Decode at *
  exact decodeFuel_expand E b.length b (Nat.le_refl _) h _ (Nat.le_refl _)

def escapeExpansion : Expansion where
  f := escape
  g := fun c _ => escapeByte c
  nil := rfl
  cons := fun _ _ => rfl
  ascii := fun _ _ h => escapeByte_ascii h
  high := fun _ _ h => escapeByte_of_not_special (special_small h)

theorem escapeTextByte_ascii {c : UInt8} (h : c.toNat < 128) : ∀ x ∈ escapeTextByte c, x.toNat < 128 := by
  by_cases hcr : c = 13
  · subst hcr; decide
  · cases hs : isSpecial c with
    | false => rw [escapeTextByte_plain hs hcr]; intro x hx; simp only [List.mem_singleton] at hx; subst hx; exact h
    | true => rw [escapeTextByte_special hs]; exact escapeByte_ascii h

def escapeTextExpansion : Expansion where
  f := escapeText
  g := fun c _ => escapeTextByte c
  nil := rfl
  cons := escapeText_cons
  ascii := fun _ _ h => escapeTextByte_ascii h
  high := fun c _ h => escapeTextByte_plain (special_small h) (by intro hc; subst hc; simp at h)

theorem escapeAttrByte_ascii {c : UInt8} (h : c.toNat < 128) : ∀ x ∈ escapeAttrByte c, x.toNat < 128 := by
  by_cases h9 : c = 9
  · subst h9; decide
  by_cases h10 : c = 10
  · subst h10; decide
  by_cases h13 : c = 13
  · subst h13; decide
  cases hs : isSpecial c with
  | false =>
    rw [escapeAttrByte_plain hs h9 h10 h13]; intro x hx; simp only [List.mem_singleton] at hx; subst hx; exact h
  | true => rw [escapeAttrByte_special hs]; exact escapeByte_ascii h

def escapeAttrExpansion : Expansion where
  f := escapeAttr
  g := fun c _ => escapeAttrByte c
  nil := rfl
  cons := escapeAttr_cons
  ascii := fun _ _ h => escapeAttrByte_ascii h
  high := fun c _ h => escapeAttrByte_plain (special_small h) (by intro hc; subst hc; simp at h)
    (by intro hc; subst hc; simp at h) (by intro hc; subst hc; simp at h)

/-- **escaping a valid UTF-8 string gives a valid UTF-8 string** (quick-xml's `escape`) -/
theorem utf8Valid_escape {b : Bytes} (h : utf8Valid b = true) : utf8Valid (escape b) = true :=
  utf8Valid_expand escapeExpansion h

/-- … and so does `xml/ser.rs::text` -/
theorem utf8Valid_escapeText {b : Bytes} (h : utf8Valid b = true) : utf8Valid (escapeText b) = true :=
  utf8Valid_expand escapeTextExpansion h

/-- … and `xml/ser.rs::attr_value` -/
theorem utf8Valid_escapeAttr {b : Bytes} (h : utf8Valid b = true) : utf8Valid (escapeAttr b) = true :=
  utf8Valid_expand escapeAttrExpansion h

end S3V.Xml
