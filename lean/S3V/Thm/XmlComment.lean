import S3V.Model.Xml
import S3V.Thm.XmlStrict
import S3V.Spec.Xml
/-!
# C13 — comments the tokeniser hands out are well-formed (XML 1.0 production [15])

`Deserializer::new` switches quick-xml's `Config::check_comments` on (since the repair of
`xml-illformed-accepted:comment`): the model's `markup` answers a reader error for a comment whose text holds `--` or
ends with `-`. Here: whenever `markup` hands out a comment event, the input is `!--` body `-->` with a body
that production [15] allows.
-/
namespace S3V.Xml

/-- [15] Comment ::= '<!--' ((Char - '-') | ('-' (Char - '-')))* '-->': the body between `<!--` and `-->` holds no
`--` and does not end with `-` (so the closing `-->` is the first `--` after the opening) -/
def CommentBody (c : Bytes) : Prop := (∀ p s : Bytes, c ≠ p ++ 45 :: 45 :: s) ∧ c.getLast? ≠ some 45

theorem dashDash_cons (a : UInt8) (r : Bytes) :
    dashDash (a :: r) = ((a == 45 && r.head? == some 45) || dashDash r) := by
  cases r with
  | nil => simp [dashDash]
  | cons b r' =>
    by_cases ha : a = 45
    · by_cases hb : b = 45
      · subst ha; subst hb; simp [dashDash]
      · subst ha
        have : dashDash (45 :: b :: r') = dashDash (b :: r') := by
          rw [dashDash.eq_def]
          split
          · rename_i heq; simp at heq; exact absurd heq.1 hb
          · rename_i heq; simp at heq; rw [← heq.2]
          · rename_i heq; simp at heq
        simp [this, hb]
    · have : dashDash (a :: b :: r') = dashDash (b :: r') := by
        rw [dashDash.eq_def]
        split
        · rename_i heq; simp at heq; exact absurd heq.1 ha
        · rename_i heq; simp at heq; rw [← heq.2]
        · rename_i heq; simp at heq
      simp [this, ha]

/-- no hit of the search: the bytes hold no `--` -/
theorem dashDash_false : ∀ (l : Bytes), dashDash l = false → ∀ p s : Bytes, l ≠ p ++ 45 :: 45 :: s
  | [], _, p, s => by cases p <;> simp
  | a :: r, h, p, s => by
    rw [dashDash_cons] at h
    simp only [Bool.or_eq_false_iff] at h
    cases p with
    | nil =>
      intro heq
      simp only [List.nil_append, List.cons.injEq] at heq
      obtain ⟨ha, hr⟩ := heq
      subst ha; subst hr
      simp at h
    | cons x p' =>
      intro heq
      simp only [List.cons_append, List.cons.injEq] at heq
      exact dashDash_false r h.2 p' s heq.2

/-- `bangEnd`: what was scanned, where it stopped -/
theorem bangEnd_some (ok : Bytes → Bool) : ∀ (inp seen buf rest : Bytes), bangEnd ok seen inp = some (buf, rest) →
    ∃ mid, buf = seen.reverse ++ mid ∧ inp = mid ++ cGt :: rest ∧ ok (mid.reverse ++ seen) = true
  | [], _, _, _, h => by simp [bangEnd] at h
  | b :: bs, seen, buf, rest, h => by
    unfold bangEnd at h
    by_cases hc : (b = cGt && ok seen) = true
    · rw [if_pos hc] at h
      simp only [Option.some.injEq, Prod.mk.injEq] at h
      simp only [Bool.and_eq_true, decide_eq_true_eq] at hc
      refine ⟨[], by simp [h.1], by simp [hc.1, h.2], by simpa using hc.2⟩
    · rw [if_neg hc] at h
      obtain ⟨mid, h1, h2, h3⟩ := bangEnd_some ok bs (b :: seen) buf rest h
      refine ⟨b :: mid, by simp [h1], by simp [h2], by simpa using h3⟩

theorem startsWith_iff (p b : Bytes) : startsWith p b = true ↔ ∃ t, b = p ++ t := by
  simp only [startsWith, beq_iff_eq]
  constructor
  · intro h
    refine ⟨b.drop p.length, ?_⟩
    have := List.take_append_drop p.length b
    rw [h] at this
    exact this.symm
  · rintro ⟨t, rfl⟩; simp

/-- a buffer that begins with `!--`, is longer than four bytes and ends with `--` is `!--` body `--` -/
theorem comment_buf {buf : Bytes} (h1 : startsWith [33, 45, 45] buf = true) (hlen : buf.length > 4)
    (h2 : startsWith [45, 45] buf.reverse = true) :
    buf = [33, 45, 45] ++ (buf.drop 3).dropLast.dropLast ++ [45, 45] := by
  obtain ⟨t, ht⟩ := (startsWith_iff _ _).mp h1
  obtain ⟨u, hu⟩ := (startsWith_iff _ _).mp h2
  have hb : buf = u.reverse ++ [45, 45] := by
    have := congrArg List.reverse hu
    simpa using this
  subst ht
  have htl : t.length ≥ 2 := by
    simp only [List.length_append, List.length_cons, List.length_nil] at hlen; omega
  -- `t` ends with `--`
  have ht2 : t = (t.dropLast.dropLast) ++ [45, 45] := by
    have hlast : ([33, 45, 45] ++ t).reverse = 45 :: 45 :: u := hu
    have : t.reverse = 45 :: 45 :: (t.reverse.drop 2) := by
      have h3 : t.reverse ++ [45, 45, 33] = 45 :: 45 :: u := by simpa using hlast
      match hr : t.reverse, (by simpa using htl : t.reverse.length ≥ 2) with
      | a :: b :: r, _ =>
        rw [hr] at h3
        simp only [List.cons_append, List.cons.injEq] at h3
        simp [h3.1, h3.2.1]
    generalize t.reverse.drop 2 = w' at this
    have h4 : t = w'.reverse ++ [45, 45] := by
      have := congrArg List.reverse this
      simpa using this
    have h5 : (w'.reverse ++ [45, 45]).dropLast.dropLast = w'.reverse := by
      have e : w'.reverse ++ [45, 45] = (w'.reverse ++ [45]) ++ [45] := by simp
      rw [e, List.dropLast_concat, List.dropLast_concat]
    rw [h4, h5]
  simp only [List.drop_append, List.length_cons, List.length_nil]
  simpa using ht2

/-- closes a branch of `markup` that hands out something else than a comment -/
macro "no_comment" h:ident : tactic =>
  `(tactic| (repeat' (first | (simp at $h:ident; done) | ((try dsimp only at $h:ident); split at $h:ident))))

/-- **every comment event is a well-formed comment**: when `markup` (the reader after a `<`, on any input and stack)
hands out a comment, the input is `!--` body `-->` followed by the rest, the body satisfies production [15], and the
stack of open elements is unchanged. Any other text after `<!--` makes the reader fail. -/
theorem markup_comment {inp : Bytes} {stack stack' : List Bytes} {rest : Bytes}
    (h : markup inp stack = some (.comment, rest, stack')) :
    ∃ c, inp = [33, 45, 45] ++ c ++ [45, 45, 62] ++ rest ∧ CommentBody c ∧ stack' = stack := by
  unfold markup at h
  split at h
  · simp at h
  · -- `<!`
    split at h
    · -- CDATA
      split at h
      · simp at h
      · split at h <;> simp at h
    · -- comment
      split at h
      · simp at h
      · rename_i buf rest' hb
        split at h
        · rename_i hstart
          split at h
          · simp at h
          · rename_i hdd
            simp only [Option.some.injEq, Prod.mk.injEq, true_and] at h
            obtain ⟨hr, hs⟩ := h
            subst hr
            obtain ⟨mid, h1, h2, h3⟩ := bangEnd_some _ _ _ _ _ hb
            simp only [List.reverse_nil, List.nil_append, List.append_nil, Bool.and_eq_true, decide_eq_true_eq,
              List.length_reverse] at h1 h3
            subst h1
            have hbuf := comment_buf hstart h3.1 h3.2
            have hdd' : dashDash ((buf.drop 3).dropLast.dropLast ++ [45]) = false := by simpa using hdd
            have hno := dashDash_false _ hdd'
            refine ⟨(buf.drop 3).dropLast.dropLast, ?_, ⟨?_, ?_⟩, hs.symm⟩
            · rw [h2]
              conv => lhs; rw [hbuf]
              simp [cGt]
            · intro p s heq
              exact hno p (s ++ [45]) (by rw [heq]; simp)
            · intro hl
              obtain ⟨c', hc'⟩ := List.getLast?_eq_some_iff.mp hl
              exact hno c' [] (by rw [hc']; simp)
        · simp at h
    all_goals no_comment h
  all_goals no_comment h

/-! ### a reader error and a refused processing instruction end every run -/

/-- tokens at which `read_event` returns an error whatever the depth: a reader error, and (since the repair of
`xml-illformed-accepted:pi-target`) a processing instruction with an illegal target -/
def QEv.stopsRun : QEv → Bool
  | .err => true
  | .pi c => !piTargetOk c
  | .start _ r => !startOk r
  | .empty _ r => !startOk r
  | _ => false

/-- such a token anywhere in the token sequence: `read_event` iterated ends with an error event -/
theorem deEventsAt_stops : ∀ (q : List QEv) (d : Nat), q.any QEv.stopsRun = true → ∃ l e, deEventsAt d q = l ++ [.bad e]
  | [], _, h => by simp at h
  | t :: q, d, h => by
    have ih : q.any QEv.stopsRun = true → ∀ d', ∃ l e, deEventsAt d' q = l ++ [.bad e] :=
      fun hq d' => deEventsAt_stops q d' hq
    simp only [List.any_cons, Bool.or_eq_true] at h
    cases t with
    | err => exact ⟨[], .invalidXml, by simp [deEventsAt]⟩
    | start n r =>
      by_cases hc : startOk r = true
      · obtain ⟨l, e, hl⟩ := ih (by simpa [QEv.stopsRun, hc] using h) (d + 1)
        exact ⟨.start n r :: l, e, by simp [deEventsAt, hl, hc]⟩
      · exact ⟨[], .invalidXml, by simp [deEventsAt, hc]⟩
    | stop n =>
      obtain ⟨l, e, hl⟩ := ih (by simpa [QEv.stopsRun] using h) (d - 1)
      exact ⟨.stop n :: l, e, by simp [deEventsAt, hl]⟩
    | empty n r =>
      by_cases hc : startOk r = true
      · obtain ⟨l, e, hl⟩ := ih (by simpa [QEv.stopsRun, hc] using h) d
        exact ⟨.start n r :: .stop n :: l, e, by simp [deEventsAt, hl, hc]⟩
      · exact ⟨[], .invalidXml, by simp [deEventsAt, hc]⟩
    | text raw =>
      obtain ⟨l, e, hl⟩ := ih (by simpa [QEv.stopsRun] using h) d
      by_cases hc : d = 0 ∧ raw.all isWs = false
      · exact ⟨[], .invalidContent, by simp [deEventsAt, hc]⟩
      · by_cases hce : hasCdataEnd raw = true
        · exact ⟨[], .invalidContent, by simp [deEventsAt, hc, hce]⟩
        · exact ⟨.text raw :: l, e, by simp only [deEventsAt, if_neg hc, if_neg hce, hl, List.cons_append]⟩
    | cdata c =>
      obtain ⟨l, e, hl⟩ := ih (by simpa [QEv.stopsRun] using h) d
      by_cases hc : d = 0
      · exact ⟨[], .invalidContent, by simp [deEventsAt, hc]⟩
      · exact ⟨.cdata c :: l, e, by simp only [deEventsAt, if_neg hc, hl, List.cons_append]⟩
    | comment => obtain ⟨l, e, hl⟩ := ih (by simpa [QEv.stopsRun] using h) d; exact ⟨l, e, by simp [deEventsAt, hl]⟩
    | decl => obtain ⟨l, e, hl⟩ := ih (by simpa [QEv.stopsRun] using h) d; exact ⟨l, e, by simp [deEventsAt, hl]⟩
    | pi c =>
      by_cases hc : piTargetOk c = true
      · obtain ⟨l, e, hl⟩ := ih (by simpa [QEv.stopsRun, hc] using h) d
        exact ⟨l, e, by simp [deEventsAt, hl, hc]⟩
      · exact ⟨[], .invalidContent, by simp [deEventsAt, hc]⟩
    | doctype => obtain ⟨l, e, hl⟩ := ih (by simpa [QEv.stopsRun] using h) d; exact ⟨l, e, by simp [deEventsAt, hl]⟩

/-- a reader error anywhere in the token sequence: `read_event` iterated ends with an error event -/
theorem deEventsAt_err (q : List QEv) (d : Nat) (h : QEv.err ∈ q) : ∃ l e, deEventsAt d q = l ++ [.bad e] :=
  deEventsAt_stops q d (List.any_eq_true.mpr ⟨.err, h, rfl⟩)

/-- the last event of an accepted document is the end tag of the root or a white-space text behind it -/
theorem decodeDoc_named_last (X : Ext) {root : Bytes} {s : Sch} {q : List QEv} {v : Val}
    (h : decodeDoc X (.named root) s (deEvents q) = .ok v) :
    ∃ ev, (deEvents q).getLast? = some ev ∧ (ev = .stop root ∨ ev.isWsText = true) := by
  obtain ⟨pre, a, body, post, mid, tail, he, _, hd, hm, _, ht⟩ := decodeDoc_named_clean X h
  obtain ⟨c, hc, _⟩ := decode_consumes X s a body v post hd
  have hev : deEvents q = (pre ++ .start root a :: c ++ mid) ++ (.stop root :: tail) := by
    rw [he, hc, hm]; simp
  rw [hev]
  cases hl : tail.getLast? with
  | none =>
    have : tail = [] := List.getLast?_eq_none_iff.mp hl
    subst this
    refine ⟨.stop root, ?_, Or.inl rfl⟩
    have : pre ++ .start root a :: c ++ mid ++ [.stop root] = (pre ++ .start root a :: c ++ mid) ++ [.stop root] := by simp
    rw [this, List.getLast?_concat]
  | some ev =>
    obtain ⟨ys, hys⟩ := List.getLast?_eq_some_iff.mp hl
    refine ⟨ev, ?_, Or.inr ?_⟩
    · rw [hys]
      have : pre ++ .start root a :: c ++ mid ++ .stop root :: (ys ++ [ev])
          = (pre ++ .start root a :: c ++ mid ++ .stop root :: ys) ++ [ev] := by simp
      rw [this, List.getLast?_concat]
    · rw [hys] at ht
      simpa using (List.all_eq_true.mp ht) ev (by simp)

/-- **an accepted document has no token at which `read_event` fails** -/
theorem decodeDoc_named_no_stop (X : Ext) {root : Bytes} {s : Sch} {q : List QEv} {v : Val}
    (h : decodeDoc X (.named root) s (deEvents q) = .ok v) : q.any QEv.stopsRun = false := by
  cases hs : q.any QEv.stopsRun with
  | false => rfl
  | true =>
    obtain ⟨l, e, hl⟩ := deEventsAt_stops q 0 hs
    obtain ⟨ev, hlast, hev⟩ := decodeDoc_named_last X h
    have : (deEvents q).getLast? = some (.bad e) := by
      show (deEventsAt 0 q).getLast? = _
      rw [hl, List.getLast?_concat]
    rw [this] at hlast
    cases hlast
    rcases hev with hev | hev
    · cases hev
    · simp [Ev.isWsText] at hev

/-- **an accepted document has no reader error anywhere**: every `<` of it opened a construct the tokeniser took -/
theorem decodeDoc_named_no_err (X : Ext) {root : Bytes} {s : Sch} {q : List QEv} {v : Val}
    (h : decodeDoc X (.named root) s (deEvents q) = .ok v) : QEv.err ∉ q := by
  intro herr
  have := decodeDoc_named_no_stop X h
  rw [List.any_eq_true.mpr ⟨.err, herr, rfl⟩] at this
  cases this

/-! ### processing instructions (XML 1.0 productions [16], [17]) -/

/-- [16] PI, on the text between `<?` and `?>`: a target that is a Name — the specification's `XmlSpec.isName` —
other than `xml` in any case, then nothing or white space and the rest -/
def PiBody (c : Bytes) : Prop :=
  ∃ target rest, c = target ++ rest ∧ XmlSpec.isName target = true ∧
    (rest = [] ∨ ∃ w r, rest = w :: r ∧ XmlSpec.isS w = true) ∧
    target.map XmlSpec.lowerAscii ≠ [120, 109, 108]

theorem isXmlName_eq (t : Bytes) : isXmlName t = XmlSpec.isName t := by
  cases t with
  | nil => rfl
  | cons c cs => rfl

theorem toLowerAscii_eq (b : UInt8) : toLowerAscii b = XmlSpec.lowerAscii b := by
  simp [toLowerAscii, XmlSpec.lowerAscii]

theorem isWs_eq_isS (b : UInt8) : isWs b = XmlSpec.isS b := by
  simp only [isWs, XmlSpec.isS]
  cases decide (b = 32) <;> cases decide (b = 13) <;> cases decide (b = 10) <;> cases decide (b = 9) <;> rfl

/-- the model's test on a processing instruction is what the specification demands of it -/
theorem piTargetOk_body {c : Bytes} (h : piTargetOk c = true) : PiBody c := by
  simp only [piTargetOk, Bool.and_eq_true, Bool.not_eq_true', beq_eq_false_iff_ne, ne_eq] at h
  obtain ⟨hname, hxml⟩ := h
  refine ⟨nameOf c, c.dropWhile (fun b => !isWs b), ?_, ?_, ?_, ?_⟩
  · simp [nameOf, List.takeWhile_append_dropWhile]
  · rw [← isXmlName_eq]; exact hname
  · have hd := List.head?_dropWhile_not (fun b => !isWs b) c
    cases hr : c.dropWhile (fun b => !isWs b) with
    | nil => exact Or.inl rfl
    | cons w r =>
      refine Or.inr ⟨w, r, rfl, ?_⟩
      rw [hr] at hd
      simp only [List.head?_cons, Bool.not_eq_false'] at hd
      rw [← isWs_eq_isS]; simpa using hd
  · intro heq
    apply hxml
    rw [← heq]
    exact List.map_congr_left (fun b _ => toLowerAscii_eq b)

/-- **every processing instruction of an accepted document is well-formed** -/
theorem decodeDoc_named_pi (X : Ext) {root : Bytes} {s : Sch} {q : List QEv} {v : Val}
    (h : decodeDoc X (.named root) s (deEvents q) = .ok v) {c : Bytes} (hc : QEv.pi c ∈ q) : PiBody c := by
  have hs := decodeDoc_named_no_stop X h
  have : QEv.stopsRun (.pi c) = false := by
    cases hp : QEv.stopsRun (.pi c) with
    | false => rfl
    | true => rw [List.any_eq_true.mpr ⟨.pi c, hc, hp⟩] at hs; cases hs
  apply piTargetOk_body
  simpa [QEv.stopsRun] using this

/-! ### attributes (XML 1.0 production [41], constraint *Unique Att Spec*) -/

/-- the clause attribute-syntax on the bytes that follow the element name in a start tag: a sequence of
`S* key S* '=' S* q value q` — `q` one of the two quotes, `value` free of it, `key` not empty and free of white
space — whose keys are pairwise distinct (and not among `seen`), followed by white space only -/
inductive AttrList : List Bytes → Bytes → Prop
  | done (seen : List Bytes) (r : Bytes) : r.all isWs = true → AttrList seen r
  | step (seen : List Bytes) (w1 key w2 w3 val rest : Bytes) (q : UInt8) :
      w1.all isWs = true → key ≠ [] → (∀ c ∈ key, isWs c = false) → w2.all isWs = true → w3.all isWs = true →
      (q = cQuot ∨ q = cApos) → (∀ c ∈ val, c ≠ q) → key ∉ seen → AttrList (key :: seen) rest →
      AttrList seen (w1 ++ key ++ w2 ++ 61 :: w3 ++ q :: val ++ q :: rest)

theorem drop_takeWhile_length (p : UInt8 → Bool) : ∀ (l : Bytes), l.drop (l.takeWhile p).length = l.dropWhile p
  | [] => rfl
  | c :: cs => by
    cases hp : p c with
    | true => simp [List.takeWhile, List.dropWhile, hp, drop_takeWhile_length p cs]
    | false => simp [List.takeWhile, List.dropWhile, hp]

theorem splitAtByte_some (x : UInt8) : ∀ (b val rest : Bytes), splitAtByte x b = some (val, rest) →
    b = val ++ x :: rest ∧ ∀ c ∈ val, c ≠ x
  | [], _, _, h => by simp [splitAtByte] at h
  | c :: cs, val, rest, h => by
    simp only [splitAtByte] at h
    by_cases hc : c = x
    · simp only [if_pos hc, Option.some.injEq, Prod.mk.injEq] at h
      obtain ⟨h1, h2⟩ := h
      subst h1 h2 hc
      simp
    · simp only [if_neg hc] at h
      cases hs : splitAtByte x cs with
      | none => simp [hs] at h
      | some pr =>
        obtain ⟨p1, r1⟩ := pr
        simp only [hs, Option.map_some, Option.some.injEq, Prod.mk.injEq] at h
        obtain ⟨h1, h2⟩ := h
        subst h1 h2
        obtain ⟨e, hv⟩ := splitAtByte_some x cs p1 r1 hs
        refine ⟨by rw [e]; simp, fun d hd => ?_⟩
        rcases List.mem_cons.mp hd with hd | hd
        · subst hd; exact hc
        · exact hv d hd

theorem mem_takeWhile_p (p : UInt8 → Bool) : ∀ (l : Bytes) (c : UInt8), c ∈ l.takeWhile p → p c = true
  | [], _, h => by simp at h
  | x :: xs, c, h => by
    cases hp : p x with
    | false => simp [List.takeWhile, hp] at h
    | true =>
      simp only [List.takeWhile, hp, List.mem_cons] at h
      rcases h with h | h
      · subst h; exact hp
      · exact mem_takeWhile_p p xs c h

theorem all_takeWhile (p : UInt8 → Bool) (l : Bytes) : (l.takeWhile p).all p = true := by
  rw [List.all_eq_true]
  intro c hc
  exact mem_takeWhile_p p l c hc

theorem split_ws (l : Bytes) : l = l.takeWhile isWs ++ l.dropWhile isWs := (List.takeWhile_append_dropWhile).symm

theorem dropWhile_head (p : UInt8 → Bool) (l : Bytes) (c : UInt8) (t : Bytes) (h : l.dropWhile p = c :: t) :
    p c = false := by
  have hh := List.head?_dropWhile_not p l
  rw [h] at hh
  simpa using hh

theorem attrAfterEq_some {x v : Bytes} (h : attrAfterEq x = some v) (hx : ∀ c r, x = c :: r → c = 61 ∨ isWs c = true) :
    ∃ w2, x = w2 ++ 61 :: v ∧ w2.all isWs = true := by
  cases x with
  | nil => simp [attrAfterEq] at h
  | cons c r =>
    simp only [attrAfterEq] at h
    by_cases hc : c = 61
    · simp only [if_pos hc, Option.some.injEq] at h
      subst h hc
      exact ⟨[], rfl, rfl⟩
    · simp only [if_neg hc] at h
      cases hdr : r.dropWhile isWs with
      | nil => simp [hdr] at h
      | cons e r' =>
        rw [hdr] at h
        by_cases he : e = 61
        · subst he
          simp only [Option.some.injEq] at h
          subst h
          refine ⟨c :: r.takeWhile isWs, ?_, ?_⟩
          · have := split_ws r
            rw [hdr] at this
            rw [List.cons_append, ← this]
          · rcases hx c r rfl with hcw | hcw
            · exact absurd hcw hc
            · simp [hcw, all_takeWhile]
        · exfalso
          split at h
          · rename_i heq; simp only [List.cons.injEq] at heq; exact he heq.1
          · cases h

theorem attrQuoted_some {v val rest : Bytes} (h : attrQuoted v = some (val, rest)) :
    ∃ w3 q, v = w3 ++ q :: val ++ q :: rest ∧ w3.all isWs = true ∧ (q = cQuot ∨ q = cApos) ∧ ∀ c ∈ val, c ≠ q := by
  unfold attrQuoted at h
  cases hdv : v.dropWhile isWs with
  | nil => simp [hdv] at h
  | cons q v' =>
    rw [hdv] at h
    simp only at h
    by_cases hq : (q = cQuot || q = cApos) = true
    · simp only [hq, if_true] at h
      obtain ⟨hv', hvq⟩ := splitAtByte_some q v' val rest h
      refine ⟨v.takeWhile isWs, q, ?_, all_takeWhile _ _, by simpa using hq, hvq⟩
      have := split_ws v
      rw [hdv, hv'] at this
      have e : List.takeWhile isWs v ++ q :: val ++ q :: rest = List.takeWhile isWs v ++ q :: (val ++ q :: rest) := by
        simp
      rw [e]; exact this
    · simp [hq] at h

/-- one step of quick-xml's attribute iterator that yields an attribute: what it consumed is
`S* key S* '=' S* q value q` -/
theorem attrNext_shape {b key val rest : Bytes} (h : attrNext b = some (some (key, val, rest))) :
    ∃ w1 w2 w3 q, b = w1 ++ key ++ w2 ++ 61 :: w3 ++ q :: val ++ q :: rest ∧ w1.all isWs = true ∧ key ≠ [] ∧
      (∀ c ∈ key, isWs c = false) ∧ w2.all isWs = true ∧ w3.all isWs = true ∧ (q = cQuot ∨ q = cApos) ∧
      (∀ c ∈ val, c ≠ q) := by
  unfold attrNext at h
  have hb := split_ws b
  cases hd : b.dropWhile isWs with
  | nil => simp [hd] at h
  | cons c0 t =>
    have hhead : isWs c0 = false := dropWhile_head isWs b c0 t hd
    rw [hd] at h hb
    simp only at h
    cases hae : attrAfterEq (t.drop (attrKeyTail t).length) with
    | none => simp [hae] at h
    | some v =>
      simp only [hae] at h
      cases haq : attrQuoted v with
      | none => simp [haq] at h
      | some pr =>
        obtain ⟨val', rest'⟩ := pr
        simp only [haq, Option.some.injEq, Prod.mk.injEq] at h
        obtain ⟨hk, hva, hre⟩ := h
        subst hva hre
        have hdrop : t.drop (attrKeyTail t).length = t.dropWhile (fun c => !(c = 61 || isWs c)) :=
          drop_takeWhile_length _ t
        obtain ⟨w2, hx, hw2⟩ := attrAfterEq_some hae (by
          intro c r hcr
          rw [hdrop] at hcr
          have := dropWhile_head _ t c r hcr
          have h2 : ¬ c = 61 → isWs c = true := by simpa using this
          by_cases h61 : c = 61
          · exact Or.inl h61
          · exact Or.inr (h2 h61))
        obtain ⟨w3, q, hv, hw3, hq, hvq⟩ := attrQuoted_some haq
        have ht : t = attrKeyTail t ++ t.drop (attrKeyTail t).length := by
          rw [hdrop]; exact (List.takeWhile_append_dropWhile).symm
        refine ⟨b.takeWhile isWs, w2, w3, q, ?_, all_takeWhile _ _, ?_, ?_, hw2, hw3, hq, hvq⟩
        · rw [← hk]
          conv => lhs; rw [hb, ht, hx, hv]
          simp
        · rw [← hk]; simp
        · rw [← hk]
          intro d hd'
          rcases List.mem_cons.mp hd' with hd' | hd'
          · subst hd'; exact hhead
          · have := mem_takeWhile_p _ t d hd'
            simp only [Bool.not_eq_true', Bool.or_eq_false_iff] at this
            exact this.2

/-- `check_attributes` passed: the bytes after the element name are a well-formed attribute list -/
theorem attrsOk_attrList : ∀ (fuel : Nat) (b : Bytes) (seen : List Bytes), b.length < fuel →
    attrsOk fuel b seen = true → AttrList seen b
  | 0, _, _, hf, _ => by simp at hf
  | fuel + 1, b, seen, hf, h => by
    simp only [attrsOk] at h
    cases hn : attrNext b with
    | none =>
      refine AttrList.done seen b ?_
      unfold attrNext at hn
      cases hd : b.dropWhile isWs with
      | nil =>
        have hb := split_ws b
        rw [hd, List.append_nil] at hb
        rw [hb]; exact all_takeWhile _ _
      | cons c0 t =>
        rw [hd] at hn
        simp only at hn
        split at hn
        · cases hn
        · split at hn <;> cases hn
    | some o =>
      cases o with
      | none => simp [hn] at h
      | some tr =>
        obtain ⟨key, val, rest⟩ := tr
        simp only [hn] at h
        by_cases hs : seen.contains key = true
        · simp only [hs, if_true] at h; cases h
        · simp only [hs, Bool.false_eq_true, if_false] at h
          obtain ⟨w1, w2, w3, q, hb, hw1, hk, hkw, hw2, hw3, hq, hv⟩ := attrNext_shape hn
          have hlen : rest.length < fuel := by
            have : b.length = (w1 ++ key ++ w2 ++ 61 :: w3 ++ q :: val ++ q :: rest).length := by rw [← hb]
            simp only [List.length_append, List.length_cons] at this
            omega
          rw [hb]
          exact AttrList.step seen w1 key w2 w3 val rest q hw1 hk hkw hw2 hw3 hq hv (by simpa using hs)
            (attrsOk_attrList fuel rest (key :: seen) hlen h)

/-- **every start tag of an accepted document has a well-formed attribute list** -/
theorem decodeDoc_named_attrs (X : Ext) {root : Bytes} {s : Sch} {q : List QEv} {v : Val}
    (h : decodeDoc X (.named root) s (deEvents q) = .ok v) {n r : Bytes} (hc : QEv.start n r ∈ q ∨ QEv.empty n r ∈ q) :
    AttrList [] r := by
  have hs := decodeDoc_named_no_stop X h
  have hok : startOk r = true := by
    cases hp : startOk r with
    | true => rfl
    | false =>
      rcases hc with hc | hc
      · rw [List.any_eq_true.mpr ⟨.start n r, hc, by simp [QEv.stopsRun, hp]⟩] at hs; cases hs
      · rw [List.any_eq_true.mpr ⟨.empty n r, hc, by simp [QEv.stopsRun, hp]⟩] at hs; cases hs
  exact attrsOk_attrList _ r [] (by omega) hok

end S3V.Xml
