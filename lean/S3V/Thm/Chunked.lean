import S3V.Model.Chunked
import S3V.Spec.Chunked
/-!
# Lemmas: the frame-level readers of `AwsChunkedStream` commute with concatenation

Stream abstraction: the state `(prev, fs)` of the Rust code (unread tail of the current frame, frames
still to come) stands for the byte string `prev ++ transportBytes fs` and the flag
`transportBroken fs`. Each reader, seen through that abstraction, is a function of the byte string
alone (`readMeta_abs`, `takeData_abs`, `readExpect_abs`, `readCrlf_abs`, `readData_abs`).
-/
namespace S3V.Chunked
open S3V S3V.ChunkedSpec

/-! ## header line -/

theorem splitNl_eq_splitLine (b : Bytes) : splitNl b = splitLine b := by
  induction b with
  | nil => simp [splitNl, splitLine]
  | cons c cs ih =>
    by_cases hc : c = 10
    · subst hc
      simp [splitNl, splitLine, LF]
    · have h1 : (c != LF) = true := by simp [LF, hc]
      rw [splitLine, if_neg hc, ← ih]
      simp only [splitNl, List.dropWhile_cons, List.takeWhile_cons, h1, if_true]
      cases List.dropWhile (fun x => x != LF) cs with
      | nil => rfl
      | cons x r => rfl

theorem splitLine_append_none {a : Bytes} (h : splitLine a = none) (b : Bytes) :
    splitLine (a ++ b) = (splitLine b).map fun (x, r) => (a ++ x, r) := by
  induction a with
  | nil =>
    show splitLine b = _
    cases splitLine b with
    | none => rfl
    | some p => rfl
  | cons c cs ih =>
    rw [splitLine] at h
    by_cases hc : c = 10
    · simp [hc] at h
    · rw [if_neg hc] at h
      have h' : splitLine cs = none := by
        cases hs : splitLine cs with
        | none => rfl
        | some p => rw [hs] at h; simp at h
      rw [List.cons_append, splitLine, if_neg hc, ih h']
      cases splitLine b with
      | none => rfl
      | some p => rfl

theorem splitLine_append_some {a x r : Bytes} (h : splitLine a = some (x, r)) (b : Bytes) :
    splitLine (a ++ b) = some (x, r ++ b) := by
  induction a generalizing x r with
  | nil => simp [splitLine] at h
  | cons c cs ih =>
    rw [splitLine] at h
    by_cases hc : c = 10
    · rw [if_pos hc] at h
      simp only [Option.some.injEq, Prod.mk.injEq] at h
      rw [List.cons_append, splitLine, if_pos hc, ← h.1, ← h.2]
    · rw [if_neg hc] at h
      cases hs : splitLine cs with
      | none => rw [hs] at h; simp at h
      | some p =>
        obtain ⟨x', r'⟩ := p
        rw [hs] at h
        simp only [Option.map_some, Option.some.injEq, Prod.mk.injEq] at h
        rw [List.cons_append, splitLine, if_neg hc, ih hs, ← h.1, ← h.2]
        rfl

/-- a header line is a non-empty prefix: the rest is strictly shorter -/
theorem splitLine_some_eq {bs l r : Bytes} (h : splitLine bs = some (l, r)) :
    bs = l ++ r ∧ ∃ l0, l = l0 ++ [10] ∧ (10 : UInt8) ∉ l0 := by
  induction bs generalizing l r with
  | nil => simp [splitLine] at h
  | cons c cs ih =>
    rw [splitLine] at h
    by_cases hc : c = 10
    · rw [if_pos hc] at h
      simp only [Option.some.injEq, Prod.mk.injEq] at h
      subst hc
      refine ⟨by rw [← h.1, ← h.2]; rfl, [], by rw [← h.1]; rfl, by simp⟩
    · rw [if_neg hc] at h
      cases hs : splitLine cs with
      | none => rw [hs] at h; simp at h
      | some p =>
        obtain ⟨x', r'⟩ := p
        rw [hs] at h
        simp only [Option.map_some, Option.some.injEq, Prod.mk.injEq] at h
        obtain ⟨e1, l0, e2, e3⟩ := ih hs
        refine ⟨by rw [← h.1, ← h.2, e1]; rfl, c :: l0, by rw [← h.1, e2]; rfl, ?_⟩
        simp only [List.mem_cons, not_or]
        exact ⟨fun h => hc h.symm, e3⟩

theorem splitLine_of_line {l0 : Bytes} (h : (10 : UInt8) ∉ l0) (r : Bytes) :
    splitLine (l0 ++ [10] ++ r) = some (l0 ++ [10], r) := by
  induction l0 with
  | nil => simp [splitLine]
  | cons c cs ih =>
    simp only [List.mem_cons, not_or] at h
    have hc : c ≠ 10 := fun e => h.1 e.symm
    simp only [List.cons_append, List.append_assoc] at ih ⊢
    rw [splitLine, if_neg hc, ih h.2]
    rfl

/-- what a reader sees of the stream, through the abstraction -/
inductive AbsMeta where
  | eof | err
  | ok (line rest : Bytes) (broken : Bool)
deriving DecidableEq

def MetaRes.abs : MetaRes → AbsMeta
  | .eof => .eof
  | .err => .err
  | .ok line prev fs => .ok line (prev ++ transportBytes fs) (transportBroken fs)

/-- the header reader on the concatenated stream -/
def specMeta (bs : Bytes) (broken : Bool) : AbsMeta :=
  match splitLine bs with
  | none => if broken then .err else .eof
  | some (l, r) => .ok l r broken

theorem readMetaGo_abs (fs : List Frame) (buf : Bytes) (hbuf : splitLine buf = none) :
    (readMetaGo fs buf).abs = specMeta (buf ++ transportBytes fs) (transportBroken fs) := by
  induction fs generalizing buf with
  | nil => simp [readMetaGo, MetaRes.abs, specMeta, transportBytes, transportBroken, hbuf]
  | cons f fs ih =>
    cases f with
    | err => simp [readMetaGo, MetaRes.abs, specMeta, transportBytes, transportBroken, hbuf]
    | data b =>
      simp only [readMetaGo, transportBytes, transportBroken, splitNl_eq_splitLine]
      cases hb : splitLine b with
      | none =>
        have hbb : splitLine (buf ++ b) = none := by rw [splitLine_append_none hbuf, hb]; rfl
        simp only []
        rw [ih _ hbb, List.append_assoc]
      | some p =>
        obtain ⟨x, r⟩ := p
        simp only [MetaRes.abs, specMeta]
        rw [splitLine_append_none hbuf, splitLine_append_some hb]
        rfl

theorem readMeta_abs (prev : Bytes) (fs : List Frame) :
    (readMeta prev fs).abs = specMeta (prev ++ transportBytes fs) (transportBroken fs) := by
  unfold readMeta
  rw [splitNl_eq_splitLine]
  cases hp : splitLine prev with
  | none => exact readMetaGo_abs fs prev hp
  | some p =>
    obtain ⟨x, r⟩ := p
    simp only [MetaRes.abs, specMeta]
    rw [splitLine_append_some hp]

/-! ## chunk data and the CR LF after it -/

inductive AbsRead where
  | eof | underlying | format
  | ok (data rest : Bytes) (broken : Bool)
deriving DecidableEq

def ReadRes.abs : ReadRes → AbsRead
  | .eof => .eof
  | .underlying => .underlying
  | .format => .format
  | .ok pieces prev fs => .ok pieces.flatten (prev ++ transportBytes fs) (transportBroken fs)

/-- running out of bytes, through the abstraction -/
def oob (broken : Bool) : AbsRead := if broken then .underlying else .eof

def specTake (n : Nat) (bs : Bytes) (broken : Bool) : AbsRead :=
  if bs.length < n then oob broken else .ok (bs.take n) (bs.drop n) broken

def specExpect (e : UInt8) (bs : Bytes) (broken : Bool) : AbsRead :=
  match bs with
  | [] => oob broken
  | x :: xs => if x = e then .ok [] xs broken else .format

/-- prefix the bytes already collected -/
def AbsRead.withData (acc : Bytes) : AbsRead → AbsRead
  | .ok d r b => .ok (acc ++ d) r b
  | o => o

theorem readDataGo_abs (fs : List Frame) (need : Nat) (hneed : 0 < need) (acc : List Bytes) :
    (readDataGo fs need acc).abs =
      (specTake need (transportBytes fs) (transportBroken fs)).withData acc.flatten := by
  induction fs generalizing need acc with
  | nil =>
    have : (0 : Nat) < need := hneed
    simp [readDataGo, ReadRes.abs, specTake, transportBytes, transportBroken, oob, AbsRead.withData, this]
  | cons f fs ih =>
    cases f with
    | err => simp [readDataGo, ReadRes.abs, specTake, transportBytes, transportBroken, oob, AbsRead.withData, hneed]
    | data b =>
      simp only [readDataGo, transportBytes, transportBroken]
      by_cases hle : need ≤ b.length
      · have h1 : ¬ (b ++ transportBytes fs).length < need := by simp; omega
        simp only [if_pos hle, ReadRes.abs, specTake, if_neg h1, AbsRead.withData]
        rw [List.take_append_of_le_length hle, List.drop_append_of_le_length hle]
        simp
      · rw [if_neg hle, ih (need - b.length) (by omega)]
        unfold specTake
        by_cases h2 : (transportBytes fs).length < need - b.length
        · have h3 : (b ++ transportBytes fs).length < need := by simp only [List.length_append]; omega
          rw [if_pos h2, if_pos h3]
          cases transportBroken fs <;> simp [oob, AbsRead.withData]
        · have h3 : ¬ (b ++ transportBytes fs).length < need := by simp only [List.length_append]; omega
          rw [if_neg h2, if_neg h3]
          have e1 : need = b.length + (need - b.length) := by omega
          simp only [AbsRead.withData]
          conv => rhs; rw [e1, List.take_length_add_append, List.drop_length_add_append]
          simp

theorem takeData_abs (prev : Bytes) (fs : List Frame) (n : Nat) :
    (takeData prev fs n).abs = specTake n (prev ++ transportBytes fs) (transportBroken fs) := by
  unfold takeData
  by_cases h0 : n = 0
  · subst h0; simp [ReadRes.abs, specTake]
  · rw [if_neg h0]
    by_cases hle : n ≤ prev.length
    · have h1 : ¬ (prev ++ transportBytes fs).length < n := by simp; omega
      simp only [if_pos hle, ReadRes.abs, specTake, if_neg h1]
      rw [List.take_append_of_le_length hle, List.drop_append_of_le_length hle]
      simp
    · rw [if_neg hle, readDataGo_abs fs (n - prev.length) (by omega)]
      unfold specTake
      by_cases h2 : (transportBytes fs).length < n - prev.length
      · have h3 : (prev ++ transportBytes fs).length < n := by simp only [List.length_append]; omega
        rw [if_pos h2, if_pos h3]
        cases transportBroken fs <;> simp [oob, AbsRead.withData]
      · have h3 : ¬ (prev ++ transportBytes fs).length < n := by simp only [List.length_append]; omega
        rw [if_neg h2, if_neg h3]
        have e1 : n = prev.length + (n - prev.length) := by omega
        simp only [AbsRead.withData]
        conv => rhs; rw [e1, List.take_length_add_append, List.drop_length_add_append]
        simp

theorem readExpect_abs (e : UInt8) (rem : Bytes) (fs : List Frame) :
    (readExpect e rem fs).abs = specExpect e (rem ++ transportBytes fs) (transportBroken fs) := by
  induction fs generalizing rem with
  | nil =>
    cases rem with
    | nil => simp [readExpect, ReadRes.abs, specExpect, transportBytes, transportBroken, oob]
    | cons x xs =>
      by_cases hx : x = e <;> simp [readExpect, ReadRes.abs, specExpect, transportBytes, transportBroken, hx]
  | cons f fs ih =>
    cases rem with
    | cons x xs =>
      by_cases hx : x = e <;> simp [readExpect, ReadRes.abs, specExpect, hx]
    | nil =>
      cases f with
      | err => simp [readExpect, ReadRes.abs, specExpect, transportBytes, transportBroken, oob]
      | data b =>
        simp only [readExpect, transportBytes, transportBroken, List.nil_append]
        exact ih b

/-- CR LF on the concatenated stream -/
def specCrlf (bs : Bytes) (broken : Bool) : AbsRead :=
  match specExpect CR bs broken with
  | .ok _ r b => specExpect LF r b
  | o => o

theorem readCrlf_slow_abs (rem : Bytes) (fs : List Frame) :
    (match readExpect CR rem fs with
      | .ok _ rem1 fs1 => readExpect LF rem1 fs1
      | r => r).abs = specCrlf (rem ++ transportBytes fs) (transportBroken fs) := by
  unfold specCrlf
  rw [← readExpect_abs]
  cases h : readExpect CR rem fs with
  | eof => rfl
  | underlying => rfl
  | format => rfl
  | ok p rem1 fs1 =>
    simp only [ReadRes.abs]
    exact readExpect_abs LF rem1 fs1

theorem readCrlf_abs (rem : Bytes) (fs : List Frame) :
    (readCrlf rem fs).abs = specCrlf (rem ++ transportBytes fs) (transportBroken fs) := by
  unfold readCrlf
  by_cases hf : rem.take 2 = [CR, LF]
  · rw [if_pos hf]
    match rem, hf with
    | a :: b :: r, hf =>
      simp only [List.take_succ_cons, List.take_zero, List.cons.injEq, and_true] at hf
      obtain ⟨ha, hb⟩ := hf
      subst ha; subst hb
      simp [ReadRes.abs, specCrlf, specExpect]
  · rw [if_neg hf]
    exact readCrlf_slow_abs rem fs

/-- the body of a chunk, through the abstraction -/
def bodyAbs (broken : Bool) : Body → AbsRead
  | .short => oob broken
  | .badCrlf => .format
  | .ok d r => .ok d r broken

theorem specTake_crlf_eq_chunkBody (n : Nat) (bs : Bytes) (broken : Bool) :
    (match specTake n bs broken with
      | .ok d r b => (match specCrlf r b with
        | .ok _ r2 b2 => AbsRead.ok d r2 b2
        | o => o)
      | o => o) = bodyAbs broken (chunkBody n bs) := by
  unfold specTake chunkBody
  by_cases hlt : bs.length < n
  · simp only [if_pos hlt, bodyAbs]
    cases broken <;> rfl
  · simp only [if_neg hlt]
    match hd : bs.drop n with
    | [] => simp only [specCrlf, specExpect, bodyAbs]; cases broken <;> rfl
    | [c1] =>
      by_cases h1 : c1 = 13
      · subst h1
        simp only [specCrlf, specExpect, CR, if_true, bodyAbs]
        cases broken <;> rfl
      · simp [specCrlf, specExpect, CR, h1, bodyAbs]
    | c1 :: c2 :: r2 =>
      by_cases h1 : c1 = 13
      · by_cases h2 : c2 = 10
        · simp [specCrlf, specExpect, CR, LF, h1, h2, bodyAbs]
        · simp [specCrlf, specExpect, CR, LF, h1, h2, bodyAbs]
      · simp [specCrlf, specExpect, CR, h1, bodyAbs]

theorem readData_abs (prev : Bytes) (fs : List Frame) (n : Nat) :
    (readData prev fs n).abs = bodyAbs (transportBroken fs) (chunkBody n (prev ++ transportBytes fs)) := by
  rw [← specTake_crlf_eq_chunkBody, ← takeData_abs]
  unfold readData
  cases h : takeData prev fs n with
  | eof => rfl
  | underlying => rfl
  | format => rfl
  | ok pieces rem fs1 =>
    simp only [ReadRes.abs]
    rw [← readCrlf_abs]
    cases h2 : readCrlf rem fs1 <;> rfl

end S3V.Chunked
