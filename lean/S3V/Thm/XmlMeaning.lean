import S3V.Spec.XmlMeaning
import S3V.Thm.XmlRoundtrip
import S3V.Thm.XmlUtf8b
import S3V.Thm.XmlEol
/-!
An accepted scalar element is given its XML meaning: whatever mix of text pieces with references, CDATA sections,
comments and PIs its character data is written as, and however its line ends are written (LF, CR LF, CR), the text
`Deserializer::text` hands to the scalar parser unescapes to the string the run denotes (code since c575458; line
ends since d365e05).
-/
namespace S3V.XmlSpec
open S3V S3V.Xml

theorem utf8Valid_nil : utf8Valid [] = true := by decide

/-! ### `read_event` inside an element (depth ≥ 1): character data passes, comments and PIs are skipped -/

/-- the model's `]]>` test on a text event is the specification's (`containsSub`) -/
theorem hasCdataEnd_eq : ∀ (raw : Bytes), hasCdataEnd raw = containsSub [93, 93, 62] raw
  | [] => by simp [hasCdataEnd, containsSub]
  | b :: bs => by simp [hasCdataEnd, containsSub, startsWith, hasCdataEnd_eq bs]

theorem hasCdataEnd_of_not {raw : Bytes} (h : ¬ containsSub [93, 93, 62] raw = true) : hasCdataEnd raw = false := by
  rw [hasCdataEnd_eq]; simpa using h

theorem deEventsAt_text_succ (d : Nat) (raw : Bytes) (t : List QEv) (h : hasCdataEnd raw = false) :
    deEventsAt (d + 1) (.text raw :: t) = .text raw :: deEventsAt (d + 1) t := by simp [deEventsAt, h]

theorem deEventsAt_cdata_succ (d : Nat) (c : Bytes) (t : List QEv) :
    deEventsAt (d + 1) (.cdata c :: t) = .cdata c :: deEventsAt (d + 1) t := by simp [deEventsAt]

theorem deEventsAt_stop_succ (d : Nat) (n : Bytes) (t : List QEv) :
    deEventsAt (d + 1) (.stop n :: t) = .stop n :: deEventsAt d t := by simp [deEventsAt]

theorem deEventsAt_comment (d : Nat) (t : List QEv) : deEventsAt d (.comment :: t) = deEventsAt d t := by
  simp [deEventsAt]

theorem deEventsAt_pi (d : Nat) (c : Bytes) (t : List QEv) (h : piTargetOk c = true) :
    deEventsAt d (.pi c :: t) = deEventsAt d t := by simp [deEventsAt, h]

/-- **no text event the deserialiser is handed holds `]]>`** — for every token sequence and every depth, whether the
text is read as the content of a scalar or skipped between elements -/
theorem deEventsAt_text_clean : ∀ (q : List QEv) (d : Nat) (raw : Bytes),
    Ev.text raw ∈ deEventsAt d q → containsSub [93, 93, 62] raw = false
  | [], _, _, h => by simp [deEventsAt] at h
  | .start n r :: t, d, raw, h => by
    simp only [deEventsAt] at h
    split at h
    · simp only [List.mem_cons, reduceCtorEq, false_or] at h
      exact deEventsAt_text_clean t (d + 1) raw h
    · simp at h
  | .stop n :: t, d, raw, h => by
    simp only [deEventsAt, List.mem_cons, reduceCtorEq, false_or] at h
    exact deEventsAt_text_clean t (d - 1) raw h
  | .empty n r :: t, d, raw, h => by
    simp only [deEventsAt] at h
    split at h
    · simp only [List.mem_cons, reduceCtorEq, false_or] at h
      exact deEventsAt_text_clean t d raw h
    · simp at h
  | .text x :: t, d, raw, h => by
    simp only [deEventsAt] at h
    split at h
    · simp at h
    · split at h
      · simp at h
      · rename_i hce
        simp only [List.mem_cons, Ev.text.injEq] at h
        rcases h with h | h
        · subst h
          rw [← hasCdataEnd_eq]
          simpa using hce
        · exact deEventsAt_text_clean t d raw h
  | .cdata c :: t, d, raw, h => by
    simp only [deEventsAt] at h
    split at h
    · simp at h
    · simp only [List.mem_cons, reduceCtorEq, false_or] at h
      exact deEventsAt_text_clean t d raw h
  | .err :: t, d, raw, h => by simp [deEventsAt] at h
  | .comment :: t, d, raw, h => by simp only [deEventsAt] at h; exact deEventsAt_text_clean t d raw h
  | .decl :: t, d, raw, h => by simp only [deEventsAt] at h; exact deEventsAt_text_clean t d raw h
  | .pi c :: t, d, raw, h => by
    simp only [deEventsAt] at h
    split at h
    · exact deEventsAt_text_clean t d raw h
    · simp at h
  | .doctype :: t, d, raw, h => by simp only [deEventsAt] at h; exact deEventsAt_text_clean t d raw h

/-- the meaning of a run is valid UTF-8 -/
theorem charsMeaning_valid : ∀ (run : List QEv) (m : Bytes), charsMeaning run = some m → utf8Valid m = true
  | [], m, h => by simp [charsMeaning] at h; subst h; exact utf8Valid_nil
  | .text raw :: r, m, h => by
    simp only [charsMeaning] at h
    split at h
    · cases h
    split at h
    · rename_i hv
      cases hu : unescape (normEol raw) with
      | none => simp [hu] at h
      | some a =>
        cases hr : charsMeaning r with
        | none => simp [hu, hr] at h
        | some b =>
          simp only [hu, hr, Option.some.injEq] at h
          subst h
          exact utf8Valid_append (utf8Valid_unescape (utf8Valid_normEol hv) hu) (charsMeaning_valid r b hr)
    · cases h
  | .cdata c :: r, m, h => by
    simp only [charsMeaning] at h
    split at h
    · rename_i hv
      simp only [Option.map_eq_some_iff] at h
      obtain ⟨b, hb, he⟩ := h
      subst he
      exact utf8Valid_append (utf8Valid_normEol hv) (charsMeaning_valid r b hb)
    · cases h
  | .comment :: r, m, h => charsMeaning_valid r m (by simpa [charsMeaning] using h)
  | .pi c :: r, m, h => by
    simp only [charsMeaning] at h
    split at h
    · exact charsMeaning_valid r m h
    · cases h
  | .start _ _ :: _, _, h | .stop _ :: _, _, h | .empty _ _ :: _, _, h
  | .decl :: _, _, h | .doctype :: _, _, h | .err :: _, _, h => by simp [charsMeaning] at h

theorem decodeStr_ok {raw a : Bytes} (hv : utf8Valid raw = true) (hu : unescape raw = some a) : decodeStr raw = .ok a := by
  simp [decodeStr, hv, hu]

theorem decodeStr_escape_valid {s : Bytes} (hs : utf8Valid s = true) : decodeStr (escape s) = .ok s :=
  decodeStr_escape (utf8Valid_escape hs)

/-- the loop of `Deserializer::text` once it is in the joined state -/
theorem textLoop_joined (name : Bytes) (rest : List QEv) (d : Nat) : ∀ (run : List QEv) (s m : Bytes),
    utf8Valid s = true → charsMeaning run = some m →
    textLoop none (some s) (deEventsAt (d + 1) (run ++ .stop name :: rest))
      = .ok (escape (s ++ m), .stop name :: deEventsAt d rest)
  | [], s, m, _, hm => by
    simp only [charsMeaning, Option.some.injEq] at hm
    subst hm
    simp [deEventsAt_stop_succ, textLoop]
  | .text raw :: r, s, m, hs, hm => by
    simp only [charsMeaning] at hm
    split at hm
    · cases hm
    rename_i hce
    split at hm
    · rename_i hv
      cases hu : unescape (normEol raw) with
      | none => simp [hu] at hm
      | some a =>
        cases hr : charsMeaning r with
        | none => simp [hu, hr] at hm
        | some b =>
          simp only [hu, hr, Option.some.injEq] at hm
          subst hm
          have hvn := utf8Valid_normEol hv
          have ih := textLoop_joined name rest d r (s ++ a) b
            (utf8Valid_append hs (utf8Valid_unescape hvn hu)) hr
          simp only [List.cons_append, deEventsAt_text_succ _ raw _ (hasCdataEnd_of_not hce), textLoop, Option.isNone_none, Option.isNone_some, Bool.and_false,
            Bool.false_eq_true, if_false, joinedText, Option.getD_some, normText_eq_normEol hv, decodeStr_ok hvn hu, ih,
            List.append_assoc]
    · cases hm
  | .cdata c :: r, s, m, hs, hm => by
    simp only [charsMeaning] at hm
    split at hm
    · rename_i hv
      simp only [Option.map_eq_some_iff] at hm
      obtain ⟨b, hb, he⟩ := hm
      subst he
      have ih := textLoop_joined name rest d r (s ++ normEol c) b (utf8Valid_append hs (utf8Valid_normEol hv)) hb
      simp only [List.cons_append, deEventsAt_cdata_succ, textLoop, joinedText, Option.getD_some, hv, if_true,
        normLineEnds_eq_normEol, ih, List.append_assoc]
    · cases hm
  | .comment :: r, s, m, hs, hm => by
    have := textLoop_joined name rest d r s m hs (by simpa [charsMeaning] using hm)
    simpa [deEventsAt_comment] using this
  | .pi c :: r, s, m, hs, hm => by
    simp only [charsMeaning] at hm
    split at hm
    · rename_i hpi
      have := textLoop_joined name rest d r s m hs hm
      simpa [deEventsAt_pi _ c _ hpi] using this
    · cases hm
  | .start _ _ :: _, _, _, _, hm | .stop _ :: _, _, _, _, hm | .empty _ _ :: _, _, _, _, hm
  | .decl :: _, _, _, _, hm | .doctype :: _, _, _, _, hm | .err :: _, _, _, _, hm => by simp [charsMeaning] at hm

/-- … while it still holds one text piece `x` untouched -/
theorem textLoop_single (name : Bytes) (rest : List QEv) (d : Nat) (x ax : Bytes) (hx : utf8Valid x = true)
    (hux : unescape x = some ax) : ∀ (run : List QEv) (m : Bytes), charsMeaning run = some m →
    ∃ raw, textLoop (some x) none (deEventsAt (d + 1) (run ++ .stop name :: rest))
        = .ok (raw, .stop name :: deEventsAt d rest) ∧
      decodeStr raw = .ok (ax ++ m)
  | [], m, hm => by
    simp only [charsMeaning, Option.some.injEq] at hm
    subst hm
    exact ⟨x, by simp [deEventsAt_stop_succ, textLoop], by simpa using decodeStr_ok hx hux⟩
  | .text raw :: r, m, hm => by
    simp only [charsMeaning] at hm
    split at hm
    · cases hm
    rename_i hce
    split at hm
    · rename_i hv
      cases hu : unescape (normEol raw) with
      | none => simp [hu] at hm
      | some a =>
        cases hr : charsMeaning r with
        | none => simp [hu, hr] at hm
        | some b =>
          simp only [hu, hr, Option.some.injEq] at hm
          subst hm
          have hvn := utf8Valid_normEol hv
          have hax := utf8Valid_unescape hx hux
          have ha := utf8Valid_unescape hvn hu
          have hj := textLoop_joined name rest d r (ax ++ a) b (utf8Valid_append hax ha) hr
          refine ⟨escape ((ax ++ a) ++ b), ?_, ?_⟩
          · simp only [List.cons_append, deEventsAt_text_succ _ raw _ (hasCdataEnd_of_not hce), textLoop, Option.isNone_none, Option.isNone_some, Bool.false_and,
              Bool.false_eq_true, if_false, joinedText, Option.getD_none, List.nil_append, decodeStr_ok hx hux,
              normText_eq_normEol hv, decodeStr_ok hvn hu, hj]
          · rw [List.append_assoc]
            exact decodeStr_escape_valid (utf8Valid_append hax (utf8Valid_append ha (charsMeaning_valid r b hr)))
    · cases hm
  | .cdata c :: r, m, hm => by
    simp only [charsMeaning] at hm
    split at hm
    · rename_i hv
      simp only [Option.map_eq_some_iff] at hm
      obtain ⟨b, hb, he⟩ := hm
      subst he
      have hax := utf8Valid_unescape hx hux
      have hvn := utf8Valid_normEol hv
      have hj := textLoop_joined name rest d r (ax ++ normEol c) b (utf8Valid_append hax hvn) hb
      refine ⟨escape ((ax ++ normEol c) ++ b), ?_, ?_⟩
      · simp only [List.cons_append, deEventsAt_cdata_succ, textLoop, joinedText, Option.getD_none, List.nil_append,
          decodeStr_ok hx hux, hv, if_true, normLineEnds_eq_normEol, hj]
      · rw [List.append_assoc]
        exact decodeStr_escape_valid (utf8Valid_append hax (utf8Valid_append hvn (charsMeaning_valid r b hb)))
    · cases hm
  | .comment :: r, m, hm => by
    have := textLoop_single name rest d x ax hx hux r m (by simpa [charsMeaning] using hm)
    simpa [deEventsAt_comment] using this
  | .pi c :: r, m, hm => by
    simp only [charsMeaning] at hm
    split at hm
    · rename_i hpi
      have := textLoop_single name rest d x ax hx hux r m hm
      simpa [deEventsAt_pi _ c _ hpi] using this
    · cases hm
  | .start _ _ :: _, _, hm | .stop _ :: _, _, hm | .empty _ _ :: _, _, hm
  | .decl :: _, _, hm | .doctype :: _, _, hm | .err :: _, _, hm => by simp [charsMeaning] at hm

/-- **`Deserializer::text` hands the scalar parser a text that unescapes to the meaning of the element's character
data** — for every run of text pieces, CDATA sections, comments and PIs -/
theorem textOf_meaning (name : Bytes) (rest : List QEv) (d : Nat) : ∀ (run : List QEv) (m : Bytes),
    charsMeaning run = some m →
    ∃ raw, textOf (deEventsAt (d + 1) (run ++ .stop name :: rest)) = .ok (raw, .stop name :: deEventsAt d rest) ∧
      decodeStr raw = .ok m
  | [], m, hm => by
    simp only [charsMeaning, Option.some.injEq] at hm
    subst hm
    exact ⟨[], by simp [textOf, deEventsAt_stop_succ, textLoop], by simp [decodeStr, utf8Valid_nil, unescape]⟩
  | .text raw :: r, m, hm => by
    simp only [charsMeaning] at hm
    split at hm
    · cases hm
    rename_i hce
    split at hm
    · rename_i hv
      cases hu : unescape (normEol raw) with
      | none => simp [hu] at hm
      | some a =>
        cases hr : charsMeaning r with
        | none => simp [hu, hr] at hm
        | some b =>
          simp only [hu, hr, Option.some.injEq] at hm
          subst hm
          obtain ⟨raw', h1, h2⟩ := textLoop_single name rest d (normEol raw) a (utf8Valid_normEol hv) hu r b hr
          refine ⟨raw', ?_, h2⟩
          simp only [textOf, List.cons_append, deEventsAt_text_succ _ raw _ (hasCdataEnd_of_not hce), textLoop, Option.isNone_none, Bool.and_self, if_true,
            normText_eq_normEol hv]
          exact h1
    · cases hm
  | .cdata c :: r, m, hm => by
    simp only [charsMeaning] at hm
    split at hm
    · rename_i hv
      simp only [Option.map_eq_some_iff] at hm
      obtain ⟨b, hb, he⟩ := hm
      subst he
      have hvn := utf8Valid_normEol hv
      have hj := textLoop_joined name rest d r (normEol c) b hvn hb
      refine ⟨escape (normEol c ++ b), ?_, decodeStr_escape_valid (utf8Valid_append hvn (charsMeaning_valid r b hb))⟩
      simp only [textOf, List.cons_append, deEventsAt_cdata_succ, textLoop, joinedText, Option.getD_none, List.nil_append, hv,
        if_true, normLineEnds_eq_normEol, hj]
    · cases hm
  | .comment :: r, m, hm => by
    have := textOf_meaning name rest d r m (by simpa [charsMeaning] using hm)
    simpa [deEventsAt_comment] using this
  | .pi c :: r, m, hm => by
    simp only [charsMeaning] at hm
    split at hm
    · rename_i hpi
      have := textOf_meaning name rest d r m hm
      simpa [deEventsAt_pi _ c _ hpi] using this
    · cases hm
  | .start _ _ :: _, _, hm | .stop _ :: _, _, hm | .empty _ _ :: _, _, hm
  | .decl :: _, _, hm | .doctype :: _, _, hm | .err :: _, _, hm => by simp [charsMeaning] at hm

/-- a string element is read as the string its character data denotes -/
theorem readString_meaning (X : Ext) (name a : Bytes) (rest : List QEv) (d : Nat) (run : List QEv) (m : Bytes)
    (hm : charsMeaning run = some m) :
    readStringElement X name a (deEventsAt (d + 1) (run ++ .stop name :: rest)) = .ok (.str m, deEventsAt d rest) := by
  obtain ⟨raw, h1, h2⟩ := textOf_meaning name rest d run m hm
  have hd : decode X .str a (deEventsAt (d + 1) (run ++ .stop name :: rest))
      = .ok (.str m, .stop name :: deEventsAt d rest) :=
    decode_scalar_ok X .str rfl h1 (by simp [decodeScalarText, h2, Except.map])
  simp [readStringElement, hd, expectEnd_stop]

end S3V.XmlSpec
