import S3V.Spec.XmlMeaning
import S3V.Thm.XmlRoundtrip
/-!
An accepted string element is given its XML meaning — when its character data is not interrupted.
-/
namespace S3V.XmlSpec
open S3V S3V.Xml

def QEv.isTextEv : QEv → Bool
  | .text _ => true
  | _ => false

def QEv.isNonEmptyCdata : QEv → Bool
  | .cdata c => !c.isEmpty
  | _ => false

/-- the excluded region of `C13_decode_meaning_partial`, as a decidable predicate: the run contains a non-empty CDATA
section (finding `xml-cdata-dropped`) or more than one text piece, i.e. text interrupted by a comment, PI or CDATA
section (finding `xml-comment-splits-text`) -/
def interrupted (run : List QEv) : Bool :=
  run.any QEv.isNonEmptyCdata || decide ((run.filter QEv.isTextEv).length > 1)

/-- a run without text and without non-empty CDATA denotes the empty string and is invisible to the deserialiser -/
theorem quiet_run (name : Bytes) (rest : List QEv) : ∀ (run : List QEv) (m : Bytes),
    charsMeaning run = some m → run.any QEv.isNonEmptyCdata = false → run.filter QEv.isTextEv = [] →
    m = [] ∧ deEvents (run ++ .stop name :: rest) = .stop name :: deEvents rest
  | [], m, hm, _, _ => by simp [charsMeaning] at hm; simp [hm, deEvents]
  | .text raw :: r, m, _, _, ht => by simp [QEv.isTextEv] at ht
  | .cdata c :: r, m, hm, hc, ht => by
    simp only [List.any_cons, Bool.or_eq_false_iff, QEv.isNonEmptyCdata, Bool.not_eq_false',
      List.isEmpty_iff] at hc
    simp only [charsMeaning, Option.map_eq_some_iff] at hm
    obtain ⟨m', hm', he⟩ := hm
    have := quiet_run name rest r m' hm' hc.2 (by simpa [QEv.isTextEv] using ht)
    subst he
    simp [hc.1, this.1, deEvents, this.2]
  | .comment :: r, m, hm, hc, ht => by
    have := quiet_run name rest r m (by simpa [charsMeaning] using hm) (by simpa [QEv.isNonEmptyCdata] using hc)
      (by simpa [QEv.isTextEv] using ht)
    simp [deEvents, this.1, this.2]
  | .pi :: r, m, hm, hc, ht => by
    have := quiet_run name rest r m (by simpa [charsMeaning] using hm) (by simpa [QEv.isNonEmptyCdata] using hc)
      (by simpa [QEv.isTextEv] using ht)
    simp [deEvents, this.1, this.2]
  | .start _ _ :: _, _, hm, _, _ | .stop _ :: _, _, hm, _, _ | .empty _ _ :: _, _, hm, _, _
  | .decl :: _, _, hm, _, _ | .doctype :: _, _, hm, _, _ | .err :: _, _, hm, _, _ => by simp [charsMeaning] at hm

theorem utf8Valid_nil : utf8Valid [] = true := by decide

theorem read_uninterrupted (X : Ext) (name : Bytes) (rest : List QEv) : ∀ (run : List QEv) (m : Bytes),
    charsMeaning run = some m → interrupted run = false →
    readStringElement X name (deEvents (run ++ .stop name :: rest)) = .ok (.str m, deEvents rest)
  | [], m, hm, _ => by
    simp only [charsMeaning, Option.some.injEq] at hm
    subst hm
    have hd : decode X .str (.stop name :: deEvents rest) = .ok (.str [], .stop name :: deEvents rest) :=
      decode_scalar_ok X .str (raw := []) rfl (by simp [textOf])
        (by simp [decodeScalarText, decodeStr, utf8Valid_nil, unescape, Except.map])
    simp [readStringElement, deEvents, hd, expectEnd_stop]
  | .text raw :: r, m, hm, hi => by
    simp only [interrupted, List.any_cons, QEv.isNonEmptyCdata, Bool.false_or, List.filter_cons, QEv.isTextEv,
      if_true, List.length_cons, Bool.or_eq_false_iff, decide_eq_false_iff_not] at hi
    have hnot : r.filter QEv.isTextEv = [] := by
      have : (r.filter QEv.isTextEv).length = 0 := by omega
      exact List.length_eq_zero_iff.mp this
    simp only [charsMeaning] at hm
    split at hm
    · rename_i hv
      cases hu : unescape raw with
      | none => simp [hu] at hm
      | some a =>
        cases hr : charsMeaning r with
        | none => simp [hu, hr] at hm
        | some b =>
          simp only [hu, hr, Option.some.injEq] at hm
          have hq := quiet_run name rest r b hr hi.1 hnot
          have hb : b = [] := hq.1
          subst hb
          simp only [List.append_nil] at hm
          subst hm
          have hd : decode X .str (.text raw :: .stop name :: deEvents rest) = .ok (.str a, .stop name :: deEvents rest) :=
            decode_scalar_ok X .str (raw := raw) rfl (by simp [textOf])
              (by simp [decodeScalarText, decodeStr, hv, hu, Except.map])
          simp [readStringElement, deEvents, hq.2, hd, expectEnd_stop]
    · cases hm
  | .cdata c :: r, m, hm, hi => by
    simp only [interrupted, List.any_cons, QEv.isNonEmptyCdata, List.filter_cons, QEv.isTextEv,
      Bool.or_eq_false_iff, Bool.not_eq_false', List.isEmpty_iff] at hi
    simp only [charsMeaning, Option.map_eq_some_iff] at hm
    obtain ⟨m', hm', he⟩ := hm
    have hc : c = [] := hi.1.1
    subst hc
    simp only [List.nil_append] at he
    subst he
    have h2 : ¬ (r.filter QEv.isTextEv).length > 1 := by simpa using hi.2
    have := read_uninterrupted X name rest r m' hm' (by simp [interrupted, hi.1.2]; omega)
    simpa [deEvents] using this
  | .comment :: r, m, hm, hi => by
    have := read_uninterrupted X name rest r m (by simpa [charsMeaning] using hm)
      (by simpa [interrupted, QEv.isNonEmptyCdata, QEv.isTextEv] using hi)
    simpa [deEvents] using this
  | .pi :: r, m, hm, hi => by
    have := read_uninterrupted X name rest r m (by simpa [charsMeaning] using hm)
      (by simpa [interrupted, QEv.isNonEmptyCdata, QEv.isTextEv] using hi)
    simpa [deEvents] using this
  | .start _ _ :: _, _, hm, _ | .stop _ :: _, _, hm, _ | .empty _ _ :: _, _, hm, _
  | .decl :: _, _, hm, _ | .doctype :: _, _, hm, _ | .err :: _, _, hm, _ => by simp [charsMeaning] at hm

end S3V.XmlSpec
