import S3V.Spec.Chunked
import S3V.Thm.ChunkedRefine
/-!
# Lemmas about the reference decoder alone (no frames here)

* `decodeGo_fuel`      : the fuel is irrelevant once it exceeds the number of bytes
* `decodeGo_structure` : whatever the input, the delivered bytes are the data of a list of well-formed
                         chunks that form a prefix of the input and verify in order from `prevSig`;
                         `complete` / `badSignature` come with the chunk that caused them
* `decodeGo_prefix`    : forward direction — a verified run of non-final chunks is delivered and
                         decoding continues behind it
-/
namespace S3V.ChunkedSpec
open S3V S3V.Chunked

theorem decodeGo_fuel (sig : Bytes → Bytes → Bytes) (declared : Nat) (broken : Bool) :
    ∀ (f1 f2 : Nat) (prevSig : Bytes) (total : Nat) (bs : Bytes), bs.length < f1 → bs.length < f2 →
      decodeGo sig declared broken f1 prevSig total bs = decodeGo sig declared broken f2 prevSig total bs := by
  intro f1
  induction f1 with
  | zero => intro f2 prevSig total bs h; omega
  | succ f1 ih =>
    intro f2 prevSig total bs h1 h2
    cases f2 with
    | zero => omega
    | succ f2 =>
      rw [decodeGo, decodeGo]
      cases hs : splitLine bs with
      | none => rfl
      | some p =>
        obtain ⟨line, rest⟩ := p
        simp only []
        cases hp : parseHeader line with
        | none => rfl
        | some q =>
          obtain ⟨n, s⟩ := q
          simp only []
          cases hcb : chunkBody n rest with
          | short => rfl
          | badCrlf => rfl
          | ok d r =>
            simp only []
            have hlen := chunkBody_ok_length hcb
            have hsl := (splitLine_some_eq hs).1
            have hr : r.length < bs.length := by rw [hsl, List.length_append]; omega
            rw [ih f2 s (total + n) r (by omega) (by omega)]

theorem chunkBody_ok_data_length {n : Nat} {rest d r : Bytes} (h : chunkBody n rest = .ok d r) :
    d.length = n := by
  have := chunkBody_ok_length h
  rw [this.2.1, List.length_take]
  omega

theorem wireOf_cons (c : Chunk) (cs : List Chunk) : wireOf (c :: cs) = c.wire ++ wireOf cs := by
  simp [wireOf]

theorem dataOf_cons (c : Chunk) (cs : List Chunk) : dataOf (c :: cs) = c.data ++ dataOf cs := by
  simp [dataOf]

theorem wireOf_append (a b : List Chunk) : wireOf (a ++ b) = wireOf a ++ wireOf b := by
  simp [wireOf]

theorem dataOf_append (a b : List Chunk) : dataOf (a ++ b) = dataOf a ++ dataOf b := by
  simp [dataOf]

theorem verified_append (sig : Bytes → Bytes → Bytes) (prev : Bytes) (a b : List Chunk) :
    Verified sig prev (a ++ b) ↔ Verified sig prev a ∧ Verified sig (chainEnd prev a) b := by
  induction a generalizing prev with
  | nil => simp [Verified, chainEnd]
  | cons c cs ih => simp [Verified, chainEnd, ih, and_assoc]

/-- the chunk at the head of `bs`, when the decoder gets through its header and body -/
theorem head_chunk {bs line rest d r s : Bytes} {n : Nat}
    (hs : splitLine bs = some (line, rest)) (hp : parseHeader line = some (n, s))
    (hcb : chunkBody n rest = .ok d r) :
    (Chunk.mk line s d).WF ∧ bs = (Chunk.mk line s d).wire ++ r := by
  obtain ⟨hbs, l0, hl0, hnl⟩ := splitLine_some_eq hs
  have hdl := chunkBody_ok_data_length hcb
  have hrest := (chunkBody_ok_length hcb).2.2
  refine ⟨⟨⟨l0, hl0, hnl⟩, ?_⟩, ?_⟩
  · simp only [hdl]; exact hp
  · simp only [Chunk.wire, crlf]
    rw [hbs, hrest]
    simp

/-- structure of every run of the reference decoder -/
theorem decodeGo_structure (sig : Bytes → Bytes → Bytes) (declared : Nat) (broken : Bool) :
    ∀ (fuel : Nat) (prevSig : Bytes) (total : Nat) (bs : Bytes),
      ∃ cs : List Chunk,
        (∀ c ∈ cs, c.WF ∧ c.data ≠ []) ∧ Verified sig prevSig cs ∧ wireOf cs <+: bs ∧
        (decodeGo sig declared broken fuel prevSig total bs).1 = dataOf cs ∧
        ((decodeGo sig declared broken fuel prevSig total bs).2 = .complete →
          ∃ fin : Chunk, fin.WF ∧ fin.data = [] ∧ fin.sgn = sig (chainEnd prevSig cs) [] ∧
            (wireOf cs ++ fin.wire) <+: bs ∧ total + (dataOf cs).length = declared) ∧
        ((decodeGo sig declared broken fuel prevSig total bs).2 = .badSignature →
          ∃ bad : Chunk, bad.WF ∧ (wireOf cs ++ bad.wire) <+: bs ∧
            bad.sgn ≠ sig (chainEnd prevSig cs) bad.data) := by
  intro fuel
  induction fuel with
  | zero =>
    intro prevSig total bs
    exact ⟨[], by simp, trivial, by simp [wireOf], by simp [decodeGo, dataOf],
      by simp [decodeGo], by simp [decodeGo]⟩
  | succ fuel ih =>
    intro prevSig total bs
    rw [decodeGo]
    have nil_case : ∀ r : Reason, r ≠ .complete → r ≠ .badSignature →
        ∃ cs : List Chunk,
          (∀ c ∈ cs, c.WF ∧ c.data ≠ []) ∧ Verified sig prevSig cs ∧ wireOf cs <+: bs ∧
          (([], r) : Bytes × Reason).1 = dataOf cs ∧
          ((([], r) : Bytes × Reason).2 = .complete →
            ∃ fin : Chunk, fin.WF ∧ fin.data = [] ∧ fin.sgn = sig (chainEnd prevSig cs) [] ∧
              (wireOf cs ++ fin.wire) <+: bs ∧ total + (dataOf cs).length = declared) ∧
          ((([], r) : Bytes × Reason).2 = .badSignature →
            ∃ bad : Chunk, bad.WF ∧ (wireOf cs ++ bad.wire) <+: bs ∧
              bad.sgn ≠ sig (chainEnd prevSig cs) bad.data) := by
      intro r h1 h2
      exact ⟨[], by simp, trivial, by simp [wireOf], by simp [dataOf],
        fun h => absurd h h1, fun h => absurd h h2⟩
    cases hs : splitLine bs with
    | none => cases broken <;> exact nil_case _ (by simp [outOfBytes]) (by simp [outOfBytes])
    | some p =>
      obtain ⟨line, rest⟩ := p
      simp only []
      cases hp : parseHeader line with
      | none => exact nil_case _ (by simp) (by simp)
      | some q =>
        obtain ⟨n, s⟩ := q
        simp only []
        cases hcb : chunkBody n rest with
        | short => cases broken <;> exact nil_case _ (by simp [outOfBytes]) (by simp [outOfBytes])
        | badCrlf => exact nil_case _ (by simp) (by simp)
        | ok d r =>
          simp only []
          obtain ⟨hwf, hbs⟩ := head_chunk hs hp hcb
          have hdl := chunkBody_ok_data_length hcb
          by_cases hsig : sig prevSig d ≠ s
          · rw [if_pos hsig]
            refine ⟨[], by simp, trivial, by simp [wireOf], by simp [dataOf], by simp, ?_⟩
            intro _
            refine ⟨⟨line, s, d⟩, hwf, ?_, ?_⟩
            · simp only [wireOf, List.map_nil, List.flatten_nil, List.nil_append]
              exact ⟨r, hbs.symm⟩
            · simp only [chainEnd]; exact fun h => hsig h.symm
          · rw [if_neg hsig]
            have hsig' : s = sig prevSig d := by
              simp only [ne_eq, Decidable.not_not] at hsig; exact hsig.symm
            by_cases hex : total + n > declared
            · rw [if_pos hex]; exact nil_case _ (by simp) (by simp)
            · rw [if_neg hex]
              by_cases hn : n = 0
              · rw [if_pos hn]
                have hd0 : d = [] := List.eq_nil_of_length_eq_zero (by omega)
                by_cases ht : total = declared
                · rw [if_pos ht]
                  refine ⟨[], by simp, trivial, by simp [wireOf], by simp [dataOf], ?_, by simp⟩
                  intro _
                  refine ⟨⟨line, s, d⟩, hwf, hd0, ?_, ?_, ?_⟩
                  · simp only [chainEnd]; rw [hsig', hd0]
                  · simp only [wireOf, List.map_nil, List.flatten_nil, List.nil_append]
                    exact ⟨r, hbs.symm⟩
                  · simp [dataOf, ht]
                · rw [if_neg ht]; exact nil_case _ (by simp) (by simp)
              · rw [if_neg hn]
                obtain ⟨cs, h1, h2, h3, h4, h5, h6⟩ := ih s (total + n) r
                have hdne : d ≠ [] := by
                  intro h; rw [h] at hdl; exact hn hdl.symm
                refine ⟨⟨line, s, d⟩ :: cs, ?_, ?_, ?_, ?_, ?_, ?_⟩
                · intro c hc
                  simp only [List.mem_cons] at hc
                  rcases hc with hc | hc
                  · subst hc; exact ⟨hwf, hdne⟩
                  · exact h1 c hc
                · exact ⟨hsig', h2⟩
                · rw [wireOf_cons, hbs]
                  exact (List.prefix_append_right_inj _).mpr h3
                · simp only [dataOf_cons, h4]
                · intro hc
                  obtain ⟨fin, f1, f2, f3, f4, f5⟩ := h5 hc
                  refine ⟨fin, f1, f2, f3, ?_, ?_⟩
                  · rw [wireOf_cons, hbs, List.append_assoc]
                    exact (List.prefix_append_right_inj _).mpr f4
                  · rw [dataOf_cons, List.length_append, hdl]; omega
                · intro hc
                  obtain ⟨bad, b1, b2, b3⟩ := h6 hc
                  refine ⟨bad, b1, ?_, b3⟩
                  rw [wireOf_cons, hbs, List.append_assoc]
                  exact (List.prefix_append_right_inj _).mpr b2

/-- delivered bytes never exceed the declared length -/
theorem decodeGo_le_declared (sig : Bytes → Bytes → Bytes) (declared : Nat) (broken : Bool) :
    ∀ (fuel : Nat) (prevSig : Bytes) (total : Nat) (bs : Bytes), total ≤ declared →
      total + (decodeGo sig declared broken fuel prevSig total bs).1.length ≤ declared := by
  intro fuel
  induction fuel with
  | zero => intro prevSig total bs h; simp [decodeGo, h]
  | succ fuel ih =>
    intro prevSig total bs h
    rw [decodeGo]
    cases hs : splitLine bs with
    | none => simpa using h
    | some p =>
      obtain ⟨line, rest⟩ := p
      simp only []
      cases hp : parseHeader line with
      | none => simpa using h
      | some q =>
        obtain ⟨n, s⟩ := q
        simp only []
        cases hcb : chunkBody n rest with
        | short => simpa using h
        | badCrlf => simpa using h
        | ok d r =>
          simp only []
          have hdl := chunkBody_ok_data_length hcb
          split
          · simpa using h
          · split
            · simpa using h
            · rename_i hex
              split
              · split <;> simpa using h
              · have := ih s (total + n) r (by omega)
                simp only [List.length_append, hdl]
                omega

/-- a chunk at the head of the input is read as that chunk -/
theorem chunk_at_head {c : Chunk} (hwf : c.WF) (tail : Bytes) :
    splitLine (c.wire ++ tail) = some (c.line, c.data ++ crlf ++ tail) ∧
    chunkBody c.data.length (c.data ++ crlf ++ tail) = .ok c.data tail := by
  obtain ⟨⟨l0, hl0, hnl⟩, _⟩ := hwf
  constructor
  · have := splitLine_of_line hnl (c.data ++ crlf ++ tail)
    rw [← hl0] at this
    simp only [Chunk.wire, List.append_assoc] at this ⊢
    exact this
  · unfold chunkBody
    have h1 : ¬ (c.data ++ crlf ++ tail).length < c.data.length := by
      simp only [List.length_append]; omega
    rw [if_neg h1]
    have h2 : (c.data ++ crlf ++ tail).drop c.data.length = 13 :: 10 :: tail := by
      rw [List.append_assoc, List.drop_left]; rfl
    have h3 : (c.data ++ crlf ++ tail).take c.data.length = c.data := by
      rw [List.append_assoc, List.take_left]
    rw [h2, h3]
    simp

/-- forward direction: a verified run of non-final chunks within the declared length is delivered,
    and decoding continues behind it with the chain value and total they leave -/
theorem decodeGo_prefix (sig : Bytes → Bytes → Bytes) (declared : Nat) (broken : Bool) :
    ∀ (cs : List Chunk) (prevSig : Bytes) (total : Nat) (tail : Bytes) (fuel : Nat),
      (∀ c ∈ cs, c.WF ∧ c.data ≠ []) → Verified sig prevSig cs →
      total + (dataOf cs).length ≤ declared → (wireOf cs ++ tail).length < fuel →
      decodeGo sig declared broken fuel prevSig total (wireOf cs ++ tail) =
        (dataOf cs ++ (decodeGo sig declared broken fuel (chainEnd prevSig cs)
            (total + (dataOf cs).length) tail).1,
         (decodeGo sig declared broken fuel (chainEnd prevSig cs) (total + (dataOf cs).length) tail).2) := by
  intro cs
  induction cs with
  | nil => intro prevSig total tail fuel _ _ _ _; simp [wireOf, dataOf, chainEnd]
  | cons c cs ih =>
    intro prevSig total tail fuel hwf hver htot hfuel
    have hc := hwf c (List.mem_cons_self ..)
    obtain ⟨hsgn, hver'⟩ := hver
    cases fuel with
    | zero => omega
    | succ fuel =>
      rw [decodeGo]
      rw [wireOf_cons, List.append_assoc]
      obtain ⟨h1, h2⟩ := chunk_at_head hc.1 (wireOf cs ++ tail)
      rw [h1]
      simp only []
      rw [hc.1.2]
      simp only []
      rw [h2]
      simp only []
      have hne : c.data.length ≠ 0 := fun h => hc.2 (List.eq_nil_of_length_eq_zero h)
      rw [dataOf_cons, List.length_append] at htot
      rw [if_neg (by simp [hsgn]), if_neg (by omega), if_neg hne]
      have hlen : (wireOf cs ++ tail).length < fuel := by
        rw [wireOf_cons, List.append_assoc, List.length_append] at hfuel
        have : 0 < c.wire.length := by simp [Chunk.wire, crlf]; omega
        omega
      have hlen2 : tail.length < fuel := by
        rw [List.length_append] at hlen; omega
      rw [ih c.sgn (total + c.data.length) tail fuel (fun x hx => hwf x (List.mem_cons_of_mem _ hx)) hver'
        (by omega) hlen]
      simp only [chainEnd, dataOf_cons, List.length_append, List.append_assoc, Nat.add_assoc]
      rw [decodeGo_fuel sig declared broken fuel (fuel + 1) _ _ tail hlen2 (by omega)]

/-! ## the model through the refinement -/

theorem decodeStream_refines (sig : Bytes → Bytes → Bytes) (seed : Bytes) (declared : Nat) (frames : List Frame) :
    (decodeStream sig seed declared frames).delivered.flatten =
        (decode sig seed declared (transportBytes frames) (transportBroken frames)).1 ∧
    (decodeStream sig seed declared frames).terminal =
        (decode sig seed declared (transportBytes frames) (transportBroken frames)).2 := by
  have h := run_refines sig declared ((transportBytes frames).length + 1) ((transportBytes frames).length + 1)
    [] frames seed 0 (by simp) (by simp)
  simpa [decodeStream, decode, decodeR] using h

theorem transportBytes_data (fs : List Bytes) : transportBytes (fs.map Frame.data) = fs.flatten := by
  induction fs with
  | nil => rfl
  | cons f fs ih => simp [transportBytes, ih]

theorem transportBroken_data (fs : List Bytes) : transportBroken (fs.map Frame.data) = false := by
  induction fs with
  | nil => rfl
  | cons f fs ih => simp [transportBroken, ih]

variable (sig : Bytes → Bytes → Bytes) in
/-- the stream of a transport that starts with verified non-final chunks `cs` (within the declared
    length) followed by anything: the model's outcome in terms of the reference decoder on the tail -/
theorem decodeStream_prefix (seed : Bytes) (declared : Nat) (frames : List Frame) (cs : List Chunk)
    (tail : Bytes) (hwf : ∀ c ∈ cs, c.WF ∧ c.data ≠ []) (hver : Verified sig seed cs)
    (hlen : (dataOf cs).length ≤ declared) (hbytes : transportBytes frames = wireOf cs ++ tail) :
    (decodeStream sig seed declared frames).delivered.flatten =
      dataOf cs ++ (decodeGo sig declared (transportBroken frames) (tail.length + 1) (chainEnd seed cs)
        (dataOf cs).length tail).1 ∧
    (decodeStream sig seed declared frames).terminal =
      (decodeGo sig declared (transportBroken frames) (tail.length + 1) (chainEnd seed cs)
        (dataOf cs).length tail).2.terminal := by
  obtain ⟨h1, h2⟩ := decodeStream_refines sig seed declared frames
  have hp := decodeGo_prefix sig declared (transportBroken frames) cs seed 0 tail
    ((wireOf cs ++ tail).length + 1) hwf hver (by omega) (by omega)
  have hf := decodeGo_fuel sig declared (transportBroken frames) ((wireOf cs ++ tail).length + 1)
    (tail.length + 1) (chainEnd seed cs) (0 + (dataOf cs).length) tail
    (by simp only [List.length_append]; omega) (by omega)
  rw [hf] at hp
  simp only [decode, decodeR, hbytes] at h1 h2
  rw [hp] at h1 h2
  simp only [Nat.zero_add] at h1 h2
  exact ⟨h1, h2⟩

end S3V.ChunkedSpec
