import S3V.Thm.SigV4Tamper
/-!
# Lemma: the canonical parameter list does not depend on the order in which the parameters arrive
-/
namespace S3V.SigV4
open S3V

theorem pairLe_def (a b : Bytes × Bytes) :
    SigV4Spec.pairLe a b = (bLt a.1 b.1 || (decide (a.1 = b.1) && !bLt b.2 a.2)) := by
  simp [SigV4Spec.pairLe, SigV4Spec.strLe, strLt_eq_bLt]

theorem pairLe_total {a b : Bytes × Bytes} (h : SigV4Spec.pairLe a b = false) : SigV4Spec.pairLe b a = true := by
  rw [pairLe_def] at h ⊢
  simp only [Bool.or_eq_false_iff, Bool.and_eq_false_iff, decide_eq_false_iff_not, Bool.not_eq_false'] at h
  obtain ⟨h1, h2⟩ := h
  by_cases he : a.1 = b.1
  · rcases h2 with h2 | h2
    · exact absurd he h2
    · simp [he, bLt_asymm h2]
  · cases hba : bLt b.1 a.1 with
    | true => simp
    | false => exact absurd (bLt_total h1 hba) he

theorem pairLe_antisymm {a b : Bytes × Bytes} (h1 : SigV4Spec.pairLe a b = true) (h2 : SigV4Spec.pairLe b a = true) :
    a = b := by
  rw [pairLe_def] at h1 h2
  simp only [Bool.or_eq_true, Bool.and_eq_true, decide_eq_true_eq, Bool.not_eq_true'] at h1 h2
  rcases h1 with h1 | ⟨e1, n1⟩
  · rcases h2 with h2 | ⟨e2, _⟩
    · rw [bLt_asymm h1] at h2; cases h2
    · rw [e2, bLt_irrefl] at h1; cases h1
  · rcases h2 with h2 | ⟨_, n2⟩
    · rw [e1, bLt_irrefl] at h2; cases h2
    · exact Prod.ext e1 (bLt_total n2 n1)

theorem pairLe_trans {a b c : Bytes × Bytes} (h1 : SigV4Spec.pairLe a b = true) (h2 : SigV4Spec.pairLe b c = true) :
    SigV4Spec.pairLe a c = true := by
  rw [pairLe_def] at h1 h2 ⊢
  simp only [Bool.or_eq_true, Bool.and_eq_true, decide_eq_true_eq, Bool.not_eq_true'] at h1 h2 ⊢
  rcases h1 with h1 | ⟨e1, n1⟩
  · rcases h2 with h2 | ⟨e2, _⟩
    · exact Or.inl (bLt_trans h1 h2)
    · exact Or.inl (e2 ▸ h1)
  · rcases h2 with h2 | ⟨e2, n2⟩
    · exact Or.inl (e1 ▸ h2)
    · exact Or.inr ⟨e1.trans e2, bLe_trans' n1 n2⟩

theorem insertPair_perm (x : Bytes × Bytes) (l : List (Bytes × Bytes)) : (SigV4Spec.insertPair x l).Perm (x :: l) := by
  induction l with
  | nil => exact List.Perm.refl _
  | cons y ys ih =>
    simp only [SigV4Spec.insertPair]
    split
    · exact List.Perm.refl _
    · exact (List.Perm.cons y ih).trans (List.Perm.swap x y ys)

theorem sortPairs_perm (l : List (Bytes × Bytes)) : (SigV4Spec.sortPairs l).Perm l := by
  induction l with
  | nil => exact List.Perm.refl _
  | cons x xs ih => exact (insertPair_perm x _).trans (List.Perm.cons x ih)

theorem insertPair_sorted {x : Bytes × Bytes} {l : List (Bytes × Bytes)}
    (h : l.Pairwise (fun a b => SigV4Spec.pairLe a b = true)) :
    (SigV4Spec.insertPair x l).Pairwise (fun a b => SigV4Spec.pairLe a b = true) := by
  induction l with
  | nil => simp [SigV4Spec.insertPair]
  | cons y ys ih =>
    rw [List.pairwise_cons] at h
    simp only [SigV4Spec.insertPair]
    split
    · rename_i hxy
      rw [List.pairwise_cons, List.pairwise_cons]
      refine ⟨?_, h⟩
      intro z hz
      rcases List.mem_cons.mp hz with rfl | hz
      · exact hxy
      · exact pairLe_trans hxy (h.1 z hz)
    · rename_i hxy
      have hyx : SigV4Spec.pairLe y x = true := pairLe_total (by simpa using hxy)
      rw [List.pairwise_cons]
      refine ⟨?_, ih h.2⟩
      intro z hz
      have hz' := (insertPair_perm x ys).subset hz
      rcases List.mem_cons.mp hz' with rfl | hz'
      · exact hyx
      · exact h.1 z hz'

theorem sortPairs_sorted (l : List (Bytes × Bytes)) :
    (SigV4Spec.sortPairs l).Pairwise (fun a b => SigV4Spec.pairLe a b = true) := by
  induction l with
  | nil => simp [SigV4Spec.sortPairs]
  | cons x xs ih => exact insertPair_sorted ih

theorem sortPairs_of_perm {l₁ l₂ : List (Bytes × Bytes)} (h : l₁.Perm l₂) :
    SigV4Spec.sortPairs l₁ = SigV4Spec.sortPairs l₂ :=
  List.Perm.eq_of_pairwise (fun _ _ _ _ h1 h2 => pairLe_antisymm h1 h2) (sortPairs_sorted l₁) (sortPairs_sorted l₂)
    ((sortPairs_perm l₁).trans (h.trans (sortPairs_perm l₂).symm))

/-- the parameters are signed as a multiset: any reordering gives the same canonical parameter list -/
theorem encodedQuery_of_perm {q₁ q₂ : List (Bytes × Bytes)} (h : q₁.Perm q₂) : encodedQuery q₁ = encodedQuery q₂ :=
  sortPairs_of_perm (h.map _)

theorem view_of_query_perm {r r' : SigV4Spec.Request} (hm : r.method = r'.method) (hp : r.path = r'.path)
    (hq : r.query.Perm r'.query) (hh : r.headers = r'.headers) (hs : r.signedHeaders = r'.signedHeaders)
    (hpl : r.payload = r'.payload) : signedView r = signedView r' := by
  unfold signedView
  rw [hm, hp, hh, hs, hpl, encodedQuery_of_perm hq]

end S3V.SigV4
