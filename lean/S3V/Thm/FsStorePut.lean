import S3V.Thm.FsStoreNames
/-!
# C18: `put_object` refines the store (+ the predicates on names shared by all operations)
-/
namespace S3V.FsStore
open S3V.StoreSpec

/-- bucket names on which both sides agree: admissible (then the directory is the name itself), or refused by both -/
def NameOk (b : Bytes) : Prop := bucketOk b = true ∨ bucketDir b = none

/-- keys on which both sides agree: the canonical text of a path (no empty or `.` segments, no trailing
    slash), or a key both refuse -/
def CanonKey (k : Bytes) : Prop :=
  endsWithSlash k = false ∧
  match keyPath k with
  | none => True
  | some p => joinWith [slash] p = k

instance (b : Bytes) : Decidable (NameOk b) := by unfold NameOk; infer_instance
instance (k : Bytes) : Decidable (CanonKey k) := by unfold CanonKey; split <;> infer_instance
instance (t : Tree) (p : Path) : Decidable (WriteOk t p) := by unfold WriteOk; infer_instance

theorem NameOk.cases {b : Bytes} (h : NameOk b) :
    (bucketOk b = true ∧ bucketDir b = some b) ∨ (bucketOk b = false ∧ bucketDir b = none) := by
  rcases h with h | h
  · exact Or.inl ⟨h, bucketDir_of_bucketOk h⟩
  · right
    refine ⟨?_, h⟩
    cases hb : bucketOk b with
    | false => rfl
    | true => rw [bucketDir_of_bucketOk hb] at h; simp at h

theorem checksOk_eq (H : Hashes) (c : Bytes) (x : Cks) : StoreSpec.checksOk H c x = FsStore.checksOk H c x := rfl

/-- `put_object` may be compared with the store: names agree, the side-file names fit [else
    fs:long-key-internal-error: since c3dcb24 such a key is refused with `KeyTooLongError` before anything is written — the
    store accepts it], the key is canonical [fs:key-normalised, fs:directory-key] and, when the bucket exists,
    its path is free (prefix-freedom; fs:leftover-directory) -/
def PutOk (s : State) (b k : Bytes) : Prop :=
  NameOk b ∧ CanonKey k ∧ sideTooLong b k false = false ∧
  (bucketOk b = true →
    match s.tree b with
    | none => True
    | some t =>
      match keyPath k with
      | none => True
      | some p => WriteOk t p)

theorem abs_uploads_congr {s s' : State} (h1 : s'.uploads = s.uploads) (h2 : s'.upMetas = s.upMetas)
    (h3 : s'.parts = s.parts) : (abs s').uploads = (abs s).uploads := by
  unfold abs
  simp only
  rw [h1]
  apply List.map_congr_left
  intro e _
  simp [absUpload, absParts, h2, h3]

theorem Store.ext' {a b : Store} (h1 : a.buckets = b.buckets) (h2 : a.uploads = b.uploads) (h3 : a.issued = b.issued) :
    a = b := by
  cases a; cases b; simp at *; exact ⟨h1, h2, h3⟩

/-- the bucket-related part of the invariant after a file write -/
theorem inv_write_buckets {s : State} (hi : Inv s) {b : Bytes} {t ds : Tree} {p : Path} {c : Bytes}
    (ht : s.tree b = some t) (hp : PathOk p)
    (hds : ∀ e ∈ ds, e.2 = Node.dir ∧ e.1 ∈ prefixes p.dropLast) (hnd : keysNodup (t ++ ds))
    {bs : List (Bytes × Tree)} (hb : bs = alInsert b (alInsert p (.file c) (t ++ ds)) s.buckets) :
    keysNodup bs ∧ (∀ e ∈ bs, keysNodup e.2) ∧ (∀ e ∈ bs, ∀ x ∈ e.2, PathOk x.1) := by
  have hmem := tree_mem ht
  subst hb
  refine ⟨keysNodup_alInsert hi.bnd, ?_, ?_⟩
  · intro e he
    rcases alInsert_mem he with he | he
    · subst he; exact keysNodup_alInsert hnd
    · exact hi.tnd e he
  · intro e he x hx
    rcases alInsert_mem he with he | he
    · subst he
      rcases alInsert_mem hx with hx | hx
      · subst hx; exact hp
      · rcases List.mem_append.mp hx with hx | hx
        · exact hi.paths _ hmem _ hx
        · exact (hp.prefix_dropLast (hds x hx).2).1
    · exact hi.paths e he x hx

/-- abstraction and invariant after the successful path of `put_object` -/
theorem put_core {s s' : State} (hi : Inv s) {b k c : Bytes} {md : Option Meta} {cks : Cks} {t ds : Tree} {p : Path}
    (ht : s.tree b = some t) (hp : PathOk p) (hcanon : joinWith [slash] p = k) (hw : t.node p ≠ some Node.dir)
    (hds : ∀ e ∈ ds, e.2 = Node.dir ∧ e.1 ∈ prefixes p.dropLast) (hnd : keysNodup (t ++ ds))
    (hb' : s'.buckets = alInsert b (alInsert p (.file c) (t ++ ds)) s.buckets)
    (hmetas : s'.metas = md.elim (alErase (b, k) s.metas) (fun m => alInsert (b, k) (.good m) s.metas))
    (hinfos : s'.infos = alInsert (b, k) cks s.infos)
    (hu : s'.uploads = s.uploads) (hpa : s'.parts = s.parts) (hum : s'.upMetas = s.upMetas)
    (hiss : s'.issued = s.issued) :
    abs s' = (abs s).setObj b k ⟨c, md.getD [], cks⟩ ∧ Inv s' := by
  have habs : (abs s).bucket b = some (absTree s b t) := by rw [abs_bucket, ht]; rfl
  have hm : ∀ x, x ≠ (b, k) → alLookup x s'.metas = alLookup x s.metas := by
    intro x hx
    rw [hmetas]
    cases md with
    | none => exact alLookup_alErase_ne hx _
    | some m => exact alLookup_alInsert_ne hx _ _
  have hin : ∀ x, x ≠ (b, k) → alLookup x s'.infos = alLookup x s.infos := by
    intro x hx
    rw [hinfos]; exact alLookup_alInsert_ne hx _ _
  constructor
  · apply Store.ext'
    · rw [abs_write hi ht hp hcanon hw hds hnd hb' hm hin]
      unfold Store.setObj
      simp only [habs, Option.getD_some]
      congr 2
      have h1 : absMeta s' b k = md.getD [] := by
        unfold absMeta
        rw [hmetas]
        cases md with
        | none => simp [alLookup_alErase_self]
        | some m => simp [alLookup_alInsert_self]
      have h2 : (alLookup (b, k) s'.infos).getD {} = cks := by
        rw [hinfos, alLookup_alInsert_self]; rfl
      rw [h1, h2]
    · unfold Store.setObj
      exact abs_uploads_congr hu hum hpa
    · unfold Store.setObj
      show s'.issued = s.issued
      exact hiss
  · obtain ⟨i1, i2, i3⟩ := inv_write_buckets hi ht hp hds hnd hb'
    refine ⟨i1, i2, i3, ?_, ?_, ?_, ?_, ?_, ?_⟩
    · intro e he
      rw [hmetas] at he
      cases md with
      | none => exact hi.metaOk e (alErase_mem he)
      | some m =>
        rcases alInsert_mem he with he | he
        · subst he; simp
        · exact hi.metaOk e he
    · rw [hu]; exact hi.und
    · rw [hpa]; exact hi.pnd
    · rw [hu, hiss]; exact hi.upIds
    · rw [hpa, hiss]; exact hi.partIds
    · rw [hum, hiss]; exact hi.upMetaIds

theorem put_refines (H : Hashes) (dl : Nat) {s : State} (hi : Inv s) {b k c : Bytes} {md : Option Meta}
    {cks : Cks} {clen : Option Int} (hg : PutOk s b k) :
    (step H dl s (.putObject b k c md cks clen)).2 = (StoreSpec.step H (abs s) (.putObject b k c md cks clen)).2 ∧
    abs (step H dl s (.putObject b k c md cks clen)).1 = (StoreSpec.step H (abs s) (.putObject b k c md cks clen)).1 ∧
    Inv (step H dl s (.putObject b k c md cks clen)).1 := by
  obtain ⟨hname, ⟨hslash, hcanon⟩, hshort, hbucket⟩ := hg
  rcases hname.cases with ⟨hbo, hbd⟩ | ⟨hbo, hbd⟩
  · -- admissible bucket name
    have hbucket := hbucket hbo
    cases ht : s.tree b with
    | none =>
      have hh : alHas b s.buckets = false := by unfold State.tree at ht; simp [alHas, ht]
      have habs : (abs s).bucket b = none := by rw [abs_bucket, ht]; rfl
      simp [step, StoreSpec.step, hbd, hbo, hh, habs, hi]
    | some t =>
      rw [ht] at hbucket
      simp only at hbucket
      have hh : alHas b s.buckets = true := by unfold State.tree at ht; simp [alHas, ht]
      have habs : (abs s).bucket b = some (absTree s b t) := by rw [abs_bucket, ht]; rfl
      cases hkp : keyPath k with
      | none =>
        have hko : keyOk k = false := by rw [keyOk_iff_keyPath, hkp]; rfl
        simp [step, StoreSpec.step, hslash, objPath, hbd, hkp, hbo, hko, hh, habs, hi]
      | some p =>
        have hko : keyOk k = true := by rw [keyOk_iff_keyPath, hkp]; rfl
        rw [hkp] at hcanon hbucket
        simp only at hcanon hbucket
        have hp : PathOk p := keyPath_pathOk hkp
        have hmem := tree_mem ht
        by_cases hck : FsStore.checksOk H c cks = true
        · obtain ⟨ds, hds, hnd, hcommit⟩ := commitFile_ok s b p c t (by rw [ht]; rfl) hbucket (hi.tnd _ hmem) hp
          have hstep : step H dl s (.putObject b k c md cks clen) =
              ({ buckets := alInsert b (alInsert p (.file c) (t ++ ds)) s.buckets,
                 metas := md.elim (alErase (b, k) s.metas) (fun m => alInsert (b, k) (.good m) s.metas),
                 upMetas := s.upMetas, infos := alInsert (b, k) cks s.infos, uploads := s.uploads,
                 parts := s.parts, issued := s.issued },
               .put (some (etagOf H c)) cks) := by
            cases md <;> simp [step, hslash, objPath, hbd, hkp, hck, hcommit, hshort, hh]
          have hspec : StoreSpec.step H (abs s) (.putObject b k c md cks clen) =
              ((abs s).setObj b k ⟨c, md.getD [], cks⟩, .put (some (etagOf H c)) cks) := by
            simp [StoreSpec.step, hbo, hko, habs, checksOk_eq, hck]
          rw [hstep, hspec]
          exact ⟨rfl, put_core hi ht hp hcanon hbucket.2 hds hnd rfl rfl rfl rfl rfl rfl rfl⟩
        · have hck' : FsStore.checksOk H c cks = false := by simpa using hck
          simp [step, StoreSpec.step, hslash, objPath, hbd, hkp, hbo, hko, habs, checksOk_eq, hck', hh, hshort, hi]
  · -- a name both refuse
    simp [step, StoreSpec.step, hbd, hbo, hi]

/-- c3dcb24: `put_object` of a plain key whose side files cannot be named (`sideTooLong`) changes nothing — whatever the state,
    the bucket, the body — and answers an error; in an existing bucket, for a key the backend maps into it, the error is
    `KeyTooLongError` (before the repair the object file was written, then the request failed with `InternalError`) -/
theorem put_long_key (H : Hashes) (dl : Nat) (s : State) {b k c : Bytes} {md : Option Meta} {cks : Cks}
    {clen : Option Int} (hslash : endsWithSlash k = false) (hlong : sideTooLong b k false = true) :
    (step H dl s (.putObject b k c md cks clen)).1 = s ∧
    (∃ e, (step H dl s (.putObject b k c md cks clen)).2 = .err e) ∧
    (∀ bd p, bucketDir b = some bd → alHas bd s.buckets = true → keyPath k = some p →
      (step H dl s (.putObject b k c md cks clen)).2 = .err .KeyTooLongError) := by
  cases hbd : bucketDir b with
  | none => simp [step, hbd]
  | some bd =>
    by_cases hh : alHas bd s.buckets = true
    · cases hkp : keyPath k with
      | none => simp [step, hbd, hh, hslash, objPath, hkp]
      | some p => simp [step, hbd, hh, hslash, objPath, hkp, hlong]
    · have hh' : alHas bd s.buckets = false := by simpa using hh
      refine ⟨by simp [step, hbd, hh'], by simp [step, hbd, hh'], ?_⟩
      intro bd' p hb' hhas
      simp only [Option.some.injEq] at hb'
      subst hb'
      rw [hh'] at hhas
      exact absurd hhas (by simp)

end S3V.FsStore
