import S3V.Thm.PathNet
/-!
# Lemmas for C12: `check_bucket_name` against the AWS naming rules
-/
namespace S3V.PathSpec
open S3V

theorem dotGroups_ne_nil (n : Bytes) : dotGroups n ≠ [] := by
  cases n with
  | nil => simp [dotGroups]
  | cons x r =>
    simp only [dotGroups]
    split
    · simp
    · split <;> simp

/-- the first group has no period, and the text is that group alone or the group, a period, and
    the text of the remaining groups -/
theorem dotGroups_cons {n g : Bytes} {gs : List Bytes} (h : dotGroups n = g :: gs) :
    (46 : UInt8) ∉ g ∧ ((gs = [] ∧ n = g) ∨ ∃ n', n = g ++ 46 :: n' ∧ dotGroups n' = gs) := by
  induction n generalizing g gs with
  | nil =>
    simp only [dotGroups, List.cons.injEq] at h
    obtain ⟨rfl, rfl⟩ := h
    simp
  | cons x r ih =>
    simp only [dotGroups] at h
    by_cases hx : x = 46
    · rw [if_pos hx] at h
      simp only [List.cons.injEq] at h
      obtain ⟨rfl, rfl⟩ := h
      refine ⟨by simp, Or.inr ⟨r, by simp [hx], rfl⟩⟩
    · rw [if_neg hx] at h
      cases hr : dotGroups r with
      | nil => exact absurd hr (dotGroups_ne_nil r)
      | cons p ps =>
        rw [hr] at h
        simp only [List.cons.injEq] at h
        obtain ⟨rfl, rfl⟩ := h
        obtain ⟨hp, hcase⟩ := ih hr
        refine ⟨?_, ?_⟩
        · simp only [List.mem_cons, not_or]
          exact ⟨fun e => hx e.symm, hp⟩
        · rcases hcase with ⟨rfl, rfl⟩ | ⟨n', rfl, hn'⟩
          · exact Or.inl ⟨rfl, rfl⟩
          · exact Or.inr ⟨n', by simp, hn'⟩

theorem dotGroups_of_not_mem {a : Bytes} (h : (46 : UInt8) ∉ a) : dotGroups a = [a] := by
  induction a with
  | nil => simp [dotGroups]
  | cons x r ih =>
    have hx : x ≠ 46 := fun e => h (by simp [e])
    have hr : (46 : UInt8) ∉ r := fun e => h (by simp [e])
    simp [dotGroups, hx, ih hr]

theorem dotGroups_append {a t : Bytes} (h : (46 : UInt8) ∉ a) :
    dotGroups (a ++ 46 :: t) = a :: dotGroups t := by
  induction a with
  | nil => simp [dotGroups]
  | cons x r ih =>
    have hx : x ≠ 46 := fun e => h (by simp [e])
    have hr : (46 : UInt8) ∉ r := fun e => h (by simp [e])
    simp [dotGroups, hx, ih hr]

theorem isDig_dot : isDig 46 = false := by decide

theorem digitRun_no_dot {g : Bytes} (h : DigitRun g) : (46 : UInt8) ∉ g := by
  intro hm
  have := h.2 46 hm
  rw [isDig_dot] at this; cases this

theorem digitRunB_iff (g : Bytes) : digitRunB g = true ↔ DigitRun g := by
  simp only [digitRunB, DigitRun, Bool.and_eq_true, Bool.not_eq_true', List.all_eq_true]
  constructor
  · rintro ⟨h1, h2⟩
    exact ⟨by intro e; simp [e] at h1, h2⟩
  · rintro ⟨h1, h2⟩
    exact ⟨by cases g <;> simp_all, h2⟩

/-- four groups: the text is the groups joined by periods -/
theorem dotGroups_four {n a b c d : Bytes} (h : dotGroups n = [a, b, c, d]) :
    n = a ++ 46 :: (b ++ 46 :: (c ++ 46 :: d)) := by
  obtain ⟨_, h1⟩ := dotGroups_cons h
  rcases h1 with ⟨h1, _⟩ | ⟨n1, rfl, h1⟩
  · cases h1
  obtain ⟨_, h2⟩ := dotGroups_cons h1
  rcases h2 with ⟨h2, _⟩ | ⟨n2, rfl, h2⟩
  · cases h2
  obtain ⟨_, h3⟩ := dotGroups_cons h2
  rcases h3 with ⟨h3, _⟩ | ⟨n3, rfl, h3⟩
  · cases h3
  obtain ⟨_, h4⟩ := dotGroups_cons h3
  rcases h4 with ⟨_, rfl⟩ | ⟨n4, rfl, h4⟩
  · rfl
  · exact absurd h4 (dotGroups_ne_nil n4)

/-- the executable reference decides `Ipv4Formatted` -/
theorem ipv4FormattedB_iff (n : Bytes) : ipv4FormattedB n = true ↔ Ipv4Formatted n := by
  constructor
  · intro h
    unfold ipv4FormattedB at h
    split at h
    · rename_i a b c d hg
      simp only [Bool.and_eq_true, digitRunB_iff] at h
      obtain ⟨⟨⟨ha, hb⟩, hc⟩, hd⟩ := h
      exact ⟨a, b, c, d, dotGroups_four hg, ha, hb, hc, hd⟩
    · cases h
  · rintro ⟨a, b, c, d, rfl, ha, hb, hc, hd⟩
    unfold ipv4FormattedB
    rw [dotGroups_append (digitRun_no_dot ha), dotGroups_append (digitRun_no_dot hb),
      dotGroups_append (digitRun_no_dot hc), dotGroups_of_not_mem (digitRun_no_dot hd)]
    simp [(digitRunB_iff _).mpr ha, (digitRunB_iff _).mpr hb, (digitRunB_iff _).mpr hc,
      (digitRunB_iff _).mpr hd]

end S3V.PathSpec

namespace S3V.Path
open S3V S3V.Net S3V.Host S3V.PathSpec

/-- a strict dotted quad is what `parse::<IpAddr>()` accepts -/
theorem ipAddrOk_of_strictIpv4B {n : Bytes} (h : strictIpv4B n = true) : ipAddrOk n = true := by
  unfold strictIpv4B at h
  split at h
  · rename_i a b c d hg
    simp only [Bool.and_eq_true] at h
    obtain ⟨⟨⟨ha, hb⟩, hc⟩, hd⟩ := h
    have := readIpv4_of_canon ha hb hc hd
    rw [dotGroups_four hg]
    unfold ipAddrOk readIpAddr
    simp only [dot] at this
    rw [this]; rfl
  · cases h

theorem containsDotDot_cons2 (a b : UInt8) (t : Bytes) :
    containsDotDot (a :: b :: t) = ((a = dot && b = dot) || containsDotDot (b :: t)) := by
  rw [containsDotDot]

theorem containsDotDot_iff (n : Bytes) : containsDotDot n = true ↔ [46, 46] <:+: n := by
  induction n with
  | nil => simp [containsDotDot]
  | cons a t ih =>
    cases t with
    | nil =>
      simp only [containsDotDot]
      constructor
      · intro h; cases h
      · intro h
        have := h.length_le
        simp at this
    | cons b t' =>
      rw [List.infix_cons_iff, ← ih, containsDotDot_cons2]
      simp only [Bool.or_eq_true, Bool.and_eq_true, dot]
      constructor
      · rintro (⟨h1, h2⟩ | h)
        · have h1 := of_decide_eq_true h1
          have h2 := of_decide_eq_true h2
          subst h1 h2
          exact Or.inl ⟨t', rfl⟩
        · exact Or.inr h
      · rintro (⟨s, hs⟩ | h)
        · simp only [List.cons_append, List.cons.injEq] at hs
          exact Or.inl ⟨decide_eq_true hs.1.symm, decide_eq_true hs.2.1.symm⟩
        · exact Or.inr h

theorem allowedChar_eq_bucketChar : allowedChar = bucketChar := rfl
theorem isLowerAlnum_eq : isLowerAlnum = isLowerOrDigit := rfl

theorem splitAll_dot_eq_dotGroups (n : Bytes) : splitAll dot n = dotGroups n := by
  induction n with
  | nil => rfl
  | cons x r ih =>
    have ih' : splitAll 46 r = dotGroups r := ih
    simp only [splitAll, dotGroups, dot, ih']
    by_cases hx : x = 46
    · simp [hx]
    · simp only [hx, if_false]
      cases dotGroups r <;> rfl

/-- the repaired test of `check_bucket_name`: four dot-separated groups, all of digits -/
def ipLikeTest (n : Bytes) : Bool :=
  (splitAll dot n).length = 4 && (splitAll dot n).all (fun g => g.all isDigit)

/-- `check_bucket_name` as the conjunction of its seven tests -/
theorem checkBucketName_iff (n : Bytes) : checkBucketName n = true ↔
    (3 ≤ n.length ∧ n.length < 64) ∧ n.all bucketChar = true ∧
    n.head?.map isLowerOrDigit = some true ∧ n.getLast?.map isLowerOrDigit = some true ∧
    containsDotDot n = false ∧ ipLikeTest n = false ∧ ¬ xnPrefix <+: n := by
  unfold checkBucketName
  simp only [Bool.if_false_left]
  have : ((splitAll dot n).length = 4 && (splitAll dot n).all (fun g => g.all isDigit)) = ipLikeTest n := by
    simp [ipLikeTest]
  rw [this]
  simp

theorem bucketChar_ne_colon {c : UInt8} (h : bucketChar c = true) : c ≠ colon := by
  intro e; subst e; revert h; decide

/-- a name formatted as an IP address triggers the test -/
theorem ipLikeTest_of_formatted {n : Bytes} (h : Ipv4Formatted n) : ipLikeTest n = true := by
  obtain ⟨a, b, c, d, rfl, ha, hb, hc, hd⟩ := h
  unfold ipLikeTest
  rw [splitAll_dot_eq_dotGroups, dotGroups_append (digitRun_no_dot ha),
    dotGroups_append (digitRun_no_dot hb), dotGroups_append (digitRun_no_dot hc),
    dotGroups_of_not_mem (digitRun_no_dot hd)]
  have f : ∀ g, DigitRun g → g.all isDigit = true := fun g hg => List.all_eq_true.mpr hg.2
  simp [f a ha, f b hb, f c hc, f d hd]

/-- the test fires only on four digit groups joined by periods, empty groups included -/
theorem ipLikeTest_groups {n : Bytes} (h : ipLikeTest n = true) :
    ∃ a b c d, n = a ++ 46 :: (b ++ 46 :: (c ++ 46 :: d)) ∧
      (∀ x ∈ a, isDig x = true) ∧ (∀ x ∈ b, isDig x = true) ∧
      (∀ x ∈ c, isDig x = true) ∧ (∀ x ∈ d, isDig x = true) := by
  unfold ipLikeTest at h
  rw [splitAll_dot_eq_dotGroups] at h
  simp only [Bool.and_eq_true, decide_eq_true_eq] at h
  obtain ⟨hlen, hall⟩ := h
  match hg : dotGroups n, hlen with
  | [a, b, c, d], _ =>
    rw [hg] at hall
    simp only [List.all_cons, List.all_nil, Bool.and_true, Bool.and_eq_true, List.all_eq_true] at hall
    obtain ⟨ha, hb, hc, hd⟩ := hall
    exact ⟨a, b, c, d, dotGroups_four hg, ha, hb, hc, hd⟩

/-- every name the code accepts obeys the core rules -/
theorem accept_implies_core {n : Bytes} (h : checkBucketName n = true) : CoreRules n := by
  obtain ⟨hlen, hch, hfirst, hlast, hdd, hip, _⟩ := (checkBucketName_iff n).mp h
  refine ⟨⟨hlen.1, by omega⟩, ?_, ?_, ?_, ?_, ?_⟩
  · intro c hc
    rw [allowedChar_eq_bucketChar]
    exact List.all_eq_true.mp hch c hc
  · cases n with
    | nil => simp at hfirst
    | cons c r =>
      refine ⟨c, r, rfl, ?_⟩
      rw [isLowerAlnum_eq]
      simpa using hfirst
  · cases hl : n.getLast? with
    | none => rw [hl] at hlast; simp at hlast
    | some c =>
      obtain ⟨r, hr⟩ := List.getLast?_eq_some_iff.mp hl
      refine ⟨r, c, hr, ?_⟩
      rw [isLowerAlnum_eq]
      rw [hl] at hlast
      simpa using hlast
  · intro hinf
    rw [← containsDotDot_iff, hdd] at hinf
    cases hinf
  · intro hf
    rw [ipLikeTest_of_formatted hf] at hip
    cases hip

theorem isLowerAlnum_dot : isLowerAlnum 46 = false := by decide

/-- every name valid under the complete rules is accepted -/
theorem full_implies_accept {n : Bytes} (h : FullRules n) : checkBucketName n = true := by
  obtain ⟨⟨hlen, hch, ⟨c, r, hcr, hc⟩, ⟨r', c', hcr', hc'⟩, hdd, hip⟩, hpre, _⟩ := h
  rw [checkBucketName_iff]
  have hall : n.all bucketChar = true := by
    rw [List.all_eq_true]
    intro x hx
    rw [← allowedChar_eq_bucketChar]
    exact hch x hx
  refine ⟨⟨hlen.1, by omega⟩, hall, ?_, ?_, ?_, ?_, ?_⟩
  · rw [hcr]; rw [isLowerAlnum_eq] at hc; simp [hc]
  · rw [hcr']; rw [isLowerAlnum_eq] at hc'; simp [hc']
  · cases hd : containsDotDot n with
    | false => rfl
    | true => exact absurd ((containsDotDot_iff n).mp hd) hdd
  · cases hi : ipLikeTest n with
    | false => rfl
    | true =>
      exfalso
      obtain ⟨a, b, c4, d, hn, ha, hb, hc4, hd⟩ := ipLikeTest_groups hi
      -- an empty group would put a period first, last, or next to another period
      by_cases ea : a = []
      · subst ea
        rw [hn] at hcr
        simp only [List.nil_append, List.cons.injEq] at hcr
        rw [← hcr.1, isLowerAlnum_dot] at hc; cases hc
      by_cases eb : b = []
      · subst eb
        exact hdd ⟨a, c4 ++ 46 :: d, by rw [hn]; simp⟩
      by_cases ec : c4 = []
      · subst ec
        exact hdd ⟨a ++ 46 :: b, d, by rw [hn]; simp⟩
      by_cases ed : d = []
      · subst ed
        have : n = (a ++ 46 :: (b ++ 46 :: c4)) ++ [46] := by rw [hn]; simp
        rw [this] at hcr'
        have := List.append_inj' hcr' rfl
        simp only [List.cons.injEq, and_true] at this
        rw [← this.2, isLowerAlnum_dot] at hc'; cases hc'
      exact hip ⟨a, b, c4, d, hn, ⟨ea, ha⟩, ⟨eb, hb⟩, ⟨ec, hc4⟩, ⟨ed, hd⟩⟩
  · exact hpre xnPrefix (by simp [reservedPrefixes, xnPrefix])

theorem hasDotDot_eq : hasDotDot = containsDotDot := by
  funext n
  induction n with
  | nil => rfl
  | cons a t ih =>
    cases t with
    | nil => rfl
    | cons b t' => rw [containsDotDot_cons2, hasDotDot, ih]; rfl

/-- the executable reference for the core rules decides them -/
theorem coreRulesB_iff (n : Bytes) : coreRulesB n = true ↔ CoreRules n := by
  unfold coreRulesB
  simp only [Bool.and_eq_true, decide_eq_true_eq, Bool.not_eq_true']
  constructor
  · rintro ⟨⟨⟨⟨⟨⟨h1, h2⟩, h3⟩, h4⟩, h5⟩, h6⟩, h7⟩
    refine ⟨⟨h1, h2⟩, fun c hc => List.all_eq_true.mp h3 c hc, ?_, ?_, ?_, ?_⟩
    · cases n with
      | nil => simp at h4
      | cons c r => exact ⟨c, r, rfl, by simpa using h4⟩
    · cases hl : n.getLast? with
      | none => rw [hl] at h5; cases h5
      | some c =>
        obtain ⟨r, hr⟩ := List.getLast?_eq_some_iff.mp hl
        rw [hl] at h5
        exact ⟨r, c, hr, h5⟩
    · intro hinf
      rw [hasDotDot_eq] at h6
      rw [← containsDotDot_iff, h6] at hinf
      cases hinf
    · intro hf
      rw [(ipv4FormattedB_iff n).mpr hf] at h7
      cases h7
  · rintro ⟨⟨h1, h2⟩, hch, ⟨c, r, hcr, hc⟩, ⟨r', c', hcr', hc'⟩, hdd, hip⟩
    refine ⟨⟨⟨⟨⟨⟨h1, h2⟩, List.all_eq_true.mpr hch⟩, ?_⟩, ?_⟩, ?_⟩, ?_⟩
    · rw [hcr]; simpa using hc
    · rw [hcr']; simpa using hc'
    · rw [hasDotDot_eq]
      cases hd : containsDotDot n with
      | false => rfl
      | true => exact absurd ((containsDotDot_iff n).mp hd) hdd
    · cases hi : ipv4FormattedB n with
      | false => rfl
      | true => exact absurd ((ipv4FormattedB_iff n).mp hi) hip

/-- the executable reference for the complete rules decides them -/
theorem fullRulesB_iff (n : Bytes) : fullRulesB n = true ↔ FullRules n := by
  unfold fullRulesB
  simp only [Bool.and_eq_true, Bool.not_eq_true', coreRulesB_iff]
  constructor
  · rintro ⟨⟨hc, hp⟩, hs⟩
    refine ⟨hc, ?_, ?_⟩
    · intro p hp' hpre
      have : (reservedPrefixes.any fun p => p.isPrefixOf n) = true :=
        List.any_eq_true.mpr ⟨p, hp', List.isPrefixOf_iff_prefix.mpr hpre⟩
      rw [this] at hp; cases hp
    · intro q hq' hsuf
      have : (reservedSuffixes.any fun q => q.isSuffixOf n) = true :=
        List.any_eq_true.mpr ⟨q, hq', List.isSuffixOf_iff_suffix.mpr hsuf⟩
      rw [this] at hs; cases hs
  · rintro ⟨hc, hp, hs⟩
    refine ⟨⟨hc, ?_⟩, ?_⟩
    · cases ha : (reservedPrefixes.any fun p => p.isPrefixOf n) with
      | false => rfl
      | true =>
        obtain ⟨p, hp', hpre⟩ := List.any_eq_true.mp ha
        exact absurd (List.isPrefixOf_iff_prefix.mp hpre) (hp p hp')
    · cases ha : (reservedSuffixes.any fun q => q.isSuffixOf n) with
      | false => rfl
      | true =>
        obtain ⟨q, hq', hsuf⟩ := List.any_eq_true.mp ha
        exact absurd (List.isSuffixOf_iff_suffix.mp hsuf) (hs q hq')

end S3V.Path
