import S3V.Thm.SigV4Verdict
import S3V.Spec.SigV4Verify
/-!
# Lemmas: blanks at the edges of header values do not reach the verdict of `v4_check_header_auth` (repair d453cd3)

`extract_amz_date` / `extract_amz_content_sha256` parse `trim_ows(val)`, the canonical headers `trim()` every value, the
`Authorization` value is the only one read as it stands. Hence a line-by-line rewrite of the header values that neither
trimming sees, and that leaves `authorization` lines alone, changes nothing — for every request, not only for the
witness of the former finding class `sigv4-edge-whitespace-amz-header`.
-/
namespace S3V.SigV4
open S3V

/-- the model's `trim_ows` is the trimming of the reference verifier (RFC 9110: OWS = SP / HTAB) -/
theorem trimOws_eq_spec (s : Bytes) : trimOws s = SigV4Spec.trimLws s := rfl

theorem dropWhile_all_pos {p : UInt8 → Bool} {ws : Bytes} (h : ∀ c ∈ ws, p c = true) : ws.dropWhile p = [] := by
  have := List.dropWhile_append_of_pos (p := p) (l₂ := []) h
  simpa using this

/-- `((s.dropWhile p).reverse.dropWhile p).reverse`, the shape of every trimming here, ignores `p`-bytes at the edges -/
theorem trimBy_edge (p : UInt8 → Bool) (ws₁ ws₂ v : Bytes) (h₁ : ∀ c ∈ ws₁, p c = true) (h₂ : ∀ c ∈ ws₂, p c = true) :
    (((ws₁ ++ v ++ ws₂).dropWhile p).reverse.dropWhile p).reverse = ((v.dropWhile p).reverse.dropWhile p).reverse := by
  congr 1
  rw [List.append_assoc, List.dropWhile_append_of_pos h₁, List.dropWhile_append]
  split
  · rename_i he
    rw [dropWhile_all_pos h₂, List.isEmpty_iff.mp he]
  · rw [List.reverse_append, List.dropWhile_append_of_pos (fun c hc => h₂ c (List.mem_reverse.mp hc))]

/-- blanks (SP / HTAB) added at the edges of a value do not change what `trim_ows` returns -/
theorem trimOws_edge (ws₁ ws₂ v : Bytes) (h₁ : ∀ c ∈ ws₁, isOws c = true) (h₂ : ∀ c ∈ ws₂, isOws c = true) :
    trimOws (ws₁ ++ v ++ ws₂) = trimOws v := trimBy_edge isOws ws₁ ws₂ v h₁ h₂

theorem isTrimWs_of_isOws {c : UInt8} (h : isOws c = true) : isTrimWs c = true := by
  simp only [isOws, Bool.or_eq_true, decide_eq_true_eq] at h
  rcases h with h | h <;> subst h <;> decide

/-- …nor what `str::trim` returns (the canonical header value) -/
theorem trim_edge (ws₁ ws₂ v : Bytes) (h₁ : ∀ c ∈ ws₁, isOws c = true) (h₂ : ∀ c ∈ ws₂, isOws c = true) :
    trim (ws₁ ++ v ++ ws₂) = trim v :=
  trimBy_edge isTrimWs ws₁ ws₂ v (fun c hc => isTrimWs_of_isOws (h₁ c hc)) (fun c hc => isTrimWs_of_isOws (h₂ c hc))

/-! ## look-ups see names only -/

theorem dropWhile_map_name (g : Bytes × Bytes → Bytes × Bytes) (hg : ∀ p, (g p).1 = p.1) (q : Bytes → Bool) :
    ∀ hs : List (Bytes × Bytes), (hs.map g).dropWhile (fun x => q x.1) = (hs.dropWhile fun x => q x.1).map g := by
  intro hs
  induction hs with
  | nil => rfl
  | cons p ps ih =>
    simp only [List.map_cons, List.dropWhile_cons, hg]
    split
    · exact ih
    · rfl

theorem takeWhile_map_name (g : Bytes × Bytes → Bytes × Bytes) (hg : ∀ p, (g p).1 = p.1) (q : Bytes → Bool) :
    ∀ hs : List (Bytes × Bytes), (hs.map g).takeWhile (fun x => q x.1) = (hs.takeWhile fun x => q x.1).map g := by
  intro hs
  induction hs with
  | nil => rfl
  | cons p ps ih =>
    simp only [List.map_cons, List.takeWhile_cons, hg]
    split
    · rw [ih]; rfl
    · rfl

theorem getAllPairs_map_name (g : Bytes × Bytes → Bytes × Bytes) (hg : ∀ p, (g p).1 = p.1) (hs : List (Bytes × Bytes))
    (n : Bytes) : getAllPairs (hs.map g) n = (getAllPairs hs n).map g := by
  unfold getAllPairs
  rw [dropWhile_map_name g hg (fun x => bLt x n), takeWhile_map_name g hg (fun x => bLe x n)]

/-- `get_unique` looks at names only: rewriting the values line by line rewrites the value it returns -/
theorem getUnique_mapValues (f : Bytes → Bytes → Bytes) (hs : List (Bytes × Bytes)) (n : Bytes) :
    getUnique (hs.map fun p => (p.1, f p.1 p.2)) n = (getUnique hs n).map (f n) := by
  unfold getUnique
  rw [dropWhile_map_name (fun p => (p.1, f p.1 p.2)) (fun _ => rfl) (fun x => bLt x n)]
  cases (hs.dropWhile fun x => bLt x.1 n) with
  | nil => rfl
  | cons p following =>
    cases following with
    | nil =>
      simp only [List.map_cons, List.map_nil]
      by_cases hp : p.1 = n
      · simp [hp]
      · simp [hp]
    | cons q rest =>
      simp only [List.map_cons]
      by_cases hq : q.1 = n
      · simp [hq]
      · by_cases hp : p.1 = n
        · simp [hq, hp]
        · simp [hq, hp]

/-- d453cd3: rewriting header values in any way `trim_ows` does not see leaves what `extract_amz_date` and
    `extract_amz_content_sha256` return unchanged -/
theorem extract_edge_blanks_ignored (hs : List (Bytes × Bytes)) (pad : Bytes → Bytes → Bytes)
    (hpad : ∀ n v, trimOws (pad n v) = trimOws v) :
    extractAmzDate (hs.map fun p => (p.1, pad p.1 p.2)) = extractAmzDate hs ∧
    extractContentSha (hs.map fun p => (p.1, pad p.1 p.2)) = extractContentSha hs := by
  unfold extractAmzDate extractContentSha
  rw [getUnique_mapValues, getUnique_mapValues]
  constructor
  · cases getUnique hs b!"x-amz-date" with
    | none => rfl
    | some v => simp only [Option.map_some, hpad]
  · cases getUnique hs b!"x-amz-content-sha256" with
    | none => rfl
    | some v => simp only [Option.map_some, hpad]

/-! ## the canonical headers see names and `trim`med values only -/

/-- what `push_canonical_headers` can see of a selection -/
def trimmedLines (l : List (Bytes × Bytes)) : List (Bytes × Bytes) := l.map fun p => (p.1, trim p.2)

theorem pushHeaderLines_congr : ∀ (l l' : List (Bytes × Bytes)) (last : Option Bytes) (ans : Bytes),
    trimmedLines l = trimmedLines l' → pushHeaderLines last ans l = pushHeaderLines last ans l' := by
  intro l
  induction l with
  | nil =>
    intro l' last ans h
    cases l' with
    | nil => rfl
    | cons _ _ => simp [trimmedLines] at h
  | cons p rest ih =>
    intro l' last ans h
    cases l' with
    | nil => simp [trimmedLines] at h
    | cons p' rest' =>
      obtain ⟨n, v⟩ := p
      obtain ⟨n', v'⟩ := p'
      simp only [trimmedLines, List.map_cons, List.cons.injEq, Prod.mk.injEq] at h
      obtain ⟨⟨hn, hv⟩, hrest⟩ := h
      subst hn
      simp only [pushHeaderLines, hv]
      split
      · exact ih rest' _ _ hrest
      · exact ih rest' _ _ hrest

theorem signedNamesGo_congr : ∀ (l l' : List (Bytes × Bytes)) (last : Option Bytes),
    trimmedLines l = trimmedLines l' → signedNamesGo last l = signedNamesGo last l' := by
  intro l
  induction l with
  | nil =>
    intro l' last h
    cases l' with
    | nil => rfl
    | cons _ _ => simp [trimmedLines] at h
  | cons p rest ih =>
    intro l' last h
    cases l' with
    | nil => simp [trimmedLines] at h
    | cons p' rest' =>
      obtain ⟨n, v⟩ := p
      obtain ⟨n', v'⟩ := p'
      simp only [trimmedLines, List.map_cons, List.cons.injEq, Prod.mk.injEq] at h
      obtain ⟨⟨hn, _⟩, hrest⟩ := h
      subst hn
      simp only [signedNamesGo]
      split
      · exact ih rest' _ hrest
      · rw [ih rest' _ hrest]

theorem getAllPairs_isEmpty_congr {l l' : List (Bytes × Bytes)} (h : trimmedLines l = trimmedLines l') (n : Bytes) :
    (getAllPairs l n).isEmpty = (getAllPairs l' n).isEmpty := by
  have e : ∀ m : List (Bytes × Bytes), (getAllPairs m n).isEmpty = (getAllPairs (trimmedLines m) n).isEmpty := by
    intro m
    unfold trimmedLines
    rw [getAllPairs_map_name (fun p => (p.1, trim p.2)) (fun _ => rfl)]
    cases getAllPairs m n <;> rfl
  rw [e l, e l', h]

theorem createCanonicalRequest_congr (sha256hex : Bytes → Bytes) (method uriPath : Bytes) (qs : List (Bytes × Bytes))
    {l l' : List (Bytes × Bytes)} (h : trimmedLines l = trimmedLines l') (payload : Payload) :
    createCanonicalRequest sha256hex method uriPath qs l payload =
      createCanonicalRequest sha256hex method uriPath qs l' payload := by
  unfold createCanonicalRequest canonicalHeadersImpl signedHeadersImpl
  rw [pushHeaderLines_congr l l' none [] h, signedNamesGo_congr l l' none h]

/-- the selection from the rewritten lines shows the canonicalisation what the selection from the original lines shows
    (a fallback value, e.g. HTTP/2 `:authority` for `host`, is the same on both sides) -/
theorem trimmedLines_findMultiple (pad : Bytes → Bytes → Bytes) (hcanon : ∀ n v, trim (pad n v) = trim v)
    (hs : List (Bytes × Bytes)) (names : List Bytes) (onMissing : Bytes → Option Bytes) :
    trimmedLines (findMultiple (hs.map fun p => (p.1, pad p.1 p.2)) names onMissing) =
      trimmedLines (findMultiple hs names onMissing) := by
  unfold findMultiple trimmedLines
  rw [List.map_flatMap, List.map_flatMap]
  congr 1
  funext name
  rw [getAllPairs_map_name (fun p => (p.1, pad p.1 p.2)) (fun _ => rfl)]
  cases getAllPairs hs name with
  | nil => rfl
  | cons p ps =>
    simp only [List.map_cons, List.map_map, List.cons.injEq, true_and, hcanon]
    exact List.map_congr_left fun q _ => by simp only [Function.comp, hcanon]

/-! ## the verdict -/

/-- a line-by-line rewrite of header values that neither trimming sees and that leaves `authorization` lines alone -/
structure EdgeRewrite (pad : Bytes → Bytes → Bytes) : Prop where
  /-- invisible to `trim_ows` -/
  ows : ∀ n v, trimOws (pad n v) = trimOws v
  /-- invisible to the `trim()` of the canonical headers -/
  canon : ∀ n v, trim (pad n v) = trim v
  /-- the `Authorization` value is parsed as it stands -/
  auth : ∀ v, pad b!"authorization" v = v

/-- the context with every header value rewritten -/
def Ctx.padded (c : Ctx) (pad : Bytes → Bytes → Bytes) : Ctx := { c with hs := c.hs.map fun p => (p.1, pad p.1 p.2) }

theorem getUnique_authorization_padded (c : Ctx) {pad : Bytes → Bytes → Bytes} (h : EdgeRewrite pad) :
    getUnique (c.padded pad).hs b!"authorization" = getUnique c.hs b!"authorization" := by
  unfold Ctx.padded
  simp only [getUnique_mapValues]
  cases getUnique c.hs b!"authorization" with
  | none => rfl
  | some v => simp only [Option.map_some, h.auth]

theorem headerSelection_padded (c : Ctx) {pad : Bytes → Bytes → Bytes} (h : EdgeRewrite pad) (a : Authorization) :
    trimmedLines (headerSelection (c.padded pad) a) = trimmedLines (headerSelection c a) :=
  trimmedLines_findMultiple pad h.canon c.hs (sortBytes a.signedHeaders) (hostFallback c.http2 c.authority)

theorem signedHeaderMissing_padded (c : Ctx) {pad : Bytes → Bytes → Bytes} (h : EdgeRewrite pad) (a : Authorization) :
    signedHeaderMissing (c.padded pad) a = signedHeaderMissing c a := by
  unfold signedHeaderMissing
  congr 1
  funext n
  exact getAllPairs_isEmpty_congr (headerSelection_padded c h a) n

theorem headerSignature_padded (sha256hex : Bytes → Bytes) (hmac : Bytes → Bytes → Bytes) (c : Ctx)
    {pad : Bytes → Bytes → Bytes} (h : EdgeRewrite pad) (a : Authorization) (secret : Bytes) (d : AmzDate)
    (payload : Payload) :
    headerSignature sha256hex hmac (c.padded pad) a secret d payload = headerSignature sha256hex hmac c a secret d payload := by
  unfold headerSignature
  simp only []
  rw [createCanonicalRequest_congr sha256hex (c.padded pad).method (c.padded pad).path (c.padded pad).qs
    (headerSelection_padded c h a) payload]
  rfl

theorem headerPayload_padded (c : Ctx) (pad : Bytes → Bytes → Bytes) (sha : Option ContentSha) :
    headerPayload (c.padded pad) sha = headerPayload c sha := rfl

/-- d453cd3 closes the class `sigv4-edge-whitespace-amz-header` for every request: `v4_check_header_auth` gives the
    same verdict on a context and on the context with its header values rewritten by an `EdgeRewrite` -/
theorem header_verdict_padded (sha256hex : Bytes → Bytes) (hmac : Bytes → Bytes → Bytes)
    (lookup : Option (Bytes → Option Bytes)) (c : Ctx) {pad : Bytes → Bytes → Bytes} (h : EdgeRewrite pad) :
    v4CheckHeaderAuth sha256hex hmac lookup (c.padded pad) = v4CheckHeaderAuth sha256hex hmac lookup c := by
  unfold v4CheckHeaderAuth
  have e1 := (extract_edge_blanks_ignored c.hs pad h.ows).1
  have e2 := (extract_edge_blanks_ignored c.hs pad h.ows).2
  have e1' : extractAmzDate (c.padded pad).hs = extractAmzDate c.hs := e1
  have e2' : extractContentSha (c.padded pad).hs = extractContentSha c.hs := e2
  simp only [getUnique_authorization_padded c h, e1', e2', signedHeaderMissing_padded c h,
    headerSignature_padded sha256hex hmac c h, headerPayload_padded]
  rfl

/-- blanks (SP / HTAB) put around the values of `x-amz-date` and `x-amz-content-sha256` lines are an `EdgeRewrite` -/
def padAmz (ws₁ ws₂ : Bytes) (n v : Bytes) : Bytes :=
  if n = b!"x-amz-date" ∨ n = b!"x-amz-content-sha256" then ws₁ ++ v ++ ws₂ else v

theorem padAmz_edgeRewrite (ws₁ ws₂ : Bytes) (h₁ : ∀ c ∈ ws₁, isOws c = true) (h₂ : ∀ c ∈ ws₂, isOws c = true) :
    EdgeRewrite (padAmz ws₁ ws₂) where
  ows n v := by unfold padAmz; split; exact trimOws_edge ws₁ ws₂ v h₁ h₂; rfl
  canon n v := by unfold padAmz; split; exact trim_edge ws₁ ws₂ v h₁ h₂; rfl
  auth v := by unfold padAmz; rw [if_neg (by decide)]

end S3V.SigV4
