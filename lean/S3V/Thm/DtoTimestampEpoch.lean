import S3V.Thm.DtoTimestamp
/-! # Timestamp theorems (C14): `EpochSeconds` — exact decimal text (after repair 4f99c94)

`formatEpochSeconds` writes `[-]<secs>[.<fraction without trailing zeros>]`; `parseEpochSeconds` reads
it back to the same instant at nanosecond resolution, before and after 1970, and the text denotes
(as a decimal number, `DtoSpec.readDecimal`) exactly `unix + nanos / 10^9`. -/
namespace S3V.Dto
open S3V.DtoSpec

/-! ## text helpers -/

theorem splitOnce_none' (c : UInt8) (xs : Bytes) (h : ∀ x ∈ xs, x ≠ c) : splitOnce c xs = none := by
  induction xs with
  | nil => rfl
  | cons x xs ih =>
    have hx : x ≠ c := h x (List.mem_cons_self ..)
    simp [splitOnce, hx, ih (fun y hy => h y (List.mem_cons_of_mem _ hy))]

theorem splitOnce_append' (c : UInt8) (xs ys : Bytes) (h : ∀ x ∈ xs, x ≠ c) :
    splitOnce c (xs ++ c :: ys) = some (xs, ys) := by
  induction xs with
  | nil => simp [splitOnce]
  | cons x xs ih =>
    have hx : x ≠ c := h x (List.mem_cons_self ..)
    simp [splitOnce, hx, ih (fun y hy => h y (List.mem_cons_of_mem _ hy))]

theorem digit_ne (c : UInt8) (hc : isDigit c = true) (x : UInt8) (hx : x.toNat < 48) : c ≠ x := by
  rintro rfl
  simp only [isDigit, Bool.and_eq_true, decide_eq_true_eq] at hc
  omega

/-- `uN::from_str` on a non-empty all-digit text is its decimal value (when it fits) -/
theorem parseUnsignedStr_digits (max : Nat) (l : Bytes) (v : Nat) (hne : l ≠ [])
    (hall : ∀ c ∈ l, isDigit c = true) (hv : digitsVal l 0 = some v) (h : v ≤ max) :
    parseUnsignedStr max l = some v := by
  match l, hne, hall, hv with
  | [c], _, hall, hv =>
    have hc := hall c (List.mem_cons_self ..)
    simp only [digitsVal, hc, if_true, Nat.zero_mul, Nat.zero_add, Option.some.injEq] at hv
    simp [parseUnsignedStr, hc, hv]
  | c :: c2 :: r, _, hall, hv =>
    have hc := hall c (List.mem_cons_self ..)
    have h43 : c ≠ 43 := digit_ne c hc 43 (by decide)
    simp [parseUnsignedStr, h43, hv, h]

theorem parseUnsignedStr_fmtDec (max n : Nat) (h : n ≤ max) : parseUnsignedStr max (fmtDec n) = some n :=
  parseUnsignedStr_digits max _ n (fmtDec_ne_nil n) (fmtDec_all_digits n) (digitsVal_fmtDec_zero n) h

/-- trailing `0`s multiply the value by a power of ten -/
theorem digitsVal_zeros (j a : Nat) : digitsVal (List.replicate j 48) a = some (a * 10 ^ j) := by
  induction j generalizing a with
  | zero => simp [digitsVal]
  | succ j ih =>
    have h48 : isDigit 48 = true := by decide
    have e48 : (48 : UInt8).toNat - 48 = 0 := by decide
    rw [List.replicate_succ, digitsVal, if_pos h48, ih, e48, Nat.add_zero, Nat.pow_succ, Nat.mul_assoc,
      Nat.mul_comm 10]

/-- `trim_end_matches('0')` removes a block of `0`s at the end -/
theorem trimEndZeros_spec (ds : Bytes) : ∃ j, ds = trimEndZeros ds ++ List.replicate j 48 := by
  induction ds with
  | nil => exact ⟨0, rfl⟩
  | cons c r ih =>
    obtain ⟨j, hj⟩ := ih
    by_cases hz : ((trimEndZeros r).isEmpty && c == 48) = true
    · refine ⟨j + 1, ?_⟩
      simp only [Bool.and_eq_true, List.isEmpty_iff, beq_iff_eq] at hz
      have ht : trimEndZeros (c :: r) = [] := by simp [trimEndZeros, hz.1, hz.2]
      rw [ht, List.nil_append, List.replicate_succ, hz.2]
      rw [hz.1, List.nil_append] at hj
      rw [← hj]
    · refine ⟨j, ?_⟩
      have ht : trimEndZeros (c :: r) = c :: trimEndZeros r := by
        simp only [trimEndZeros]
        rw [if_neg hz]
      rw [ht, List.cons_append, ← hj]

/-- … and what is left does not end in `0` -/
theorem trimEndZeros_last (ds : Bytes) : ∀ c, (trimEndZeros ds).getLast? = some c → c ≠ 48 := by
  induction ds with
  | nil => intro c h; simp [trimEndZeros] at h
  | cons a r ih =>
    intro c h
    by_cases hz : ((trimEndZeros r).isEmpty && a == 48) = true
    · simp only [Bool.and_eq_true, List.isEmpty_iff, beq_iff_eq] at hz
      simp [trimEndZeros, hz.1, hz.2] at h
    · have ht : trimEndZeros (a :: r) = a :: trimEndZeros r := by
        simp only [trimEndZeros]
        rw [if_neg hz]
      rw [ht] at h
      cases hr : trimEndZeros r with
      | nil =>
        rw [hr] at h
        simp only [List.getLast?_singleton, Option.some.injEq] at h
        subst h
        intro h48
        apply hz
        simp [hr, h48]
      | cons x xs =>
        rw [hr, List.getLast?_cons_cons] at h
        exact ih c (by rw [hr]; exact h)

theorem pad9_digits (n : Nat) : ∀ c ∈ pad9 n, isDigit c = true := by
  intro c hc
  simp only [pad9, List.mem_cons, List.not_mem_nil, or_false] at hc
  rcases hc with h | h | h | h | h | h | h | h | h <;> subst h <;> exact isDigit_digitChar (by omega)

theorem pad9_val (n : Nat) (h : n < 1000000000) : digitsVal (pad9 n) 0 = some n := by
  have d1 : n / 100000000 % 10 < 10 := by omega
  have d2 : n / 10000000 % 10 < 10 := by omega
  have d3 : n / 1000000 % 10 < 10 := by omega
  have d4 : n / 100000 % 10 < 10 := by omega
  have d5 : n / 10000 % 10 < 10 := by omega
  have d6 : n / 1000 % 10 < 10 := by omega
  have d7 : n / 100 % 10 < 10 := by omega
  have d8 : n / 10 % 10 < 10 := by omega
  have d9 : n % 10 < 10 := by omega
  simp only [pad9, digitsVal, isDigit_digitChar d1, isDigit_digitChar d2, isDigit_digitChar d3,
    isDigit_digitChar d4, isDigit_digitChar d5, isDigit_digitChar d6, isDigit_digitChar d7,
    isDigit_digitChar d8, isDigit_digitChar d9, if_true, digitChar_val d1, digitChar_val d2,
    digitChar_val d3, digitChar_val d4, digitChar_val d5, digitChar_val d6, digitChar_val d7,
    digitChar_val d8, digitChar_val d9]
  congr 1; omega

/-- the fraction digits written for `0 < ns < 10^9`: `k` digits (1 ≤ k ≤ 9) of value `v` with
    `v · 10^(9−k) = ns` -/
theorem trim_pad9 (ns : Nat) (h0 : 0 < ns) (h1 : ns < 1000000000) :
    ∃ (j v : Nat), (trimEndZeros (pad9 ns)).length + j = 9 ∧ 1 ≤ (trimEndZeros (pad9 ns)).length ∧
      (∀ c ∈ trimEndZeros (pad9 ns), isDigit c = true) ∧
      digitsVal (trimEndZeros (pad9 ns)) 0 = some v ∧ v * 10 ^ j = ns := by
  obtain ⟨j, hj⟩ := trimEndZeros_spec (pad9 ns)
  have hval := pad9_val ns h1
  have hdig := pad9_digits ns
  have hlen : (pad9 ns).length = 9 := rfl
  generalize trimEndZeros (pad9 ns) = d at hj ⊢
  rw [hj] at hval hdig hlen
  rw [digitsVal_append] at hval
  cases hd : digitsVal d 0 with
  | none => rw [hd] at hval; cases hval
  | some v =>
    rw [hd, Option.bind_some, digitsVal_zeros] at hval
    have hv : v * 10 ^ j = ns := Option.some.inj hval
    refine ⟨j, v, ?_, ?_, fun c hc => hdig c (List.mem_append_left _ hc), rfl, hv⟩
    · simpa using hlen
    · cases d with
      | nil =>
        simp only [digitsVal, Option.some.injEq] at hd
        subst hd; omega
      | cons x xs => simp

/-! ## parsing the text `format` writes -/

/-- the fraction part of the text: nothing for zero, else `.` and the trimmed nine digits -/
def fracPart (ns : Nat) : Bytes := if ns = 0 then [] else 46 :: trimEndZeros (pad9 ns)

theorem fmtDec_cons (n : Nat) : ∃ c r, fmtDec n = c :: r ∧ isDigit c = true := by
  have hne := fmtDec_ne_nil n
  have hall := fmtDec_all_digits n
  cases h : fmtDec n with
  | nil => exact absurd h hne
  | cons c r => exact ⟨c, r, rfl, hall c (by rw [h]; exact List.mem_cons_self ..)⟩

theorem epochSign_digit (neg : Bool) (c : UInt8) (rest : Bytes) (hd : isDigit c = true) :
    epochSign (signBytes neg ++ c :: rest) = some (neg, c :: rest) := by
  have h45 : c ≠ 45 := digit_ne c hd 45 (by decide)
  cases neg
  · simp [signBytes, epochSign, h45]
  · simp [signBytes, epochSign, hd]

theorem epochSign_text (neg : Bool) (secs : Nat) (rest : Bytes) :
    epochSign (signBytes neg ++ (fmtDec secs ++ rest)) = some (neg, fmtDec secs ++ rest) := by
  obtain ⟨c, r, hc, hd⟩ := fmtDec_cons secs
  rw [hc]
  exact epochSign_digit neg c (r ++ rest) hd

theorem epochSecsFrac_whole (secs : Nat) (hs : secs ≤ 18446744073709551615) :
    epochSecsFrac (fmtDec secs) = some (secs, 0) := by
  have hsp : splitOnce 46 (fmtDec secs) = none :=
    splitOnce_none' _ _ (fun x hx => digit_ne x (fmtDec_all_digits _ x hx) 46 (by decide))
  simp only [epochSecsFrac, hsp, parseUnsignedStr_fmtDec _ secs hs]

theorem fracMul_pow (k j : Nat) (hk : 1 ≤ k) (hkj : k + j = 9) : fracMul k = some (10 ^ j) := by
  have : (k = 1 ∧ j = 8) ∨ (k = 2 ∧ j = 7) ∨ (k = 3 ∧ j = 6) ∨ (k = 4 ∧ j = 5) ∨ (k = 5 ∧ j = 4) ∨
      (k = 6 ∧ j = 3) ∨ (k = 7 ∧ j = 2) ∨ (k = 8 ∧ j = 1) ∨ (k = 9 ∧ j = 0) := by omega
  rcases this with ⟨rfl, rfl⟩ | ⟨rfl, rfl⟩ | ⟨rfl, rfl⟩ | ⟨rfl, rfl⟩ | ⟨rfl, rfl⟩ | ⟨rfl, rfl⟩ | ⟨rfl, rfl⟩ |
    ⟨rfl, rfl⟩ | ⟨rfl, rfl⟩ <;> rfl

theorem epochSecsFrac_frac (secs ns : Nat) (hs : secs ≤ 18446744073709551615) (h0 : 0 < ns)
    (h1 : ns < 1000000000) :
    epochSecsFrac (fmtDec secs ++ 46 :: trimEndZeros (pad9 ns)) = some (secs, ns) := by
  obtain ⟨j, v, hlen, hk, hdig, hval, hv⟩ := trim_pad9 ns h0 h1
  have hsp : splitOnce 46 (fmtDec secs ++ 46 :: trimEndZeros (pad9 ns)) = some (fmtDec secs, trimEndZeros (pad9 ns)) :=
    splitOnce_append' _ _ _ (fun x hx => digit_ne x (fmtDec_all_digits _ x hx) 46 (by decide))
  have hpos : 0 < 10 ^ j := Nat.pow_pos (by decide)
  have hvle : v ≤ ns := by
    calc v = v * 1 := (Nat.mul_one v).symm
      _ ≤ v * 10 ^ j := Nat.mul_le_mul_left v hpos
      _ = ns := hv
  have hne : trimEndZeros (pad9 ns) ≠ [] := by
    intro h; rw [h] at hk; simp at hk
  have hf := parseUnsignedStr_digits 4294967295 _ v hne hdig hval (by omega)
  have hm := fracMul_pow _ j hk hlen
  have hmod : v * 10 ^ j % 4294967296 = ns := by rw [hv]; exact Nat.mod_eq_of_lt (by omega)
  simp only [epochSecsFrac, hsp, hf, hm, parseUnsignedStr_fmtDec _ secs hs, hmod]

theorem epochSecsFrac_text (secs ns : Nat) (hs : secs ≤ 18446744073709551615) (h1 : ns < 1000000000) :
    epochSecsFrac (fmtDec secs ++ fracPart ns) = some (secs, ns) := by
  unfold fracPart
  by_cases h0 : ns = 0
  · rw [if_pos h0, List.append_nil, h0]; exact epochSecsFrac_whole secs hs
  · rw [if_neg h0]; exact epochSecsFrac_frac secs ns hs (by omega) h1

/-- `parse` of sign, decimal seconds and trimmed fraction: the signed nanosecond count goes to
    `from_unix_timestamp_nanos` -/
theorem parseEpoch_text (neg : Bool) (secs ns : Nat) (hs : secs ≤ 9223372036854775807) (h1 : ns < 1000000000) :
    parseEpochSeconds (signBytes neg ++ (fmtDec secs ++ fracPart ns)) =
      epochFromNanos (if neg then -((secs : Int) * 1000000000 + (ns : Int)) else (secs : Int) * 1000000000 + (ns : Int)) := by
  have hs' : ¬ secs > 9223372036854775807 := by omega
  simp only [parseEpochSeconds, epochSign_text, epochSecsFrac_text secs ns (by omega) h1, hs', if_false]

/-- the text `format` writes, in terms of the magnitude of the nanosecond count -/
theorem formatEpochSeconds_eq (t : Ts) :
    formatEpochSeconds t = some (signBytes (decide (t.unix * 1000000000 + (t.nanos : Int) < 0)) ++
      (fmtDec ((t.unix * 1000000000 + (t.nanos : Int)).natAbs / 1000000000) ++
        fracPart ((t.unix * 1000000000 + (t.nanos : Int)).natAbs % 1000000000))) := by
  unfold formatEpochSeconds signBytes fracPart
  by_cases hz : (t.unix * 1000000000 + (t.nanos : Int)).natAbs % 1000000000 = 0
  · by_cases hneg : t.unix * 1000000000 + (t.nanos : Int) < 0 <;> simp [hz, hneg]
  · by_cases hneg : t.unix * 1000000000 + (t.nanos : Int) < 0 <;> simp [hz, hneg]

theorem epochFromNanos_of (unix : Int) (nanos : Nat) (h1 : unixMin ≤ unix) (h2 : unix ≤ unixMax)
    (hn : nanos < 1000000000) :
    epochFromNanos (unix * 1000000000 + (nanos : Int)) = some ⟨unix, nanos, 0⟩ := by
  have e1 : (unix * 1000000000 + (nanos : Int)) / 1000000000 = unix := by omega
  have e2 : (unix * 1000000000 + (nanos : Int)) % 1000000000 = (nanos : Int) := by omega
  have g : ¬ (unix < unixMin ∨ unix > unixMax) := by omega
  simp only [epochFromNanos, e1, e2, Bool.or_eq_true, decide_eq_true_eq, g, if_false, Int.toNat_natCast]

/-- *formatting then parsing is the identity* — EpochSeconds, at nanosecond resolution, for every
    instant `from_unix_timestamp` can represent (years −9999 … 9999), whatever offset is carried -/
theorem epoch_roundtrip_wide (t : Ts) (h1 : unixMin ≤ t.unix) (h2 : t.unix ≤ unixMax) (hn : t.nanos < 1000000000) :
    ∃ txt, formatEpochSeconds t = some txt ∧ parseEpochSeconds txt = some ⟨t.unix, t.nanos, 0⟩ := by
  refine ⟨_, formatEpochSeconds_eq t, ?_⟩
  have hu1 := h1
  have hu2 := h2
  unfold unixMin at hu1
  unfold unixMax at hu2
  rw [parseEpoch_text _ _ _ (by omega) (by omega)]
  have hval : (if decide (t.unix * 1000000000 + (t.nanos : Int) < 0) = true then
        -((((t.unix * 1000000000 + (t.nanos : Int)).natAbs / 1000000000 : Nat) : Int) * 1000000000 +
          (((t.unix * 1000000000 + (t.nanos : Int)).natAbs % 1000000000 : Nat) : Int))
      else (((t.unix * 1000000000 + (t.nanos : Int)).natAbs / 1000000000 : Nat) : Int) * 1000000000 +
          (((t.unix * 1000000000 + (t.nanos : Int)).natAbs % 1000000000 : Nat) : Int)) =
      t.unix * 1000000000 + (t.nanos : Int) := by
    by_cases hneg : t.unix * 1000000000 + (t.nanos : Int) < 0
    · rw [if_pos (decide_eq_true hneg)]; omega
    · rw [if_neg (by simpa using hneg)]; omega
  rw [hval]
  exact epochFromNanos_of t.unix t.nanos h1 h2 hn

theorem epoch_roundtrip (t : Ts) (h1 : -62135596800 ≤ t.unix) (h2 : t.unix ≤ 253402300799) (hn : t.nanos < 1000000000) :
    ∃ txt, formatEpochSeconds t = some txt ∧ parseEpochSeconds txt = some ⟨t.unix, t.nanos, 0⟩ :=
  epoch_roundtrip_wide t (by unfold unixMin; omega) (by unfold unixMax; omega) hn

/-! ## what the text denotes -/

theorem splitSign_text (neg : Bool) (secs : Nat) (rest : Bytes) :
    splitSign (signBytes neg ++ (fmtDec secs ++ rest)) = (neg, fmtDec secs ++ rest) := by
  obtain ⟨c, r, hc, hd⟩ := fmtDec_cons secs
  have h45 : c ≠ 45 := digit_ne c hd 45 (by decide)
  cases neg
  · simp [signBytes, splitSign, hc, h45]
  · simp [signBytes, splitSign]

theorem digitsOpt_fmtDec (n : Nat) : digitsOpt (fmtDec n) = some n := by
  simp [digitsOpt, fmtDec_ne_nil, digitsVal_fmtDec_zero]

theorem readDecimal_whole (neg : Bool) (secs : Nat) :
    readDecimal (signBytes neg ++ (fmtDec secs ++ [])) =
      some (if neg then -((secs : Nat) : Int) else ((secs : Nat) : Int), 0) := by
  have htw : (fmtDec secs ++ []).takeWhile isDigit = fmtDec secs := by
    rw [List.takeWhile_append_of_pos (fmtDec_all_digits secs)]; simp
  have hdr : (fmtDec secs ++ ([] : Bytes)).drop (fmtDec secs).length = [] := List.drop_left
  simp only [readDecimal, splitSign_text, htw, digitsOpt_fmtDec, hdr, Nat.pow_zero, Nat.mul_one, Nat.add_zero]

theorem readDecimal_frac (neg : Bool) (secs : Nat) (d : Bytes) (v : Nat) (hne : d ≠ [])
    (hval : digitsVal d 0 = some v) :
    readDecimal (signBytes neg ++ (fmtDec secs ++ 46 :: d)) =
      some (if neg then -((secs * 10 ^ d.length + v : Nat) : Int) else ((secs * 10 ^ d.length + v : Nat) : Int),
        d.length) := by
  have h46 : ¬ isDigit 46 = true := by decide
  have htw : (fmtDec secs ++ 46 :: d).takeWhile isDigit = fmtDec secs := by
    rw [List.takeWhile_append_of_pos (fmtDec_all_digits secs), List.takeWhile_cons_of_neg h46, List.append_nil]
  have hdr : (fmtDec secs ++ 46 :: d).drop (fmtDec secs).length = 46 :: d := List.drop_left
  have hd : digitsOpt d = some v := by simp [digitsOpt, hne, hval]
  simp only [readDecimal, splitSign_text, htw, digitsOpt_fmtDec, hdr, hd, if_true, Option.map_some]

theorem scale_identity (secs v P Q : Nat) : (secs * P + v) * (P * Q) = (secs * (P * Q) + v * Q) * P := by
  rw [Nat.add_mul, Nat.add_mul]
  congr 1 <;> ac_rfl

theorem scale_nat (S N A v : Nat) (k j : Nat) (hA : S * 1000000000 + N = A) (hv : v * 10 ^ j = N)
    (hpow : (10 : Nat) ^ k * 10 ^ j = 1000000000) : (S * 10 ^ k + v) * 1000000000 = A * 10 ^ k := by
  rw [← hA, ← hv, ← hpow]
  exact scale_identity _ _ _ _

/-- the text `format` writes is a decimal number that is exactly `unix + nanos / 10^9`
    (no bound on `unix`) -/
theorem epoch_format_denotes (t : Ts) :
    ∃ txt, formatEpochSeconds t = some txt ∧ DenotesInstant txt t.unix t.nanos := by
  refine ⟨_, formatEpochSeconds_eq t, ?_⟩
  generalize hval : t.unix * 1000000000 + (t.nanos : Int) = val
  unfold DenotesInstant
  rw [hval]
  have hA : (val.natAbs / 1000000000) * 1000000000 + val.natAbs % 1000000000 = val.natAbs := by omega
  unfold fracPart
  by_cases h0 : val.natAbs % 1000000000 = 0
  · rw [if_pos h0]
    refine ⟨_, _, readDecimal_whole _ _, ?_⟩
    by_cases hneg : val < 0
    · rw [if_pos (decide_eq_true hneg)]; simp only [Nat.pow_zero]; omega
    · rw [if_neg (by simpa using hneg)]; simp only [Nat.pow_zero]; omega
  · rw [if_neg h0]
    obtain ⟨j, v, hlen, hk, hdig, hdv, hv⟩ := trim_pad9 (val.natAbs % 1000000000) (by omega) (by omega)
    have hne : trimEndZeros (pad9 (val.natAbs % 1000000000)) ≠ [] := by
      intro h; rw [h] at hk; simp at hk
    refine ⟨_, _, readDecimal_frac _ _ _ v hne hdv, ?_⟩
    generalize (trimEndZeros (pad9 (val.natAbs % 1000000000))).length = k at hlen hk ⊢
    have hpow : (10 : Nat) ^ k * 10 ^ j = 1000000000 := by rw [← Nat.pow_add, hlen]
    have hnat : (val.natAbs / 1000000000 * 10 ^ k + v) * 1000000000 = val.natAbs * 10 ^ k :=
      scale_nat _ _ _ _ k j hA hv hpow
    have hI : ((val.natAbs / 1000000000 * 10 ^ k + v : Nat) : Int) * 1000000000 =
        ((val.natAbs : Nat) : Int) * ((10 ^ k : Nat) : Int) := by
      have := congrArg (fun n : Nat => (n : Int)) hnat
      simp only [Int.natCast_mul] at this
      exact this
    by_cases hneg : val < 0
    · rw [if_pos (decide_eq_true hneg)]
      have hv' : val = -((val.natAbs : Nat) : Int) := by omega
      rw [Int.neg_mul, hI]
      conv => rhs; rw [hv']
      rw [Int.neg_mul]
    · rw [if_neg (by simpa using hneg)]
      have hv' : val = ((val.natAbs : Nat) : Int) := by omega
      rw [hI]
      conv => rhs; rw [hv']

/-! ## parsing any text of the grammar `[-] 1*DIGIT [ "." 1*9DIGIT ]` -/

theorem digitsVal_all_digits (ds : Bytes) : ∀ (a v : Nat), digitsVal ds a = some v → ∀ c ∈ ds, isDigit c = true := by
  induction ds with
  | nil => intro a v _ c hc; cases hc
  | cons x xs ih =>
    intro a v h c hc
    by_cases hx : isDigit x = true
    · rw [digitsVal, if_pos hx] at h
      rcases List.mem_cons.mp hc with rfl | hc
      · exact hx
      · exact ih _ v h c hc
    · rw [digitsVal, if_neg hx] at h; cases h

theorem digitsVal_lt (ds : Bytes) : ∀ (a v : Nat), digitsVal ds a = some v → v < (a + 1) * 10 ^ ds.length := by
  induction ds with
  | nil =>
    intro a v h
    simp only [digitsVal, Option.some.injEq] at h
    simp only [List.length_nil, Nat.pow_zero, Nat.mul_one]; omega
  | cons x xs ih =>
    intro a v h
    by_cases hx : isDigit x = true
    · rw [digitsVal, if_pos hx] at h
      have := ih _ v h
      have hd : x.toNat - 48 ≤ 9 := by
        simp only [isDigit, Bool.and_eq_true, decide_eq_true_eq] at hx; omega
      have hle : (a * 10 + (x.toNat - 48) + 1) * 10 ^ xs.length ≤ ((a + 1) * 10) * 10 ^ xs.length :=
        Nat.mul_le_mul_right _ (by omega)
      rw [List.length_cons, Nat.pow_succ, Nat.mul_comm (10 ^ xs.length) 10, ← Nat.mul_assoc]
      omega
    · rw [digitsVal, if_neg hx] at h; cases h

theorem epochSecsFrac_digits_whole (ip : Bytes) (a : Nat) (hip : Digits ip a) (ha : a ≤ 18446744073709551615) :
    epochSecsFrac ip = some (a, 0) := by
  have hall := digitsVal_all_digits ip 0 a hip.2
  have hsp : splitOnce 46 ip = none :=
    splitOnce_none' _ _ (fun x hx => digit_ne x (hall x hx) 46 (by decide))
  simp only [epochSecsFrac, hsp, parseUnsignedStr_digits _ ip a hip.1 hall hip.2 ha]

theorem epochSecsFrac_digits_frac (ip fp : Bytes) (a b : Nat) (hip : Digits ip a) (hfp : Digits fp b)
    (hlen : fp.length ≤ 9) (ha : a ≤ 18446744073709551615) :
    epochSecsFrac (ip ++ 46 :: fp) = some (a, b * 10 ^ (9 - fp.length)) ∧ b * 10 ^ (9 - fp.length) < 1000000000 := by
  have hall := digitsVal_all_digits ip 0 a hip.2
  have hallf := digitsVal_all_digits fp 0 b hfp.2
  have hsp : splitOnce 46 (ip ++ 46 :: fp) = some (ip, fp) :=
    splitOnce_append' _ _ _ (fun x hx => digit_ne x (hall x hx) 46 (by decide))
  have hk : 1 ≤ fp.length := by
    cases hf : fp with
    | nil => exact absurd hf hfp.1
    | cons x xs => simp
  have hkj : fp.length + (9 - fp.length) = 9 := by omega
  have hm := fracMul_pow _ _ hk hkj
  have hb := digitsVal_lt fp 0 b hfp.2
  rw [Nat.zero_add, Nat.one_mul] at hb
  have hpow : (10 : Nat) ^ fp.length * 10 ^ (9 - fp.length) = 1000000000 := by rw [← Nat.pow_add, hkj]
  have hpos : 0 < 10 ^ (9 - fp.length) := Nat.pow_pos (by decide)
  have hlt : b * 10 ^ (9 - fp.length) < 1000000000 := by
    rw [← hpow]; exact Nat.mul_lt_mul_of_pos_right hb hpos
  have hble : b ≤ b * 10 ^ (9 - fp.length) := by
    calc b = b * 1 := (Nat.mul_one b).symm
      _ ≤ b * 10 ^ (9 - fp.length) := Nat.mul_le_mul_left b hpos
  have hf := parseUnsignedStr_digits 4294967295 fp b hfp.1 hallf hfp.2 (by omega)
  have hmod : b * 10 ^ (9 - fp.length) % 4294967296 = b * 10 ^ (9 - fp.length) := Nat.mod_eq_of_lt (by omega)
  refine ⟨?_, hlt⟩
  simp only [epochSecsFrac, hsp, hf, hm, parseUnsignedStr_digits _ ip a hip.1 hall hip.2 ha, hmod]

theorem epochFromNanos_some (n : Int) (h1 : unixMin * 1000000000 ≤ n) (h2 : n < (unixMax + 1) * 1000000000) :
    ∃ t, epochFromNanos n = some t ∧ t.off = 0 ∧ t.nanos < 1000000000 ∧ t.unix * 1000000000 + (t.nanos : Int) = n := by
  unfold unixMin at h1
  unfold unixMax at h2
  have g : ¬ (n / 1000000000 < unixMin ∨ n / 1000000000 > unixMax) := by unfold unixMin unixMax; omega
  refine ⟨⟨n / 1000000000, (n % 1000000000).toNat, 0⟩, ?_, rfl, ?_, ?_⟩
  · simp only [epochFromNanos, Bool.or_eq_true, decide_eq_true_eq, g, if_false]
  · show (n % 1000000000).toNat < 1000000000
    omega
  · show n / 1000000000 * 1000000000 + ((n % 1000000000).toNat : Int) = n
    omega

/-- *decoded to the value they denote* — EpochSeconds: every text of the grammar
    `[-] 1*DIGIT [ "." 1*9DIGIT ]` that denotes `n` nanoseconds, with `n` in the range of
    `from_unix_timestamp_nanos`, is parsed to the instant `n` -/
theorem parseEpoch_denotes (txt : Bytes) (n : Int) (h : EpochText txt n)
    (h1 : unixMin * 1000000000 ≤ n) (h2 : n < (unixMax + 1) * 1000000000) :
    ∃ t, parseEpochSeconds txt = some t ∧ t.off = 0 ∧ t.nanos < 1000000000 ∧
      t.unix * 1000000000 + (t.nanos : Int) = n := by
  have hu1 := h1
  have hu2 := h2
  unfold unixMin at hu1
  unfold unixMax at hu2
  cases h with
  | @whole neg ip a hip =>
    have ha : a ≤ 377705116800 := by
      cases neg <;> simp only [signedInt, if_true, if_false, Bool.false_eq_true] at hu1 hu2 <;> omega
    obtain ⟨c, r, rfl⟩ : ∃ c r, ip = c :: r := by
      cases hi : ip with
      | nil => exact absurd hi hip.1
      | cons c r => exact ⟨c, r, rfl⟩
    have hc := digitsVal_all_digits _ 0 a hip.2 c (List.mem_cons_self ..)
    have hi64 : ¬ a > 9223372036854775807 := by omega
    have hn : (if neg = true then -((a : Int) * 1000000000 + ((0 : Nat) : Int)) else (a : Int) * 1000000000 + ((0 : Nat) : Int)) =
        signedInt neg (a * 1000000000) := by
      cases neg <;> simp [signedInt]
    simp only [parseEpochSeconds, epochSign_digit neg c r hc, epochSecsFrac_digits_whole _ a hip (by omega), hi64,
      if_false, hn]
    exact epochFromNanos_some _ h1 h2
  | @frac neg ip fp a b hip hfp hlen =>
    have ha : a ≤ 377705116800 := by
      cases neg <;> simp only [signedInt, if_true, if_false, Bool.false_eq_true] at hu1 hu2 <;> omega
    obtain ⟨c, r, rfl⟩ : ∃ c r, ip = c :: r := by
      cases hi : ip with
      | nil => exact absurd hi hip.1
      | cons c r => exact ⟨c, r, rfl⟩
    have hc := digitsVal_all_digits _ 0 a hip.2 c (List.mem_cons_self ..)
    have hi64 : ¬ a > 9223372036854775807 := by omega
    obtain ⟨hsf, _⟩ := epochSecsFrac_digits_frac _ fp a b hip hfp hlen (by omega)
    have hn : (if neg = true then -((a : Int) * 1000000000 + ((b * 10 ^ (9 - fp.length) : Nat) : Int))
        else (a : Int) * 1000000000 + ((b * 10 ^ (9 - fp.length) : Nat) : Int)) =
        signedInt neg (a * 1000000000 + b * 10 ^ (9 - fp.length)) := by
      cases neg <;> simp [signedInt]
    rw [List.cons_append]
    simp only [parseEpochSeconds, epochSign_digit neg c _ hc]
    rw [← List.cons_append]
    simp only [hsf, hi64, if_false, hn]
    exact epochFromNanos_some _ h1 h2

theorem pad3_val (ms : Nat) (h : ms < 1000) : digitsVal (pad3 ms) 0 = some ms := by
  have h1 : ms / 100 % 10 < 10 := by omega
  have h2 : ms / 10 % 10 < 10 := by omega
  have h3 : ms % 10 < 10 := by omega
  simp only [pad3, digitsVal, isDigit_digitChar h1, isDigit_digitChar h2, isDigit_digitChar h3, if_true,
    digitChar_val h1, digitChar_val h2, digitChar_val h3]
  congr 1; omega

/-- decimal epoch seconds with a millisecond fraction are decoded to the value they denote -/
theorem parseEpoch_ms (secs ms : Nat) (h1 : secs ≤ 253402300799) (h2 : ms < 1000) :
    parseEpochSeconds (fmtDec secs ++ 46 :: pad3 ms) = some ⟨(secs : Int), ms * 1000000, 0⟩ := by
  have hE : EpochText (signBytes false ++ (fmtDec secs ++ 46 :: pad3 ms))
      (signedInt false (secs * 1000000000 + ms * 10 ^ (9 - (pad3 ms).length))) :=
    .frac ⟨fmtDec_ne_nil secs, digitsVal_fmtDec_zero secs⟩ ⟨by simp [pad3], pad3_val ms h2⟩ (by simp [pad3])
  have hl : (pad3 ms).length = 3 := rfl
  rw [hl] at hE
  simp only [signBytes, signedInt, Bool.false_eq_true, if_false, List.nil_append] at hE
  obtain ⟨t, hp, hoff, hn, hval⟩ := parseEpoch_denotes _ _ hE (by unfold unixMin; omega) (by unfold unixMax; omega)
  rw [hp]
  cases t with
  | mk u n o =>
    simp only at hoff hn hval
    have hu : u = (secs : Int) := by omega
    have hn' : n = ms * 1000000 := by omega
    rw [hu, hn', hoff]

end S3V.Dto
