import S3V.Thm.FsPathPlan
/-!
# Lemma: `absolutize_virtually(root)` confines EVERY string (C17)

Independent of the key check of `get_object_path`: whatever string reaches `resolve_abs_path`, the result — if
there is one (the alternatives are `InvalidInput` and the path-dedot panic) — is a dot-free location with the
root's components as a prefix. Hypothesis on the process CWD (used by path-dedot for strings that begin with `.` or
`..`): absolute and free of `..`, like the root (`std::env::current_dir()` returns such a path).
-/
namespace S3V.FsPath

def RootTok (t : List Bytes) : Prop := ∃ g, t = [47] :: g ∧ ∀ n ∈ g, Good n
def RelTok (t : List Bytes) : Prop := ∀ n ∈ t, Good n

/-- components the loop of path-dedot can meet after the first one -/
def BodyComp (c : Comp) : Prop := c = .parentDir ∨ ∃ n, c = .normal n ∧ Good n

theorem rest_bodyComp {s : Bytes} {first : Comp} {rest : List Comp} (h : components s = first :: rest) :
    ∀ c ∈ rest, BodyComp c := by
  intro c hc
  have hb : c ∈ body s := by
    by_cases ha : isAbsolute s = true
    · rw [components_abs ha] at h
      rw [(List.cons.inj h).2]; exact hc
    · rcases components_rel_cases (by simpa using ha) with h' | h' <;> rw [h'] at h
      · rw [h]; exact List.mem_cons_of_mem _ hc
      · rw [(List.cons.inj h).2]; exact hc
  exact mem_body hb

theorem step_root {t : List Bytes} {f : Bool} {c : Comp} (ht : RootTok t) (hc : BodyComp c) :
    RootTok (dedotStep true (t, f) c).1 := by
  obtain ⟨g, rfl, hg⟩ := ht
  rcases hc with rfl | ⟨n, rfl, hn⟩
  · simp only [dedotStep]
    split
    · cases g with
      | nil => simp at *
      | cons a r =>
        refine ⟨(a :: r).dropLast, by simp [List.dropLast], ?_⟩
        intro n hn; exact hg n (List.dropLast_subset _ hn)
    · exact ⟨g, rfl, hg⟩
  · refine ⟨g ++ [n], by simp [dedotStep, osStr], ?_⟩
    intro m hm
    rcases List.mem_append.mp hm with h | h
    · exact hg m h
    · simp at h; rw [h]; exact hn

theorem step_rel {t : List Bytes} {f : Bool} {c : Comp} (ht : RelTok t) (hc : BodyComp c) :
    RelTok (dedotStep false (t, f) c).1 := by
  rcases hc with rfl | ⟨n, rfl, hn⟩
  · simp only [dedotStep]
    split
    · intro n hn; exact ht n (List.dropLast_subset _ hn)
    · exact ht
  · intro m hm
    simp only [dedotStep, osStr] at hm
    rcases List.mem_append.mp hm with h | h
    · exact ht m h
    · simp at h; rw [h]; exact hn

theorem foldl_root {rest : List Comp} (hr : ∀ c ∈ rest, BodyComp c) :
    ∀ (t : List Bytes) (f : Bool), RootTok t → RootTok (rest.foldl (dedotStep true) (t, f)).1 := by
  induction rest with
  | nil => intro t f h; exact h
  | cons c r ih =>
    intro t f h
    rw [List.foldl_cons]
    have := step_root (f := f) h (hr c (by simp))
    exact ih (fun x hx => hr x (List.mem_cons_of_mem _ hx)) _ _ this

theorem foldl_rel {rest : List Comp} (hr : ∀ c ∈ rest, BodyComp c) :
    ∀ (t : List Bytes) (f : Bool), RelTok t → RelTok (rest.foldl (dedotStep false) (t, f)).1 := by
  induction rest with
  | nil => intro t f h; exact h
  | cons c r ih =>
    intro t f h
    rw [List.foldl_cons]
    have := step_rel (f := f) h (hr c (by simp))
    exact ih (fun x hx => hr x (List.mem_cons_of_mem _ hx)) _ _ this

/-- if the change flag is still clear at the end, it was clear at the start and the loop met only `Normal`s -/
theorem foldl_flag {root : Bool} {rest : List Comp} (hr : ∀ c ∈ rest, BodyComp c) :
    ∀ (t : List Bytes) (f : Bool), (rest.foldl (dedotStep root) (t, f)).2 = false → f = false ∧ AllNormal rest := by
  induction rest with
  | nil => intro t f h; exact ⟨h, fun c hc => by cases hc⟩
  | cons c r ih =>
    intro t f h
    rw [List.foldl_cons] at h
    rcases hr c (by simp) with rfl | ⟨n, rfl, _⟩
    · have := (ih (fun x hx => hr x (List.mem_cons_of_mem _ hx)) _ _ h).1
      simp [dedotStep] at this
    · obtain ⟨h1, h2⟩ := ih (fun x hx => hr x (List.mem_cons_of_mem _ hx)) _ _ h
      refine ⟨by simpa [dedotStep] using h1, ?_⟩
      intro x hx
      rcases List.mem_cons.mp hx with rfl | hx
      · exact ⟨n, rfl⟩
      · exact h2 x hx

theorem components_rel_nodot {s : Bytes} (hrel : isAbsolute s = false) (hd : (splitSlash s).head? ≠ some [46]) :
    components s = body s := by
  cases s with
  | nil => simp [components, splitSlash]
  | cons c cs =>
    have hc : c ≠ 47 := by
      intro e; subst e; simp [isAbsolute] at hrel
    unfold components
    split
    · rename_i heq; cases heq; exact absurd rfl hc
    · rw [if_neg hd]

theorem joinSlash_cons_ne_nil {g : Bytes} {r : List Bytes} (hg : Good g) : joinSlash (g :: r) ≠ [] ∧
    (joinSlash (g :: r)).head? = g.head? := by
  cases g with
  | nil => exact absurd rfl hg.1
  | cons a as =>
    cases r with
    | nil => simp [joinSlash]
    | cons b bs => simp [joinSlash]

/-- the string rendered from good names without a root token: relative, exactly those components -/
theorem components_joinSlash_rel {goods : List Bytes} (hne : goods ≠ []) (hg : ∀ n ∈ goods, Good n) :
    isAbsolute (joinSlash goods) = false ∧ components (joinSlash goods) = goods.map .normal := by
  cases goods with
  | nil => exact absurd rfl hne
  | cons g r =>
    have hgg := hg g (by simp)
    have hrel : isAbsolute (joinSlash (g :: r)) = false := by
      cases hj : joinSlash (g :: r) with
      | nil => rfl
      | cons c cs =>
        have hh := (joinSlash_cons_ne_nil (r := r) hgg).2
        rw [hj] at hh
        cases g with
        | nil => exact absurd rfl hgg.1
        | cons a as =>
          simp at hh
          have : a ≠ 47 := fun e => hgg.2.2.2 (by simp [e])
          unfold isAbsolute
          split
          · rename_i heq; cases heq; exact absurd hh.symm this
          · rfl
    refine ⟨hrel, ?_⟩
    rw [components_rel_nodot hrel, body_joinSlash hg]
    rw [splitSlash_joinSlash (by simp) (fun n hn => (hg n hn).2.2.2)]
    simp only [List.head?_cons, ne_eq, Option.some.injEq]
    exact hgg.2.1

theorem render_rel (t : List Bytes) : render t false = joinSlash t := by
  cases t with
  | nil => rfl
  | cons a r =>
    cases r with
    | nil => rfl
    | cons b r' => simp [render, joinSlash]

theorem allNormal_comps_good {s : Bytes} {l : List Comp} (hc : components s = l) (hl : AllNormal l) :
    ∀ n ∈ names l, Good n := by
  intro n hn
  apply mem_components (s := s)
  rw [hc, ← map_normal_names hl]
  simp [hn]

/-- classification of what path-dedot / path-absolutize return -/
theorem dedot_result {ab : Bool} {cwd s p : Bytes} (hcwd : RootOk cwd) (h : dedotFrom ab cwd s = .ok p) :
    (isAbsolute p = true ∧ NoDots (components p)) ∨
    (isAbsolute p = false ∧ AllNormal (components p) ∧ components p = body p) := by
  obtain ⟨lc, hlc, hnc⟩ := hcwd.shape
  have hcwdND : NoDots (components cwd) := ⟨lc, hlc, hnc⟩
  have hgc : ∀ n ∈ names lc, Good n := by
    intro n hn
    apply mem_components (s := cwd)
    rw [hlc, ← map_normal_names hnc]; simp [hn]
  have hiter : pathIter cwd = [47] :: names lc := by
    simp [pathIter, hlc, osStr, map_osStr_allNormal hnc]
  unfold dedotFrom at h
  cases hcs : components s with
  | nil =>
    rw [hcs] at h
    simp only at h
    cases ab with
    | true => simp at h; rw [← h]; exact .inl ⟨hcwd.1, hcwdND⟩
    | false =>
      simp at h; subst h
      have hrel : isAbsolute s = false := by
        cases hs : isAbsolute s with
        | false => rfl
        | true => rw [components_abs hs] at hcs; cases hcs
      right
      refine ⟨hrel, ?_, ?_⟩
      · rw [hcs]; intro c hc; cases hc
      · rcases components_rel_cases hrel with h' | h'
        · exact h'
        · rw [hcs] at h'; cases h'
  | cons first rest =>
    rw [hcs] at h
    simp only at h
    have hrest := rest_bodyComp hcs
    -- the start
    have hstart : ((dedotStart ab cwd first).2.1 = true ∧ RootTok (dedotStart ab cwd first).1) ∨
        ((dedotStart ab cwd first).2.1 = false ∧ RelTok (dedotStart ab cwd first).1) := by
      cases first with
      | rootDir => left; exact ⟨rfl, [], rfl, by simp⟩
      | curDir => left; simp only [dedotStart, hiter]; exact ⟨by simp, names lc, rfl, hgc⟩
      | parentDir =>
        simp only [dedotStart, parentTokens, hlc]
        cases hlast : (Comp.rootDir :: lc).getLast? with
        | none => exact absurd (List.getLast?_eq_none_iff.mp hlast) (by simp)
        | some last =>
          have hlmem : last ∈ Comp.rootDir :: lc := List.mem_of_getLast? hlast
          rcases List.mem_cons.mp hlmem with rfl | hlm
          · simp only
            split
            · left; exact ⟨rfl, [], rfl, by simp⟩
            · right; exact ⟨rfl, by intro n hn; cases hn⟩
          · obtain ⟨n, rfl⟩ := hnc last hlm
            simp only
            have hne : lc ≠ [] := by intro e; rw [e] at hlm; cases hlm
            have hd : (Comp.rootDir :: lc).dropLast = .rootDir :: lc.dropLast := List.dropLast_cons_of_ne_nil hne
            left
            rw [hd, List.map_cons, map_osStr_allNormal (allNormal_dropLast hnc)]
            refine ⟨by simp [osStr], names lc.dropLast, rfl, ?_⟩
            intro m hm
            apply mem_components (s := cwd)
            rw [hlc, List.mem_cons]; right
            apply List.dropLast_subset
            rw [← map_normal_names (allNormal_dropLast hnc)]; simp [hm]
      | normal n =>
        have hgn : Good n := mem_components (s := s) (by rw [hcs]; simp)
        cases ab with
        | false => right; exact ⟨rfl, by intro m hm; simp [dedotStart] at hm; rw [hm]; exact hgn⟩
        | true =>
          left
          simp only [dedotStart, hiter, ↓reduceIte]
          refine ⟨by simp, names lc ++ [n], by simp, ?_⟩
          intro m hm
          rcases List.mem_append.mp hm with h' | h'
          · exact hgc m h'
          · simp at h'; rw [h']; exact hgn
    rcases hstart with ⟨hroot, htok⟩ | ⟨hroot, htok⟩
    · -- absolute result
      rw [hroot] at h
      have hfin := foldl_root hrest _ (dedotStart ab cwd first).2.2 htok
      obtain ⟨g, hg, hgood⟩ := hfin
      rw [hg] at h
      simp only [reduceCtorEq, ↓reduceIte] at h
      split at h
      · cases h
        left
        have := components_render_abs hgood
        exact ⟨this.2, g.map .normal, this.1, allNormal_map g⟩
      · rename_i hcond
        cases h
        -- unchanged: the flag is clear, so `s` had a root first and only `Normal`s after it
        have hflag : (List.foldl (dedotStep true) ((dedotStart ab cwd first).1, (dedotStart ab cwd first).2.2) rest).2
            = false := by
          cases hf : (List.foldl (dedotStep true) ((dedotStart ab cwd first).1, (dedotStart ab cwd first).2.2) rest).2
          · rfl
          · exact absurd (.inl hf) hcond
        obtain ⟨hf0, hall⟩ := foldl_flag hrest _ _ hflag
        cases first with
        | rootDir =>
          have hsabs : isAbsolute s = true := by
            cases hs : isAbsolute s with
            | true => rfl
            | false =>
              rcases components_rel_cases hs with h' | h' <;> rw [hcs] at h'
              · have : Comp.rootDir ∈ body s := by rw [← h']; simp
                rcases mem_body this with h0 | ⟨n, h0, _⟩ <;> cases h0
              · cases h'
          left; exact ⟨hsabs, rest, hcs, hall⟩
        | curDir => simp [dedotStart] at hf0
        | parentDir =>
          simp only [dedotStart] at hf0
          split at hf0
          · cases hf0
          · split at hf0 <;> cases hf0
        | normal n =>
          cases ab with
          | false => simp [dedotStart] at hroot
          | true => simp [dedotStart] at hf0
    · -- relative result
      rw [hroot] at h
      have hfin := foldl_rel hrest _ (dedotStart ab cwd first).2.2 htok
      split at h
      · cases h
      · rename_i hne
        split at h
        · cases h
          rw [render_rel]
          have := components_joinSlash_rel hne hfin
          right
          refine ⟨this.1, by rw [this.2]; exact allNormal_map _, ?_⟩
          exact components_rel_nodot this.1 (by
            rw [splitSlash_joinSlash hne (fun n hn => (hfin n hn).2.2.2)]
            cases hl : (List.foldl (dedotStep false) ((dedotStart ab cwd first).1, (dedotStart ab cwd first).2.2) rest).1 with
            | nil => exact absurd hl hne
            | cons a r =>
              simp only [List.head?_cons, ne_eq, Option.some.injEq]
              exact (hfin a (by rw [hl]; simp)).2.1)
        · rename_i hcond
          cases h
          have hflag : (List.foldl (dedotStep false) ((dedotStart ab cwd first).1, (dedotStart ab cwd first).2.2) rest).2
              = false := by
            cases hf : (List.foldl (dedotStep false) ((dedotStart ab cwd first).1, (dedotStart ab cwd first).2.2) rest).2
            · rfl
            · exact absurd (.inl hf) hcond
          obtain ⟨hf0, hall⟩ := foldl_flag hrest _ _ hflag
          cases first with
          | rootDir => simp [dedotStart] at hroot
          | curDir => simp [dedotStart] at hf0
          | parentDir =>
            simp only [dedotStart] at hf0
            split at hf0
            · cases hf0
            · split at hf0 <;> cases hf0
          | normal n =>
            have hrel : isAbsolute s = false := by
              cases hs : isAbsolute s with
              | false => rfl
              | true => rw [components_abs hs] at hcs; cases hcs
            have hallc : AllNormal (components s) := by
              rw [hcs]; intro c hc
              rcases List.mem_cons.mp hc with rfl | hc
              · exact ⟨n, rfl⟩
              · exact hall c hc
            right
            refine ⟨hrel, hallc, ?_⟩
            rcases components_rel_cases hrel with h' | h'
            · exact h'
            · rw [hcs] at h'; cases h'

/-- **`resolve_abs_path` confines every string** -/
theorem resolveAbsPath_under_root (e : Env) (hr : RootOk e.root) (hc : RootOk e.cwd) {s p : Bytes}
    (h : resolveAbsPath e s = .ok p) : NoDots (components p) ∧ components e.root <+: components p := by
  obtain ⟨l, hl, hn⟩ := hr.shape
  obtain ⟨vr, hvr, hvc, hva⟩ := dedotFrom_abs_normals true e.cwd e.root hl hn
  have hav : absolutizeVirtually e.cwd e.root s = .ok p := by
    unfold resolveAbsPath at h
    split at h
    · rename_i q hq; cases h; exact hq
    · cases h
    · cases h
  unfold absolutizeVirtually at hav
  rw [hvr] at hav
  simp only at hav
  cases hd : dedotFrom false e.cwd s with
  | panic => rw [hd] at hav; cases hav
  | ok q =>
    rw [hd] at hav
    simp only at hav
    rcases dedot_result hc hd with ⟨hqa, hqn⟩ | ⟨hqa, hqn, hqb⟩
    · rw [hqa] at hav
      simp only [↓reduceIte] at hav
      split at hav
      · rename_i hsw
        cases hav
        refine ⟨hqn, ?_⟩
        unfold startsWith at hsw
        rw [hvc] at hsw
        exact List.isPrefixOf_iff_prefix.mp hsw
      · cases hav
    · rw [hqa] at hav
      simp only [Bool.false_eq_true, ↓reduceIte] at hav
      cases hav
      have hj := components_join hva hqa
      rw [hj.1, hvc, ← hqb]
      exact ⟨noDots_under hr rfl hqn, List.prefix_append _ _⟩

end S3V.FsPath
