import S3V.Model.FsWrite
/-!
# Lemmas for C19: `n` writers to one key under any interleaving

Invariant over all schedules: temporary names are distinct (the counter is `fetch_add`), every temporary file
belongs to exactly the writer that drew its number and holds a prefix (by frames) of that writer's content, the
destination is the previous content while nobody has renamed and afterwards always some *renamed* writer's whole
content.
-/
namespace S3V.FsWrite

structure Inv (old : Option Bytes) (w : World) : Prop where
  pcBound : ∀ (i : Nat) (wr : Writer), w.writers[i]? = some wr → wr.pc ≤ wr.frames.length + 3
  idLt : ∀ (i : Nat) (wr : Writer), w.writers[i]? = some wr → 1 ≤ wr.pc → wr.tmpId < w.counter
  idDistinct : ∀ (i j : Nat) (wr wr' : Writer), w.writers[i]? = some wr → w.writers[j]? = some wr' → i ≠ j →
    1 ≤ wr.pc → 1 ≤ wr'.pc → wr.tmpId ≠ wr'.tmpId
  tmpOf : ∀ (i : Nat) (wr : Writer), w.writers[i]? = some wr → 2 ≤ wr.pc → wr.pc ≤ wr.frames.length + 2 →
    w.tmps wr.tmpId = some ((wr.frames.take (wr.pc - 2)).flatten)
  tmpOwner : ∀ (id : Nat) (v : Bytes), w.tmps id = some v →
    ∃ (i : Nat) (wr : Writer), w.writers[i]? = some wr ∧ wr.tmpId = id ∧ 2 ≤ wr.pc ∧ wr.pc ≤ wr.frames.length + 2
  destOk : ((∀ (i : Nat) (wr : Writer), w.writers[i]? = some wr → wr.pc ≠ wr.frames.length + 3) ∧ w.dest = old) ∨
    ∃ (i : Nat) (wr : Writer), w.writers[i]? = some wr ∧ wr.pc = wr.frames.length + 3 ∧ w.dest = some wr.content

theorem inv_init (old : Option Bytes) (contents : List (List Bytes)) : Inv old (initWorld old contents) := by
  have hpc : ∀ (i : Nat) (wr : Writer), (initWorld old contents).writers[i]? = some wr → wr.pc = 0 := by
    intro i wr h
    simp only [initWorld, List.getElem?_map, Option.map_eq_some_iff] at h
    obtain ⟨f, _, rfl⟩ := h
    rfl
  refine ⟨?_, ?_, ?_, ?_, ?_, ?_⟩
  · intro i wr h; rw [hpc i wr h]; omega
  · intro i wr h h1; rw [hpc i wr h] at h1; omega
  · intro i j wr wr' h _ _ h1; rw [hpc i wr h] at h1; omega
  · intro i wr h h2; rw [hpc i wr h] at h2; omega
  · intro id v h; simp [initWorld] at h
  · left
    refine ⟨?_, rfl⟩
    intro i wr h; rw [hpc i wr h]; omega

theorem get_set {l : List Writer} {i j : Nat} {a x : Writer} (h : (l.set i a)[j]? = some x) :
    (j = i ∧ x = a) ∨ (j ≠ i ∧ l[j]? = some x) := by
  rw [List.getElem?_set] at h
  by_cases hij : i = j
  · subst hij
    simp only [↓reduceIte] at h
    split at h
    · left; exact ⟨rfl, (Option.some.inj h).symm⟩
    · cases h
  · simp only [hij, ↓reduceIte] at h
    right; exact ⟨fun e => hij e.symm, h⟩

theorem set_get_self {l : List Writer} {i : Nat} {a w : Writer} (h : l[i]? = some w) : (l.set i a)[i]? = some a := by
  have : i < l.length := by
    rcases Nat.lt_or_ge i l.length with h' | h'
    · exact h'
    · rw [List.getElem?_eq_none h'] at h; cases h
  rw [List.getElem?_set]
  simp [this]

theorem set_get_ne {l : List Writer} {i j : Nat} {a : Writer} (h : j ≠ i) : (l.set i a)[j]? = l[j]? := by
  rw [List.getElem?_set, if_neg (fun e => h e.symm)]

theorem take_succ_flatten (frames : List Bytes) (k : Nat) (hk : k < frames.length) :
    (frames.take (k + 1)).flatten = (frames.take k).flatten ++ frames.getD k [] := by
  rw [List.take_add_one, List.flatten_append]
  simp [List.getElem?_eq_getElem hk]

/-- the parts of the invariant that only look at program counters and drawn numbers -/
theorem inv_static {old : Option Bytes} {w : World} {i : Nat} {wr nw : Writer} {c' : Nat} (hI : Inv old w)
    (hw : w.writers[i]? = some wr) (hpc : nw.pc ≤ nw.frames.length + 3) (hc : w.counter ≤ c')
    (hid : 1 ≤ nw.pc → nw.tmpId < c')
    (hfresh : ∀ (j : Nat) (x : Writer), w.writers[j]? = some x → j ≠ i → 1 ≤ x.pc → 1 ≤ nw.pc → x.tmpId ≠ nw.tmpId) :
    (∀ (j : Nat) (x : Writer), (w.writers.set i nw)[j]? = some x → x.pc ≤ x.frames.length + 3) ∧
    (∀ (j : Nat) (x : Writer), (w.writers.set i nw)[j]? = some x → 1 ≤ x.pc → x.tmpId < c') ∧
    (∀ (j k : Nat) (x y : Writer), (w.writers.set i nw)[j]? = some x → (w.writers.set i nw)[k]? = some y → j ≠ k →
      1 ≤ x.pc → 1 ≤ y.pc → x.tmpId ≠ y.tmpId) := by
  refine ⟨?_, ?_, ?_⟩
  · intro j x hx
    rcases get_set hx with ⟨_, hxe⟩ | ⟨_, hx'⟩
    · rw [hxe]; exact hpc
    · exact hI.pcBound j x hx'
  · intro j x hx h1
    rcases get_set hx with ⟨_, hxe⟩ | ⟨_, hx'⟩
    · rw [hxe] at h1 ⊢; exact hid h1
    · exact Nat.lt_of_lt_of_le (hI.idLt j x hx' h1) hc
  · intro j k x y hx hy hjk h1 h1'
    rcases get_set hx with ⟨hji, hxe⟩ | ⟨hji, hx'⟩
    · rcases get_set hy with ⟨hki, hye⟩ | ⟨hki, hy'⟩
      · exact absurd (hji.trans hki.symm) hjk
      · rw [hxe] at h1 ⊢
        exact (hfresh k y hy' hki h1' h1).symm
    · rcases get_set hy with ⟨hki, hye⟩ | ⟨hki, hy'⟩
      · rw [hye] at h1' ⊢
        exact hfresh j x hx' hji h1 h1'
      · exact hI.idDistinct j k x y hx' hy' hjk h1 h1'

/-- a step that is not the rename keeps the destination clause -/
theorem inv_dest_keep {old : Option Bytes} {w : World} {i : Nat} {wr nw : Writer} (hI : Inv old w)
    (hw : w.writers[i]? = some wr) (hold : wr.pc ≠ wr.frames.length + 3) (hnew : nw.pc ≠ nw.frames.length + 3) :
    ((∀ (j : Nat) (x : Writer), (w.writers.set i nw)[j]? = some x → x.pc ≠ x.frames.length + 3) ∧ w.dest = old) ∨
    ∃ (j : Nat) (x : Writer), (w.writers.set i nw)[j]? = some x ∧ x.pc = x.frames.length + 3 ∧
      w.dest = some x.content := by
  rcases hI.destOk with ⟨hn, hd⟩ | ⟨j, x, hx, hp, hd⟩
  · left
    refine ⟨?_, hd⟩
    intro j x hx
    rcases get_set hx with ⟨_, hxe⟩ | ⟨_, hx'⟩
    · rw [hxe]; exact hnew
    · exact hn j x hx'
  · right
    have hji : j ≠ i := by
      intro e; rw [e, hw] at hx; cases hx; exact hold hp
    exact ⟨j, x, by rw [set_get_ne hji]; exact hx, hp, hd⟩

theorem wstep_draw {w : World} {wr : Writer} (h : wr.pc = 0) :
    wstep w wr = ({ w with counter := w.counter + 1 }, { wr with pc := 1, tmpId := w.counter }) := by
  unfold wstep; rw [if_pos h]

theorem wstep_create {w : World} {wr : Writer} (h : wr.pc = 1) :
    wstep w wr = ({ w with tmps := setTmp w.tmps wr.tmpId (some []) }, { wr with pc := 2 }) := by
  unfold wstep; rw [if_neg (by omega), if_pos h]

theorem wstep_append {w : World} {wr : Writer} (h1 : 2 ≤ wr.pc) (h2 : wr.pc < wr.frames.length + 2) :
    wstep w wr =
      ({ w with tmps := setTmp w.tmps wr.tmpId (some ((w.tmps wr.tmpId).getD [] ++ wr.frames.getD (wr.pc - 2) [])) },
       { wr with pc := wr.pc + 1 }) := by
  unfold wstep; rw [if_neg (by omega), if_neg (by omega), if_pos h2]

theorem wstep_rename {w : World} {wr : Writer} (h : wr.pc = wr.frames.length + 2) :
    wstep w wr = ({ w with dest := w.tmps wr.tmpId, tmps := setTmp w.tmps wr.tmpId none },
      { wr with pc := wr.pc + 1 }) := by
  unfold wstep; rw [if_neg (by omega), if_neg (by omega), if_neg (by omega), if_pos h]

theorem wstep_finished {w : World} {wr : Writer} (h : wr.frames.length + 3 ≤ wr.pc) : wstep w wr = (w, wr) := by
  unfold wstep; rw [if_neg (by omega), if_neg (by omega), if_neg (by omega), if_neg (by omega)]

/-- one scheduler step preserves the invariant -/
theorem inv_sched {old : Option Bytes} {w : World} (hI : Inv old w) (i : Nat) : Inv old (sched w i) := by
  unfold sched
  cases hw : w.writers[i]? with
  | none => simpa using hI
  | some wr =>
    simp only
    have hb := hI.pcBound i wr hw
    have hfresh' : ∀ (j : Nat) (x : Writer), w.writers[j]? = some x → j ≠ i → 1 ≤ x.pc → 1 ≤ wr.pc →
        x.tmpId ≠ wr.tmpId :=
      fun j x hx hji hp hp' => hI.idDistinct j i x wr hx hw hji hp hp'
    by_cases h0 : wr.pc = 0
    · -- draw a counter value
      rw [wstep_draw h0]
      simp only
      obtain ⟨s1, s2, s3⟩ := inv_static (nw := { wr with pc := 1, tmpId := w.counter }) (c' := w.counter + 1) hI hw
        (by simp) (by omega) (by simp)
        (fun j x hx _ hp _ => by have := hI.idLt j x hx hp; simp; omega)
      refine ⟨s1, s2, s3, ?_, ?_, ?_⟩
      · intro j x hx h2 h3
        rcases get_set hx with ⟨_, hxe⟩ | ⟨_, hx'⟩
        · rw [hxe] at h2; simp at h2
        · exact hI.tmpOf j x hx' h2 h3
      · intro id v hv
        obtain ⟨j, x, hx, hid, h2, h3⟩ := hI.tmpOwner id v hv
        have hji : j ≠ i := by intro e; rw [e, hw] at hx; cases hx; omega
        exact ⟨j, x, by rw [set_get_ne hji]; exact hx, hid, h2, h3⟩
      · exact inv_dest_keep hI hw (by omega) (by simp <;> omega)
    · by_cases h1 : wr.pc = 1
      · -- create the temporary file
        rw [wstep_create h1]
        simp only
        obtain ⟨s1, s2, s3⟩ := inv_static (nw := { wr with pc := 2 }) (c' := w.counter) hI hw
          (by simp) (Nat.le_refl _) (fun _ => hI.idLt i wr hw (by omega))
          (fun j x hx hji hp _ => hfresh' j x hx hji hp (by omega))
        refine ⟨s1, s2, s3, ?_, ?_, ?_⟩
        · intro j x hx h2 h3
          rcases get_set hx with ⟨_, hxe⟩ | ⟨hj, hx'⟩
          · rw [hxe]; simp [setTmp]
          · have := hfresh' j x hx' hj (by omega) (by omega)
            simp only [setTmp, this, ↓reduceIte]
            exact hI.tmpOf j x hx' h2 h3
        · intro id v hv
          simp only [setTmp] at hv
          split at hv
          · rename_i hid
            exact ⟨i, { wr with pc := 2 }, set_get_self hw, hid.symm, by simp, by simp⟩
          · obtain ⟨j, x, hx, hid, h2, h3⟩ := hI.tmpOwner id v hv
            have hji : j ≠ i := by intro e; rw [e, hw] at hx; cases hx; omega
            exact ⟨j, x, by rw [set_get_ne hji]; exact hx, hid, h2, h3⟩
        · exact inv_dest_keep hI hw (by omega) (by simp <;> omega)
      · by_cases h2 : wr.pc < wr.frames.length + 2
        · -- append one frame
          rw [wstep_append (by omega) h2]
          simp only
          have hcur := hI.tmpOf i wr hw (by omega) (by omega)
          obtain ⟨s1, s2, s3⟩ := inv_static (nw := { wr with pc := wr.pc + 1 }) (c' := w.counter) hI hw
            (by simp; omega) (Nat.le_refl _) (fun _ => hI.idLt i wr hw (by omega))
            (fun j x hx hji hp _ => hfresh' j x hx hji hp (by omega))
          refine ⟨s1, s2, s3, ?_, ?_, ?_⟩
          · intro j x hx hp2 hp3
            rcases get_set hx with ⟨_, hxe⟩ | ⟨hj, hx'⟩
            · rw [hxe]
              simp only [setTmp, ↓reduceIte, hcur, Option.getD_some, Option.some.injEq]
              have : wr.pc + 1 - 2 = (wr.pc - 2) + 1 := by omega
              rw [this, take_succ_flatten _ _ (by omega)]
            · have := hfresh' j x hx' hj (by omega) (by omega)
              simp only [setTmp, this, ↓reduceIte]
              exact hI.tmpOf j x hx' hp2 hp3
          · intro id v hv
            simp only [setTmp] at hv
            split at hv
            · rename_i hid
              exact ⟨i, { wr with pc := wr.pc + 1 }, set_get_self hw, hid.symm, by simp; omega, by simp; omega⟩
            · obtain ⟨j, x, hx, hid, hp2, hp3⟩ := hI.tmpOwner id v hv
              by_cases hji : j = i
              · rw [hji, hw] at hx; cases hx
                exact ⟨i, { wr with pc := wr.pc + 1 }, set_get_self hw, hid, by simp; omega, by simp; omega⟩
              · exact ⟨j, x, by rw [set_get_ne hji]; exact hx, hid, hp2, hp3⟩
          · exact inv_dest_keep hI hw (by omega) (by simp <;> omega)
        · by_cases h3 : wr.pc = wr.frames.length + 2
          · -- the rename
            rw [wstep_rename h3]
            simp only
            have hcur := hI.tmpOf i wr hw (by omega) (by omega)
            have hcontent : w.tmps wr.tmpId = some wr.content := by
              rw [hcur, h3]; simp [Writer.content]
            obtain ⟨s1, s2, s3⟩ := inv_static (nw := { wr with pc := wr.pc + 1 }) (c' := w.counter) hI hw
              (by simp; omega) (Nat.le_refl _) (fun _ => hI.idLt i wr hw (by omega))
              (fun j x hx hji hp _ => hfresh' j x hx hji hp (by omega))
            refine ⟨s1, s2, s3, ?_, ?_, ?_⟩
            · intro j x hx hp2 hp3
              rcases get_set hx with ⟨_, hxe⟩ | ⟨hj, hx'⟩
              · rw [hxe] at hp3; simp at hp3; omega
              · have := hfresh' j x hx' hj (by omega) (by omega)
                simp only [setTmp, this, ↓reduceIte]
                exact hI.tmpOf j x hx' hp2 hp3
            · intro id v hv
              simp only [setTmp] at hv
              split at hv
              · cases hv
              · rename_i hid
                obtain ⟨j, x, hx, hidx, hp2, hp3⟩ := hI.tmpOwner id v hv
                have hji : j ≠ i := by
                  intro e; rw [e, hw] at hx; cases hx; exact hid hidx.symm
                exact ⟨j, x, by rw [set_get_ne hji]; exact hx, hidx, hp2, hp3⟩
            · right
              exact ⟨i, { wr with pc := wr.pc + 1 }, set_get_self hw, by simp; omega, by
                simp [hcontent, Writer.content]⟩
          · -- finished: nothing happens
            rw [wstep_finished (by omega)]
            simp only
            have : w.writers.set i wr = w.writers := by
              apply List.ext_getElem?
              intro j
              by_cases hji : j = i
              · rw [hji, set_get_self hw, hw]
              · rw [set_get_ne hji]
            rw [this]
            exact hI

theorem inv_runSched {old : Option Bytes} {w : World} (hI : Inv old w) (schedule : List Nat) :
    Inv old (runSched w schedule) := by
  induction schedule generalizing w with
  | nil => exact hI
  | cons i r ih => exact ih (inv_sched hI i)

theorem wstep_frames (w : World) (wr : Writer) :
    (wstep w wr).2.frames = wr.frames ∧ (wstep w wr).1.writers = w.writers := by
  by_cases h0 : wr.pc = 0
  · rw [wstep_draw h0]; exact ⟨rfl, rfl⟩
  · by_cases h1 : wr.pc = 1
    · rw [wstep_create h1]; exact ⟨rfl, rfl⟩
    · by_cases h2 : wr.pc < wr.frames.length + 2
      · rw [wstep_append (by omega) h2]; exact ⟨rfl, rfl⟩
      · by_cases h3 : wr.pc = wr.frames.length + 2
        · rw [wstep_rename h3]; exact ⟨rfl, rfl⟩
        · rw [wstep_finished (by omega)]; exact ⟨rfl, rfl⟩

theorem writers_frames_sched (w : World) (i : Nat) :
    (sched w i).writers.map (·.frames) = w.writers.map (·.frames) := by
  unfold sched
  cases hw : w.writers[i]? with
  | none => rfl
  | some wr =>
    simp only
    rw [(wstep_frames w wr).2]
    apply List.ext_getElem?
    intro j
    simp only [List.getElem?_map]
    by_cases hji : j = i
    · rw [hji, set_get_self hw, hw]; simp [(wstep_frames w wr).1]
    · rw [set_get_ne hji]

theorem writers_frames_runSched (w : World) (schedule : List Nat) :
    (runSched w schedule).writers.map (·.frames) = w.writers.map (·.frames) := by
  induction schedule generalizing w with
  | nil => rfl
  | cons i r ih =>
    show (runSched (sched w i) r).writers.map _ = _
    rw [ih, writers_frames_sched]

theorem writers_frames_init (old : Option Bytes) (contents : List (List Bytes)) (schedule : List Nat) :
    (runSched (initWorld old contents) schedule).writers.map (·.frames) = contents := by
  rw [writers_frames_runSched]
  simp [initWorld, Function.comp_def]

end S3V.FsWrite
