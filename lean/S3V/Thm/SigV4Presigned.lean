import S3V.Thm.SigV4Tamper
/-!
# Lemmas for presigned URLs: unique parameters, every parameter is signed, the calendar
-/
namespace S3V.SigV4
open S3V

/-! ## `get_unique` -/

theorem filter_dropWhile_lt (name : Bytes) (l : List (Bytes × Bytes)) :
    (l.dropWhile fun x => bLt x.1 name).filter (fun p => p.1 = name) = l.filter (fun p => p.1 = name) := by
  induction l with
  | nil => rfl
  | cons z zs ih =>
    rw [List.dropWhile_cons]
    by_cases hlt : bLt z.1 name = true
    · have hne : z.1 ≠ name := by intro e; rw [e, bLt_irrefl] at hlt; cases hlt
      simp [hlt, hne, ih]
    · simp [hlt]

/-- `get_unique` answers only when exactly one pair carries the name -/
theorem getUnique_some_count {qs : List (Bytes × Bytes)} (hs : SortedBy qs) {name v : Bytes}
    (h : getUnique qs name = some v) : (qs.filter (fun p => p.1 = name)).length = 1 := by
  rw [← filter_dropWhile_lt]
  unfold getUnique at h
  have hsub : (qs.dropWhile fun x => bLt x.1 name).Pairwise (fun a b => bLt b.1 a.1 = false) :=
    List.Pairwise.sublist (List.dropWhile_sublist _) hs
  cases hrest : (qs.dropWhile fun x => bLt x.1 name) with
  | nil => rw [hrest] at h; cases h
  | cons p following =>
    rw [hrest] at h hsub
    rw [List.pairwise_cons] at hsub
    cases following with
    | nil =>
      simp only [] at h
      split at h
      · rename_i hp; simp [hp]
      · cases h
    | cons f rest' =>
      simp only [] at h
      split at h
      · cases h
      · rename_i hf
        split at h
        · rename_i hp
          have hnone : ∀ q ∈ f :: rest', q.1 ≠ name := by
            intro q hq e
            -- name = p.1 ≤ f.1 ≤ q.1 = name forces f.1 = name
            have h1 : bLt f.1 p.1 = false := hsub.1 f (by simp)
            have h2 : bLt q.1 f.1 = false := by
              rcases List.mem_cons.mp hq with rfl | hq'
              · exact bLt_irrefl _
              · have := hsub.2
                rw [List.pairwise_cons] at this
                exact this.1 q hq'
            rw [hp] at h1
            rw [e] at h2
            exact hf (bLt_total h1 h2)
          have : (f :: rest').filter (fun p => p.1 = name) = [] := by
            rw [List.filter_eq_nil_iff]
            intro q hq
            simpa using hnone q hq
          rw [List.filter_cons]
          simp [hp, this]
        · cases h

theorem getUnique_none_of_count {qs : List (Bytes × Bytes)} (hs : SortedBy qs) {name : Bytes}
    (h : (qs.filter (fun p => p.1 = name)).length ≠ 1) : getUnique qs name = none := by
  cases hg : getUnique qs name with
  | none => rfl
  | some v => exact absurd (getUnique_some_count hs hg) h

/-- the six authentication parameters -/
def xAmzNames : List Bytes :=
  [b!"X-Amz-Algorithm", b!"X-Amz-Credential", b!"X-Amz-Date", b!"X-Amz-Expires", b!"X-Amz-SignedHeaders", b!"X-Amz-Signature"]

theorem parsePresigned_none {qs : List (Bytes × Bytes)} {name : Bytes} (hn : name ∈ xAmzNames)
    (h : getUnique qs name = none) : parsePresigned qs = none := by
  unfold xAmzNames at hn
  simp only [List.mem_cons, List.not_mem_nil, or_false] at hn
  unfold parsePresigned
  rcases hn with rfl | rfl | rfl | rfl | rfl | rfl <;> (rw [h]; try (split <;> simp_all))

/-! ## every parameter other than the signature is part of the signed view -/

theorem param_in_view (method path : Bytes) (qs headers : List (Bytes × Bytes)) (signed : List Bytes)
    {k v : Bytes} (hmem : (k, v) ∈ qs) (hk : k ≠ SigV4Spec.xAmzSignature) :
    (SigV4Spec.uriEncode false k, SigV4Spec.uriEncode false v) ∈
      (signedView (SigV4Spec.presignedRequest method path qs headers signed)).query := by
  unfold signedView encodedQuery SigV4Spec.presignedRequest
  simp only
  rw [mem_sortPairs, List.mem_map]
  exact ⟨(k, v), List.mem_filter.mpr ⟨hmem, by simpa using hk⟩, rfl⟩

theorem param_change_changes_view (method path : Bytes) (qs qs' headers headers' : List (Bytes × Bytes))
    (signed signed' : List Bytes) {k v : Bytes} (hmem : (k, v) ∈ qs) (hk : k ≠ SigV4Spec.xAmzSignature)
    (hnot : (k, v) ∉ qs') :
    signedView (SigV4Spec.presignedRequest method path qs headers signed) ≠
      signedView (SigV4Spec.presignedRequest method path qs' headers' signed') := by
  intro h
  have h1 := param_in_view method path qs headers signed hmem hk
  rw [h] at h1
  unfold signedView encodedQuery SigV4Spec.presignedRequest at h1
  simp only at h1
  rw [mem_sortPairs, List.mem_map] at h1
  obtain ⟨⟨k', v'⟩, hm', he⟩ := h1
  simp only [Prod.mk.injEq] at he
  have ek := uriEncode_injective false he.1
  have ev := uriEncode_injective false he.2
  subst ek; subst ev
  exact hnot (List.mem_filter.mp hm').1

end S3V.SigV4
