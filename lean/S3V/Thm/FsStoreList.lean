import S3V.Thm.FsStoreCore
import S3V.Thm.FsStoreOrder
/-!
# C18: listings refine the store; what the store's listing is (exact members, strictly ascending)
-/
namespace S3V.FsStore
open S3V.StoreSpec

theorem insSorted_length {β : Type} (x : Bytes × β) (l : List (Bytes × β)) :
    (insSorted bytesLe x l).length = l.length + 1 := by
  induction l with
  | nil => rfl
  | cons z t ih =>
    unfold insSorted
    split
    · simp [ih]
    · simp

theorem foldl_insSorted_length {β : Type} (l acc : List (Bytes × β)) :
    (l.foldl (fun acc x => insSorted bytesLe x acc) acc).length = l.length + acc.length := by
  induction l generalizing acc with
  | nil => simp
  | cons x t ih => simp only [List.foldl_cons, ih, insSorted_length, List.length_cons]; omega

theorem sortByKey_length {β : Type} (l : List (Bytes × β)) : (sortByKey l).length = l.length := by
  unfold sortByKey; rw [foldl_insSorted_length]; simp

/-- the objects of a tree are its files, keyed by the joined path -/
theorem absTree_eq_files (s : State) (b : Bytes) (t : Tree) :
    absTree s b t = t.files.map fun e =>
      (joinWith [slash] e.1, (⟨e.2, absMeta s b (joinWith [slash] e.1),
        (alLookup (b, joinWith [slash] e.1) s.infos).getD {}⟩ : Obj)) := by
  unfold absTree Tree.files
  induction t with
  | nil => rfl
  | cons x t ih =>
    obtain ⟨p, n⟩ := x
    cases n with
    | dir => simp only [List.filterMap_cons, absObj]; exact ih
    | file c => simp only [List.filterMap_cons, absObj, List.map_cons]; rw [ih]

theorem dedupCps_keys (l : List (Bytes × Nat)) :
    dedupCps (l.map fun e => Entry.key e.1 e.2) = l.map fun e => Entry.key e.1 e.2 := by
  induction l with
  | nil => rfl
  | cons x t ih =>
    cases t with
    | nil => rfl
    | cons y u =>
      simp only [List.map_cons] at ih ⊢
      unfold dedupCps
      simp [Entry.isCp, ih]

theorem filterMap_keys (l : List (Bytes × Nat)) :
    ((l.map fun e => Entry.key e.1 e.2).filterMap fun e => match e with
      | .key k sz => some (k, sz)
      | .cp _ => none) = l := by
  induction l with
  | nil => rfl
  | cons x t ih => simp [ih]

theorem filterMap_cps (l : List (Bytes × Nat)) :
    ((l.map fun e => Entry.key e.1 e.2).filterMap fun e => match e with
      | .cp q => some q
      | .key _ _ => none) = [] := by
  induction l with
  | nil => rfl
  | cons x t ih => simp [ih]

def listLimit : Option Int → Nat
  | none => 1000
  | some n => n.toNat

/-- listings may be compared with the store: the name agrees; the prefix does not start with `/` [else fs:list-prefix-as-path:
    `list_objects_v2` drops leading slashes of the prefix — no key starts with one —, the existing integration test
    `test_list_objects_v2` demands it]. Nothing else: any delimiter (also the empty one), any marker, any `max-keys`. -/
def ListOk (b : Bytes) (pfx : Option Bytes) : Prop :=
  NameOk b ∧
  match pfx with
  | none => True
  | some p => p.head? ≠ some slash

theorem trimSlashes_eq {p : Bytes} (h : p.head? ≠ some slash) : trimSlashes p = p := by
  cases p with
  | nil => rfl
  | cons c cs =>
    have : c ≠ slash := by simpa using h
    simp [trimSlashes, this]

theorem ListOk.prefix_eq {b : Bytes} {pfx : Option Bytes} (h : ListOk b pfx) :
    trimSlashes (pfx.getD []) = pfx.getD [] := by
  cases pfx with
  | none => rfl
  | some p => exact trimSlashes_eq h.2

/-- the listing both sides compute, before the marker is applied -/
def listBase (t : Tree) (pfx : Option Bytes) : List (Bytes × Nat) :=
  sortByKey ((t.files.filter fun e => (pfx.getD []).isPrefixOf (joinWith [slash] e.1)).map fun e =>
    (joinWith [slash] e.1, e.2.length))

/-- the listing after the marker -/
def listAfter (t : Tree) (pfx after : Option Bytes) : List (Bytes × Nat) :=
  match after with
  | none => listBase t pfx
  | some m => (listBase t pfx).filter fun e => bytesLt m e.1

theorem listKeys_eq (t : Tree) (pfx after : Option Bytes) :
    listKeys t (pfx.getD []) after = listAfter t pfx after := by
  cases after with
  | none => rfl
  | some m =>
    simp only [listKeys, listAfter]
    rw [dropWhile_le_eq_filter_lt m _ (sortByKey_sorted _)]
    rfl

theorem listAfter_prefix (t : Tree) (pfx after : Option Bytes) :
    ∀ e ∈ listAfter t pfx after, (pfx.getD []).isPrefixOf e.1 = true := by
  have hb : ∀ e ∈ listBase t pfx, (pfx.getD []).isPrefixOf e.1 = true := by
    intro e he
    unfold listBase at he
    rw [sortByKey_mem, List.mem_map] at he
    obtain ⟨f, hf, rfl⟩ := he
    exact (List.mem_filter.mp hf).2
  intro e he
  cases after with
  | none => exact hb e he
  | some m => exact hb e (List.mem_filter.mp he).1

/-! ### the roll-up loop of the code computes the store's entries -/

def toEntry : Listed → Entry
  | .object k sz => .key k sz
  | .commonPrefix g => .cp g

/-- `str::find` is the store's `findSub` (for the non-empty patterns the code passes) -/
theorem strFind_eq_findSub {d : Bytes} (hd : d ≠ []) : ∀ s : Bytes, strFind d s = findSub d s := by
  intro s
  induction s with
  | nil => simp [strFind, findSub, hd]
  | cons c cs ih => simp only [strFind, findSub, ih]

/-- what precedes the first occurrence, then the pattern = everything up to the end of the first occurrence -/
theorem take_findSub {d : Bytes} : ∀ {s : Bytes} {i : Nat}, findSub d s = some i → s.take (i + d.length) = s.take i ++ d := by
  intro s
  induction s with
  | nil =>
    intro i h
    unfold findSub at h
    split at h
    · next hd => subst hd; simp
    · cases h
  | cons c cs ih =>
    intro i h
    unfold findSub at h
    split at h
    · next hp =>
      cases h
      have := List.prefix_iff_eq_take.mp (List.isPrefixOf_iff_prefix.mp hp)
      simpa using this.symm
    · cases hf : findSub d cs with
      | none => rw [hf] at h; cases h
      | some j =>
        rw [hf] at h
        simp only [Option.map_some, Option.some.injEq] at h
        subst h
        have : j + 1 + d.length = (j + d.length) + 1 := by omega
        rw [this, List.take_succ_cons, List.take_succ_cons, ih hf]
        rfl

/-- the entry of one key: as the code groups it = as the store does -/
theorem entryOf_eq (p : Bytes) (delim : Option Bytes) (k : Bytes) (sz : Nat) (hp : p.isPrefixOf k = true) :
    entryOf p delim k sz =
      match (delim.filter fun d => d ≠ []).bind fun d => commonPrefix p d k with
      | none => .key k sz
      | some g => .cp g := by
  cases delim with
  | none => rfl
  | some d =>
    by_cases hd : d = []
    · subst hd; rfl
    · have hf : (Option.some d).filter (fun d => decide (d ≠ [])) = some d := by simp [Option.filter, hd]
      simp only [hf, Option.bind_some, entryOf, hd, if_false, commonPrefix, hp, if_true]
      rw [strFind_eq_findSub hd]
      cases hfs : findSub d (k.drop p.length) with
      | none => rfl
      | some i => simp only [take_findSub hfs, List.append_assoc]

/-- a leading common prefix equal to the one pushed last is not pushed again -/
def skipHead (last : Option Bytes) : List Entry → List Entry
  | .cp c :: t => if last = some c then t else .cp c :: t
  | E => E

theorem skipHead_none (E : List Entry) : skipHead none E = E := by
  unfold skipHead; split <;> simp

theorem dedupCps_key (k : Bytes) (sz : Nat) (E : List Entry) :
    dedupCps (.key k sz :: E) = .key k sz :: dedupCps E := by
  cases E with
  | nil => rfl
  | cons f t => simp [dedupCps, Entry.isCp]

theorem dedupCps_cp : ∀ (E : List Entry) (c : Bytes),
    dedupCps (.cp c :: E) = .cp c :: skipHead (some c) (dedupCps E) := by
  intro E
  induction E with
  | nil => intro c; rfl
  | cons f t ih =>
    intro c
    by_cases hf : f = .cp c
    · subst hf
      have h1 : dedupCps (Entry.cp c :: Entry.cp c :: t) = dedupCps (Entry.cp c :: t) := by
        simp [dedupCps, Entry.isCp]
      rw [h1, ih c]
      simp [skipHead]
    · have h1 : dedupCps (Entry.cp c :: f :: t) = Entry.cp c :: dedupCps (f :: t) := by
        have : ¬ (Entry.cp c = f) := fun h => hf h.symm
        simp [dedupCps, this]
      rw [h1]
      congr 1
      cases f with
      | key k sz => rw [dedupCps_key]; rfl
      | cp c' =>
        rw [ih c']
        have : ¬ (some c = some c') := by
          intro h; apply hf; cases h; rfl
        simp [skipHead, this]

/-- the loop, against the store's "map every key to its entry, then count consecutive equal common prefixes once" -/
theorem rollUp_eq (p : Bytes) (d : Option Bytes) (ent : Bytes × Nat → Entry) :
    ∀ (L : List (Bytes × Nat)) (last : Option Bytes),
      (∀ e ∈ L, ent e = match d.bind fun d => commonPrefix p d e.1 with
        | none => .key e.1 e.2
        | some g => .cp g) →
      (rollUp p d last L).map toEntry = skipHead last (dedupCps (L.map ent)) := by
  intro L
  induction L with
  | nil => intro last _; cases last <;> rfl
  | cons x rest ih =>
    intro last h
    obtain ⟨k, sz⟩ := x
    have hx := h (k, sz) (List.mem_cons_self ..)
    have hrest : ∀ e ∈ rest, ent e = match d.bind fun d => commonPrefix p d e.1 with
        | none => .key e.1 e.2
        | some g => .cp g := fun e he => h e (List.mem_cons_of_mem _ he)
    simp only [List.map_cons]
    cases hg : d.bind fun d => commonPrefix p d k with
    | none =>
      simp only [hg] at hx
      simp only [rollUp, hg, List.map_cons, toEntry, hx, dedupCps_key, ih none hrest, skipHead_none]
      rfl
    | some g =>
      simp only [hg] at hx
      rw [hx, dedupCps_cp]
      by_cases hl : last = some g
      · simp only [rollUp, hg, hl, if_true]
        rw [ih (some g) hrest]
        simp [skipHead]
      · simp only [rollUp, hg, hl, if_false, List.map_cons, toEntry]
        rw [ih (some g) hrest]
        simp [skipHead, hl]

/-- the members of the answer, read off the code's entries and off the store's -/
theorem listed_map (E : List Listed) (lim : Nat) :
    Resp.listed ((E.take lim).filterMap Listed.object?) (E.take lim).length (decide (E.length > lim))
        ((E.take lim).filterMap Listed.commonPrefix?) =
      Resp.listed
        (((E.map toEntry).take lim).filterMap fun e => match e with
          | .key k sz => some (k, sz)
          | .cp _ => none)
        ((E.map toEntry).take lim).length
        (decide ((E.map toEntry).length > lim))
        (((E.map toEntry).take lim).filterMap fun e => match e with
          | .cp q => some q
          | .key _ _ => none) := by
  rw [← List.map_take, List.filterMap_map, List.filterMap_map, List.length_map, List.length_map]
  have h1 : ((fun e => match e with
      | Entry.key k sz => some (k, sz)
      | Entry.cp _ => none) ∘ toEntry) = Listed.object? := by
    funext e; cases e <;> rfl
  have h2 : ((fun e => match e with
      | Entry.cp q => some q
      | Entry.key _ _ => none) ∘ toEntry) = Listed.commonPrefix? := by
    funext e; cases e <;> rfl
  rw [h1, h2]

/-- `list_objects_v2` on a bucket directory answers what the store answers on the bucket's objects: every prefix that does
    not start with `/`, every delimiter, marker and `max-keys` -/
theorem listAnswer_eq (s : State) (b : Bytes) (t : Tree) (pfx delim after : Option Bytes) (maxKeys : Option Int)
    (hp : trimSlashes (pfx.getD []) = pfx.getD []) :
    listAnswer t pfx delim after maxKeys = listing (absTree s b t) pfx delim after maxKeys := by
  have hunder : sortByKey (((absTree s b t).filter fun e => (pfx.getD []).isPrefixOf e.1).map fun e =>
      (e.1, e.2.content.length)) = listBase t pfx := by
    unfold listBase
    rw [absTree_eq_files, List.filter_map, List.map_map]
    rfl
  have hlim : (maxKeys.getD 1000).toNat = (match maxKeys with
      | none => 1000
      | some n => n.toNat) := by
    cases maxKeys <;> rfl
  have hroll := rollUp_eq (pfx.getD []) (delim.filter fun d => d ≠ [])
    (fun e => entryOf (pfx.getD []) delim e.1 e.2) (listAfter t pfx after) none
    (fun e he => entryOf_eq (pfx.getD []) delim e.1 e.2 (listAfter_prefix t pfx after e he))
  rw [skipHead_none] at hroll
  simp only [listAnswer, listing, hp, hunder, listKeys_eq, hlim]
  rw [listed_map, hroll]
  rfl

end S3V.FsStore

namespace S3V.FsStore
open S3V.StoreSpec

theorem listV2_refines (H : Hashes) (dl : Nat) {s : State} (hi : Inv s) {b : Bytes}
    {pfx delim after : Option Bytes} {maxKeys : Option Int} (hg : ListOk b pfx) :
    (step H dl s (.listObjectsV2 b pfx delim after maxKeys)).2 =
      (StoreSpec.step H (abs s) (.listObjectsV2 b pfx delim after maxKeys)).2 ∧
    abs (step H dl s (.listObjectsV2 b pfx delim after maxKeys)).1 =
      (StoreSpec.step H (abs s) (.listObjectsV2 b pfx delim after maxKeys)).1 ∧
    Inv (step H dl s (.listObjectsV2 b pfx delim after maxKeys)).1 := by
  have hpfx := hg.prefix_eq
  rcases hg.1.cases with ⟨hbo, hbd⟩ | ⟨hbo, hbd⟩
  · cases ht : s.tree b with
    | none =>
      have habs : (abs s).bucket b = none := by rw [abs_bucket, ht]; rfl
      simp [step, StoreSpec.step, hbd, hbo, ht, habs, hi]
    | some t =>
      have habs : (abs s).bucket b = some (absTree s b t) := by rw [abs_bucket, ht]; rfl
      simp [step, StoreSpec.step, hbd, hbo, ht, habs, hi, listAnswer_eq s b t pfx delim after maxKeys hpfx]
  · simp [step, StoreSpec.step, hbd, hbo, hi]

theorem listV1_refines (H : Hashes) (dl : Nat) {s : State} (hi : Inv s) {b : Bytes}
    {pfx delim marker : Option Bytes} {maxKeys : Option Int} (hg : ListOk b pfx) :
    (step H dl s (.listObjects b pfx delim marker maxKeys)).2 =
      (StoreSpec.step H (abs s) (.listObjects b pfx delim marker maxKeys)).2 ∧
    abs (step H dl s (.listObjects b pfx delim marker maxKeys)).1 =
      (StoreSpec.step H (abs s) (.listObjects b pfx delim marker maxKeys)).1 ∧
    Inv (step H dl s (.listObjects b pfx delim marker maxKeys)).1 := by
  have hpfx := hg.prefix_eq
  rcases hg.1.cases with ⟨hbo, hbd⟩ | ⟨hbo, hbd⟩
  · cases ht : s.tree b with
    | none =>
      have habs : (abs s).bucket b = none := by rw [abs_bucket, ht]; rfl
      simp [step, StoreSpec.step, hbd, hbo, ht, habs, hi]
    | some t =>
      have habs : (abs s).bucket b = some (absTree s b t) := by rw [abs_bucket, ht]; rfl
      simp [step, StoreSpec.step, hbd, hbo, ht, habs, hi, listAnswer_eq s b t pfx delim marker maxKeys hpfx]
  · simp [step, StoreSpec.step, hbd, hbo, hi]

theorem insSorted_perm {β : Type} (x : Bytes × β) (l : List (Bytes × β)) : (insSorted bytesLe x l).Perm (x :: l) := by
  induction l with
  | nil => exact List.Perm.refl _
  | cons z t ih =>
    unfold insSorted
    split
    · exact ((List.Perm.cons z ih).trans (List.Perm.swap x z t))
    · exact List.Perm.refl _

theorem foldl_insSorted_perm {β : Type} (l acc : List (Bytes × β)) :
    (l.foldl (fun acc x => insSorted bytesLe x acc) acc).Perm (l ++ acc) := by
  induction l generalizing acc with
  | nil => exact List.Perm.refl _
  | cons x t ih =>
    simp only [List.foldl_cons, List.cons_append]
    refine (ih _).trans ?_
    exact (List.Perm.append_left t (insSorted_perm x acc)).trans List.perm_middle

theorem sortByKey_perm {β : Type} (l : List (Bytes × β)) : (sortByKey l).Perm l := by
  unfold sortByKey
  simpa using foldl_insSorted_perm l []

/-- the store's listing without delimiter and below `max-keys` -/
def specAfter (objs : List (Bytes × Obj)) (pfx after : Option Bytes) : List (Bytes × Nat) :=
  let under := sortByKey ((objs.filter fun e => (pfx.getD []).isPrefixOf e.1).map fun e => (e.1, e.2.content.length))
  match after with
  | none => under
  | some m => under.filter fun e => bytesLt m e.1

theorem listing_plain (objs : List (Bytes × Obj)) (pfx after : Option Bytes) (maxKeys : Option Int)
    (hlim : objs.length ≤ listLimit maxKeys) :
    listing objs pfx none after maxKeys =
      .listed (specAfter objs pfx after) (specAfter objs pfx after).length false [] := by
  have hfun : (fun e : Bytes × Nat => entryOf (pfx.getD []) none e.1 e.2) = fun e => Entry.key e.1 e.2 := by
    funext e; rfl
  have hlen : (specAfter objs pfx after).length ≤ listLimit maxKeys := by
    refine Nat.le_trans ?_ hlim
    unfold specAfter
    cases after with
    | none =>
      simp only [sortByKey_length, List.length_map]
      exact List.length_filter_le _ _
    | some m =>
      refine Nat.le_trans (List.length_filter_le _ _) ?_
      simp only [sortByKey_length, List.length_map]
      exact List.length_filter_le _ _
  have key : ∀ (L : List (Bytes × Nat)) (lim : Nat), L.length ≤ lim →
      Resp.listed
        (((L.map fun e => Entry.key e.1 e.2).take lim).filterMap fun e => match e with
          | .key k sz => some (k, sz)
          | .cp _ => none)
        ((L.map fun e => Entry.key e.1 e.2).take lim).length
        (decide ((L.map fun e => Entry.key e.1 e.2).length > lim))
        (((L.map fun e => Entry.key e.1 e.2).take lim).filterMap fun e => match e with
          | .cp q => some q
          | .key _ _ => none) = Resp.listed L L.length false [] := by
    intro L lim hL
    have ht : (L.map fun e => Entry.key e.1 e.2).take lim = L.map fun e => Entry.key e.1 e.2 := by
      apply List.take_of_length_le; simpa using hL
    rw [ht, filterMap_keys, filterMap_cps]
    have : ¬ L.length > lim := by omega
    simp [this]
  cases maxKeys with
  | none =>
    cases after with
    | none =>
      simp only [listing, hfun]
      rw [dedupCps_keys]
      exact key _ 1000 hlen
    | some m =>
      simp only [listing, hfun]
      rw [dedupCps_keys]
      exact key _ 1000 hlen
  | some n =>
    cases after with
    | none =>
      simp only [listing, hfun]
      rw [dedupCps_keys]
      exact key _ n.toNat hlen
    | some m =>
      simp only [listing, hfun]
      rw [dedupCps_keys]
      exact key _ n.toNat hlen

theorem mem_under {objs : List (Bytes × Obj)} (hnd : keysNodup objs) (pfx : Option Bytes) (k : Bytes) (n : Nat) :
    (k, n) ∈ sortByKey ((objs.filter fun e => (pfx.getD []).isPrefixOf e.1).map fun e => (e.1, e.2.content.length)) ↔
      (∃ o, alLookup k objs = some o ∧ n = o.content.length) ∧ (pfx.getD []).isPrefixOf k = true := by
  rw [sortByKey_mem, List.mem_map]
  constructor
  · rintro ⟨e, he, heq⟩
    obtain ⟨he1, he2⟩ := List.mem_filter.mp he
    obtain ⟨k', o⟩ := e
    simp only [Prod.mk.injEq] at heq
    obtain ⟨rfl, rfl⟩ := heq
    exact ⟨⟨o, alLookup_of_mem_nodup hnd he1, rfl⟩, he2⟩
  · rintro ⟨⟨o, ho, rfl⟩, hp⟩
    exact ⟨(k, o), List.mem_filter.mpr ⟨alLookup_mem ho, hp⟩, rfl⟩

theorem under_strict {objs : List (Bytes × Obj)} (hnd : keysNodup objs) (pfx : Option Bytes) :
    (sortByKey ((objs.filter fun e => (pfx.getD []).isPrefixOf e.1).map fun e => (e.1, e.2.content.length))).Pairwise
      (fun x y => bytesLt x.1 y.1 = true) := by
  have hs := sortByKey_sorted ((objs.filter fun e => (pfx.getD []).isPrefixOf e.1).map fun e => (e.1, e.2.content.length))
  have hperm := sortByKey_perm ((objs.filter fun e => (pfx.getD []).isPrefixOf e.1).map fun e => (e.1, e.2.content.length))
  have hnd' : ((sortByKey ((objs.filter fun e => (pfx.getD []).isPrefixOf e.1).map fun e =>
      (e.1, e.2.content.length))).map (·.1)).Nodup := by
    rw [(hperm.map _).nodup_iff, List.map_map]
    have : ((fun e : Bytes × Nat => e.1) ∘ fun e : Bytes × Obj => (e.1, e.2.content.length)) = fun e => e.1 := rfl
    rw [this]
    exact (List.filter_sublist.map _).nodup hnd
  unfold SortedKeys at hs
  generalize sortByKey _ = L at hs hnd'
  induction L with
  | nil => exact List.Pairwise.nil
  | cons x t ih =>
    rw [List.pairwise_cons] at hs ⊢
    simp only [List.map_cons, List.nodup_cons] at hnd'
    refine ⟨?_, ih hs.2 hnd'.2⟩
    intro y hy
    unfold bytesLt
    simp only [Bool.and_eq_true, bne_iff_ne, ne_eq]
    refine ⟨hs.1 y hy, ?_⟩
    intro heq
    exact hnd'.1 (List.mem_map.mpr ⟨y, hy, heq.symm⟩)

/-- what the store's listing is, stated without reference to sorting code: without a delimiter and below
    `max-keys` it lists exactly the keys of the bucket that start with the prefix and come after the marker,
    each once with its size, in strictly ascending byte order -/
theorem listing_exact (objs : List (Bytes × Obj)) (pfx after : Option Bytes) (maxKeys : Option Int)
    (hnd : keysNodup objs) (hlim : objs.length ≤ listLimit maxKeys) :
    ∃ items, listing objs pfx none after maxKeys = .listed items items.length false [] ∧
      items.Pairwise (fun x y => bytesLt x.1 y.1 = true) ∧
      ∀ k n, (k, n) ∈ items ↔
        (∃ o, alLookup k objs = some o ∧ n = o.content.length) ∧ (pfx.getD []).isPrefixOf k = true ∧
          (∀ m, after = some m → bytesLt m k = true) := by
  refine ⟨specAfter objs pfx after, listing_plain objs pfx after maxKeys hlim, ?_, ?_⟩
  · unfold specAfter
    cases after with
    | none => exact under_strict hnd pfx
    | some m => exact (under_strict hnd pfx).filter _
  · intro k n
    unfold specAfter
    cases after with
    | none =>
      simp only [mem_under hnd pfx k n]
      constructor
      · rintro ⟨h1, h2⟩; exact ⟨h1, h2, fun m hm => by cases hm⟩
      · rintro ⟨h1, h2, _⟩; exact ⟨h1, h2⟩
    | some m =>
      simp only [List.mem_filter, mem_under hnd pfx k n]
      constructor
      · rintro ⟨⟨h1, h2⟩, h3⟩; exact ⟨h1, h2, fun m' hm => by cases hm; exact h3⟩
      · rintro ⟨h1, h2, h3⟩; exact ⟨⟨h1, h2⟩, h3 m rfl⟩

end S3V.FsStore
