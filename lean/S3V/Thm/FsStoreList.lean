import S3V.Thm.FsStoreCore
import S3V.Thm.FsStoreOrder
/-!
# C18: listings refine the store; what the store's listing is (exact members, strictly ascending)
-/
namespace S3V.FsStore
open S3V.StoreSpec

theorem insSorted_length {β : Type} (x : Bytes × β) (l : List (Bytes × β)) :
    (insSorted bytesLe x l).length = l.length + 1 := by
  induction l with
  | nil => rfl
  | cons z t ih =>
    unfold insSorted
    split
    · simp [ih]
    · simp

theorem foldl_insSorted_length {β : Type} (l acc : List (Bytes × β)) :
    (l.foldl (fun acc x => insSorted bytesLe x acc) acc).length = l.length + acc.length := by
  induction l generalizing acc with
  | nil => simp
  | cons x t ih => simp only [List.foldl_cons, ih, insSorted_length, List.length_cons]; omega

theorem sortByKey_length {β : Type} (l : List (Bytes × β)) : (sortByKey l).length = l.length := by
  unfold sortByKey; rw [foldl_insSorted_length]; simp

/-- the objects of a tree are its files, keyed by the joined path -/
theorem absTree_eq_files (s : State) (b : Bytes) (t : Tree) :
    absTree s b t = t.files.map fun e =>
      (joinWith [slash] e.1, (⟨e.2, absMeta s b (joinWith [slash] e.1),
        (alLookup (b, joinWith [slash] e.1) s.infos).getD {}⟩ : Obj)) := by
  unfold absTree Tree.files
  induction t with
  | nil => rfl
  | cons x t ih =>
    obtain ⟨p, n⟩ := x
    cases n with
    | dir => simp only [List.filterMap_cons, absObj]; exact ih
    | file c => simp only [List.filterMap_cons, absObj, List.map_cons]; rw [ih]

theorem dedupCps_keys (l : List (Bytes × Nat)) :
    dedupCps (l.map fun e => Entry.key e.1 e.2) = l.map fun e => Entry.key e.1 e.2 := by
  induction l with
  | nil => rfl
  | cons x t ih =>
    cases t with
    | nil => rfl
    | cons y u =>
      simp only [List.map_cons] at ih ⊢
      unfold dedupCps
      simp [Entry.isCp, ih]

theorem filterMap_keys (l : List (Bytes × Nat)) :
    ((l.map fun e => Entry.key e.1 e.2).filterMap fun e => match e with
      | .key k sz => some (k, sz)
      | .cp _ => none) = l := by
  induction l with
  | nil => rfl
  | cons x t ih => simp [ih]

theorem filterMap_cps (l : List (Bytes × Nat)) :
    ((l.map fun e => Entry.key e.1 e.2).filterMap fun e => match e with
      | .cp q => some q
      | .key _ _ => none) = [] := by
  induction l with
  | nil => rfl
  | cons x t ih => simp [ih]

def listLimit : Option Int → Nat
  | none => 1000
  | some n => n.toNat

/-- listings may be compared with the store: the name agrees; no delimiter is given [else fs:list-delimiter-not-rolled-up,
    fs:list-delimiter-rewrites-keys]; the prefix reads the same as a path [fs:list-prefix-as-path]; `max-keys`
    does not cut the listing [fs:list-ignores-max-keys] -/
def ListOk (s : State) (b : Bytes) (pfx delim : Option Bytes) (maxKeys : Option Int) : Prop :=
  NameOk b ∧ delim = none ∧
  (match pfx with
    | none => True
    | some p => prefixPath p [slash] = p) ∧
  (match s.tree b with
    | none => True
    | some t => t.files.length ≤ listLimit maxKeys)

/-- the listing both sides compute, before the marker is applied -/
def listBase (t : Tree) (pfx : Option Bytes) : List (Bytes × Nat) :=
  sortByKey ((t.files.filter fun e => (pfx.getD []).isPrefixOf (joinWith [slash] e.1)).map fun e =>
    (joinWith [slash] e.1, e.2.length))

theorem listBase_length_le (t : Tree) (pfx : Option Bytes) : (listBase t pfx).length ≤ t.files.length := by
  unfold listBase
  rw [sortByKey_length, List.length_map]
  exact List.length_filter_le _ _

/-- the listing after the marker -/
def listAfter (t : Tree) (pfx after : Option Bytes) : List (Bytes × Nat) :=
  match after with
  | none => listBase t pfx
  | some m => (listBase t pfx).filter fun e => bytesLt m e.1

theorem listAfter_length_le (t : Tree) (pfx after : Option Bytes) : (listAfter t pfx after).length ≤ t.files.length := by
  unfold listAfter
  cases after with
  | none => exact listBase_length_le t pfx
  | some m => exact Nat.le_trans (List.length_filter_le _ _) (listBase_length_le t pfx)

theorem listKeys_eq (t : Tree) (pfx after : Option Bytes)
    (hp : match pfx with
      | none => True
      | some p => prefixPath p [slash] = p) :
    listKeys t pfx none after = listAfter t pfx after := by
  have hbase : sortByKey ((t.files.filter fun e => (pfx.getD []).isPrefixOf (joinWith [slash] e.1)).map fun e =>
          (joinWith [slash] e.1, e.2.length)) = listBase t pfx := rfl
  cases pfx with
  | none =>
    cases after with
    | none =>
      simp only [listKeys, listAfter, Option.getD_none]
      rw [← hbase]; simp
    | some m =>
      simp only [listKeys, listAfter, Option.getD_none]
      rw [dropWhile_le_eq_filter_lt m _ (sortByKey_sorted _), ← hbase]; simp
  | some p =>
    simp only at hp
    cases after with
    | none =>
      simp only [listKeys, listAfter, Option.getD_none, hp]
      rw [← hbase]; simp
    | some m =>
      simp only [listKeys, listAfter, Option.getD_none, hp]
      rw [dropWhile_le_eq_filter_lt m _ (sortByKey_sorted _), ← hbase]; simp

theorem listing_eq (s : State) (b : Bytes) (t : Tree) (pfx after : Option Bytes) (maxKeys : Option Int)
    (hlim : t.files.length ≤ listLimit maxKeys) :
    listing (absTree s b t) pfx none after maxKeys =
      .listed (listAfter t pfx after) (listAfter t pfx after).length false [] := by
  have hunder : sortByKey (((absTree s b t).filter fun e => (pfx.getD []).isPrefixOf e.1).map fun e =>
      (e.1, e.2.content.length)) = listBase t pfx := by
    unfold listBase
    rw [absTree_eq_files, List.filter_map, List.map_map]
    rfl
  have hlen := listAfter_length_le t pfx after
  have hfun : (fun e : Bytes × Nat => entryOf (pfx.getD []) none e.1 e.2) = fun e => Entry.key e.1 e.2 := by
    funext e; rfl
  have hlim' : (listAfter t pfx after).length ≤ listLimit maxKeys := Nat.le_trans hlen hlim
  have key : ∀ (L : List (Bytes × Nat)) (lim : Nat), L.length ≤ lim →
      Resp.listed
        (((L.map fun e => Entry.key e.1 e.2).take lim).filterMap fun e => match e with
          | .key k sz => some (k, sz)
          | .cp _ => none)
        ((L.map fun e => Entry.key e.1 e.2).take lim).length
        (decide ((L.map fun e => Entry.key e.1 e.2).length > lim))
        (((L.map fun e => Entry.key e.1 e.2).take lim).filterMap fun e => match e with
          | .cp q => some q
          | .key _ _ => none) = Resp.listed L L.length false [] := by
    intro L lim hL
    have ht : (L.map fun e => Entry.key e.1 e.2).take lim = L.map fun e => Entry.key e.1 e.2 := by
      apply List.take_of_length_le; simpa using hL
    rw [ht, filterMap_keys, filterMap_cps]
    have : ¬ L.length > lim := by omega
    simp [this]
  cases maxKeys with
  | none =>
    cases after with
    | none =>
      simp only [listing, hunder, hfun]
      rw [dedupCps_keys]
      exact key (listBase t pfx) 1000 hlim'
    | some m =>
      simp only [listing, hunder, hfun]
      rw [dedupCps_keys]
      exact key _ 1000 hlim'
  | some n =>
    cases after with
    | none =>
      simp only [listing, hunder, hfun]
      rw [dedupCps_keys]
      exact key (listBase t pfx) n.toNat hlim'
    | some m =>
      simp only [listing, hunder, hfun]
      rw [dedupCps_keys]
      exact key _ n.toNat hlim'

end S3V.FsStore

namespace S3V.FsStore
open S3V.StoreSpec

theorem listV2_refines (H : Hashes) (dl : Nat) {s : State} (hi : Inv s) {b : Bytes}
    {pfx delim after : Option Bytes} {maxKeys : Option Int} (hg : ListOk s b pfx delim maxKeys) :
    (step H dl s (.listObjectsV2 b pfx delim after maxKeys)).2 =
      (StoreSpec.step H (abs s) (.listObjectsV2 b pfx delim after maxKeys)).2 ∧
    abs (step H dl s (.listObjectsV2 b pfx delim after maxKeys)).1 =
      (StoreSpec.step H (abs s) (.listObjectsV2 b pfx delim after maxKeys)).1 ∧
    Inv (step H dl s (.listObjectsV2 b pfx delim after maxKeys)).1 := by
  obtain ⟨hname, hdelim, hpfx, hlim⟩ := hg
  subst hdelim
  rcases hname.cases with ⟨hbo, hbd⟩ | ⟨hbo, hbd⟩
  · cases ht : s.tree b with
    | none =>
      have habs : (abs s).bucket b = none := by rw [abs_bucket, ht]; rfl
      simp [step, StoreSpec.step, hbd, hbo, ht, habs, hi]
    | some t =>
      rw [ht] at hlim
      simp only at hlim
      have habs : (abs s).bucket b = some (absTree s b t) := by rw [abs_bucket, ht]; rfl
      simp [step, StoreSpec.step, hbd, hbo, ht, habs, hi, listKeys_eq t pfx after hpfx, listing_eq s b t pfx after maxKeys hlim]
  · simp [step, StoreSpec.step, hbd, hbo, hi]

theorem listV1_refines (H : Hashes) (dl : Nat) {s : State} (hi : Inv s) {b : Bytes}
    {pfx delim marker : Option Bytes} {maxKeys : Option Int} (hg : ListOk s b pfx delim maxKeys) :
    (step H dl s (.listObjects b pfx delim marker maxKeys)).2 =
      (StoreSpec.step H (abs s) (.listObjects b pfx delim marker maxKeys)).2 ∧
    abs (step H dl s (.listObjects b pfx delim marker maxKeys)).1 =
      (StoreSpec.step H (abs s) (.listObjects b pfx delim marker maxKeys)).1 ∧
    Inv (step H dl s (.listObjects b pfx delim marker maxKeys)).1 := by
  obtain ⟨hname, hdelim, hpfx, hlim⟩ := hg
  subst hdelim
  rcases hname.cases with ⟨hbo, hbd⟩ | ⟨hbo, hbd⟩
  · cases ht : s.tree b with
    | none =>
      have habs : (abs s).bucket b = none := by rw [abs_bucket, ht]; rfl
      simp [step, StoreSpec.step, hbd, hbo, ht, habs, hi]
    | some t =>
      rw [ht] at hlim
      simp only at hlim
      have habs : (abs s).bucket b = some (absTree s b t) := by rw [abs_bucket, ht]; rfl
      simp [step, StoreSpec.step, hbd, hbo, ht, habs, hi, listKeys_eq t pfx marker hpfx, listing_eq s b t pfx marker maxKeys hlim]
  · simp [step, StoreSpec.step, hbd, hbo, hi]

theorem insSorted_perm {β : Type} (x : Bytes × β) (l : List (Bytes × β)) : (insSorted bytesLe x l).Perm (x :: l) := by
  induction l with
  | nil => exact List.Perm.refl _
  | cons z t ih =>
    unfold insSorted
    split
    · exact ((List.Perm.cons z ih).trans (List.Perm.swap x z t))
    · exact List.Perm.refl _

theorem foldl_insSorted_perm {β : Type} (l acc : List (Bytes × β)) :
    (l.foldl (fun acc x => insSorted bytesLe x acc) acc).Perm (l ++ acc) := by
  induction l generalizing acc with
  | nil => exact List.Perm.refl _
  | cons x t ih =>
    simp only [List.foldl_cons, List.cons_append]
    refine (ih _).trans ?_
    exact (List.Perm.append_left t (insSorted_perm x acc)).trans List.perm_middle

theorem sortByKey_perm {β : Type} (l : List (Bytes × β)) : (sortByKey l).Perm l := by
  unfold sortByKey
  simpa using foldl_insSorted_perm l []

/-- the store's listing without delimiter and below `max-keys` -/
def specAfter (objs : List (Bytes × Obj)) (pfx after : Option Bytes) : List (Bytes × Nat) :=
  let under := sortByKey ((objs.filter fun e => (pfx.getD []).isPrefixOf e.1).map fun e => (e.1, e.2.content.length))
  match after with
  | none => under
  | some m => under.filter fun e => bytesLt m e.1

theorem listing_plain (objs : List (Bytes × Obj)) (pfx after : Option Bytes) (maxKeys : Option Int)
    (hlim : objs.length ≤ listLimit maxKeys) :
    listing objs pfx none after maxKeys =
      .listed (specAfter objs pfx after) (specAfter objs pfx after).length false [] := by
  have hfun : (fun e : Bytes × Nat => entryOf (pfx.getD []) none e.1 e.2) = fun e => Entry.key e.1 e.2 := by
    funext e; rfl
  have hlen : (specAfter objs pfx after).length ≤ listLimit maxKeys := by
    refine Nat.le_trans ?_ hlim
    unfold specAfter
    cases after with
    | none =>
      simp only [sortByKey_length, List.length_map]
      exact List.length_filter_le _ _
    | some m =>
      refine Nat.le_trans (List.length_filter_le _ _) ?_
      simp only [sortByKey_length, List.length_map]
      exact List.length_filter_le _ _
  have key : ∀ (L : List (Bytes × Nat)) (lim : Nat), L.length ≤ lim →
      Resp.listed
        (((L.map fun e => Entry.key e.1 e.2).take lim).filterMap fun e => match e with
          | .key k sz => some (k, sz)
          | .cp _ => none)
        ((L.map fun e => Entry.key e.1 e.2).take lim).length
        (decide ((L.map fun e => Entry.key e.1 e.2).length > lim))
        (((L.map fun e => Entry.key e.1 e.2).take lim).filterMap fun e => match e with
          | .cp q => some q
          | .key _ _ => none) = Resp.listed L L.length false [] := by
    intro L lim hL
    have ht : (L.map fun e => Entry.key e.1 e.2).take lim = L.map fun e => Entry.key e.1 e.2 := by
      apply List.take_of_length_le; simpa using hL
    rw [ht, filterMap_keys, filterMap_cps]
    have : ¬ L.length > lim := by omega
    simp [this]
  cases maxKeys with
  | none =>
    cases after with
    | none =>
      simp only [listing, hfun]
      rw [dedupCps_keys]
      exact key _ 1000 hlen
    | some m =>
      simp only [listing, hfun]
      rw [dedupCps_keys]
      exact key _ 1000 hlen
  | some n =>
    cases after with
    | none =>
      simp only [listing, hfun]
      rw [dedupCps_keys]
      exact key _ n.toNat hlen
    | some m =>
      simp only [listing, hfun]
      rw [dedupCps_keys]
      exact key _ n.toNat hlen

theorem mem_under {objs : List (Bytes × Obj)} (hnd : keysNodup objs) (pfx : Option Bytes) (k : Bytes) (n : Nat) :
    (k, n) ∈ sortByKey ((objs.filter fun e => (pfx.getD []).isPrefixOf e.1).map fun e => (e.1, e.2.content.length)) ↔
      (∃ o, alLookup k objs = some o ∧ n = o.content.length) ∧ (pfx.getD []).isPrefixOf k = true := by
  rw [sortByKey_mem, List.mem_map]
  constructor
  · rintro ⟨e, he, heq⟩
    obtain ⟨he1, he2⟩ := List.mem_filter.mp he
    obtain ⟨k', o⟩ := e
    simp only [Prod.mk.injEq] at heq
    obtain ⟨rfl, rfl⟩ := heq
    exact ⟨⟨o, alLookup_of_mem_nodup hnd he1, rfl⟩, he2⟩
  · rintro ⟨⟨o, ho, rfl⟩, hp⟩
    exact ⟨(k, o), List.mem_filter.mpr ⟨alLookup_mem ho, hp⟩, rfl⟩

theorem under_strict {objs : List (Bytes × Obj)} (hnd : keysNodup objs) (pfx : Option Bytes) :
    (sortByKey ((objs.filter fun e => (pfx.getD []).isPrefixOf e.1).map fun e => (e.1, e.2.content.length))).Pairwise
      (fun x y => bytesLt x.1 y.1 = true) := by
  have hs := sortByKey_sorted ((objs.filter fun e => (pfx.getD []).isPrefixOf e.1).map fun e => (e.1, e.2.content.length))
  have hperm := sortByKey_perm ((objs.filter fun e => (pfx.getD []).isPrefixOf e.1).map fun e => (e.1, e.2.content.length))
  have hnd' : ((sortByKey ((objs.filter fun e => (pfx.getD []).isPrefixOf e.1).map fun e =>
      (e.1, e.2.content.length))).map (·.1)).Nodup := by
    rw [(hperm.map _).nodup_iff, List.map_map]
    have : ((fun e : Bytes × Nat => e.1) ∘ fun e : Bytes × Obj => (e.1, e.2.content.length)) = fun e => e.1 := rfl
    rw [this]
    exact (List.filter_sublist.map _).nodup hnd
  unfold SortedKeys at hs
  generalize sortByKey _ = L at hs hnd'
  induction L with
  | nil => exact List.Pairwise.nil
  | cons x t ih =>
    rw [List.pairwise_cons] at hs ⊢
    simp only [List.map_cons, List.nodup_cons] at hnd'
    refine ⟨?_, ih hs.2 hnd'.2⟩
    intro y hy
    unfold bytesLt
    simp only [Bool.and_eq_true, bne_iff_ne, ne_eq]
    refine ⟨hs.1 y hy, ?_⟩
    intro heq
    exact hnd'.1 (List.mem_map.mpr ⟨y, hy, heq.symm⟩)

/-- what the store's listing is, stated without reference to sorting code: without a delimiter and below
    `max-keys` it lists exactly the keys of the bucket that start with the prefix and come after the marker,
    each once with its size, in strictly ascending byte order -/
theorem listing_exact (objs : List (Bytes × Obj)) (pfx after : Option Bytes) (maxKeys : Option Int)
    (hnd : keysNodup objs) (hlim : objs.length ≤ listLimit maxKeys) :
    ∃ items, listing objs pfx none after maxKeys = .listed items items.length false [] ∧
      items.Pairwise (fun x y => bytesLt x.1 y.1 = true) ∧
      ∀ k n, (k, n) ∈ items ↔
        (∃ o, alLookup k objs = some o ∧ n = o.content.length) ∧ (pfx.getD []).isPrefixOf k = true ∧
          (∀ m, after = some m → bytesLt m k = true) := by
  refine ⟨specAfter objs pfx after, listing_plain objs pfx after maxKeys hlim, ?_, ?_⟩
  · unfold specAfter
    cases after with
    | none => exact under_strict hnd pfx
    | some m => exact (under_strict hnd pfx).filter _
  · intro k n
    unfold specAfter
    cases after with
    | none =>
      simp only [mem_under hnd pfx k n]
      constructor
      · rintro ⟨h1, h2⟩; exact ⟨h1, h2, fun m hm => by cases hm⟩
      · rintro ⟨h1, h2, _⟩; exact ⟨h1, h2⟩
    | some m =>
      simp only [List.mem_filter, mem_under hnd pfx k n]
      constructor
      · rintro ⟨⟨h1, h2⟩, h3⟩; exact ⟨h1, h2, fun m' hm => by cases hm; exact h3⟩
      · rintro ⟨h1, h2, h3⟩; exact ⟨⟨h1, h2⟩, h3 m rfl⟩

end S3V.FsStore
