import S3V.Thm.FsStorePut
/-!
# C18: `get_object` (whole and ranged reads) refines the store
-/
namespace S3V.FsStore
open S3V.StoreSpec

/-! ## ranges -/

/-- `Range::check` is the RFC 9110 interval (`rfcInterval`), for every range and every length -/
theorem rangeCheck_eq (r : Range) (len : Nat) : rangeCheck r len = DtoSpec.rfcInterval (toByteRange r) len := by
  cases r with
  | int first last =>
    cases last with
    | none =>
      by_cases hf : first ≥ len
      · have : ¬ first < len := by omega
        simp [rangeCheck, hf, DtoSpec.rfcInterval, toByteRange, this]
      · have hlt : first < len := by omega
        simp [rangeCheck, hf, DtoSpec.rfcInterval, toByteRange, hlt]
    | some l =>
      by_cases hf : first ≥ len
      · have : ¬ first < len := by omega
        simp only [rangeCheck, hf, if_true, DtoSpec.rfcInterval, toByteRange, this, if_false]
        split <;> rfl
      · have hlt : first < len := by omega
        by_cases hl : l < first
        · have : first > min l (len - 1) := by
            have := Nat.min_le_left l (len - 1); omega
          simp [rangeCheck, hf, this, DtoSpec.rfcInterval, toByteRange, hl]
        · have hmin : ¬ first > min l (len - 1) := by
            rw [Nat.not_lt]
            apply Nat.le_min.mpr; omega
          simp only [rangeCheck, hf, if_false, hmin, DtoSpec.rfcInterval, toByteRange, hl, hlt, if_true]
          by_cases hge : l ≥ len
          · have : min l (len - 1) = len - 1 := Nat.min_eq_right (by omega)
            simp only [hge, if_true, this]
            congr 2; omega
          · have : min l (len - 1) = l := Nat.min_eq_left (by omega)
            simp only [hge, if_false, this]
  | suffix n =>
    by_cases h0 : n = 0
    · subst h0
      simp [rangeCheck, DtoSpec.rfcInterval, toByteRange]
    · simp only [rangeCheck, h0, if_false, DtoSpec.rfcInterval, toByteRange]
      by_cases hn : n > len
      · have : min n len = len := Nat.min_eq_right (by omega)
        simp [hn, this]
      · have : min n len = n := Nat.min_eq_left (by omega)
        simp [hn, this]

/-- what the backend may be asked to read at a node: a file, or nothing (a directory left behind is excluded) -/
def ReadableNode : Option Node → Prop
  | some .dir => False
  | _ => True

instance (n : Option Node) : Decidable (ReadableNode n) := by
  unfold ReadableNode
  split <;> infer_instance

/-- `get_object` may be compared with the store, for every range: names agree; for admissible names, when the bucket
    exists the path is not a leftover directory [else fs:leftover-directory]. A missing bucket is inside since cc244fc
    (`NoSuchBucket` on both sides; before: fs:missing-bucket-reported-as-missing-key) -/
def GetOk (s : State) (b k : Bytes) : Prop :=
  NameOk b ∧ CanonKey k ∧ sideTooLong b k false = false ∧
  (bucketOk b = true →
    match keyPath k with
    | none => True
    | some p =>
      match s.tree b with
      | none => True
      | some t => ReadableNode (t.node p))

theorem loadMeta_eq {s : State} (hi : Inv s) {b k : Bytes} (hshort : sideTooLong b k false = false) :
    s.loadMeta b k = some (absMeta s b k) := by
  unfold State.loadMeta absMeta
  simp only [hshort, Bool.false_eq_true, if_false]
  cases h : alLookup (b, k) s.metas with
  | none => rfl
  | some mf =>
    cases mf with
    | good m => rfl
    | corrupt => exact absurd rfl (hi.metaOk _ (alLookup_mem h))

theorem get_refines (H : Hashes) (dl : Nat) {s : State} (hi : Inv s) {b k : Bytes} {range : Option Range}
    (hg : GetOk s b k) :
    (step H dl s (.getObject b k range)).2 = (StoreSpec.step H (abs s) (.getObject b k range)).2 ∧
    abs (step H dl s (.getObject b k range)).1 = (StoreSpec.step H (abs s) (.getObject b k range)).1 ∧
    Inv (step H dl s (.getObject b k range)).1 := by
  obtain ⟨hname, ⟨hslash, hcanon⟩, hshort, hbucket⟩ := hg
  rcases hname.cases with ⟨hbo, hbd⟩ | ⟨hbo, hbd⟩
  · have hbucket := hbucket hbo
    cases hkp : keyPath k with
    | none =>
      have hko : keyOk k = false := by rw [keyOk_iff_keyPath, hkp]; rfl
      simp [step, StoreSpec.step, objPath, hbd, hkp, hbo, hko, hi]
    | some p =>
      have hko : keyOk k = true := by rw [keyOk_iff_keyPath, hkp]; rfl
      rw [hkp] at hcanon hbucket
      simp only at hcanon hbucket
      cases ht : s.tree b with
      | none =>
        have habs : (abs s).bucket b = none := by rw [abs_bucket, ht]; rfl
        have hh : alHas b s.buckets = false := by
          unfold State.tree at ht; simp [alHas, ht]
        simp [step, StoreSpec.step, objPath, hbd, hkp, hbo, hko, habs, State.node, ht, hh, hi]
      | some t =>
        rw [ht] at hbucket
        simp only at hbucket
        have hp : PathOk p := keyPath_pathOk hkp
        have habs : (abs s).bucket b = some (absTree s b t) := by rw [abs_bucket, ht]; rfl
        have hlook := abs_lookup_obj hi ht hp
        rw [hcanon] at hlook
        have hnode : s.node b p = t.node p := by simp [State.node, ht]
        cases hn : t.node p with
        | none =>
          have hh : alHas b s.buckets = true := by
            unfold State.tree at ht; simp [alHas, ht]
          rw [hn] at hlook
          simp [step, StoreSpec.step, objPath, hbd, hkp, hbo, hko, habs, hnode, hn, hlook, hh, hi]
        | some n =>
          cases n with
          | dir => rw [hn] at hbucket; exact absurd hbucket (by simp [ReadableNode])
          | file c =>
            rw [hn] at hlook hbucket
            simp only [Option.bind_some, nodeObj] at hlook
            have hload := loadMeta_eq hi hshort (b := b) (k := k)
            cases range with
            | none =>
              simp [step, StoreSpec.step, objPath, hbd, hkp, hbo, hko, habs, hnode, hn, hlook, hi, hload, hshort,
                readObj]
            | some r =>
              cases hrc : DtoSpec.rfcInterval (toByteRange r) c.length with
              | none =>
                simp [step, StoreSpec.step, objPath, hbd, hkp, hbo, hko, habs, hnode, hn, hlook, hi, readObj,
                  rangeCheck_eq, hrc]
              | some se =>
                obtain ⟨st, en⟩ := se
                simp [step, StoreSpec.step, objPath, hbd, hkp, hbo, hko, habs, hnode, hn, hlook, hi, readObj,
                  rangeCheck_eq, hrc, hload, hshort, slice]
  · simp [step, StoreSpec.step, objPath, hbd, hbo, hi]

end S3V.FsStore
