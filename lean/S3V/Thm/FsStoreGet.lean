import S3V.Thm.FsStorePut
/-!
# C18: `get_object` (whole and ranged reads) refines the store
-/
namespace S3V.FsStore
open S3V.StoreSpec

/-! ## ranges -/

/-- `Range::check` against RFC 9110 (`rfcInterval`), for ranges the backend can then seek to -/
theorem rangeCheck_spec (r : Range) (len : Nat) (h : ∀ n, r = .suffix n → n ≤ len) :
    (rangeCheck r len = none ∧
      (DtoSpec.rfcInterval (toByteRange r) len = none ∨
        ∃ st en, DtoSpec.rfcInterval (toByteRange r) len = some (st, en) ∧ st ≥ en)) ∨
    (∃ st en, rangeCheck r len = some (st, en) ∧ DtoSpec.rfcInterval (toByteRange r) len = some (st, en) ∧
      st < en ∧ (∀ f l, r = .int f l → st = f) ∧ (∀ n, r = .suffix n → st = len - n)) := by
  cases r with
  | int first last =>
    cases last with
    | none =>
      by_cases hf : first ≥ len
      · left
        have : ¬ first < len := by omega
        simp [rangeCheck, hf, DtoSpec.rfcInterval, toByteRange, this]
      · right
        have hlt : first < len := by omega
        refine ⟨first, len, ?_, ?_, hlt, ?_, ?_⟩
        · simp [rangeCheck, hf]
        · simp [DtoSpec.rfcInterval, toByteRange, hlt]
        · intro f l e; cases e; rfl
        · intro n e; cases e
    | some l =>
      by_cases hf : first ≥ len
      · left
        have : ¬ first < len := by omega
        refine ⟨by simp [rangeCheck, hf], ?_⟩
        left
        simp only [DtoSpec.rfcInterval, toByteRange, this, if_false]
        split <;> rfl
      · have hlt : first < len := by omega
        by_cases hl : l < first
        · left
          refine ⟨?_, ?_⟩
          · have : first > min l (len - 1) := by
              have := Nat.min_le_left l (len - 1); omega
            simp [rangeCheck, hf, this]
          · left; simp [DtoSpec.rfcInterval, toByteRange, hl]
        · right
          have hmin : ¬ first > min l (len - 1) := by
            rw [Nat.not_lt]
            apply Nat.le_min.mpr; omega
          refine ⟨first, min l (len - 1) + 1, ?_, ?_, ?_, ?_, ?_⟩
          · simp only [rangeCheck, hf, if_false, hmin]
          · simp only [DtoSpec.rfcInterval, toByteRange, hl, if_false, hlt, if_true]
            by_cases hge : l ≥ len
            · have : min l (len - 1) = len - 1 := Nat.min_eq_right (by omega)
              simp only [hge, if_true, this]
              congr 2; omega
            · have : min l (len - 1) = l := Nat.min_eq_left (by omega)
              simp only [hge, if_false, this]
          · have : first ≤ min l (len - 1) := by omega
            omega
          · intro f l' e; cases e; rfl
          · intro n e; cases e
  | suffix n =>
    have hn := h n rfl
    by_cases h0 : n = 0
    · left
      subst h0
      simp [rangeCheck, DtoSpec.rfcInterval, toByteRange]
    · right
      have hmin : min n len = n := Nat.min_eq_left hn
      refine ⟨len - n, len, ?_, ?_, by omega, ?_, ?_⟩
      · simp [rangeCheck, h0, hmin]
      · have : ¬ n > len := by omega
        simp [DtoSpec.rfcInterval, toByteRange, h0, this]
      · intro f l e; cases e
      · intro n' e; cases e; rfl

/-- what the backend may be asked to read at a node: a file (with a suffix range no longer than it), or nothing -/
def ReadableNode (range : Option Range) : Option Node → Prop
  | none => True
  | some .dir => False
  | some (.file c) =>
    match range with
    | some (.suffix n) => n ≤ c.length ∧ n ≤ i64Max
    | _ => True

instance (range : Option Range) (n : Option Node) : Decidable (ReadableNode range n) := by
  unfold ReadableNode
  split
  · infer_instance
  · infer_instance
  · split <;> infer_instance

/-- `get_object` may be compared with the store: names agree; for admissible names the bucket exists
    [else fs:missing-bucket-reported-as-missing-key], the path is not a leftover directory [fs:leftover-directory],
    a suffix range is not longer than the object [fs:suffix-range-longer-than-object, fs:suffix-range-huge-panics] -/
def GetOk (s : State) (b k : Bytes) (range : Option Range) : Prop :=
  NameOk b ∧ CanonKey k ∧ sideTooLong b k false = false ∧
  (bucketOk b = true →
    match keyPath k with
    | none => True
    | some p =>
      match s.tree b with
      | none => False
      | some t => ReadableNode range (t.node p))

theorem loadMeta_eq {s : State} (hi : Inv s) {b k : Bytes} (hshort : sideTooLong b k false = false) :
    s.loadMeta b k = some (absMeta s b k) := by
  unfold State.loadMeta absMeta
  simp only [hshort, Bool.false_eq_true, if_false]
  cases h : alLookup (b, k) s.metas with
  | none => rfl
  | some mf =>
    cases mf with
    | good m => rfl
    | corrupt => exact absurd rfl (hi.metaOk _ (alLookup_mem h))

theorem get_refines (H : Hashes) (dl : Nat) {s : State} (hi : Inv s) {b k : Bytes} {range : Option Range}
    (hg : GetOk s b k range) :
    (step H dl s (.getObject b k range)).2 = (StoreSpec.step H (abs s) (.getObject b k range)).2 ∧
    abs (step H dl s (.getObject b k range)).1 = (StoreSpec.step H (abs s) (.getObject b k range)).1 ∧
    Inv (step H dl s (.getObject b k range)).1 := by
  obtain ⟨hname, ⟨hslash, hcanon⟩, hshort, hbucket⟩ := hg
  rcases hname.cases with ⟨hbo, hbd⟩ | ⟨hbo, hbd⟩
  · have hbucket := hbucket hbo
    cases hkp : keyPath k with
    | none =>
      have hko : keyOk k = false := by rw [keyOk_iff_keyPath, hkp]; rfl
      simp [step, StoreSpec.step, objPath, hbd, hkp, hbo, hko, hi]
    | some p =>
      have hko : keyOk k = true := by rw [keyOk_iff_keyPath, hkp]; rfl
      rw [hkp] at hcanon hbucket
      simp only at hcanon hbucket
      cases ht : s.tree b with
      | none => rw [ht] at hbucket; exact absurd hbucket (by simp)
      | some t =>
        rw [ht] at hbucket
        simp only at hbucket
        have hp : PathOk p := keyPath_pathOk hkp
        have habs : (abs s).bucket b = some (absTree s b t) := by rw [abs_bucket, ht]; rfl
        have hlook := abs_lookup_obj hi ht hp
        rw [hcanon] at hlook
        have hnode : s.node b p = t.node p := by simp [State.node, ht]
        cases hn : t.node p with
        | none =>
          rw [hn] at hlook
          simp [step, StoreSpec.step, objPath, hbd, hkp, hbo, hko, habs, hnode, hn, hlook, hi]
        | some n =>
          cases n with
          | dir => rw [hn] at hbucket; exact absurd hbucket (by simp [ReadableNode])
          | file c =>
            rw [hn] at hlook hbucket
            simp only [Option.bind_some, nodeObj] at hlook
            have hload := loadMeta_eq hi hshort (b := b) (k := k)
            cases range with
            | none =>
              simp [step, StoreSpec.step, objPath, hbd, hkp, hbo, hko, habs, hnode, hn, hlook, hi, hload, hshort,
                readObj]
            | some r =>
              have hsuf : ∀ n, r = .suffix n → n ≤ c.length := by
                intro n e; subst e
                simp only [ReadableNode] at hbucket
                exact hbucket.1
              rcases rangeCheck_spec r c.length hsuf with ⟨h1, h2⟩ | ⟨st, en, h1, h2, h3, h4, h5⟩
              · rcases h2 with h2 | ⟨st, en, h2, h3⟩
                · simp [step, StoreSpec.step, objPath, hbd, hkp, hbo, hko, habs, hnode, hn, hlook, hi, readObj,
                    h1, h2]
                · simp [step, StoreSpec.step, objPath, hbd, hkp, hbo, hko, habs, hnode, hn, hlook, hi, readObj,
                    h1, h2, h3]
              · have hge : ¬ st ≥ en := by omega
                cases r with
                | int f l =>
                  have := h4 f l rfl
                  subst this
                  simp [step, StoreSpec.step, objPath, hbd, hkp, hbo, hko, habs, hnode, hn, hlook, hi, readObj,
                    h1, h2, hge, hload, hshort, slice]
                | suffix n =>
                  have hst := h5 n rfl
                  subst hst
                  simp only [ReadableNode] at hbucket
                  have hn1 : ¬ n > i64Max := by omega
                  have hn2 : ¬ n > c.length := by omega
                  simp [step, StoreSpec.step, objPath, hbd, hkp, hbo, hko, habs, hnode, hn, hlook, hi, readObj,
                    h1, h2, hge, hload, hshort, slice, hn1, hn2]
  · simp [step, StoreSpec.step, objPath, hbd, hbo, hi]

end S3V.FsStore
