import S3V.Model.Path
import S3V.Spec.Path
/-!
# Lemmas for C12: the address parser model against the dotted-quad specifications
-/
namespace S3V.Net
open S3V S3V.PathSpec

theorem takeWhile_append_stop {p : UInt8 → Bool} {a : Bytes} {x : UInt8} {t : Bytes}
    (ha : ∀ c ∈ a, p c = true) (hx : p x = false) : (a ++ x :: t).takeWhile p = a := by
  induction a with
  | nil => simp [hx]
  | cons y ys ih =>
    have hy : p y = true := ha y (by simp)
    simp [hy, ih (fun c hc => ha c (by simp [hc]))]

theorem dropWhile_append_stop {p : UInt8 → Bool} {a : Bytes} {x : UInt8} {t : Bytes}
    (ha : ∀ c ∈ a, p c = true) (hx : p x = false) : (a ++ x :: t).dropWhile p = x :: t := by
  induction a with
  | nil => simp [hx]
  | cons y ys ih =>
    have hy : p y = true := ha y (by simp)
    simp [hy, ih (fun c hc => ha c (by simp [hc]))]

theorem takeWhile_all {p : UInt8 → Bool} {a : Bytes} (ha : ∀ c ∈ a, p c = true) :
    a.takeWhile p = a := by
  induction a with
  | nil => rfl
  | cons y ys ih =>
    have hy : p y = true := ha y (by simp)
    simp [hy, ih (fun c hc => ha c (by simp [hc]))]

theorem dropWhile_all {p : UInt8 → Bool} {a : Bytes} (ha : ∀ c ∈ a, p c = true) :
    a.dropWhile p = [] := by
  induction a with
  | nil => rfl
  | cons y ys ih =>
    have hy : p y = true := ha y (by simp)
    simp [hy, ih (fun c hc => ha c (by simp [hc]))]

theorem mem_takeWhile_sat {p : UInt8 → Bool} {a : Bytes} {c : UInt8} (h : c ∈ a.takeWhile p) :
    p c = true := by
  induction a with
  | nil => simp at h
  | cons y ys ih =>
    by_cases hy : p y = true
    · simp only [List.takeWhile_cons, hy, if_true, List.mem_cons] at h
      rcases h with rfl | h
      · exact hy
      · exact ih h
    · simp [hy] at h

theorem isDig_eq_isDigit : isDig = isDigit := rfl
theorem digitsValue_eq_decVal : digitsValue = decVal := rfl

theorem readChar_eq_some {c : UInt8} {s r : Bytes} : readChar c s = some r ↔ s = c :: r := by
  cases s with
  | nil => simp [readChar]
  | cons x xs =>
    simp only [readChar]
    by_cases h : x = c
    · simp [h]
    · simp [h]

theorem readChar_none_of_not_mem {c : UInt8} {s : Bytes} (h : c ∉ s) : readChar c s = none := by
  cases s with
  | nil => rfl
  | cons x xs =>
    have : x ≠ c := fun e => h (by simp [e])
    simp [readChar, this]

/-- what a successful `readOctet` consumed -/
theorem readOctet_some {s r : Bytes} (h : readOctet s = some r) :
    ∃ ds, s = ds ++ r ∧ ds ≠ [] ∧ ∀ c ∈ ds, isDigit c = true := by
  unfold readOctet at h
  simp only at h
  split at h
  · cases h
  · split at h
    · cases h
    · split at h
      · cases h
      · split at h
        · cases h
        · rename_i h0 _ _ _
          injection h with h
          refine ⟨s.takeWhile isDigit, ?_, ?_, ?_⟩
          · rw [← h]; exact (List.takeWhile_append_dropWhile).symm
          · intro e; rw [e] at h0; simp at h0
          · intro c hc; exact mem_takeWhile_sat hc

/-- a canonical octet followed by the end or by a non-digit is read exactly -/
theorem readOctet_canon {a t : Bytes} (ha : canonOctetB a = true)
    (ht : t = [] ∨ ∃ x t', t = x :: t' ∧ isDigit x = false) : readOctet (a ++ t) = some t := by
  simp only [canonOctetB, digitRunB, Bool.and_eq_true, Bool.not_eq_true', decide_eq_true_eq,
    List.all_eq_true] at ha
  obtain ⟨⟨⟨⟨hne, hall⟩, hlen⟩, hval⟩, hz⟩ := ha
  have hall' : ∀ c ∈ a, isDigit c = true := hall
  have htw : (a ++ t).takeWhile isDigit = a := by
    rcases ht with rfl | ⟨x, t', rfl, hx⟩
    · simpa using takeWhile_all hall'
    · exact takeWhile_append_stop hall' hx
  have hdw : (a ++ t).dropWhile isDigit = t := by
    rcases ht with rfl | ⟨x, t', rfl, hx⟩
    · simpa using dropWhile_all hall'
    · exact dropWhile_append_stop hall' hx
  have hne' : a.length ≠ 0 := by
    cases a with
    | nil => simp at hne
    | cons _ _ => simp
  unfold readOctet
  simp only [htw, hdw]
  rw [if_neg hne', if_neg (by omega)]
  have hz' : ¬ (a.head? = some zero ∧ a.length > 1) := by
    intro ⟨h1, h2⟩
    simp [h1, h2, zero] at hz
  rw [if_neg hz']
  have hv : ¬ decVal a > 255 := by
    have : digitsValue a = decVal a := rfl
    omega
  rw [if_neg hv]

theorem isDigit_dot : isDigit dot = false := by decide

/-- a strict dotted quad is accepted by `read_ipv4_addr`, whole -/
theorem readIpv4_of_canon {a b c d : Bytes} (ha : canonOctetB a = true) (hb : canonOctetB b = true)
    (hc : canonOctetB c = true) (hd : canonOctetB d = true) :
    readIpv4 (a ++ dot :: (b ++ dot :: (c ++ dot :: d))) = some [] := by
  have stop : ∀ t : Bytes, (dot :: t = [] ∨ ∃ x t', dot :: t = x :: t' ∧ isDigit x = false) :=
    fun t => Or.inr ⟨dot, t, rfl, isDigit_dot⟩
  unfold readIpv4
  rw [readOctet_canon ha (stop _)]
  simp only [Option.bind_some, readChar, if_true]
  rw [readOctet_canon hb (stop _)]
  simp only [Option.bind_some, if_true]
  rw [readOctet_canon hc (stop _)]
  simp only [Option.bind_some, if_true]
  have := readOctet_canon (t := []) hd (Or.inl rfl)
  simpa using this

/-- whatever `read_ipv4_addr` accepts whole is four digit runs separated by periods -/
theorem ipv4Formatted_of_readIpv4 {n : Bytes} (h : readIpv4 n = some []) : Ipv4Formatted n := by
  unfold readIpv4 at h
  simp only [Option.bind_eq_some_iff] at h
  obtain ⟨r1, h1, r1', c1, r2, h2, r2', c2, r3, h3, r3', c3, h4⟩ := h
  obtain ⟨d1, e1, n1, a1⟩ := readOctet_some h1
  obtain ⟨d2, e2, n2, a2⟩ := readOctet_some h2
  obtain ⟨d3, e3, n3, a3⟩ := readOctet_some h3
  obtain ⟨d4, e4, n4, a4⟩ := readOctet_some h4
  rw [readChar_eq_some] at c1 c2 c3
  refine ⟨d1, d2, d3, d4, ?_, ⟨n1, a1⟩, ⟨n2, a2⟩, ⟨n3, a3⟩, ⟨n4, a4⟩⟩
  rw [e1, c1, e2, c2, e3, c3, e4]
  simp [dot]

theorem readHex4_some_mem {s r : Bytes} (h : readHex4 s = some r) : ∀ c ∈ r, c ∈ s := by
  unfold readHex4 at h
  simp only at h
  split at h
  · cases h
  · split at h
    · cases h
    · injection h with h
      intro c hc
      rw [← h] at hc
      exact (List.dropWhile_sublist _).subset hc

theorem readGroups_succ (n i : Nat) (s : Bytes) : readGroups (n + 1) i s =
    match (if n ≥ 1 then (if i > 0 then readChar colon s else some s).bind readIpv4 else none) with
    | some r => (i + 2, true, r)
    | none =>
      match (if i > 0 then readChar colon s else some s).bind readHex4 with
      | some r => readGroups n (i + 1) r
      | none => (i, false, s) := by
  rw [readGroups]; rfl

/-- without a colon there is no IPv6 address -/
theorem readIpv6_none_of_no_colon {n : Bytes} (hc : colon ∉ n) (h4 : readIpv4 n = none) :
    readIpv6 n = none := by
  have step0 : readGroups 8 0 n =
      match readHex4 n with
      | some r => readGroups 7 1 r
      | none => (0, false, n) := by
    rw [show (8 : Nat) = 7 + 1 from rfl, readGroups_succ]
    simp [h4]
  unfold readIpv6
  rw [step0]
  cases hx : readHex4 n with
  | none =>
    simp [readChar_none_of_not_mem hc]
  | some r =>
    have hcr : colon ∉ r := fun h => hc (readHex4_some_mem hx _ h)
    have step1 : readGroups 7 1 r = (1, false, r) := by
      rw [show (7 : Nat) = 6 + 1 from rfl, readGroups_succ]
      simp [readChar_none_of_not_mem hcr]
    simp [step1, readChar_none_of_not_mem hcr]

/-- a string without a colon is an IP address only if it is four digit runs separated by periods -/
theorem ipv4Formatted_of_ipAddrOk {n : Bytes} (hc : colon ∉ n) (h : ipAddrOk n = true) :
    Ipv4Formatted n := by
  unfold ipAddrOk readIpAddr at h
  cases h4 : readIpv4 n with
  | none =>
    rw [h4, readIpv6_none_of_no_colon hc h4] at h
    simp at h
  | some r =>
    rw [h4] at h
    simp only [beq_iff_eq, Option.some.injEq] at h
    subst h
    exact ipv4Formatted_of_readIpv4 h4

end S3V.Net
