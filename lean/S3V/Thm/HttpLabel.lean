import S3V.Model.HttpLabel
import S3V.Spec.HttpLabel
import S3V.Thm.Prepare
import S3V.Props.C01
/-!
# Lemmas for `S3V/Props/C02Label.lean`: which operation `prepare` can hand on for a path of which kind, and what the
label statements of that operation bind
-/
namespace S3V.HttpLabel
open S3V S3V.Gen S3V.Route S3V.RouteThm S3V.Path S3V.Prepare S3V.HttpLabelSpec S3V.PostPolicyModel

/-! ## the router only selects operations of its arm -/

theorem resolveRules_mem {r : RReq} {rules : List Rule} {d : Option (Op × Bool)} {op : Op} {b : Bool}
    (h : resolveRules r rules d = some (op, b)) :
    (∃ rule ∈ rules, rule.op = op ∧ rule.full = b) ∨ d = some (op, b) := by
  induction rules with
  | nil => exact Or.inr h
  | cons rule rest ih =>
    unfold resolveRules at h
    split at h
    · injection h with h
      injection h with h1 h2
      exact Or.inl ⟨rule, List.mem_cons_self, h1, h2⟩
    · rcases ih h with ⟨x, hx, hh⟩ | hd
      · exact Or.inl ⟨x, List.mem_cons_of_mem _ hx, hh⟩
      · exact Or.inr hd

/-- an operation the router selects unwraps the path kind of the request, or none, and has the full-body flag if it
    takes a buffered body (`C01_unwrap_and_body_consistent` applied to the selected rule) -/
theorem resolve_consistent {r : RReq} {op : Op} {full : Bool} (h : resolve r = some (op, full)) :
    (unwrapsKind op = r.pk ∨ unwrapsKind op = .root) ∧ (usesBufferedBody op = true → full = true) := by
  have hc := S3V.C01.C01_unwrap_and_body_consistent r.method r.pk
  unfold armConsistent at hc
  simp only [Bool.and_eq_true] at hc
  have key : ∀ o f, ((unwrapsKind o == r.pk || unwrapsKind o == .root) && (!usesBufferedBody o || f)) = true →
      (unwrapsKind o = r.pk ∨ unwrapsKind o = .root) ∧ (usesBufferedBody o = true → f = true) := by
    intro o f hh
    simp only [Bool.and_eq_true, Bool.or_eq_true, beq_iff_eq, Bool.not_eq_true'] at hh
    refine ⟨hh.1, fun hb => ?_⟩
    rcases hh.2 with h1 | h1
    · rw [hb] at h1; cases h1
    · exact h1
  rcases resolveRules_mem h with ⟨rule, hm, h1, h2⟩ | hd
  · have := List.all_eq_true.mp hc.1 rule hm
    rw [h1, h2] at this
    exact key op full this
  · have h2 := hc.2
    rw [hd] at h2
    exact key op full h2

/-! ## what `prepare` hands on -/

/-- `prepare` hands an operation on either from the POST-form branch (a form was parsed, the method is POST, the
    path is a bucket, the operation is `PutObject` without the full-body flag) or from the generated router -/
theorem prepare_s3_cases {I E : Type} {ctx : Ctx I E} {p : S3Path} {r : Request I E} {op : Op} {full : Bool}
    (h : (prepare ctx p r).outcome = .s3 op full) :
    ∃ s, r.sig = .ok s ∧
      ((s.multipart.isSome = true ∧ r.method = .POST ∧ (∃ b, p = .bucket b) ∧ op = .PutObject ∧ full = false) ∨
       ((s.multipart = none ∨ r.method ≠ .POST) ∧
          resolve (routerReq r.method p (extractQs r.rawQuery) r.h) = some (op, full))) := by
  cases hs : r.sig with
  | error e => rw [prepare_sig_error ctx p r hs] at h; cases h
  | ok s =>
    refine ⟨s, rfl, ?_⟩
    cases hr : routeClaims ctx r s with
    | true => rw [prepare_routed ctx p r hs hr] at h; cases h
    | false =>
      rw [prepare_not_routed ctx p r hs hr] at h
      have fromRouter : resolveOp r.method p (extractQs r.rawQuery) r.h s.multipart =
          viaRouter r.method p (extractQs r.rawQuery) r.h →
          resolve (routerReq r.method p (extractQs r.rawQuery) r.h) = some (op, full) := by
        intro he
        rw [he] at h
        unfold viaRouter at h
        cases hres : resolve (routerReq r.method p (extractQs r.rawQuery) r.h) with
        | none => rw [hres] at h; cases h
        | some q =>
          obtain ⟨o, f⟩ := q
          rw [hres] at h
          obtain ⟨h1, h2⟩ := afterResolve_s3 h
          rw [h1, h2]
      cases hm : s.multipart with
      | none =>
        refine Or.inr ⟨Or.inl rfl, fromRouter ?_⟩
        simp only [resolveOp, hm]
      | some gate =>
        by_cases hpost : r.method = .POST
        · refine Or.inl ⟨rfl, hpost, ?_⟩
          cases p with
          | root => simp only [resolveOp, hm, hpost, if_true] at h; cases h
          | object b k => simp only [resolveOp, hm, hpost, if_true] at h; cases h
          | bucket b =>
            refine ⟨⟨b, rfl⟩, ?_⟩
            simp only [resolveOp, hm, hpost, if_true] at h
            cases hg : gate b with
            | pass =>
              rw [hg] at h
              simp only [gateResult] at h
              obtain ⟨h1, h2⟩ := afterResolve_s3 h
              exact ⟨h1, h2⟩
            | invalidPolicyDocument | accessDenied | entityTooSmall | entityTooLarge =>
              rw [hg] at h; cases h
        · refine Or.inr ⟨Or.inr hpost, fromRouter ?_⟩
          simp only [resolveOp, hm, if_neg hpost]

/-! ## what the label statements bind, by the kind the operation unwraps (regenerated tables, all operations) -/

theorem deserLabels_object (op : Op) (h : unwrapsKind op = .object) (b k : Bytes) :
    deserLabels op false (some (.object b k)) = some [(mBucket, b), (mKey, k)] ∧
    smithyUriPath op = [.label mBucket false, .label mKey true] := by
  cases op <;> first | exact ⟨rfl, rfl⟩ | exact absurd h (by decide)

theorem deserLabels_bucket (op : Op) (h : unwrapsKind op = .bucket) (b : Bytes) :
    deserLabels op false (some (.bucket b)) = some [(mBucket, b)] ∧
    smithyUriPath op = [.label mBucket false] := by
  cases op <;> first | exact ⟨rfl, rfl⟩ | exact absurd h (by decide)

theorem deserLabels_root (op : Op) (h : unwrapsKind op = .root) (p : Option S3Path) :
    deserLabels op false p = some [] ∧ labels (smithyUriPath op) = [] := by
  cases op <;> first | exact ⟨rfl, rfl⟩ | exact absurd h (by decide)

/-- the POST form: `deserialize_http_multipart` binds `bucket` from the path -/
theorem deserLabels_form (b : Bytes) : deserLabels formOp true (some (.bucket b)) = some [(mBucket, b)] := rfl

/-! ## composition -/

/-- the path components the URI pattern is matched against (path-style form) -/
def components : S3Path → List Bytes
  | .root => []
  | .bucket b => [b]
  | .object b k => [b, k]

theorem assign_of_no_labels {V : Type} (segs : List UriSeg) (vs : List V) (h : labels segs = []) :
    assign segs vs = [] := by
  induction segs generalizing vs with
  | nil => cases vs <;> rfl
  | cons sg rest ih =>
    cases sg with
    | label m g => cases h
    | lit t =>
      cases vs with
      | nil => rfl
      | cons v vs => exact ih vs h

/-- no arm of the router for object paths holds an operation that does not unwrap an object
    (regenerated table) -/
theorem object_arms : ∀ m : Meth, ((routeTable m .object).rules.all fun rule => unwrapsKind rule.op == .object) = true ∧
    (∀ q ∈ (routeTable m .object).dflt, unwrapsKind q.1 = .object) := by
  intro m; cases m <;> decide +kernel

theorem resolve_object {r : RReq} {op : Op} {full : Bool} (hpk : r.pk = .object) (h : resolve r = some (op, full)) :
    unwrapsKind op = .object := by
  have hc := object_arms r.method
  unfold resolve at h
  rw [hpk] at h
  rcases resolveRules_mem h with ⟨rule, hm, h1, _⟩ | hd
  · have := List.all_eq_true.mp hc.1 rule hm
    rw [h1] at this
    exact beq_iff_eq.mp this
  · exact hc.2 (op, full) (by rw [hd]; rfl)

/-- the hypothesis under which `req.s3ext.multipart` is read: the signature check parses a form only for a POST
    request (`v4_check`: `if self.req_method == Method::POST { if multipart/form-data { v4_check_post_signature } }`;
    model `S3V.SigDispatch`) -/
def FormOnlyForPost {I E : Type} (r : Request I E) : Prop :=
  ∀ s, r.sig = .ok s → s.multipart.isSome = true → r.method = .POST

/-- whatever operation `prepare` hands on for the classified path `p`, its label statements do not panic and bind
    the label members of its Smithy URI pattern to the components of `p`, position by position -/
theorem labels_of_prepare {I E : Type} {ctx : Ctx I E} {p : S3Path} {r : Request I E} {op : Op} {full : Bool}
    (hpost : FormOnlyForPost r) (h : (prepare ctx p r).outcome = .s3 op full) :
    deserLabels op (hasForm r) (some p) = some (assign (smithyUriPath op) (components p)) ∧
    (∀ b k, p = .object b k → smithyUriPath op = [.label mBucket false, .label mKey true]) := by
  obtain ⟨s, hs, hcase⟩ := prepare_s3_cases h
  rcases hcase with ⟨hsome, _, ⟨b, hp⟩, hop, _⟩ | ⟨hnf, hres⟩
  · have hf : hasForm r = true := by simp only [hasForm, hs, hsome]
    subst hp hop
    rw [hf]
    exact ⟨rfl, fun b' k' hh => by cases hh⟩
  · have hf : hasForm r = false := by
      simp only [hasForm, hs]
      cases hm : s.multipart with
      | none => rfl
      | some g =>
        rcases hnf with h1 | h1
        · rw [hm] at h1; cases h1
        · exact absurd (hpost s hs (by rw [hm]; rfl)) h1
    rw [hf]
    have hk := (resolve_consistent hres).1
    cases p with
    | root =>
      have hr : unwrapsKind op = .root := by rcases hk with h1 | h1 <;> exact h1
      obtain ⟨h1, h2⟩ := deserLabels_root op hr (some .root)
      exact ⟨by rw [h1, assign_of_no_labels _ _ h2], fun b k hh => by cases hh⟩
    | bucket b =>
      refine ⟨?_, fun b' k' hh => by cases hh⟩
      rcases hk with h1 | h1
      · obtain ⟨h2, h3⟩ := deserLabels_bucket op h1 b
        rw [h2, h3]; rfl
      · obtain ⟨h2, h3⟩ := deserLabels_root op h1 (some (.bucket b))
        rw [h2, assign_of_no_labels _ _ h3]
    | object b k =>
      have ho : unwrapsKind op = .object := resolve_object rfl hres
      obtain ⟨h2, h3⟩ := deserLabels_object op ho b k
      exact ⟨by rw [h2, h3]; rfl, fun _ _ _ => h3⟩

/-- unfolding `callLabels` at a classified path -/
theorem callLabels_spec {I E : Type} {cfg : HostCfg} {host : Option Bytes} {e : Bytes} {p : S3Path}
    (hc : classify cfg host e = .ok p) (ctx : Ctx I E) (r : Request I E) :
    ∃ x, callLabels cfg host e ctx r = .ok x ∧
      ∀ op ls, x = some (op, ls) →
        ∃ full, (prepare ctx p r).outcome = .s3 op full ∧ ls = deserLabels op (hasForm r) (some p) := by
  refine ⟨reached ctx r p, by simp only [callLabels, hc, Except.map], fun op ls hx => ?_⟩
  unfold reached at hx
  cases ho : (prepare ctx p r).outcome with
  | error c => rw [ho] at hx; cases hx
  | customRoute => rw [ho] at hx; cases hx
  | s3 op' full =>
    rw [ho] at hx
    simp only [Option.some.injEq, Prod.mk.injEq] at hx
    obtain ⟨h1, h2⟩ := hx
    subst h1
    exact ⟨full, rfl, h2.symm⟩

theorem callLabels_reached {I E : Type} {cfg : HostCfg} {host : Option Bytes} {e : Bytes} {p : S3Path}
    (hc : classify cfg host e = .ok p) {ctx : Ctx I E} {r : Request I E} {op : Op} {full : Bool}
    (ho : (prepare ctx p r).outcome = .s3 op full) :
    callLabels cfg host e ctx r = .ok (some (op, deserLabels op (hasForm r) (some p))) := by
  simp only [callLabels, hc, Except.map, reached, ho]

end S3V.HttpLabel
