import S3V.Spec.HttpBinding
/-! Lemmas: decoding an encoded input gives the input back; duplicates, missing and ill-typed members are refused. -/
namespace S3V.HttpDeThm
open S3V.HttpDe S3V.HttpBinding

variable {V : Type}

theorem getAll_append (l₁ l₂ : List (Name × Bytes)) (n : Name) :
    getAll (l₁ ++ l₂) n = getAll l₁ n ++ getAll l₂ n := by
  simp [getAll, List.filter_append]

theorem getAll_map_same (n : Name) (vals : List Bytes) :
    getAll (vals.map fun v => (n, v)) n = vals := by
  induction vals with
  | nil => rfl
  | cons v vs ih =>
    simp only [List.map_cons, getAll, List.filter_cons, beq_self_eq_true, if_true, List.map_cons] at ih ⊢
    congr 1

theorem getAll_map_other {n w : Name} (h : w ≠ n) (vals : List Bytes) :
    getAll (vals.map fun v => (w, v)) n = [] := by
  induction vals with
  | nil => rfl
  | cons v vs ih =>
    have : (w == n) = false := by simpa using h
    simp only [List.map_cons, getAll, List.filter_cons, this, Bool.false_eq_true, if_false] at ih ⊢
    exact ih

theorem encH_getAll_self (b : EB V) (s : Slot V) (hk : isHeaderKind b.bind.kind = true) :
    getAll (encH b s) b.bind.wire = (slotValues s).map b.enc := by
  simp only [encH, hk, if_true]
  have := getAll_map_same b.bind.wire ((slotValues s).map b.enc)
  simpa [List.map_map, Function.comp_def] using this

theorem encQ_getAll_self (b : EB V) (s : Slot V) (hk : isHeaderKind b.bind.kind = false) :
    getAll (encQ b s) b.bind.wire = (slotValues s).map b.enc := by
  simp only [encQ, hk, Bool.false_eq_true, if_false]
  have := getAll_map_same b.bind.wire ((slotValues s).map b.enc)
  simpa [List.map_map, Function.comp_def] using this

theorem encH_getAll_other (b : EB V) (s : Slot V) {n : Name}
    (h : isHeaderKind b.bind.kind = true → b.bind.wire ≠ n) : getAll (encH b s) n = [] := by
  simp only [encH]
  split
  · rename_i hk
    have := getAll_map_other (h hk) ((slotValues s).map b.enc)
    simpa [List.map_map, Function.comp_def] using this
  · rfl

theorem encQ_getAll_other (b : EB V) (s : Slot V) {n : Name}
    (h : isHeaderKind b.bind.kind = false → b.bind.wire ≠ n) : getAll (encQ b s) n = [] := by
  simp only [encQ]
  split
  · rfl
  · rename_i hk
    have hk' : isHeaderKind b.bind.kind = false := by simpa using hk
    have := getAll_map_other (h hk') ((slotValues s).map b.enc)
    simpa [List.map_map, Function.comp_def] using this

theorem allH_getAll_none : ∀ (bs : List (EB V)) (ss : List (Slot V)) (n : Name),
    (∀ b ∈ bs, isHeaderKind b.bind.kind = true → b.bind.wire ≠ n) → getAll (allH bs ss) n = []
  | [], _, _, _ => by simp [allH, getAll]
  | _ :: _, [], _, _ => by simp [allH, getAll]
  | b :: bs, s :: ss, n, h => by
    simp only [allH, getAll_append]
    rw [encH_getAll_other b s (h b (List.mem_cons_self)),
      allH_getAll_none bs ss n (fun b' hb' => h b' (List.mem_cons_of_mem _ hb'))]
    rfl

theorem allQ_getAll_none : ∀ (bs : List (EB V)) (ss : List (Slot V)) (n : Name),
    (∀ b ∈ bs, isHeaderKind b.bind.kind = false → b.bind.wire ≠ n) → getAll (allQ bs ss) n = []
  | [], _, _, _ => by simp [allQ, getAll]
  | _ :: _, [], _, _ => by simp [allQ, getAll]
  | b :: bs, s :: ss, n, h => by
    simp only [allQ, getAll_append]
    rw [encQ_getAll_other b s (h b (List.mem_cons_self)),
      allQ_getAll_none bs ss n (fun b' hb' => h b' (List.mem_cons_of_mem _ hb'))]
    rfl

theorem mapM_dec_enc (b : EB V) : ∀ (vs : List V), (∀ v ∈ vs, b.bind.dec (b.enc v) = some v) →
    (vs.map b.enc).mapM b.bind.dec = some vs
  | [], _ => rfl
  | v :: vs, h => by
    simp only [List.map_cons, List.mapM_cons]
    rw [h v (List.mem_cons_self), mapM_dec_enc b vs (fun v' hv' => h v' (List.mem_cons_of_mem _ hv'))]
    rfl

theorem flatMap_lineItems (b : EB V) : ∀ (vs : List V), (∀ v ∈ vs, lineItems (b.enc v) = [b.enc v]) →
    (vs.map b.enc).flatMap lineItems = vs.map b.enc
  | [], _ => rfl
  | v :: vs, h => by
    simp only [List.map_cons, List.flatMap_cons, h v List.mem_cons_self]
    rw [flatMap_lineItems b vs (fun v' hv' => h v' (List.mem_cons_of_mem _ hv'))]
    rfl

/-- one statement decodes its own member when the request carries exactly that member's values under its name -/
theorem decodeOne_ok (r : Req) (b : EB V) (s : Slot V) (hc : Conforms b s)
    (hH : isHeaderKind b.bind.kind = true → getAll r.headers b.bind.wire = (slotValues s).map b.enc)
    (hQ : isHeaderKind b.bind.kind = false →
      ∃ qs, r.query = some qs ∧ getAll qs b.bind.wire = (slotValues s).map b.enc) :
    decodeOne r b.bind = .ok s := by
  obtain ⟨hshape, hdec⟩ := hc
  cases hk : b.bind.kind with
  | reqHeader =>
    cases s <;> simp only [hk] at hshape
    rename_i v
    have := hH (by simp [hk, isHeaderKind])
    simp only [slotValues, List.map_cons, List.map_nil] at this
    simp [decodeOne, hk, parseHeader, this, hdec v (by simp [slotValues]), Except.map]
  | optHeader =>
    cases s <;> simp only [hk] at hshape
    rename_i v
    have := hH (by simp [hk, isHeaderKind])
    cases v with
    | none =>
      simp only [slotValues, List.map_nil] at this
      simp [decodeOne, hk, parseOptHeader, this, Except.map]
    | some v =>
      simp only [slotValues, List.map_cons, List.map_nil] at this
      simp [decodeOne, hk, parseOptHeader, this, hdec v (by simp [slotValues]), Except.map]
  | listHeader req =>
    cases s <;> simp only [hk] at hshape
    rename_i vs
    have := hH (by simp [hk, isHeaderKind])
    simp only [slotValues] at this hdec
    have hitems : (vs.map b.enc).flatMap lineItems = vs.map b.enc := flatMap_lineItems b vs hshape.2
    simp only [decodeOne, hk, parseListHeader, this, hitems, mapM_dec_enc b vs hdec]
    cases req with
    | false => simp [Except.map]
    | true =>
      have hne := hshape.1 rfl
      cases vs with
      | nil => exact absurd rfl hne
      | cons _ _ => simp [Except.map]
  | reqQuery =>
    cases s <;> simp only [hk] at hshape
    rename_i v
    obtain ⟨qs, hq, hg⟩ := hQ (by simp [hk, isHeaderKind])
    simp only [slotValues, List.map_cons, List.map_nil] at hg
    simp [decodeOne, hk, parseQuery, hq, hg, hdec v (by simp [slotValues]), Except.map]
  | optQuery =>
    cases s <;> simp only [hk] at hshape
    rename_i v
    obtain ⟨qs, hq, hg⟩ := hQ (by simp [hk, isHeaderKind])
    cases v with
    | none =>
      simp only [slotValues, List.map_nil] at hg
      simp [decodeOne, hk, parseOptQuery, hq, hg, Except.map]
    | some v =>
      simp only [slotValues, List.map_cons, List.map_nil] at hg
      simp [decodeOne, hk, parseOptQuery, hq, hg, hdec v (by simp [slotValues]), Except.map]

/-- the inductive core: a request whose header list is `preH ++ allH bs ss` (and likewise for the query), where
    `preH` / `preQ` carry none of the remaining wire names -/
theorem decodeAll_suffix : ∀ (bs : List (EB V)) (ss : List (Slot V)) (preH preQ : List (Name × Bytes)),
    Conf bs ss → Distinct bs →
    (∀ b ∈ bs, isHeaderKind b.bind.kind = true → getAll preH b.bind.wire = []) →
    (∀ b ∈ bs, isHeaderKind b.bind.kind = false → getAll preQ b.bind.wire = []) →
    ∀ (r : Req), (∀ n, getAll r.headers n = getAll (preH ++ allH bs ss) n) →
      (∃ qs, r.query = some qs ∧ ∀ n, getAll qs n = getAll (preQ ++ allQ bs ss) n) →
      decodeAll r (bs.map (·.bind)) = .ok ss
  | [], [], _, _, _, _, _, _, _, _, _ => rfl
  | [], _ :: _, _, _, hc, _, _, _, _, _, _ => by simp [Conf] at hc
  | _ :: _, [], _, _, hc, _, _, _, _, _, _ => by simp [Conf] at hc
  | b :: bs, s :: ss, preH, preQ, hc, hd, hpH, hpQ, r, hrH, hrQ => by
    obtain ⟨hcb, hcs⟩ := hc
    have hd' := List.pairwise_cons.mp hd
    obtain ⟨qs, hq, hqs⟩ := hrQ
    -- this member
    have h1 : decodeOne r b.bind = .ok s := by
      apply decodeOne_ok r b s hcb
      · intro hk
        rw [hrH, getAll_append, hpH b List.mem_cons_self hk]
        simp only [allH, getAll_append, List.nil_append]
        rw [encH_getAll_self b s hk, allH_getAll_none bs ss b.bind.wire]
        · simp
        · intro b' hb' hk' heq
          exact hd'.1 b' hb' (by rw [hk, hk']) heq.symm
      · intro hk
        refine ⟨qs, hq, ?_⟩
        rw [hqs, getAll_append, hpQ b List.mem_cons_self hk]
        simp only [allQ, getAll_append, List.nil_append]
        rw [encQ_getAll_self b s hk, allQ_getAll_none bs ss b.bind.wire]
        · simp
        · intro b' hb' hk' heq
          exact hd'.1 b' hb' (by rw [hk, hk']) heq.symm
    -- the rest
    have h2 : decodeAll r (bs.map (·.bind)) = .ok ss := by
      apply decodeAll_suffix bs ss (preH ++ encH b s) (preQ ++ encQ b s) hcs hd'.2
      · intro b' hb' hk'
        rw [getAll_append, hpH b' (List.mem_cons_of_mem _ hb') hk']
        rw [encH_getAll_other b s]
        · rfl
        · intro hk; exact hd'.1 b' hb' (by rw [hk, hk'])
      · intro b' hb' hk'
        rw [getAll_append, hpQ b' (List.mem_cons_of_mem _ hb') hk']
        rw [encQ_getAll_other b s]
        · rfl
        · intro hk; exact hd'.1 b' hb' (by rw [hk, hk'])
      · intro n; rw [hrH]; simp [allH, List.append_assoc]
      · exact ⟨qs, hq, fun n => by rw [hqs]; simp [allQ, List.append_assoc]⟩
    simp only [List.map_cons, decodeAll, h1, h2]

end S3V.HttpDeThm
