import S3V.Props.C10Policy
import S3V.Thm.SigV4Calendar
import S3V.Thm.DtoTimestampText
import S3V.Thm.DtoTimestamp
/-!
# The two readers of the policy's `expiration` agree on the strict form

`PostPolicy.parseInstant` (specification, AWS document: exactly `YYYY-MM-DDTHH:MM:SS[.digits]Z`, counting calendar
`SigV4Spec.civilToUnix`) and `Dto.parseRfc3339` (model of `time`'s RFC 3339 parser, era calendar
`Dto.daysFromCivil`): every text the strict reader accepts is accepted by the code's parser, with the same second
(`parseInstant_implies_parseRfc3339`, `parseInstant_agrees`). Hence the policy clause of C10 holds with the
document's own reader whenever the policy's expiration is written in the strict form
(`post_policy_enforced_strict`). No bound on any length or year beyond the four digits of the text form.
-/
namespace S3V.PostPolicyThm
open S3V S3V.Dto

/-! ## calendar: the era formula on `Int` years is the era formula on `Nat` years is the counting definition -/

theorem dto_daysFromCivil_eq_sigv4 (y m d : Nat) :
    Dto.daysFromCivil (y : Int) m d = SigV4.daysFromCivil y m d := by
  unfold Dto.daysFromCivil SigV4.daysFromCivil Dto.encDoe
  simp only
  by_cases h : m ≤ 2
  · simp only [h, if_true]; omega
  · simp only [h, if_false]; omega

/-- the day number of `time` is the counting day number of the specification, for every year ≥ 0 -/
theorem dto_daysFromCivil_eq_counting (y m d : Nat) (h1 : 1 ≤ m) (h2 : m ≤ 12) (h3 : 1 ≤ d) :
    Dto.daysFromCivil (y : Int) m d =
      ((SigV4Spec.daysBeforeYear y + SigV4Spec.daysBeforeMonth y m + (d - 1) : Nat) : Int) - 719528 := by
  rw [dto_daysFromCivil_eq_sigv4, SigV4.daysFromCivil_eq y m d h1 h2 h3]

theorem localSeconds_eq_civilToUnix (y m d hh mm ss : Nat) (h1 : 1 ≤ m) (h2 : m ≤ 12) (h3 : 1 ≤ d) :
    Dto.localSeconds (y : Int) m d hh mm ss = SigV4Spec.civilToUnix y m d hh mm ss := by
  unfold Dto.localSeconds SigV4Spec.civilToUnix SigV4Spec.epochDays
  rw [dto_daysFromCivil_eq_counting y m d h1 h2 h3]
  omega

theorem isLeap_eq_leap (y : Nat) : Dto.isLeap (y : Int) = SigV4Spec.leap y := by
  have h4 : (((y : Int)) % 4 = 0) ↔ (y % 4 = 0) := by omega
  have h100 : (((y : Int)) % 100 = 0) ↔ (y % 100 = 0) := by omega
  have h400 : (((y : Int)) % 400 = 0) ↔ (y % 400 = 0) := by omega
  simp only [Dto.isLeap, SigV4Spec.leap, ne_eq, h4, h100, h400]
  by_cases a : y % 4 = 0 <;> by_cases b : y % 100 = 0 <;> by_cases c : y % 400 = 0 <;> simp [a, b, c] <;> omega

theorem daysInMonth_eq_monthDays (y m : Nat) : Dto.daysInMonth (y : Int) m = SigV4Spec.monthDays y m := by
  unfold Dto.daysInMonth SigV4Spec.monthDays
  rw [isLeap_eq_leap]

/-- the strict reader's range conditions are the parser's, for a four-digit year -/
theorem validFields_of_validCivil (y m d hh mm ss : Nat) (hy : y ≤ 9999)
    (h : SigV4Spec.validCivil y m d hh mm ss = true) : Dto.validFields (y : Int) m d hh mm ss = true := by
  unfold SigV4Spec.validCivil at h
  unfold Dto.validFields
  rw [daysInMonth_eq_monthDays]
  simp only [Bool.and_eq_true, decide_eq_true_eq] at h ⊢
  omega

/-! ## text: digits -/

theorem isDigitB_eq (c : UInt8) : PostPolicy.isDigitB c = isDigit c := rfl

theorem exactlyDigits4 (a b c d : UInt8) (rest : Bytes) (ha : isDigit a = true) (hb : isDigit b = true)
    (hc : isDigit c = true) (hd : isDigit d = true) :
    exactlyDigits 4 (a :: b :: c :: d :: rest) 0 = some (PostPolicy.decVal [a, b, c, d], rest) := by
  simp [exactlyDigits, ha, hb, hc, hd, PostPolicy.decVal]

theorem exactlyDigits2 (a b : UInt8) (rest : Bytes) (ha : isDigit a = true) (hb : isDigit b = true) :
    exactlyDigits 2 (a :: b :: rest) 0 = some (PostPolicy.decVal [a, b], rest) := by
  simp [exactlyDigits, ha, hb, PostPolicy.decVal]

theorem decVal4_le (a b c d : UInt8) (ha : isDigit a = true) (hb : isDigit b = true)
    (hc : isDigit c = true) (hd : isDigit d = true) : PostPolicy.decVal [a, b, c, d] ≤ 9999 := by
  simp only [isDigit, Bool.and_eq_true, decide_eq_true_eq] at ha hb hc hd
  simp only [PostPolicy.decVal, List.foldl]
  omega

/-! ## text: the fraction and the `Z` -/

theorem subsecLoop_digits_Z (fr : Bytes) (h : fr.all isDigit = true) (value mult : Nat) :
    ∃ v, subsecLoop (fr ++ [90]) value mult = (v, [90]) := by
  induction fr generalizing value mult with
  | nil => exact ⟨value, by simp [subsecLoop, isDigit]⟩
  | cons c r ih =>
    simp only [List.all_cons, Bool.and_eq_true] at h
    obtain ⟨v, hv⟩ := ih h.2 (value + (c.toNat - 48) * mult) (mult / 10)
    exact ⟨v, by simp only [List.cons_append, subsecLoop, h.1, if_true, hv]⟩

/-- the tail the strict reader allows: `Z`, or `.` digit+ `Z` -/
def strictTail (rest : Bytes) : Bool :=
  match rest with
  | [90] => true
  | 46 :: more => (match more.reverse with
      | 90 :: fr => PostPolicy.allDigits fr
      | _ => false)
  | _ => false

theorem parseSubsec_strictTail (rest : Bytes) (h : strictTail rest = true) :
    ∃ n, parseSubsec rest = some (n, [90]) := by
  unfold strictTail at h
  split at h
  · exact ⟨0, by decide⟩
  · rename_i more
    split at h
    · rename_i fr hrev
      have hmore : more = fr.reverse ++ [90] := by
        have := congrArg List.reverse hrev
        simpa using this
      subst hmore
      unfold PostPolicy.allDigits at h
      simp only [Bool.and_eq_true, decide_eq_true_eq, ne_eq] at h
      obtain ⟨hne, hall⟩ := h
      have hall' : fr.reverse.all isDigit = true := by
        rw [List.all_reverse]; exact hall
      cases hr : fr.reverse with
      | nil => simp at hr; exact absurd hr hne
      | cons c r =>
        rw [hr] at hall'
        simp only [List.all_cons, Bool.and_eq_true] at hall'
        obtain ⟨v, hv⟩ := subsecLoop_digits_Z r hall'.2 ((c.toNat - 48) * 100000000) 10000000
        refine ⟨v, ?_⟩
        show (if (46 : UInt8) = 46 then
            (if isDigit c = true then some (subsecLoop (r ++ [90]) ((c.toNat - 48) * 100000000) 10000000) else none)
          else some (0, 46 :: c :: (r ++ [90]))) = _
        rw [if_pos rfl, if_pos hall'.1, hv]
    · cases h
  · cases h

/-! ## the parser on a text of the strict shape -/

theorem parseRfc3339_shape (y0 y1 y2 y3 m0 m1 d0 d1 sep h0 h1 mi0 mi1 s0 s1 : UInt8) (tail : Bytes) (nanos : Nat)
    (hy0 : isDigit y0 = true) (hy1 : isDigit y1 = true) (hy2 : isDigit y2 = true) (hy3 : isDigit y3 = true)
    (hm0 : isDigit m0 = true) (hm1 : isDigit m1 = true) (hd0 : isDigit d0 = true) (hd1 : isDigit d1 = true)
    (hh0 : isDigit h0 = true) (hh1 : isDigit h1 = true) (hmi0 : isDigit mi0 = true) (hmi1 : isDigit mi1 = true)
    (hs0 : isDigit s0 = true) (hs1 : isDigit s1 = true)
    (hS : PostPolicy.decVal [s0, s1] < 60)
    (hfrac : parseSubsec tail = some (nanos, [90])) :
    parseRfc3339Time (y0 :: y1 :: y2 :: y3 :: 45 :: m0 :: m1 :: 45 :: d0 :: d1 :: sep :: h0 :: h1 :: 58 :: mi0 :: mi1 ::
        58 :: s0 :: s1 :: tail) =
      if validFields (PostPolicy.decVal [y0, y1, y2, y3] : Nat) (PostPolicy.decVal [m0, m1]) (PostPolicy.decVal [d0, d1])
          (PostPolicy.decVal [h0, h1]) (PostPolicy.decVal [mi0, mi1]) (PostPolicy.decVal [s0, s1])
      then some ⟨localSeconds (PostPolicy.decVal [y0, y1, y2, y3] : Nat) (PostPolicy.decVal [m0, m1])
          (PostPolicy.decVal [d0, d1]) (PostPolicy.decVal [h0, h1]) (PostPolicy.decVal [mi0, mi1])
          (PostPolicy.decVal [s0, s1]) - 0, nanos, 0⟩
      else none := by
  unfold parseRfc3339Time
  simp only [exactlyDigits4 _ _ _ _ _ hy0 hy1 hy2 hy3, exactlyDigits2 _ _ _ hm0 hm1, exactlyDigits2 _ _ _ hd0 hd1,
    exactlyDigits2 _ _ _ hh0 hh1, exactlyDigits2 _ _ _ hmi0 hmi1, exactlyDigits2 _ _ _ hs0 hs1, expectChar_cons,
    hfrac, parseOffset_Z, bind, Option.bind]
  generalize PostPolicy.decVal [s0, s1] = S at hS ⊢
  have h60 : (S == 60) = false := by simp; omega
  simp only [h60, Bool.false_eq_true, if_false, Bool.false_and, List.isEmpty_nil, Bool.not_true]
  cases validFields _ _ _ _ _ S <;> simp

/-- the strict reader on a text of at least nineteen bytes with the five punctuation bytes in place -/
theorem parseInstant_cons (y0 y1 y2 y3 m0 m1 d0 d1 h0 h1 mi0 mi1 s0 s1 : UInt8) (rest : Bytes) :
    PostPolicy.parseInstant (y0 :: y1 :: y2 :: y3 :: 45 :: m0 :: m1 :: 45 :: d0 :: d1 :: 84 :: h0 :: h1 :: 58 ::
        mi0 :: mi1 :: 58 :: s0 :: s1 :: rest) =
      if ([y0, y1, y2, y3, m0, m1, d0, d1, h0, h1, mi0, mi1, s0, s1].all PostPolicy.isDigitB && strictTail rest) = true then
        if SigV4Spec.validCivil (PostPolicy.decVal [y0, y1, y2, y3]) (PostPolicy.decVal [m0, m1])
            (PostPolicy.decVal [d0, d1]) (PostPolicy.decVal [h0, h1]) (PostPolicy.decVal [mi0, mi1])
            (PostPolicy.decVal [s0, s1]) = true then
          some (SigV4Spec.civilToUnix (PostPolicy.decVal [y0, y1, y2, y3]) (PostPolicy.decVal [m0, m1])
            (PostPolicy.decVal [d0, d1]) (PostPolicy.decVal [h0, h1]) (PostPolicy.decVal [mi0, mi1])
            (PostPolicy.decVal [s0, s1]))
        else none
      else none := rfl

/-! ## the two readers -/

/-- THE CODE ACCEPTS EVERY STRICT TEXT, with the same second, in UTC: whenever the specification's reader of
    `YYYY-MM-DDTHH:MM:SS[.digits]Z` yields the instant `u`, the model of `time`'s RFC 3339 parser succeeds with
    `unix = u` and offset 0. (Seconds = 60 is refused by the strict reader; year 0000 is read alike by both.) -/
theorem parseInstant_implies_parseRfc3339' {e : Bytes} {u : Int} (h : PostPolicy.parseInstant e = some u) :
    ∃ t, Dto.parseRfc3339 e = some t ∧ t.unix = u ∧ t.off = 0 := by
  have h0 := h
  unfold PostPolicy.parseInstant at h0
  split at h0
  · rename_i y0 y1 y2 y3 m0 m1 d0 d1 h0 h1 mi0 mi1 s0 s1 rest
    clear h0
    rw [parseInstant_cons] at h
    split at h
    · rename_i hok
      split at h
      · rename_i hvalid
        injection h with h
        simp only [List.all_cons, List.all_nil, Bool.and_true, Bool.and_eq_true, isDigitB_eq] at hok
        obtain ⟨⟨hy0, hy1, hy2, hy3, hm0, hm1, hd0, hd1, hh0, hh1, hmi0, hmi1, hs0, hs1⟩, htail⟩ := hok
        obtain ⟨n, hn⟩ := parseSubsec_strictTail rest htail
        have hv := hvalid
        unfold SigV4Spec.validCivil at hv
        simp only [Bool.and_eq_true, decide_eq_true_eq] at hv
        have hvf := validFields_of_validCivil _ _ _ _ _ _ (decVal4_le y0 y1 y2 y3 hy0 hy1 hy2 hy3) hvalid
        have htime := parseRfc3339_shape y0 y1 y2 y3 m0 m1 d0 d1 84 h0 h1 mi0 mi1 s0 s1 rest n hy0 hy1 hy2 hy3 hm0 hm1
          hd0 hd1 hh0 hh1 hmi0 hmi1 hs0 hs1 hv.2 hn
        rw [if_pos hvf] at htime
        -- the year check of b7ef08a: a UTC text of the years 0000 … 9999 denotes an instant of those years
        have hrange := localSeconds_range_year0 _ _ _ _ _ _ (Int.natCast_nonneg _) hvf
        rw [parseRfc3339_of_time htime, if_pos (by simpa only [Int.sub_zero] using hrange)]
        refine ⟨_, rfl, ?_, rfl⟩
        simp only [Int.sub_zero]
        rw [localSeconds_eq_civilToUnix _ _ _ _ _ _ hv.1.1.1.1.1.1 hv.1.1.1.1.1.2 hv.1.1.1.1.2]
        exact h
      · cases h
    · cases h
  · cases h0

theorem parseInstant_implies_parseRfc3339 {e : Bytes} {u : Int} (h : PostPolicy.parseInstant e = some u) :
    ∃ t, Dto.parseRfc3339 e = some t ∧ t.unix = u := by
  obtain ⟨t, ht, hu, -⟩ := parseInstant_implies_parseRfc3339' h
  exact ⟨t, ht, hu⟩

/-- on every text the strict reader accepts, the code's parser yields the same second -/
theorem parseInstant_agrees (e : Bytes) (u : Int) (t : Dto.Ts) (h : PostPolicy.parseInstant e = some u)
    (ht : Dto.parseRfc3339 e = some t) : t.unix = u := by
  obtain ⟨t', ht', hu⟩ := parseInstant_implies_parseRfc3339 h
  rw [ht] at ht'
  injection ht' with ht'
  rw [ht']; exact hu

/-- the converse fails (which is why `C10_post_policy_enforced` cannot be instantiated with `parseInstant` directly):
    the code's parser also reads spellings the document does not list — another separator byte, a lower-case `z`, a
    numeric offset, a leap second — kernel-checked witnesses -/
theorem parseRfc3339_more_lenient :
    -- `2099-01-01t00:00:00z`
    (Dto.parseRfc3339 [50, 48, 57, 57, 45, 48, 49, 45, 48, 49, 116, 48, 48, 58, 48, 48, 58, 48, 48, 122]).isSome = true ∧
    PostPolicy.parseInstant [50, 48, 57, 57, 45, 48, 49, 45, 48, 49, 116, 48, 48, 58, 48, 48, 58, 48, 48, 122] = none ∧
    -- `2099-01-01T00:00:00+01:00`
    (Dto.parseRfc3339 [50, 48, 57, 57, 45, 48, 49, 45, 48, 49, 84, 48, 48, 58, 48, 48, 58, 48, 48, 43, 48, 49, 58, 48, 48]).isSome = true ∧
    PostPolicy.parseInstant [50, 48, 57, 57, 45, 48, 49, 45, 48, 49, 84, 48, 48, 58, 48, 48, 58, 48, 48, 43, 48, 49, 58, 48, 48] = none ∧
    -- `2016-12-31T23:59:60Z`
    (Dto.parseRfc3339 [50, 48, 49, 54, 45, 49, 50, 45, 51, 49, 84, 50, 51, 58, 53, 57, 58, 54, 48, 90]).isSome = true ∧
    PostPolicy.parseInstant [50, 48, 49, 54, 45, 49, 50, 45, 51, 49, 84, 50, 51, 58, 53, 57, 58, 54, 48, 90] = none := by
  decide +kernel

/-- both readers on year 0000 (a leap year in the proleptic calendar) and on a long fraction -/
theorem parseInstant_examples :
    -- `0000-02-29T00:00:00Z`
    PostPolicy.parseInstant [48, 48, 48, 48, 45, 48, 50, 45, 50, 57, 84, 48, 48, 58, 48, 48, 58, 48, 48, 90] = some (-62162121600) ∧
    (Dto.parseRfc3339 [48, 48, 48, 48, 45, 48, 50, 45, 50, 57, 84, 48, 48, 58, 48, 48, 58, 48, 48, 90]).map (·.unix) =
      some (-62162121600) ∧
    -- `2099-01-01T00:00:00.0123456789Z`
    PostPolicy.parseInstant [50, 48, 57, 57, 45, 48, 49, 45, 48, 49, 84, 48, 48, 58, 48, 48, 58, 48, 48, 46, 48, 49, 50, 51,
      52, 53, 54, 55, 56, 57, 90] = some 4070908800 ∧
    (Dto.parseRfc3339 [50, 48, 57, 57, 45, 48, 49, 45, 48, 49, 84, 48, 48, 58, 48, 48, 58, 48, 48, 46, 48, 49, 50, 51,
      52, 53, 54, 55, 56, 57, 90]).map (·.unix) = some 4070908800 := by
  decide +kernel

/-! ## the policy clause of C10 with the document's own reader -/

/-- the strict reader first; where it refuses, the instant the code's parser assigns -/
def rdStrictFirst (e : Bytes) : Option Int :=
  (PostPolicy.parseInstant e).orElse fun _ => (Dto.parseRfc3339 e).map (·.unix)

/-- `rdStrictFirst` meets the hypothesis of `C10_post_policy_enforced` -/
theorem rdStrictFirst_agrees (e : Bytes) (t : Dto.Ts) (ht : Dto.parseRfc3339 e = some t) :
    rdStrictFirst e = some t.unix := by
  unfold rdStrictFirst
  cases hp : PostPolicy.parseInstant e with
  | none => simp [ht]
  | some u => simp [parseInstant_agrees e u t hp ht]

/-- on the strict form it is the document's reader -/
theorem rdStrictFirst_of_strict (e : Bytes) (h : (PostPolicy.parseInstant e).isSome = true) :
    rdStrictFirst e = PostPolicy.parseInstant e := by
  unfold rdStrictFirst
  cases hp : PostPolicy.parseInstant e with
  | none => rw [hp] at h; cases h
  | some u => simp

/-- the policy clause with the strict reader tried first: no hypothesis on the policy text -/
theorem post_policy_enforced_strictFirst (rawFields : List (Bytes × Bytes)) (policyField : Option Bytes)
    (bucket : Bytes) (fileLen : Nat) (nowNs : Int)
    (h : PostPolicyModel.gate nowNs policyField bucket (SigV4.multipartFields rawFields) fileLen = .pass) :
    ∃ policyB64, policyField = some policyB64 ∧
      PostPolicy.formCompliantWith rdStrictFirst (nowNs / 1000000000) policyB64 rawFields bucket fileLen = true :=
  S3V.C10.C10_post_policy_enforced rdStrictFirst rdStrictFirst_agrees rawFields policyField bucket fileLen nowNs h

/-- the text of the `expiration` member of the policy a form carries (base64 → JSON text → first member of that name),
    when there is one and it is a string -/
def expirationText (policyB64 : Bytes) : Option Bytes :=
  match Crypto.base64Decode policyB64 with
  | none => none
  | some text =>
    match Policy.JsonText.parse text with
    | some (.obj ms) =>
      match PostPolicy.member ms PostPolicy.sExpiration with
      | some (.str e) => some e
      | _ => none
    | _ => none

/-- decoding a policy depends on the reader only through its value on the expiration text -/
theorem decodeWith_congr (rd rd' : Bytes → Option Int) (policyB64 : Bytes)
    (h : ∀ e, expirationText policyB64 = some e → rd e = rd' e) :
    PostPolicy.decodeWith rd policyB64 = PostPolicy.decodeWith rd' policyB64 := by
  unfold PostPolicy.decodeWith
  unfold expirationText at h
  cases hb : Crypto.base64Decode policyB64 with
  | none => rfl
  | some text =>
    rw [hb] at h
    simp only at h ⊢
    cases hj : Policy.JsonText.parse text with
    | none => rfl
    | some j =>
      rw [hj] at h
      simp only at h ⊢
      cases j with
      | obj ms =>
        simp only at h
        simp only [PostPolicy.ofJsonWith]
        split
        · rename_i e cs he _
          rw [he] at h
          rw [h e rfl]
        · rfl
      | _ => rfl

theorem formCompliantWith_congr (rd rd' : Bytes → Option Int) (policyB64 : Bytes)
    (h : ∀ e, expirationText policyB64 = some e → rd e = rd' e) (now : Int) (fields : List (Bytes × Bytes))
    (bucket : Bytes) (fileLen : Nat) :
    PostPolicy.formCompliantWith rd now policyB64 fields bucket fileLen =
      PostPolicy.formCompliantWith rd' now policyB64 fields bucket fileLen := by
  unfold PostPolicy.formCompliantWith PostPolicy.formDefectWith
  rw [decodeWith_congr rd rd' policyB64 h]

/-- THE POLICY CLAUSE OF C10 WITH THE DOCUMENT'S OWN READER: whenever the gate lets a form through and the
    `expiration` of the policy it carries is written in the strict form `YYYY-MM-DDTHH:MM:SS[.digits]Z` of the AWS
    document, the upload is compliant as the specification itself judges it (`PostPolicy.formCompliant`, reader
    `PostPolicy.parseInstant`). No bound on sizes. -/
theorem post_policy_enforced_strict (rawFields : List (Bytes × Bytes)) (policyField : Option Bytes) (bucket : Bytes)
    (fileLen : Nat) (nowNs : Int)
    (h : PostPolicyModel.gate nowNs policyField bucket (SigV4.multipartFields rawFields) fileLen = .pass)
    (hstrict : ∀ policyB64 e, policyField = some policyB64 → expirationText policyB64 = some e →
      (PostPolicy.parseInstant e).isSome = true) :
    ∃ policyB64, policyField = some policyB64 ∧
      PostPolicy.formCompliant (nowNs / 1000000000) policyB64 rawFields bucket fileLen = true := by
  obtain ⟨p, hp, hc⟩ := post_policy_enforced_strictFirst rawFields policyField bucket fileLen nowNs h
  refine ⟨p, hp, ?_⟩
  unfold PostPolicy.formCompliant PostPolicy.formDefect
  rw [formCompliantWith_congr rdStrictFirst PostPolicy.parseInstant p
    (fun e he => rdStrictFirst_of_strict e (hstrict p e hp he))] at hc
  exact hc

/-- non-vacuity: the example form of `C10Sig` passes the gate and its policy's expiration
    (`2099-01-01T00:00:00.000Z`) is in the strict form -/
theorem post_policy_enforced_strict_example :
    PostPolicyModel.gate S3V.C10.exampleNowNs (some S3V.C10.examplePolicyB64) [98, 107, 116]
      (SigV4.multipartFields S3V.C10.exampleFields) 5 = .pass ∧
    expirationText S3V.C10.examplePolicyB64 =
      some [50, 48, 57, 57, 45, 48, 49, 45, 48, 49, 84, 48, 48, 58, 48, 48, 58, 48, 48, 46, 48, 48, 48, 90] ∧
    (PostPolicy.parseInstant
      [50, 48, 57, 57, 45, 48, 49, 45, 48, 49, 84, 48, 48, 58, 48, 48, 58, 48, 48, 46, 48, 48, 48, 90]).isSome = true := by
  decide +kernel

example : PostPolicy.formCompliant (S3V.C10.exampleNowNs / 1000000000) S3V.C10.examplePolicyB64 S3V.C10.exampleFields
    [98, 107, 116] 5 = true := by
  obtain ⟨hg, he, hs⟩ := post_policy_enforced_strict_example
  obtain ⟨p, hp, hc⟩ := post_policy_enforced_strict S3V.C10.exampleFields (some S3V.C10.examplePolicyB64) [98, 107, 116] 5
    S3V.C10.exampleNowNs hg (by
      intro p e hp hee
      have hp' : S3V.C10.examplePolicyB64 = p := Option.some.inj hp
      rw [← hp', he] at hee
      have he' := Option.some.inj hee
      rw [← he']
      exact hs)
  have hp' : S3V.C10.examplePolicyB64 = p := Option.some.inj hp
  rw [hp']
  exact hc

end S3V.PostPolicyThm

#print axioms S3V.PostPolicyThm.dto_daysFromCivil_eq_counting
#print axioms S3V.PostPolicyThm.localSeconds_eq_civilToUnix
#print axioms S3V.PostPolicyThm.validFields_of_validCivil
#print axioms S3V.PostPolicyThm.parseInstant_implies_parseRfc3339'
#print axioms S3V.PostPolicyThm.parseInstant_implies_parseRfc3339
#print axioms S3V.PostPolicyThm.parseInstant_agrees
#print axioms S3V.PostPolicyThm.parseRfc3339_more_lenient
#print axioms S3V.PostPolicyThm.parseInstant_examples
#print axioms S3V.PostPolicyThm.rdStrictFirst_agrees
#print axioms S3V.PostPolicyThm.rdStrictFirst_of_strict
#print axioms S3V.PostPolicyThm.post_policy_enforced_strictFirst
#print axioms S3V.PostPolicyThm.decodeWith_congr
#print axioms S3V.PostPolicyThm.post_policy_enforced_strict
#print axioms S3V.PostPolicyThm.post_policy_enforced_strict_example
